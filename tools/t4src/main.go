// t4_grammar: regenerates lean/Ledger/Generated/Grammar.lean from the source of
// /repo (or $VERIF_REPO):
//
//   - lexer rules ASSET, ACCOUNT, NUMBER, PORTION, VARIABLE_NAME of
//     internal/machine/script/NumScript.g4
//   - Go pattern constants: pkg/accounts (SegmentRegex, Pattern), pkg/assets
//     (Pattern and the anchored expression handed to regexp.MustCompile),
//     internal/chart.go (ChartSegmentRegexp)
//
// Every expression is parsed with Go's own regexp/syntax (flags syntax.Perl, what
// regexp.Compile uses) and printed as a term of `Ledger.Regex.Re`. Lexer rules are
// first rewritten into the equivalent Go pattern (quoted literals escaped, groups
// made non-capturing, `~[..]` → `[^..]`). Any construct outside the translated
// subset aborts with a message naming it.
package main

import (
	"fmt"
	"go/ast"
	"go/parser"
	"go/token"
	"os"
	"path/filepath"
	"regexp"
	"regexp/syntax"
	"strconv"
	"strings"
	"unicode/utf8"
)

func die(format string, a ...any) {
	fmt.Fprintf(os.Stderr, "t4_grammar: "+format+"\n", a...)
	os.Exit(1)
}

// ---- Go constants ------------------------------------------------------------

type goFile struct {
	consts map[string]ast.Expr
	vars   map[string]ast.Expr
}

func loadGo(path string) *goFile {
	fset := token.NewFileSet()
	f, err := parser.ParseFile(fset, path, nil, 0)
	if err != nil {
		die("cannot parse %s: %v", path, err)
	}
	g := &goFile{consts: map[string]ast.Expr{}, vars: map[string]ast.Expr{}}
	for _, d := range f.Decls {
		gd, ok := d.(*ast.GenDecl)
		if !ok {
			continue
		}
		for _, s := range gd.Specs {
			vs, ok := s.(*ast.ValueSpec)
			if !ok {
				continue
			}
			for i, n := range vs.Names {
				if i < len(vs.Values) {
					if gd.Tok == token.CONST {
						g.consts[n.Name] = vs.Values[i]
					} else {
						g.vars[n.Name] = vs.Values[i]
					}
				}
			}
		}
	}
	return g
}

// evalString evaluates a constant string expression: literals, identifiers of
// constants of the same file, `+`, parentheses.
func (g *goFile) evalString(e ast.Expr, path string) string {
	switch x := e.(type) {
	case *ast.BasicLit:
		if x.Kind != token.STRING {
			die("%s: non-string literal %s in pattern expression", path, x.Value)
		}
		s, err := strconv.Unquote(x.Value)
		if err != nil {
			die("%s: cannot unquote %s", path, x.Value)
		}
		return s
	case *ast.Ident:
		c, ok := g.consts[x.Name]
		if !ok {
			die("%s: identifier %s is not a constant of this file", path, x.Name)
		}
		return g.evalString(c, path)
	case *ast.BinaryExpr:
		if x.Op != token.ADD {
			die("%s: unsupported operator %s in pattern expression", path, x.Op)
		}
		return g.evalString(x.X, path) + g.evalString(x.Y, path)
	case *ast.ParenExpr:
		return g.evalString(x.X, path)
	}
	die("%s: unsupported pattern expression %T", path, e)
	return ""
}

// mustCompileArg returns the string handed to regexp.MustCompile in `var name = …`.
func (g *goFile) mustCompileArg(name, path string) string {
	v, ok := g.vars[name]
	if !ok {
		die("%s: var %s not found", path, name)
	}
	call, ok := v.(*ast.CallExpr)
	if !ok || len(call.Args) != 1 {
		die("%s: var %s is not a call with one argument", path, name)
	}
	sel, ok := call.Fun.(*ast.SelectorExpr)
	if !ok || sel.Sel.Name != "MustCompile" {
		die("%s: var %s is not regexp.MustCompile(…)", path, name)
	}
	return g.evalString(call.Args[0], path)
}

// ---- ANTLR lexer rules ---------------------------------------------------------

func lexerRule(src, name string) string {
	re := regexp.MustCompile(`(?m)^` + name + `\s*:`)
	loc := re.FindStringIndex(src)
	if loc == nil {
		die("NumScript.g4: lexer rule %s not found", name)
	}
	i := loc[1]
	start := i
	inQuote, inSet := false, false
	for i < len(src) {
		c := src[i]
		switch {
		case c == '\\':
			i++
		case inQuote:
			if c == '\'' {
				inQuote = false
			}
		case inSet:
			if c == ']' {
				inSet = false
			}
		case c == '\'':
			inQuote = true
		case c == '[':
			inSet = true
		case c == ';':
			return src[start:i]
		}
		i++
	}
	die("NumScript.g4: rule %s is not terminated", name)
	return ""
}

// antlrToGo rewrites the body of a lexer rule into Go regexp syntax.
func antlrToGo(name, body string) string {
	var sb strings.Builder
	i := 0
	for i < len(body) {
		c := body[i]
		switch {
		case c == ' ' || c == '\t' || c == '\n' || c == '\r':
			i++
		case c == '\'':
			j := i + 1
			var lit strings.Builder
			for j < len(body) && body[j] != '\'' {
				if body[j] == '\\' {
					j++
					if j >= len(body) {
						die("rule %s: dangling escape", name)
					}
					switch body[j] {
					case 'n':
						lit.WriteByte('\n')
					case 'r':
						lit.WriteByte('\r')
					case 't':
						lit.WriteByte('\t')
					case '\\', '\'':
						lit.WriteByte(body[j])
					default:
						die("rule %s: unsupported escape \\%c in literal", name, body[j])
					}
				} else {
					lit.WriteByte(body[j])
				}
				j++
			}
			if j >= len(body) {
				die("rule %s: unterminated literal", name)
			}
			sb.WriteString(regexp.QuoteMeta(lit.String()))
			i = j + 1
		case c == '[':
			j := i + 1
			for j < len(body) && body[j] != ']' {
				if body[j] == '\\' {
					j++
				}
				j++
			}
			if j >= len(body) {
				die("rule %s: unterminated set", name)
			}
			set := body[i : j+1]
			if strings.Contains(set, `\u`) || strings.Contains(set, `\p`) {
				die("rule %s: unsupported escape in set %s", name, set)
			}
			sb.WriteString(set)
			i = j + 1
		case c == '~':
			k := i + 1
			for k < len(body) && (body[k] == ' ' || body[k] == '\t') {
				k++
			}
			if k >= len(body) || body[k] != '[' {
				die("rule %s: `~` is only supported in front of a set", name)
			}
			sb.WriteString("[^")
			i = k + 1
			// copy the remainder of the set through the '[' case logic
			j := i
			for j < len(body) && body[j] != ']' {
				if body[j] == '\\' {
					j++
				}
				j++
			}
			if j >= len(body) {
				die("rule %s: unterminated set", name)
			}
			sb.WriteString(body[i : j+1])
			i = j + 1
		case c == '(':
			sb.WriteString("(?:")
			i++
		case c == ')' || c == '|' || c == '*' || c == '+' || c == '?':
			sb.WriteByte(c)
			i++
		case c == '-' && i+1 < len(body) && body[i+1] == '>':
			die("rule %s: lexer commands (->) are not translated", name)
		default:
			die("rule %s: unsupported construct at %q", name, body[i:])
		}
	}
	return sb.String()
}

// ---- Re term printing ------------------------------------------------------------

func chrTerm(r rune) string { return fmt.Sprintf("(Re.cls [(%d, %d)])", r, r) }

func catTerms(ts []string) string {
	if len(ts) == 0 {
		return "Re.eps"
	}
	if len(ts) == 1 {
		return ts[0]
	}
	return "(Re.cat " + ts[0] + " " + catTerms(ts[1:]) + ")"
}

func altTerms(ts []string) string {
	if len(ts) == 1 {
		return ts[0]
	}
	return "(Re.alt " + ts[0] + " " + altTerms(ts[1:]) + ")"
}

func term(what string, re *syntax.Regexp) string {
	if re.Flags&syntax.FoldCase != 0 {
		die("%s: case-insensitive matching is not translated", what)
	}
	switch re.Op {
	case syntax.OpNoMatch:
		return "Re.emp"
	case syntax.OpEmptyMatch:
		return "Re.eps"
	case syntax.OpLiteral:
		ts := make([]string, 0, len(re.Rune))
		for _, r := range re.Rune {
			ts = append(ts, chrTerm(r))
		}
		return catTerms(ts)
	case syntax.OpCharClass:
		var ps []string
		for i := 0; i+1 < len(re.Rune); i += 2 {
			ps = append(ps, fmt.Sprintf("(%d, %d)", re.Rune[i], re.Rune[i+1]))
		}
		return "(Re.cls [" + strings.Join(ps, ", ") + "])"
	case syntax.OpAnyCharNotNL:
		return fmt.Sprintf("(Re.cls [(0, 9), (11, %d)])", utf8.MaxRune)
	case syntax.OpAnyChar:
		return fmt.Sprintf("(Re.cls [(0, %d)])", utf8.MaxRune)
	case syntax.OpBeginText:
		return "Re.bol"
	case syntax.OpEndText:
		return "Re.eol"
	case syntax.OpCapture:
		return term(what, re.Sub[0])
	case syntax.OpStar:
		return "(Re.star " + term(what, re.Sub[0]) + ")"
	case syntax.OpPlus:
		return "(Re.plus " + term(what, re.Sub[0]) + ")"
	case syntax.OpQuest:
		return "(Re.opt " + term(what, re.Sub[0]) + ")"
	case syntax.OpRepeat:
		max := "none"
		if re.Max >= 0 {
			max = fmt.Sprintf("(some %d)", re.Max)
		}
		return fmt.Sprintf("(Re.rep %s %d %s)", term(what, re.Sub[0]), re.Min, max)
	case syntax.OpConcat:
		var ts []string
		for _, s := range re.Sub {
			if s.Op == syntax.OpLiteral && s.Flags&syntax.FoldCase == 0 {
				for _, r := range s.Rune {
					ts = append(ts, chrTerm(r))
				}
			} else {
				ts = append(ts, term(what, s))
			}
		}
		return catTerms(ts)
	case syntax.OpAlternate:
		var ts []string
		for _, s := range re.Sub {
			ts = append(ts, term(what, s))
		}
		return altTerms(ts)
	}
	die("%s: regexp construct %s is not translated", what, re.Op)
	return ""
}

func reTerm(what, pattern string) string {
	re, err := syntax.Parse(pattern, syntax.Perl)
	if err != nil {
		die("%s: Go cannot parse %q: %v", what, pattern, err)
	}
	return term(what, re)
}

// importValidation reports whether the body of `importLog` contains the calls
// `<x>.Transaction.Postings.Validate()` and `<x>.RevertTransaction.Postings.Validate()`.
func importValidation(path string) (created, reverted bool) {
	fset := token.NewFileSet()
	f, err := parser.ParseFile(fset, path, nil, 0)
	if err != nil {
		die("cannot parse %s: %v", path, err)
	}
	found := false
	for _, d := range f.Decls {
		fd, ok := d.(*ast.FuncDecl)
		if !ok || fd.Name.Name != "importLog" || fd.Body == nil {
			continue
		}
		found = true
		ast.Inspect(fd.Body, func(n ast.Node) bool {
			call, ok := n.(*ast.CallExpr)
			if !ok {
				return true
			}
			sel, ok := call.Fun.(*ast.SelectorExpr)
			if !ok || sel.Sel.Name != "Validate" {
				return true
			}
			ps, ok := sel.X.(*ast.SelectorExpr)
			if !ok || ps.Sel.Name != "Postings" {
				return true
			}
			if tx, ok := ps.X.(*ast.SelectorExpr); ok {
				switch tx.Sel.Name {
				case "Transaction":
					created = true
				case "RevertTransaction":
					reverted = true
				}
			}
			return true
		})
	}
	if !found {
		die("%s: func importLog not found", path)
	}
	return
}

func leanString(s string) string {
	var sb strings.Builder
	sb.WriteByte('"')
	for _, r := range s {
		switch {
		case r == '"' || r == '\\':
			sb.WriteByte('\\')
			sb.WriteRune(r)
		case r == '\n':
			sb.WriteString(`\n`)
		case r == '\r':
			sb.WriteString(`\r`)
		case r == '\t':
			sb.WriteString(`\t`)
		case r < 0x20 || r == 0x7f:
			sb.WriteString(fmt.Sprintf(`\x%02x`, r))
		default:
			sb.WriteRune(r)
		}
	}
	sb.WriteByte('"')
	return sb.String()
}

func main() {
	repo := os.Getenv("VERIF_REPO")
	if repo == "" {
		repo = "/repo"
	}
	if len(os.Args) > 1 {
		repo = os.Args[1]
	}
	var out strings.Builder
	out.WriteString("-- GENERATED-MODULE: Ledger.Generated.Grammar\n")
	out.WriteString("-- Regenerated by tools/t4_grammar on every check from NumScript.g4 and the Go\n")
	out.WriteString("-- pattern constants. Do not edit.\n")
	out.WriteString("import Ledger.Base.Regex\n\nnamespace Ledger.Generated.Grammar\nopen Ledger.Regex\n\n")

	emit := func(name, doc, pattern string) {
		what := name
		fmt.Fprintf(&out, "/-- %s -/\ndef %sSrc : String := %s\n", doc, name, leanString(pattern))
		fmt.Fprintf(&out, "def %s : Re :=\n  %s\n\n", name, reTerm(what, pattern))
	}

	// Go constants
	accPath := filepath.Join(repo, "pkg/accounts/accounts.go")
	acc := loadGo(accPath)
	emit("accountSegment", "pkg/accounts: SegmentRegex", acc.evalString(&ast.Ident{Name: "SegmentRegex"}, accPath))
	accPattern := acc.evalString(&ast.Ident{Name: "Pattern"}, accPath)
	if got := acc.mustCompileArg("Regexp", accPath); got != accPattern {
		die("%s: Regexp is compiled from %q, not from Pattern %q", accPath, got, accPattern)
	}
	emit("accountPattern", "pkg/accounts: Pattern = the expression compiled into accounts.Regexp", accPattern)

	assPath := filepath.Join(repo, "pkg/assets/asset.go")
	ass := loadGo(assPath)
	emit("assetPatternBody", "pkg/assets: Pattern (unanchored constant)", ass.evalString(&ast.Ident{Name: "Pattern"}, assPath))
	emit("assetPattern", "pkg/assets: the expression compiled into assets.Regexp", ass.mustCompileArg("Regexp", assPath))

	chartPath := filepath.Join(repo, "internal/chart.go")
	ch := loadGo(chartPath)
	emit("chartSegmentPattern", "internal/chart.go: ChartSegmentRegexp", ch.mustCompileArg("ChartSegmentRegexp", chartPath))

	// lexer rules
	g4Path := filepath.Join(repo, "internal/machine/script/NumScript.g4")
	g4b, err := os.ReadFile(g4Path)
	if err != nil {
		die("cannot read %s: %v", g4Path, err)
	}
	g4 := string(g4b)
	for _, r := range []struct{ rule, name string }{
		{"ASSET", "lexAsset"}, {"ACCOUNT", "lexAccount"}, {"NUMBER", "lexNumber"},
		{"PORTION", "lexPortion"}, {"VARIABLE_NAME", "lexVariableName"},
	} {
		body := lexerRule(g4, r.rule)
		emit(r.name, "NumScript.g4 lexer rule "+r.rule+" (rewritten into Go regexp syntax)", antlrToGo(r.rule, body))
	}
	// order of the five rules in the grammar file (ANTLR: longest match, then first rule)
	type pos struct {
		name string
		at   int
	}
	var order []pos
	for _, r := range []string{"ASSET", "ACCOUNT", "NUMBER", "PORTION", "VARIABLE_NAME"} {
		loc := regexp.MustCompile(`(?m)^` + r + `\s*:`).FindStringIndex(g4)
		order = append(order, pos{r, loc[0]})
	}
	for i := range order {
		for j := i + 1; j < len(order); j++ {
			if order[j].at < order[i].at {
				order[i], order[j] = order[j], order[i]
			}
		}
	}
	var names []string
	for _, o := range order {
		names = append(names, strconv.Quote(o.name))
	}
	fmt.Fprintf(&out, "/-- the five literal-token rules in grammar-file order (first rule wins ties) -/\ndef lexerRuleOrder : List String := [%s]\n\n", strings.Join(names, ", "))
	// does importLog validate the postings of the logs it replays? (controller_default.go)
	created, reverted := importValidation(filepath.Join(repo, "internal/controller/ledger/controller_default.go"))
	fmt.Fprintf(&out, "/-- `importLog` calls `payload.Transaction.Postings.Validate()` (NEW_TRANSACTION logs) -/\ndef importValidatesCreated : Bool := %v\n\n", created)
	fmt.Fprintf(&out, "/-- `importLog` calls `payload.RevertTransaction.Postings.Validate()` (REVERTED_TRANSACTION logs) -/\ndef importValidatesReverted : Bool := %v\n\n", reverted)
	out.WriteString("end Ledger.Generated.Grammar\n")
	fmt.Print(out.String())
}
