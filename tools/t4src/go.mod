module t4grammar

go 1.22
