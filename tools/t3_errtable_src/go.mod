module t3errtable

go 1.22
