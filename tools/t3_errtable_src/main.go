// t3_errtable: go/ast translator. Reads the error→HTTP status mapping of the API
// layer (common.HandleCommon*Errors, every `switch { case errors.Is(err, …): … }`
// of api/v1 and api/v2 handlers, bulking.mapBulkElementError) from the working
// tree and prints the Lean module Ledger.Generated.ErrTable.
//
// Fails (non-zero exit, message naming the construct) on any case clause or
// response call it cannot translate, so that a new construct is never silently
// dropped from the table.
package main

import (
	"fmt"
	"go/ast"
	"go/parser"
	"go/token"
	"os"
	"path/filepath"
	"sort"
	"strconv"
	"strings"
)

type action struct {
	kind   string // status | delegate | other
	status int
	code   string
	target string
}

type entry struct {
	fn, err string
	act     action
}

var consts = map[string]string{
	"api.ErrorInternal":     "INTERNAL",
	"api.ErrorCodeNotFound": "NOT_FOUND",
}

var httpStatus = map[string]int{
	"StatusBadRequest": 400, "StatusNotFound": 404, "StatusConflict": 409, "StatusPreconditionFailed": 412,
	"StatusRequestEntityTooLarge": 413, "StatusInternalServerError": 500, "StatusServiceUnavailable": 503,
	"StatusUnauthorized": 401, "StatusForbidden": 403, "StatusNotImplemented": 501, "StatusBadGateway": 502,
}

func die(format string, a ...any) {
	fmt.Fprintf(os.Stderr, "t3_errtable: "+format+"\n", a...)
	os.Exit(1)
}

func exprString(e ast.Expr) string {
	switch x := e.(type) {
	case *ast.Ident:
		return x.Name
	case *ast.SelectorExpr:
		return exprString(x.X) + "." + x.Sel.Name
	case *ast.BasicLit:
		return x.Value
	}
	return fmt.Sprintf("%T", e)
}

// errName: canonical name of the error operand of errors.Is(err, X).
func errName(e ast.Expr, pos string) string {
	switch x := e.(type) {
	case *ast.UnaryExpr: // &pkg.Err{}
		return errName(x.X, pos)
	case *ast.CompositeLit: // pkg.Err{}
		return errName(x.Type, pos)
	case *ast.CallExpr: // pkg.ErrX("")
		return errName(x.Fun, pos)
	case *ast.SelectorExpr:
		return x.Sel.Name
	case *ast.Ident:
		return x.Name
	}
	die("%s: cannot name error operand %T", pos, e)
	return ""
}

// collect the error names tested by a case expression (a || chain of errors.Is /
// postgres.IsNotFoundError calls).
func caseErrs(e ast.Expr, pos string) []string {
	switch x := e.(type) {
	case *ast.BinaryExpr:
		if x.Op == token.LOR {
			return append(caseErrs(x.X, pos), caseErrs(x.Y, pos)...)
		}
	case *ast.ParenExpr:
		return caseErrs(x.X, pos)
	case *ast.CallExpr:
		fn := exprString(x.Fun)
		switch fn {
		case "errors.Is":
			if len(x.Args) == 2 {
				return []string{errName(x.Args[1], pos)}
			}
		case "postgres.IsNotFoundError":
			return []string{"ErrNotFound"}
		}
		die("%s: unsupported predicate %s in case", pos, fn)
	}
	die("%s: unsupported case expression %T", pos, e)
	return nil
}

func codeOf(e ast.Expr, pkg string, pos string) string {
	switch x := e.(type) {
	case *ast.BasicLit:
		s, err := strconv.Unquote(x.Value)
		if err != nil {
			die("%s: bad string literal %s", pos, x.Value)
		}
		return s
	case *ast.Ident:
		if v, ok := consts["common."+x.Name]; ok && pkg == "common" {
			return v
		}
		die("%s: unknown error-code identifier %s", pos, x.Name)
	case *ast.SelectorExpr:
		k := exprString(x)
		if v, ok := consts[k]; ok {
			return v
		}
		die("%s: unknown error-code constant %s", pos, k)
	}
	die("%s: unsupported error-code expression %T", pos, e)
	return ""
}

func actionOf(stmts []ast.Stmt, pkg string, pos string) action {
	for _, st := range stmts {
		switch s := st.(type) {
		case *ast.ExprStmt:
			call, ok := s.X.(*ast.CallExpr)
			if !ok {
				continue
			}
			fn := exprString(call.Fun)
			switch fn {
			case "api.BadRequest", "api.BadRequestWithDetails":
				return action{kind: "status", status: 400, code: codeOf(call.Args[1], pkg, pos)}
			case "api.NotFound":
				return action{kind: "status", status: 404, code: "NOT_FOUND"}
			case "api.WriteErrorResponse":
				sel, ok := call.Args[1].(*ast.SelectorExpr)
				if !ok {
					die("%s: WriteErrorResponse with non-constant status", pos)
				}
				st, ok := httpStatus[sel.Sel.Name]
				if !ok {
					die("%s: unknown http status %s", pos, sel.Sel.Name)
				}
				return action{kind: "status", status: st, code: codeOf(call.Args[2], pkg, pos)}
			case "InternalServerError", "common.InternalServerError", "api.InternalServerError":
				return action{kind: "status", status: 500, code: "INTERNAL"}
			case "HandleCommonErrors", "common.HandleCommonErrors":
				return action{kind: "delegate", target: "common.HandleCommonErrors"}
			case "HandleCommonWriteErrors", "common.HandleCommonWriteErrors":
				return action{kind: "delegate", target: "common.HandleCommonWriteErrors"}
			case "HandleCommonPaginationErrors", "common.HandleCommonPaginationErrors":
				return action{kind: "delegate", target: "common.HandleCommonPaginationErrors"}
			case "w.WriteHeader":
				if sel, ok := call.Args[0].(*ast.SelectorExpr); ok {
					if st, ok := httpStatus[sel.Sel.Name]; ok {
						return action{kind: "status", status: st, code: ""}
					}
				}
				die("%s: WriteHeader with unknown status", pos)
			default:
				die("%s: unsupported response call %s", pos, fn)
			}
		case *ast.ReturnStmt: // mapBulkElementError: return <code>; bulk elements are always answered 400
			if len(s.Results) == 1 {
				return action{kind: "status", status: 400, code: codeOf(s.Results[0], pkg, pos)}
			}
		case *ast.AssignStmt:
			return action{kind: "other", target: "assign"}
		}
	}
	die("%s: case without a response", pos)
	return action{}
}

func isErrSwitch(sw *ast.SwitchStmt) bool {
	if sw.Tag != nil {
		return false
	}
	for _, c := range sw.Body.List {
		cc := c.(*ast.CaseClause)
		for _, e := range cc.List {
			found := false
			ast.Inspect(e, func(n ast.Node) bool {
				if call, ok := n.(*ast.CallExpr); ok {
					fn := exprString(call.Fun)
					if fn == "errors.Is" || fn == "postgres.IsNotFoundError" {
						found = true
					}
				}
				return true
			})
			if found {
				return true
			}
		}
	}
	return false
}

func main() {
	repo := os.Getenv("VERIF_REPO")
	if repo == "" {
		repo = "/repo"
	}
	fset := token.NewFileSet()
	// 1. error-code constants of api/common/errors.go (+ middleware_resolver.go)
	for _, f := range []string{"internal/api/common/errors.go", "internal/api/common/middleware_resolver.go"} {
		file, err := parser.ParseFile(fset, filepath.Join(repo, f), nil, 0)
		if err != nil {
			die("%v", err)
		}
		for _, d := range file.Decls {
			gd, ok := d.(*ast.GenDecl)
			if !ok || gd.Tok != token.CONST {
				continue
			}
			for _, sp := range gd.Specs {
				vs := sp.(*ast.ValueSpec)
				for i, n := range vs.Names {
					if i < len(vs.Values) {
						if bl, ok := vs.Values[i].(*ast.BasicLit); ok && bl.Kind == token.STRING {
							s, _ := strconv.Unquote(bl.Value)
							consts["common."+n.Name] = s
						}
					}
				}
			}
		}
	}
	// 2. every error switch
	var entries []entry
	defaults := map[string]action{}
	var order []string
	dirs := []struct{ dir, pkg string }{
		{"internal/api/common", "common"}, {"internal/api/v1", "v1"}, {"internal/api/v2", "v2"}, {"internal/api/bulking", "bulking"},
	}
	for _, d := range dirs {
		files, _ := filepath.Glob(filepath.Join(repo, d.dir, "*.go"))
		sort.Strings(files)
		for _, path := range files {
			if strings.HasSuffix(path, "_test.go") || strings.HasSuffix(path, "mocks.go") {
				continue
			}
			file, err := parser.ParseFile(fset, path, nil, 0)
			if err != nil {
				die("%v", err)
			}
			for _, decl := range file.Decls {
				fd, ok := decl.(*ast.FuncDecl)
				if !ok || fd.Body == nil {
					continue
				}
				k := 0
				// calls to the shared error handlers outside any error switch:
				// `if err != nil { common.HandleCommonErrors(w, r, err) }`
				type span struct{ a, b token.Pos }
				var spans []span
				ast.Inspect(fd.Body, func(n ast.Node) bool {
					if sw, ok := n.(*ast.SwitchStmt); ok && isErrSwitch(sw) {
						spans = append(spans, span{sw.Pos(), sw.End()})
					}
					return true
				})
				nd := 0
				ast.Inspect(fd.Body, func(n ast.Node) bool {
					call, ok := n.(*ast.CallExpr)
					if !ok {
						return true
					}
					for _, sp := range spans {
						if call.Pos() >= sp.a && call.End() <= sp.b {
							return true
						}
					}
					fn := exprString(call.Fun)
					var act action
					switch fn {
					case "HandleCommonErrors", "common.HandleCommonErrors":
						act = action{kind: "delegate", target: "common.HandleCommonErrors"}
					case "HandleCommonWriteErrors", "common.HandleCommonWriteErrors":
						act = action{kind: "delegate", target: "common.HandleCommonWriteErrors"}
					case "HandleCommonPaginationErrors", "common.HandleCommonPaginationErrors":
						act = action{kind: "delegate", target: "common.HandleCommonPaginationErrors"}
					default:
						return true
					}
					if d.pkg == "common" {
						return true
					}
					nd++
					name := d.pkg + "." + fd.Name.Name + "@direct"
					if nd > 1 {
						name += "#" + strconv.Itoa(nd)
					}
					order = append(order, name)
					defaults[name] = act
					return true
				})
				ast.Inspect(fd.Body, func(n ast.Node) bool {
					sw, ok := n.(*ast.SwitchStmt)
					if !ok || !isErrSwitch(sw) {
						return true
					}
					k++
					name := d.pkg + "." + fd.Name.Name
					if k > 1 {
						name += "#" + strconv.Itoa(k)
					}
					order = append(order, name)
					hasDefault := false
					for _, c := range sw.Body.List {
						cc := c.(*ast.CaseClause)
						pos := fset.Position(cc.Pos()).String()
						act := actionOf(cc.Body, d.pkg, pos)
						if cc.List == nil {
							hasDefault = true
							defaults[name] = act
							continue
						}
						for _, e := range cc.List {
							for _, en := range caseErrs(e, pos) {
								entries = append(entries, entry{fn: name, err: en, act: act})
							}
						}
					}
					if !hasDefault {
						die("%s: error switch of %s has no default branch", fset.Position(sw.Pos()), name)
					}
					return true
				})
			}
		}
	}
	// 3. print (names are interned: the Lean side computes on indices)
	q := func(s string) string { return strconv.Quote(s) }
	var fnNames, errNames []string
	fnID := map[string]int{}
	errID := map[string]int{}
	internFn := func(n string) int {
		if id, ok := fnID[n]; ok {
			return id
		}
		fnID[n] = len(fnNames)
		fnNames = append(fnNames, n)
		return fnID[n]
	}
	internErr := func(n string) int {
		if id, ok := errID[n]; ok {
			return id
		}
		errID[n] = len(errNames)
		errNames = append(errNames, n)
		return errID[n]
	}
	for _, n := range order {
		internFn(n)
	}
	for _, e := range entries {
		internFn(e.fn)
		internErr(e.err)
	}
	pa := func(a action) string {
		switch a.kind {
		case "status":
			return fmt.Sprintf(".status %d %s", a.status, q(a.code))
		case "delegate":
			if _, ok := fnID[a.target]; !ok {
				die("delegation to unknown function %s", a.target)
			}
			return fmt.Sprintf(".delegate %d", fnID[a.target])
		default:
			return fmt.Sprintf(".other %s", q(a.target))
		}
	}
	list := func(xs []string) string {
		var sb strings.Builder
		for i, x := range xs {
			if i > 0 {
				sb.WriteString(",\n  ")
			}
			sb.WriteString(q(x))
		}
		return sb.String()
	}
	fmt.Println("-- GENERATED-MODULE: Ledger.Generated.ErrTable")
	fmt.Println("-- Generated by tools/t3_errtable from internal/api/{common,v1,v2,bulking}; do not edit.")
	fmt.Println("namespace Ledger.Generated.ErrTable")
	fmt.Println()
	fmt.Println("/-- Names of the error switches (`pkg.func`, `#k` for the k-th switch of a function,")
	fmt.Println("    `@direct` for a call to a shared handler outside any switch); index = id. -/")
	fmt.Printf("def fnNames : List String := [\n  %s]\n\n", list(fnNames))
	fmt.Println("/-- Names of the error types tested by `errors.Is`; index = id. -/")
	fmt.Printf("def errNames : List String := [\n  %s]\n\n", list(errNames))
	fmt.Println("/-- Named ids, so that hand-written specifications can refer to switches and error")
	fmt.Println("    types by name without any string computation in proofs. -/")
	for i, n := range fnNames {
		fmt.Printf("abbrev F.«%s» : Nat := %d\n", n, i)
	}
	for i, n := range errNames {
		fmt.Printf("abbrev E.«%s» : Nat := %d\n", n, i)
	}
	fmt.Println()
	fmt.Println("inductive Action where")
	fmt.Println("  | status (code : Nat) (errCode : String)")
	fmt.Println("  | delegate (fn : Nat)")
	fmt.Println("  | other (what : String)")
	fmt.Println("  deriving Repr, DecidableEq")
	fmt.Println()
	fmt.Println("structure Entry where")
	fmt.Println("  fn : Nat")
	fmt.Println("  err : Nat")
	fmt.Println("  act : Action")
	fmt.Println("  deriving Repr, DecidableEq")
	fmt.Println()
	fmt.Println("/-- One row per `case errors.Is(err, E)` of every error switch, in source order. -/")
	fmt.Println("def entries : List Entry := [")
	for i, e := range entries {
		sep := ","
		if i == len(entries)-1 {
			sep = ""
		}
		fmt.Printf("  ⟨%d, %d, %s⟩%s  -- %s, %s\n", fnID[e.fn], errID[e.err], pa(e.act), sep, e.fn, e.err)
	}
	fmt.Println("]")
	fmt.Println()
	fmt.Println("/-- The `default:` branch of each switch. -/")
	fmt.Println("def defaults : List (Nat × Action) := [")
	for i, n := range order {
		sep := ","
		if i == len(order)-1 {
			sep = ""
		}
		fmt.Printf("  (%d, %s)%s  -- %s\n", fnID[n], pa(defaults[n]), sep, n)
	}
	fmt.Println("]")
	fmt.Println()
	fmt.Println("end Ledger.Generated.ErrTable")
}
