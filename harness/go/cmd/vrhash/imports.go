//go:build verif

package main

import (
	_ "github.com/formancehq/ledger/internal/verif/wlhash"
)
