//go:build verif

// vrshape: renders, with the REAL store code over a recording driver, every read
// query of the shape matrix (resource × call × PIT/OOT × date mode × expand ×
// filter × feature set × alone-in-bucket) and prints structural facts about the
// rendered SQL (or the error the code answered) as JSON lines. tools/t1_readshapes
// turns them into lean/Ledger/Generated/ReadShapes.lean.
package main

import (
	"context"
	"encoding/json"
	"errors"
	"fmt"
	"os"
	"regexp"
	"sort"
	"strings"

	"github.com/formancehq/go-libs/v5/pkg/query"
	"github.com/formancehq/go-libs/v5/pkg/types/time"

	ledger "github.com/formancehq/ledger/internal"
	"github.com/formancehq/ledger/internal/storage/bucket"
	"github.com/formancehq/ledger/internal/storage/common"
	ledgerstore "github.com/formancehq/ledger/internal/storage/ledger"
	"github.com/formancehq/ledger/internal/verif/recdb"
	"github.com/formancehq/ledger/pkg/features"
)

type Shape struct {
	// input
	MovesHistory bool   `json:"mh"`   // MOVES_HISTORY = ON
	PCEV         bool   `json:"pcev"` // MOVES_HISTORY_POST_COMMIT_EFFECTIVE_VOLUMES = SYNC
	AccMetaHist  bool   `json:"amh"`  // ACCOUNT_METADATA_HISTORY = SYNC
	TxMetaHist   bool   `json:"tmh"`  // TRANSACTION_METADATA_HISTORY = SYNC
	Alone        bool   `json:"alone"`
	Resource     string `json:"resource"`
	Call         string `json:"call"`
	PIT          bool   `json:"pit"`
	OOT          bool   `json:"oot"`
	InsDate      bool   `json:"insDate"`
	Group        int    `json:"group"`
	Expand       string `json:"expand"`
	Filter       string `json:"filter"`
	// observed
	Err         string   `json:"err"`         // "" | missing-feature:<F> | invalid-query | not-found | other:<msg>
	Statements  int      `json:"statements"`  // number of SQL statements issued
	BaseRefs    int      `json:"baseRefs"`    // FROM/JOIN references to bucket tables
	LedgerPreds int      `json:"ledgerPreds"` // occurrences of  ledger = '<name>'
	OtherLedger int      `json:"otherLedger"` // ledger predicates naming anything else
	Tables      []string `json:"tables"`      // bucket tables referenced
	UsesPCEV    bool     `json:"usesPCEV"`    // text mentions post_commit_effective_volumes
	UsesEffDate bool     `json:"usesEffDate"` // text mentions effective_date
	UsesInsDate bool     `json:"usesInsDate"` // text mentions insertion_date (moves)
	Panic       string   `json:"panic,omitempty"`
}

const bucketName = "bkt"
const ledgerName = "ledger-a"

var (
	reBase   = regexp.MustCompile(`(?i)\b(?:from|join)\s+"` + bucketName + `"\.("?[a-z_]+"?)`)
	reLedger = regexp.MustCompile(`(?i)\bledger"?\s*=\s*'([^']*)'`)
)

func classify(err error) string {
	if err == nil {
		return ""
	}
	var mf ledgerstore.ErrMissingFeature
	if errors.As(err, &mf) {
		return "missing-feature:" + strings.TrimPrefix(strings.TrimPrefix(mf.Error(), "missing feature '"), "missing feature ")
	}
	var iq common.ErrInvalidQuery
	if errors.As(err, &iq) {
		return "invalid-query"
	}
	if strings.Contains(err.Error(), "no rows") || strings.Contains(err.Error(), "not found") {
		return "" // the recording driver answers with no rows: the query was rendered and issued
	}
	return "other:" + err.Error()
}

// emit prints one shape: raw JSON (for the translator) or a protocol case line.
var focus = ""

func emit(enc *json.Encoder, asCase bool, sh Shape) {
	if !asCase {
		_ = enc.Encode(sh)
		return
	}
	in := map[string]any{"mh": sh.MovesHistory, "pcev": sh.PCEV, "amh": sh.AccMetaHist, "tmh": sh.TxMetaHist,
		"alone": sh.Alone, "resource": sh.Resource, "call": sh.Call, "pit": sh.PIT, "oot": sh.OOT,
		"insDate": sh.InsDate, "group": sh.Group, "expand": sh.Expand, "filter": sh.Filter, "focus": focus}
	_ = enc.Encode(map[string]any{"f": "shape", "in": in, "out": sh})
}

func main() {
	// usage: vrshape raw | vrshape shapes [-seed N] [-n N] [-wide] [-replay f]  (the matrix is fixed and exhaustive;
	// seed/n are accepted for interface compatibility and ignored)
	asCase := len(os.Args) > 1 && os.Args[1] == "shapes"
	for i, a := range os.Args {
		if a == "-focus" && i+1 < len(os.Args) {
			focus = os.Args[i+1]
		}
	}
	enc := json.NewEncoder(os.Stdout)
	pit := time.Now()
	oot := pit.Add(-1000)
	type spec struct {
		resource, call, expand, filter string
		pit, oot, ins            bool
		group                    int
	}
	var specs []spec
	for _, p := range []bool{false, true} {
		for _, call := range []string{"list", "count", "get"} {
			for _, ex := range []string{"", "volumes", "effectiveVolumes"} {
				for _, f := range []string{"", "metadata", "account"} {
					if call != "list" && (ex != "" && f != "") {
						continue
					}
					specs = append(specs, spec{resource: "transactions", call: call, expand: ex, filter: f, pit: p})
				}
				for _, f := range []string{"", "metadata", "address", "balance"} {
					if call != "list" && (ex != "" && f != "") {
						continue
					}
					specs = append(specs, spec{resource: "accounts", call: call, expand: ex, filter: f, pit: p})
				}
			}
		}
		for _, o := range []bool{false, true} {
			for _, ins := range []bool{false, true} {
				for _, g := range []int{0, 1} {
					for _, f := range []string{"", "account", "metadata", "balance"} {
						for _, call := range []string{"list", "count"} {
							if call == "count" && (g != 0 || f != "") {
								continue
							}
							specs = append(specs, spec{resource: "volumes", call: call, filter: f, pit: p, oot: o, ins: ins, group: g})
						}
					}
				}
				for _, f := range []string{"", "address", "metadata"} {
					specs = append(specs, spec{resource: "aggregated", call: "get", filter: f, pit: p, oot: o, ins: ins})
				}
			}
		}
	}
	for _, call := range []string{"list", "count"} {
		specs = append(specs, spec{resource: "logs", call: call})
		specs = append(specs, spec{resource: "schemas", call: call})
	}

	for mask := 0; mask < 16; mask++ {
		fs := features.FeatureSet{
			features.FeatureMovesHistory:                           map[bool]string{true: "ON", false: "OFF"}[mask&1 != 0],
			features.FeatureMovesHistoryPostCommitEffectiveVolumes: map[bool]string{true: "SYNC", false: "DISABLED"}[mask&2 != 0],
			features.FeatureAccountMetadataHistory:                 map[bool]string{true: "SYNC", false: "DISABLED"}[mask&4 != 0],
			features.FeatureTransactionMetadataHistory:             map[bool]string{true: "SYNC", false: "DISABLED"}[mask&8 != 0],
			features.FeatureHashLogs:                               "SYNC",
		}
		for _, alone := range []bool{false, true} {
			db, rec := recdb.Open()
			l := ledger.Ledger{Name: ledgerName, ID: 7, Configuration: ledger.Configuration{Bucket: bucketName, Features: fs}}
			st := ledgerstore.New(db, bucket.NewDefault(nil, bucketName), l).VerifWithAloneInBucket(alone)
			for _, s := range specs {
				sh := Shape{MovesHistory: mask&1 != 0, PCEV: mask&2 != 0, AccMetaHist: mask&4 != 0, TxMetaHist: mask&8 != 0,
					Alone: alone, Resource: s.resource, Call: s.call, PIT: s.pit, OOT: s.oot, InsDate: s.ins, Group: s.group,
					Expand: s.expand, Filter: s.filter}
				rec.Take()
				func() {
					defer func() {
						if r := recover(); r != nil {
							sh.Panic = fmt.Sprint(r)
						}
					}()
					sh.Err = classify(run(st, s.resource, s.call, s.expand, s.filter, s.pit, s.oot, s.ins, s.group, pit, oot))
				}()
				stmts := rec.Take()
				sh.Statements = len(stmts)
				all := strings.Join(stmts, " ;; ")
				tabs := map[string]bool{}
				for _, m := range reBase.FindAllStringSubmatch(all, -1) {
					sh.BaseRefs++
					tabs[strings.Trim(m[1], `"`)] = true
				}
				for _, m := range reLedger.FindAllStringSubmatch(all, -1) {
					if m[1] == ledgerName {
						sh.LedgerPreds++
					} else {
						sh.OtherLedger++
					}
				}
				for t := range tabs {
					sh.Tables = append(sh.Tables, t)
				}
				sort.Strings(sh.Tables)
				sh.UsesPCEV = strings.Contains(all, "post_commit_effective_volumes")
				sh.UsesEffDate = strings.Contains(all, "effective_date")
				sh.UsesInsDate = strings.Contains(all, "insertion_date <=") || strings.Contains(all, "insertion_date >=")
				if os.Getenv("VRSHAPE_SQL") != "" {
					fmt.Fprintf(os.Stderr, "%+v\n  %s\n", sh, all)
				}
				emit(enc, asCase, sh)
			}
		}
	}
}

func builder(resource, filter string) query.Builder {
	switch filter {
	case "":
		return nil
	case "metadata":
		return query.Match("metadata[k]", "v")
	case "account":
		if resource == "volumes" {
			return query.Match("account", "a:")
		}
		return query.Match("account", "a:b")
	case "address":
		return query.Match("address", "a:")
	case "balance":
		if resource == "volumes" {
			return query.Gt("balance[USD]", 0)
		}
		return query.Gt("balance[USD]", 0)
	}
	return nil
}

func run(st *ledgerstore.Store, resource, call, expand, filter string, usePit, useOot, ins bool, group int, pit, oot time.Time) error {
	ctx := context.Background()
	var pp, op *time.Time
	if usePit {
		pp = &pit
	}
	if useOot {
		op = &oot
	}
	var ex []string
	if expand != "" {
		ex = []string{expand}
	}
	b := builder(resource, filter)
	switch resource {
	case "transactions", "accounts", "logs", "schemas":
		rq := common.ResourceQuery[any]{PIT: pp, OOT: op, Builder: b, Expand: ex}
		switch resource {
		case "transactions":
			return call3(ctx, st.Transactions(), call, rq)
		case "accounts":
			return call3(ctx, st.Accounts(), call, rq)
		case "logs":
			return call3(ctx, st.Logs(), call, rq)
		default:
			return call3(ctx, st.Schemas(), call, rq)
		}
	case "volumes":
		rq := common.ResourceQuery[ledger.GetVolumesOptions]{PIT: pp, OOT: op, Builder: b, Expand: ex,
			Opts: ledger.GetVolumesOptions{UseInsertionDate: ins, GroupLvl: group}}
		return call3(ctx, st.Volumes(), call, rq)
	case "aggregated":
		rq := common.ResourceQuery[ledger.GetAggregatedVolumesOptions]{PIT: pp, OOT: op, Builder: b,
			Opts: ledger.GetAggregatedVolumesOptions{UseInsertionDate: ins}}
		_, err := st.AggregatedVolumes().GetOne(ctx, rq)
		return err
	}
	return fmt.Errorf("unknown resource %s", resource)
}

func call3[T any, O any](ctx context.Context, r common.PaginatedResource[T, O], call string, rq common.ResourceQuery[O]) error {
	switch call {
	case "list":
		_, err := r.Paginate(ctx, common.InitialPaginatedQuery[O]{PageSize: 10, Options: rq})
		return err
	case "count":
		_, err := r.Count(ctx, rq)
		return err
	default:
		_, err := r.GetOne(ctx, rq)
		return err
	}
}
