//go:build verif

package main

import (
	"fmt"
	"os"

	"github.com/formancehq/ledger/internal/verif/wlsql"
)

func main() {
	if len(os.Args) < 2 {
		fmt.Fprintln(os.Stderr, "usage: vrsql <capture|storeops|…> [flags]")
		os.Exit(2)
	}
	os.Exit(wlsql.Main(os.Args[1], os.Args[2:]))
}
