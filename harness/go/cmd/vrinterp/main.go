//go:build verif

// vrinterp: correspondence driver of the Numscript interpreter model (C26:
// workloads interpmodel, interpedge).  Same protocol as cmd/verifrun: one JSON case per line
//
//	{"f":"<handler>","in":{…},"out":{…}}
//
// consumed by the Lean executable `ldriver_interp`.
package main

import (
	"bufio"
	"flag"
	"fmt"
	"os"
	"sort"

	"github.com/formancehq/ledger/internal/verif/gen"
	_ "github.com/formancehq/ledger/internal/verif/wlinterp"
)

func main() {
	if len(os.Args) < 2 {
		fmt.Fprintln(os.Stderr, "usage: vrinterp <workload> [-seed N] [-n N] [-wide] [-replay file] [-as handler]")
		names := make([]string, 0)
		for k := range gen.Workloads {
			names = append(names, k)
		}
		sort.Strings(names)
		for _, k := range names {
			fmt.Fprintln(os.Stderr, "  ", k)
		}
		os.Exit(2)
	}
	name := os.Args[1]
	fs := flag.NewFlagSet(name, flag.ExitOnError)
	seed := fs.Int64("seed", 1, "PRNG seed")
	n := fs.Int("n", 100, "number of cases")
	wide := fs.Bool("wide", false, "use the wider (thorough) generators")
	replay := fs.String("replay", "", "re-run the inputs of this JSONL file instead of generating")
	as := fs.String("as", "", "handler name to emit (prog workload: prog-C22, prog-C23, prog-C27)")
	_ = fs.Parse(os.Args[2:])
	if *as != "" {
		_ = os.Setenv("VERIF_PROG_HANDLER", *as)
	}
	w, ok := gen.Workloads[name]
	if !ok {
		fmt.Fprintf(os.Stderr, "unknown workload %q\n", name)
		os.Exit(2)
	}
	// The machine's default Printer writes `print` output to os.Stdout; keep the
	// protocol stream clean by handing the real stdout to our writer only.
	protocol := os.Stdout
	if devnull, err := os.OpenFile(os.DevNull, os.O_WRONLY, 0); err == nil {
		os.Stdout = devnull
	}
	out := bufio.NewWriterSize(protocol, 1<<20)
	defer out.Flush()
	ctx := &gen.Ctx{R: gen.NewRand(*seed), N: *n, Wide: *wide, Out: out, Replay: *replay}
	if err := w(ctx); err != nil {
		out.Flush()
		fmt.Fprintf(os.Stderr, "workload %s failed: %v\n", name, err)
		os.Exit(3)
	}
}
