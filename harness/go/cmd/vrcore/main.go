//go:build verif

// vrcore: correspondence driver. Runs the real code of /repo in-process on
// generated inputs and prints one JSON case per line:
//
//	{"f":"<model function>","in":{…},"out":{…}}
//
// The Lean driver (lean/Driver.lean) evaluates the model on "in", compares with
// "out" and evaluates the property predicate. All random choices derive from
// -seed so that a disagreement replays exactly.
package main

import (
	"bufio"
	"flag"
	"fmt"
	"os"
	"sort"

	"github.com/formancehq/ledger/internal/verif/gen"
	"github.com/formancehq/ledger/internal/verif/wlcore"
)

func main() {
	if len(os.Args) < 2 {
		fmt.Fprintln(os.Stderr, "usage: vrcore <workload> [-seed N] [-n N] [-replay file]")
		names := make([]string, 0)
		for k := range gen.Workloads {
			names = append(names, k)
		}
		sort.Strings(names)
		for _, k := range names {
			fmt.Fprintln(os.Stderr, "  ", k)
		}
		os.Exit(2)
	}
	name := os.Args[1]
	fs := flag.NewFlagSet(name, flag.ExitOnError)
	seed := fs.Int64("seed", 1, "PRNG seed")
	n := fs.Int("n", 100, "number of cases")
	wide := fs.Bool("wide", false, "use the wider (thorough) generators")
	replay := fs.String("replay", "", "re-run the inputs of this JSONL file instead of generating")
	prop := fs.String("prop", "", "property id the check is about: only its predicates are evaluated by the driver")
	_ = fs.Parse(os.Args[2:])
	wlcore.Prop = *prop
	w, ok := gen.Workloads[name]
	if !ok {
		fmt.Fprintf(os.Stderr, "unknown workload %q\n", name)
		os.Exit(2)
	}
	out := bufio.NewWriterSize(os.Stdout, 1<<20)
	defer out.Flush()
	ctx := &gen.Ctx{R: gen.NewRand(*seed), N: *n, Wide: *wide, Out: out, Replay: *replay}
	if err := w(ctx); err != nil {
		out.Flush()
		fmt.Fprintf(os.Stderr, "workload %s failed: %v\n", name, err)
		os.Exit(3)
	}
}
