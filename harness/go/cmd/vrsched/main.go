//go:build verif

// vrsched: deterministic-schedule correspondence driver (W-sched). Runs 2–4
// concurrent requests of the REAL controller stack (system controller → state
// tracker → ledger controller → SQL store → bun) over pgfake/LeanPG under the
// deterministic scheduler and prints one JSON case per line:
//
//	{"f":"sched.<workload>","in":{…requests, schedule…},"out":{…events, responses, commit order, state…}}
//
// The Lean driver `ldriver_sched` replays the schedule in the abstract protocol
// model (lean/Ledger/Sched), compares, and evaluates the property predicates on
// the REAL final state. `vrsched handles` prints the generated Lean module
// Ledger.Generated.Handles (translator tools/t3_handles).
package main

import (
	"fmt"
	"os"

	"github.com/formancehq/ledger/internal/verif/wlsched"
)

func main() {
	if len(os.Args) < 2 {
		fmt.Fprintln(os.Stderr, "usage: vrsched <workload|handles|probe> [-seed N] [-n N] [-wide] [-replay file]")
		fmt.Fprintln(os.Stderr, "workloads:", wlsched.Names())
		os.Exit(2)
	}
	os.Exit(wlsched.Main(os.Args[1], os.Args[2:]))
}
