//go:build verif

package replication

import "context"

// VerifSync runs one round of the manager's periodic synchronisation
// (`synchronizePipelines` under the manager lock), exactly as the timer branch of
// `Manager.Run` does. The C33 harness sets the sync period to a huge value and
// triggers the rounds explicitly so that they are scheduling choices.
func (m *Manager) VerifSync(ctx context.Context) error {
	m.mu.Lock()
	defer m.mu.Unlock()
	return m.synchronizePipelines(ctx)
}
