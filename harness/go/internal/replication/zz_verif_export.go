//go:build verif

package replication

import "context"

// VerifSync runs one round of the manager's periodic synchronisation
// (`synchronizePipelines` under the manager lock), exactly as the timer branch of
// `Manager.Run` does. The C33 harness sets the sync period to a huge value and
// triggers the rounds explicitly so that they are scheduling choices.
func (m *Manager) VerifSync(ctx context.Context) error {
	m.mu.Lock()
	defer m.mu.Unlock()
	return m.synchronizePipelines(ctx)
}

// VerifState lists the ids of the running pipelines (`m.pipelines`) and the
// exporter ids with a registered driver (`m.drivers`), sorted by the caller.
func (m *Manager) VerifState() (pipelines []string, exporters []string) {
	m.mu.Lock()
	defer m.mu.Unlock()
	for id := range m.pipelines {
		pipelines = append(pipelines, id)
	}
	for id := range m.drivers {
		exporters = append(exporters, id)
	}
	return
}
