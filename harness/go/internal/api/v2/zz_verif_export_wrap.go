//go:build verif

package v2

import (
	"net/http"

	"github.com/formancehq/ledger/internal/api/bulking"
)

// VerifBulkHandler exposes the unexported v2 bulk HTTP handler to the wrap
// correspondence workloads.
func VerifBulkHandler(bulkerFactory bulking.BulkerFactory, bulkHandlerFactories map[string]bulking.HandlerFactory) http.HandlerFunc {
	return bulkHandler(bulkerFactory, bulkHandlerFactories)
}
