//go:build verif

package system

import (
	ledger "github.com/formancehq/ledger/internal"
	ledgercontroller "github.com/formancehq/ledger/internal/controller/ledger"
)

// VerifCtrlStateTracker exposes the unexported state-tracker adapter
// (controllerFacade: handleState, Import) to the controller-layer workloads
// (wlctrl: ctrlimport).
func VerifCtrlStateTracker(ctrl ledgercontroller.Controller, l ledger.Ledger) ledgercontroller.Controller {
	return newLedgerStateTracker(ctrl, l)
}
