//go:build verif

package system

import (
	ledger "github.com/formancehq/ledger/internal"
	ledgercontroller "github.com/formancehq/ledger/internal/controller/ledger"
)

// VerifNewLedgerStateTracker exposes the unexported state-tracker adapter
// (controllerFacade / handleState) to the wrap correspondence workloads.
func VerifNewLedgerStateTracker(ctrl ledgercontroller.Controller, l ledger.Ledger) ledgercontroller.Controller {
	return newLedgerStateTracker(ctrl, l)
}
