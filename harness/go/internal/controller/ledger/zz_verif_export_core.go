//go:build verif

package ledger

import (
	"context"

	ledger "github.com/formancehq/ledger/internal"
)

// VerifCoreRevertTransaction calls the unexported DefaultController.revertTransaction
// (the function handed to forgeLog by RevertTransaction) on the given store.
func VerifCoreRevertTransaction(ctx context.Context, store Store, input RevertTransaction) (*ledger.RevertedTransaction, error) {
	ctrl := &DefaultController{}
	return ctrl.revertTransaction(ctx, store, nil, Parameters[RevertTransaction]{Input: input})
}
