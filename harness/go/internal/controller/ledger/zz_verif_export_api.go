//go:build verif

package ledger

// Thin wrappers for the Api-area harness (wlapi).

// VerifNewErrQueryValidation builds the typed error RunQuery answers with.
func VerifNewErrQueryValidation(err error) ErrQueryValidation { return newErrQueryValidation(err) }
