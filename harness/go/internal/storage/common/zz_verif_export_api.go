//go:build verif

package common

import (
	"context"
	"database/sql"
	"database/sql/driver"
	"errors"
	"io"

	"github.com/uptrace/bun"
	"github.com/uptrace/bun/dialect/pgdialect"

	"github.com/formancehq/go-libs/v5/pkg/storage/bun/paginate"

	"github.com/formancehq/ledger/internal/queries"
)

// Thin wrappers for the Api-area harness (wlapi): run the REAL
// `PaginatedResourceRepository.Paginate` / `ResourceRepository.Count` (pagination
// column checks, `validateFilters`, filter resolution, column / offset paginator,
// `BuildCursor`) for a resource schema over an EMPTY table: the dataset is a
// plain `select … from verif_empty` on a database/sql driver that answers every
// query with zero rows.  Filter resolution is delegated to `resolve`, which the
// caller binds to the real handler's `ResolveFilter`.

type verifConnector struct{}

func (verifConnector) Connect(context.Context) (driver.Conn, error) { return verifConn{}, nil }
func (verifConnector) Driver() driver.Driver                        { return verifDriver{} }

type verifDriver struct{}

func (verifDriver) Open(string) (driver.Conn, error) { return verifConn{}, nil }

type verifConn struct{}

func (verifConn) Prepare(string) (driver.Stmt, error) { return verifStmt{}, nil }
func (verifConn) Close() error                        { return nil }
func (verifConn) Begin() (driver.Tx, error)           { return nil, errors.New("verif: no transactions") }

type verifStmt struct{}

func (verifStmt) Close() error                               { return nil }
func (verifStmt) NumInput() int                              { return -1 }
func (verifStmt) Exec([]driver.Value) (driver.Result, error) { return driver.ResultNoRows, nil }
func (verifStmt) Query([]driver.Value) (driver.Rows, error)  { return verifRows{}, nil }

type verifRows struct{}

func (verifRows) Columns() []string         { return []string{} }
func (verifRows) Close() error              { return nil }
func (verifRows) Next([]driver.Value) error { return io.EOF }

var verifDB = bun.NewDB(sql.OpenDB(verifConnector{}), pgdialect.New(), bun.WithDiscardUnknownColumns())

// VerifResolve is the real handler's ResolveFilter reduced to its error.
type VerifResolve func(operator, property string, value any) error

type verifHandler[O any] struct {
	schema  queries.EntitySchema
	resolve VerifResolve
}

func (h verifHandler[O]) Schema() queries.EntitySchema { return h.schema }
func (h verifHandler[O]) BuildDataset(RepositoryHandlerBuildContext[O]) (*bun.SelectQuery, error) {
	return verifDB.NewSelect().TableExpr("verif_empty"), nil
}
func (h verifHandler[O]) ResolveFilter(_ ResourceQuery[O], operator, property string, value any) (string, []any, error) {
	if h.resolve != nil {
		if err := h.resolve(operator, property, value); err != nil {
			return "", nil, err
		}
	}
	return "true", nil, nil
}
func (h verifHandler[O]) Project(_ ResourceQuery[O], q *bun.SelectQuery) (*bun.SelectQuery, error) {
	return q.ColumnExpr("*"), nil
}
func (h verifHandler[O]) Expand(ResourceQuery[O], string) (*bun.SelectQuery, *JoinCondition, error) {
	return nil, nil, nil
}

// VerifPaginateEmpty: the real Paginate over an empty table.
func VerifPaginateEmpty[R, O any](schema queries.EntitySchema, resolve VerifResolve, defaultColumn string, defaultOrder paginate.Order, q PaginatedQuery[O]) (*paginate.Cursor[R], error) {
	repo := NewPaginatedResourceRepository[R, O](verifHandler[O]{schema, resolve}, defaultColumn, defaultOrder)
	return repo.Paginate(context.Background(), q)
}

// VerifCountEmpty: what Count / GetOne do before touching the database
// (`buildFilteredDataset`: validateFilters + filter resolution).
func VerifCountEmpty[R, O any](schema queries.EntitySchema, resolve VerifResolve, q ResourceQuery[O]) error {
	repo := NewResourceRepository[R, O](verifHandler[O]{schema, resolve})
	_, err := repo.buildFilteredDataset(q)
	return err
}
