//go:build verif

package common

import (
	"context"
	"errors"

	"github.com/uptrace/bun"

	"github.com/formancehq/go-libs/v5/pkg/storage/bun/paginate"

	"github.com/formancehq/ledger/internal/queries"
)

// Thin wrappers for the Api-area harness (wlapi): run the REAL
// `PaginatedResourceRepository.Paginate` / `ResourceRepository.Count` validation
// (pagination column checks, `validateFilters`) for a resource schema, stopping
// with a sentinel where the real handler would start building SQL.

var ErrVerifReachedDataset = errors.New("verif: validation passed, dataset build reached")

type verifSchemaHandler[O any] struct{ schema queries.EntitySchema }

func (h verifSchemaHandler[O]) Schema() queries.EntitySchema { return h.schema }
func (h verifSchemaHandler[O]) BuildDataset(RepositoryHandlerBuildContext[O]) (*bun.SelectQuery, error) {
	return nil, ErrVerifReachedDataset
}
func (h verifSchemaHandler[O]) ResolveFilter(ResourceQuery[O], string, string, any) (string, []any, error) {
	panic("verif: unreachable")
}
func (h verifSchemaHandler[O]) Project(ResourceQuery[O], *bun.SelectQuery) (*bun.SelectQuery, error) {
	panic("verif: unreachable")
}
func (h verifSchemaHandler[O]) Expand(ResourceQuery[O], string) (*bun.SelectQuery, *JoinCondition, error) {
	panic("verif: unreachable")
}

// VerifPaginateValidate returns nil when the real Paginate would go on to query
// the database, otherwise the error the real store returns.
func VerifPaginateValidate[O any](schema queries.EntitySchema, defaultColumn string, defaultOrder paginate.Order, q PaginatedQuery[O]) error {
	repo := NewPaginatedResourceRepository[struct{}, O](verifSchemaHandler[O]{schema}, defaultColumn, defaultOrder)
	_, err := repo.Paginate(context.Background(), q)
	if errors.Is(err, ErrVerifReachedDataset) {
		return nil
	}
	return err
}

// VerifResourceValidate: same for Count / GetOne.
func VerifResourceValidate[O any](schema queries.EntitySchema, q ResourceQuery[O]) error {
	repo := NewResourceRepository[struct{}, O](verifSchemaHandler[O]{schema})
	_, err := repo.Count(context.Background(), q)
	if errors.Is(err, ErrVerifReachedDataset) {
		return nil
	}
	return err
}
