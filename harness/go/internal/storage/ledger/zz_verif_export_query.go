//go:build verif

package ledger

import (
	"github.com/formancehq/go-libs/v5/pkg/query"
)

// Thin exports of the unexported address / lateral-pushdown helpers for the
// query-area correspondence workloads (cmd/vrquery). Nothing here adds logic.

func VerifQIsPartialAddress(address string) bool { return isPartialAddress(address) }

func VerifQFilterAccountAddress(address, key string) string {
	return filterAccountAddress(address, key)
}

func VerifQFilterAccountAddressOnTransactions(address string, source, destination bool) string {
	return filterAccountAddressOnTransactions(address, source, destination)
}

func VerifQExplodeAddress(address string) map[string]any { return explodeAddress(address) }

func VerifQCollectAddressFilters(q interface {
	UseFilter(string, ...func(any) bool) bool
}) ([]string, bool) {
	return collectAddressFilters(q)
}

func VerifQCanPushAddressFilterToLateral(b query.Builder) bool {
	return canPushAddressFilterToLateral(b)
}

func VerifQNodeContainsAddressFilter(node map[string]any) bool {
	return nodeContainsAddressFilter(node)
}

func VerifQIsNodeSafeForLateral(node map[string]any, insideNot bool) bool {
	return isNodeSafeForLateral(node, insideNot)
}

func VerifQBuildAddressFilterForLateral(addresses []string) string {
	return buildAddressFilterForLateral(addresses)
}

func VerifQAssetAddressArray(v any) ([]string, error) { return assetAddressArray(v) }
