//go:build verif

package ledger

import (
	"fmt"

	ledger "github.com/formancehq/ledger/internal"
	"github.com/formancehq/ledger/internal/storage/common"
)

// VerifResolveFilter runs the REAL ResolveFilter of the resource handler `resource`
// (transactions | accounts | logs | schemas | volumes | aggregated) and returns its
// error. The handlers are built without a store: branches that need one (balance
// sub-selects) panic on the nil store, which is reported as "needs store" = no error.
func VerifResolveFilter(resource, operator, property string, value any) (err error) {
	defer func() {
		if r := recover(); r != nil {
			if s := fmt.Sprint(r); len(s) > 0 && (containsNilDeref(s)) {
				err = nil // needs the store: not decidable here
				return
			}
			panic(r)
		}
	}()
	switch resource {
	case "transactions":
		_, _, err = transactionsResourceHandler{}.ResolveFilter(common.ResourceQuery[any]{}, operator, property, value)
	case "accounts":
		_, _, err = accountsResourceHandler{}.ResolveFilter(common.ResourceQuery[any]{}, operator, property, value)
	case "logs":
		_, _, err = logsResourceHandler{}.ResolveFilter(common.ResourceQuery[any]{}, operator, property, value)
	case "schemas":
		_, _, err = schemasResourceHandler{}.ResolveFilter(common.ResourceQuery[any]{}, operator, property, value)
	case "volumes":
		_, _, err = volumesResourceHandler{}.ResolveFilter(common.ResourceQuery[ledger.GetVolumesOptions]{}, operator, property, value)
	case "aggregated":
		_, _, err = aggregatedBalancesResourceRepositoryHandler{}.ResolveFilter(common.ResourceQuery[ledger.GetAggregatedVolumesOptions]{}, operator, property, value)
	}
	return err
}

func containsNilDeref(s string) bool {
	const m = "nil pointer dereference"
	for i := 0; i+len(m) <= len(s); i++ {
		if s[i:i+len(m)] == m {
			return true
		}
	}
	return false
}
