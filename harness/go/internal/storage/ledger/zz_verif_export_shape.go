//go:build verif

package ledger

import "sync/atomic"

// VerifWithAloneInBucket returns a copy of the store whose alone-in-bucket hint
// is the given value (the real code shares this pointer through the Factory).
func (store *Store) VerifWithAloneInBucket(alone bool) *Store {
	cp := *store
	b := &atomic.Bool{}
	b.Store(alone)
	cp.aloneInBucket = b
	return &cp
}
