//go:build verif

package ledger

// VerifAloneInBucket exposes the store's alone-in-bucket hint (shared per bucket through the
// Factory) to the end-to-end workloads (wle2e: multiledger, C19 `aloneInBucket_correct`).
func (store *Store) VerifAloneInBucket() bool {
	return store.aloneInBucket != nil && store.aloneInBucket.Load()
}
