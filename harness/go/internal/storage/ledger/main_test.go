//go:build it && verif

// This file REPLACES /repo/internal/storage/ledger/main_test.go (via go's
// -overlay) when the repository's own `it` storage tests are run against LeanPG
// (bin/leanpg-validate). The original starts PostgreSQL in Docker and runs the
// migrator; this one starts `lpg` (the Lean model of PostgreSQL) behind the
// pgfake database/sql driver. The bucket schema comes from
// Ledger.Generated.Schema (the folded migrations), the per-ledger setup from the
// real bucket.AddLedger. Everything else — every test file, the store, bun — is
// the repository's code, unchanged.
package ledger_test

import (
	"math/big"
	"os"
	"sync"
	"testing"

	"github.com/google/go-cmp/cmp"
	"github.com/google/uuid"
	"github.com/stretchr/testify/require"

	ledger "github.com/formancehq/ledger/internal"
	"github.com/formancehq/ledger/internal/storage/bucket"
	ledgerstore "github.com/formancehq/ledger/internal/storage/ledger"
	"github.com/formancehq/ledger/internal/verif/pgfake"
)

var (
	pgSrv        *pgfake.Server
	storeFactory *ledgerstore.DefaultFactory
	bucketMu     sync.Mutex
	bucketCount  = map[string]int{}
)

func TestMain(m *testing.M) {
	var err error
	pgSrv, err = pgfake.Start(pgfake.DefaultLpgPath())
	if err != nil {
		println("cannot start lpg:", err.Error())
		os.Exit(2)
	}
	pgSrv.RealTime = true
	pgSrv.WaitWhenBlocked = true
	pgSrv.DB().SetMaxOpenConns(100)
	storeFactory = ledgerstore.NewFactory(pgSrv.DB())
	code := m.Run()
	if f := os.Getenv("VERIF_SQL_LOG"); f != "" {
		_ = pgSrv.WriteLog(f)
	}
	pgSrv.Close()
	os.Exit(code)
}

type T interface {
	require.TestingT
	Helper()
	Cleanup(func())
}

func newLedgerStore(t T, opts ...func(cfg *ledger.Configuration)) *ledgerstore.Store {
	t.Helper()

	ledgerName := uuid.NewString()[:8]

	ledgerConfiguration := ledger.NewDefaultConfiguration()
	for _, opt := range opts {
		opt(&ledgerConfiguration)
	}

	l, err := ledger.New(ledgerName, ledgerConfiguration)
	require.NoError(t, err)

	// what driver.CreateLedger does, minus the migrator and the _system.ledgers row
	l.ID = pgSrv.AllocLedgerID()
	require.NoError(t, pgSrv.CreateLedger(*l))

	bucketMu.Lock()
	bucketCount[l.Bucket]++
	count := bucketCount[l.Bucket]
	bucketMu.Unlock()

	store := storeFactory.Create(bucket.NewDefaultFactory().Create(l.Bucket), *l)
	store.SetAloneInBucket(count == 1)

	return store
}

func bigIntComparer(v1 *big.Int, v2 *big.Int) bool {
	return v1.String() == v2.String()
}

func RequireEqual(t *testing.T, expected, actual any) {
	t.Helper()
	if diff := cmp.Diff(expected, actual, cmp.Comparer(bigIntComparer)); diff != "" {
		require.Failf(t, "Content not matching", diff)
	}
}
