//go:build it && verif

// Replaces /repo/internal/storage/driver/main_test.go (go -overlay) when the
// repository's `it` tests of the storage driver run against LeanPG
// (bin/leanpg-validate). Every call of newTestDriver gets its own modelled
// PostgreSQL instance (one lpg process), like the fresh database of the original.
// The `_system` schema exists from the start and a bucket counts as migrated
// when first referenced (see pgfake / Ledger.Sql.Store.instantiateBucket), so
// the REAL driver.CreateLedger runs unchanged — only the go-libs migrator, which
// needs a pgx connection for LISTEN/NOTIFY, is never invoked.
package driver_test

import (
	"os"
	"testing"

	"github.com/stretchr/testify/require"

	"github.com/formancehq/ledger/internal/storage/bucket"
	"github.com/formancehq/ledger/internal/storage/driver"
	ledgerstore "github.com/formancehq/ledger/internal/storage/ledger"
	systemstore "github.com/formancehq/ledger/internal/storage/system"
	"github.com/formancehq/ledger/internal/verif/pgfake"
)

func TestMain(m *testing.M) {
	os.Exit(m.Run())
}

func newTestDriver(t *testing.T) *driver.Driver {
	t.Helper()

	srv, err := pgfake.Start(pgfake.DefaultLpgPath())
	require.NoError(t, err)
	srv.RealTime = true
	srv.WaitWhenBlocked = true
	t.Cleanup(srv.Close)
	db := srv.DB()

	return driver.New(
		db,
		ledgerstore.NewFactory(db),
		bucket.NewDefaultFactory(),
		systemstore.NewStoreFactory(),
	)
}
