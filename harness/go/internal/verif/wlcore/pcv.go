//go:build verif

package wlcore

import (
	"encoding/json"
	"math/big"

	ledger "github.com/formancehq/ledger/internal"
	"github.com/formancehq/ledger/internal/verif/gen"
)

// Workload "pcv".
//
// f = "pcv": one real CommitTransaction over the fake driver, on random prior
// accounts_volumes rows and a random transaction → rendered upsert rows, post-commit
// volumes, rendered moves, effective volumes, MarshalJSON's pre-commit volumes.
//
// f = "pcvops": the PostCommitVolumes operations called directly on arbitrary maps
// (SubtractPostings incl. missing entries, Merge, AddInput/AddOutput, Balances,
// ComputePostCommitEffectiveVolumes incl. a nil PostCommitEffectiveVolumes).

type pcvIn struct {
	Postings   []jPosting  `json:"postings"`
	Prior      []jVol      `json:"prior"`
	ID         uint64      `json:"id"`
	Timestamp  int64       `json:"timestamp"`
	InsertedAt int64       `json:"insertedAt"`
	PCEV       [][2]string `json:"pcev"`
}

type opMove struct {
	Account string `json:"account"`
	Asset   string `json:"asset"`
	// nil PCEV when HasPCEV is false
	HasPCEV bool   `json:"hasPcev"`
	Input   string `json:"input"`
	Output  string `json:"output"`
}

type pcvOpsIn struct {
	A        []jVol     `json:"a"`
	B        []jVol     `json:"b"`
	Postings []jPosting `json:"postings"`
	Moves    []opMove   `json:"moves"`
	// AddInput / AddOutput target
	Account string `json:"account"`
	Asset   string `json:"asset"`
	Amount  string `json:"amount"`
}

type opRes struct {
	V     []jVol `json:"v"`
	Panic string `json:"panic,omitempty"`
}

type pcvOpsOut struct {
	Subtract  opRes  `json:"subtract"`
	Merge     opRes  `json:"merge"`
	AddInput  opRes  `json:"addInput"`
	AddOutput opRes  `json:"addOutput"`
	PCEV      opRes  `json:"pcev"`
	Balances  []jBal `json:"balances"`
	// the "balance" member Volumes.MarshalJSON adds to every entry of a marshalled PostCommitVolumes
	JSONBalances []jBal `json:"jsonBalances"`
	// the receiver of SubtractPostings / the argument of Merge must stay untouched
	AUnchanged bool `json:"aUnchanged"`
}

func runPcv(in pcvIn) commitOut {
	return realCommit(tableOf(in.Prior), in.Postings, in.ID, in.Timestamp, in.InsertedAt, in.PCEV)
}

func runPcvOps(in pcvOpsIn) (out pcvOpsOut) {
	before := mustJSON(flattenPCV(nestPCV(in.A)))
	out.Subtract.Panic = guard(func() {
		a := nestPCV(in.A)
		out.Subtract.V = flattenPCV(a.SubtractPostings(toPostings(in.Postings)))
		out.AUnchanged = string(mustJSON(flattenPCV(a))) == string(before)
	})
	out.Merge.Panic = guard(func() {
		out.Merge.V = flattenPCV(nestPCV(in.A).Merge(nestPCV(in.B)))
	})
	out.AddInput.Panic = guard(func() {
		a := nestPCV(in.A)
		a.AddInput(in.Account, in.Asset, bigOf(in.Amount))
		out.AddInput.V = flattenPCV(a)
	})
	out.AddOutput.Panic = guard(func() {
		a := nestPCV(in.A)
		a.AddOutput(in.Account, in.Asset, bigOf(in.Amount))
		out.AddOutput.V = flattenPCV(a)
	})
	out.PCEV.Panic = guard(func() {
		moves := ledger.Moves{}
		for _, m := range in.Moves {
			mv := &ledger.Move{Account: m.Account, Asset: m.Asset}
			if m.HasPCEV {
				mv.PostCommitEffectiveVolumes = &ledger.Volumes{Input: bigOf(m.Input), Output: bigOf(m.Output)}
			}
			moves = append(moves, mv)
		}
		out.PCEV.V = flattenPCV(moves.ComputePostCommitEffectiveVolumes())
	})
	out.Balances = make([]jBal, 0)
	_ = guard(func() {
		for account, byAsset := range nestPCV(in.A) {
			for asset, b := range byAsset.Balances() {
				out.Balances = append(out.Balances, jBal{Account: account, Asset: asset, Balance: b.String()})
			}
		}
	})
	sortBals(out.Balances)
	out.JSONBalances = make([]jBal, 0)
	_ = guard(func() {
		raw, err := json.Marshal(nestPCV(in.A))
		if err != nil {
			return
		}
		var generic map[string]map[string]struct {
			Balance *big.Int `json:"balance"`
		}
		if err := json.Unmarshal(raw, &generic); err != nil {
			return
		}
		for account, byAsset := range generic {
			for asset, v := range byAsset {
				out.JSONBalances = append(out.JSONBalances, jBal{Account: account, Asset: asset, Balance: str(v.Balance)})
			}
		}
	})
	sortBals(out.JSONBalances)
	return out
}

func genPcvIn(c *gen.Ctx) pcvIn {
	r := c.R
	max := 12
	if c.Wide {
		max = 30
	}
	// an empty transaction never reaches CommitTransaction (ErrNoPostings in the controller)
	in := pcvIn{Postings: genPostings(c, max, false), ID: uint64(1 + r.Intn(1000))}
	for len(in.Postings) == 0 {
		in.Postings = genPostings(c, max, false)
	}
	in.Timestamp = gen.Pick(r, timeGrid)
	in.InsertedAt = gen.Pick(r, timeGrid)
	// prior rows: each touched pair with probability 2/3, plus some untouched ones
	seen := map[key]bool{}
	add := func(a, s string) {
		k := key{a, s}
		if seen[k] {
			return
		}
		seen[k] = true
		i, o := genVolumes(r)
		in.Prior = append(in.Prior, jVol{Account: a, Asset: s, Input: i, Output: o})
	}
	fresh := r.Intn(6) == 0 // no touched pair has a row yet (first use of every account)
	for _, p := range in.Postings {
		if !fresh && r.Intn(3) > 0 {
			add(p.Source, p.Asset)
		}
		if !fresh && r.Intn(3) > 0 {
			add(p.Destination, p.Asset)
		}
	}
	if !fresh {
		for i := r.Intn(3); i > 0; i-- {
			add(gen.Pick(r, accounts(c)), gen.Pick(r, assetPool))
		}
	}
	if in.Prior == nil {
		in.Prior = []jVol{}
	}
	sortVols(in.Prior)
	in.PCEV = make([][2]string, 0, 2*len(in.Postings))
	for i := 0; i < 2*len(in.Postings); i++ {
		a, b := genVolumes(r)
		in.PCEV = append(in.PCEV, [2]string{a, b})
	}
	return in
}

func genPcvOpsIn(c *gen.Ctx) pcvOpsIn {
	r := c.R
	in := pcvOpsIn{Postings: genPostings(c, 6, true), A: []jVol{}, B: []jVol{}, Moves: []opMove{}}
	accs := accounts(c)
	seen := map[key]bool{}
	// A: mostly covers the postings' sides (so that SubtractPostings succeeds), sometimes not
	cover := r.Intn(4) > 0
	for _, p := range in.Postings {
		for _, a := range []string{p.Source, p.Destination} {
			k := key{a, p.Asset}
			if seen[k] || (!cover && r.Intn(2) == 0) {
				continue
			}
			seen[k] = true
			i, o := genVolumes(r)
			in.A = append(in.A, jVol{Account: a, Asset: p.Asset, Input: i, Output: o})
		}
	}
	for i := r.Intn(3); i > 0; i-- {
		k := key{gen.Pick(r, accs), gen.Pick(r, assetPool)}
		if !seen[k] {
			seen[k] = true
			x, y := genVolumes(r)
			in.A = append(in.A, jVol{Account: k.account, Asset: k.asset, Input: x, Output: y})
		}
	}
	if r.Intn(10) == 0 {
		in.A = []jVol{}
	}
	sortVols(in.A)
	seenB := map[key]bool{}
	for i := r.Intn(5); i > 0; i-- {
		k := key{gen.Pick(r, accs), gen.Pick(r, assetPool)}
		if !seenB[k] {
			seenB[k] = true
			x, y := genVolumes(r)
			in.B = append(in.B, jVol{Account: k.account, Asset: k.asset, Input: x, Output: y})
		}
	}
	sortVols(in.B)
	for i := r.Intn(9); i > 0; i-- {
		x, y := genVolumes(r)
		in.Moves = append(in.Moves, opMove{Account: gen.Pick(r, accs[:3]), Asset: gen.Pick(r, assetPool[:2]),
			HasPCEV: r.Intn(12) > 0, Input: x, Output: y})
	}
	in.Account, in.Asset = gen.Pick(r, accs), gen.Pick(r, assetPool)
	if len(in.A) > 0 && r.Intn(3) > 0 {
		e := in.A[r.Intn(len(in.A))]
		in.Account, in.Asset = e.Account, e.Asset
	}
	amt := gen.BigAmount(r)
	if r.Intn(3) == 0 {
		amt = new(big.Int).Neg(amt)
	}
	in.Amount = amt.String()
	return in
}

func init() {
	gen.Register("pcv", func(c *gen.Ctx) error {
		if c.Replay != "" {
			ins, err := c.ReplayInputs("pcv")
			if err != nil {
				return err
			}
			for _, raw := range ins {
				var in pcvIn
				if err := json.Unmarshal(raw, &in); err != nil {
					return err
				}
				if err := c.Emit("pcv", withProp(in), runPcv(in)); err != nil {
					return err
				}
			}
			ins, err = c.ReplayInputs("pcvops")
			if err != nil {
				return err
			}
			for _, raw := range ins {
				var in pcvOpsIn
				if err := json.Unmarshal(raw, &in); err != nil {
					return err
				}
				if err := c.Emit("pcvops", withProp(in), runPcvOps(in)); err != nil {
					return err
				}
			}
			return nil
		}
		for i := 0; i < c.N; i++ {
			if i%3 == 2 {
				in := genPcvOpsIn(c)
				if err := c.Emit("pcvops", withProp(in), runPcvOps(in)); err != nil {
					return err
				}
				continue
			}
			in := genPcvIn(c)
			if err := c.Emit("pcv", withProp(in), runPcv(in)); err != nil {
				return err
			}
		}
		return nil
	})
}
