//go:build verif

// Package wlcore holds the correspondence workloads of the Core area: the plain-Go
// ledger arithmetic (VolumeUpdates, PostCommitVolumes, the move unwinding of
// CommitTransaction, Reverse, revert construction) executed for real, in-process.
package wlcore

import (
	"encoding/json"
	"fmt"
	"math/big"
	"math/rand"
	"sort"
	"strings"
	"time"

	libtime "github.com/formancehq/go-libs/v5/pkg/types/time"

	ledger "github.com/formancehq/ledger/internal"
	"github.com/formancehq/ledger/internal/verif/gen"
)

// ---- wire types --------------------------------------------------------------

type jPosting struct {
	Source      string `json:"source"`
	Destination string `json:"destination"`
	Amount      string `json:"amount"`
	Asset       string `json:"asset"`
}

// jVol is one (account, asset) entry of a flattened volumes map.
type jVol struct {
	Account string `json:"account"`
	Asset   string `json:"asset"`
	Input   string `json:"input"`
	Output  string `json:"output"`
}

type jBal struct {
	Account string `json:"account"`
	Asset   string `json:"asset"`
	Balance string `json:"balance"`
}

type jMove struct {
	Account  string `json:"account"`
	Asset    string `json:"asset"`
	Amount   string `json:"amount"`
	IsSource bool   `json:"isSource"`
	Input    string `json:"input"`
	Output   string `json:"output"`
	TxID     string `json:"txId"`
	Ins      string `json:"ins"`
	Eff      string `json:"eff"`
}

func bigOf(s string) *big.Int {
	v, ok := new(big.Int).SetString(s, 10)
	if !ok {
		panic("bad integer " + s)
	}
	return v
}

func toPostings(ps []jPosting) ledger.Postings {
	ret := make(ledger.Postings, 0, len(ps))
	for _, p := range ps {
		ret = append(ret, ledger.NewPosting(p.Source, p.Destination, p.Asset, bigOf(p.Amount)))
	}
	return ret
}

func fromPostings(ps ledger.Postings) []jPosting {
	ret := make([]jPosting, 0, len(ps))
	for _, p := range ps {
		ret = append(ret, jPosting{Source: p.Source, Destination: p.Destination, Asset: p.Asset, Amount: p.Amount.String()})
	}
	return ret
}

func str(v *big.Int) string {
	if v == nil {
		return "nil"
	}
	return v.String()
}

// flattenPCV turns the nested map into entries sorted by (account, asset).
func flattenPCV(m ledger.PostCommitVolumes) []jVol {
	ret := make([]jVol, 0)
	for account, byAsset := range m {
		for asset, v := range byAsset {
			ret = append(ret, jVol{Account: account, Asset: asset, Input: str(v.Input), Output: str(v.Output)})
		}
	}
	sortVols(ret)
	return ret
}

func sortVols(v []jVol) {
	sort.Slice(v, func(i, j int) bool {
		if v[i].Account != v[j].Account {
			return v[i].Account < v[j].Account
		}
		return v[i].Asset < v[j].Asset
	})
}

func nestPCV(vs []jVol) ledger.PostCommitVolumes {
	ret := ledger.PostCommitVolumes{}
	for _, v := range vs {
		if _, ok := ret[v.Account]; !ok {
			ret[v.Account] = ledger.VolumesByAssets{}
		}
		ret[v.Account][v.Asset] = ledger.Volumes{Input: bigOf(v.Input), Output: bigOf(v.Output)}
	}
	return ret
}

func micros(us int64) libtime.Time { return libtime.New(time.UnixMicro(us).UTC()) }

func microsOf(t libtime.Time) string {
	if t.IsZero() {
		return "zero"
	}
	return fmt.Sprint(t.UnixMicro())
}

// ---- generators ----------------------------------------------------------------

var (
	accountPool     = []string{"world", "a", "b", "users:001", "bank"}
	accountPoolWide = []string{"world", "a", "b", "users:001", "bank", "users:002", "orders:1:pending", "z"}
	assetPool       = []string{"USD", "EUR/2", "COIN"}
	// insertion / effective timestamps: a 6-point grid (µs) that forces ties, past and future
	timeGrid = []int64{1700000000000000, 1700000000000001, 1700000001000000, 1700003600000000, 1690000000000000, 1800000000000000}
)

func accounts(c *gen.Ctx) []string {
	if c.Wide {
		return accountPoolWide
	}
	return accountPool
}

// genAmount: gen.BigAmount, occasionally zero, and (malformed stream) negative.
func genAmount(r *rand.Rand, allowNeg bool) *big.Int {
	v := gen.BigAmount(r)
	if allowNeg && r.Intn(12) == 0 {
		v = new(big.Int).Neg(v)
	}
	return v
}

// genPostings draws ≤ max postings over the pools: self-postings, world, repeated
// (source, destination, asset) pairs, chains through one account.
func genPostings(c *gen.Ctx, max int, allowNeg bool) []jPosting {
	r := c.R
	accs := accounts(c)
	n := r.Intn(max + 1)
	if r.Intn(4) > 0 && n == 0 {
		n = 1 + r.Intn(max)
	}
	// restrict to a sub-universe often, to force repeats
	if r.Intn(2) == 0 {
		k := 1 + r.Intn(len(accs))
		perm := r.Perm(len(accs))
		sub := make([]string, 0, k)
		for _, i := range perm[:k] {
			sub = append(sub, accs[i])
		}
		accs = sub
	}
	assets := assetPool
	if r.Intn(3) == 0 {
		assets = assetPool[:1+r.Intn(2)]
	}
	ps := make([]jPosting, 0, n)
	for i := 0; i < n; i++ {
		var p jPosting
		switch {
		case len(ps) > 0 && r.Intn(6) == 0: // repeat an earlier posting's pair
			q := ps[r.Intn(len(ps))]
			p = jPosting{Source: q.Source, Destination: q.Destination, Asset: q.Asset}
		case len(ps) > 0 && r.Intn(5) == 0: // chain: previous destination becomes source
			q := ps[len(ps)-1]
			p = jPosting{Source: q.Destination, Destination: gen.Pick(r, accs), Asset: q.Asset}
		case r.Intn(8) == 0: // self posting
			a := gen.Pick(r, accs)
			p = jPosting{Source: a, Destination: a, Asset: gen.Pick(r, assets)}
		default:
			p = jPosting{Source: gen.Pick(r, accs), Destination: gen.Pick(r, accs), Asset: gen.Pick(r, assets)}
		}
		p.Amount = genAmount(r, allowNeg).String()
		ps = append(ps, p)
	}
	return ps
}

func genVolumes(r *rand.Rand) (string, string) {
	return gen.BigAmount(r).String(), gen.BigAmount(r).String()
}

// ---- rendered SQL --------------------------------------------------------------

// parseValues extracts the tuples of the VALUES clause of a rendered INSERT:
// each tuple is a list of raw SQL literals ('…' strings are unquoted, '' → ').
func parseValues(q string) (cols []string, tuples [][]string, err error) {
	i := strings.Index(q, "(")
	j := strings.Index(q, ") VALUES ")
	if i < 0 || j < 0 || j < i {
		return nil, nil, fmt.Errorf("no column list / VALUES in %.80q", q)
	}
	for _, c := range strings.Split(q[i+1:j], ",") {
		cols = append(cols, strings.Trim(strings.TrimSpace(c), `"`))
	}
	s := q[j+len(") VALUES "):]
	pos := 0
	for pos < len(s) {
		for pos < len(s) && (s[pos] == ' ' || s[pos] == ',') {
			pos++
		}
		if pos >= len(s) || s[pos] != '(' {
			break
		}
		pos++
		var tuple []string
		var cur strings.Builder
		depth := 0
		for {
			if pos >= len(s) {
				return nil, nil, fmt.Errorf("unterminated tuple")
			}
			ch := s[pos]
			switch {
			case ch == '\'':
				pos++
				for {
					if pos >= len(s) {
						return nil, nil, fmt.Errorf("unterminated string")
					}
					if s[pos] == '\'' {
						if pos+1 < len(s) && s[pos+1] == '\'' {
							cur.WriteByte('\'')
							pos += 2
							continue
						}
						pos++
						break
					}
					cur.WriteByte(s[pos])
					pos++
				}
				continue
			case ch == '(':
				depth++
				cur.WriteByte(ch)
			case ch == ')' && depth > 0:
				depth--
				cur.WriteByte(ch)
			case ch == ')' && depth == 0:
				tuple = append(tuple, strings.TrimSpace(cur.String()))
				pos++
				goto done
			case ch == ',' && depth == 0:
				tuple = append(tuple, strings.TrimSpace(cur.String()))
				cur.Reset()
			default:
				cur.WriteByte(ch)
			}
			pos++
		}
	done:
		tuples = append(tuples, tuple)
	}
	return cols, tuples, nil
}

func colIndex(cols []string, name string) int {
	for i, c := range cols {
		if c == name {
			return i
		}
	}
	return -1
}

// parseVolumesLiteral parses "(input, output)" (Volumes.Value()).
func parseVolumesLiteral(s string) (string, string, error) {
	s = strings.TrimSpace(s)
	if len(s) < 2 || s[0] != '(' || s[len(s)-1] != ')' {
		return "", "", fmt.Errorf("bad volumes literal %q", s)
	}
	parts := strings.Split(s[1:len(s)-1], ",")
	if len(parts) != 2 {
		return "", "", fmt.Errorf("bad volumes literal %q", s)
	}
	return strings.TrimSpace(parts[0]), strings.TrimSpace(parts[1]), nil
}

// parseSQLTime parses a rendered timestamp literal into µs since the epoch.
func parseSQLTime(s string) (string, error) {
	s = strings.TrimSuffix(strings.TrimSpace(s), "::timestamp")
	for _, layout := range []string{"2006-01-02 15:04:05.999999-07:00", "2006-01-02 15:04:05.999999Z07:00", "2006-01-02 15:04:05.999999", time.RFC3339Nano} {
		if t, err := time.Parse(layout, s); err == nil {
			return fmt.Sprint(t.UnixMicro()), nil
		}
	}
	return "", fmt.Errorf("bad time literal %q", s)
}

// Prop is the property the running check is about (flag -prop of vrcore); it travels in
// every case as in.prop so that the Lean handler only evaluates that property's predicates.
var Prop string

// withProp returns `in` with the member "prop" added (when -prop was given).
func withProp(in any) any {
	if Prop == "" {
		return in
	}
	b, err := json.Marshal(in)
	if err != nil {
		return in
	}
	var m map[string]json.RawMessage
	if err := json.Unmarshal(b, &m); err != nil {
		return in
	}
	m["prop"] = mustJSON(Prop)
	return m
}

func mustJSON(v any) json.RawMessage {
	b, err := json.Marshal(v)
	if err != nil {
		panic(err)
	}
	return b
}
