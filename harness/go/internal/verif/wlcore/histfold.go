//go:build verif

package wlcore

import (
	"encoding/json"

	"github.com/formancehq/ledger/internal/verif/gen"
)

// Workload "histfold": random histories of transactions (timestamps from a 6-point grid,
// back-dated / tied / future) committed one after the other through the real
// CommitTransaction over the fake driver; the harness keeps the accounts_volumes table
// (summing exactly like the upsert).  Emitted: per step the rendered upsert rows
// (VolumeUpdates), the post-commit volumes, the rendered moves, and the table after the
// step — so the Lean Spec fold is compared against real Go arithmetic.

type histTx struct {
	Postings   []jPosting `json:"postings"`
	Timestamp  int64      `json:"timestamp"`
	InsertedAt int64      `json:"insertedAt"`
}

type histIn struct {
	Txs []histTx `json:"txs"`
}

type histStep struct {
	Upsert []jVol  `json:"upsert"`
	PCV    []jVol  `json:"pcv"`
	Pre    []jVol  `json:"pre"`
	Moves  []jMove `json:"moves"`
	// accounts_volumes after the step
	Volumes []jVol `json:"volumes"`
	Err     string `json:"err,omitempty"`
	Panic   string `json:"panic,omitempty"`
}

type histOut struct {
	Steps []histStep `json:"steps"`
}

func runHist(in histIn) (out histOut) {
	table := volTable{}
	out.Steps = make([]histStep, 0, len(in.Txs))
	for i, t := range in.Txs {
		co := realCommit(table, t.Postings, uint64(i+1), t.Timestamp, t.InsertedAt, nil)
		out.Steps = append(out.Steps, histStep{Upsert: co.Upsert, PCV: co.PCV, Pre: co.Pre, Moves: co.Moves,
			Volumes: table.flat(), Err: co.Err, Panic: co.Panic})
	}
	return out
}

func genHistIn(c *gen.Ctx) histIn {
	r := c.R
	maxTx, maxP := 30, 5
	if c.Wide {
		maxTx, maxP = 60, 8
	}
	n := 1 + r.Intn(maxTx)
	if r.Intn(3) > 0 {
		n = 1 + r.Intn(10)
	}
	in := histIn{Txs: make([]histTx, 0, n)}
	now := int64(1700000000000000)
	for i := 0; i < n; i++ {
		ps := genPostings(c, maxP, false)
		for len(ps) == 0 {
			ps = genPostings(c, maxP, false)
		}
		if r.Intn(3) > 0 {
			now += int64(r.Intn(3)) * 500000 // ties in insertion date too
		}
		ts := now
		if r.Intn(2) == 0 {
			ts = gen.Pick(r, timeGrid)
		}
		in.Txs = append(in.Txs, histTx{Postings: ps, Timestamp: ts, InsertedAt: now})
	}
	return in
}

func init() {
	gen.Register("histfold", func(c *gen.Ctx) error {
		if c.Replay != "" {
			ins, err := c.ReplayInputs("histfold")
			if err != nil {
				return err
			}
			for _, raw := range ins {
				var in histIn
				if err := json.Unmarshal(raw, &in); err != nil {
					return err
				}
				if err := c.Emit("histfold", withProp(in), runHist(in)); err != nil {
					return err
				}
			}
			return nil
		}
		for i := 0; i < c.N; i++ {
			in := genHistIn(c)
			if err := c.Emit("histfold", withProp(in), runHist(in)); err != nil {
				return err
			}
		}
		return nil
	})
}
