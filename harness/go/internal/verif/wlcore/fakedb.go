//go:build verif

package wlcore

import (
	"context"
	"database/sql"
	"database/sql/driver"
	"errors"
	"io"

	"github.com/uptrace/bun"
	"github.com/uptrace/bun/dialect/pgdialect"
)

// A minimal database/sql driver: every statement (bun renders the arguments
// client-side, so the driver sees the final SQL text) is handed to a responder
// which returns the rows to answer with.  No SQL is executed anywhere.

type responder func(query string) (cols []string, rows [][]driver.Value, err error)

type fakeConnector struct{ r *responder }

func (c fakeConnector) Connect(context.Context) (driver.Conn, error) { return &fakeConn{r: c.r}, nil }
func (c fakeConnector) Driver() driver.Driver                        { return fakeDriver{} }

type fakeDriver struct{}

func (fakeDriver) Open(string) (driver.Conn, error) { return nil, errors.New("use connector") }

type fakeConn struct{ r *responder }

func (c *fakeConn) Prepare(string) (driver.Stmt, error) { return nil, errors.New("prepare unsupported") }
func (c *fakeConn) Close() error                        { return nil }
func (c *fakeConn) Begin() (driver.Tx, error)           { return fakeTx{}, nil }

type fakeTx struct{}

func (fakeTx) Commit() error   { return nil }
func (fakeTx) Rollback() error { return nil }

func (c *fakeConn) QueryContext(_ context.Context, q string, args []driver.NamedValue) (driver.Rows, error) {
	if len(args) != 0 {
		return nil, errors.New("fake driver: unexpected bound arguments")
	}
	cols, rows, err := (*c.r)(q)
	if err != nil {
		return nil, err
	}
	return &fakeRows{cols: cols, rows: rows}, nil
}

func (c *fakeConn) ExecContext(ctx context.Context, q string, args []driver.NamedValue) (driver.Result, error) {
	if len(args) != 0 {
		return nil, errors.New("fake driver: unexpected bound arguments")
	}
	_, rows, err := (*c.r)(q)
	if err != nil {
		return nil, err
	}
	return driver.RowsAffected(len(rows)), nil
}

type fakeRows struct {
	cols []string
	rows [][]driver.Value
	i    int
}

func (r *fakeRows) Columns() []string { return r.cols }
func (r *fakeRows) Close() error      { return nil }
func (r *fakeRows) Next(dest []driver.Value) error {
	if r.i >= len(r.rows) {
		return io.EOF
	}
	copy(dest, r.rows[r.i])
	r.i++
	return nil
}

// newFakeDB returns a bun DB (pg dialect) over the fake driver and a setter for
// the responder of the next statements.
func newFakeDB() (*bun.DB, func(responder)) {
	var r responder = func(q string) ([]string, [][]driver.Value, error) {
		return nil, nil, errors.New("fake driver: no responder")
	}
	sqldb := sql.OpenDB(fakeConnector{r: &r})
	sqldb.SetMaxOpenConns(1)
	db := bun.NewDB(sqldb, pgdialect.New(), bun.WithDiscardUnknownColumns())
	return db, func(n responder) { r = n }
}
