//go:build verif

package wlcore

import (
	"bytes"
	"context"
	"encoding/json"
	"errors"
	"fmt"
	"sort"
	"strings"
	"time"

	"github.com/formancehq/go-libs/v5/pkg/storage/postgres"
	"github.com/formancehq/go-libs/v5/pkg/types/metadata"
	libtime "github.com/formancehq/go-libs/v5/pkg/types/time"

	ledger "github.com/formancehq/ledger/internal"
	ctrl "github.com/formancehq/ledger/internal/controller/ledger"
	systemcontroller "github.com/formancehq/ledger/internal/controller/system"
	"github.com/formancehq/ledger/internal/machine"
	"github.com/formancehq/ledger/internal/storage/bucket"
	ledgerstore "github.com/formancehq/ledger/internal/storage/ledger"
	"github.com/formancehq/ledger/internal/verif/gen"
	"github.com/formancehq/ledger/internal/verif/pgfake"
	"github.com/formancehq/ledger/pkg/features"
)

// Workload "sqlhist": random histories executed by the REAL store
// (internal/storage/ledger.Store: CommitTransaction, UpsertAccounts, RevertTransaction,
// GetBalances, Update/DeleteTransactionMetadata, DeleteAccountMetadata) and the real
// revertTransaction of the controller, over pgfake → LeanPG (the modelled Postgres, which
// runs the rendered SQL, the migrations' triggers and sequences).  Every write runs in its
// own SQL transaction, like a controller operation.  Emitted as a `hist` case (see
// lean/Ledger/Spec/README.md): the ops with the dates the database allotted, the outcome of
// every op, and the canonical snapshot of the ledger's tables at the end — compared by the
// Lean `hist` handler with the Spec journal folds and the abstract store.
//
// Needs the LeanPG executable (lean/.lake/build/bin/ldriver_sql or $VERIF_LPG).

type sqlOp struct {
	Op              string                       `json:"op"`
	At              int64                        `json:"at"`
	Timestamp       *int64                       `json:"timestamp,omitempty"`
	Postings        []jPosting                   `json:"postings,omitempty"`
	Reference       string                       `json:"reference,omitempty"`
	Metadata        map[string]string            `json:"metadata,omitempty"`
	AccountMetadata map[string]map[string]string `json:"accountMetadata,omitempty"`
	// store-level commits carry no funds check
	Force           bool            `json:"force"`
	ID              uint64          `json:"id,omitempty"`
	AtEffectiveDate bool            `json:"atEffectiveDate"`
	Target          map[string]any  `json:"target,omitempty"`
	Key             string          `json:"key,omitempty"`
	Extra           json.RawMessage `json:"-"`
}

type sqlHistIn struct {
	Ops []sqlOp `json:"ops"`
	// ledger features differing from the defaults (MOVES_HISTORY, …_POST_COMMIT_EFFECTIVE_VOLUMES,
	// HASH_LOGS, ACCOUNT_METADATA_HISTORY, TRANSACTION_METADATA_HISTORY)
	Features map[string]string `json:"features,omitempty"`
}

type sqlHistOut struct {
	Snapshot json.RawMessage `json:"snapshot"`
	Results  []string        `json:"results"`
	Err      string          `json:"err,omitempty"`
	Panic    string          `json:"panic,omitempty"`
}

var (
	sqlSrv     *pgfake.Server
	sqlLedgerN int
)

func sqlServer() (*pgfake.Server, error) {
	// all ledgers of one server share the bucket's tables: start afresh now and then to keep
	// the statements fast
	if sqlSrv != nil && sqlLedgerN%20 == 0 {
		sqlSrv.Close()
		sqlSrv = nil
	}
	if sqlSrv != nil {
		return sqlSrv, nil
	}
	srv, err := pgfake.Start(pgfake.DefaultLpgPath())
	if err != nil {
		return nil, fmt.Errorf("LeanPG not available (build it: lake build ldriver_sql): %w", err)
	}
	sqlSrv = srv
	return srv, nil
}

func usOf(t libtime.Time) int64 { return t.UnixMicro() }

func mdOf(m map[string]string) metadata.Metadata {
	ret := metadata.Metadata{}
	for k, v := range m {
		ret[k] = v
	}
	return ret
}

// inTx runs fn on a store bound to one SQL transaction (commit on nil error, rollback otherwise).
func inTx(ctx context.Context, store *ledgerstore.Store, fn func(st *ledgerstore.Store) error) error {
	st, _, err := store.BeginTX(ctx, nil)
	if err != nil {
		return err
	}
	if err := fn(st); err != nil {
		_ = st.Rollback(ctx)
		return err
	}
	return st.Commit(ctx)
}

func runSQLHist(in sqlHistIn) (out sqlHistOut, ops []sqlOp) {
	ops = make([]sqlOp, len(in.Ops))
	copy(ops, in.Ops)
	out.Results = make([]string, 0, len(ops))
	srv, err := sqlServer()
	if err != nil {
		out.Err = err.Error()
		return out, ops
	}
	ctx := context.Background()
	sqlLedgerN++
	fs := features.FeatureSet{}
	for k, v := range features.DefaultFeatures {
		fs[k] = v
	}
	for k, v := range in.Features {
		fs[k] = v
	}
	lp, err := ledger.New(fmt.Sprintf("h%d", sqlLedgerN), ledger.Configuration{Bucket: ledger.DefaultBucket, Metadata: metadata.Metadata{}, Features: fs})
	if err != nil {
		out.Err = "ledger: " + err.Error()
		return out, ops
	}
	l := *lp
	l.ID = srv.AllocLedgerID()
	if err := srv.CreateLedger(l); err != nil {
		out.Err = "create ledger: " + err.Error()
		return out, ops
	}
	store := ledgerstore.New(srv.DB(), bucket.NewDefaultFactory().Create(l.Bucket), l)
	out.Panic = guard(func() {
		for i := range ops {
			op := &ops[i]
			res := "ok"
			switch op.Op {
			case "tx":
				err := inTx(ctx, store, func(st *ledgerstore.Store) error {
					tx := ledger.NewTransaction().WithPostings(toPostings(op.Postings)...).
						WithMetadata(mdOf(op.Metadata)).WithReference(op.Reference)
					if op.Timestamp != nil {
						tx = tx.WithTimestamp(micros(*op.Timestamp))
					}
					if err := st.CommitTransaction(ctx, &tx); err != nil {
						return err
					}
					am := map[string]metadata.Metadata{}
					for a, m := range op.AccountMetadata {
						am[a] = mdOf(m)
					}
					// what DefaultController.upsertTransactionAccounts does
					if err := st.UpsertAccounts(ctx, tx.AccountsWithDefaultMetadata(nil, am)...); err != nil {
						return err
					}
					op.At = usOf(tx.InsertedAt)
					return nil
				})
				if err != nil {
					var conflict ledgerstore.ErrTransactionReferenceConflict
					if errors.As(err, &conflict) || strings.Contains(err.Error(), "reference") {
						res = "reference-conflict"
					} else {
						res = "error: " + err.Error()
					}
				}
			case "revert":
				err := inTx(ctx, store, func(st *ledgerstore.Store) error {
					r, err := ctrl.VerifCoreRevertTransaction(ctx, systemcontroller.NewDefaultStoreAdapter(st), ctrl.RevertTransaction{
						Force: op.Force, AtEffectiveDate: op.AtEffectiveDate, TransactionID: op.ID, Metadata: mdOf(op.Metadata),
					})
					if err != nil {
						return err
					}
					op.At = usOf(*r.RevertedTransaction.RevertedAt)
					return nil
				})
				if err != nil {
					var insufficient *machine.ErrInsufficientFund
					switch {
					case errors.Is(err, ctrl.ErrAlreadyReverted{}):
						res = "already-reverted"
					case errors.Is(err, postgres.ErrNotFound):
						res = "not-found"
					case errors.As(err, &insufficient) || strings.Contains(err.Error(), "insufficient fund"):
						res = "insufficient-funds"
					default:
						res = "error: " + err.Error()
					}
				}
			case "saveMeta":
				err := inTx(ctx, store, func(st *ledgerstore.Store) error {
					var now time.Time
					if err := st.GetDB().NewRaw(`select "` + l.Bucket + `".transaction_date()`).Scan(ctx, &now); err != nil {
						return fmt.Errorf("transaction_date: %w", err)
					}
					op.At = now.UTC().UnixMicro()
					if a, ok := op.Target["account"].(string); ok {
						// what DefaultController.saveAccountMetadata does
						acc := &ledger.Account{Address: a, Metadata: mdOf(op.Metadata)}
						if err := st.UpsertAccounts(ctx, ledger.AccountWithDefaultMetadata{Account: acc}); err != nil {
							return err
						}
						if !acc.UpdatedAt.IsZero() {
							op.At = usOf(acc.UpdatedAt)
						}
						return nil
					}
					id := uint64(op.Target["tx"].(float64))
					tx, _, err := st.UpdateTransactionMetadata(ctx, id, mdOf(op.Metadata), libtime.Time{})
					if err == nil && tx != nil && !tx.UpdatedAt.IsZero() {
						op.At = usOf(tx.UpdatedAt)
					}
					return err
				})
				if err != nil {
					if errors.Is(err, postgres.ErrNotFound) {
						res = "not-found"
					} else {
						res = "error: " + err.Error()
					}
				}
			case "deleteMeta":
				err := inTx(ctx, store, func(st *ledgerstore.Store) error {
					// the date the database allots to this write (the store call returns none)
					var now time.Time
					if err := st.GetDB().NewRaw(`select "` + l.Bucket + `".transaction_date()`).Scan(ctx, &now); err != nil {
						return fmt.Errorf("transaction_date: %w", err)
					}
					op.At = now.UTC().UnixMicro()
					if a, ok := op.Target["account"].(string); ok {
						return st.DeleteAccountMetadata(ctx, a, op.Key)
					}
					id := uint64(op.Target["tx"].(float64))
					_, _, err := st.DeleteTransactionMetadata(ctx, id, op.Key, libtime.Time{})
					return err
				})
				if err != nil {
					if errors.Is(err, postgres.ErrNotFound) {
						res = "not-found"
					} else {
						res = "error: " + err.Error()
					}
				}
			}
			out.Results = append(out.Results, res)
		}
	})
	raw, err := srv.Dump(l.Name)
	if err != nil {
		out.Err = "dump: " + err.Error()
		return out, ops
	}
	snap, err := snapshotOfDump(raw, fs[features.FeatureMovesHistory] == "ON",
		fs[features.FeatureTransactionMetadataHistory] == "SYNC", fs[features.FeatureAccountMetadataHistory] == "SYNC")
	if err != nil {
		out.Err = "snapshot: " + err.Error()
		return out, ops
	}
	out.Snapshot = snap
	return out, ops
}

// ---- canonical snapshot from the LeanPG dump ---------------------------------------

func dumpTime(v any) (any, error) {
	if v == nil {
		return nil, nil
	}
	s, ok := v.(string)
	if !ok {
		return nil, fmt.Errorf("time %v", v)
	}
	t, err := time.Parse(time.RFC3339Nano, s)
	if err != nil {
		return nil, err
	}
	return t.UnixMicro(), nil
}

func jsonMember(v any) any {
	if m, ok := v.(map[string]any); ok {
		if j, ok := m["json"]; ok {
			return j
		}
	}
	return v
}

func strMap(v any) map[string]string {
	ret := map[string]string{}
	if m, ok := jsonMember(v).(map[string]any); ok {
		for k, x := range m {
			ret[k] = fmt.Sprint(x)
		}
	}
	return ret
}

func decodeNumber(b []byte, into any) error {
	d := json.NewDecoder(bytes.NewReader(b))
	d.UseNumber()
	return d.Decode(into)
}

func snapshotOfDump(raw json.RawMessage, withMoves, withTxHist, withAccHist bool) (json.RawMessage, error) {
	var tables map[string][]map[string]any
	if err := decodeNumber(raw, &tables); err != nil {
		return nil, err
	}
	table := func(name string) []map[string]any {
		for k, v := range tables {
			if strings.HasSuffix(k, "."+name) && !strings.HasPrefix(k, "_system") {
				return v
			}
		}
		return nil
	}
	snap := map[string]any{}
	// accounts_volumes
	av := make([]jVol, 0)
	for _, r := range table("accounts_volumes") {
		av = append(av, jVol{Account: fmt.Sprint(r["accounts_address"]), Asset: fmt.Sprint(r["asset"]),
			Input: fmt.Sprint(r["input"]), Output: fmt.Sprint(r["output"])})
	}
	sortVols(av)
	snap["accountsVolumes"] = av
	// transactions
	type snapTx struct {
		ID         json.Number       `json:"id"`
		Postings   []jPosting        `json:"postings"`
		Timestamp  any               `json:"timestamp"`
		InsertedAt any               `json:"insertedAt"`
		Reference  string            `json:"reference"`
		Metadata   map[string]string `json:"metadata"`
		RevertedAt any               `json:"revertedAt"`
		PCV        []jVol            `json:"postCommitVolumes"`
	}
	txs := make([]snapTx, 0)
	for _, r := range table("transactions") {
		var t snapTx
		t.ID = json.Number(fmt.Sprint(r["id"]))
		var ps []struct {
			Source      string      `json:"source"`
			Destination string      `json:"destination"`
			Amount      json.Number `json:"amount"`
			Asset       string      `json:"asset"`
		}
		switch p := jsonMember(r["postings"]).(type) {
		case string:
			if err := decodeNumber([]byte(p), &ps); err != nil {
				return nil, err
			}
		default:
			b, _ := json.Marshal(p)
			if err := decodeNumber(b, &ps); err != nil {
				return nil, err
			}
		}
		t.Postings = make([]jPosting, 0, len(ps))
		for _, p := range ps {
			t.Postings = append(t.Postings, jPosting{Source: p.Source, Destination: p.Destination, Amount: p.Amount.String(), Asset: p.Asset})
		}
		var err error
		if t.Timestamp, err = dumpTime(r["timestamp"]); err != nil {
			return nil, err
		}
		if t.InsertedAt, err = dumpTime(r["inserted_at"]); err != nil {
			return nil, err
		}
		if t.RevertedAt, err = dumpTime(r["reverted_at"]); err != nil {
			return nil, err
		}
		if r["reference"] != nil {
			t.Reference = fmt.Sprint(r["reference"])
		}
		t.Metadata = strMap(r["metadata"])
		t.PCV = make([]jVol, 0)
		if m, ok := jsonMember(r["post_commit_volumes"]).(map[string]any); ok {
			for account, byAsset := range m {
				for asset, v := range byAsset.(map[string]any) {
					vv := v.(map[string]any)
					t.PCV = append(t.PCV, jVol{Account: account, Asset: asset, Input: fmt.Sprint(vv["input"]), Output: fmt.Sprint(vv["output"])})
				}
			}
		}
		sortVols(t.PCV)
		txs = append(txs, t)
	}
	sort.Slice(txs, func(i, j int) bool { return bigOf(txs[i].ID.String()).Cmp(bigOf(txs[j].ID.String())) < 0 })
	snap["transactions"] = txs
	// moves
	type vol struct {
		Input  string `json:"input"`
		Output string `json:"output"`
	}
	type snapMove struct {
		Seq           json.Number `json:"seq"`
		TxID          json.Number `json:"txId"`
		Account       string      `json:"account"`
		Asset         string      `json:"asset"`
		Amount        string      `json:"amount"`
		IsSource      bool        `json:"isSource"`
		InsertionDate any         `json:"insertionDate"`
		EffectiveDate any         `json:"effectiveDate"`
		PCV           vol         `json:"pcv"`
		PCEV          *vol        `json:"pcev"`
	}
	volOf := func(v any) *vol {
		m, ok := v.(map[string]any)
		if !ok {
			return nil
		}
		return &vol{Input: fmt.Sprint(m["inputs"]), Output: fmt.Sprint(m["outputs"])}
	}
	moves := make([]snapMove, 0)
	for _, r := range table("moves") {
		m := snapMove{Seq: json.Number(fmt.Sprint(r["seq"])), TxID: json.Number(fmt.Sprint(r["transactions_id"])),
			Account: fmt.Sprint(r["accounts_address"]), Asset: fmt.Sprint(r["asset"]), Amount: fmt.Sprint(r["amount"]),
			IsSource: r["is_source"] == true}
		var err error
		if m.InsertionDate, err = dumpTime(r["insertion_date"]); err != nil {
			return nil, err
		}
		if m.EffectiveDate, err = dumpTime(r["effective_date"]); err != nil {
			return nil, err
		}
		if p := volOf(r["post_commit_volumes"]); p != nil {
			m.PCV = *p
		}
		m.PCEV = volOf(r["post_commit_effective_volumes"])
		moves = append(moves, m)
	}
	sort.Slice(moves, func(i, j int) bool { return bigOf(moves[i].Seq.String()).Cmp(bigOf(moves[j].Seq.String())) < 0 })
	if withMoves {
		snap["moves"] = moves
	} else if len(moves) != 0 {
		return nil, fmt.Errorf("moves rows although MOVES_HISTORY is OFF")
	}
	// accounts
	type snapAccount struct {
		Address       string            `json:"address"`
		FirstUsage    any               `json:"firstUsage"`
		InsertionDate any               `json:"insertionDate"`
		Metadata      map[string]string `json:"metadata"`
	}
	accts := make([]snapAccount, 0)
	for _, r := range table("accounts") {
		a := snapAccount{Address: fmt.Sprint(r["address"]), Metadata: strMap(r["metadata"])}
		var err error
		if a.FirstUsage, err = dumpTime(r["first_usage"]); err != nil {
			return nil, err
		}
		if a.InsertionDate, err = dumpTime(r["insertion_date"]); err != nil {
			return nil, err
		}
		accts = append(accts, a)
	}
	sort.Slice(accts, func(i, j int) bool { return accts[i].Address < accts[j].Address })
	snap["accounts"] = accts
	// metadata histories (present only when the history features are on)
	type snapRev struct {
		TxID     *json.Number      `json:"txId,omitempty"`
		Address  string            `json:"address,omitempty"`
		Revision json.Number       `json:"revision"`
		Date     any               `json:"date"`
		Metadata map[string]string `json:"metadata"`
	}
	revs := func(name, idCol string) ([]snapRev, error) {
		out := make([]snapRev, 0)
		for _, r := range table(name) {
			v := snapRev{Revision: json.Number(fmt.Sprint(r["revision"])), Metadata: strMap(r["metadata"])}
			if idCol == "transactions_id" {
				n := json.Number(fmt.Sprint(r[idCol]))
				v.TxID = &n
			} else {
				v.Address = fmt.Sprint(r[idCol])
			}
			var err error
			if v.Date, err = dumpTime(r["date"]); err != nil {
				return nil, err
			}
			out = append(out, v)
		}
		return out, nil
	}
	if withTxHist {
		rs, err := revs("transactions_metadata", "transactions_id")
		if err != nil {
			return nil, err
		}
		snap["transactionsMetadata"] = rs
	}
	if withAccHist {
		rs, err := revs("accounts_metadata", "accounts_address")
		if err != nil {
			return nil, err
		}
		snap["accountsMetadata"] = rs
	}
	return json.Marshal(snap)
}

// ---- generator -----------------------------------------------------------------------

func genSQLHistIn(c *gen.Ctx) sqlHistIn {
	r := c.R
	n := 2 + r.Intn(8)
	if c.Wide {
		n = 2 + r.Intn(20)
	}
	in := sqlHistIn{}
	if r.Intn(2) == 0 {
		in.Features = map[string]string{}
		pick := func(name string, vals ...string) {
			if v := gen.Pick(r, vals); v != features.DefaultFeatures[name] {
				in.Features[name] = v
			}
		}
		pick(features.FeatureAccountMetadataHistory, "SYNC", "DISABLED")
		pick(features.FeatureTransactionMetadataHistory, "SYNC", "DISABLED")
		pick(features.FeatureHashLogs, "SYNC", "ASYNC", "DISABLED")
		switch r.Intn(6) {
		case 0:
			in.Features[features.FeatureMovesHistoryPostCommitEffectiveVolumes] = "DISABLED"
		case 1:
			in.Features[features.FeatureMovesHistory] = "OFF"
			in.Features[features.FeatureMovesHistoryPostCommitEffectiveVolumes] = "DISABLED"
		}
	}
	committed := 0
	metaPool := []map[string]string{{"k": "v"}, {"k": "w", "x": ""}, {"tier": "gold"}, {}}
	for i := 0; i < n; i++ {
		switch k := r.Intn(10); {
		case k < 6 || committed == 0:
			ps := genPostings(c, 4, false)
			for len(ps) == 0 {
				ps = genPostings(c, 4, false)
			}
			op := sqlOp{Op: "tx", Postings: ps, Force: true, Metadata: gen.Pick(r, metaPool)}
			if r.Intn(2) == 0 {
				ts := gen.Pick(r, timeGrid)
				op.Timestamp = &ts
			}
			if r.Intn(4) == 0 {
				op.Reference = gen.Pick(r, []string{"r1", "r2", "ref \"q\""})
			}
			if r.Intn(4) == 0 {
				op.AccountMetadata = map[string]map[string]string{gen.Pick(r, []string{"a", "meta:only", "bank"}): gen.Pick(r, metaPool[:3])}
			}
			in.Ops = append(in.Ops, op)
			committed++
		case k < 8:
			in.Ops = append(in.Ops, sqlOp{Op: "revert", ID: uint64(1 + r.Intn(committed+1)), Force: r.Intn(2) == 0,
				AtEffectiveDate: r.Intn(2) == 0, Metadata: gen.Pick(r, metaPool)})
			committed++ // optimistic: ids keep growing when the revert succeeds
		case k == 8:
			var target map[string]any
			if r.Intn(2) == 0 {
				target = map[string]any{"account": gen.Pick(r, []string{"a", "b", "fresh:acct", "world"})}
			} else {
				target = map[string]any{"tx": float64(1 + r.Intn(committed+1))}
			}
			in.Ops = append(in.Ops, sqlOp{Op: "saveMeta", Target: target, Metadata: gen.Pick(r, metaPool[:3])})
		default:
			var target map[string]any
			if r.Intn(2) == 0 {
				target = map[string]any{"account": gen.Pick(r, []string{"a", "b", "never"})}
			} else {
				target = map[string]any{"tx": float64(1 + r.Intn(committed+1))}
			}
			in.Ops = append(in.Ops, sqlOp{Op: "deleteMeta", Target: target, Key: gen.Pick(r, []string{"k", "tier", "zz"})})
		}
	}
	return in
}

func init() {
	emit := func(c *gen.Ctx, in sqlHistIn) error {
		out, ops := runSQLHist(in)
		if out.Err != "" && out.Snapshot == nil {
			return errors.New(out.Err)
		}
		return c.Emit("hist", withProp(sqlHistIn{Ops: ops, Features: in.Features}), out)
	}
	gen.Register("sqlhist", func(c *gen.Ctx) error {
		defer func() {
			if sqlSrv != nil {
				sqlSrv.Close()
				sqlSrv = nil
			}
		}()
		if c.Replay != "" {
			ins, err := c.ReplayInputs("hist")
			if err != nil {
				return err
			}
			for _, raw := range ins {
				var in sqlHistIn
				if err := json.Unmarshal(raw, &in); err != nil {
					return err
				}
				if err := emit(c, in); err != nil {
					return err
				}
			}
			return nil
		}
		for i := 0; i < c.N; i++ {
			if err := emit(c, genSQLHistIn(c)); err != nil {
				return err
			}
		}
		return nil
	})
}
