//go:build verif

package wlcore

import (
	"context"
	"database/sql/driver"
	"encoding/json"
	"fmt"
	"math/big"
	"strings"

	ledger "github.com/formancehq/ledger/internal"
	ledgerstore "github.com/formancehq/ledger/internal/storage/ledger"
)

// commitOut is what one real `Store.CommitTransaction` produced over the fake driver.
type commitOut struct {
	// rows of the rendered `INSERT INTO accounts_volumes … VALUES` (what VolumeUpdates sent)
	Upsert []jVol `json:"upsert"`
	// tx.PostCommitVolumes after the call
	PCV []jVol `json:"pcv"`
	// rows of the rendered `INSERT INTO moves … VALUES`
	Moves []jMove `json:"moves"`
	// tx.PostCommitEffectiveVolumes (ComputePostCommitEffectiveVolumes over the RETURNING values)
	PCEV []jVol `json:"pcev"`
	// preCommitVolumes / preCommitEffectiveVolumes of Transaction.MarshalJSON
	Pre    []jVol `json:"pre"`
	PreEff []jVol `json:"preEff"`
	// statement kinds in the order the store issued them
	Stmts []string `json:"stmts"`
	Err   string   `json:"err,omitempty"`
	Panic string   `json:"panic,omitempty"`
}

type key struct{ account, asset string }

// volTable is the harness's accounts_volumes table; upsert adds like the SQL upsert.
type volTable map[key][2]*big.Int

func (t volTable) upsert(account, asset string, in, out *big.Int) (string, string) {
	k := key{account, asset}
	cur, ok := t[k]
	if !ok {
		cur = [2]*big.Int{new(big.Int), new(big.Int)}
	}
	n := [2]*big.Int{new(big.Int).Add(cur[0], in), new(big.Int).Add(cur[1], out)}
	t[k] = n
	return n[0].String(), n[1].String()
}

func (t volTable) flat() []jVol {
	ret := make([]jVol, 0, len(t))
	for k, v := range t {
		ret = append(ret, jVol{Account: k.account, Asset: k.asset, Input: v[0].String(), Output: v[1].String()})
	}
	sortVols(ret)
	return ret
}

func tableOf(vs []jVol) volTable {
	t := volTable{}
	for _, v := range vs {
		t[key{v.Account, v.Asset}] = [2]*big.Int{bigOf(v.Input), bigOf(v.Output)}
	}
	return t
}

var commitLedger = ledger.MustNewWithDefault("verif")

// realCommit runs the real CommitTransaction.  The upsert's RETURNING is answered with
// `table[row] + row` (and the table updated), the moves' RETURNING with the values of
// the rendered rows and the canned effective volumes `pcev` (one per move, insert order;
// missing ones are answered as "(0,0)").
func realCommit(table volTable, postings []jPosting, id uint64, ts, ins int64, pcev [][2]string) (out commitOut) {
	db, setResponder := newFakeDB()
	defer db.Close()
	store := ledgerstore.New(db, nil, commitLedger)
	setResponder(func(q string) ([]string, [][]driver.Value, error) {
		switch {
		case strings.HasPrefix(q, `INSERT INTO "_default".accounts_volumes`):
			out.Stmts = append(out.Stmts, "upsert-volumes")
			// the harness plays the database for this statement: it may only do so while the
			// statement is the additive upsert it emulates
			tail := strings.ToLower(strings.Join(strings.Fields(q[strings.LastIndex(q, ")")+1:]), " "))
			if i := strings.LastIndex(strings.ToLower(q), " on conflict "); i >= 0 {
				tail = strings.ToLower(strings.Join(strings.Fields(q[i:]), " "))
			}
			if !additiveUpsert(tail) {
				return nil, nil, fmt.Errorf("unexpected upsert shape: %s", tail)
			}
			cols, tuples, err := parseValues(q)
			if err != nil {
				return nil, nil, err
			}
			ia, is, ii, io := colIndex(cols, "accounts_address"), colIndex(cols, "asset"), colIndex(cols, "input"), colIndex(cols, "output")
			if ia < 0 || is < 0 || ii < 0 || io < 0 {
				return nil, nil, fmt.Errorf("upsert columns %v", cols)
			}
			rows := make([][]driver.Value, 0, len(tuples))
			for _, t := range tuples {
				if len(t) != len(cols) {
					return nil, nil, fmt.Errorf("malformed VALUES tuple %v", t)
				}
				out.Upsert = append(out.Upsert, jVol{Account: t[ia], Asset: t[is], Input: t[ii], Output: t[io]})
				nin, nout := table.upsert(t[ia], t[is], bigOf(t[ii]), bigOf(t[io]))
				rows = append(rows, []driver.Value{nin, nout})
			}
			return []string{"input", "output"}, rows, nil
		case strings.HasPrefix(q, `INSERT INTO "_default".transactions`):
			out.Stmts = append(out.Stmts, "insert-transaction")
			return []string{"id", "timestamp", "inserted_at", "updated_at"},
				[][]driver.Value{{int64(id), micros(ts).Time, micros(ins).Time, micros(ins).Time}}, nil
		case strings.HasPrefix(q, `INSERT INTO "_default".moves`):
			out.Stmts = append(out.Stmts, "insert-moves")
			cols, tuples, err := parseValues(q)
			if err != nil {
				return nil, nil, err
			}
			idx := map[string]int{}
			for _, n := range []string{"transactions_id", "is_source", "accounts_address", "amount", "asset", "insertion_date", "effective_date", "post_commit_volumes"} {
				idx[n] = colIndex(cols, n)
				if idx[n] < 0 {
					return nil, nil, fmt.Errorf("moves columns %v", cols)
				}
			}
			rows := make([][]driver.Value, 0, len(tuples))
			for i, t := range tuples {
				if len(t) != len(cols) {
					return nil, nil, fmt.Errorf("malformed VALUES tuple %v", t)
				}
				in, o, err := parseVolumesLiteral(t[idx["post_commit_volumes"]])
				if err != nil {
					return nil, nil, err
				}
				insS, err := parseSQLTime(t[idx["insertion_date"]])
				if err != nil {
					return nil, nil, err
				}
				effS, err := parseSQLTime(t[idx["effective_date"]])
				if err != nil {
					return nil, nil, err
				}
				out.Moves = append(out.Moves, jMove{
					Account: t[idx["accounts_address"]], Asset: t[idx["asset"]], Amount: t[idx["amount"]],
					IsSource: strings.EqualFold(t[idx["is_source"]], "true"), Input: in, Output: o,
					TxID: t[idx["transactions_id"]], Ins: insS, Eff: effS,
				})
				e := "(0,0)"
				if i < len(pcev) {
					e = "(" + pcev[i][0] + "," + pcev[i][1] + ")"
				}
				rows = append(rows, []driver.Value{"(" + in + "," + o + ")", e})
			}
			return []string{"post_commit_volumes", "post_commit_effective_volumes"}, rows, nil
		}
		return nil, nil, fmt.Errorf("unexpected statement: %.120s", q)
	})

	tx := ledger.NewTransaction().WithPostings(toPostings(postings)...)
	// the controller leaves id/inserted_at to the store; the timestamp may be preset
	out.Panic = guard(func() {
		err := store.CommitTransaction(context.Background(), &tx)
		if err != nil {
			out.Err = err.Error()
			return
		}
		out.PCV = flattenPCV(tx.PostCommitVolumes)
		out.PCEV = flattenPCV(tx.PostCommitEffectiveVolumes)
		raw, err := json.Marshal(tx)
		if err != nil {
			out.Err = "marshal: " + err.Error()
			return
		}
		var aux struct {
			Pre    ledger.PostCommitVolumes `json:"preCommitVolumes"`
			PreEff ledger.PostCommitVolumes `json:"preCommitEffectiveVolumes"`
		}
		if err := json.Unmarshal(raw, &aux); err != nil {
			out.Err = "unmarshal: " + err.Error()
			return
		}
		out.Pre = flattenPCV(aux.Pre)
		out.PreEff = flattenPCV(aux.PreEff)
	})
	return out
}

// additiveUpsert accepts the conflict clause of UpdateVolumes in the forms that mean
// "add the new row to the stored one" (either operand order), returning input and output.
func additiveUpsert(tail string) bool {
	const pre = "on conflict (ledger, accounts_address, asset) do update set "
	const post = " returning input, output"
	if !strings.HasPrefix(tail, pre) || !strings.HasSuffix(tail, post) {
		return false
	}
	sets := strings.Split(tail[len(pre):len(tail)-len(post)], ", ")
	if len(sets) != 2 {
		return false
	}
	ok := map[string]bool{}
	for _, col := range []string{"input", "output"} {
		ok[col+" = accounts_volumes."+col+" + excluded."+col] = true
		ok[col+" = excluded."+col+" + accounts_volumes."+col] = true
	}
	seen := map[byte]bool{}
	for _, st := range sets {
		if !ok[st] {
			return false
		}
		seen[st[0]] = true
	}
	return seen['i'] && seen['o']
}

func guard(fn func()) (panicked string) {
	defer func() {
		if r := recover(); r != nil {
			s := fmt.Sprint(r)
			switch {
			case strings.Contains(s, "nil pointer dereference"):
				panicked = "panic: nil-deref"
			case strings.Contains(s, "assignment to entry in nil map"):
				panicked = "panic: nil-map"
			default:
				panicked = "panic: " + s
			}
		}
	}()
	fn()
	return ""
}
