//go:build verif

package wlcore

import (
	"encoding/json"
	"sort"

	ledger "github.com/formancehq/ledger/internal"
	"github.com/formancehq/ledger/internal/verif/gen"
)

// Workload "volupd": Transaction.VolumeUpdates on random posting lists (self-postings,
// world, repeated pairs, chains, amounts of any magnitude, a stream with negative
// amounts), plus InvolvedAccounts / InvolvedDestinations.

type volupdIn struct {
	Postings []jPosting `json:"postings"`
}

type volupdOut struct {
	// in the order VolumeUpdates returned them (it sorts by account, asset)
	Updates  []jVol   `json:"updates"`
	Accounts []string `json:"accounts"`
	// InvolvedDestinations flattened and sorted: (destination, asset)
	Destinations [][2]string `json:"destinations"`
	Panic        string      `json:"panic,omitempty"`
}

func sortBals(v []jBal) {
	sort.Slice(v, func(i, j int) bool {
		if v[i].Account != v[j].Account {
			return v[i].Account < v[j].Account
		}
		return v[i].Asset < v[j].Asset
	})
}

func runVolupd(in volupdIn) (out volupdOut) {
	out.Updates = []jVol{}
	out.Accounts = []string{}
	out.Destinations = [][2]string{}
	out.Panic = guard(func() {
		tx := ledger.NewTransaction().WithPostings(toPostings(in.Postings)...)
		for _, u := range tx.VolumeUpdates() {
			out.Updates = append(out.Updates, jVol{Account: u.Account, Asset: u.Asset, Input: str(u.Input), Output: str(u.Output)})
		}
		out.Accounts = append(out.Accounts, tx.InvolvedAccounts()...)
		for account, assets := range tx.InvolvedDestinations() {
			for _, asset := range assets {
				out.Destinations = append(out.Destinations, [2]string{account, asset})
			}
		}
		sort.Slice(out.Destinations, func(i, j int) bool {
			if out.Destinations[i][0] != out.Destinations[j][0] {
				return out.Destinations[i][0] < out.Destinations[j][0]
			}
			return out.Destinations[i][1] < out.Destinations[j][1]
		})
	})
	return out
}

func init() {
	gen.Register("volupd", func(c *gen.Ctx) error {
		if c.Replay != "" {
			ins, err := c.ReplayInputs("volupd")
			if err != nil {
				return err
			}
			for _, raw := range ins {
				var in volupdIn
				if err := json.Unmarshal(raw, &in); err != nil {
					return err
				}
				if err := c.Emit("volupd", withProp(in), runVolupd(in)); err != nil {
					return err
				}
			}
			return nil
		}
		max := 12
		if c.Wide {
			max = 40
		}
		for i := 0; i < c.N; i++ {
			in := volupdIn{Postings: genPostings(c, max, i%5 == 4)}
			if err := c.Emit("volupd", withProp(in), runVolupd(in)); err != nil {
				return err
			}
		}
		return nil
	})
}
