//go:build verif

package wlcore

import (
	"context"
	"encoding/json"
	"errors"
	"math/big"
	"sort"
	"strings"

	"github.com/formancehq/go-libs/v5/pkg/types/metadata"
	libtime "github.com/formancehq/go-libs/v5/pkg/types/time"

	ledger "github.com/formancehq/ledger/internal"
	ctrl "github.com/formancehq/ledger/internal/controller/ledger"
	"github.com/formancehq/ledger/internal/machine"
	ledgerstore "github.com/formancehq/ledger/internal/storage/ledger"
	"github.com/formancehq/ledger/internal/verif/gen"
)

// Workload "reverse": Postings.Reverse, Transaction.Reverse and the real
// DefaultController.revertTransaction over a stub store (RevertTransaction returns the
// original row with id / reverted_at set, GetBalances answers exactly the queried
// (account, asset) pairs from the given current balances — absent = 0, as the real
// GetBalances does —, CommitTransaction records the transaction it is handed).

type jKV struct {
	K string `json:"k"`
	V string `json:"v"`
}

type reverseIn struct {
	Postings []jPosting `json:"postings"`
	ID       uint64     `json:"id"`
	// µs; 0 = zero time
	Timestamp int64 `json:"timestamp"`
	// reverted_at the store's UPDATE … RETURNING reports (the revert time)
	RevertedAt      int64 `json:"revertedAt"`
	Force           bool  `json:"force"`
	AtEffectiveDate bool  `json:"atEffectiveDate"`
	// client metadata of the revert request, sorted by key; nil map when NilMeta
	Metadata []jKV `json:"metadata"`
	NilMeta  bool  `json:"nilMeta"`
	// current balances (input − output) of some (account, asset) pairs
	Current []jBal `json:"current"`
	// the store reports the transaction as already reverted
	Already bool `json:"already"`
}

type jTx struct {
	Postings  []jPosting `json:"postings"`
	Metadata  []jKV      `json:"metadata"`
	Timestamp string     `json:"timestamp"`
	Reference string     `json:"reference"`
	HasID     bool       `json:"hasId"`
}

type reverseOut struct {
	// Postings.Reverse()
	Reversed []jPosting `json:"reversed"`
	// Reverse().Reverse() gives the postings back
	Involutive bool `json:"involutive"`
	// the receiver is left untouched (Reverse copies)
	InputUntouched bool `json:"inputUntouched"`
	// Transaction.Reverse()
	TxReverse jTx `json:"txReverse"`
	// the BalanceQuery revertTransaction issued, flattened + sorted
	Queried [][2]string `json:"queried"`
	// "" | "already-reverted" | "insufficient-funds" | other text
	Err string `json:"err"`
	// the transaction handed to CommitTransaction (when reached)
	Committed bool `json:"committed"`
	Tx        jTx  `json:"tx"`
	// RevertedTransaction.RevertedTransaction keeps the original postings
	OrigKept bool   `json:"origKept"`
	Panic    string `json:"panic,omitempty"`
}

func kvOf(m metadata.Metadata) []jKV {
	ret := make([]jKV, 0, len(m))
	for k, v := range m {
		ret = append(ret, jKV{K: k, V: v})
	}
	sort.Slice(ret, func(i, j int) bool { return ret[i].K < ret[j].K })
	return ret
}

func txOf(tx ledger.Transaction) jTx {
	return jTx{Postings: fromPostings(tx.Postings), Metadata: kvOf(tx.Metadata), Timestamp: microsOf(tx.Timestamp),
		Reference: tx.Reference, HasID: tx.ID != nil}
}

type stubStore struct {
	ctrl.Store // nil: any method not overridden panics with a nil dereference
	orig       *ledger.Transaction
	already    bool
	current    map[key]*big.Int
	queried    ledgerstore.BalanceQuery
	committed  *ledger.Transaction
}

func (s *stubStore) RevertTransaction(_ context.Context, _ uint64, _ libtime.Time) (*ledger.Transaction, bool, error) {
	return s.orig, !s.already, nil
}

func (s *stubStore) GetBalances(_ context.Context, q ledgerstore.BalanceQuery) (ledger.Balances, error) {
	s.queried = q
	ret := ledger.Balances{}
	for account, assets := range q {
		if _, ok := ret[account]; !ok {
			ret[account] = map[string]*big.Int{}
		}
		for _, asset := range assets {
			if v, ok := s.current[key{account, asset}]; ok {
				ret[account][asset] = new(big.Int).Set(v)
			} else {
				ret[account][asset] = big.NewInt(0)
			}
		}
	}
	return ret, nil
}

func (s *stubStore) CommitTransaction(_ context.Context, tx *ledger.Transaction) error {
	cp := *tx
	s.committed = &cp
	return nil
}

func runReverse(in reverseIn) (out reverseOut) {
	out.Reversed = []jPosting{}
	out.Queried = [][2]string{}
	st := &stubStore{already: in.Already, current: map[key]*big.Int{}}
	for _, b := range in.Current {
		st.current[key{b.Account, b.Asset}] = bigOf(b.Balance)
	}
	out.Panic = guard(func() {
		ps := toPostings(in.Postings)
		before := string(mustJSON(fromPostings(ps)))
		rev := ps.Reverse()
		out.Reversed = fromPostings(rev)
		out.InputUntouched = string(mustJSON(fromPostings(ps))) == before
		out.Involutive = string(mustJSON(fromPostings(rev.Reverse()))) == before

		orig := ledger.NewTransaction().WithPostings(ps...).WithID(in.ID)
		if in.Timestamp != 0 {
			orig = orig.WithTimestamp(micros(in.Timestamp))
		}
		orig.Reference = "orig-ref"
		orig.Metadata = metadata.Metadata{"orig": "meta"}
		out.TxReverse = txOf(orig.Reverse())

		rowFromStore := orig.WithRevertedAt(micros(in.RevertedAt))
		st.orig = &rowFromStore
		var md metadata.Metadata
		if !in.NilMeta {
			md = metadata.Metadata{}
			for _, kv := range in.Metadata {
				md[kv.K] = kv.V
			}
		}
		res, err := ctrl.VerifCoreRevertTransaction(context.Background(), st, ctrl.RevertTransaction{
			Force: in.Force, AtEffectiveDate: in.AtEffectiveDate, TransactionID: in.ID, Metadata: md,
		})
		if err != nil {
			var insufficient *machine.ErrInsufficientFund
			switch {
			case errors.Is(err, ctrl.ErrAlreadyReverted{}):
				out.Err = "already-reverted"
			case errors.As(err, &insufficient) || strings.Contains(err.Error(), "insufficient fund"):
				out.Err = "insufficient-funds"
			default:
				out.Err = "other: " + err.Error()
			}
			return
		}
		if st.committed != nil {
			out.Committed = true
			out.Tx = txOf(*st.committed)
		}
		out.OrigKept = string(mustJSON(fromPostings(res.RevertedTransaction.Postings))) == before &&
			string(mustJSON(fromPostings(res.RevertTransaction.Postings))) == string(mustJSON(out.Tx.Postings))
	})
	for account, assets := range st.queried {
		for _, asset := range assets {
			out.Queried = append(out.Queried, [2]string{account, asset})
		}
	}
	sort.Slice(out.Queried, func(i, j int) bool {
		if out.Queried[i][0] != out.Queried[j][0] {
			return out.Queried[i][0] < out.Queried[j][0]
		}
		return out.Queried[i][1] < out.Queried[j][1]
	})
	if out.Tx.Postings == nil {
		out.Tx = jTx{Postings: []jPosting{}, Metadata: []jKV{}}
	}
	return out
}

func genReverseIn(c *gen.Ctx) reverseIn {
	r := c.R
	max := 8
	if c.Wide {
		max = 20
	}
	in := reverseIn{Postings: genPostings(c, max, false), ID: uint64(r.Intn(5000)),
		Force: r.Intn(3) == 0, AtEffectiveDate: r.Intn(2) == 0, Already: r.Intn(25) == 0,
		Metadata: []jKV{}, Current: []jBal{}}
	if r.Intn(10) > 0 {
		in.Timestamp = gen.Pick(r, timeGrid)
	}
	in.RevertedAt = gen.Pick(r, timeGrid)
	switch r.Intn(6) {
	case 0:
		in.NilMeta = true
	case 1:
		in.Metadata = []jKV{{K: "com.formance.spec/state/reverts", V: "client-supplied"}, {K: "reason", V: ""}}
	case 2, 3:
		in.Metadata = []jKV{{K: "reason", V: gen.Pick(r, []string{"oops", "", "dup \"x\"", "é"})}}
		if r.Intn(2) == 0 {
			in.Metadata = append([]jKV{{K: "a", V: "1"}}, in.Metadata...)
		}
	}
	// current balances: mostly enough funds on the destinations (so that the revert passes)
	seen := map[key]bool{}
	for _, p := range in.Postings {
		k := key{p.Destination, p.Asset}
		if seen[k] || r.Intn(5) == 0 {
			continue
		}
		seen[k] = true
		var b *big.Int
		switch r.Intn(4) {
		case 0:
			b = gen.BigAmount(r)
		case 1:
			b = new(big.Int).Neg(gen.BigAmount(r))
		default:
			b = new(big.Int).Add(bigOf(p.Amount), gen.BigAmount(r))
			b.Mul(b, big.NewInt(int64(1+r.Intn(3))))
		}
		in.Current = append(in.Current, jBal{Account: p.Destination, Asset: p.Asset, Balance: b.String()})
	}
	sortBals(in.Current)
	return in
}

func init() {
	gen.Register("reverse", func(c *gen.Ctx) error {
		if c.Replay != "" {
			ins, err := c.ReplayInputs("reverse")
			if err != nil {
				return err
			}
			for _, raw := range ins {
				var in reverseIn
				if err := json.Unmarshal(raw, &in); err != nil {
					return err
				}
				if err := c.Emit("reverse", withProp(in), runReverse(in)); err != nil {
					return err
				}
			}
			return nil
		}
		for i := 0; i < c.N; i++ {
			in := genReverseIn(c)
			if err := c.Emit("reverse", withProp(in), runReverse(in)); err != nil {
				return err
			}
		}
		return nil
	})
}
