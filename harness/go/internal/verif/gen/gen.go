//go:build verif

// Package gen holds the workload registry and the seeded generators shared by
// the correspondence workloads.
package gen

import (
	"bufio"
	"encoding/json"
	"fmt"
	"math/big"
	"math/rand"
	"os"
)

// Ctx is handed to every workload.
type Ctx struct {
	R      *rand.Rand
	N      int
	Wide   bool
	Out    *bufio.Writer
	Replay string
}

// Workload generates cases, runs the real code, and emits one line per case.
type Workload func(*Ctx) error

var Workloads = map[string]Workload{}

func Register(name string, w Workload) { Workloads[name] = w }

func NewRand(seed int64) *rand.Rand { return rand.New(rand.NewSource(seed)) }

// Case is one line of the protocol.
type Case struct {
	F   string `json:"f"`
	In  any    `json:"in"`
	Out any    `json:"out"`
}

// Emit writes one case. Output is flushed per line so that a crash of the real
// code loses nothing.
func (c *Ctx) Emit(f string, in, out any) error {
	b, err := json.Marshal(Case{F: f, In: in, Out: out})
	if err != nil {
		return err
	}
	if _, err := c.Out.Write(b); err != nil {
		return err
	}
	if err := c.Out.WriteByte('\n'); err != nil {
		return err
	}
	return c.Out.Flush()
}

// ReplayInputs returns the "in" members (raw) of a replay file, filtered on f.
func (c *Ctx) ReplayInputs(f string) ([]json.RawMessage, error) {
	fh, err := os.Open(c.Replay)
	if err != nil {
		return nil, err
	}
	defer fh.Close()
	var res []json.RawMessage
	sc := bufio.NewScanner(fh)
	sc.Buffer(make([]byte, 1<<20), 1<<28)
	for sc.Scan() {
		var raw struct {
			F  string          `json:"f"`
			In json.RawMessage `json:"in"`
		}
		if err := json.Unmarshal(sc.Bytes(), &raw); err != nil {
			continue
		}
		if raw.F == f {
			res = append(res, raw.In)
		}
	}
	return res, sc.Err()
}

// Guard runs fn and converts a panic into an error string ("panic: …").
func Guard(fn func()) (panicked string) {
	defer func() {
		if r := recover(); r != nil {
			panicked = fmt.Sprintf("panic: %v", r)
		}
	}()
	fn()
	return ""
}

// ---- numbers ---------------------------------------------------------------

var interesting = []string{
	"0", "1", "2", "3", "7", "10", "99", "100", "101", "1000",
	"9007199254740991", "9007199254740992", "9007199254740993",
	"9223372036854775807", "9223372036854775808", "9223372036854775809",
	"18446744073709551615", "18446744073709551616", "18446744073709551617",
	"1000000000000000000000000000000",
}

// BigAmount draws a non-negative amount: small, boundary (2^53, 2^63, 2^64,
// 10^30) or random up to 2^100.
func BigAmount(r *rand.Rand) *big.Int {
	switch r.Intn(10) {
	case 0, 1, 2:
		return big.NewInt(int64(r.Intn(20)))
	case 3, 4:
		return big.NewInt(int64(r.Intn(100000)))
	case 5, 6:
		v, _ := new(big.Int).SetString(interesting[r.Intn(len(interesting))], 10)
		return v
	default:
		bits := 1 + r.Intn(100)
		v := new(big.Int).Rand(r, new(big.Int).Lsh(big.NewInt(1), uint(bits)))
		return v
	}
}

// Pick returns one element of xs.
func Pick[T any](r *rand.Rand, xs []T) T { return xs[r.Intn(len(xs))] }
