//go:build verif

package wlsched

import (
	"context"
	"fmt"
	"os"
	"strings"
)

// kindCtor maps a classifier kind to the constructor of Ledger.Sched.Kind.
func kindCtor(k string) string {
	switch k {
	case "begin", "commit", "rollback", "savepoint", "release", "rollbackTo", "lockLedgerX", "lockLedgerS", "unlockLedgerS",
		"updateState", "setval", "readIK", "getBalances", "updateVolumes", "insertTx", "advLockLog", "insertLog",
		"revertUpdate", "createBlocks", "getBalancesNoLock", "getBalancesNoIns", "revertUpdateUnguarded",
		"readSchema", "insertMoves", "upsertAccounts", "updateTxMetadata", "read":
		return "." + k
	case "readLedgerState", "openLedger":
		return ".readState"
	case "readLogs":
		return ".readLastLog"
	case "insertAccountsMetadata", "insertTransactionsMetadata", "updateAccounts":
		return ".insertMetadata"
	case "readLedger":
		return ".read"
	default:
		return ".other"
	}
}

type handleScenario struct {
	name   string
	doc    string
	hash   string
	fresh  bool // no setup write: the ledger is still `initializing`
	setup  []Req
	req    Req
	import_ bool
}

// handlesMain prints the Lean module Ledger.Generated.Handles: for every write kind and branch,
// the ordered list of (statement kind, handle) the REAL controller stack issued, captured by
// running it once over pgfake/LeanPG (pgfake records the handle of every statement).
func handlesMain(args []string) int {
	fund := Req{Task: "s", Kind: "send", Src: "world", Dst: "alice", Asset: "USD", Amount: "100"}
	scen := []handleScenario{
		{name: "sendSyncBounded", doc: "createTransaction, bounded source, HASH_LOGS=SYNC, idempotency key, ledger in use", hash: "SYNC", setup: []Req{fund},
			req: Req{Kind: "send", Src: "alice", Dst: "bob", Asset: "USD", Amount: "10", IK: "k1", Reference: "r1"}},
		{name: "sendAsyncBounded", doc: "the same with HASH_LOGS=ASYNC (no advisory lock)", hash: "ASYNC", setup: []Req{fund},
			req: Req{Kind: "send", Src: "alice", Dst: "bob", Asset: "USD", Amount: "10"}},
		{name: "sendSyncUnbounded", doc: "unbounded source: no balance is read", hash: "SYNC", setup: []Req{fund},
			req: Req{Kind: "send", Src: "alice", Dst: "bob", Asset: "USD", Amount: "10", Allow: "unbounded"}},
		{name: "sendFirstWrite", doc: "first write on an initializing ledger: state tracker (handleState) around a nested forgeLog", hash: "SYNC", fresh: true,
			req: Req{Kind: "send", Src: "world", Dst: "bob", Asset: "USD", Amount: "10"}},
		{name: "sendInsufficient", doc: "refused by the funds check", hash: "SYNC", setup: []Req{fund},
			req: Req{Kind: "send", Src: "alice", Dst: "bob", Asset: "USD", Amount: "1000"}},
		{name: "sendIkHit", doc: "idempotency key already recorded", hash: "SYNC", setup: []Req{{Task: "s", Kind: "send", Src: "world", Dst: "alice", Asset: "USD", Amount: "100", IK: "k1"}},
			req: Req{Kind: "send", Src: "world", Dst: "alice", Asset: "USD", Amount: "100", IK: "k1"}},
		{name: "sendReferenceConflict", doc: "reference already used", hash: "SYNC", setup: []Req{{Task: "s", Kind: "send", Src: "world", Dst: "alice", Asset: "USD", Amount: "100", Reference: "r1"}},
			req: Req{Kind: "send", Src: "world", Dst: "alice", Asset: "USD", Amount: "1", Reference: "r1"}},
		{name: "revertSync", doc: "revertTransaction (non-forced)", hash: "SYNC", setup: []Req{fund},
			req: Req{Kind: "revert", TxID: 1}},
		{name: "revertAlreadyReverted", doc: "second revert of the same transaction", hash: "SYNC", setup: []Req{fund, {Task: "s2", Kind: "revert", TxID: 1}},
			req: Req{Kind: "revert", TxID: 1}},
		{name: "bulkAtomic", doc: "atomic bulk of two creates: Controller.BeginTX, nested forgeLogs, Commit", hash: "SYNC", setup: []Req{fund},
			req: Req{Kind: "bulk", Elems: []Req{{Kind: "send", Src: "alice", Dst: "bob", Asset: "USD", Amount: "1"}, {Kind: "send", Src: "alice", Dst: "bob", Asset: "USD", Amount: "2"}}}},
		{name: "importTwoLogs", doc: "Import of two NEW_TRANSACTION logs into an initializing ledger (HASH_LOGS=SYNC)", hash: "SYNC", fresh: true, import_: true,
			req: Req{Kind: "import", From: "src"}},
		{name: "createBlocks", doc: "the async block builder's statement", hash: "ASYNC", setup: []Req{fund},
			req: Req{Kind: "blocks", BlockSize: 10}},
	}
	defer closeEnv()
	var sb strings.Builder
	sb.WriteString("-- GENERATED-MODULE: Ledger.Generated.Handles\n")
	sb.WriteString("-- by tools/t3_handles (vrsched handles): DO NOT EDIT. Regenerated from /repo on every check.\n")
	sb.WriteString("import Ledger.Sched.Kinds\n\n")
	sb.WriteString("/-!\nFor every write kind and branch: the ordered list of (statement kind, handle) the REAL\ncontroller stack (system controller → state tracker → ledger controller → SQL store → bun)\nissued when run once over pgfake/LeanPG. pgfake knows the handle of every statement\n(`conn` = autocommit on the pool, `tx` = inside BEGIN…COMMIT, `savepoint` = inside a nested BeginTX).\n-/\n")
	sb.WriteString("namespace Ledger.Generated.Handles\nopen Ledger.Sched\n\nabbrev Trace := List (Kind × Handle)\n\n")
	var names []string
	for _, sc := range scen {
		e, err := getEnv(1000)
		if err != nil {
			fmt.Fprintln(os.Stderr, "t3_handles:", err)
			return 2
		}
		ctx := context.Background()
		specs := []LedgerSpec{{Name: "l", HashLogs: sc.hash}}
		if sc.import_ {
			specs = append(specs, LedgerSpec{Name: "src", HashLogs: sc.hash})
		}
		names2, err := e.createLedgers(ctx, specs)
		if err != nil {
			fmt.Fprintln(os.Stderr, "t3_handles:", err)
			return 2
		}
		in := In{Ledgers: specs}
		if sc.import_ {
			for i, q := range []Req{{Kind: "send", Src: "world", Dst: "alice", Asset: "USD", Amount: "5", Ledger: "src"}, {Kind: "send", Src: "world", Dst: "bob", Asset: "USD", Amount: "7", Ledger: "src"}} {
				c, err := e.sys.GetLedgerController(ctx, names2["src"])
				if err != nil {
					fmt.Fprintln(os.Stderr, "t3_handles:", err)
					return 2
				}
				if r := perform(ctx, e, c, names2, q); r.Err != "" {
					fmt.Fprintf(os.Stderr, "t3_handles: %s: import source write %d failed: %s %s\n", sc.name, i, r.Err, r.Msg)
					return 2
				}
			}
		}
		for _, q := range sc.setup {
			c, err := e.sys.GetLedgerController(ctx, names2["l"])
			if err != nil {
				fmt.Fprintln(os.Stderr, "t3_handles:", err)
				return 2
			}
			if r := perform(ctx, e, c, names2, q); r.Err != "" {
				fmt.Fprintf(os.Stderr, "t3_handles: %s: setup failed: %s %s\n", sc.name, r.Err, r.Msg)
				return 2
			}
		}
		_ = in
		c, err := e.sys.GetLedgerController(ctx, names2["l"])
		if err != nil {
			fmt.Fprintln(os.Stderr, "t3_handles:", err)
			return 2
		}
		if err := e.exportFor(names2, sc.req); err != nil {
			fmt.Fprintln(os.Stderr, "t3_handles:", err)
			return 2
		}
		e.srv.ResetLog()
		req := sc.req
		if req.Kind == "blocks" {
			req.Ledger = "l"
		}
		resp := perform(ctx, e, c, names2, req)
		var items []string
		for _, st := range e.srv.Log() {
			k := Classify(st.SQL)
			if k == "other" {
				fmt.Fprintf(os.Stderr, "t3_handles: %s: statement of an unknown kind: %.200s\n", sc.name, st.SQL)
				return 2
			}
			items = append(items, fmt.Sprintf("(%s, .%s)", kindCtor(k), st.Handle))
		}
		fmt.Fprintf(&sb, "/-- %s — answered `%s` -/\ndef %s : Trace :=\n  [%s]\n\n", sc.doc, map[bool]string{true: "ok", false: resp.Err}[resp.Err == ""], sc.name, strings.Join(items, ", "))
		fmt.Fprintf(&sb, "def %sAnswer : String := %q\n\n", sc.name, resp.Err)
		names = append(names, sc.name)
	}
	sb.WriteString("def all : List (String × Trace) :=\n  [")
	for i, n := range names {
		if i > 0 {
			sb.WriteString(", ")
		}
		fmt.Fprintf(&sb, "(%q, %s)", n, n)
	}
	sb.WriteString("]\n\nend Ledger.Generated.Handles\n")
	fmt.Print(sb.String())
	return 0
}
