//go:build verif

package wlsched

import (
	"fmt"
	"math/rand"

	"github.com/formancehq/ledger/internal/verif/gen"
)

// Workload "overdraft" (C06): two to four writers spending from the same bounded sources —
// pairs funded by the setup (their accounts_volumes row is committed) and never-used
// (account, asset) pairs (no row) — with no / bounded / unbounded overdraft, forced postings,
// forced and non-forced reverts of a funding transaction. Two-writer scenarios are explored
// over the interleavings of their interacting statements; larger ones run under random schedules.

var odSources = []string{"alice", "bob", "carol"}
var odDests = []string{"x", "y", "alice", "bob"}
var odAssets = []string{"USD", "EUR"}

func smallAmount(r *rand.Rand) string {
	if r.Intn(12) == 0 {
		return gen.BigAmount(r).String()
	}
	return fmt.Sprint([]int{0, 1, 5, 10, 10, 15, 20}[r.Intn(7)])
}

func odScenario(r *rand.Rand, wide bool) In {
	in := In{Workload: "overdraft", Ledgers: []LedgerSpec{{Name: "l", HashLogs: gen.Pick(r, []string{"SYNC", "SYNC", "DISABLED", "ASYNC"})}}, Setup: []Req{}, Reqs: []Req{}}
	// setup: fund some pairs; the others stay never-used
	nfund := r.Intn(3)
	funded := map[string]uint64{} // "acct/asset" → id of the funding transaction
	for i := 0; i < nfund; i++ {
		src, asset := gen.Pick(r, odSources[:2]), gen.Pick(r, odAssets)
		k := src + "/" + asset
		if _, ok := funded[k]; ok {
			continue
		}
		in.Setup = append(in.Setup, Req{Task: fmt.Sprintf("s%d", len(in.Setup)+1), Kind: "send", Src: "world", Dst: src, Asset: asset, Amount: gen.Pick(r, []string{"0", "5", "10", "10", "20"})})
		funded[k] = uint64(len(in.Setup))
	}
	// destinations exist already (their accounts rows and volumes rows), so that writers only
	// meet on the source pairs under test — except when a destination is drawn from the sources
	if r.Intn(3) > 0 {
		for _, a := range odAssets {
			in.Setup = append(in.Setup, Req{Task: fmt.Sprintf("s%d", len(in.Setup)+1), Kind: "send", Src: "world", Dst: "x", Asset: a, Amount: "1"})
			in.Setup = append(in.Setup, Req{Task: fmt.Sprintf("s%d", len(in.Setup)+1), Kind: "send", Src: "world", Dst: "y", Asset: a, Amount: "1"})
		}
	}
	nw := 2
	if x := r.Intn(10); x >= 7 {
		nw = 3
	} else if wide && x == 6 {
		nw = 4
	}
	// a hot pair most writers draw from
	hotSrc, hotAsset := gen.Pick(r, odSources[:2]), gen.Pick(r, odAssets)
	for i := 0; i < nw; i++ {
		task := string(rune('a' + i))
		src, asset := hotSrc, hotAsset
		if r.Intn(5) == 0 {
			src, asset = gen.Pick(r, odSources), gen.Pick(r, odAssets)
		}
		q := Req{Task: task, Kind: "send", Src: src, Asset: asset, Amount: smallAmount(r)}
		for {
			q.Dst = gen.Pick(r, odDests)
			if q.Dst != q.Src {
				break
			}
		}
		switch r.Intn(10) {
		case 0, 1, 2:
			q.Allow = ""
		case 3, 4, 5, 6:
			q.Allow = gen.Pick(r, []string{"5", "10", "10", "20"})
		case 7:
			q.Allow = "unbounded"
		case 8:
			q.Force = true
		default:
			// revert of a funding transaction (it takes the funded amount back from the account)
			if id, ok := funded[src+"/"+asset]; ok {
				q = Req{Task: task, Kind: "revert", TxID: id, Force: r.Intn(4) == 0}
			}
		}
		// scripts with a second send statement: the same pair again (the allowance must not be granted
		// twice) or the same account in the other asset (two balances read and locked by one statement)
		if q.Kind == "send" && !q.Force && r.Intn(4) == 0 {
			l := Leg{Src: q.Src, Dst: q.Dst, Asset: q.Asset, Amount: smallAmount(r), Allow: q.Allow}
			if r.Intn(2) == 0 {
				l.Asset = odAssets[0]
				if q.Asset == odAssets[0] {
					l.Asset = odAssets[1]
				}
			}
			q.Legs = []Leg{l}
		}
		in.Reqs = append(in.Reqs, q)
	}
	// sometimes a second ledger of the same bucket holds rows for the same (account, asset) pairs:
	// they must never be read, locked or changed by writers of the first ledger
	if r.Intn(4) == 0 {
		in.Ledgers = append(in.Ledgers, LedgerSpec{Name: "m", HashLogs: "DISABLED"})
		for _, a := range odSources[:2] {
			for _, as := range odAssets {
				in.Setup = append(in.Setup, Req{Task: fmt.Sprintf("s%d", len(in.Setup)+1), Kind: "send", Ledger: "m", Src: "world", Dst: a, Asset: as, Amount: "1000"})
			}
		}
	}
	in.SchedSeed = r.Int63n(1 << 30)
	return in
}

func init() {
	workloads["overdraft"] = func(r *run) error {
		in := odScenario(r.R(), r.Wide())
		if len(in.Reqs) == 2 {
			cap := 16
			if r.Wide() {
				cap = 60
			}
			return r.explore(in, cap)
		}
		for k := 0; k < 3 && !r.Done(); k++ {
			in.SchedSeed = r.R().Int63n(1 << 30)
			if _, err := r.exec(in); err != nil {
				return err
			}
		}
		return nil
	}
}
