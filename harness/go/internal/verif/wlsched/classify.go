//go:build verif

package wlsched

import (
	"regexp"
	"strings"
)

// Classify maps a rendered SQL statement of the write path to its statement
// kind — the alphabet of the abstract protocol model (lean/Ledger/Sched) and of
// the generated module Ledger.Generated.Handles. Kinds are decided on the
// statement's structure (verb, target table, locking clause, function called),
// not on its exact text.
func Classify(sql string) string {
	s := strings.ToLower(strings.Join(strings.Fields(sql), " "))
	has := func(sub string) bool { return strings.Contains(s, sub) }
	switch {
	case s == "begin":
		return "begin"
	case s == "commit":
		return "commit"
	case s == "rollback":
		return "rollback"
	case strings.HasPrefix(s, "savepoint"):
		return "savepoint"
	case strings.HasPrefix(s, "release savepoint"):
		return "release"
	case strings.HasPrefix(s, "rollback to savepoint"):
		return "rollbackTo"
	case has("pg_advisory_xact_lock(hashtext("):
		return "lockLedgerX"
	case has("pg_advisory_lock(hashtext("):
		return "lockLedgerS"
	case has("pg_advisory_unlock(hashtext("):
		return "unlockLedgerS"
	case has("pg_advisory_xact_lock("):
		return "advLockLog"
	case strings.HasPrefix(s, "call ") && has("create_blocks"):
		return "createBlocks"
	case has("select setval("):
		return "setval"
	case strings.HasPrefix(s, "with \"ins\" as (insert into") && has("accounts_volumes") && has("for update"):
		return "getBalances"
	case strings.HasPrefix(s, "with \"ins\" as (insert into") && has("accounts_volumes"):
		return "getBalancesNoLock"
	case has("from") && has("accounts_volumes") && has("for update") && strings.HasPrefix(s, "select"):
		return "getBalancesNoIns"
	case strings.HasPrefix(s, "insert into") && insTable(s) == "accounts_volumes":
		return "updateVolumes"
	case strings.HasPrefix(s, "insert into") && insTable(s) == "transactions":
		return "insertTx"
	case strings.HasPrefix(s, "insert into") && insTable(s) == "moves":
		return "insertMoves"
	case strings.HasPrefix(s, "insert into") && insTable(s) == "accounts":
		return "upsertAccounts"
	case strings.HasPrefix(s, "insert into") && insTable(s) == "logs":
		return "insertLog"
	case strings.HasPrefix(s, "insert into") && insTable(s) == "accounts_metadata":
		return "insertAccountsMetadata"
	case strings.HasPrefix(s, "insert into") && insTable(s) == "transactions_metadata":
		return "insertTransactionsMetadata"
	case strings.HasPrefix(s, "insert into") && insTable(s) == "schemas":
		return "insertSchema"
	case strings.HasPrefix(s, "with \"upd\" as (update") && has("reverted_at ="):
		if has("reverted_at is null") {
			return "revertUpdate"
		}
		return "revertUpdateUnguarded"
	case strings.HasPrefix(s, "with \"upd\" as (update") && has("transactions"):
		return "updateTxMetadata"
	case strings.HasPrefix(s, "update \"_system\".\"ledgers\"") || (strings.HasPrefix(s, "update") && has("_system") && has("ledgers") && has("state")):
		return "updateState"
	case strings.HasPrefix(s, "update") && has("accounts"):
		return "updateAccounts"
	case strings.HasPrefix(s, "select") && has("idempotency_key =") && has("logs"):
		return "readIK"
	case strings.HasPrefix(s, "select *") && has("_system") && has("ledgers") && has("(name ="):
		return "openLedger"
	case strings.HasPrefix(s, "select") && has("_system") && has("ledgers") && has("(id ="):
		return "readLedgerState"
	case strings.HasPrefix(s, "select") && has("_system") && has("ledgers"):
		return "readLedger"
	case strings.HasPrefix(s, "select") && has("schemas"):
		return "readSchema"
	case (strings.HasPrefix(s, "select") || strings.HasPrefix(s, "with \"dataset\"")) && has(".logs") && !has("logs_blocks"):
		return "readLogs"
	case strings.HasPrefix(s, "with data_batch") && has("accounts"):
		return "upsertAccounts"
	case strings.HasPrefix(s, "select") || strings.HasPrefix(s, "with"):
		return "read"
	default:
		return "other"
	}
}

var insRe = regexp.MustCompile(`^insert into (?:"[^"]+"\.)?"?([a-z_]+)"?`)

func insTable(s string) string {
	m := insRe.FindStringSubmatch(s)
	if m == nil {
		return ""
	}
	return m[1]
}
