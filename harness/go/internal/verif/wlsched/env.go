//go:build verif

// Package wlsched: W-sched workloads. Every case runs 2–4 concurrent requests of
// the REAL controller stack (system controller → state tracker facade → ledger
// controller with the real Numscript machine → real SQL store → bun) over
// pgfake → LeanPG (the modelled PostgreSQL) under pgfake's deterministic
// scheduler, which releases one SQL statement at a time. Nothing of /repo is
// stubbed; the only thing that is not real is PostgreSQL.
package wlsched

import (
	"context"
	"encoding/json"
	"errors"
	"fmt"
	"math/big"
	"os"
	"sort"
	"strings"
	"sync"
	"time"

	"github.com/formancehq/go-libs/v5/pkg/storage/postgres"
	"github.com/formancehq/go-libs/v5/pkg/types/metadata"

	ledger "github.com/formancehq/ledger/internal"
	ledgercontroller "github.com/formancehq/ledger/internal/controller/ledger"
	systemcontroller "github.com/formancehq/ledger/internal/controller/system"
	"github.com/formancehq/ledger/internal/machine"
	"github.com/formancehq/ledger/internal/storage/bucket"
	storagedriver "github.com/formancehq/ledger/internal/storage/driver"
	ledgerstore "github.com/formancehq/ledger/internal/storage/ledger"
	systemstore "github.com/formancehq/ledger/internal/storage/system"
	"github.com/formancehq/ledger/internal/verif/pgfake"
)

// ---------------------------------------------------------------------------
// case format
// ---------------------------------------------------------------------------

// Req is one request (a task of the scheduler, or a sequential setup step).
type Req struct {
	Task   string `json:"task"`
	Kind   string `json:"kind"` // send | revert | import | bulk | blocks | meta
	Ledger string `json:"ledger,omitempty"`
	// send: `send [Asset Amount] (source = @Src [allowing …] destination = @Dst)`
	Src    string `json:"src,omitempty"`
	Dst    string `json:"dst,omitempty"`
	Asset  string `json:"asset,omitempty"`
	Amount string `json:"amount,omitempty"`
	// Allow: "" = no overdraft, "unbounded", or a decimal bound
	Allow string `json:"allow,omitempty"`
	// Force: plain postings with force (send) / forced revert
	Force           bool   `json:"force,omitempty"`
	IK              string `json:"ik,omitempty"`
	Reference       string `json:"reference,omitempty"`
	TxID            uint64 `json:"txid,omitempty"`
	AtEffectiveDate bool   `json:"atEffectiveDate,omitempty"`
	// Legs: further `send` statements of the same script (kind send)
	Legs []Leg `json:"legs,omitempty"`
	// WithMetadata: the revert request carries user metadata {"note": "x"}
	WithMetadata bool `json:"withMetadata,omitempty"`
	// bulk: the elements run sequentially inside ONE SQL transaction (atomic bulk: Controller.BeginTX)
	Elems []Req `json:"elems,omitempty"`
	// import: the logs to import are those of ledger From (exported by the real Export)
	From string `json:"from,omitempty"`
	// blocks: max block size for create_blocks
	BlockSize int `json:"blockSize,omitempty"`
}

// Leg is one more send statement of a script.
type Leg struct {
	Src    string `json:"src"`
	Dst    string `json:"dst"`
	Asset  string `json:"asset"`
	Amount string `json:"amount"`
	Allow  string `json:"allow,omitempty"`
}

// LedgerSpec describes a ledger of the case.
type LedgerSpec struct {
	Name     string `json:"name"`
	HashLogs string `json:"hashLogs"` // SYNC | ASYNC | DISABLED
	// Fresh: no setup write touches it (it stays `initializing`)
	Bucket string `json:"bucket,omitempty"`
}

// In is the generated input of a case.
type In struct {
	Workload string       `json:"workload"`
	Ledgers  []LedgerSpec `json:"ledgers"`
	Setup    []Req        `json:"setup"`
	Reqs     []Req        `json:"reqs"`
	// Post: sequential steps after the concurrent phase (e.g. the block builder run to quiescence)
	Post []Req `json:"post,omitempty"`
	// Choices: explicit prefix of the schedule (index into the ready tasks ordered by name);
	// afterwards the scheduler's PRNG seeded with SchedSeed decides.
	Choices   []int `json:"choices"`
	SchedSeed int64 `json:"schedSeed"`
	// FetchInTask: every task obtains its controller itself (GetLedgerController inside the task)
	FetchInTask bool `json:"fetchInTask,omitempty"`
}

// Event is one scheduling step: the released task's statement and what the (modelled) server answered.
type Event struct {
	Task string `json:"task"`
	// Stmt is the statement kind (see Classify)
	Stmt string `json:"stmt"`
	// Res: ok | blocked | error:<SQLSTATE>
	Res string `json:"res"`
}

// Resp is the canonical response of a request.
type Resp struct {
	Task string `json:"task"`
	Kind string `json:"kind"`
	// Err: "" on success, else the error enum
	Err   string `json:"err"`
	TxID  uint64 `json:"txid,omitempty"`
	LogID uint64 `json:"logid,omitempty"`
	Hit   bool   `json:"hit,omitempty"`
	// RevertOf: id of the reverted transaction (revert responses)
	RevertOf uint64 `json:"revertOf,omitempty"`
	Panic    string `json:"panic,omitempty"`
	Msg      string `json:"msg,omitempty"`
	// Elems: per-element responses (bulk)
	Elems []Resp `json:"elems,omitempty"`
}

// Out is what the real code did.
type Out struct {
	Events []Event `json:"events"`
	// Choices actually taken (replay with In.Choices = these)
	Choices []int  `json:"choices"`
	Resps   []Resp `json:"resps"`
	// Commits: tasks in the order of their successful COMMIT statements (a task appears once per commit)
	Commits []string `json:"commits"`
	Stuck   []string `json:"stuck,omitempty"`
	// SetupResps: responses of the sequential setup
	SetupResps []Resp `json:"setupResps"`
	PostResps  []Resp `json:"postResps,omitempty"`
	// State: abstraction of the final canonical Dump of every ledger of the case
	State map[string]LedgerState `json:"state"`
	// Waits: number of `blocked` answers
	Waits int    `json:"waits"`
	Err   string `json:"err,omitempty"`
}

// LedgerState is the part of the canonical dump the predicates need (all from LeanPG's committed tables).
type LedgerState struct {
	// Volumes: "account/asset" → [input, output]
	Volumes map[string][2]string `json:"volumes"`
	Txs     []TxRow              `json:"txs"`
	Logs    []LogRow             `json:"logs"`
	Blocks  []BlockRow           `json:"blocks"`
	// SysState: _system.ledgers.state
	SysState string `json:"sysState"`
}

type TxRow struct {
	ID        uint64     `json:"id"`
	Reference string     `json:"reference"`
	Reverted  bool       `json:"reverted"`
	Postings  []JPosting `json:"postings"`
	RevertsTx uint64     `json:"revertsTx,omitempty"` // from metadata com.formance.spec/state/reverts
}

type JPosting struct {
	Src    string `json:"src"`
	Dst    string `json:"dst"`
	Asset  string `json:"asset"`
	Amount string `json:"amount"`
}

type LogRow struct {
	ID   uint64 `json:"id"`
	Type string `json:"type"`
	IK   string `json:"ik"`
	Hash string `json:"hash"` // hex, "" when null
	// Recomputed: hex of Log.ComputeHash over the previous log (by id) — the REAL Go function
	Recomputed string `json:"recomputed"`
	// TxID: transaction id carried by the payload (NEW_TRANSACTION / REVERTED_TRANSACTION → the new tx)
	TxID uint64 `json:"txid,omitempty"`
}

type BlockRow struct {
	ID       uint64 `json:"id"`
	Previous uint64 `json:"previous"`
	From     uint64 `json:"from"`
	To       uint64 `json:"to"`
	Hash     string `json:"hash"`
	// Redigest: the documented digest (the expression of create_block) evaluated after quiescence by
	// the modelled PostgreSQL over the previous block's hash and the committed logs in (from, to]
	Redigest string `json:"redigest"`
}

// ---------------------------------------------------------------------------
// environment: one LeanPG server + the real controllers
// ---------------------------------------------------------------------------

type env struct {
	importLogs map[string][]ledger.Log
	srv   *pgfake.Server
	sys   *systemcontroller.DefaultController
	drv   *storagedriver.Driver
	cases int
}

var cur *env
var debugDump bool
var warmed bool

var lpgCopy string

// lpgPath: a private copy of the LeanPG executable, taken once per run — the shared binary under
// lean/.lake/build/bin is relinked (and briefly missing) whenever another check rebuilds it.
func lpgPath() string {
	if lpgCopy != "" {
		return lpgCopy
	}
	src := pgfake.DefaultLpgPath()
	if p := os.Getenv("VERIF_LPG"); p != "" {
		src = p
	}
	for attempt := 0; attempt < 60; attempt++ {
		data, err := os.ReadFile(src)
		if err == nil && len(data) > 0 {
			dst := fmt.Sprintf("%s/lpg-%d", os.TempDir(), os.Getpid())
			if err := os.WriteFile(dst, data, 0o755); err == nil {
				lpgCopy = dst
				return dst
			}
		}
		time.Sleep(2 * time.Second)
	}
	return src
}

// getEnv returns a server; a fresh one every `every` cases (all ledgers of a server share the
// bucket's tables, so statements slow down as ledgers accumulate).
func getEnv(every int) (*env, error) {
	if cur != nil && cur.cases >= every {
		cur.srv.Close()
		cur = nil
	}
	if cur != nil {
		cur.cases++
		return cur, nil
	}
	srv, err := pgfake.Start(lpgPath())
	if err != nil {
		return nil, fmt.Errorf("LeanPG not available (lake build ldriver_sql): %w", err)
	}
	db := srv.DB()
	d := storagedriver.New(db, ledgerstore.NewFactory(db), bucket.NewDefaultFactory(), systemstore.NewStoreFactory())
	parser := ledgercontroller.NewDefaultNumscriptParser()
	sys := systemcontroller.NewDefaultController(
		systemcontroller.NewControllerStorageDriverAdapter(d, systemstore.New(db)), nil, nil,
		systemcontroller.WithParser(parser, parser, ledgercontroller.NewInterpreterNumscriptParser(nil)),
		systemcontroller.WithEnableFeatures(true),
	)
	cur = &env{srv: srv, sys: sys, drv: d, cases: 1}
	// warm-up: the first request of a process is slow (Numscript parser tables, bun model caches);
	// a task that needs longer than the scheduler's quiescence to reach its first statement would be
	// skipped at the first decisions and the same choices would denote another schedule
	if !warmed {
		warmed = true
		ctx := context.Background()
		if names, err := cur.createLedgers(ctx, []LedgerSpec{{Name: "warm", HashLogs: "SYNC"}}); err == nil {
			if c, err := cur.sys.GetLedgerController(ctx, names["warm"]); err == nil {
				_ = perform(ctx, cur, c, names, Req{Kind: "send", Src: "world", Dst: "w", Asset: "USD", Amount: "1"})
				_ = perform(ctx, cur, c, names, Req{Kind: "send", Src: "w", Dst: "v", Asset: "USD", Amount: "1", IK: "k"})
				_ = perform(ctx, cur, c, names, Req{Kind: "revert", TxID: 1, Force: true})
			}
		}
	}
	return cur, nil
}

// exportFor exports the source ledger of an import request with the real Export (sequentially).
func (e *env) exportFor(names map[string]string, r Req) error {
	if r.Kind != "import" {
		return nil
	}
	src, err := e.sys.GetLedgerController(context.Background(), names[r.From])
	if err != nil {
		return err
	}
	var logs []ledger.Log
	if err := src.Export(context.Background(), ledgercontroller.ExportWriterFn(func(_ context.Context, log ledger.Log) error {
		logs = append(logs, log)
		return nil
	})); err != nil {
		return err
	}
	if e.importLogs == nil {
		e.importLogs = map[string][]ledger.Log{}
	}
	e.importLogs[r.Task+"/"+r.From] = logs
	return nil
}

func closeEnv() {
	if cur != nil {
		cur.srv.Close()
		cur = nil
	}
	if lpgCopy != "" {
		_ = os.Remove(lpgCopy)
		lpgCopy = ""
	}
}

var ledgerCounter int

// uniq makes ledger names unique within a server (the case's own names stay in `in`).
func (e *env) createLedgers(ctx context.Context, specs []LedgerSpec) (map[string]string, error) {
	names := map[string]string{}
	for _, s := range specs {
		ledgerCounter++
		real := fmt.Sprintf("%s%d", s.Name, ledgerCounter)
		cfg := ledger.NewDefaultConfiguration()
		if s.HashLogs != "" {
			cfg.Features = cfg.Features.With("HASH_LOGS", s.HashLogs)
		}
		if s.Bucket != "" {
			cfg.Bucket = s.Bucket
		}
		if err := e.sys.CreateLedger(ctx, real, cfg); err != nil {
			return nil, fmt.Errorf("CreateLedger %s: %w", real, err)
		}
		names[s.Name] = real
	}
	return names, nil
}

// ---------------------------------------------------------------------------
// requests
// ---------------------------------------------------------------------------

// Script renders the Numscript of a `send` request.
func (r Req) Script() string {
	one := func(l Leg) string {
		src := "@" + l.Src
		switch l.Allow {
		case "":
		case "unbounded":
			src += " allowing unbounded overdraft"
		default:
			src += fmt.Sprintf(" allowing overdraft up to [%s %s]", l.Asset, l.Allow)
		}
		return fmt.Sprintf("send [%s %s] (\n  source = %s\n  destination = @%s\n)", l.Asset, l.Amount, src, l.Dst)
	}
	out := one(Leg{Src: r.Src, Dst: r.Dst, Asset: r.Asset, Amount: r.Amount, Allow: r.Allow})
	for _, l := range r.Legs {
		out += "\n" + one(l)
	}
	return out
}

func bigOf(s string) *big.Int {
	v, ok := new(big.Int).SetString(s, 10)
	if !ok {
		return new(big.Int)
	}
	return v
}

func (r Req) createParams() ledgercontroller.Parameters[ledgercontroller.CreateTransaction] {
	p := ledgercontroller.Parameters[ledgercontroller.CreateTransaction]{IdempotencyKey: r.IK}
	if r.Force {
		// what the v2 API does for a postings body with force=true
		p.Input = ledgercontroller.CreateTransaction{RunScript: ledgercontroller.TxToScriptData(ledger.TransactionData{
			Postings:  ledger.Postings{ledger.NewPosting(r.Src, r.Dst, r.Asset, bigOf(r.Amount))},
			Metadata:  metadata.Metadata{},
			Reference: r.Reference,
		}, true)}
		return p
	}
	p.Input = ledgercontroller.CreateTransaction{RunScript: ledgercontroller.RunScript{
		Script:    ledgercontroller.Script{Plain: r.Script(), Vars: map[string]string{}},
		Reference: r.Reference,
		Metadata:  metadata.Metadata{},
	}}
	return p
}

func classifyErr(err error) string {
	var pge interface{ SQLState() string }
	switch {
	case err == nil:
		return ""
	case errors.Is(err, ledgercontroller.ErrInvalidIdempotencyInput{}):
		return "invalid-idempotency-input"
	case errors.Is(err, ledgercontroller.ErrAlreadyReverted{}):
		return "already-reverted"
	case errors.Is(err, &machine.ErrInsufficientFund{}):
		return "insufficient-funds"
	case errors.Is(err, ledgercontroller.ErrNoPostings):
		return "no-postings"
	case errors.Is(err, ledgerstore.ErrTransactionReferenceConflict{}), errors.Is(err, ledgercontroller.ErrTransactionReferenceConflict{}):
		return "reference-conflict"
	case errors.Is(err, ledgerstore.ErrIdempotencyKeyConflict{}), errors.Is(err, ledgercontroller.ErrIdempotencyKeyConflict{}):
		return "ik-conflict"
	case errors.Is(err, ledgerstore.ErrConcurrentTransaction{}):
		return "concurrent-transaction"
	case errors.Is(err, ledgercontroller.ErrImport{}):
		return "import"
	case errors.Is(err, postgres.ErrNotFound):
		return "not-found"
	case errors.Is(err, postgres.ErrDeadlockDetected):
		return "deadlock"
	case errors.Is(err, postgres.ErrSerialization):
		return "serialization"
	case errors.As(err, &pge):
		return "pg:" + pge.SQLState()
	default:
		return "other"
	}
}

func errMsg(err error) string {
	if err == nil {
		return ""
	}
	s := err.Error()
	if len(s) > 200 {
		s = s[:200]
	}
	return s
}

// perform runs one request on a controller.
func perform(ctx context.Context, e *env, ctrl ledgercontroller.Controller, names map[string]string, r Req) (resp Resp) {
	resp = Resp{Task: r.Task, Kind: r.Kind}
	defer func() {
		if rec := recover(); rec != nil {
			resp.Panic = fmt.Sprint(rec)
			resp.Err = "panic"
		}
	}()
	switch r.Kind {
	case "send":
		log, created, hit, err := ctrl.CreateTransaction(ctx, r.createParams())
		resp.Err, resp.Msg, resp.Hit = classifyErr(err), errMsg(err), hit
		if err == nil {
			if created != nil && created.Transaction.ID != nil {
				resp.TxID = *created.Transaction.ID
			}
			if log != nil && log.ID != nil {
				resp.LogID = *log.ID
			}
		}
	case "revert":
		var md metadata.Metadata
		if r.WithMetadata {
			md = metadata.Metadata{"note": "x"}
		}
		log, rev, hit, err := ctrl.RevertTransaction(ctx, ledgercontroller.Parameters[ledgercontroller.RevertTransaction]{
			IdempotencyKey: r.IK,
			Input:          ledgercontroller.RevertTransaction{Force: r.Force, AtEffectiveDate: r.AtEffectiveDate, TransactionID: r.TxID, Metadata: md},
		})
		resp.Err, resp.Msg, resp.Hit = classifyErr(err), errMsg(err), hit
		if err == nil {
			if rev != nil {
				if rev.RevertTransaction.ID != nil {
					resp.TxID = *rev.RevertTransaction.ID
				}
				if rev.RevertedTransaction.ID != nil {
					resp.RevertOf = *rev.RevertedTransaction.ID
				}
			}
			if log != nil && log.ID != nil {
				resp.LogID = *log.ID
			}
		}
	case "meta":
		log, hit, err := ctrl.SaveAccountMetadata(ctx, ledgercontroller.Parameters[ledgercontroller.SaveAccountMetadata]{
			IdempotencyKey: r.IK,
			Input:          ledgercontroller.SaveAccountMetadata{Address: r.Src, Metadata: metadata.Metadata{"k": r.Amount}},
		})
		resp.Err, resp.Msg, resp.Hit = classifyErr(err), errMsg(err), hit
		if err == nil && log != nil && log.ID != nil {
			resp.LogID = *log.ID
		}
	case "bulk":
		// atomic bulk, as internal/api/bulking.Bulker.Run does: Controller.BeginTX, the elements, Commit / Rollback
		txc, _, err := ctrl.BeginTX(ctx, nil)
		if err != nil {
			resp.Err, resp.Msg = classifyErr(err), errMsg(err)
			return
		}
		failed := false
		for _, el := range r.Elems {
			el.Task = r.Task
			er := perform(ctx, e, txc, names, el)
			resp.Elems = append(resp.Elems, er)
			if er.Err != "" {
				failed = true
				break
			}
		}
		if failed {
			_ = txc.Rollback(ctx)
			resp.Err = "bulk-element-failed"
			return
		}
		if err := txc.Commit(ctx); err != nil {
			resp.Err, resp.Msg = classifyErr(err), errMsg(err)
		}
	case "import":
		// the stream was exported beforehand (exportFor), outside the scheduler
		logs := e.importLogs[r.Task+"/"+r.From]
		ch := make(chan ledger.Log, len(logs)+1)
		for _, l := range logs {
			ch <- l
		}
		close(ch)
		err := ctrl.Import(ctx, ch)
		resp.Err, resp.Msg = classifyErr(err), errMsg(err)
	case "blocks":
		l := names[r.Ledger]
		if r.Ledger == "" {
			for _, v := range names {
				l = v
			}
		}
		bk := "_default"
		_, err := e.srv.DB().NewRaw(fmt.Sprintf(`call "%s".create_blocks(?, ?)`, bk), l, r.BlockSize).Exec(ctx)
		resp.Err, resp.Msg = classifyErr(err), errMsg(err)
	default:
		resp.Err = "unknown-kind"
	}
	return resp
}

// ---------------------------------------------------------------------------
// running a case
// ---------------------------------------------------------------------------

func mainLedger(in In, r Req) string {
	if r.Ledger != "" {
		return r.Ledger
	}
	return in.Ledgers[0].Name
}

// RunCase executes a case on the real code.
func RunCase(in In) (out Out) {
	out.State = map[string]LedgerState{}
	out.Events, out.Choices, out.Resps, out.Commits, out.SetupResps = []Event{}, []int{}, []Resp{}, []string{}, []Resp{}
	e, err := getEnv(12)
	if err != nil {
		out.Err = err.Error()
		return
	}
	ctx := context.Background()
	names, err := e.createLedgers(ctx, in.Ledgers)
	if err != nil {
		out.Err = err.Error()
		return
	}
	for _, r := range in.Setup {
		ctrl, err := e.sys.GetLedgerController(ctx, names[mainLedger(in, r)])
		if err != nil {
			out.Err = "setup: " + err.Error()
			return
		}
		if err := e.exportFor(names, r); err != nil {
			out.Err = "export: " + err.Error()
			return
		}
		out.SetupResps = append(out.SetupResps, perform(ctx, e, ctrl, names, r))
	}
	// the tasks
	for _, r := range append(append([]Req{}, in.Reqs...), in.Post...) {
		if err := e.exportFor(names, r); err != nil {
			out.Err = "export: " + err.Error()
			return
		}
	}
	ctrls := map[string]ledgercontroller.Controller{}
	if !in.FetchInTask {
		for _, r := range in.Reqs {
			if r.Kind == "blocks" {
				continue
			}
			c, err := e.sys.GetLedgerController(ctx, names[mainLedger(in, r)])
			if err != nil {
				out.Err = "controller: " + err.Error()
				return
			}
			ctrls[r.Task] = c
		}
	}
	sch := pgfake.NewScheduler(e.srv, pgfake.SchedOptions{Seed: in.SchedSeed, Choices: in.Choices, Quiescence: 500 * time.Millisecond})
	var mu sync.Mutex
	resps := map[string]Resp{}
	for _, r := range in.Reqs {
		r := r
		sch.Go(r.Task, func(ctx context.Context) {
			var resp Resp
			ctrl := ctrls[r.Task]
			if ctrl == nil && r.Kind != "blocks" {
				c, err := e.sys.GetLedgerController(ctx, names[mainLedger(in, r)])
				if err != nil {
					resp = Resp{Task: r.Task, Kind: r.Kind, Err: "other", Msg: errMsg(err)}
					mu.Lock()
					resps[r.Task] = resp
					mu.Unlock()
					return
				}
				ctrl = c
			}
			resp = perform(ctx, e, ctrl, names, r)
			mu.Lock()
			resps[r.Task] = resp
			mu.Unlock()
		})
	}
	e.srv.ResetLog()
	res := sch.Run()
	out.Choices = append(out.Choices, res.Choices...)
	out.Stuck = res.Stuck
	// the scheduler's events carry truncated SQL: recover the full text from the server's statement
	// log (per session, in issue order; a statement is logged once, when it finally returned)
	queues := map[int][]pgfake.Stmt{}
	for _, st := range e.srv.Log() {
		queues[st.Session] = append(queues[st.Session], st)
	}
	fullSQL := func(ev pgfake.SchedEvent) string {
		q := queues[ev.Session]
		if len(q) == 0 {
			return ev.SQL
		}
		full := q[0].SQL
		if !strings.HasPrefix(ev.Result, "blocked:") {
			queues[ev.Session] = q[1:]
		}
		return full
	}
	for _, ev := range res.Events {
		k := Classify(fullSQL(ev))
		r := ev.Result
		if strings.HasPrefix(r, "blocked:") {
			r = "blocked"
			out.Waits++
		}
		out.Events = append(out.Events, Event{Task: ev.Task, Stmt: k, Res: r})
		if k == "commit" && r == "ok" {
			out.Commits = append(out.Commits, ev.Task)
		}
	}
	for _, r := range in.Reqs {
		out.Resps = append(out.Resps, resps[r.Task])
	}
	for _, r := range in.Post {
		var ctrl ledgercontroller.Controller
		if r.Kind != "blocks" {
			c, err := e.sys.GetLedgerController(ctx, names[mainLedger(in, r)])
			if err != nil {
				out.Err = "post: " + err.Error()
				return
			}
			ctrl = c
		}
		if r.Ledger == "" {
			r.Ledger = in.Ledgers[0].Name
		}
		out.PostResps = append(out.PostResps, perform(ctx, e, ctrl, names, r))
	}
	for _, s := range in.Ledgers {
		st, err := e.ledgerState(names[s.Name])
		if err != nil {
			out.Err = "dump: " + err.Error()
			return
		}
		out.State[s.Name] = st
	}
	return out
}

// ledgerState abstracts the canonical dump of one ledger.
func (e *env) ledgerState(real string) (LedgerState, error) {
	st := LedgerState{Volumes: map[string][2]string{}, Txs: []TxRow{}, Logs: []LogRow{}, Blocks: []BlockRow{}}
	raw, err := e.srv.Dump(real)
	if err != nil {
		return st, err
	}
	var dump map[string][]map[string]any
	dec := json.NewDecoder(strings.NewReader(string(raw)))
	dec.UseNumber()
	if err := dec.Decode(&dump); err != nil {
		return st, err
	}
	tbl := func(suffix string) []map[string]any {
		for k, v := range dump {
			if strings.HasSuffix(k, "."+suffix) && !strings.HasPrefix(k, "_system.") {
				return v
			}
		}
		return nil
	}
	str := func(v any) string {
		if v == nil {
			return ""
		}
		return fmt.Sprint(v)
	}
	u64 := func(v any) uint64 {
		var n uint64
		fmt.Sscan(str(v), &n)
		return n
	}
	for _, r := range tbl("accounts_volumes") {
		st.Volumes[str(r["accounts_address"])+"/"+str(r["asset"])] = [2]string{str(r["input"]), str(r["output"])}
	}
	if debugDump {
		fmt.Fprintln(os.Stderr, string(raw))
	}
	for _, r := range tbl("transactions") {
		t := TxRow{ID: u64(r["id"]), Reference: str(r["reference"]), Reverted: r["reverted_at"] != nil, Postings: []JPosting{}}
		var ps []struct {
			Source      string      `json:"source"`
			Destination string      `json:"destination"`
			Asset       string      `json:"asset"`
			Amount      json.Number `json:"amount"`
		}
		_ = json.Unmarshal([]byte(jsonText(r["postings"])), &ps)
		for _, p := range ps {
			t.Postings = append(t.Postings, JPosting{Src: p.Source, Dst: p.Destination, Asset: p.Asset, Amount: p.Amount.String()})
		}
		var md map[string]string
		_ = json.Unmarshal([]byte(jsonText(r["metadata"])), &md)
		if v, ok := md["com.formance.spec/state/reverts"]; ok {
			fmt.Sscan(v, &t.RevertsTx)
		}
		st.Txs = append(st.Txs, t)
	}
	sort.Slice(st.Txs, func(i, j int) bool { return st.Txs[i].ID < st.Txs[j].ID })
	for _, r := range tbl("logs_blocks") {
		st.Blocks = append(st.Blocks, BlockRow{ID: u64(r["id"]), Previous: u64(r["previous"]), From: u64(r["from_id"]), To: u64(r["to_id"]), Hash: str(r["hash"])})
	}
	sort.Slice(st.Blocks, func(i, j int) bool { return st.Blocks[i].ID < st.Blocks[j].ID })
	for i := range st.Blocks {
		st.Blocks[i].Hash = hexOf(st.Blocks[i].Hash)
	}
	for i := range st.Blocks {
		b := &st.Blocks[i]
		prev := "NULL::bytea"
		if i > 0 {
			prev = `'\x` + st.Blocks[i-1].Hash + `'::bytea`
		}
		var got []byte
		q := fmt.Sprintf(`select public.digest(coalesce(%s, '') || string_agg(type || encode(memento, 'escape') || (to_json(date::timestamp)#>>'{}') || coalesce(idempotency_key, '') || id, ''), 'sha256'::text) from (select * from "%s".logs where id > %d and id <= %d and ledger = '%s' order by id) logs`,
			prev, bucketOf(dump), b.From, b.To, real)
		if err := e.srv.SQLDB().QueryRowContext(context.Background(), q).Scan(&got); err != nil {
			b.Redigest = "error: " + errMsg(err)
		} else {
			b.Redigest = fmt.Sprintf("%x", got)
		}
	}
	// logs: through the REAL store reader, so that Log.ComputeHash (real Go) can recompute the chain
	ctrl, err := e.sys.GetLedgerController(context.Background(), real)
	if err != nil {
		return st, err
	}
	var logs []ledger.Log
	if err := ctrl.Export(context.Background(), ledgercontroller.ExportWriterFn(func(_ context.Context, log ledger.Log) error {
		logs = append(logs, log)
		return nil
	})); err != nil {
		return st, err
	}
	sort.Slice(logs, func(i, j int) bool { return *logs[i].ID < *logs[j].ID })
	var prev *ledger.Log
	for i := range logs {
		l := logs[i]
		row := LogRow{ID: *l.ID, Type: l.Type.String(), IK: l.IdempotencyKey, Hash: fmt.Sprintf("%x", l.Hash)}
		cp := l
		cp.Hash = nil
		cp.ComputeHash(prev)
		row.Recomputed = fmt.Sprintf("%x", cp.Hash)
		switch p := l.Data.(type) {
		case ledger.CreatedTransaction:
			if p.Transaction.ID != nil {
				row.TxID = *p.Transaction.ID
			}
		case ledger.RevertedTransaction:
			if p.RevertTransaction.ID != nil {
				row.TxID = *p.RevertTransaction.ID
			}
		}
		st.Logs = append(st.Logs, row)
		prev = &logs[i]
	}
	if l, err := systemstore.New(e.srv.DB()).GetLedger(context.Background(), real); err == nil {
		st.SysState = l.State
	}
	return st, nil
}

// hexOf extracts the hex text of a bytea value of the dump ({"hex": …})
func hexOf(s string) string {
	s = strings.TrimPrefix(s, "map[hex:")
	return strings.TrimSuffix(s, "]")
}

func bucketOf(dump map[string][]map[string]any) string {
	for k := range dump {
		if i := strings.Index(k, "."); i > 0 && !strings.HasPrefix(k, "_system.") {
			return k[:i]
		}
	}
	return "_default"
}

func jsonText(v any) string {
	// LeanPG's dump wraps json/jsonb values as {"json": …}
	if m, ok := v.(map[string]any); ok && len(m) == 1 {
		if inner, ok := m["json"]; ok {
			v = inner
		}
	}
	switch x := v.(type) {
	case nil:
		return "null"
	case string:
		return x
	default:
		b, _ := json.Marshal(x)
		return string(b)
	}
}
