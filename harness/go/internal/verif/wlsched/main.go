//go:build verif

package wlsched

import (
	"bufio"
	"encoding/json"
	"flag"
	"fmt"
	"math/rand"
	"os"
	"sort"
	"strings"

	"github.com/formancehq/ledger/internal/verif/gen"
)

// run is handed to every workload: budget, PRNG, and the emitter.
type run struct {
	c    *gen.Ctx
	f    string
	left int
}

func (r *run) R() *rand.Rand { return r.c.R }
func (r *run) Wide() bool    { return r.c.Wide }
func (r *run) Done() bool    { return r.left <= 0 }

// exec runs the case on the real code and emits it.
func (r *run) exec(in In) (Out, error) {
	var o Out
	if p := gen.Guard(func() { o = RunCase(in) }); p != "" {
		o.Err = p
	}
	r.left--
	return o, r.c.Emit(r.f, in, o)
}

// Workload generates scenarios and runs them until the budget is used up.
type Workload func(r *run) error

var workloads = map[string]Workload{}

func Names() []string {
	out := []string{}
	for k := range workloads {
		out = append(out, k)
	}
	sort.Strings(out)
	return out
}

// Main runs `vrsched <name> …`.
func Main(name string, args []string) int {
	switch name {
	case "probe":
		return probeMain(args)
	case "handles":
		return handlesMain(args)
	}
	w, ok := workloads[name]
	if !ok {
		fmt.Fprintf(os.Stderr, "unknown workload %q; have %v\n", name, Names())
		return 2
	}
	fs := flag.NewFlagSet(name, flag.ExitOnError)
	seed := fs.Int64("seed", 1, "PRNG seed")
	n := fs.Int("n", 100, "number of cases")
	wide := fs.Bool("wide", false, "wider generators (thorough tier)")
	replay := fs.String("replay", "", "re-run the inputs of this JSONL file")
	_ = fs.Parse(args)
	out := bufio.NewWriterSize(os.Stdout, 1<<20)
	defer out.Flush()
	defer closeEnv()
	c := &gen.Ctx{R: gen.NewRand(*seed), N: *n, Wide: *wide, Out: out, Replay: *replay}
	r := &run{c: c, f: "sched." + name, left: *n}
	if c.Replay != "" {
		ins, err := c.ReplayInputs(r.f)
		if err != nil {
			fmt.Fprintln(os.Stderr, err)
			return 3
		}
		for _, raw := range ins {
			var in In
			if err := json.Unmarshal(raw, &in); err != nil {
				fmt.Fprintln(os.Stderr, "bad replay input:", err)
				return 3
			}
			if _, err := r.exec(in); err != nil {
				return 3
			}
		}
		return 0
	}
	for !r.Done() {
		if err := w(r); err != nil {
			fmt.Fprintln(os.Stderr, err)
			return 3
		}
	}
	return 0
}

// ---------------------------------------------------------------------------
// schedule exploration
// ---------------------------------------------------------------------------

// interacting statement kinds: those that read or write a shared row, lock, index or sequence.
// Scheduling decisions between two statements that are not both in this set are not branched on
// (the statements commute: other orders give the same rows, locks and answers).
var interacting = map[string]bool{
	"getBalances": true, "getBalancesNoLock": true, "getBalancesNoIns": true, "updateVolumes": true, "insertTx": true,
	"insertLog": true, "advLockLog": true, "readIK": true, "revertUpdate": true, "revertUpdateUnguarded": true, "commit": true, "rollback": true,
	"lockLedgerX": true, "lockLedgerS": true, "unlockLedgerS": true, "updateState": true, "createBlocks": true,
	"readLedgerState": true, "readLogs": true, "upsertAccounts": true, "rollbackTo": true, "release": true, "setval": true,
}

func eventsKey(evs []Event) string {
	var sb strings.Builder
	for _, e := range evs {
		sb.WriteString(e.Task)
		sb.WriteByte(':')
		sb.WriteString(e.Stmt)
		sb.WriteByte(':')
		sb.WriteString(e.Res)
		sb.WriteByte(' ')
	}
	return sb.String()
}

// readySets reconstructs, from the event trace, the ready tasks (ordered by name) at every
// decision, following pgfake.Scheduler's rule: a task whose statement answered `blocked` at
// decision j may retry from decision j+2 on.
func readySets(tasks []string, evs []Event) [][]string {
	sort.Strings(tasks)
	last := map[string]int{} // index of the task's last event
	for i, e := range evs {
		last[e.Task] = i
	}
	blockedAt := map[string]int{}
	for _, t := range tasks {
		blockedAt[t] = -10
	}
	out := make([][]string, len(evs))
	for i, e := range evs {
		var ready []string
		for _, t := range tasks {
			li, ok := last[t]
			if !ok || li < i { // done (or never issued a statement)
				continue
			}
			if blockedAt[t] >= 0 && i <= blockedAt[t]+1 {
				continue
			}
			ready = append(ready, t)
		}
		out[i] = ready
		if e.Res == "blocked" {
			blockedAt[e.Task] = i
		} else {
			blockedAt[e.Task] = -10
		}
	}
	return out
}

// explore runs the scenario under the schedule given by its Choices prefix, then depth-first
// under every alternative decision at which both the chosen and the alternative task were about
// to issue an interacting statement. Distinct event traces are emitted; at most `cap` runs.
func (r *run) explore(in In, cap int) error {
	tasks := []string{}
	for _, q := range in.Reqs {
		tasks = append(tasks, q.Task)
	}
	stack := [][]int{append([]int{}, in.Choices...)}
	seenPrefix := map[string]bool{}
	seenTrace := map[string]bool{}
	runs := 0
	for len(stack) > 0 && runs < cap && !r.Done() {
		prefix := stack[len(stack)-1]
		stack = stack[:len(stack)-1]
		pk := fmt.Sprint(prefix)
		if seenPrefix[pk] {
			continue
		}
		seenPrefix[pk] = true
		cs := in
		cs.Choices = prefix
		var o Out
		if p := gen.Guard(func() { o = RunCase(cs) }); p != "" {
			o.Err = p
		}
		runs++
		key := eventsKey(o.Events)
		if seenTrace[key] {
			continue
		}
		seenTrace[key] = true
		r.left--
		if err := r.c.Emit(r.f, cs, o); err != nil {
			return err
		}
		if o.Err != "" {
			continue
		}
		ready := readySets(tasks, o.Events)
		var alts [][]int
		for i := len(prefix); i < len(o.Events) && i < len(o.Choices); i++ {
			if len(ready[i]) < 2 || !interacting[o.Events[i].Stmt] {
				continue
			}
			for idx, t := range ready[i] {
				if t == o.Events[i].Task {
					continue
				}
				// the alternative's pending statement = its next event
				pending := ""
				for j := i; j < len(o.Events); j++ {
					if o.Events[j].Task == t {
						pending = o.Events[j].Stmt
						break
					}
				}
				if !interacting[pending] {
					continue
				}
				np := append(append([]int{}, o.Choices[:i]...), idx)
				alts = append(alts, np)
			}
		}
		// deepest alternatives first on the stack = explored last; shallow ones first gives breadth
		for k := len(alts) - 1; k >= 0; k-- {
			stack = append(stack, alts[k])
		}
	}
	return nil
}

// planStep: run `Task` until it has issued a statement of kind `Upto` (or to completion when empty).
type planStep struct {
	Task string
	Upto string
}

// directed runs the scenario once under its seed to learn every task's statement sequence, then
// once more under the schedule described by the plan (valid when no statement has to wait:
// every unfinished task is ready at every decision).
func (r *run) directed(in In, plan []planStep) error {
	first, err := r.exec(in)
	if err != nil || first.Err != "" || r.Done() {
		return err
	}
	seq := map[string][]string{}
	for _, e := range first.Events {
		if e.Res != "blocked" {
			seq[e.Task] = append(seq[e.Task], e.Stmt)
		}
	}
	tasks := []string{}
	for _, q := range in.Reqs {
		tasks = append(tasks, q.Task)
	}
	sort.Strings(tasks)
	pos := map[string]int{}
	var choices []int
	for _, st := range plan {
		for pos[st.Task] < len(seq[st.Task]) {
			idx, k := -1, 0
			for _, t := range tasks {
				if pos[t] < len(seq[t]) {
					if t == st.Task {
						idx = k
					}
					k++
				}
			}
			if idx < 0 {
				break
			}
			choices = append(choices, idx)
			issued := seq[st.Task][pos[st.Task]]
			pos[st.Task]++
			if st.Upto != "" && issued == st.Upto {
				break
			}
		}
	}
	cs := in
	cs.Choices = choices
	_, err = r.exec(cs)
	return err
}
