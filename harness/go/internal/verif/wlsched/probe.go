//go:build verif

package wlsched

import (
	"encoding/json"
	"fmt"
	"os"
	"strings"
)

// probeMain: debugging aid — runs a tiny case and prints events, responses and state.
func probeMain(args []string) int {
	what := "overdraft"
	if len(args) > 0 {
		what = args[0]
	}
	var in In
	switch what {
	default:
		in = In{Workload: "overdraft", Ledgers: []LedgerSpec{{Name: "l", HashLogs: "SYNC"}},
			Setup: []Req{{Task: "s1", Kind: "send", Src: "world", Dst: "bank", Asset: "USD", Amount: "100"}},
			Reqs: []Req{
				{Task: "a", Kind: "send", Src: "alice", Dst: "x", Asset: "USD", Amount: "10", Allow: "10", IK: "k1", Reference: "r1"},
				{Task: "b", Kind: "send", Src: "alice", Dst: "y", Asset: "USD", Amount: "10", Allow: "10"},
			}, SchedSeed: 3}
	}
	if len(args) > 1 {
		in = In{}
		if err := json.Unmarshal([]byte(args[1]), &in); err != nil {
			fmt.Fprintln(os.Stderr, "bad case:", err)
			return 2
		}
	}
	defer closeEnv()
	out := RunCase(in)
	for i, ev := range out.Events {
		fmt.Printf("%3d %s %-22s %s\n", i, ev.Task, ev.Stmt, ev.Res)
	}
	b, _ := json.MarshalIndent(struct {
		Resps, Setup, Post any
		Commits     []string
		Choices     []int
		Stuck       []string
		State       any
		Err         string
	}{out.Resps, out.SetupResps, out.PostResps, out.Commits, out.Choices, out.Stuck, out.State, out.Err}, "", " ")
	fmt.Println(string(b))
	if os.Getenv("PROBE_SQL") != "" && cur != nil {
		for _, s := range cur.srv.Log() {
			fmt.Printf("[s%d %s %s] %s | %.900s\n", s.Session, s.Handle, s.Err, Classify(s.SQL), strings.Join(strings.Fields(s.SQL), " "))
		}
	}
	return 0
}

func init() {
	if os.Getenv("PROBE_DUMP") != "" {
		debugDump = true
	}
}
