//go:build verif

package wlsched

import (
	"fmt"
	"math/rand"

	"github.com/formancehq/ledger/internal/verif/gen"
)

func setupReq(i int, r Req) Req {
	r.Task = fmt.Sprintf("s%d", i)
	return r
}

func fund(in *In, ledger, acct, asset, amount string) uint64 {
	in.Setup = append(in.Setup, Req{Task: fmt.Sprintf("s%d", len(in.Setup)+1), Kind: "send", Ledger: ledger, Src: "world", Dst: acct, Asset: asset, Amount: amount})
	return uint64(len(in.Setup))
}

func taskName(i int) string { return string(rune('a' + i)) }

// runScenario: two-writer scenarios are explored, larger ones run under a few random schedules.
func runScenario(r *run, in In, explore2 bool) error {
	if explore2 && len(in.Reqs) == 2 {
		cap := 14
		if r.Wide() {
			cap = 60
		}
		return r.explore(in, cap)
	}
	n := 3
	if r.Wide() {
		n = 6
	}
	for k := 0; k < n && !r.Done(); k++ {
		in.SchedSeed = r.R().Int63n(1 << 30)
		if _, err := r.exec(in); err != nil {
			return err
		}
	}
	return nil
}

// disjointWriters: writer i sends from its own funded account in its own asset to its own destination.
func disjointWriters(r *rand.Rand, in *In, ledger string, n int, first int) {
	srcs := []string{"alice", "bob", "carol", "dave"}
	assets := []string{"USD", "EUR", "GBP", "JPY"}
	for i := 0; i < n; i++ {
		k := first + i
		fund(in, ledger, srcs[k%4], assets[k%4], "100")
	}
	for i := 0; i < n; i++ {
		k := first + i
		in.Reqs = append(in.Reqs, Req{Task: taskName(len(in.Reqs)), Kind: "send", Ledger: ledger, Src: srcs[k%4], Dst: fmt.Sprintf("d%d", k), Asset: assets[k%4], Amount: fmt.Sprint(1 + r.Intn(9))})
	}
}

func init() {
	// C09 (schedule part): concurrent writers on disjoint rows with HASH_LOGS=SYNC race up to the
	// advisory lock of InsertLog; some share rows (serialised earlier by row locks).
	workloads["chain"] = func(r *run) error {
		R := r.R()
		in := In{Workload: "chain", Ledgers: []LedgerSpec{{Name: "l", HashLogs: "SYNC"}}, Setup: []Req{}, Reqs: []Req{}}
		n := 2 + R.Intn(2)
		if r.Wide() && R.Intn(4) == 0 {
			n = 4
		}
		if R.Intn(6) == 0 {
			// no setup: the writers also race through the state tracker (first write on the ledger)
			for i := 0; i < n; i++ {
				in.Reqs = append(in.Reqs, Req{Task: taskName(i), Kind: "send", Src: "world", Dst: fmt.Sprintf("d%d", i), Asset: []string{"USD", "EUR", "GBP", "JPY"}[i], Amount: "3"})
			}
		} else {
			disjointWriters(R, &in, "", n, 0)
			if R.Intn(3) == 0 {
				// one writer fails after its transaction id was allotted (reference conflict with the setup)
				in.Setup = append(in.Setup, Req{Task: "sr", Kind: "send", Src: "world", Dst: "z", Asset: "XXX", Amount: "1", Reference: "taken"})
				in.Reqs[0].Reference = "taken"
			}
			if R.Intn(3) == 0 {
				in.Reqs[len(in.Reqs)-1].IK = "k-chain"
			}
		}
		in.SchedSeed = R.Int63n(1 << 30)
		return runScenario(r, in, true)
	}

	// alias: C09's merged config already has a workload called `chain` (vrhash)
	workloads["schedchain"] = workloads["chain"]

	// C16: ids vs. commit order; one or two ledgers in the bucket; rollbacks leave gaps.
	workloads["ids"] = func(r *run) error {
		R := r.R()
		mode := gen.Pick(R, []string{"SYNC", "ASYNC", "DISABLED", "SYNC", "ASYNC"})
		in := In{Workload: "ids", Ledgers: []LedgerSpec{{Name: "l", HashLogs: mode}}, Setup: []Req{}, Reqs: []Req{}}
		if R.Intn(6) == 0 {
			// no setup: the writers open the ledger while it is initializing and race through the state
			// tracker (ledger lock, state update, sequence reset); one of them fails after taking its ids
			for i := 0; i < 3; i++ {
				in.Reqs = append(in.Reqs, Req{Task: taskName(i), Kind: "send", Src: "world", Dst: fmt.Sprintf("d%d", i), Asset: []string{"USD", "EUR", "GBP"}[i], Amount: "3"})
			}
			in.Reqs[1].Src, in.Reqs[1].Amount = "nobody", "5" // refused by the funds check
			in.SchedSeed = R.Int63n(1 << 30)
			return runScenario(r, in, true)
		}
		two := R.Intn(3) == 0
		if two {
			in.Ledgers = append(in.Ledgers, LedgerSpec{Name: "m", HashLogs: gen.Pick(R, []string{"SYNC", "ASYNC"})})
		}
		n := 2
		if R.Intn(3) == 0 {
			n = 3
		}
		if two {
			disjointWriters(R, &in, "l", 1, 0)
			disjointWriters(R, &in, "m", 1, 1)
			if n == 3 {
				disjointWriters(R, &in, "l", 1, 2)
			}
		} else {
			disjointWriters(R, &in, "", n, 0)
		}
		switch R.Intn(4) {
		case 0:
			// a failing writer: reference already used → its transaction id is burnt
			in.Setup = append(in.Setup, Req{Task: "sr", Kind: "send", Ledger: in.Reqs[0].Ledger, Src: "world", Dst: "z", Asset: "XXX", Amount: "1", Reference: "taken"})
			in.Reqs[0].Reference = "taken"
		case 1:
			// refused by the funds check (no id allotted)
			in.Reqs[0].Amount = "1000"
		}
		in.SchedSeed = R.Int63n(1 << 30)
		if R.Intn(4) == 0 {
			// `a` takes its transaction id and pauses; `b` runs to its commit; `a` goes on
			return r.directed(in, []planStep{{"a", "insertTx"}, {"b", ""}, {"a", ""}, {"c", ""}})
		}
		return runScenario(r, in, true)
	}

	// C13: requests sharing an idempotency key, same and different input, incl. inputs whose second
	// execution fails on its own (the first one consumed the funds / the reference).
	workloads["ik"] = func(r *run) error {
		R := r.R()
		in := In{Workload: "ik", Ledgers: []LedgerSpec{{Name: "l", HashLogs: gen.Pick(R, []string{"SYNC", "ASYNC", "DISABLED"})}}, Setup: []Req{}, Reqs: []Req{}}
		fund(&in, "", "alice", "USD", gen.Pick(R, []string{"10", "10", "20", "100"}))
		fund(&in, "", "x", "USD", "1")
		if R.Intn(5) == 0 {
			// reverts sharing a key (with and without user metadata), concurrently and replayed afterwards
			base := Req{Kind: "revert", TxID: 1, IK: "rkey", Force: R.Intn(2) == 0, WithMetadata: R.Intn(3) > 0}
			for i := 0; i < 2; i++ {
				q := base
				q.Task = taskName(i)
				in.Reqs = append(in.Reqs, q)
			}
			p := base
			p.Task = "p1"
			in.Post = []Req{p}
			in.SchedSeed = R.Int63n(1 << 30)
			return runScenario(r, in, true)
		}
		n := 2
		if R.Intn(4) == 0 {
			n = 3
		}
		base := Req{Kind: "send", Src: "alice", Dst: "x", Asset: "USD", Amount: gen.Pick(R, []string{"10", "10", "5"}), IK: "key"}
		if R.Intn(3) == 0 {
			base.Reference = "ref"
		}
		if R.Intn(4) == 0 {
			base.Src, base.Amount = "world", "7"
		}
		for i := 0; i < n; i++ {
			q := base
			q.Task = taskName(i)
			if i > 0 && R.Intn(4) == 0 {
				q.Amount = "3" // different input under the same key
			}
			if i > 0 && R.Intn(8) == 0 {
				q.IK = "other"
			}
			in.Reqs = append(in.Reqs, q)
		}
		if R.Intn(5) == 0 {
			// the key is already recorded before the race
			s := base
			s.Task = fmt.Sprintf("s%d", len(in.Setup)+1)
			in.Setup = append(in.Setup, s)
		}
		in.SchedSeed = R.Int63n(1 << 30)
		return runScenario(r, in, true)
	}

	// C14: creates sharing a reference, on disjoint rows, on one or two ledgers of the bucket.
	workloads["reference"] = func(r *run) error {
		R := r.R()
		in := In{Workload: "reference", Ledgers: []LedgerSpec{{Name: "l", HashLogs: gen.Pick(R, []string{"SYNC", "ASYNC"})}}, Setup: []Req{}, Reqs: []Req{}}
		if R.Intn(4) == 0 {
			// crossing transfers sharing a reference: the row locks are taken in opposite orders, so one
			// writer is the deadlock victim, retries (forgeLogRetry) and meets the other's committed reference
			fund(&in, "", "alice", "USD", "100")
			fund(&in, "", "bob", "USD", "100")
			in.Reqs = append(in.Reqs,
				Req{Task: "a", Kind: "send", Src: "alice", Dst: "bob", Asset: "USD", Amount: "5", Reference: "ref"},
				Req{Task: "b", Kind: "send", Src: "bob", Dst: "alice", Asset: "USD", Amount: "7", Reference: gen.Pick(R, []string{"ref", "ref", "ref2"})})
			in.SchedSeed = R.Int63n(1 << 30)
			if R.Intn(2) == 0 {
				// both lock their source, then both try the other's row
				return r.directed(in, []planStep{{"a", "getBalances"}, {"b", "getBalances"}, {"a", "updateVolumes"}, {"b", ""}, {"a", ""}})
			}
			return runScenario(r, in, true)
		}
		two := R.Intn(3) == 0
		n := 2 + R.Intn(2)
		if two {
			in.Ledgers = append(in.Ledgers, LedgerSpec{Name: "m", HashLogs: "SYNC"})
			disjointWriters(R, &in, "l", 1, 0)
			disjointWriters(R, &in, "m", 1, 1)
			if n == 3 {
				disjointWriters(R, &in, "l", 1, 2)
			}
		} else {
			disjointWriters(R, &in, "", n, 0)
		}
		for i := range in.Reqs {
			in.Reqs[i].Reference = "ref"
			if i > 0 && R.Intn(5) == 0 {
				in.Reqs[i].Reference = "ref2"
			}
		}
		if R.Intn(5) == 0 {
			in.Setup = append(in.Setup, Req{Task: "sr", Kind: "send", Ledger: in.Reqs[0].Ledger, Src: "world", Dst: "z", Asset: "XXX", Amount: "1", Reference: "ref"})
		}
		in.SchedSeed = R.Int63n(1 << 30)
		return runScenario(r, in, true)
	}

	// C15: concurrent reverts of one transaction (forced or not), revert of a revert, revert racing a spend.
	workloads["revert2"] = func(r *run) error {
		R := r.R()
		in := In{Workload: "revert2", Ledgers: []LedgerSpec{{Name: "l", HashLogs: gen.Pick(R, []string{"SYNC", "ASYNC"})}}, Setup: []Req{}, Reqs: []Req{}}
		t1 := fund(&in, "", "alice", "USD", "10")
		t2 := fund(&in, "", "bob", "USD", "10")
		target := t1
		if R.Intn(4) == 0 {
			// revert of a revert: the setup reverts t2; the tasks revert that revert transaction (id 3) and t2 again
			in.Setup = append(in.Setup, Req{Task: "s3", Kind: "revert", TxID: t2})
			target = 3
		}
		n := 2
		if R.Intn(3) == 0 {
			n = 3
		}
		for i := 0; i < n; i++ {
			q := Req{Task: taskName(i), Kind: "revert", TxID: target, Force: R.Intn(3) == 0}
			switch {
			case i > 0 && R.Intn(5) == 0:
				q.TxID = t2
			case i > 0 && R.Intn(6) == 0:
				// a spend racing the revert on the same account
				q = Req{Task: taskName(i), Kind: "send", Src: "alice", Dst: "x", Asset: "USD", Amount: "10"}
			}
			if R.Intn(6) == 0 && q.Kind == "revert" {
				q.IK = "rk"
			}
			in.Reqs = append(in.Reqs, q)
		}
		in.SchedSeed = R.Int63n(1 << 30)
		return runScenario(r, in, true)
	}

	// C12: Import ∥ CreateTransaction ∥ atomic bulk on an initializing ledger; imports after a write.
	workloads["import"] = func(r *run) error {
		R := r.R()
		mode := gen.Pick(R, []string{"SYNC", "ASYNC"})
		in := In{Workload: "import", Ledgers: []LedgerSpec{{Name: "t", HashLogs: mode}, {Name: "src", HashLogs: mode}}, Setup: []Req{}, Reqs: []Req{}}
		nlogs := 1 + R.Intn(3)
		for i := 0; i < nlogs; i++ {
			fund(&in, "src", []string{"alice", "bob", "carol"}[i], "USD", fmt.Sprint(5+i))
		}
		if R.Intn(6) == 0 {
			// the target already accepted a write: the import must be rejected
			fund(&in, "t", "zed", "USD", "1")
		}
		in.Reqs = append(in.Reqs, Req{Task: "a", Kind: "import", Ledger: "t", From: "src"})
		nw := 1 + R.Intn(2)
		for i := 0; i < nw; i++ {
			w := Req{Task: taskName(1 + i), Kind: "send", Ledger: "t", Src: "world", Dst: fmt.Sprintf("w%d", i), Asset: "EUR", Amount: "2"}
			if R.Intn(4) == 0 {
				w = Req{Task: taskName(1 + i), Kind: "bulk", Ledger: "t", Elems: []Req{{Kind: "send", Src: "world", Dst: fmt.Sprintf("w%d", i), Asset: "EUR", Amount: "2"}}}
			}
			in.Reqs = append(in.Reqs, w)
		}
		in.FetchInTask = R.Intn(3) == 0
		in.SchedSeed = R.Int63n(1 << 30)
		return runScenario(r, in, len(in.Reqs) == 2)
	}

	// C34: HASH_LOGS=ASYNC writers on disjoint rows, the block builder in between, and once more at the end.
	workloads["blocks"] = func(r *run) error {
		R := r.R()
		in := In{Workload: "blocks", Ledgers: []LedgerSpec{{Name: "l", HashLogs: "ASYNC"}}, Setup: []Req{}, Reqs: []Req{}}
		n := 2
		if R.Intn(3) == 0 {
			n = 3
		}
		disjointWriters(R, &in, "", n, 0)
		size := gen.Pick(R, []int{1, 2, 3, 100})
		in.Reqs = append(in.Reqs, Req{Task: "z", Kind: "blocks", Ledger: "l", BlockSize: size})
		in.Post = []Req{{Task: "p1", Kind: "blocks", Ledger: "l", BlockSize: size}}
		in.SchedSeed = R.Int63n(1 << 30)
		// explored like a two-writer scenario: the decisions between the writers' log inserts /
		// commits and the block builder's call are what matters
		if R.Intn(3) == 0 {
			// the schedule under suspicion: `a` inserts its log (lower id) and pauses, `b` inserts and
			// commits (higher id), the block builder runs, `a` commits
			return r.directed(in, []planStep{{"a", "insertLog"}, {"b", ""}, {"z", ""}, {"a", ""}, {"c", ""}})
		}
		cap := 12
		if r.Wide() {
			cap = 60
		}
		return r.explore(in, cap)
	}
}
