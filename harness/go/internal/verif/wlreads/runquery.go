//go:build verif

package wlreads

import (
	"encoding/json"
	"fmt"
	"math/big"
	"strings"

	"github.com/formancehq/ledger/internal/verif/gen"
)

// Workload "runquery": a schema with query templates is inserted through the real controller
// (InsertSchema), then RunQuery is called with variables / params and compared with the
// equivalent direct list call (the concrete filter the generator started from, the params the
// generator intended), both followed through their cursors.

// VarVal: a variable value passed to RunQuery. T: string | int | date | boolean.
type VarVal struct {
	T string `json:"t"`
	V any    `json:"v"`
	// Float: an int variable bound as a JSON number decoded without UseNumber (what the HTTP
	// handler does): a float64
	Float bool `json:"float,omitempty"`
}

func (v VarVal) goValue() any {
	switch v.T {
	case "int":
		if v.Float {
			f, _ := new(big.Float).SetString(fmt.Sprint(v.V))
			x, _ := f.Float64()
			return x
		}
		return json.Number(fmt.Sprint(v.V))
	case "boolean":
		b, _ := v.V.(bool)
		return b
	default:
		return fmt.Sprint(v.V)
	}
}

func fieldVarType(key string) string {
	k := key
	if i := strings.Index(k, "["); i >= 0 {
		k = k[:i]
	}
	switch k {
	case "id", "balance":
		return "int"
	case "timestamp", "inserted_at", "updated_at", "reverted_at", "first_usage", "insertion_date", "date":
		return "date"
	case "reverted":
		return "boolean"
	default:
		return "string"
	}
}

type templater struct {
	c     *gen.Ctx
	decls map[string]any // name → {"type", "default"?}
	call  map[string]VarVal
	n     int
}

func (t *templater) abstractScalar(key string, v any) any {
	r := t.c.R
	typ := fieldVarType(key)
	// a literal string is only accepted on string fields (dates must be variables)
	if _, isStr := v.(string); !(isStr && typ != "string") && r.Intn(2) == 0 {
		return v
	}
	var val any = v
	if raw, ok := v.(json.RawMessage); ok {
		val = string(raw)
	}
	t.n++
	name := "v_" + string(rune('a'+(t.n-1)%26)) + strings.Repeat("x", (t.n-1)/26)
	// a string variable may be interpolated inside a literal
	if s, ok := val.(string); ok && typ == "string" && len(s) > 2 && r.Intn(3) == 0 {
		cut := 1 + r.Intn(len(s)-1)
		if isASCII(s) {
			t.declare(name, typ, s[cut:])
			return s[:cut] + "${" + name + "}"
		}
	}
	t.declare(name, typ, val)
	return "${" + name + "}"
}

func isASCII(s string) bool {
	for i := 0; i < len(s); i++ {
		if s[i] >= 0x80 {
			return false
		}
	}
	return true
}

func (t *templater) declare(name, typ string, val any) {
	r := t.c.R
	var def any = val
	if typ == "int" {
		def = json.RawMessage(fmt.Sprint(val))
	}
	if r.Intn(2) == 0 {
		// default in the declaration, nothing passed
		t.decls[name] = map[string]any{"type": typ, "default": def}
		return
	}
	t.decls[name] = map[string]any{"type": typ}
	if r.Intn(4) == 0 {
		t.decls[name] = typ // plain-string declaration
	}
	vv := VarVal{T: typ, V: val}
	if typ == "int" && r.Intn(2) == 0 {
		// bind as float64 when the integer is exactly representable
		if bi, ok := new(big.Int).SetString(fmt.Sprint(val), 10); ok {
			f, _ := new(big.Float).SetInt(bi).Float64()
			if back, acc := new(big.Float).SetFloat64(f).Int(nil); acc == big.Exact && back.Cmp(bi) == 0 {
				vv.Float = true
			}
		}
	}
	t.call[name] = vv
}

// abstract walks a concrete filter tree and replaces some leaf values by variable references.
func (t *templater) abstract(tree any) any {
	switch n := tree.(type) {
	case leaf:
		return t.abstract(map[string]any(n))
	case map[string]any:
		out := map[string]any{}
		for op, v := range n {
			switch op {
			case "$and", "$or":
				items := v.([]any)
				res := make([]any, 0, len(items))
				for _, it := range items {
					res = append(res, t.abstract(it))
				}
				out[op] = res
			case "$not":
				out[op] = t.abstract(v)
			default:
				kv := v.(map[string]any)
				nkv := map[string]any{}
				for key, val := range kv {
					if arr, ok := val.([]any); ok {
						na := make([]any, 0, len(arr))
						for _, e := range arr {
							na = append(na, t.abstractScalar(key, e))
						}
						nkv[key] = na
					} else {
						nkv[key] = t.abstractScalar(key, val)
					}
				}
				out[op] = nkv
			}
		}
		return out
	}
	return tree
}

type rqParams struct {
	pit, oot      *int64
	expand        []string
	sort          string
	order         string
	pageSize      uint64
	groupBy       int
	insertionDate bool
}

func runqueryQueries(c *gen.Ctx, features map[string]string, done []Step, last bool) []Step {
	if !last {
		return nil
	}
	r := c.R
	dates := recordedDates(done)
	ntx := committedTxCount(done)
	type tmplCase struct {
		id     string
		res    string
		call   map[string]VarVal
		direct Query
		req    map[string]any
	}
	var cases []tmplCase
	queries := map[string]json.RawMessage{}
	nT := 4
	if c.Wide {
		nT = 7
	}
	for i := 0; i < nT; i++ {
		res := gen.Pick(r, []string{"transactions", "accounts", "logs", "volumes"})
		depth := r.Intn(4)
		noGenericBalance, noMetaIn = true, true
		concrete := genFilterTree(r, res, dates, ntx, depth)
		noGenericBalance, noMetaIn = false, false
		t := &templater{c: c, decls: map[string]any{}, call: map[string]VarVal{}}
		var body any
		if i == 0 && r.Intn(2) == 0 {
			// an int variable of magnitude ≥ 2^63 bound as a float64 (JSON number of the HTTP body)
			res = gen.Pick(r, []string{"accounts", "volumes"})
			big := gen.Pick(r, []string{"18446744073709551616", "10000000000000000000", "-10000000000000000000", "9223372036854775808"})
			key := "balance[" + gen.Pick(r, assets) + "]"
			op := gen.Pick(r, []string{"$lt", "$gte"})
			concrete = map[string]any{op: map[string]any{key: json.RawMessage(big)}}
			body = map[string]any{op: map[string]any{key: "${v_big}"}}
			t.decls["v_big"] = map[string]any{"type": "int"}
			t.call["v_big"] = VarVal{T: "int", V: big, Float: true}
		} else {
			body = t.abstract(concrete)
		}
		// defaults of RunQuery
		p := rqParams{pageSize: 15}
		switch res {
		case "transactions", "logs":
			p.sort, p.order = "id", "desc"
		case "accounts":
			p.sort, p.order = "address", "asc"
		default:
			p.sort, p.order = "account", "asc"
		}
		apply := func(into map[string]any) {
			if r.Intn(2) == 0 {
				p.pageSize = uint64(1 + r.Intn(5))
				into["pageSize"] = p.pageSize
			}
			if res != "logs" && r.Intn(3) == 0 {
				pit := gen.Pick(r, instants(c, done, 3))
				p.pit = &pit
				into["endTime"] = rfc3339(pit)
			}
			if res == "volumes" && r.Intn(4) == 0 {
				oot := gen.Pick(r, instants(c, done, 2))
				p.oot = &oot
				into["startTime"] = rfc3339(oot)
			}
			if r.Intn(3) == 0 {
				switch res {
				case "transactions", "logs":
					p.order = gen.Pick(r, []string{"asc", "desc"})
					into["sort"] = "id:" + p.order
				case "accounts":
					p.order = gen.Pick(r, []string{"asc", "desc"})
					into["sort"] = "address:" + p.order
				}
			}
			if (res == "transactions" || res == "accounts") && r.Intn(3) == 0 {
				p.expand = []string{"volumes"}
				into["expand"] = p.expand
			}
			if res == "volumes" && r.Intn(3) == 0 {
				p.groupBy = 1 + r.Intn(2)
				into["groupBy"] = p.groupBy
			}
			if res == "volumes" && r.Intn(3) == 0 {
				p.insertionDate = r.Intn(2) == 0
				into["insertionDate"] = p.insertionDate
			}
		}
		tparams := map[string]any{}
		apply(tparams)
		req := map[string]any{}
		if r.Intn(2) == 0 {
			apply(req)
		}
		tmpl := map[string]any{"resource": res, "body": body}
		if len(t.decls) > 0 {
			tmpl["vars"] = t.decls
		}
		if len(tparams) > 0 {
			tmpl["params"] = tparams
		}
		id := fmt.Sprintf("q%d", i)
		queries[id] = rawJSON(tmpl)
		direct := Query{K: listKind(res), Res: res, PIT: p.pit, OOT: p.oot, Filter: rawJSON(concrete), Expand: p.expand,
			Sort: p.sort, Order: p.order, PageSize: p.pageSize, GroupLvl: p.groupBy, InsertionDate: p.insertionDate}
		cases = append(cases, tmplCase{id: id, res: res, call: t.call, direct: direct, req: req})
	}
	var qs []Step
	qs = append(qs, Step{Op: "schema", Version: "v1", Queries: queries})
	for _, tc := range cases {
		d := tc.direct
		q := Query{K: "runquery", Res: tc.res, SchemaVersion: "v1", Template: tc.id, Vars: tc.call, Direct: &d}
		if len(tc.req) > 0 {
			q.Params = rawJSON(tc.req)
		}
		qs = append(qs, Step{Q: &q})
	}
	// rejected runs: unknown template, unknown schema version
	qs = append(qs, Step{Q: &Query{K: "runquery", Res: "transactions", SchemaVersion: "v1", Template: "nosuch"}})
	qs = append(qs, Step{Q: &Query{K: "runquery", Res: "transactions", SchemaVersion: "v9", Template: "q0"}})
	return qs
}

func init() {
	registerWorkload("runquery", func(c *gen.Ctx) (In, Out) {
		features := pickFeatures(c)
		hist := genHistory(c)
		return runInterleaved(c, "runquery", features, hist, map[int]bool{}, runqueryQueries)
	})
}
