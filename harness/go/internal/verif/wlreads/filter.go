//go:build verif

package wlreads

import (
	"github.com/formancehq/ledger/internal/verif/gen"
)

// Workload "filter": random filter ASTs over every resource, with and without a point in time,
// List + Count, evaluated by the modelled Postgres on the state the history reached.

func filterQueries(c *gen.Ctx, features map[string]string, done []Step, last bool) []Step {
	r := c.R
	var qs []Step
	add := func(q Query) { qs = append(qs, Step{Q: &q}) }
	n := 5
	if last {
		n = 9
	}
	if c.Wide {
		n += 6
	}
	pickPit := func() *int64 {
		if r.Intn(2) == 0 {
			return nil
		}
		ts := instants(c, done, 3)
		return ptr(gen.Pick(r, ts))
	}
	for i := 0; i < n; i++ {
		add(Query{K: "listAccounts", PIT: pickPit(), Filter: genFilter(c, "accounts", done), PageSize: 50, Count: true,
			Sort: gen.Pick(r, []string{"", "", "first_usage", "insertion_date", "updated_at"}), Order: gen.Pick(r, []string{"", "asc", "desc"})})
		add(Query{K: "listTransactions", PIT: pickPit(), Filter: genFilter(c, "transactions", done), PageSize: 100, Count: true,
			Sort: gen.Pick(r, []string{"", "", "timestamp", "inserted_at", "updated_at"}), Order: gen.Pick(r, []string{"", "asc", "desc"})})
		vq := Query{K: "volumes", PIT: pickPit(), Filter: genFilter(c, "volumes", done), PageSize: 100, InsertionDate: r.Intn(2) == 0}
		if r.Intn(4) == 0 {
			vq.OOT = ptr(gen.Pick(r, instants(c, done, 2)))
		}
		if r.Intn(4) == 0 {
			vq.GroupLvl = 1 + r.Intn(2)
		}
		add(vq)
		add(Query{K: "aggregated", PIT: pickPit(), Filter: genFilter(c, "aggregated", done), InsertionDate: r.Intn(2) == 0})
		if i%3 == 0 {
			add(Query{K: "listLogs", Filter: genFilter(c, "logs", done), PageSize: 100, Order: gen.Pick(r, []string{"", "asc", "desc"}),
				Sort: gen.Pick(r, []string{"", "date"})})
		}
	}
	return qs
}

func init() {
	registerWorkload("filter", func(c *gen.Ctx) (In, Out) {
		features := pickFeatures(c)
		hist := genHistory(c)
		return runInterleaved(c, "filter", features, hist, pickCheckpoints(c, len(hist), 1), filterQueries)
	})
}
