//go:build verif

package wlreads

import (
	"encoding/json"

	"github.com/formancehq/ledger/internal/verif/gen"
)

// Workload "page": every paginated resource × page sizes 1..N+1 × both orders × filters × PIT:
// follow `next` to exhaustion and `previous` back, through the real cursor encode / decode and
// the real column / offset paginators over the REAL tables (on the modelled Postgres).

func pageQueries(c *gen.Ctx, features map[string]string, done []Step, last bool) []Step {
	r := c.R
	var qs []Step
	add := func(q Query) { qs = append(qs, Step{Q: &q}) }
	if !last {
		return nil
	}
	ntx := committedTxCount(done)
	nlogs := 0
	for _, s := range done {
		if s.Op != "" {
			nlogs++
		}
	}
	pickPit := func() *int64 {
		if r.Intn(3) != 0 {
			return nil
		}
		return ptr(gen.Pick(r, instants(c, done, 3)))
	}
	pickFilter := func(res string) json.RawMessage {
		if r.Intn(3) != 0 {
			return nil
		}
		return genFilter(c, res, done)
	}
	sizes := func(n int) []uint64 {
		// 1..N+1, a few of them
		all := []uint64{1, 2, 3, uint64(n), uint64(n + 1)}
		k := 2
		if c.Wide {
			k = 4
		}
		ret := []uint64{}
		for i := 0; i < k; i++ {
			s := gen.Pick(r, all)
			if s == 0 {
				s = 1
			}
			ret = append(ret, s)
		}
		return ret
	}
	for _, order := range []string{"asc", "desc"} {
		for _, ps := range sizes(ntx) {
			add(Query{K: "walk", Res: "transactions", PIT: pickPit(), Filter: pickFilter("transactions"), PageSize: ps, Order: order})
		}
		for _, ps := range sizes(6) {
			add(Query{K: "walk", Res: "accounts", PIT: pickPit(), Filter: pickFilter("accounts"), PageSize: ps, Order: order})
		}
		for _, ps := range sizes(8) {
			q := Query{K: "walk", Res: "volumes", PIT: pickPit(), Filter: pickFilter("volumes"), PageSize: ps, Order: order, InsertionDate: r.Intn(2) == 0}
			if r.Intn(3) == 0 {
				q.GroupLvl = 1 + r.Intn(2)
			}
			add(q)
		}
		// grouped volumes (account prefix / asset is the unique key), every level, with PIT / window
		for lvl := 1; lvl <= 3; lvl++ {
			q := Query{K: "walk", Res: "volumes", GroupLvl: lvl, PageSize: gen.Pick(r, []uint64{1, 2, 3}), Order: order, InsertionDate: r.Intn(2) == 0}
			switch r.Intn(3) {
			case 0:
				q.PIT = ptr(gen.Pick(r, instants(c, done, 3)))
			case 1:
				q.PIT = ptr(gen.Pick(r, instants(c, done, 3)))
				q.OOT = ptr(gen.Pick(r, instants(c, done, 2)))
			}
			if r.Intn(3) == 0 {
				q.Filter = genFilter(c, "volumes", done)
			}
			add(q)
		}
		for _, ps := range sizes(nlogs)[:1] {
			add(Query{K: "walk", Res: "logs", Filter: pickFilter("logs"), PageSize: ps, Order: order})
		}
	}
	// default order / default column, and a date column (ties possible: outside C21's "unique key")
	add(Query{K: "walk", Res: "transactions", PageSize: 2})
	add(Query{K: "walk", Res: "accounts", PageSize: 2})
	add(Query{K: "walk", Res: "transactions", PageSize: 2, Sort: "timestamp", Order: gen.Pick(r, []string{"asc", "desc"})})
	return qs
}

func init() {
	registerWorkload("page", func(c *gen.Ctx) (In, Out) {
		features := pickFeatures(c)
		hist := genHistory(c)
		return runInterleaved(c, "page", features, hist, map[int]bool{}, pageQueries)
	})
}
