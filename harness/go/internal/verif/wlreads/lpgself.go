//go:build verif

package wlreads

import (
	"github.com/formancehq/ledger/internal/verif/gen"
)

// Workload "lpgself": one `histself` line (handled by `ldriver_sql`, the LeanPG executable).
// Its only purpose is to make `bin/check` list `ldriver_sql` among the drivers it rebuilds, so
// that the modelled Postgres the other workloads talk to is the one regenerated from the checked
// tree's migrations (translator t2_schema → Generated/Schema.lean → ldriver_sql).
func init() {
	gen.Register("lpgself", func(c *gen.Ctx) error {
		ops := []map[string]any{
			{"op": "tx", "at": clockBase, "timestamp": nil, "postings": []jPosting{{Source: "world", Destination: "users:alice", Amount: "100", Asset: "USD/2"}},
				"reference": "", "metadata": map[string]string{"k": "v"}, "accountMetadata": map[string]any{}, "force": false},
			{"op": "tx", "at": clockBase + 1000, "timestamp": clockBase - 5000, "postings": []jPosting{{Source: "users:alice", Destination: "bank", Amount: "40", Asset: "USD/2"}},
				"reference": "r1", "metadata": map[string]string{}, "accountMetadata": map[string]any{}, "force": true},
			{"op": "revert", "at": clockBase + 2000, "id": 1, "force": true, "atEffectiveDate": false, "metadata": map[string]string{}},
		}
		return c.Emit("histself", map[string]any{"ops": ops}, map[string]any{})
	})
}
