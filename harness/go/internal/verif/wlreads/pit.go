//go:build verif

package wlreads

import (
	"github.com/formancehq/ledger/internal/verif/gen"
)

// Workload "pit": every read API at instants {before all, exactly on recorded dates, between,
// after}, both date modes, OOT windows, with the expansions.

func committedTxCount(done []Step) int {
	n := 0
	for _, s := range done {
		if s.Op == "tx" || s.Op == "revert" {
			n++
		}
	}
	return n
}

func pitQueries(c *gen.Ctx, features map[string]string, done []Step, last bool) []Step {
	r := c.R
	var qs []Step
	add := func(q Query) { qs = append(qs, Step{Q: &q}) }
	k := 2
	if last {
		k = 4
	}
	if c.Wide {
		k += 2
	}
	var pits []*int64
	for _, t := range instants(c, done, k) {
		pits = append(pits, ptr(t))
	}
	pits = append(pits, nil) // current reads
	ntx := committedTxCount(done)
	allAccounts := append(append([]string{}, accounts...), neverUsed, metaOnlyAcct, "fresh:acct")
	both := []string{"volumes", "effectiveVolumes"}
	for _, pit := range pits {
		// accounts
		add(Query{K: "listAccounts", PIT: pit, Expand: both, PageSize: 50})
		for i := 0; i < 2; i++ {
			add(Query{K: "getAccount", Address: gen.Pick(r, allAccounts), PIT: pit, Expand: gen.Pick(r, [][]string{both, {"volumes"}, {"effectiveVolumes"}, nil})})
		}
		// volumes: both date modes, windows, grouping
		for _, ins := range []bool{false, true} {
			q := Query{K: "volumes", PIT: pit, InsertionDate: ins, PageSize: 100}
			if pit != nil && r.Intn(2) == 0 {
				oot := gen.Pick(r, instants(c, done, 2))
				q.OOT = &oot
			}
			if r.Intn(3) == 0 {
				q.GroupLvl = 1 + r.Intn(3)
			}
			add(q)
			add(Query{K: "aggregated", PIT: pit, InsertionDate: ins})
		}
		if pit == nil && r.Intn(2) == 0 {
			// OOT alone
			oot := gen.Pick(r, instants(c, done, 2))
			add(Query{K: "volumes", OOT: &oot, InsertionDate: r.Intn(2) == 0, PageSize: 100})
		}
		// transactions
		add(Query{K: "listTransactions", PIT: pit, Expand: both, PageSize: 100})
		if ntx > 0 {
			add(Query{K: "getTransaction", ID: uint64(1 + r.Intn(ntx+1)), PIT: pit, Expand: gen.Pick(r, [][]string{both, {"volumes"}, nil})})
		}
	}
	return qs
}

func init() {
	registerWorkload("pit", func(c *gen.Ctx) (In, Out) {
		features := pickFeatures(c)
		hist := genHistory(c)
		return runInterleaved(c, "pit", features, hist, pickCheckpoints(c, len(hist), 1), pitQueries)
	})
}
