//go:build verif

package wlreads

import (
	"github.com/formancehq/ledger/internal/verif/gen"
)

// Workload "pit": every read API at instants {before all, exactly on recorded dates, between,
// after}, both date modes, OOT windows, with the expansions.

func committedTxCount(done []Step) int {
	n := 0
	for _, s := range done {
		if s.Op == "tx" || s.Op == "revert" {
			n++
		}
	}
	return n
}

func pitQueries(c *gen.Ctx, features map[string]string, done []Step, last bool) []Step {
	r := c.R
	var qs []Step
	add := func(q Query) { qs = append(qs, Step{Q: &q}) }
	k := 2
	if last {
		k = 4
	}
	if c.Wide {
		k += 2
	}
	var pits []*int64
	for _, t := range instants(c, done, k) {
		pits = append(pits, ptr(t))
	}
	pits = append(pits, nil) // current reads
	ntx := committedTxCount(done)
	allAccounts := append(append([]string{}, accounts...), neverUsed, metaOnlyAcct, "fresh:acct")
	both := []string{"volumes", "effectiveVolumes"}
	for _, pit := range pits {
		// accounts
		add(Query{K: "listAccounts", PIT: pit, Expand: both, PageSize: 50})
		for i := 0; i < 2; i++ {
			add(Query{K: "getAccount", Address: gen.Pick(r, allAccounts), PIT: pit, Expand: gen.Pick(r, [][]string{both, {"volumes"}, {"effectiveVolumes"}, nil})})
		}
		// volumes: both date modes, windows, grouping
		for _, ins := range []bool{false, true} {
			q := Query{K: "volumes", PIT: pit, InsertionDate: ins, PageSize: 100}
			if pit != nil && r.Intn(2) == 0 {
				oot := gen.Pick(r, instants(c, done, 2))
				q.OOT = &oot
			}
			if r.Intn(3) == 0 {
				q.GroupLvl = 1 + r.Intn(3)
			}
			add(q)
			add(Query{K: "aggregated", PIT: pit, InsertionDate: ins})
		}
		if pit == nil && r.Intn(2) == 0 {
			// OOT alone
			oot := gen.Pick(r, instants(c, done, 2))
			add(Query{K: "volumes", OOT: &oot, InsertionDate: r.Intn(2) == 0, PageSize: 100})
		}
		// transactions
		add(Query{K: "listTransactions", PIT: pit, Expand: both, PageSize: 100})
		if ntx > 0 {
			add(Query{K: "getTransaction", ID: uint64(1 + r.Intn(ntx+1)), PIT: pit, Expand: gen.Pick(r, [][]string{both, {"volumes"}, nil})})
		}
	}
	return qs
}

// Workload "meta" (C17): histories biased towards metadata saves / deletes on a few accounts and
// transactions, under the four *_METADATA_HISTORY combinations; reads of the accounts and
// transactions at instants before / on / between / after every write.

func genMetaHistory(c *gen.Ctx) []Step {
	r := c.R
	n := 8 + r.Intn(8)
	if c.Wide {
		n = 10 + r.Intn(20)
	}
	targets := []string{"bank", "users:alice", metaOnlyAcct}
	steps := []Step{}
	txs := 0
	for i := 0; i < n; i++ {
		switch k := r.Intn(10); {
		case k < 3 || txs == 0:
			op := Step{Op: "tx", Postings: []jPosting{{Source: "world", Destination: gen.Pick(r, targets[:2]), Amount: genAmount(c), Asset: gen.Pick(r, assets)}},
				Metadata: gen.Pick(r, metaPool), Force: true}
			if r.Intn(2) == 0 {
				ts := gen.Pick(r, timeGrid)
				op.Timestamp = &ts
			}
			if r.Intn(3) == 0 {
				op.AccountMetadata = map[string]map[string]string{gen.Pick(r, targets): gen.Pick(r, metaPool[:6])}
			}
			steps = append(steps, op)
			txs++
		case k == 3:
			steps = append(steps, Step{Op: "revert", ID: uint64(1 + r.Intn(txs)), Force: true, AtEffectiveDate: r.Intn(2) == 0, Metadata: gen.Pick(r, metaPool)})
			txs++
		case k < 7:
			var target map[string]any
			if r.Intn(2) == 0 {
				target = map[string]any{"account": gen.Pick(r, targets)}
			} else {
				target = map[string]any{"tx": 1 + r.Intn(txs)}
			}
			steps = append(steps, Step{Op: "saveMeta", Target: target, Metadata: gen.Pick(r, metaPool[:6])})
		default:
			var target map[string]any
			if r.Intn(2) == 0 {
				target = map[string]any{"account": gen.Pick(r, targets)}
			} else {
				target = map[string]any{"tx": 1 + r.Intn(txs)}
			}
			steps = append(steps, Step{Op: "deleteMeta", Target: target, Key: gen.Pick(r, metaKeys[:4])})
		}
	}
	return steps
}

func metaQueries(c *gen.Ctx, features map[string]string, done []Step, last bool) []Step {
	r := c.R
	var qs []Step
	add := func(q Query) { qs = append(qs, Step{Q: &q}) }
	k := 4
	if last {
		k = 8
	}
	ntx := committedTxCount(done)
	var pits []*int64
	for _, t := range instants(c, done, k) {
		pits = append(pits, ptr(t))
	}
	pits = append(pits, nil)
	for _, pit := range pits {
		for _, a := range []string{"bank", "users:alice", metaOnlyAcct} {
			add(Query{K: "getAccount", Address: a, PIT: pit})
		}
		add(Query{K: "listAccounts", PIT: pit, PageSize: 50})
		add(Query{K: "listTransactions", PIT: pit, PageSize: 100})
		if ntx > 0 {
			add(Query{K: "getTransaction", ID: uint64(1 + r.Intn(ntx)), PIT: pit})
		}
		// the metadata filters of the volumes / aggregated listings read the same history
		add(Query{K: "volumes", PIT: pit, Filter: rawJSON(metadataLeaf(r)), PageSize: 100})
	}
	return qs
}

func pickMetaFeatures(c *gen.Ctx) map[string]string {
	r := c.R
	f := map[string]string{
		"MOVES_HISTORY": "ON", "MOVES_HISTORY_POST_COMMIT_EFFECTIVE_VOLUMES": "SYNC",
		"ACCOUNT_METADATA_HISTORY": "SYNC", "TRANSACTION_METADATA_HISTORY": "SYNC", "HASH_LOGS": "DISABLED",
	}
	switch r.Intn(6) {
	case 0:
		f["ACCOUNT_METADATA_HISTORY"] = "DISABLED"
	case 1:
		f["TRANSACTION_METADATA_HISTORY"] = "DISABLED"
	case 2:
		f["ACCOUNT_METADATA_HISTORY"] = "DISABLED"
		f["TRANSACTION_METADATA_HISTORY"] = "DISABLED"
	}
	return f
}

func init() {
	registerWorkload("meta", func(c *gen.Ctx) (In, Out) {
		features := pickMetaFeatures(c)
		hist := genMetaHistory(c)
		return runInterleaved(c, "meta", features, hist, pickCheckpoints(c, len(hist), 2), metaQueries)
	})
	// "gates" (C35): the same reads under the feature sets that disable something a read needs
	// (PCEV off, MOVES_HISTORY off with PCEV off / SYNC): such reads must be rejected, not answered.
	registerWorkload("gates", func(c *gen.Ctx) (In, Out) {
		fs := gen.Pick(c.R, featureSets[4:])
		features := map[string]string{
			"MOVES_HISTORY": "ON", "MOVES_HISTORY_POST_COMMIT_EFFECTIVE_VOLUMES": "SYNC",
			"ACCOUNT_METADATA_HISTORY": "SYNC", "TRANSACTION_METADATA_HISTORY": "SYNC", "HASH_LOGS": "DISABLED",
		}
		for k, v := range fs.set {
			features[k] = v
		}
		hist := genHistory(c)
		return runInterleaved(c, "gates", features, hist, map[int]bool{}, func(c *gen.Ctx, f map[string]string, done []Step, last bool) []Step {
			return append(pitQueries(c, f, done, false), filterQueries(c, f, done, false)...)
		})
	})
	registerWorkload("pit", func(c *gen.Ctx) (In, Out) {
		features := pickFeatures(c)
		hist := genHistory(c)
		return runInterleaved(c, "pit", features, hist, pickCheckpoints(c, len(hist), 1), pitQueries)
	})
}
