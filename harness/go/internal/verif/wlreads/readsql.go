//go:build verif

package wlreads

import (
	"context"
	"errors"
	"fmt"
	"regexp"
	"strings"
	"time"

	"github.com/formancehq/go-libs/v5/pkg/query"
	libtime "github.com/formancehq/go-libs/v5/pkg/types/time"

	ledger "github.com/formancehq/ledger/internal"
	"github.com/formancehq/ledger/internal/storage/bucket"
	storagecommon "github.com/formancehq/ledger/internal/storage/common"
	ledgerstore "github.com/formancehq/ledger/internal/storage/ledger"
	"github.com/formancehq/ledger/internal/verif/gen"
	"github.com/formancehq/ledger/internal/verif/minisql"
	"github.com/formancehq/ledger/internal/verif/pgfake"
)

// Translator T1 (reads): `vrreads readsql` runs the REAL read methods of
// internal/storage/ledger.Store (Volumes / AggregatedBalances / Accounts / Transactions:
// Paginate, GetOne) over the RECORDING pgfake driver with MARKER arguments (bucket, ledger,
// point in time, start time, address) and prints the Lean module Ledger.Generated.ReadSql: per
// read shape a FUNCTION from those arguments to the MiniSQL statements the call renders, plus the
// table of which shapes the code rejects (missing feature) under the feature sets that disable
// MOVES_HISTORY / post-commit effective volumes.

const (
	rmBucket  = "BUCKETMARK"
	rmLedger  = "LEDGERMARK"
	rmAddress = "ADDRMARK"
)

var (
	rmPIT = time.Date(2001, 2, 3, 4, 5, 6, 7000, time.UTC)
	rmOOT = time.Date(2001, 1, 2, 3, 4, 5, 6000, time.UTC)
)

type readShape struct {
	Name string
	Doc  string
	// Params used by the shape, in order: pit, oot, address
	Params []string
	Run    func(ctx context.Context, s *ledgerstore.Store) error
}

func rsTime(t time.Time) *libtime.Time { x := libtime.New(t); return &x }

func volShape(name, doc string, pit, oot, ins bool) readShape {
	var params []string
	if pit {
		params = append(params, "pit")
	}
	if oot {
		params = append(params, "oot")
	}
	return readShape{Name: name, Doc: doc, Params: params, Run: func(ctx context.Context, s *ledgerstore.Store) error {
		rq := storagecommon.ResourceQuery[ledger.GetVolumesOptions]{Opts: ledger.GetVolumesOptions{UseInsertionDate: ins}}
		if pit {
			rq.PIT = rsTime(rmPIT)
		}
		if oot {
			rq.OOT = rsTime(rmOOT)
		}
		_, err := s.Volumes().Paginate(ctx, storagecommon.InitialPaginatedQuery[ledger.GetVolumesOptions]{PageSize: 100, Options: rq})
		return err
	}}
}

func aggShape(name, doc string, pit, ins bool) readShape {
	var params []string
	if pit {
		params = append(params, "pit")
	}
	return readShape{Name: name, Doc: doc, Params: params, Run: func(ctx context.Context, s *ledgerstore.Store) error {
		rq := storagecommon.ResourceQuery[ledger.GetAggregatedVolumesOptions]{Opts: ledger.GetAggregatedVolumesOptions{UseInsertionDate: ins}}
		if pit {
			rq.PIT = rsTime(rmPIT)
		}
		_, err := s.AggregatedVolumes().GetOne(ctx, rq)
		return err
	}}
}

func acctListShape(name, doc string, pit bool, expand []string) readShape {
	var params []string
	if pit {
		params = append(params, "pit")
	}
	return readShape{Name: name, Doc: doc, Params: params, Run: func(ctx context.Context, s *ledgerstore.Store) error {
		rq := storagecommon.ResourceQuery[any]{Expand: append([]string(nil), expand...)}
		if pit {
			rq.PIT = rsTime(rmPIT)
		}
		_, err := s.Accounts().Paginate(ctx, storagecommon.InitialPaginatedQuery[any]{PageSize: 100, Options: rq})
		return err
	}}
}

func acctGetShape(name, doc string, pit bool, expand []string) readShape {
	params := []string{}
	if pit {
		params = append(params, "pit")
	}
	params = append(params, "address")
	return readShape{Name: name, Doc: doc, Params: params, Run: func(ctx context.Context, s *ledgerstore.Store) error {
		rq := storagecommon.ResourceQuery[any]{Expand: append([]string(nil), expand...), Builder: query.Match("address", rmAddress)}
		if pit {
			rq.PIT = rsTime(rmPIT)
		}
		_, err := s.Accounts().GetOne(ctx, rq)
		return err
	}}
}

func txListShape(name, doc string, pit bool, expand []string) readShape {
	var params []string
	if pit {
		params = append(params, "pit")
	}
	return readShape{Name: name, Doc: doc, Params: params, Run: func(ctx context.Context, s *ledgerstore.Store) error {
		rq := storagecommon.ResourceQuery[any]{Expand: append([]string(nil), expand...)}
		if pit {
			rq.PIT = rsTime(rmPIT)
		}
		_, err := s.Transactions().Paginate(ctx, storagecommon.InitialPaginatedQuery[any]{PageSize: 100, Options: rq})
		return err
	}}
}

var bothExpansions = []string{"volumes", "effectiveVolumes"}

func readShapes() []readShape {
	return []readShape{
		volShape("volumesCurrent", "GetVolumesWithBalances without window: accounts_volumes", false, false, false),
		volShape("volumesEffPit", "GetVolumesWithBalances(PIT), effective dates: sum(case when …) over moves", true, false, false),
		volShape("volumesEffOot", "GetVolumesWithBalances(OOT), effective dates", false, true, false),
		volShape("volumesEffPitOot", "GetVolumesWithBalances(PIT, OOT), effective dates", true, true, false),
		volShape("volumesInsPit", "GetVolumesWithBalances(PIT, UseInsertionDate)", true, false, true),
		volShape("volumesInsOot", "GetVolumesWithBalances(OOT, UseInsertionDate)", false, true, true),
		volShape("volumesInsPitOot", "GetVolumesWithBalances(PIT, OOT, UseInsertionDate)", true, true, true),
		aggShape("aggregatedCurrent", "GetAggregatedBalances without PIT: accounts_volumes", false, false),
		aggShape("aggregatedEffPit", "GetAggregatedBalances(PIT): first_value(post_commit_effective_volumes) of the latest move ≤ pit", true, false),
		aggShape("aggregatedInsPit", "GetAggregatedBalances(PIT, UseInsertionDate): first_value(post_commit_volumes) of the latest move ≤ pit", true, true),
		acctListShape("accountsCurrent", "ListAccounts without PIT", false, nil),
		acctListShape("accountsPit", "ListAccounts(PIT): first_usage ≤ pit + metadata-history join", true, nil),
		acctListShape("accountsPitExpand", "ListAccounts(PIT, expand volumes + effectiveVolumes)", true, bothExpansions),
		acctGetShape("accountGetPitExpand", "GetAccount(address, PIT, expand volumes + effectiveVolumes)", true, bothExpansions),
		acctGetShape("accountGetCurrentExpand", "GetAccount(address, expand volumes + effectiveVolumes)", false, bothExpansions),
		txListShape("transactionsCurrent", "ListTransactions without PIT", false, nil),
		txListShape("transactionsPit", "ListTransactions(PIT): timestamp ≤ pit, reverted mask, metadata-history join", true, nil),
		txListShape("transactionsPitExpand", "ListTransactions(PIT, expand volumes + effectiveVolumes)", true, bothExpansions),
	}
}

type readFeatures struct {
	Tag string
	Set map[string]string
}

var readFeatureSets = []readFeatures{
	{"", map[string]string{}},
	{"NoMetaHist", map[string]string{"ACCOUNT_METADATA_HISTORY": "DISABLED", "TRANSACTION_METADATA_HISTORY": "DISABLED"}},
	{"NoPcev", map[string]string{"MOVES_HISTORY_POST_COMMIT_EFFECTIVE_VOLUMES": "DISABLED"}},
	{"NoMoves", map[string]string{"MOVES_HISTORY": "OFF", "MOVES_HISTORY_POST_COMMIT_EFFECTIVE_VOLUMES": "DISABLED"}},
}

var rsTimeLit = regexp.MustCompile(`\(Expr\.str "(2001-0[12]-0[23][T ]0[34]:0[45]:0[56][^"]*)"\)`)

// captureShape runs one shape on a fresh recording server; returns the Lean terms of the rendered
// statements (markers substituted), their SQL, and whether the code rejected the call.
func captureShape(sh readShape, feats map[string]string) (terms []string, sqls []string, rejected string, err error) {
	srv := pgfake.StartRecording(false)
	defer srv.Close()
	l := ledger.MustNewWithDefault("x")
	l.Name, l.ID, l.Bucket = rmLedger, 424242, rmBucket
	for k, v := range feats {
		l.Features = l.Features.With(k, v)
	}
	store := ledgerstore.New(srv.DB(), bucket.NewDefaultFactory().Create(l.Bucket), l)
	rerr := sh.Run(context.Background(), store)
	if rerr != nil {
		var missing ledgerstore.ErrMissingFeature
		var invalid storagecommon.ErrInvalidQuery
		switch {
		case errors.As(rerr, &missing):
			return nil, nil, "missing-feature", nil
		case errors.As(rerr, &invalid):
			return nil, nil, "invalid-query", nil
		}
		// not-found etc. on the empty recording answers are fine
	}
	for _, st := range srv.Log() {
		p, perr := minisql.Parse(st.SQL)
		if perr != nil {
			return nil, nil, "", fmt.Errorf("%s: %w\n%s", sh.Name, perr, st.SQL)
		}
		lean := p.Lean()
		lean = strings.ReplaceAll(lean, `"`+rmBucket+`"`, "bucket")
		lean = strings.ReplaceAll(lean, `"`+rmLedger+`"`, "ledger")
		lean = strings.ReplaceAll(lean, `(Expr.str "`+rmAddress+`")`, "(Expr.str address)")
		var terr error
		lean = rsTimeLit.ReplaceAllStringFunc(lean, func(m string) string {
			lit := rsTimeLit.FindStringSubmatch(m)[1]
			switch {
			case strings.HasPrefix(lit, "2001-02-03"):
				return "(Expr.str pit)"
			case strings.HasPrefix(lit, "2001-01-02"):
				return "(Expr.str oot)"
			}
			terr = fmt.Errorf("%s: unexpected time literal %q", sh.Name, lit)
			return m
		})
		if terr != nil {
			return nil, nil, "", terr
		}
		if strings.Contains(lean, "MARK") || strings.Contains(lean, "2001-0") {
			return nil, nil, "", fmt.Errorf("%s: a marker survived the substitution:\n%s", sh.Name, st.SQL)
		}
		terms = append(terms, lean)
		sqls = append(sqls, strings.Join(strings.Fields(st.SQL), " "))
	}
	for _, p := range sh.Params {
		if !regexp.MustCompile(`\b` + p + `\b`).MatchString(strings.Join(terms, "\n")) {
			return nil, nil, "", fmt.Errorf("%s: parameter %s does not occur in the rendered statements", sh.Name, p)
		}
	}
	return terms, sqls, "", nil
}

func generateReadSqlModule() (string, error) {
	var sb strings.Builder
	w := func(format string, a ...any) { fmt.Fprintf(&sb, format, a...) }
	w("-- GENERATED-MODULE: Ledger.Generated.ReadSql\n")
	w("-- Generated by tools/t1_readsql: the SQL the REAL read methods of internal/storage/ledger render\n")
	w("-- (bun, arguments inlined; scoped select: `ledger = …` present), parsed by minisql (print-back\n")
	w("-- checked), with the bucket / ledger / point in time / start time / address literals turned into\n")
	w("-- parameters (a time parameter is the literal text the code renders: RFC 3339, `2006-01-02T15:04:05.999999Z`).\n")
	w("-- DO NOT EDIT.\n")
	w("import Ledger.Sql.Ast\n\nnamespace Ledger.Generated.ReadSql\nopen Ledger.Sql\n\nset_option maxRecDepth 8192\n\n")
	type gate struct{ shape, feat, res string }
	var gates []gate
	for _, fs := range readFeatureSets {
		for _, sh := range readShapes() {
			terms, sqls, rejected, err := captureShape(sh, fs.Set)
			if err != nil {
				return "", fmt.Errorf("t1_readsql: %w", err)
			}
			gates = append(gates, gate{sh.Name, fs.Tag, rejected})
			if rejected != "" {
				continue
			}
			// the default feature set gives every shape; the others only what differs is of interest:
			// metadata-history off → the listings without the history join
			if fs.Tag == "NoPcev" || fs.Tag == "NoMoves" {
				continue
			}
			if fs.Tag == "NoMetaHist" && !(strings.HasPrefix(sh.Name, "accountsPit") || strings.HasPrefix(sh.Name, "transactionsPit") || sh.Name == "accountGetPitExpand") {
				continue
			}
			params := "(bucket ledger : String)"
			for _, p := range sh.Params {
				params += " (" + p + " : String)"
			}
			w("/-- `%s%s`: %s\n", sh.Name, fs.Tag, sh.Doc)
			for _, s := range sqls {
				if len(s) > 900 {
					s = s[:900] + " …"
				}
				w("    %s\n", strings.ReplaceAll(s, "-/", "- /"))
			}
			w("-/\n")
			w("def %s%s %s : List Stmt := [\n  %s\n]\n\n", lowerFirstR(sh.Name), fs.Tag, params, strings.Join(terms, ",\n  "))
		}
	}
	w("/-- (shape, feature set, outcome before any SQL): \"\" = rendered, else the error class the code\n")
	w("    answers (`missing-feature` / `invalid-query`). Feature sets: \"\" default, NoMetaHist, NoPcev\n")
	w("    (MOVES_HISTORY_POST_COMMIT_EFFECTIVE_VOLUMES=DISABLED), NoMoves (MOVES_HISTORY=OFF + NoPcev). -/\n")
	w("def gates : List (String × String × String) := [\n")
	for i, g := range gates {
		w("  (%s, %s, %s)", minisql.LeanString(g.shape), minisql.LeanString(g.feat), minisql.LeanString(g.res))
		if i < len(gates)-1 {
			w(",")
		}
		w("\n")
	}
	w("]\n\nend Ledger.Generated.ReadSql\n")
	return sb.String(), nil
}

func lowerFirstR(s string) string { return strings.ToLower(s[:1]) + s[1:] }

func init() {
	gen.Register("readsql", func(c *gen.Ctx) error {
		out, err := generateReadSqlModule()
		if err != nil {
			return err
		}
		_, err = c.Out.WriteString(out)
		return err
	})
}
