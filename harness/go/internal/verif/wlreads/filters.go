//go:build verif

package wlreads

import (
	"encoding/json"
	"fmt"
	"math/rand"
	"time"

	"github.com/formancehq/ledger/internal/verif/gen"
)

// Random filter ASTs (go-libs query JSON), depth ≤ 4, over every field and operator of every
// resource: exact / partial `a::c` / prefix `a:...` addresses, `$in`, metadata match / exists,
// per-asset balance comparisons, dates, reverted, reference, id, `$and` / `$or` / `$not`.

func rfc3339(us int64) string { return time.UnixMicro(us).UTC().Format(time.RFC3339Nano) }

var addrPatterns = []string{
	"world", "bank", "users:alice", "users:bob", "users:alice:savings", "orders:1:pending", "never:used",
	"users:", "users:...", ":alice", "users::savings", "::", "...", "orders:1:...", "orders::pending", ":", "users:...:x",
	"bank:", ":1:", "users:alice:...", "meta:only", "fresh:acct",
}

var numPool = []string{"0", "1", "-1", "5", "10", "100", "1000", "-10", "9007199254740993", "18446744073709551616", "-18446744073709551617"}

type leaf map[string]any

func mkLeaf(op, key string, v any) leaf { return leaf{op: map[string]any{key: v}} }

func pickCmp(r *rand.Rand) string { return gen.Pick(r, []string{"$match", "$lt", "$lte", "$gt", "$gte"}) }

func pickDate(r *rand.Rand, dates []int64) string {
	if len(dates) == 0 {
		return rfc3339(clockBase)
	}
	d := gen.Pick(r, dates)
	switch r.Intn(4) {
	case 0:
		d += 500
	case 1:
		d -= 1
	}
	return rfc3339(d)
}

func rawNum(s string) json.RawMessage { return json.RawMessage(s) }

func addressLeaf(r *rand.Rand, key string) leaf {
	if r.Intn(4) == 0 {
		n := 1 + r.Intn(3)
		vs := make([]any, 0, n)
		for i := 0; i < n; i++ {
			vs = append(vs, gen.Pick(r, addrPatterns[:7]))
		}
		return mkLeaf("$in", key, vs)
	}
	op := "$match"
	if r.Intn(8) == 0 {
		op = "$like" // rendered like `$match` by filterAccountAddress
	}
	return mkLeaf(op, key, gen.Pick(r, addrPatterns))
}

// noMetaIn: templates go through the same code; keep `$in` on metadata out of them while the
// finding C20:metadata-in-never-matches is open.
var noMetaIn = false // (fixed a07a144; templates still skip it: a `$in` list of variables is exercised on other fields)

func metadataLeaf(r *rand.Rand) leaf {
	if r.Intn(3) == 0 {
		return mkLeaf("$exists", "metadata", gen.Pick(r, metaKeys))
	}
	if !noMetaIn && r.Intn(8) == 0 {
		// `$in` on metadata[k]: documented meaning = membership
		return mkLeaf("$in", "metadata["+gen.Pick(r, []string{"k", "tier", "role"})+"]", []any{gen.Pick(r, []string{"v", "gold", "a\"b"}), gen.Pick(r, []string{"w", "silver", "nope"})})
	}
	m := gen.Pick(r, metaPool[:6])
	for k, v := range m {
		if r.Intn(4) == 0 {
			v = "nope"
		}
		return mkLeaf("$match", fmt.Sprintf("metadata[%s]", k), v)
	}
	return mkLeaf("$match", "metadata[k]", "v")
}

func balanceLeaf(r *rand.Rand, generic bool) leaf {
	key := fmt.Sprintf("balance[%s]", gen.Pick(r, assets))
	if generic && r.Intn(4) == 0 {
		key = "balance"
	}
	return mkLeaf(pickCmp(r), key, rawNum(gen.Pick(r, numPool)))
}

// genLeaf draws one valid leaf for the resource.
// noGenericBalance: query templates cannot use the un-indexed `balance` key (schema validation
// rejects it: "type cannot be constructed").
var noGenericBalance = false

func genLeaf(r *rand.Rand, res string, dates []int64, ntx int) leaf {
	switch res {
	case "accounts":
		switch r.Intn(10) {
		case 0, 1, 2:
			return addressLeaf(r, "address")
		case 3, 4:
			return mkLeaf(pickCmp(r), gen.Pick(r, []string{"first_usage", "insertion_date", "updated_at"}), pickDate(r, dates))
		case 5, 6:
			return balanceLeaf(r, false)
		default:
			return metadataLeaf(r)
		}
	case "transactions":
		switch r.Intn(12) {
		case 0, 1:
			return addressLeaf(r, gen.Pick(r, []string{"account", "source", "destination"}))
		case 2:
			return mkLeaf(pickCmp(r), "id", rawNum(fmt.Sprint(r.Intn(ntx+2))))
		case 3:
			if r.Intn(3) == 0 {
				return mkLeaf("$in", "reference", []any{gen.Pick(r, references), gen.Pick(r, references)})
			}
			if r.Intn(3) == 0 {
				return mkLeaf("$like", "reference", gen.Pick(r, []string{"r%", "r_", "%", "ref%q\"", "%1", "r", "_é_", "%f"}))
			}
			return mkLeaf("$match", "reference", gen.Pick(r, references))
		case 4, 5:
			return mkLeaf(pickCmp(r), gen.Pick(r, []string{"timestamp", "inserted_at", "updated_at", "reverted_at"}), pickDate(r, dates))
		case 6, 7:
			return mkLeaf("$match", "reverted", r.Intn(2) == 0)
		default:
			return metadataLeaf(r)
		}
	case "volumes":
		switch r.Intn(10) {
		case 0, 1, 2:
			return addressLeaf(r, gen.Pick(r, []string{"address", "account"}))
		case 3, 4, 5:
			return balanceLeaf(r, !noGenericBalance)
		case 6:
			return mkLeaf(pickCmp(r), "first_usage", pickDate(r, dates))
		default:
			return metadataLeaf(r)
		}
	case "aggregated":
		if r.Intn(2) == 0 {
			return addressLeaf(r, "address")
		}
		return metadataLeaf(r)
	default: // logs
		switch r.Intn(3) {
		case 0:
			return mkLeaf(pickCmp(r), "id", rawNum(fmt.Sprint(r.Intn(ntx+4))))
		case 1:
			return mkLeaf(pickCmp(r), "date", pickDate(r, dates))
		default:
			if r.Intn(3) == 0 {
				// (before fix 127af08 this panicked in ConvertOperatorToSQL)
				return mkLeaf("$in", "type", []any{gen.Pick(r, []string{"NEW_TRANSACTION", "DELETE_METADATA"}), "SET_METADATA"})
			}
			if r.Intn(3) == 0 {
				return mkLeaf("$like", "type", gen.Pick(r, []string{"NEW%", "%METADATA", "%_TRANSACTION", "SET_METADATA", "%", "_EW%", "X%"}))
			}
			return mkLeaf("$match", "type", gen.Pick(r, []string{"NEW_TRANSACTION", "REVERTED_TRANSACTION", "SET_METADATA", "DELETE_METADATA", "INSERTED_SCHEMA"}))
		}
	}
}

// invalidLeaf: unknown key, operator not allowed for the field, wrong value type.
func invalidLeaf(r *rand.Rand, res string) leaf {
	switch r.Intn(4) {
	case 0:
		return mkLeaf("$match", "nosuchfield", "x")
	case 1:
		if res == "logs" {
			return mkLeaf("$lt", "type", "x")
		}
		return mkLeaf("$lt", "metadata[k]", "x")
	case 2:
		if res == "logs" {
			return mkLeaf("$match", "id", "notanumber")
		}
		return mkLeaf("$match", "metadata[k]", rawNum("3"))
	default:
		if res == "accounts" || res == "volumes" {
			return mkLeaf("$exists", "balance", "USD/2")
		}
		return mkLeaf("$match", "nosuchfield[x]", "x")
	}
}

func genFilterTree(r *rand.Rand, res string, dates []int64, ntx int, depth int) any {
	if depth == 0 || r.Intn(3) == 0 {
		return genLeaf(r, res, dates, ntx)
	}
	switch r.Intn(5) {
	case 0:
		return map[string]any{"$not": genFilterTree(r, res, dates, ntx, depth-1)}
	case 1, 2:
		n := r.Intn(4)
		items := make([]any, 0, n)
		for i := 0; i < n; i++ {
			items = append(items, genFilterTree(r, res, dates, ntx, depth-1))
		}
		return map[string]any{"$and": items}
	default:
		n := r.Intn(4)
		items := make([]any, 0, n)
		for i := 0; i < n; i++ {
			items = append(items, genFilterTree(r, res, dates, ntx, depth-1))
		}
		return map[string]any{"$or": items}
	}
}

// genFilter returns the JSON of a filter (depth ≤ 4); ≈4 % contain an invalid leaf.
func genFilter(c *gen.Ctx, res string, done []Step) json.RawMessage {
	r := c.R
	dates := recordedDates(done)
	ntx := committedTxCount(done)
	depth := r.Intn(5)
	tree := genFilterTree(r, res, dates, ntx, depth)
	if res == "accounts" && r.Intn(12) == 0 {
		// the generic `balance` key on accounts (scalar subquery over the account's balance rows:
		// SQLSTATE 21000 once an account holds two assets) — only as the whole filter, so that its
		// evaluation does not depend on the order Postgres evaluates a boolean tree in
		return rawJSON(mkLeaf(pickCmp(r), "balance", rawNum(gen.Pick(r, numPool))))
	}
	if r.Intn(25) == 0 {
		tree = map[string]any{"$and": []any{tree, invalidLeaf(r, res)}}
	}
	return rawJSON(tree)
}
