//go:build verif

// Package wlreads: the READ path end to end. Every case is a sequential history executed by the
// REAL controller stack (system controller → state tracker → DefaultController with the real
// Numscript machine → real SQL store → bun) over pgfake → LeanPG (the MODELLED PostgreSQL: there
// is no real Postgres in this sandbox), interleaved with real read calls (GetAccount,
// ListAccounts, CountAccounts, GetVolumesWithBalances, GetAggregatedBalances, ListTransactions,
// CountTransactions, GetTransaction, ListLogs, RunQuery) whose canonicalised answers are emitted.
// The Lean driver `ldriver_reads` folds the Spec over the same history and recomputes every
// answer from the folds (`Ledger/Reads`).
package wlreads

import (
	"context"
	"encoding/json"
	"errors"
	"fmt"
	"math/big"
	"os"
	"strings"
	"time"

	"github.com/formancehq/go-libs/v5/pkg/storage/postgres"
	"github.com/formancehq/go-libs/v5/pkg/types/metadata"
	libtime "github.com/formancehq/go-libs/v5/pkg/types/time"

	ledger "github.com/formancehq/ledger/internal"
	ledgercontroller "github.com/formancehq/ledger/internal/controller/ledger"
	systemcontroller "github.com/formancehq/ledger/internal/controller/system"
	"github.com/formancehq/ledger/internal/machine"
	"github.com/formancehq/ledger/internal/storage/bucket"
	storagecommon "github.com/formancehq/ledger/internal/storage/common"
	storagedriver "github.com/formancehq/ledger/internal/storage/driver"
	ledgerstore "github.com/formancehq/ledger/internal/storage/ledger"
	systemstore "github.com/formancehq/ledger/internal/storage/system"
	"github.com/formancehq/ledger/internal/verif/gen"
	"github.com/formancehq/ledger/internal/verif/pgfake"
)

type env struct {
	srv   *pgfake.Server
	sys   *systemcontroller.DefaultController
	cases int
}

var (
	cur           *env
	ledgerCounter int
)

func lpgPath() string {
	if p := os.Getenv("VERIF_LPG"); p != "" {
		return p
	}
	return pgfake.DefaultLpgPath()
}

// getEnv returns a server; a fresh one every `every` cases (all ledgers of a server share the
// bucket's tables, so statements slow down as ledgers accumulate).
func getEnv(every int) (*env, error) {
	if cur != nil && cur.cases >= every {
		cur.srv.Close()
		cur = nil
	}
	if cur != nil {
		cur.cases++
		return cur, nil
	}
	var srv *pgfake.Server
	var err error
	// the LeanPG executable may be in the middle of being re-linked by a concurrent check: retry
	for attempt := 0; attempt < 10; attempt++ {
		if srv, err = pgfake.Start(lpgPath()); err == nil {
			break
		}
		time.Sleep(3 * time.Second)
	}
	if err != nil {
		return nil, fmt.Errorf("LeanPG not available (lake build ldriver_sql): %w", err)
	}
	db := srv.DB()
	d := storagedriver.New(db, ledgerstore.NewFactory(db), bucket.NewDefaultFactory(), systemstore.NewStoreFactory())
	parser := ledgercontroller.NewDefaultNumscriptParser()
	sys := systemcontroller.NewDefaultController(
		systemcontroller.NewControllerStorageDriverAdapter(d, systemstore.New(db)), nil, nil,
		systemcontroller.WithParser(parser, parser, ledgercontroller.NewInterpreterNumscriptParser(nil)),
		systemcontroller.WithEnableFeatures(true),
	)
	cur = &env{srv: srv, sys: sys, cases: 1}
	return cur, nil
}

func closeEnv() {
	if cur != nil {
		cur.srv.Close()
		cur = nil
	}
}

// ---------------------------------------------------------------------------
// case format
// ---------------------------------------------------------------------------

type jPosting struct {
	Source      string `json:"source"`
	Destination string `json:"destination"`
	Amount      string `json:"amount"`
	Asset       string `json:"asset"`
}

// Step is either a write (Op != "", shape of lean/Ledger/Spec/README.md plus "schema") or a
// read (Q != "").
type Step struct {
	// ---- write
	Op              string                       `json:"op,omitempty"`
	At              int64                        `json:"at"`
	Timestamp       *int64                       `json:"timestamp,omitempty"`
	Postings        []jPosting                   `json:"postings,omitempty"`
	Reference       string                       `json:"reference,omitempty"`
	Metadata        map[string]string            `json:"metadata,omitempty"`
	AccountMetadata map[string]map[string]string `json:"accountMetadata,omitempty"`
	Force           bool                         `json:"force"`
	ID              uint64                       `json:"id,omitempty"`
	AtEffectiveDate bool                         `json:"atEffectiveDate"`
	Target          map[string]any               `json:"target,omitempty"`
	Key             string                       `json:"key,omitempty"`
	// schema: version + query templates
	Version string                     `json:"version,omitempty"`
	Queries map[string]json.RawMessage `json:"queries,omitempty"`
	// ---- read
	Q *Query `json:"q,omitempty"`
}

type In struct {
	Workload string `json:"workload"`
	// Prop: the property whose predicates the Lean handler evaluates on the real answers
	Prop     string            `json:"prop,omitempty"`
	Features map[string]string `json:"features"`
	// Sibling: another ledger with overlapping accounts / references / metadata lives in the same
	// bucket (so the store is not "alone in bucket" and every statement must scope by ledger)
	Sibling bool   `json:"sibling,omitempty"`
	Steps   []Step `json:"steps"`
}

type Out struct {
	// Results: outcome enum per write step, in order
	Results []string `json:"results"`
	// Answers: canonical answer per read step, in order
	Answers []any  `json:"answers"`
	Err     string `json:"err,omitempty"`
}

// ---------------------------------------------------------------------------
// helpers
// ---------------------------------------------------------------------------

func micros(us int64) libtime.Time { return libtime.New(time.UnixMicro(us).UTC()) }

func usOf(t libtime.Time) int64 { return t.UnixMicro() }

func mdOf(m map[string]string) metadata.Metadata {
	ret := metadata.Metadata{}
	for k, v := range m {
		ret[k] = v
	}
	return ret
}

func bigOf(s string) *big.Int {
	v, ok := new(big.Int).SetString(s, 10)
	if !ok {
		return big.NewInt(0)
	}
	return v
}

func toPostings(ps []jPosting) ledger.Postings {
	ret := make(ledger.Postings, 0, len(ps))
	for _, p := range ps {
		ret = append(ret, ledger.NewPosting(p.Source, p.Destination, p.Asset, bigOf(p.Amount)))
	}
	return ret
}

func classifyErr(err error) string {
	var pge interface{ SQLState() string }
	var missing ledgerstore.ErrMissingFeature
	var invalidQuery storagecommon.ErrInvalidQuery
	switch {
	case err == nil:
		return "ok"
	case errors.Is(err, ledgercontroller.ErrAlreadyReverted{}):
		return "already-reverted"
	case errors.Is(err, &machine.ErrInsufficientFund{}):
		return "insufficient-funds"
	case errors.Is(err, ledgercontroller.ErrNoPostings):
		return "no-postings"
	case errors.Is(err, ledgerstore.ErrTransactionReferenceConflict{}), errors.Is(err, ledgercontroller.ErrTransactionReferenceConflict{}):
		return "reference-conflict"
	case errors.Is(err, postgres.ErrNotFound), errors.Is(err, ledgercontroller.ErrNotFound):
		return "not-found"
	case errors.As(err, &missing):
		return "missing-feature"
	case errors.As(err, &invalidQuery):
		return "invalid-query"
	case errors.As(err, &pge):
		return "pg:" + pge.SQLState()
	default:
		s := err.Error()
		switch {
		case strings.Contains(s, "insufficient fund"):
			return "insufficient-funds"
		case strings.Contains(s, "missing feature"):
			return "missing-feature"
		}
		if len(s) > 160 {
			s = s[:160]
		}
		return "other: " + s
	}
}

// ---------------------------------------------------------------------------
// running a case
// ---------------------------------------------------------------------------

type runner struct {
	e    *env
	ctx  context.Context
	ctrl ledgercontroller.Controller
	name string
}

// populateSibling creates a second ledger in the same bucket and writes to the same accounts,
// assets, reference and metadata keys the workloads use.
func populateSibling(e *env, features map[string]string) error {
	ctx := context.Background()
	ledgerCounter++
	name := fmt.Sprintf("sib%d", ledgerCounter)
	cfg := ledger.NewDefaultConfiguration()
	for k, v := range features {
		cfg.Features = cfg.Features.With(k, v)
	}
	if err := e.sys.CreateLedger(ctx, name, cfg); err != nil {
		return err
	}
	ctrl, err := e.sys.GetLedgerController(ctx, name)
	if err != nil {
		return err
	}
	r := &runner{e: e, ctx: ctx, ctrl: ctrl, name: name}
	past := timeGrid[1]
	// every (account, asset) pair of the universe holds a huge balance in the sibling: a balance
	// read that leaks across ledgers turns an insufficient-funds outcome into a success
	var rich []jPosting
	for _, a := range accounts[1:] {
		for _, as := range assets {
			rich = append(rich, jPosting{Source: "world", Destination: a, Amount: "10000000000000000000000000000000000000000", Asset: as})
		}
	}
	if res := r.runOp(&Step{Op: "tx", Postings: rich}); res != "ok" {
		return fmt.Errorf("sibling ledger: %s", res)
	}
	for _, s := range []Step{
		{Op: "tx", Postings: []jPosting{{Source: "world", Destination: "users:alice", Amount: "1000000", Asset: "EUR"}, {Source: "world", Destination: "bank", Amount: "500000", Asset: "USD/2"}}, Metadata: map[string]string{"k": "v"}, Reference: "r1", Timestamp: &past},
		{Op: "tx", Postings: []jPosting{{Source: "world", Destination: "users:bob", Amount: "77777", Asset: "COIN"}, {Source: "world", Destination: "orders:1:pending", Amount: "9", Asset: "COIN"}}, Metadata: map[string]string{"tier": "gold"}, AccountMetadata: map[string]map[string]string{"users:bob": {"k": "sib"}}},
		{Op: "saveMeta", Target: map[string]any{"account": "bank"}, Metadata: map[string]string{"tier": "sib", "zz": "1"}},
		{Op: "revert", ID: 3, Force: true},
	} {
		st := s
		if res := r.runOp(&st); res != "ok" {
			return fmt.Errorf("sibling ledger: %s", res)
		}
	}
	return nil
}

func newRunner(features map[string]string) (*runner, error) {
	e, err := getEnv(1) // a fresh server per case: the logical clock restarts, so a replay allots the same dates
	if err != nil {
		return nil, err
	}
	ctx := context.Background()
	ledgerCounter++
	name := fmt.Sprintf("r%d", ledgerCounter)
	cfg := ledger.NewDefaultConfiguration()
	for k, v := range features {
		cfg.Features = cfg.Features.With(k, v)
	}
	if err := e.sys.CreateLedger(ctx, name, cfg); err != nil {
		return nil, fmt.Errorf("CreateLedger: %w", err)
	}
	ctrl, err := e.sys.GetLedgerController(ctx, name)
	if err != nil {
		return nil, fmt.Errorf("GetLedgerController: %w", err)
	}
	return &runner{e: e, ctx: ctx, ctrl: ctrl, name: name}, nil
}

// newRunnerFor: the runner of a case, after its sibling ledger (if any).
func newRunnerFor(in *In) (*runner, error) {
	if in.Sibling {
		e, err := getEnv(1)
		if err != nil {
			return nil, err
		}
		if err := populateSibling(e, in.Features); err != nil {
			return nil, err
		}
		e.cases = 0 // the case's own ledger lives on the same server
	}
	return newRunner(in.Features)
}

// runOp executes one write through the real controller; fills the dates the database allotted.
func (r *runner) runOp(s *Step) string {
	var err error
	switch s.Op {
	case "tx":
		td := ledger.TransactionData{Postings: toPostings(s.Postings), Metadata: mdOf(s.Metadata), Reference: s.Reference}
		if s.Timestamp != nil {
			td.Timestamp = micros(*s.Timestamp)
		}
		in := ledgercontroller.CreateTransaction{RunScript: ledgercontroller.TxToScriptData(td, s.Force)}
		if len(s.AccountMetadata) > 0 {
			in.AccountMetadata = map[string]metadata.Metadata{}
			for a, m := range s.AccountMetadata {
				in.AccountMetadata[a] = mdOf(m)
			}
		}
		var log *ledger.Log
		var created *ledger.CreatedTransaction
		log, created, _, err = r.ctrl.CreateTransaction(r.ctx, ledgercontroller.Parameters[ledgercontroller.CreateTransaction]{Input: in})
		if err == nil {
			s.At = usOf(created.Transaction.InsertedAt)
			_ = log
		}
	case "revert":
		var rev *ledger.RevertedTransaction
		_, rev, _, err = r.ctrl.RevertTransaction(r.ctx, ledgercontroller.Parameters[ledgercontroller.RevertTransaction]{
			Input: ledgercontroller.RevertTransaction{Force: s.Force, AtEffectiveDate: s.AtEffectiveDate, TransactionID: s.ID, Metadata: mdOf(s.Metadata)},
		})
		if err == nil {
			s.At = usOf(*rev.RevertedTransaction.RevertedAt)
		}
	case "saveMeta":
		var log *ledger.Log
		if a, ok := s.Target["account"].(string); ok {
			log, _, err = r.ctrl.SaveAccountMetadata(r.ctx, ledgercontroller.Parameters[ledgercontroller.SaveAccountMetadata]{
				Input: ledgercontroller.SaveAccountMetadata{Address: a, Metadata: mdOf(s.Metadata)}})
		} else {
			log, _, err = r.ctrl.SaveTransactionMetadata(r.ctx, ledgercontroller.Parameters[ledgercontroller.SaveTransactionMetadata]{
				Input: ledgercontroller.SaveTransactionMetadata{TransactionID: targetTx(s.Target), Metadata: mdOf(s.Metadata)}})
		}
		if err == nil && log != nil {
			s.At = usOf(log.Date)
		}
	case "deleteMeta":
		var log *ledger.Log
		if a, ok := s.Target["account"].(string); ok {
			log, _, err = r.ctrl.DeleteAccountMetadata(r.ctx, ledgercontroller.Parameters[ledgercontroller.DeleteAccountMetadata]{
				Input: ledgercontroller.DeleteAccountMetadata{Address: a, Key: s.Key}})
		} else {
			log, _, err = r.ctrl.DeleteTransactionMetadata(r.ctx, ledgercontroller.Parameters[ledgercontroller.DeleteTransactionMetadata]{
				Input: ledgercontroller.DeleteTransactionMetadata{TransactionID: targetTx(s.Target), Key: s.Key}})
		}
		if err == nil && log != nil {
			s.At = usOf(log.Date)
		}
	case "schema":
		var log *ledger.Log
		data := ledger.SchemaData{Chart: ledger.ChartOfAccounts{}, Queries: ledger.QueryTemplates{}}
		for id, raw := range s.Queries {
			var qt ledger.QueryTemplate
			if e := json.Unmarshal(raw, &qt); e != nil {
				return "other: bad template: " + e.Error()
			}
			data.Queries[id] = qt
		}
		log, _, _, err = r.ctrl.InsertSchema(r.ctx, ledgercontroller.Parameters[ledgercontroller.InsertSchema]{
			Input: ledgercontroller.InsertSchema{Version: s.Version, Data: data}})
		if err == nil && log != nil {
			s.At = usOf(log.Date)
		}
	default:
		return "other: unknown op " + s.Op
	}
	return classifyErr(err)
}

func targetTx(t map[string]any) uint64 {
	switch v := t["tx"].(type) {
	case float64:
		return uint64(v)
	case int:
		return uint64(v)
	case uint64:
		return v
	}
	return 0
}

// runCase executes the steps; the write steps get their dates filled in.
func runCase(in *In) Out {
	out := Out{Results: []string{}, Answers: []any{}}
	r, err := newRunnerFor(in)
	if err != nil {
		out.Err = err.Error()
		return out
	}
	for i := range in.Steps {
		s := &in.Steps[i]
		if s.Q != nil {
			var ans any
			if p := gen.Guard(func() { ans = r.runQuery(s.Q) }); p != "" {
				ans = map[string]any{"panic": p}
			}
			out.Answers = append(out.Answers, ans)
			continue
		}
		res := ""
		if p := gen.Guard(func() { res = r.runOp(s) }); p != "" {
			res = p
		}
		out.Results = append(out.Results, res)
	}
	return out
}
