//go:build verif

package wlreads

import (
	"encoding/json"
	"fmt"
	"os"
	"sort"
	"strings"

	"github.com/formancehq/ledger/internal/verif/gen"
)

// ---- universe -------------------------------------------------------------------------------

const clockBase = int64(1700000000000000) // LeanPG's logical clock starts here (µs), +1 ms per statement

var (
	accounts     = []string{"world", "bank", "users:alice", "users:bob", "users:alice:savings", "orders:1:pending"}
	neverUsed    = "never:used"
	metaOnlyAcct = "meta:only"
	assets       = []string{"USD/2", "EUR", "COIN"}
	// 6-point grid: far past, past (twice → ties), just after the clock base (overtaken by the
	// logical clock during a run), near future, far future
	timeGrid = []int64{
		clockBase - 86400_000000,
		clockBase - 3600_000000,
		clockBase + 2_000000,
		clockBase + 60_000000,
		clockBase + 3600_000000,
		clockBase + 315360000_000000,
	}
	metaPool = []map[string]string{
		{"k": "v"}, {"k": "w", "x": ""}, {"tier": "gold"}, {"role": "a\"b"}, {"k": "é<&>"}, {"tier": "silver", "k": "v"}, {},
	}
	metaKeys   = []string{"k", "tier", "x", "role", "zz"}
	references = []string{"r1", "r2", "ref \"q\"", "réf"}
)

type featureSet struct {
	name string
	set  map[string]string
}

var featureSets = []featureSet{
	{"default", map[string]string{}},
	{"amh-off", map[string]string{"ACCOUNT_METADATA_HISTORY": "DISABLED"}},
	{"tmh-off", map[string]string{"TRANSACTION_METADATA_HISTORY": "DISABLED"}},
	{"mh-off", map[string]string{"ACCOUNT_METADATA_HISTORY": "DISABLED", "TRANSACTION_METADATA_HISTORY": "DISABLED"}},
	{"pcev-off", map[string]string{"MOVES_HISTORY_POST_COMMIT_EFFECTIVE_VOLUMES": "DISABLED"}},
	{"moves-off", map[string]string{"MOVES_HISTORY": "OFF", "MOVES_HISTORY_POST_COMMIT_EFFECTIVE_VOLUMES": "DISABLED"}},
	{"moves-off-pcev-sync", map[string]string{"MOVES_HISTORY": "OFF"}},
}

func pickFeatures(c *gen.Ctx) map[string]string {
	r := c.R
	var fs featureSet
	if r.Intn(3) == 0 {
		fs = featureSets[0]
	} else {
		fs = gen.Pick(r, featureSets)
	}
	ret := map[string]string{
		"MOVES_HISTORY": "ON", "MOVES_HISTORY_POST_COMMIT_EFFECTIVE_VOLUMES": "SYNC",
		"ACCOUNT_METADATA_HISTORY": "SYNC", "TRANSACTION_METADATA_HISTORY": "SYNC", "HASH_LOGS": "DISABLED",
	}
	if r.Intn(4) == 0 {
		ret["HASH_LOGS"] = "SYNC"
	}
	for k, v := range fs.set {
		ret[k] = v
	}
	return ret
}

func hasMoves(f map[string]string) bool { return f["MOVES_HISTORY"] == "ON" }
func hasPCEV(f map[string]string) bool {
	return f["MOVES_HISTORY_POST_COMMIT_EFFECTIVE_VOLUMES"] == "SYNC"
}

// ---- history generator ----------------------------------------------------------------------

func genAmount(c *gen.Ctx) string {
	r := c.R
	switch r.Intn(8) {
	case 0:
		return "0"
	case 1, 2, 3:
		return gen.BigAmount(r).String()
	default:
		return []string{"1", "5", "10", "25", "100", "1000"}[r.Intn(6)]
	}
}

func genPostings(c *gen.Ctx) []jPosting {
	r := c.R
	n := 1 + r.Intn(3)
	ps := make([]jPosting, 0, n)
	for i := 0; i < n; i++ {
		src := gen.Pick(r, accounts)
		if r.Intn(3) == 0 {
			src = "world"
		}
		dst := gen.Pick(r, accounts[1:])
		ps = append(ps, jPosting{Source: src, Destination: dst, Amount: genAmount(c), Asset: gen.Pick(r, assets)})
	}
	return ps
}

// genHistory draws a sequential history of writes (≈25 % meant to fail).
func genHistory(c *gen.Ctx) []Step {
	r := c.R
	n := 5 + r.Intn(8)
	if c.Wide {
		n = 6 + r.Intn(24)
	}
	steps := make([]Step, 0, n)
	txs := 0 // optimistic count of committed transactions
	for i := 0; i < n; i++ {
		switch k := r.Intn(20); {
		case k < 10 || txs == 0:
			op := Step{Op: "tx", Postings: genPostings(c), Metadata: gen.Pick(r, metaPool), Force: r.Intn(3) != 0}
			if r.Intn(5) < 3 {
				ts := gen.Pick(r, timeGrid)
				op.Timestamp = &ts
			}
			if r.Intn(4) == 0 {
				op.Reference = gen.Pick(r, references)
			}
			if r.Intn(4) == 0 {
				op.AccountMetadata = map[string]map[string]string{gen.Pick(r, []string{"bank", "users:alice", metaOnlyAcct, "users:bob"}): gen.Pick(r, metaPool[:6])}
			}
			steps = append(steps, op)
			txs++
		case k < 14:
			steps = append(steps, Step{Op: "revert", ID: uint64(1 + r.Intn(txs+1)), Force: r.Intn(2) == 0,
				AtEffectiveDate: r.Intn(2) == 0, Metadata: gen.Pick(r, metaPool)})
			txs++
		case k < 17:
			var target map[string]any
			if r.Intn(2) == 0 {
				target = map[string]any{"account": gen.Pick(r, []string{"bank", "users:alice", "users:bob", "fresh:acct", "world", metaOnlyAcct})}
			} else {
				target = map[string]any{"tx": 1 + r.Intn(txs+1)}
			}
			steps = append(steps, Step{Op: "saveMeta", Target: target, Metadata: gen.Pick(r, metaPool[:6])})
		default:
			var target map[string]any
			if r.Intn(2) == 0 {
				target = map[string]any{"account": gen.Pick(r, []string{"bank", "users:alice", "users:bob", neverUsed, metaOnlyAcct})}
			} else {
				target = map[string]any{"tx": 1 + r.Intn(txs+1)}
			}
			steps = append(steps, Step{Op: "deleteMeta", Target: target, Key: gen.Pick(r, metaKeys)})
		}
	}
	return steps
}

// ---- instants --------------------------------------------------------------------------------

// recordedDates: every date the history has recorded so far (transaction timestamps and the
// logical dates of the writes).
func recordedDates(steps []Step) []int64 {
	seen := map[int64]bool{}
	for _, s := range steps {
		if s.Op == "" {
			continue
		}
		if s.At != 0 {
			seen[s.At] = true
		}
		if s.Timestamp != nil {
			seen[*s.Timestamp] = true
		}
	}
	ret := make([]int64, 0, len(seen))
	for d := range seen {
		ret = append(ret, d)
	}
	sort.Slice(ret, func(i, j int) bool { return ret[i] < ret[j] })
	return ret
}

// instants: before all, exactly on recorded dates, between, after.
func instants(c *gen.Ctx, steps []Step, k int) []int64 {
	r := c.R
	ds := recordedDates(steps)
	if len(ds) == 0 {
		return []int64{clockBase}
	}
	ret := []int64{ds[0] - 1_000000, ds[len(ds)-1] + 1_000000}
	for i := 0; i < k; i++ {
		d := gen.Pick(r, ds)
		switch r.Intn(4) {
		case 0:
			ret = append(ret, d+500) // between two logical dates
		case 1:
			ret = append(ret, d-1)
		default:
			ret = append(ret, d)
		}
	}
	return ret
}

func ptr[T any](v T) *T { return &v }

func rawJSON(v any) json.RawMessage {
	b, err := json.Marshal(v)
	if err != nil {
		panic(err)
	}
	return b
}

// ---- workload plumbing ----------------------------------------------------------------------

// injector adds read steps after the write with index i of the history (-1 = before all), given
// the steps executed so far (dates filled in).
type injector func(c *gen.Ctx, features map[string]string, done []Step, last bool) []Step

// runInterleaved executes the history, calling inject at the checkpoints (dates of earlier
// writes are known then), and returns the complete case.
func runInterleaved(c *gen.Ctx, workload string, features map[string]string, hist []Step, checkpoints map[int]bool, inject injector) (In, Out) {
	in := In{Workload: workload, Prop: os.Getenv("VERIF_READS_PROP"), Features: features, Sibling: c.R.Intn(2) == 0}
	out := Out{Results: []string{}, Answers: []any{}}
	r, err := newRunnerFor(&in)
	if err != nil {
		out.Err = err.Error()
		return in, out
	}
	exec := func(s Step) {
		in.Steps = append(in.Steps, s)
		sp := &in.Steps[len(in.Steps)-1]
		if sp.Q != nil {
			var ans any
			if p := gen.Guard(func() { ans = r.runQuery(sp.Q) }); p != "" {
				ans = map[string]any{"panic": p}
			}
			out.Answers = append(out.Answers, ans)
			return
		}
		res := ""
		r.e.srv.ResetLog()
		if p := gen.Guard(func() { res = r.runOp(sp) }); p != "" {
			res = p
		}
		if os.Getenv("VERIF_READS_SQL") != "" && (strings.HasPrefix(res, "pg:") || strings.HasPrefix(res, "other")) {
			for _, st := range r.e.srv.Log() {
				if st.Err != "" {
					fmt.Fprintf(os.Stderr, "OPSQL[%s] %s\n", st.Err, st.SQL)
				}
			}
		}
		out.Results = append(out.Results, res)
	}
	if in.Sibling {
		// probes of balance scoping: one funded source and one source that is only funded in the
		// sibling ledger, without overdraft → insufficient funds
		probes := []Step{
			{Op: "tx", Postings: []jPosting{{Source: "world", Destination: "bank", Amount: "100", Asset: "USD/2"}, {Source: "world", Destination: "users:bob", Amount: "100", Asset: "COIN"}}},
			{Op: "tx", Postings: []jPosting{{Source: "bank", Destination: "users:alice:savings", Amount: "1", Asset: "USD/2"}, {Source: "users:alice", Destination: "orders:1:pending", Amount: "5", Asset: "EUR"}}},
			{Op: "tx", Postings: []jPosting{{Source: "users:bob", Destination: "bank", Amount: "2", Asset: "COIN"}, {Source: "orders:1:pending", Destination: "bank", Amount: "3", Asset: "USD/2"}}},
		}
		hist = append(probes, hist...)
		shifted := map[int]bool{}
		for k := range checkpoints {
			shifted[k+len(probes)] = true
		}
		checkpoints = shifted
	}
	for i, s := range hist {
		exec(s)
		last := i == len(hist)-1
		if checkpoints[i] || last {
			for _, q := range inject(c, features, in.Steps, last) {
				exec(q)
			}
		}
	}
	return in, out
}

// replayCase re-runs the steps of a recorded case in order.
func replayCase(in In) (In, Out) {
	out := runCase(&in)
	return in, out
}

func registerWorkload(name string, one func(c *gen.Ctx) (In, Out)) {
	gen.Register(name, func(c *gen.Ctx) error {
		defer closeEnv()
		if c.Replay != "" {
			ins, err := c.ReplayInputs("reads")
			if err != nil {
				return err
			}
			for _, raw := range ins {
				var in In
				if err := json.Unmarshal(raw, &in); err != nil {
					return err
				}
				if in.Workload != name {
					continue
				}
				if p := os.Getenv("VERIF_READS_PROP"); p != "" {
					in.Prop = p
				}
				in2, out := replayCase(in)
				if err := c.Emit("reads", in2, out); err != nil {
					return err
				}
			}
			return nil
		}
		for i := 0; i < c.N; i++ {
			in, out := one(c)
			if err := c.Emit("reads", in, out); err != nil {
				return err
			}
		}
		return nil
	})
}

func pickCheckpoints(c *gen.Ctx, n int, k int) map[int]bool {
	ret := map[int]bool{}
	for i := 0; i < k && n > 1; i++ {
		ret[c.R.Intn(n-1)] = true
	}
	return ret
}
