//go:build verif

package wlreads

import (
	"encoding/json"
	"fmt"
	"os"
	"sort"

	"github.com/formancehq/go-libs/v5/pkg/query"
	"github.com/formancehq/go-libs/v5/pkg/storage/bun/paginate"
	libtime "github.com/formancehq/go-libs/v5/pkg/types/time"

	ledger "github.com/formancehq/ledger/internal"
	storagecommon "github.com/formancehq/ledger/internal/storage/common"
)

// Query is one read call. K:
//
//	getAccount | listAccounts | volumes | aggregated | listTransactions | getTransaction |
//	listLogs | walk (follow next to exhaustion, previous back) | runquery
type Query struct {
	K string `json:"k"`
	// walk / runquery: accounts | transactions | volumes | logs
	Res     string `json:"res,omitempty"`
	Address string `json:"address,omitempty"`
	ID      uint64 `json:"id,omitempty"`
	PIT     *int64 `json:"pit,omitempty"`
	OOT     *int64 `json:"oot,omitempty"`
	// volumes / aggregated
	InsertionDate bool            `json:"insertionDate,omitempty"`
	GroupLvl      int             `json:"groupLvl,omitempty"`
	Filter        json.RawMessage `json:"filter,omitempty"`
	Expand        []string        `json:"expand,omitempty"`
	Sort          string          `json:"sort,omitempty"`
	Order         string          `json:"order,omitempty"`
	PageSize      uint64          `json:"pageSize,omitempty"`
	// Count: also call Count* with the same resource query
	Count bool `json:"count,omitempty"`
	// runquery
	SchemaVersion string          `json:"schemaVersion,omitempty"`
	Template      string          `json:"template,omitempty"`
	Vars          map[string]VarVal `json:"vars,omitempty"`
	Params        json.RawMessage `json:"params,omitempty"`
	// Direct: the direct list query RunQuery must be equivalent to
	Direct *Query `json:"direct,omitempty"`
}

func optTime(us *int64) *libtime.Time {
	if us == nil {
		return nil
	}
	t := micros(*us)
	return &t
}

func (q *Query) builder() (query.Builder, error) {
	if len(q.Filter) == 0 || string(q.Filter) == "null" {
		return nil, nil
	}
	return query.ParseJSON(string(q.Filter))
}

func (q *Query) order() *paginate.Order {
	switch q.Order {
	case "asc":
		o := paginate.Order(paginate.OrderAsc)
		return &o
	case "desc":
		o := paginate.Order(paginate.OrderDesc)
		return &o
	}
	return nil
}

func resourceQuery[O any](q *Query, opts O) (storagecommon.ResourceQuery[O], error) {
	b, err := q.builder()
	if err != nil {
		return storagecommon.ResourceQuery[O]{}, err
	}
	exp := append([]string(nil), q.Expand...)
	return storagecommon.ResourceQuery[O]{PIT: optTime(q.PIT), OOT: optTime(q.OOT), Builder: b, Expand: exp, Opts: opts}, nil
}

func initialQuery[O any](q *Query, opts O) (storagecommon.InitialPaginatedQuery[O], error) {
	rq, err := resourceQuery(q, opts)
	if err != nil {
		return storagecommon.InitialPaginatedQuery[O]{}, err
	}
	return storagecommon.InitialPaginatedQuery[O]{Column: q.Sort, Order: q.order(), PageSize: q.PageSize, Options: rq}, nil
}

// ---- canonical forms --------------------------------------------------------------------

type cVol struct {
	Account string `json:"account,omitempty"`
	Asset   string `json:"asset"`
	Input   string `json:"input"`
	Output  string `json:"output"`
}

func canonVolumesByAssets(v ledger.VolumesByAssets) []cVol {
	if v == nil {
		return nil
	}
	ret := make([]cVol, 0, len(v))
	for asset, vv := range v {
		ret = append(ret, cVol{Asset: asset, Input: bigStr(vv.Input), Output: bigStr(vv.Output)})
	}
	sort.Slice(ret, func(i, j int) bool { return ret[i].Asset < ret[j].Asset })
	return ret
}

func canonPCV(v ledger.PostCommitVolumes) []cVol {
	if v == nil {
		return nil
	}
	ret := make([]cVol, 0)
	for account, byAsset := range v {
		for asset, vv := range byAsset {
			ret = append(ret, cVol{Account: account, Asset: asset, Input: bigStr(vv.Input), Output: bigStr(vv.Output)})
		}
	}
	sort.Slice(ret, func(i, j int) bool {
		if ret[i].Account != ret[j].Account {
			return ret[i].Account < ret[j].Account
		}
		return ret[i].Asset < ret[j].Asset
	})
	return ret
}

func bigStr(v interface{ String() string }) string {
	if v == nil {
		return "nil"
	}
	defer func() { _ = recover() }()
	return v.String()
}

func strMap(m map[string]string) map[string]string {
	ret := map[string]string{}
	for k, v := range m {
		ret[k] = v
	}
	return ret
}

func optUs(t *libtime.Time) any {
	if t == nil {
		return nil
	}
	return t.UnixMicro()
}

func canonAccount(a ledger.Account) map[string]any {
	ret := map[string]any{
		"address":       a.Address,
		"metadata":      strMap(a.Metadata),
		"firstUsage":    usOf(a.FirstUsage),
		"insertionDate": usOf(a.InsertionDate),
		"updatedAt":     usOf(a.UpdatedAt),
	}
	if a.Volumes != nil {
		ret["volumes"] = canonVolumesByAssets(a.Volumes)
	}
	if a.EffectiveVolumes != nil {
		ret["effectiveVolumes"] = canonVolumesByAssets(a.EffectiveVolumes)
	}
	return ret
}

func canonTx(t ledger.Transaction) map[string]any {
	ps := make([]jPosting, 0, len(t.Postings))
	for _, p := range t.Postings {
		ps = append(ps, jPosting{Source: p.Source, Destination: p.Destination, Amount: p.Amount.String(), Asset: p.Asset})
	}
	var id any
	if t.ID != nil {
		id = *t.ID
	}
	ret := map[string]any{
		"id":         id,
		"postings":   ps,
		"timestamp":  usOf(t.Timestamp),
		"insertedAt": usOf(t.InsertedAt),
		"updatedAt":  usOf(t.UpdatedAt),
		"reference":  t.Reference,
		"metadata":   strMap(t.Metadata),
		"revertedAt": optUs(t.RevertedAt),
	}
	if t.PostCommitVolumes != nil {
		ret["pcv"] = canonPCV(t.PostCommitVolumes)
	}
	if t.PostCommitEffectiveVolumes != nil {
		ret["pcev"] = canonPCV(t.PostCommitEffectiveVolumes)
	}
	return ret
}

func canonVolRow(v ledger.VolumesWithBalanceByAssetByAccount) map[string]any {
	return map[string]any{"account": v.Account, "asset": v.Asset, "input": bigStr(v.Input), "output": bigStr(v.Output), "balance": bigStr(v.Balance)}
}

func canonLog(l ledger.Log) map[string]any {
	var id any
	if l.ID != nil {
		id = *l.ID
	}
	return map[string]any{"id": id, "type": l.Type.String(), "date": usOf(l.Date)}
}

func cursorAnswer[T any](c *paginate.Cursor[T], canon func(T) map[string]any) map[string]any {
	data := make([]map[string]any, 0, len(c.Data))
	for _, d := range c.Data {
		data = append(data, canon(d))
	}
	return map[string]any{"data": data, "hasMore": c.HasMore, "pageSize": c.PageSize, "next": c.Next != "", "previous": c.Previous != ""}
}

// ---- execution -----------------------------------------------------------------------------

func errAnswer(err error) map[string]any {
	return map[string]any{"err": classifyErr(err)}
}

// ties reports whether LeanPG flagged a statement since the mark as depending on tie order.
func (r *runner) markLog() { r.e.srv.ResetLog() }
func (r *runner) ties() bool {
	for _, st := range r.e.srv.Log() {
		if os.Getenv("VERIF_READS_SQL") != "" {
			fmt.Fprintf(os.Stderr, "SQL[%s tie=%v] %s\n", st.Err, st.TieSensitive, st.SQL)
		}
		if st.TieSensitive {
			return true
		}
	}
	return false
}

func (r *runner) runQuery(q *Query) any {
	r.markLog()
	ans := r.runQuery1(q)
	if r.ties() {
		ans["ties"] = true
	}
	return ans
}

func (r *runner) runQuery1(q *Query) map[string]any {
	switch q.K {
	case "getAccount":
		rq, err := resourceQuery[any](q, nil)
		if err != nil {
			return errAnswer(err)
		}
		rq.Builder = query.Match("address", q.Address)
		a, err := r.ctrl.GetAccount(r.ctx, rq)
		if err != nil {
			return errAnswer(err)
		}
		return map[string]any{"account": canonAccount(*a)}
	case "getTransaction":
		rq, err := resourceQuery[any](q, nil)
		if err != nil {
			return errAnswer(err)
		}
		rq.Builder = query.Match("id", q.ID)
		t, err := r.ctrl.GetTransaction(r.ctx, rq)
		if err != nil {
			return errAnswer(err)
		}
		return map[string]any{"transaction": canonTx(*t)}
	case "aggregated":
		rq, err := resourceQuery(q, ledger.GetAggregatedVolumesOptions{UseInsertionDate: q.InsertionDate})
		if err != nil {
			return errAnswer(err)
		}
		b, err := r.ctrl.GetAggregatedBalances(r.ctx, rq)
		if err != nil {
			return errAnswer(err)
		}
		ret := map[string]string{}
		for asset, v := range b {
			ret[asset] = bigStr(v)
		}
		return map[string]any{"balances": ret}
	case "listAccounts", "listTransactions", "listLogs", "volumes":
		ans, _ := r.page(q.K, q, nil)
		if q.Count && ans["err"] == nil {
			n, err := r.count(q)
			if err != nil {
				ans["count"] = classifyErr(err)
			} else {
				ans["count"] = n
			}
		}
		return ans
	case "walk":
		return r.walk(q)
	case "runquery":
		return r.runquery(q)
	}
	return map[string]any{"err": "other: unknown query " + q.K}
}

func (r *runner) count(q *Query) (int, error) {
	switch q.K {
	case "listAccounts":
		rq, err := resourceQuery[any](q, nil)
		if err != nil {
			return 0, err
		}
		return r.ctrl.CountAccounts(r.ctx, rq)
	case "listTransactions":
		rq, err := resourceQuery[any](q, nil)
		if err != nil {
			return 0, err
		}
		return r.ctrl.CountTransactions(r.ctx, rq)
	}
	return 0, fmt.Errorf("no count for %s", q.K)
}

// page fetches one page: the initial query when cursor == nil, else the decoded cursor (through
// the real UnmarshalCursor). Returns the canonical answer and the raw next / previous cursors.
func (r *runner) page(kind string, q *Query, cursor *string) (map[string]any, [2]string) {
	switch kind {
	case "listAccounts":
		var pq storagecommon.PaginatedQuery[any]
		if cursor == nil {
			iq, err := initialQuery[any](q, nil)
			if err != nil {
				return errAnswer(err), [2]string{}
			}
			pq = iq
		} else {
			var err error
			if pq, err = storagecommon.UnmarshalCursor[any](*cursor); err != nil {
				return map[string]any{"err": "cursor: " + err.Error()}, [2]string{}
			}
		}
		c, err := r.ctrl.ListAccounts(r.ctx, pq)
		if err != nil {
			return errAnswer(err), [2]string{}
		}
		return cursorAnswer(c, canonAccount), [2]string{c.Next, c.Previous}
	case "listTransactions":
		var pq storagecommon.PaginatedQuery[any]
		if cursor == nil {
			iq, err := initialQuery[any](q, nil)
			if err != nil {
				return errAnswer(err), [2]string{}
			}
			pq = iq
		} else {
			var err error
			if pq, err = storagecommon.UnmarshalCursor[any](*cursor); err != nil {
				return map[string]any{"err": "cursor: " + err.Error()}, [2]string{}
			}
		}
		c, err := r.ctrl.ListTransactions(r.ctx, pq)
		if err != nil {
			return errAnswer(err), [2]string{}
		}
		return cursorAnswer(c, canonTx), [2]string{c.Next, c.Previous}
	case "listLogs":
		var pq storagecommon.PaginatedQuery[any]
		if cursor == nil {
			iq, err := initialQuery[any](q, nil)
			if err != nil {
				return errAnswer(err), [2]string{}
			}
			pq = iq
		} else {
			var err error
			if pq, err = storagecommon.UnmarshalCursor[any](*cursor); err != nil {
				return map[string]any{"err": "cursor: " + err.Error()}, [2]string{}
			}
		}
		c, err := r.ctrl.ListLogs(r.ctx, pq)
		if err != nil {
			return errAnswer(err), [2]string{}
		}
		return cursorAnswer(c, canonLog), [2]string{c.Next, c.Previous}
	case "volumes":
		var pq storagecommon.PaginatedQuery[ledger.GetVolumesOptions]
		if cursor == nil {
			iq, err := initialQuery(q, ledger.GetVolumesOptions{UseInsertionDate: q.InsertionDate, GroupLvl: q.GroupLvl})
			if err != nil {
				return errAnswer(err), [2]string{}
			}
			pq = iq
		} else {
			var err error
			if pq, err = storagecommon.UnmarshalCursor[ledger.GetVolumesOptions](*cursor); err != nil {
				return map[string]any{"err": "cursor: " + err.Error()}, [2]string{}
			}
		}
		c, err := r.ctrl.GetVolumesWithBalances(r.ctx, pq)
		if err != nil {
			return errAnswer(err), [2]string{}
		}
		return cursorAnswer(c, canonVolRow), [2]string{c.Next, c.Previous}
	}
	return map[string]any{"err": "other: unknown list " + kind}, [2]string{}
}

func listKind(res string) string {
	switch res {
	case "accounts":
		return "listAccounts"
	case "transactions":
		return "listTransactions"
	case "logs":
		return "listLogs"
	}
	return "volumes"
}

// keyOf is the identity of a listed row in a walk.
func keysOf(ans map[string]any) []any {
	data, _ := ans["data"].([]map[string]any)
	keys := make([]any, 0, len(data))
	for _, d := range data {
		switch {
		case d["address"] != nil:
			keys = append(keys, d["address"])
		case d["account"] != nil:
			keys = append(keys, fmt.Sprintf("%v|%v", d["account"], d["asset"]))
		default:
			keys = append(keys, d["id"])
		}
	}
	return keys
}

type walkPage struct {
	Keys     []any `json:"keys"`
	HasMore  bool  `json:"hasMore"`
	Next     bool  `json:"next"`
	Previous bool  `json:"previous"`
}

func walkPageOf(ans map[string]any) walkPage {
	return walkPage{Keys: keysOf(ans), HasMore: ans["hasMore"] == true, Next: ans["next"] == true, Previous: ans["previous"] == true}
}

// walk follows `next` to exhaustion (through the real cursor encode / decode), then `previous`
// back from the last page.
func (r *runner) walk(q *Query) map[string]any {
	kind := listKind(q.Res)
	const maxPages = 80
	fwd := make([]walkPage, 0)
	ans, cur := r.page(kind, q, nil)
	if ans["err"] != nil {
		return ans
	}
	fwd = append(fwd, walkPageOf(ans))
	lastPrev := cur[1]
	for cur[0] != "" && len(fwd) < maxPages {
		next := cur[0]
		ans, cur = r.page(kind, q, &next)
		if ans["err"] != nil {
			return map[string]any{"err": ans["err"], "pages": fwd}
		}
		fwd = append(fwd, walkPageOf(ans))
		lastPrev = cur[1]
	}
	back := make([]walkPage, 0)
	prev := lastPrev
	for prev != "" && len(back) < maxPages {
		p := prev
		ans, cur = r.page(kind, q, &p)
		if ans["err"] != nil {
			return map[string]any{"err": ans["err"], "pages": fwd, "back": back}
		}
		back = append(back, walkPageOf(ans))
		prev = cur[1]
	}
	return map[string]any{"pages": fwd, "back": back}
}

// runquery: RunQuery with the template, following the cursor through RunQuery itself, and the
// equivalent direct list call followed through the list endpoint.
func (r *runner) runquery(q *Query) map[string]any {
	const maxPages = 40
	cfg := storagecommon.PaginationConfig{MaxPageSize: 100, DefaultPageSize: 15}
	run := make([]map[string]any, 0)
	runErr := ""
	vars := map[string]any{}
	for k, v := range q.Vars {
		vars[k] = v.goValue()
	}
	rq := storagecommon.RunQuery{Params: q.Params, Vars: vars}
	for len(run) < maxPages {
		kind, c, err := r.ctrl.RunQuery(r.ctx, q.SchemaVersion, q.Template, rq, cfg)
		if err != nil {
			runErr = classifyErr(err)
			break
		}
		data := make([]map[string]any, 0, len(c.Data))
		for _, d := range c.Data {
			switch v := d.(type) {
			case ledger.Transaction:
				data = append(data, canonTx(v))
			case ledger.Account:
				data = append(data, canonAccount(v))
			case ledger.Log:
				data = append(data, canonLog(v))
			case ledger.VolumesWithBalanceByAssetByAccount:
				data = append(data, canonVolRow(v))
			default:
				data = append(data, map[string]any{"unknown": fmt.Sprintf("%T", d)})
			}
		}
		run = append(run, map[string]any{"kind": string(*kind), "data": data, "hasMore": c.HasMore, "pageSize": c.PageSize})
		if c.Next == "" {
			break
		}
		next := c.Next
		rq = storagecommon.RunQuery{Cursor: &next}
	}
	ret := map[string]any{"run": run}
	if runErr != "" {
		ret["err"] = runErr
	}
	if q.Direct != nil {
		direct := make([]map[string]any, 0)
		kind := listKind(q.Direct.Res)
		ans, cur := r.page(kind, q.Direct, nil)
		for {
			if ans["err"] != nil {
				ret["directErr"] = ans["err"]
				break
			}
			direct = append(direct, map[string]any{"data": ans["data"], "hasMore": ans["hasMore"], "pageSize": ans["pageSize"]})
			if cur[0] == "" || len(direct) >= maxPages {
				break
			}
			next := cur[0]
			ans, cur = r.page(kind, q.Direct, &next)
		}
		ret["direct"] = direct
	}
	return ret
}
