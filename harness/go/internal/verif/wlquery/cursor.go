//go:build verif

package wlquery

import (
	"context"
	"database/sql/driver"
	"encoding/base64"
	"encoding/json"
	"errors"
	"math/big"
	"strings"

	"github.com/formancehq/go-libs/v5/pkg/query"
	"github.com/formancehq/go-libs/v5/pkg/storage/bun/paginate"
	"github.com/formancehq/ledger/internal/storage/common"
	"github.com/formancehq/ledger/internal/verif/gen"
)

// Workload "cursor": the REAL PaginatedResourceRepository.Paginate (paginator
// choice, defaulting, columnPaginator/OffsetPaginator.Paginate, BuildCursor,
// cursor encode → UnmarshalCursor) over pgHandler. Only the row fetch is
// emulated: the statement the real code rendered is captured by a recording
// database/sql driver and its WHERE / ORDER BY / LIMIT / OFFSET fragments are
// interpreted on an in-memory table (pgfetch.go).
//
// "cursor"  : walk — first page, follow `next` to exhaustion, the `previous`
//             page of every forward page, then `previous` from the last page back.
// "cursor1" : one step from a hand-made (possibly malformed) cursor object.

type curRow struct {
	Key  string `json:"key"`
	Tag  int64  `json:"tag"`
	Kind string `json:"kind"`
}

type curIn struct {
	Rows     []curRow `json:"rows"`
	Column   string   `json:"column"`
	Order    string   `json:"order"` // "asc" | "desc" | "" (nil)
	PageSize uint64   `json:"pageSize"`
	Kind     string   `json:"kind"` // "" = no filter
	// Filters is json.Marshal(ResourceQuery) of the initial query — the opaque
	// payload every cursor of the walk must carry unchanged.
	Filters json.RawMessage `json:"filters"`
}

type curPage struct {
	Data     []int64         `json:"data"`
	PageSize int             `json:"pageSize"`
	HasMore  bool            `json:"hasMore"`
	Next     json.RawMessage `json:"next"`
	Prev     json.RawMessage `json:"prev"`
	Err      string          `json:"err,omitempty"`
	// RT: UnmarshalCursor(next/prev) re-encodes to the same cursor string.
	RT bool `json:"rt"`
}

type curOut struct {
	Pages  []curPage  `json:"pages"`
	PrevOf []*curPage `json:"prevOf"`
	Back   []curPage  `json:"back"`
	Count  int        `json:"count"`
	// CountSame: Count() ran over the same filtered dataset text as Paginate().
	CountSame bool   `json:"countSame"`
	CountErr  string `json:"countErr,omitempty"`
	EmuErr    string `json:"emuErr,omitempty"`
	Panic     string `json:"panic,omitempty"`
}

func toMem(rows []curRow) []memRow {
	out := make([]memRow, 0, len(rows))
	for _, r := range rows {
		k, ok := new(big.Int).SetString(r.Key, 10)
		if !ok {
			k = big.NewInt(0)
		}
		out = append(out, memRow{Key: k, Tag: r.Tag, Kind: r.Kind})
	}
	return out
}

func classifyPagErr(err error) string {
	if err == nil {
		return ""
	}
	s := err.Error()
	switch {
	case errors.Is(err, common.ErrNotPaginatedField{}):
		return "not-paginated"
	case strings.Contains(s, "for pagination"):
		return "invalid-property"
	case strings.Contains(s, "offset value exceeds"):
		return "offset value exceeds maximum allowed value"
	case strings.Contains(s, "offset overflow"):
		return "offset overflow"
	case strings.Contains(s, "emulation:"):
		return "emulation"
	}
	return "other:" + s
}

func decodeCursorJSON(c string) json.RawMessage {
	if c == "" {
		return json.RawMessage("null")
	}
	b, err := base64.RawURLEncoding.DecodeString(c)
	if err != nil {
		return json.RawMessage(`"undecodable"`)
	}
	return json.RawMessage(b)
}

type pager struct {
	rec   *recDB
	repo  *common.PaginatedResourceRepository[pgRow, pgOpts]
	table []memRow
	emu   string
	plans []*fetchPlan
}

func newPager(table []memRow) *pager {
	rec, db := newRecBun()
	p := &pager{rec: rec, table: table}
	p.repo = common.NewPaginatedResourceRepository[pgRow, pgOpts](&pgHandler{db: db}, "id", paginate.OrderDesc)
	rec.Hook = func(s string) ([]string, [][]driver.Value, error) {
		cols, rows, plan, err := fetch(p.table, s)
		if err != nil {
			if p.emu == "" {
				p.emu = err.Error()
			}
			return nil, nil, err
		}
		p.plans = append(p.plans, plan)
		return cols, rows, nil
	}
	return p
}

func rtOK(c string) bool {
	if c == "" {
		return true
	}
	q, err := common.UnmarshalCursor[pgOpts](c)
	if err != nil {
		return false
	}
	switch v := q.(type) {
	case common.ColumnPaginatedQuery[pgOpts]:
		return paginate.EncodeCursor(v) == c
	case common.OffsetPaginatedQuery[pgOpts]:
		return paginate.EncodeCursor(v) == c
	}
	return false
}

// step runs one real Paginate and canonicalises the page.
func (p *pager) step(q common.PaginatedQuery[pgOpts]) (page curPage, next, prev string) {
	var cur *paginate.Cursor[pgRow]
	var err error
	pan := gen.Guard(func() { cur, err = p.repo.Paginate(context.Background(), q) })
	if pan != "" {
		page.Err = canonPanic(pan)
		return
	}
	if err != nil {
		page.Err = classifyPagErr(err)
		return
	}
	page.Data = make([]int64, 0, len(cur.Data))
	for _, r := range cur.Data {
		page.Data = append(page.Data, r.Tag)
	}
	page.PageSize = cur.PageSize
	page.HasMore = cur.HasMore
	page.Next = decodeCursorJSON(cur.Next)
	page.Prev = decodeCursorJSON(cur.Previous)
	page.RT = rtOK(cur.Next) && rtOK(cur.Previous)
	return page, cur.Next, cur.Previous
}

func canonPanic(s string) string {
	switch {
	case strings.Contains(s, "nil pointer"):
		return "panic: nil"
	case strings.Contains(s, "index out of range"):
		return "panic: index out of range"
	case strings.Contains(s, "should not happen"):
		return "panic: should not happen"
	}
	return s
}

func follow(p *pager, cursor string) (curPage, string, string) {
	q, err := common.UnmarshalCursor[pgOpts](cursor)
	if err != nil {
		return curPage{Err: "cursor:" + err.Error()}, "", ""
	}
	return p.step(q)
}

func initialQuery(in curIn) common.InitialPaginatedQuery[pgOpts] {
	q := common.InitialPaginatedQuery[pgOpts]{Column: in.Column, PageSize: in.PageSize}
	switch in.Order {
	case "asc":
		o := paginate.Order(paginate.OrderAsc)
		q.Order = &o
	case "desc":
		o := paginate.Order(paginate.OrderDesc)
		q.Order = &o
	}
	q.Options.Opts = pgOpts{Note: "n"}
	if in.Kind != "" {
		q.Options.Builder = query.Match("kind", in.Kind)
	}
	return q
}

func runCursorWalk(in curIn) (out curOut) {
	out.Panic = gen.Guard(func() {
		p := newPager(toMem(in.Rows))
		limit := len(in.Rows) + 4
		q0 := initialQuery(in)
		page, next, pv0 := p.step(q0)
		out.Pages = append(out.Pages, page)
		prevs := []string{pv0}
		for next != "" && len(out.Pages) < limit {
			var pv string
			page, next, pv = follow(p, next)
			out.Pages = append(out.Pages, page)
			prevs = append(prevs, pv)
			if page.Err != "" {
				break
			}
		}
		// the previous page of every forward page
		for _, pv := range prevs {
			if pv == "" {
				out.PrevOf = append(out.PrevOf, nil)
				continue
			}
			pg, _, _ := follow(p, pv)
			out.PrevOf = append(out.PrevOf, &pg)
		}
		// from the last page, follow previous back
		back := prevs[len(prevs)-1]
		for back != "" && len(out.Back) < limit {
			var pg curPage
			pg, _, back = follow(p, back)
			out.Back = append(out.Back, pg)
			if pg.Err != "" {
				break
			}
		}
		// Count over the same resource query
		p.plans = nil
		n, err := p.repo.Count(context.Background(), q0.Options)
		if err != nil {
			out.CountErr = classifyPagErr(err)
		}
		out.Count = n
		var countConds []string
		if len(p.plans) == 1 {
			countConds = p.plans[0].Conds
		}
		p.plans = nil
		_, _, _ = p.step(q0)
		if len(p.plans) == 1 {
			out.CountSame = strings.Join(countConds, "&") == strings.Join(p.plans[0].Conds, "&")
		}
		out.EmuErr = p.emu
	})
	return out
}

// ---- single step from a hand-made cursor --------------------------------------

type cur1In struct {
	Rows []curRow `json:"rows"`
	// Cursor is the JSON text that gets base64url-encoded into the cursor.
	Cursor string `json:"cursor"`
}

type cur1Out struct {
	DecodeErr string   `json:"decodeErr,omitempty"`
	Page      *curPage `json:"page,omitempty"`
	Panic     string   `json:"panic,omitempty"`
}

func runCursor1(in cur1In) (out cur1Out) {
	out.Panic = gen.Guard(func() {
		p := newPager(toMem(in.Rows))
		c := base64.RawURLEncoding.EncodeToString([]byte(in.Cursor))
		q, err := common.UnmarshalCursor[pgOpts](c)
		if err != nil {
			out.DecodeErr = "decode"
			return
		}
		pg, _, _ := p.step(q)
		if p.emu != "" && pg.Err == "" {
			pg.Err = "emulation"
		}
		out.Page = &pg
	})
	return out
}

// ---- generators -----------------------------------------------------------------

func genRows(c *gen.Ctx, column string) []curRow {
	r := c.R
	n := r.Intn(13)
	if c.Wide && r.Intn(8) == 0 {
		n = r.Intn(60)
	}
	dup := r.Intn(12) == 0
	seen := map[string]bool{}
	rows := make([]curRow, 0, n)
	for len(rows) < n {
		var k *big.Int
		switch {
		case column == "ts":
			// µs within 1970..2100, clustered so that neighbours are 1 µs apart sometimes
			base := int64(1_600_000_000_000_000)
			k = big.NewInt(base + int64(r.Intn(50)) - 25)
			if r.Intn(3) == 0 {
				k = big.NewInt(r.Int63n(4_000_000_000_000_000))
			}
		case column == "name" || column == "label":
			k = big.NewInt(int64(r.Intn(40)))
			if r.Intn(3) == 0 {
				k = big.NewInt(r.Int63n(1_000_000_000_000_000_000))
			}
		default:
			switch r.Intn(4) {
			case 0:
				k = gen.BigAmount(r)
			case 1:
				k = new(big.Int).Add(gen.BigAmount(r), big.NewInt(int64(r.Intn(3)-1)))
			default:
				k = big.NewInt(int64(r.Intn(30)))
			}
			if k.Sign() < 0 {
				k.Neg(k)
			}
		}
		ks := k.String()
		if seen[ks] && !dup {
			continue
		}
		seen[ks] = true
		rows = append(rows, curRow{Key: ks, Tag: int64(len(rows)), Kind: gen.Pick(r, []string{"a", "a", "b"})})
	}
	return rows
}

func genCursorIn(c *gen.Ctx) curIn {
	r := c.R
	col := gen.Pick(r, []string{"id", "id", "id", "ts", "name", "name", "", "label"})
	if r.Intn(25) == 0 {
		col = gen.Pick(r, []string{"kind", "nope"})
	}
	in := curIn{Column: col, Order: gen.Pick(r, []string{"asc", "desc", "asc", "desc", ""})}
	in.Rows = genRows(c, col)
	n := len(in.Rows)
	in.PageSize = uint64(1 + r.Intn(n+2))
	if n > 3 && r.Intn(2) == 0 {
		in.PageSize = uint64(1 + r.Intn(3))
	}
	if r.Intn(15) == 0 {
		in.PageSize = 0
	}
	if r.Intn(3) == 0 {
		in.Kind = gen.Pick(r, []string{"a", "b", "c"})
	}
	q := initialQuery(in)
	in.Filters, _ = json.Marshal(q.Options)
	return in
}

func genCursor1In(c *gen.Ctx) cur1In {
	r := c.R
	col := gen.Pick(r, []string{"id", "id", "ts", "name"})
	rows := genRows(c, col)
	obj := map[string]any{
		"column":   col,
		"order":    r.Intn(2),
		"pageSize": r.Intn(len(rows) + 2),
		"filters":  map[string]any{"pit": nil, "oot": nil, "qb": nil, "opts": map[string]any{"note": "n"}},
	}
	pick := func() any {
		if len(rows) > 0 && r.Intn(3) > 0 {
			k, _ := new(big.Int).SetString(rows[r.Intn(len(rows))].Key, 10)
			return json.Number(new(big.Int).Add(k, big.NewInt(int64(r.Intn(3)-1))).String())
		}
		return json.Number(big.NewInt(int64(r.Intn(40))).String())
	}
	if col == "name" || r.Intn(6) == 0 {
		obj["offset"] = r.Intn(len(rows) + 3)
		if r.Intn(8) == 0 {
			obj["offset"] = json.Number(gen.Pick(r, []string{"2147483647", "2147483648", "18446744073709551615", "18446744073709551600"}))
		}
	} else {
		if r.Intn(5) > 0 {
			obj["paginationID"] = pick()
		}
		if r.Intn(4) > 0 {
			obj["bottom"] = pick()
		}
		obj["reverse"] = r.Intn(2) == 0
	}
	// malformations
	switch r.Intn(12) {
	case 0:
		delete(obj, "order")
	case 1:
		obj["order"] = nil
	case 2:
		delete(obj, "pageSize")
	case 3:
		obj["pageSize"] = -1
	case 4:
		obj["reverse"] = "yes"
	case 5:
		obj["bottom"] = nil
	case 6:
		obj["column"] = gen.Pick(r, []string{"", "nope", "kind"})
	case 7:
		obj["offset"] = nil
	}
	raw, _ := json.Marshal(obj)
	if r.Intn(40) == 0 {
		raw = []byte(gen.Pick(r, []string{`[]`, `"x"`, `{`, `12`, `null`}))
	}
	return cur1In{Rows: rows, Cursor: string(raw)}
}

func init() {
	gen.Register("cursor", func(c *gen.Ctx) error {
		if c.Replay != "" {
			ins, err := c.ReplayInputs("cursor")
			if err != nil {
				return err
			}
			for _, raw := range ins {
				var in curIn
				if err := json.Unmarshal(raw, &in); err != nil {
					return err
				}
				if err := c.Emit("cursor", in, runCursorWalk(in)); err != nil {
					return err
				}
			}
			ins, err = c.ReplayInputs("cursor1")
			if err != nil {
				return err
			}
			for _, raw := range ins {
				var in cur1In
				if err := json.Unmarshal(raw, &in); err != nil {
					return err
				}
				if err := c.Emit("cursor1", in, runCursor1(in)); err != nil {
					return err
				}
			}
			return nil
		}
		for i := 0; i < c.N; i++ {
			if i%5 == 4 {
				in := genCursor1In(c)
				if err := c.Emit("cursor1", in, runCursor1(in)); err != nil {
					return err
				}
				continue
			}
			in := genCursorIn(c)
			if err := c.Emit("cursor", in, runCursorWalk(in)); err != nil {
				return err
			}
		}
		return nil
	})
}
