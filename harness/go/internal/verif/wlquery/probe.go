//go:build verif

package wlquery

import (
	"encoding/json"
	"fmt"

	"github.com/formancehq/go-libs/v5/pkg/query"
	ledger "github.com/formancehq/ledger/internal"
	"github.com/formancehq/ledger/internal/queries"
	ledgerstore "github.com/formancehq/ledger/internal/storage/ledger"
	"github.com/formancehq/ledger/internal/verif/gen"
)

func init() {
	gen.Register("probe", func(c *gen.Ctx) error {
		b, err := queries.ResolveFilterTemplate(queries.ResourceKindAccount, json.RawMessage(`{"$match":{"metadata[k]":"é-${x}"}}`), map[string]queries.VarDecl{"x": {Type: queries.NewTypeString()}}, map[string]any{"x": "ü"})
		j, _ := json.Marshal(b)
		fmt.Println(string(j), err)
		p, err := ledger.QueryTemplateParams[any]{PageSize: 15, SortColumn: "id"}.Overwrite(json.RawMessage(`{"pageSize": 3, "endTime":"2023-01-01T00:00:00Z"}`), json.RawMessage(`{"sort":"timestamp:asc"}`))
		fmt.Printf("%+v %v\n", p, err)
		qb, _ := query.ParseJSON(`{"$or":[{"$in":{"address":["x"]}},{"$match":{"address":"a:"}}]}`)
		fmt.Println(ledgerstore.VerifQCanPushAddressFilterToLateral(qb))
		return nil
	})
}
