//go:build verif

package wlquery

import (
	"encoding/json"
	"math/rand"
	"regexp"
	"sort"
	"strconv"
	"strings"

	ledgerstore "github.com/formancehq/ledger/internal/storage/ledger"
	"github.com/formancehq/ledger/internal/verif/gen"
)

// Workload "addrmatch": the real isPartialAddress / filterAccountAddress /
// filterAccountAddressOnTransactions / explodeAddress on random patterns and
// accounts. The real helpers only render SQL text; besides the verbatim text we
// report its *structure* (which segments are constrained, length constraint),
// recovered by undoing the escaping, so that the Lean side can evaluate the
// condition on the accounts.

type amIn struct {
	Pattern  string   `json:"pattern"`
	Key      string   `json:"key"`
	Source   bool     `json:"source"`
	Dest     bool     `json:"dest"`
	Accounts []string `json:"accounts"`
}

type amStruct struct {
	Kind  string   `json:"kind"` // exact | partial | true | unparsed
	Exact string   `json:"exact,omitempty"`
	Len   *int     `json:"len"`
	Segs  [][2]any `json:"segs"` // [index, segment]
}

type amTx struct {
	Kind string `json:"kind"` // exact | partial | unparsed
	// Cols: the columns tested, in order.
	Cols  []string          `json:"cols"`
	Exact string            `json:"exact,omitempty"`
	Map   map[string]*string `json:"map,omitempty"`
}

type amOut struct {
	Partial bool              `json:"partial"`
	Text    string            `json:"text"`
	Struct  amStruct          `json:"struct"`
	TxText  string            `json:"txText"`
	Tx      amTx              `json:"tx"`
	Explode []map[string]*string `json:"explode"`
	Panic   string            `json:"panic,omitempty"`
}

func unescapeSQL(s string) string { return strings.ReplaceAll(s, "''", "'") }

func unescapeJSONPath(s string) (string, bool) {
	s = unescapeSQL(s)
	var b strings.Builder
	for i := 0; i < len(s); i++ {
		if s[i] == '\\' {
			if i+1 >= len(s) {
				return "", false
			}
			i++
			b.WriteByte(s[i])
			continue
		}
		if s[i] == '"' {
			return "", false
		}
		b.WriteByte(s[i])
	}
	return b.String(), true
}

func parseAddrText(text, key string) amStruct {
	k := regexp.QuoteMeta(key)
	if text == "1 = 1" {
		return amStruct{Kind: "true", Segs: [][2]any{}}
	}
	if m := regexp.MustCompile(`^` + k + ` = '(.*)'$`).FindStringSubmatch(text); m != nil && !strings.Contains(text, "_array") {
		return amStruct{Kind: "exact", Exact: unescapeSQL(m[1]), Segs: [][2]any{}}
	}
	reLen := regexp.MustCompile(`^jsonb_array_length\(` + k + `_array\) = (\d+)$`)
	reSeg := regexp.MustCompile(`^` + k + `_array @@ \('\$\[(\d+)\] == "(.*)"'\)::jsonpath$`)
	out := amStruct{Kind: "partial", Segs: [][2]any{}}
	for i, part := range strings.Split(text, " and ") {
		if m := reLen.FindStringSubmatch(part); m != nil && i == 0 {
			n, _ := strconv.Atoi(m[1])
			out.Len = &n
			continue
		}
		if m := reSeg.FindStringSubmatch(part); m != nil {
			idx, _ := strconv.Atoi(m[1])
			seg, ok := unescapeJSONPath(m[2])
			if !ok {
				return amStruct{Kind: "unparsed", Segs: [][2]any{}}
			}
			out.Segs = append(out.Segs, [2]any{idx, seg})
			continue
		}
		return amStruct{Kind: "unparsed", Segs: [][2]any{}}
	}
	return out
}

var reTxPart = regexp.MustCompile(`^(sources|destinations|sources_arrays|destinations_arrays) @> '(.*)'$`)

func parseTxText(text string) amTx {
	out := amTx{Kind: "unparsed", Cols: []string{}}
	if text == "" {
		return amTx{Kind: "empty", Cols: []string{}}
	}
	var payload string
	for i, part := range strings.Split(text, " or ") {
		m := reTxPart.FindStringSubmatch(part)
		if m == nil {
			return amTx{Kind: "unparsed", Cols: []string{}}
		}
		out.Cols = append(out.Cols, m[1])
		if i > 0 && m[2] != payload {
			return amTx{Kind: "unparsed", Cols: []string{}}
		}
		payload = m[2]
	}
	payload = unescapeSQL(payload)
	var exact []string
	if err := json.Unmarshal([]byte(payload), &exact); err == nil && len(exact) == 1 {
		out.Kind, out.Exact = "exact", exact[0]
		return out
	}
	var maps []map[string]*string
	if err := json.Unmarshal([]byte(payload), &maps); err == nil && len(maps) == 1 {
		out.Kind, out.Map = "partial", maps[0]
		return out
	}
	return amTx{Kind: "unparsed", Cols: out.Cols}
}

func runAddrMatch(in amIn) (out amOut) {
	out.Explode = []map[string]*string{}
	out.Panic = gen.Guard(func() {
		out.Partial = ledgerstore.VerifQIsPartialAddress(in.Pattern)
		out.Text = ledgerstore.VerifQFilterAccountAddress(in.Pattern, in.Key)
		out.Struct = parseAddrText(out.Text, in.Key)
		out.TxText = ledgerstore.VerifQFilterAccountAddressOnTransactions(in.Pattern, in.Source, in.Dest)
		out.Tx = parseTxText(out.TxText)
		for _, a := range in.Accounts {
			ex := ledgerstore.VerifQExplodeAddress(a)
			m := map[string]*string{}
			keys := make([]string, 0, len(ex))
			for k := range ex {
				keys = append(keys, k)
			}
			sort.Strings(keys)
			for _, k := range keys {
				if s, ok := ex[k].(string); ok {
					s := s
					m[k] = &s
				} else {
					m[k] = nil
				}
			}
			out.Explode = append(out.Explode, m)
		}
	})
	return out
}

var amSegs = []string{"a", "b", "c", "users", "bank", "001", "x_1", "A-z", "é", "日本", "it's", `q"uote`, `back\slash`, `\"`, "''", "$", "%", "...", "..", "a.b", "[0]", "{}", "<>&"}

func genAmAddress(r *rand.Rand, plain bool) string {
	n := 1 + r.Intn(4)
	if r.Intn(12) == 0 {
		n = 5 + r.Intn(8)
	}
	segs := make([]string, n)
	for i := range segs {
		if plain || r.Intn(3) > 0 {
			segs[i] = gen.Pick(r, amSegs[:6])
		} else {
			segs[i] = gen.Pick(r, amSegs)
		}
	}
	return strings.Join(segs, ":")
}

func genAmPattern(r *rand.Rand, accounts []string) string {
	var base string
	if len(accounts) > 0 && r.Intn(3) > 0 {
		base = gen.Pick(r, accounts)
	} else {
		base = genAmAddress(r, false)
	}
	segs := strings.Split(base, ":")
	switch r.Intn(10) {
	case 0, 1, 2:
		for i := range segs {
			if r.Intn(2) == 0 {
				segs[i] = ""
			}
		}
	case 3, 4:
		cut := r.Intn(len(segs) + 1)
		segs = append(segs[:cut:cut], "...")
	case 5:
		segs[r.Intn(len(segs))] = "..."
		if r.Intn(2) == 0 {
			segs = append(segs, "")
		}
	case 6:
		return gen.Pick(r, []string{"", ":", "::", "...", ":...", "...:", "a:", ":a", "a::", "a:...:b", "a:...:b:", "...:...", " ", "a:b:"})
	}
	return strings.Join(segs, ":")
}

func genAmIn(c *gen.Ctx) amIn {
	r := c.R
	n := 2 + r.Intn(6)
	in := amIn{Key: gen.Pick(r, []string{"address", "account", "accounts_address"}), Source: r.Intn(3) > 0, Dest: r.Intn(3) > 0}
	for i := 0; i < n; i++ {
		in.Accounts = append(in.Accounts, genAmAddress(r, r.Intn(4) > 0))
	}
	in.Pattern = genAmPattern(r, in.Accounts)
	return in
}

func init() {
	gen.Register("addrmatch", func(c *gen.Ctx) error {
		if c.Replay != "" {
			ins, err := c.ReplayInputs("addrmatch")
			if err != nil {
				return err
			}
			for _, raw := range ins {
				var in amIn
				if err := json.Unmarshal(raw, &in); err != nil {
					return err
				}
				if err := c.Emit("addrmatch", in, runAddrMatch(in)); err != nil {
					return err
				}
			}
			return nil
		}
		for i := 0; i < c.N; i++ {
			in := genAmIn(c)
			if err := c.Emit("addrmatch", in, runAddrMatch(in)); err != nil {
				return err
			}
		}
		return nil
	})
}
