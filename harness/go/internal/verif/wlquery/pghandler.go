//go:build verif

package wlquery

import (
	"fmt"
	"time"

	"github.com/uptrace/bun"

	"github.com/formancehq/go-libs/v5/pkg/storage/bun/paginate"
	"github.com/formancehq/ledger/internal/queries"
	"github.com/formancehq/ledger/internal/storage/common"
)

// pgHandler is a minimal RepositoryHandler: one table `items(id, ts, name, kind,
// tag)`, no joins. Everything the paginator does (column choice, defaulting,
// WHERE/ORDER/LIMIT/OFFSET, BuildCursor, cursor encoding) is the real code of
// internal/storage/common.
type pgHandler struct{ db *bun.DB }

type pgOpts struct {
	Note string `json:"note"`
}

type pgRow struct {
	ID   *paginate.BigInt `bun:"id,type:numeric"`
	TS   time.Time        `bun:"ts,type:timestamp without time zone"`
	Name string           `bun:"name"`
	Kind string           `bun:"kind"`
	Tag  int64            `bun:"tag"`
}

var pgSchema = queries.EntitySchema{Fields: map[string]queries.Field{
	"id":   queries.NewNumericField().Paginated(),
	"ts":   queries.NewDateField().Paginated(),
	"name": queries.NewStringField().Paginated().WithAliases("label"),
	"kind": queries.NewStringField(),
}}

func (h *pgHandler) Schema() queries.EntitySchema { return pgSchema }

func (h *pgHandler) BuildDataset(common.RepositoryHandlerBuildContext[pgOpts]) (*bun.SelectQuery, error) {
	return h.db.NewSelect().TableExpr("items").Column("id", "ts", "name", "kind", "tag").ColumnExpr("name AS label"), nil
}

func (h *pgHandler) ResolveFilter(_ common.ResourceQuery[pgOpts], operator, property string, value any) (string, []any, error) {
	if property == "kind" && operator == "$match" {
		return "kind = ?", []any{value}, nil
	}
	return "", nil, fmt.Errorf("unsupported filter %s", property)
}

func (h *pgHandler) Project(_ common.ResourceQuery[pgOpts], q *bun.SelectQuery) (*bun.SelectQuery, error) {
	return q.ColumnExpr("*"), nil
}

func (h *pgHandler) Expand(common.ResourceQuery[pgOpts], string) (*bun.SelectQuery, *common.JoinCondition, error) {
	return nil, nil, nil
}

var _ common.RepositoryHandler[pgOpts] = (*pgHandler)(nil)
