//go:build verif

package wlquery

import (
	"context"
	"encoding/json"
	"errors"
	"fmt"
	"math/rand"
	"strings"

	"github.com/uptrace/bun"

	"github.com/formancehq/go-libs/v5/pkg/query"
	"github.com/formancehq/go-libs/v5/pkg/types/pointer"
	"github.com/formancehq/go-libs/v5/pkg/types/time"
	ledger "github.com/formancehq/ledger/internal"
	"github.com/formancehq/ledger/internal/queries"
	"github.com/formancehq/ledger/internal/storage/common"
	ledgerstore "github.com/formancehq/ledger/internal/storage/ledger"
	"github.com/formancehq/ledger/internal/verif/gen"
)

// Workload "pushdown": random filter ASTs through
//   - go-libs query.ParseJSON,
//   - the REAL ResourceRepository.validateFilters (via Count on a handler that
//     carries the real schema and records what BuildDataset is given),
//   - the REAL collectAddressFilters / canPushAddressFilterToLateral,
//   - the REAL volumesResourceHandler / aggregatedBalancesResourceRepositoryHandler
//     BuildDataset (statement captured by the recording driver; we look whether
//     the lateral sub-query carries buildAddressFilterForLateral(addresses)).
// The Lean side recomputes all of it on the model and brute-forces the soundness
// of the pushdown on the random account rows with the model's Filter.eval.

type pdRow struct {
	Address    string            `json:"address"`
	Metadata   map[string]string `json:"metadata"`
	Balances   map[string]string `json:"balances"`
	FirstUsage string            `json:"firstUsage"`
}

type pdIn struct {
	Resource string  `json:"resource"` // volumes | aggregated
	PIT      bool    `json:"pit"`
	Filter   string  `json:"filter"` // JSON text
	Rows     []pdRow `json:"rows"`
}

type pdOut struct {
	ParseErr  string          `json:"parseErr,omitempty"`
	ValidErr  string          `json:"validErr,omitempty"`
	Addresses []string        `json:"addresses"`
	Need      bool            `json:"need"`
	CanPush   bool            `json:"canPush"`
	Use       map[string]bool `json:"use"`
	// Reencoded: json.Marshal(builder) — what canPush walks.
	Reencoded json.RawMessage `json:"reencoded,omitempty"`
	// SQL side (real BuildDataset of the resource)
	SQLErr      string `json:"sqlErr,omitempty"`
	HasLateral  bool   `json:"hasLateral"`
	Pushed      bool   `json:"pushed"`
	LateralText string `json:"lateralText"`
	Panic       string `json:"panic,omitempty"`
}

// pdHandler carries a real schema and records what the real validateFilters hands
// to BuildDataset.
type pdHandler[O any] struct {
	schema queries.EntitySchema
	db     *bun.DB
	seen   func(common.RepositoryHandlerBuildContext[O])
}

func (h *pdHandler[O]) Schema() queries.EntitySchema { return h.schema }
func (h *pdHandler[O]) BuildDataset(q common.RepositoryHandlerBuildContext[O]) (*bun.SelectQuery, error) {
	h.seen(q)
	return nil, errors.New("verif: dataset not needed")
}
func (h *pdHandler[O]) ResolveFilter(common.ResourceQuery[O], string, string, any) (string, []any, error) {
	return "1 = 1", nil, nil
}
func (h *pdHandler[O]) Project(_ common.ResourceQuery[O], q *bun.SelectQuery) (*bun.SelectQuery, error) {
	return q, nil
}
func (h *pdHandler[O]) Expand(common.ResourceQuery[O], string) (*bun.SelectQuery, *common.JoinCondition, error) {
	return nil, nil, nil
}

type pdEnv struct {
	rec   *recDB
	db    *bun.DB
	store *ledgerstore.Store
}

var thePdEnv *pdEnv

func getPdEnv() *pdEnv {
	if thePdEnv == nil {
		rec, db := newRecBun()
		l := ledger.MustNewWithDefault("l")
		thePdEnv = &pdEnv{rec: rec, db: db, store: ledgerstore.New(db, nil, l)}
	}
	return thePdEnv
}

func classifyValidErr(err error) string {
	s := err.Error()
	switch {
	case strings.Contains(s, "unknown key"):
		return "unknown-key"
	case strings.Contains(s, "is not allowed"):
		return "operator-not-allowed"
	case strings.Contains(s, "invalid value"):
		return "invalid-value"
	case strings.Contains(s, "dataset not needed"):
		return ""
	}
	return "other:" + s
}

func runPushdown(in pdIn) (out pdOut) {
	out.Use = map[string]bool{}
	out.Addresses = []string{}
	out.Panic = gen.Guard(func() {
		env := getPdEnv()
		builder, err := query.ParseJSON(in.Filter)
		if err != nil {
			out.ParseErr = "parse"
			return
		}
		if builder != nil {
			out.Reencoded, _ = json.Marshal(builder)
		}
		record := func(use func(string, ...func(any) bool) bool, collect func() ([]string, bool)) {
			for _, f := range []string{"address", "metadata", "first_usage", "balance"} {
				out.Use[f] = use(f)
			}
			as, need := collect()
			if as != nil {
				out.Addresses = as
			}
			out.Need = need
		}
		var pit *time.Time
		if in.PIT {
			pit = pointer.For(time.Now())
		}
		ctx := context.Background()
		switch in.Resource {
		case "volumes":
			h := &pdHandler[ledger.GetVolumesOptions]{schema: queries.VolumeSchema, db: env.db}
			h.seen = func(q common.RepositoryHandlerBuildContext[ledger.GetVolumesOptions]) {
				record(q.UseFilter, func() ([]string, bool) { return ledgerstore.VerifQCollectAddressFilters(q) })
			}
			_, err = common.NewResourceRepository[struct{}, ledger.GetVolumesOptions](h).Count(ctx,
				common.ResourceQuery[ledger.GetVolumesOptions]{Builder: builder, PIT: pit})
		case "aggregated":
			h := &pdHandler[ledger.GetAggregatedVolumesOptions]{schema: queries.AggregatedBalanceSchema, db: env.db}
			h.seen = func(q common.RepositoryHandlerBuildContext[ledger.GetAggregatedVolumesOptions]) {
				record(q.UseFilter, func() ([]string, bool) { return ledgerstore.VerifQCollectAddressFilters(q) })
			}
			_, err = common.NewResourceRepository[struct{}, ledger.GetAggregatedVolumesOptions](h).Count(ctx,
				common.ResourceQuery[ledger.GetAggregatedVolumesOptions]{Builder: builder, PIT: pit})
		default:
			out.ValidErr = "other:resource"
			return
		}
		out.ValidErr = classifyValidErr(err)
		out.CanPush = ledgerstore.VerifQCanPushAddressFilterToLateral(builder)
		if out.ValidErr != "" {
			return
		}
		out.LateralText = ledgerstore.VerifQBuildAddressFilterForLateral(out.Addresses)
		// the real dataset builders
		env.rec.reset()
		var sqlErr error
		switch in.Resource {
		case "volumes":
			_, sqlErr = env.store.Volumes().Paginate(ctx, common.InitialPaginatedQuery[ledger.GetVolumesOptions]{
				Options: common.ResourceQuery[ledger.GetVolumesOptions]{Builder: builder, PIT: pit}})
		case "aggregated":
			_, sqlErr = env.store.AggregatedVolumes().GetOne(ctx,
				common.ResourceQuery[ledger.GetAggregatedVolumesOptions]{Builder: builder, PIT: pit})
		}
		sql := env.rec.last()
		if sql == "" {
			out.SQLErr = fmt.Sprint(sqlErr)
			return
		}
		i := strings.Index(sql, "join lateral (")
		if i >= 0 {
			j := strings.Index(sql[i:], ") accounts on true")
			if j >= 0 {
				out.HasLateral = true
				lat := sql[i : i+j]
				out.Pushed = len(out.Addresses) > 0 &&
					strings.Contains(lat, "(accounts.address = accounts_address) AND ("+out.LateralText+")")
				// any other extra condition in the lateral would be a surprise
				if !out.Pushed && strings.Count(lat, " AND (") > 1 {
					out.SQLErr = "unexpected lateral condition: " + lat
				}
			}
		}
	})
	return out
}

// ---- generators -----------------------------------------------------------------

var pdSegs = []string{"a", "b", "c", "users", "bank", "001", "x1"}
var pdMetaKeys = []string{"k", "role", "tier"}
var pdMetaVals = []string{"v", "w", "gold", ""}
var pdAssets = []string{"USD", "EUR/2", "COIN"}
var pdDates = []string{"2023-01-01T00:00:00Z", "2023-06-15T12:30:00Z", "2023-06-15T14:30:00+02:00", "2024-02-29T23:59:59.999999Z", "2022-12-31T23:59:59.5Z"}

func genAccountAddress(r *rand.Rand) string {
	n := 1 + r.Intn(4)
	segs := make([]string, n)
	for i := range segs {
		segs[i] = gen.Pick(r, pdSegs[:4+r.Intn(4)])
	}
	return strings.Join(segs, ":")
}

func genAddressPattern(r *rand.Rand) string {
	n := 1 + r.Intn(4)
	segs := make([]string, n)
	for i := range segs {
		segs[i] = gen.Pick(r, pdSegs[:4])
	}
	switch r.Intn(8) {
	case 0, 1, 2: // partial: blank some segments
		for i := range segs {
			if r.Intn(2) == 0 {
				segs[i] = ""
			}
		}
	case 3, 4: // prefix
		segs = append(segs, "...")
	case 5:
		if r.Intn(3) == 0 {
			segs[r.Intn(n)] = "..."
		}
	}
	return strings.Join(segs, ":")
}

// pdAccounts: addresses of the case's rows; address filters are mostly derived
// from them so that filters select proper, non-empty subsets.
var pdAccounts []string

func genPatternFromAccounts(r *rand.Rand) string {
	if len(pdAccounts) == 0 || r.Intn(4) == 0 {
		return genAddressPattern(r)
	}
	segs := strings.Split(gen.Pick(r, pdAccounts), ":")
	switch r.Intn(6) {
	case 0, 1:
		for i := range segs {
			if r.Intn(2) == 0 {
				segs[i] = ""
			}
		}
		if r.Intn(2) == 0 {
			segs[r.Intn(len(segs))] = ""
		}
	case 2, 3:
		cut := r.Intn(len(segs) + 1)
		segs = append(segs[:cut:cut], "...")
	}
	return strings.Join(segs, ":")
}

func genLeaf(r *rand.Rand, resource string, wild bool) any {
	addrKey := "address"
	if r.Intn(4) == 0 {
		addrKey = "account"
	}
	mk := func(op, key string, v any) any { return map[string]any{op: map[string]any{key: v}} }
	k := r.Intn(20)
	if wild && r.Intn(6) == 0 {
		// wrong operator / wrong value type / unknown key
		ops := []string{"$match", "$lt", "$lte", "$gt", "$gte", "$like", "$in", "$exists"}
		keys := []string{"address", "account", "metadata[k]", "metadata", "balance[USD]", "balance", "first_usage", "nope", "address[x]", "metadata[", "reference"}
		vals := []any{"a:b", 12, true, nil, []any{"a"}, []any{1}, []any{}, map[string]any{"x": 1}, "2023-01-01T00:00:00Z", "notadate"}
		return mk(gen.Pick(r, ops), gen.Pick(r, keys), gen.Pick(r, vals))
	}
	switch {
	case k < 8:
		op := "$match"
		if r.Intn(8) == 0 {
			op = "$like"
		}
		return mk(op, addrKey, genPatternFromAccounts(r))
	case k < 11:
		n := r.Intn(4)
		vs := make([]any, n)
		for i := range vs {
			if len(pdAccounts) > 0 && r.Intn(3) > 0 {
				vs[i] = gen.Pick(r, pdAccounts)
			} else {
				vs[i] = genAccountAddress(r)
			}
		}
		return mk("$in", addrKey, vs)
	case k < 14:
		return mk("$match", "metadata["+gen.Pick(r, pdMetaKeys)+"]", gen.Pick(r, pdMetaVals))
	case k < 15:
		return mk("$exists", "metadata", gen.Pick(r, pdMetaKeys))
	case k < 16:
		return mk("$in", "metadata["+gen.Pick(r, pdMetaKeys)+"]", []any{gen.Pick(r, pdMetaVals), gen.Pick(r, pdMetaVals)})
	case k < 18:
		if resource == "aggregated" && r.Intn(3) > 0 {
			return mk("$match", "metadata["+gen.Pick(r, pdMetaKeys)+"]", gen.Pick(r, pdMetaVals))
		}
		// $exists passes validation on a map-typed field; the volumes ResolveFilter refuses it
		return mk(gen.Pick(r, []string{"$match", "$lt", "$lte", "$gt", "$gte", "$gte", "$lt", "$exists"}), "balance["+gen.Pick(r, pdAssets)+"]",
			json.Number(fmt.Sprint(r.Intn(7)-3)))
	default:
		if resource == "aggregated" && r.Intn(3) > 0 {
			return mk("$exists", "metadata", gen.Pick(r, pdMetaKeys))
		}
		return mk(gen.Pick(r, []string{"$match", "$lt", "$lte", "$gt", "$gte"}), "first_usage", gen.Pick(r, pdDates))
	}
}

func genFilter(r *rand.Rand, resource string, depth int, wild bool) any {
	if depth == 0 || r.Intn(4) == 0 {
		return genLeaf(r, resource, wild)
	}
	switch r.Intn(5) {
	case 0:
		return map[string]any{"$not": genFilter(r, resource, depth-1, wild)}
	case 1, 2:
		n := r.Intn(4)
		if r.Intn(3) > 0 && n == 0 {
			n = 2
		}
		items := make([]any, n)
		for i := range items {
			items[i] = genFilter(r, resource, depth-1, wild)
		}
		return map[string]any{"$or": items}
	default:
		n := r.Intn(4)
		items := make([]any, n)
		for i := range items {
			items[i] = genFilter(r, resource, depth-1, wild)
		}
		return map[string]any{"$and": items}
	}
}

func genPdRows(r *rand.Rand) []pdRow {
	n := 3 + r.Intn(8)
	rows := make([]pdRow, n)
	for i := range rows {
		rows[i] = pdRow{Address: genAccountAddress(r), Metadata: map[string]string{}, Balances: map[string]string{},
			FirstUsage: gen.Pick(r, pdDates)}
		for _, k := range pdMetaKeys {
			if r.Intn(2) == 0 {
				rows[i].Metadata[k] = gen.Pick(r, pdMetaVals)
			}
		}
		for _, a := range pdAssets {
			if r.Intn(3) > 0 {
				rows[i].Balances[a] = fmt.Sprint(r.Intn(9) - 4)
			}
		}
	}
	return rows
}

func genPushdownIn(c *gen.Ctx) pdIn {
	r := c.R
	in := pdIn{Resource: gen.Pick(r, []string{"volumes", "volumes", "aggregated"}), PIT: r.Intn(3) == 0, Rows: genPdRows(r)}
	pdAccounts = pdAccounts[:0]
	for _, row := range in.Rows {
		pdAccounts = append(pdAccounts, row.Address)
	}
	depth := 1 + r.Intn(3)
	if r.Intn(4) == 0 {
		depth = 4 + r.Intn(3)
	}
	if r.Intn(10) == 0 {
		depth = 0
	}
	switch r.Intn(40) {
	case 0:
		in.Filter = gen.Pick(r, []string{"", "null", "{}", "[]", `"x"`, `{"$and":{}}`, `{"$or":[1]}`, `{"$not":[]}`,
			`{"$match":{"address":"a","account":"b"}}`, `{"$match":{}}`, `{"$foo":{"address":"a"}}`, `{"$match":{"balance[USD]":1.5}}`,
			`{"$match":"x"}`, `{`, `{"$and":[{"$match":{"address":"a:"}}],"$or":[]}`})
	default:
		b, _ := json.Marshal(genFilter(r, in.Resource, depth, r.Intn(4) == 0))
		in.Filter = string(b)
	}
	return in
}

func init() {
	gen.Register("pushdown", func(c *gen.Ctx) error {
		if c.Replay != "" {
			ins, err := c.ReplayInputs("pushdown")
			if err != nil {
				return err
			}
			for _, raw := range ins {
				var in pdIn
				if err := json.Unmarshal(raw, &in); err != nil {
					return err
				}
				if err := c.Emit("pushdown", in, runPushdown(in)); err != nil {
					return err
				}
			}
			return nil
		}
		for i := 0; i < c.N; i++ {
			in := genPushdownIn(c)
			if err := c.Emit("pushdown", in, runPushdown(in)); err != nil {
				return err
			}
		}
		return nil
	})
}
