//go:build verif

package wlquery

import (
	"context"
	"database/sql"
	"database/sql/driver"
	"errors"
	"io"
	"sync"

	"github.com/uptrace/bun"
	"github.com/uptrace/bun/dialect/pgdialect"
)

// recDB is a recording database/sql driver: bun renders every statement
// client-side (arguments inlined), so Query receives the complete SQL text. The
// answer is whatever the installed hook returns. No SQL is executed anywhere.
type recDB struct {
	mu   sync.Mutex
	SQL  []string
	Hook func(sql string) (cols []string, rows [][]driver.Value, err error)
}

func (r *recDB) Connect(context.Context) (driver.Conn, error) { return &recConn{r}, nil }
func (r *recDB) Driver() driver.Driver                        { return recDrv{} }

type recDrv struct{}

func (recDrv) Open(string) (driver.Conn, error) { return nil, errors.New("recDB: use the connector") }

type recConn struct{ db *recDB }

func (c *recConn) Prepare(string) (driver.Stmt, error) { return nil, errors.New("recDB: no prepare") }
func (c *recConn) Close() error                        { return nil }
func (c *recConn) Begin() (driver.Tx, error)           { return nil, errors.New("recDB: no tx") }

func (c *recConn) QueryContext(_ context.Context, q string, args []driver.NamedValue) (driver.Rows, error) {
	if len(args) != 0 {
		return nil, errors.New("recDB: unexpected bound arguments")
	}
	c.db.mu.Lock()
	c.db.SQL = append(c.db.SQL, q)
	hook := c.db.Hook
	c.db.mu.Unlock()
	if hook == nil {
		return &recRows{}, nil
	}
	cols, rows, err := hook(q)
	if err != nil {
		return nil, err
	}
	return &recRows{cols: cols, rows: rows}, nil
}

func (c *recConn) ExecContext(_ context.Context, q string, _ []driver.NamedValue) (driver.Result, error) {
	c.db.mu.Lock()
	c.db.SQL = append(c.db.SQL, q)
	c.db.mu.Unlock()
	return driver.RowsAffected(0), nil
}

type recRows struct {
	cols []string
	rows [][]driver.Value
	i    int
}

func (r *recRows) Columns() []string { return r.cols }
func (r *recRows) Close() error      { return nil }
func (r *recRows) Next(dest []driver.Value) error {
	if r.i >= len(r.rows) {
		return io.EOF
	}
	copy(dest, r.rows[r.i])
	r.i++
	return nil
}

func newRecBun() (*recDB, *bun.DB) {
	rec := &recDB{}
	return rec, bun.NewDB(sql.OpenDB(rec), pgdialect.New(), bun.WithDiscardUnknownColumns())
}

func (r *recDB) reset() {
	r.mu.Lock()
	r.SQL = nil
	r.mu.Unlock()
}

func (r *recDB) last() string {
	r.mu.Lock()
	defer r.mu.Unlock()
	if len(r.SQL) == 0 {
		return ""
	}
	return r.SQL[len(r.SQL)-1]
}
