//go:build verif

package wlquery

import (
	"context"
	"encoding/base64"
	"encoding/json"
	"errors"
	"fmt"
	"math"
	"math/big"
	"math/rand"
	"strings"

	"github.com/formancehq/go-libs/v5/pkg/storage/bun/paginate"
	"github.com/formancehq/go-libs/v5/pkg/types/time"
	ledger "github.com/formancehq/ledger/internal"
	ledgercontroller "github.com/formancehq/ledger/internal/controller/ledger"
	"github.com/formancehq/ledger/internal/queries"
	"github.com/formancehq/ledger/internal/storage/common"
	"github.com/formancehq/ledger/internal/verif/gen"
)

// Workload "template": random filter templates (four resources, typed variables,
// params) through
//   - the REAL queries.ResolveFilterTemplate (substitution, typed values),
//   - the REAL DefaultController.RunQuery over a store whose resources only record
//     the PaginatedQuery they are handed (params overwrite order, page-size cap,
//     cursor path) — i.e. the exact argument of the Paginate call that the list
//     endpoints also end in.

// tv is a typed variable value.
type tv struct {
	K string `json:"k"` // str | num | float | bool | null | other
	S string `json:"s,omitempty"`
	B bool   `json:"b,omitempty"`
	M string `json:"m,omitempty"` // float mantissa (|m| ≤ 2^53)
	E int    `json:"e,omitempty"` // float exponent: value = m·2^e
}

func (v tv) goValue() any {
	switch v.K {
	case "str":
		return v.S
	case "num":
		return json.Number(v.S)
	case "float":
		m, _ := new(big.Int).SetString(v.M, 10)
		return math.Ldexp(float64(m.Int64()), v.E)
	case "bool":
		return v.B
	case "null":
		return nil
	}
	return []any{1.0}
}

type tmplDecl struct {
	Type    string `json:"type"`
	Default *tv    `json:"default,omitempty"`
}

type tmplIn struct {
	Resource        string              `json:"resource"`
	Body            string              `json:"body"`
	Vars            map[string]tmplDecl `json:"vars"`
	Call            map[string]tv       `json:"call"`
	TParams         string              `json:"tparams"`
	QParams         string              `json:"qparams"`
	Cursor          string              `json:"cursor"` // JSON text; "" = no cursor
	DefaultPageSize uint64              `json:"defaultPageSize"`
	MaxPageSize     uint64              `json:"maxPageSize"`
}

type capturedQ struct {
	Type     string          `json:"type"` // initial | column | offset
	Column   string          `json:"column"`
	Order    *int            `json:"order"`
	PageSize uint64          `json:"pageSize"`
	PIT      *int64          `json:"pit"`
	OOT      *int64          `json:"oot"`
	Expand   []string        `json:"expand"`
	GroupBy  int             `json:"groupBy"`
	InsDate  bool            `json:"insertionDate"`
	QB       json.RawMessage `json:"qb"`
}

type tmplOut struct {
	ResolveErr string          `json:"resolveErr,omitempty"`
	Resolved   json.RawMessage `json:"resolved"`
	RunErr     string          `json:"runErr,omitempty"`
	Resource   string          `json:"runResource,omitempty"`
	Captured   *capturedQ      `json:"captured"`
	// CursorSame: the query handed to Paginate re-encodes to the request's cursor.
	CursorSame bool   `json:"cursorSame"`
	Panic      string `json:"panic,omitempty"`
}

func classifyResolveErr(err error) string {
	s := err.Error()
	var pe *queries.ParsingError
	switch {
	case errors.As(err, &pe):
		return "template-syntax"
	case strings.Contains(s, "expected a lowercase char") || strings.Contains(s, "expected '}'"):
		return "template-syntax"
	case strings.Contains(s, "invalid value `"):
		return "invalid-var"
	case strings.Contains(s, "unexpected resources.ResourceKind"):
		return "unknown-resource"
	case strings.Contains(s, "invalid field name"):
		return "field-name"
	case strings.Contains(s, "unknown field"):
		return "unknown-field"
	case strings.Contains(s, "unexpected field indexing"):
		return "indexing"
	case strings.Contains(s, "missing variable"):
		return "missing-var"
	case strings.Contains(s, "unexpected variable type"):
		return "var-kind"
	case strings.Contains(s, "numbers with decimals"):
		return "decimals"
	case strings.Contains(s, "expected a \"${variable}\""):
		return "not-a-var-ref"
	case strings.Contains(s, "cannot use variable"):
		return "var-type"
	case strings.Contains(s, "should be an integer"):
		return "not-integer"
	case strings.Contains(s, "unexpected FieldType"):
		return "field-type"
	case strings.Contains(s, "expected array"):
		return "expected-array"
	case strings.Contains(s, "$exists can only"):
		return "exists-non-map"
	}
	return "body-json"
}

// ---- recording store ------------------------------------------------------------

type recStore struct {
	ledgercontroller.Store
	schema   *ledger.Schema
	captured *capturedQ
	raw      any
}

func (s *recStore) FindSchema(context.Context, string) (*ledger.Schema, error) { return s.schema, nil }

type recRes[T, O any] struct {
	s    *recStore
	opts func(O) (int, bool)
}

func (r recRes[T, O]) GetOne(context.Context, common.ResourceQuery[O]) (*T, error) {
	return nil, errors.New("verif: not used")
}
func (r recRes[T, O]) Count(context.Context, common.ResourceQuery[O]) (int, error) {
	return 0, errors.New("verif: not used")
}

func usec(t *time.Time) *int64 {
	if t == nil {
		return nil
	}
	v := t.UnixMicro()
	return &v
}

func (r recRes[T, O]) capture(typ string, q common.InitialPaginatedQuery[O]) *capturedQ {
	c := &capturedQ{Type: typ, Column: q.Column, PageSize: q.PageSize, PIT: usec(q.Options.PIT), OOT: usec(q.Options.OOT),
		Expand: q.Options.Expand}
	if c.Expand == nil {
		c.Expand = []string{}
	}
	if q.Order != nil {
		o := int(*q.Order)
		c.Order = &o
	}
	if r.opts != nil {
		c.GroupBy, c.InsDate = r.opts(q.Options.Opts)
	}
	if q.Options.Builder != nil {
		c.QB, _ = json.Marshal(q.Options.Builder)
	} else {
		c.QB = json.RawMessage("null")
	}
	return c
}

func (r recRes[T, O]) Paginate(_ context.Context, q common.PaginatedQuery[O]) (*paginate.Cursor[T], error) {
	r.s.raw = q
	switch v := any(q).(type) {
	case common.InitialPaginatedQuery[O]:
		r.s.captured = r.capture("initial", v)
	case common.ColumnPaginatedQuery[O]:
		r.s.captured = r.capture("column", v.InitialPaginatedQuery)
	case common.OffsetPaginatedQuery[O]:
		r.s.captured = r.capture("offset", v.InitialPaginatedQuery)
	default:
		return nil, fmt.Errorf("verif: unexpected query type %T", q)
	}
	return &paginate.Cursor[T]{Data: []T{}}, nil
}

func (s *recStore) Transactions() common.PaginatedResource[ledger.Transaction, any] {
	return recRes[ledger.Transaction, any]{s: s}
}
func (s *recStore) Accounts() common.PaginatedResource[ledger.Account, any] {
	return recRes[ledger.Account, any]{s: s}
}
func (s *recStore) Logs() common.PaginatedResource[ledger.Log, any] {
	return recRes[ledger.Log, any]{s: s}
}
func (s *recStore) Volumes() common.PaginatedResource[ledger.VolumesWithBalanceByAssetByAccount, ledger.GetVolumesOptions] {
	return recRes[ledger.VolumesWithBalanceByAssetByAccount, ledger.GetVolumesOptions]{s: s,
		opts: func(o ledger.GetVolumesOptions) (int, bool) { return o.GroupLvl, o.UseInsertionDate }}
}

func classifyRunErr(err error) string {
	s := err.Error()
	switch {
	case errors.Is(err, ledgercontroller.ErrQueryValidation{}):
		rest := strings.TrimPrefix(s, "failed to resolve query template: ")
		return "validation:" + rest
	case strings.Contains(s, "invalid resource type"):
		return "invalid-resource"
	}
	return "other:" + s
}

func runTemplate(in tmplIn) (out tmplOut) {
	out.Resolved = json.RawMessage("null")
	out.Panic = gen.Guard(func() {
		decls := map[string]queries.VarDecl{}
		for k, d := range in.Vars {
			ft, err := queries.FieldTypeFromString(d.Type)
			if err != nil {
				out.ResolveErr = "harness:bad-type"
				return
			}
			vd := queries.VarDecl{Type: ft}
			if d.Default != nil {
				vd.Default = d.Default.goValue()
			}
			decls[k] = vd
		}
		call := map[string]any{}
		for k, v := range in.Call {
			call[k] = v.goValue()
		}
		if in.Cursor == "" {
			b, err := queries.ResolveFilterTemplate(queries.ResourceKind(in.Resource), json.RawMessage(in.Body), decls, call)
			if err != nil {
				out.ResolveErr = classifyResolveErr(err)
			} else if b != nil {
				out.Resolved, _ = json.Marshal(b)
			}
		}
		// RunQuery over the recording store
		store := &recStore{schema: &ledger.Schema{SchemaData: ledger.SchemaData{Queries: ledger.QueryTemplates{
			"q": {Resource: queries.ResourceKind(in.Resource), Params: json.RawMessage(in.TParams), Vars: decls,
				Body: json.RawMessage(in.Body)},
		}}}}
		ctrl := ledgercontroller.NewDefaultController(ledger.MustNewWithDefault("l"), store, nil, nil, nil)
		rq := common.RunQuery{Params: json.RawMessage(in.QParams), Vars: call}
		var cur string
		if in.Cursor != "" {
			cur = base64.RawURLEncoding.EncodeToString([]byte(in.Cursor))
			rq.Cursor = &cur
		}
		res, _, err := ctrl.RunQuery(context.Background(), "v1", "q", rq,
			common.PaginationConfig{MaxPageSize: in.MaxPageSize, DefaultPageSize: in.DefaultPageSize})
		if err != nil {
			out.RunErr = classifyRunErr(err)
			if strings.HasPrefix(out.RunErr, "validation:") {
				rest := strings.TrimPrefix(out.RunErr, "validation:")
				if in.Cursor != "" {
					out.RunErr = "validation:cursor"
				} else if out.ResolveErr != "" {
					out.RunErr = "validation:resolve"
				} else {
					_ = rest
					out.RunErr = "validation:params"
				}
			}
			return
		}
		out.Resource = string(*res)
		out.Captured = store.captured
		if in.Cursor != "" {
			var enc string
			switch v := store.raw.(type) {
			case common.ColumnPaginatedQuery[any]:
				enc = paginate.EncodeCursor(v)
			case common.OffsetPaginatedQuery[any]:
				enc = paginate.EncodeCursor(v)
			case common.ColumnPaginatedQuery[ledger.GetVolumesOptions]:
				enc = paginate.EncodeCursor(v)
			case common.OffsetPaginatedQuery[ledger.GetVolumesOptions]:
				enc = paginate.EncodeCursor(v)
			}
			out.CursorSame = enc == cur
		}
	})
	return out
}

// ---- generators -----------------------------------------------------------------

type fieldSpec struct {
	key string
	typ string // string | int | date | boolean | map-string | map-int
}

var tmplFields = map[string][]fieldSpec{
	"transactions": {{"account", "string"}, {"source", "string"}, {"destination", "string"}, {"reference", "string"},
		{"metadata[k]", "string"}, {"metadata[a/b_1]", "string"}, {"id", "int"}, {"timestamp", "date"}, {"reverted", "boolean"},
		{"metadata", "map-string"}, {"inserted_at", "date"}},
	"accounts": {{"address", "string"}, {"metadata[k]", "string"}, {"metadata[role]", "string"}, {"balance[USD]", "int"},
		{"balance[EUR/2]", "int"}, {"first_usage", "date"}, {"metadata", "map-string"}, {"balance", "map-int"}, {"updated_at", "date"}},
	"logs":    {{"id", "int"}, {"date", "date"}, {"type", "string"}},
	"volumes": {{"address", "string"}, {"account", "string"}, {"metadata[k]", "string"}, {"balance[USD]", "int"}, {"first_usage", "date"},
		{"metadata", "map-string"}},
}

var tmplVarNames = map[string][]string{
	"string":  {"s", "iban", "seg_a", "t"},
	"int":     {"n", "min_id", "amount"},
	"date":    {"d", "since"},
	"boolean": {"b", "flag"},
}

var tmplDates = []string{"2023-01-01T00:00:00Z", "2023-06-15T14:30:00+02:00", "2024-02-29T23:59:59.999999Z", "2022-12-31T23:59:59.5Z", "1999-12-31T00:00:00-05:00"}

func genTV(r *rand.Rand, typ string, valid bool) tv {
	if !valid {
		switch r.Intn(6) {
		case 0:
			return tv{K: "null"}
		case 1:
			return tv{K: "other"}
		case 2:
			return tv{K: "float", M: fmt.Sprint(1 + 2*r.Intn(50)), E: -1 - r.Intn(3)} // x.5 style
		case 3:
			return tv{K: "num", S: gen.Pick(r, []string{"1.5", "1e3", "12.0", "-0.1"})}
		case 4:
			return tv{K: "str", S: gen.Pick(r, []string{"notadate", "12", "true", ""})}
		default:
			typ = gen.Pick(r, []string{"string", "int", "date", "boolean"})
		}
	}
	switch typ {
	case "string":
		return tv{K: "str", S: gen.Pick(r, []string{"alice", "bank", "001", "", "a:b", "é", "x y", "${s}", "$", "日本", "it's"})}
	case "int":
		if r.Intn(2) == 0 {
			v := gen.BigAmount(r)
			if r.Intn(4) == 0 {
				v.Neg(v)
			}
			return tv{K: "num", S: v.String()}
		}
		m := r.Int63n(1 << 53)
		if r.Intn(3) > 0 {
			m = int64(r.Intn(1000))
		}
		e := 0
		if r.Intn(4) == 0 {
			e = r.Intn(14)
		}
		if r.Intn(12) == 0 {
			e = 11 + r.Intn(60)
		}
		if r.Intn(5) == 0 {
			m = -m
		}
		return tv{K: "float", M: fmt.Sprint(m), E: e}
	case "date":
		return tv{K: "str", S: gen.Pick(r, tmplDates)}
	default:
		return tv{K: "bool", B: r.Intn(2) == 0}
	}
}

func genStringTemplate(r *rand.Rand, names []string) string {
	lit := []string{"users", ":", "bank:", "", "a", "é", "日本", "x-1", "...", "::", "Ω"}
	var b strings.Builder
	n := 1 + r.Intn(4)
	for i := 0; i < n; i++ {
		switch r.Intn(8) {
		case 0, 1, 2:
			b.WriteString("${" + gen.Pick(r, names) + "}")
		case 3:
			b.WriteString("$" + gen.Pick(r, names))
			if r.Intn(2) == 0 {
				b.WriteString(":")
			}
		default:
			b.WriteString(gen.Pick(r, lit))
		}
	}
	if r.Intn(25) == 0 {
		b.WriteString(gen.Pick(r, []string{"$", "${", "${a", "$1", "${A}", "$$", "${_x}", "${}", "$ {a}"}))
	}
	return b.String()
}

func genTmplLeaf(r *rand.Rand, resource string, allNames []string, byType map[string][]string) any {
	fields := tmplFields[resource]
	if len(fields) == 0 {
		fields = tmplFields["accounts"]
	}
	f := gen.Pick(r, fields)
	key := f.key
	if r.Intn(30) == 0 {
		key = gen.Pick(r, []string{"nope", "metadata[]", "Metadata[k]", "address[x]", "id[1]", "metadata[k", "meta data", ""})
	}
	mk := func(op string, v any) any { return map[string]any{op: map[string]any{key: v}} }
	ref := func(typ string) string {
		ns := byType[typ]
		if len(ns) == 0 || r.Intn(10) == 0 {
			ns = allNames
		}
		if len(ns) == 0 {
			return "${missing}"
		}
		name := gen.Pick(r, ns)
		if r.Intn(20) == 0 {
			return gen.Pick(r, []string{"$" + name, "${" + name, name, "${" + name + "}x", "${v1}", "${_u}"})
		}
		return "${" + name + "}"
	}
	switch f.typ {
	case "string":
		switch r.Intn(6) {
		case 0:
			n := r.Intn(4)
			vs := make([]any, n)
			for i := range vs {
				vs[i] = genStringTemplate(r, allNamesOr(allNames))
				if r.Intn(6) == 0 {
					vs[i] = json.Number("7")
				}
			}
			return mk("$in", vs)
		case 1:
			return mk("$like", genStringTemplate(r, allNamesOr(allNames)))
		case 2:
			if r.Intn(3) == 0 {
				return mk(gen.Pick(r, []string{"$match", "$exists", "$in"}), gen.Pick(r, []any{json.Number("3"), true, nil, "plain"}))
			}
			fallthrough
		default:
			return mk("$match", genStringTemplate(r, allNamesOr(allNames)))
		}
	case "int":
		op := gen.Pick(r, []string{"$match", "$lt", "$lte", "$gt", "$gte"})
		switch r.Intn(5) {
		case 0:
			return mk(op, json.Number(gen.BigAmount(r).String()))
		case 1:
			if r.Intn(2) == 0 {
				return mk("$in", []any{ref("int"), json.Number("5")})
			}
			return mk(op, "12")
		default:
			return mk(op, ref("int"))
		}
	case "date":
		op := gen.Pick(r, []string{"$match", "$lt", "$lte", "$gt", "$gte"})
		if r.Intn(6) == 0 {
			return mk(op, gen.Pick(r, tmplDates))
		}
		return mk(op, ref("date"))
	case "boolean":
		if r.Intn(3) == 0 {
			return mk("$match", r.Intn(2) == 0)
		}
		return mk("$match", ref("boolean"))
	case "map-string":
		if r.Intn(3) == 0 {
			return mk("$match", genStringTemplate(r, allNamesOr(allNames)))
		}
		return mk("$exists", genStringTemplate(r, allNamesOr(allNames)))
	default: // map-int
		if r.Intn(2) == 0 {
			return mk("$exists", ref("int"))
		}
		return mk("$match", ref("int"))
	}
}

func allNamesOr(ns []string) []string {
	if len(ns) == 0 {
		return []string{"missing"}
	}
	return ns
}

func genTmplFilter(r *rand.Rand, resource string, depth int, all []string, byType map[string][]string) any {
	if depth == 0 || r.Intn(3) == 0 {
		return genTmplLeaf(r, resource, all, byType)
	}
	switch r.Intn(4) {
	case 0:
		return map[string]any{"$not": genTmplFilter(r, resource, depth-1, all, byType)}
	case 1:
		n := 1 + r.Intn(3)
		items := make([]any, n)
		for i := range items {
			items[i] = genTmplFilter(r, resource, depth-1, all, byType)
		}
		return map[string]any{"$or": items}
	default:
		n := r.Intn(4)
		items := make([]any, n)
		for i := range items {
			items[i] = genTmplFilter(r, resource, depth-1, all, byType)
		}
		return map[string]any{"$and": items}
	}
}

func genParams(r *rand.Rand, resource string) string {
	switch r.Intn(12) {
	case 0:
		return ""
	case 1:
		return gen.Pick(r, []string{"null", " null ", "{}"})
	case 2:
		return gen.Pick(r, []string{`{"pageSize":-1}`, `{"pageSize":"5"}`, `{"sort":":desc"}`, `{"sort":"id:up"}`, `{"endTime":"notadate"}`,
			`[1]`, `{"expand":"x"}`, `{"pageSize":18446744073709551616}`, `{"sort":" :asc"}`, `{"startTime":12}`, `{"groupBy":"2"}`,
			`{"insertionDate":"yes"}`, `{"pageSize":1.5}`})
	}
	m := map[string]any{}
	if r.Intn(2) == 0 {
		m["pageSize"] = json.Number(gen.Pick(r, []string{"1", "2", "3", "7", "15", "50", "100", "101", "1000", "0", "18446744073709551615"}))
	}
	if r.Intn(3) == 0 {
		m["endTime"] = gen.Pick(r, tmplDates)
	}
	if r.Intn(4) == 0 {
		m["startTime"] = gen.Pick(r, tmplDates)
	}
	if r.Intn(4) == 0 {
		m["expand"] = gen.Pick(r, [][]string{{}, {"volumes"}, {"effectiveVolumes", "volumes"}})
	}
	if r.Intn(2) == 0 {
		col := gen.Pick(r, []string{"id", "timestamp", "address", "account", "insertedAt", "firstUsage", "insertion_date", "updatedAt", "date"})
		switch r.Intn(4) {
		case 0:
			m["sort"] = col
		case 1:
			m["sort"] = col + ":" + gen.Pick(r, []string{"asc", "ASC", "Asc"})
		default:
			m["sort"] = col + ":" + gen.Pick(r, []string{"desc", "DESC", "desc", "Desc"})
		}
		if r.Intn(20) == 0 {
			m["sort"] = ""
		}
	}
	if r.Intn(4) == 0 {
		m["groupBy"] = json.Number(fmt.Sprint(r.Intn(4)))
	}
	if r.Intn(5) == 0 {
		m["insertionDate"] = r.Intn(2) == 0
	}
	if r.Intn(10) == 0 {
		m[gen.Pick(r, []string{"endTime", "startTime", "expand", "sort", "pageSize"})] = nil
	}
	b, _ := json.Marshal(m)
	return string(b)
}

func genCursorText(r *rand.Rand, resource string) string {
	qb := any(nil)
	if r.Intn(2) == 0 {
		key := "address"
		if resource == "transactions" {
			key = "account"
		} else if resource == "logs" {
			key = "type"
		}
		qb = map[string]any{"$match": map[string]any{key: "a:b"}}
	}
	opts := any(nil)
	filters := map[string]any{"pit": nil, "oot": nil, "qb": qb}
	if r.Intn(3) == 0 {
		filters["pit"] = "2023-01-01T00:00:00Z"
	}
	if r.Intn(4) == 0 {
		filters["expand"] = []string{"volumes"}
	}
	// field order of the Go structs, so that a re-encoding is byte-identical
	enc := func(pairs ...any) string {
		var b strings.Builder
		b.WriteByte('{')
		for i := 0; i < len(pairs); i += 2 {
			if i > 0 {
				b.WriteByte(',')
			}
			k, _ := json.Marshal(pairs[i])
			v, _ := json.Marshal(pairs[i+1])
			b.Write(k)
			b.WriteByte(':')
			b.Write(v)
		}
		b.WriteByte('}')
		return b.String()
	}
	if resource == "volumes" {
		// field order of GetVolumesOptions
		opts = json.RawMessage(enc("insertionDate", r.Intn(2) == 0, "groupBy", r.Intn(3)))
	}
	fpairs := []any{"pit", filters["pit"], "oot", nil, "qb", qb}
	if e, ok := filters["expand"]; ok {
		fpairs = append(fpairs, "expand", e)
	}
	fpairs = append(fpairs, "opts", opts)
	ftext := json.RawMessage(enc(fpairs...))
	col := gen.Pick(r, []string{"id", "address", "timestamp", "account"})
	if r.Intn(3) == 0 {
		return enc("column", col, "order", r.Intn(2), "pageSize", 1+r.Intn(20), "filters", ftext, "offset", r.Intn(50))
	}
	var bottom, pid any
	if r.Intn(4) > 0 {
		bottom = json.Number(gen.BigAmount(r).String())
	}
	if r.Intn(4) > 0 {
		pid = json.Number(gen.BigAmount(r).String())
	}
	text := enc("column", col, "order", r.Intn(2), "pageSize", 1+r.Intn(20), "filters", ftext, "bottom", bottom,
		"paginationID", pid, "reverse", r.Intn(2) == 0)
	if r.Intn(15) == 0 {
		return gen.Pick(r, []string{`{`, `[]`, `{"pageSize":-1}`, `{"offset":"x"}`, `"x"`})
	}
	return text
}

func genTemplateIn(c *gen.Ctx) tmplIn {
	r := c.R
	in := tmplIn{Resource: gen.Pick(r, []string{"transactions", "accounts", "logs", "volumes"}), Vars: map[string]tmplDecl{},
		Call: map[string]tv{}, DefaultPageSize: 15, MaxPageSize: 100}
	if r.Intn(40) == 0 {
		in.Resource = gen.Pick(r, []string{"schemas", "nope", ""})
	}
	if r.Intn(6) == 0 {
		in.DefaultPageSize = uint64(1 + r.Intn(30))
		in.MaxPageSize = uint64(10 + r.Intn(40))
	}
	byType := map[string][]string{}
	var all []string
	for typ, names := range map[string][]string{"string": tmplVarNames["string"], "int": tmplVarNames["int"], "date": tmplVarNames["date"], "boolean": tmplVarNames["boolean"]} {
		_ = typ
		_ = names
	}
	for _, typ := range []string{"string", "int", "date", "boolean"} {
		for _, name := range tmplVarNames[typ] {
			if r.Intn(2) == 0 {
				continue
			}
			d := tmplDecl{Type: typ}
			if r.Intn(3) == 0 {
				v := genTV(r, typ, r.Intn(8) > 0)
				d.Default = &v
			}
			in.Vars[name] = d
			byType[typ] = append(byType[typ], name)
			all = append(all, name)
			if r.Intn(4) > 0 {
				in.Call[name] = genTV(r, typ, r.Intn(30) > 0)
			}
		}
	}
	if r.Intn(8) == 0 {
		in.Call["undeclared"] = genTV(r, "string", true)
	}
	switch r.Intn(30) {
	case 0:
		in.Body = gen.Pick(r, []string{"", "null", "{}", "[]", `{"$match":{"address":"a","account":"b"}}`, `{"$and":{}}`, `{`, `{"$foo":{"id":1}}`,
			`{"$match":{"id":1.5}}`})
	default:
		depth := r.Intn(4)
		b, _ := json.Marshal(genTmplFilter(r, in.Resource, depth, all, byType))
		in.Body = string(b)
	}
	in.TParams = genParams(r, in.Resource)
	in.QParams = genParams(r, in.Resource)
	if r.Intn(3) == 0 {
		in.QParams = ""
	}
	if r.Intn(8) == 0 {
		in.Cursor = genCursorText(r, in.Resource)
	}
	return in
}

func init() {
	gen.Register("template", func(c *gen.Ctx) error {
		if c.Replay != "" {
			ins, err := c.ReplayInputs("template")
			if err != nil {
				return err
			}
			for _, raw := range ins {
				var in tmplIn
				if err := json.Unmarshal(raw, &in); err != nil {
					return err
				}
				if err := c.Emit("template", in, runTemplate(in)); err != nil {
					return err
				}
			}
			return nil
		}
		for i := 0; i < c.N; i++ {
			in := genTemplateIn(c)
			if err := c.Emit("template", in, runTemplate(in)); err != nil {
				return err
			}
		}
		return nil
	})
}
