//go:build verif

package wlquery

import (
	"database/sql/driver"
	"fmt"
	"math/big"
	"regexp"
	"sort"
	"strconv"
	"strings"
	"time"
)

// memRow is one row of the in-memory table behind pgHandler.
type memRow struct {
	Key  *big.Int // id; ts = UnixMicro(Key); name = zero-padded Key
	Tag  int64
	Kind string
}

func (r memRow) ts() time.Time { return time.UnixMicro(r.Key.Int64()).UTC() }
func (r memRow) name() string  { return fmt.Sprintf("n%020s", r.Key.String()) }

// The emulated row fetch. The statement is the one the REAL code rendered
// (buildFilteredDataset + paginator.Paginate + expand + outer ORDER BY); this
// function gives a relational meaning to exactly the fragments the paginator and
// pgHandler can produce and refuses anything else:
//
//	WITH "dataset" AS (SELECT * FROM (SELECT "id", "ts", "name", "kind", "tag", name AS label FROM items) dataset
//	  [WHERE (cond) [AND (cond)]...] [ORDER BY "col" DIR] [LIMIT n] [OFFSET n])
//	SELECT * FROM dataset ORDER BY "dataset"."col" DIR
//
// cond := kind = 'x' | col (>=|<=|<|>) 'literal'.
var (
	reOuter = regexp.MustCompile(`^WITH "dataset" AS \((.*)\) SELECT \* FROM dataset ORDER BY "dataset"\."(\w+)" (ASC|DESC)$`)
	reInner = regexp.MustCompile(`^SELECT \* FROM \(SELECT "id", "ts", "name", "kind", "tag", name AS label FROM items\) dataset( WHERE (.*?))?( ORDER BY "(\w+)" (ASC|DESC))?( LIMIT (\d+))?( OFFSET (\d+))?$`)
	reCond  = regexp.MustCompile(`^\((\w+) (=|>=|<=|<|>) '((?:[^']|'')*)'\)$`)
	reCount = regexp.MustCompile(`^SELECT count\(\*\) FROM \((.*)\) dataset( WHERE (.*?))?$`)
)

type fetchPlan struct {
	Conds            []string
	InnerCol, InnerD string
	Limit, Offset    int
	OuterCol, OuterD string
}

func cmpCol(col string, a, b memRow) int {
	switch col {
	case "id", "ts":
		return a.Key.Cmp(b.Key)
	case "name", "label":
		return strings.Compare(a.name(), b.name())
	}
	return 0
}

func evalCond(cond string, r memRow) (bool, error) {
	m := reCond.FindStringSubmatch(cond)
	if m == nil {
		return false, fmt.Errorf("emulation: unsupported condition %q", cond)
	}
	col, op, lit := m[1], m[2], strings.ReplaceAll(m[3], "''", "'")
	var c int
	switch col {
	case "kind":
		if op != "=" {
			return false, fmt.Errorf("emulation: unsupported condition %q", cond)
		}
		return r.Kind == lit, nil
	case "id":
		v, ok := new(big.Int).SetString(lit, 10)
		if !ok {
			return false, fmt.Errorf("emulation: bad numeric literal %q", lit)
		}
		c = r.Key.Cmp(v)
	case "ts":
		t, err := time.Parse("2006-01-02 15:04:05.999999999-07:00", lit)
		if err != nil {
			return false, fmt.Errorf("emulation: bad timestamp literal %q", lit)
		}
		c = r.ts().Compare(t)
	default:
		return false, fmt.Errorf("emulation: unsupported column %q", col)
	}
	switch op {
	case ">=":
		return c >= 0, nil
	case "<=":
		return c <= 0, nil
	case "<":
		return c < 0, nil
	case ">":
		return c > 0, nil
	}
	return false, fmt.Errorf("emulation: unsupported operator %q", op)
}

func splitConds(where string) []string {
	if where == "" {
		return nil
	}
	return strings.Split(where, " AND ")
}

func applyWhere(table []memRow, conds []string) ([]memRow, error) {
	var out []memRow
	for _, r := range table {
		keep := true
		for _, c := range conds {
			ok, err := evalCond(c, r)
			if err != nil {
				return nil, err
			}
			if !ok {
				keep = false
				break
			}
		}
		if keep {
			out = append(out, r)
		}
	}
	return out, nil
}

func sortRows(rows []memRow, col, dir string) {
	sort.SliceStable(rows, func(i, j int) bool {
		c := cmpCol(col, rows[i], rows[j])
		if dir == "DESC" {
			return c > 0
		}
		return c < 0
	})
}

// fetch interprets one rendered statement on the table.
func fetch(table []memRow, sql string) (cols []string, rows [][]driver.Value, plan *fetchPlan, err error) {
	if m := reCount.FindStringSubmatch(sql); m != nil {
		if m[1] != `SELECT "id", "ts", "name", "kind", "tag", name AS label FROM items` {
			return nil, nil, nil, fmt.Errorf("emulation: unexpected count dataset %q", m[1])
		}
		kept, err := applyWhere(table, splitConds(m[3]))
		if err != nil {
			return nil, nil, nil, err
		}
		return []string{"count"}, [][]driver.Value{{int64(len(kept))}}, &fetchPlan{Conds: splitConds(m[3])}, nil
	}
	mo := reOuter.FindStringSubmatch(sql)
	if mo == nil {
		return nil, nil, nil, fmt.Errorf("emulation: unexpected statement %q", sql)
	}
	mi := reInner.FindStringSubmatch(mo[1])
	if mi == nil {
		return nil, nil, nil, fmt.Errorf("emulation: unexpected dataset %q", mo[1])
	}
	p := &fetchPlan{Conds: splitConds(mi[2]), InnerCol: mi[4], InnerD: mi[5], Limit: -1, OuterCol: mo[2], OuterD: mo[3]}
	if mi[7] != "" {
		p.Limit, _ = strconv.Atoi(mi[7])
	}
	if mi[9] != "" {
		p.Offset, _ = strconv.Atoi(mi[9])
	}
	kept, err := applyWhere(table, p.Conds)
	if err != nil {
		return nil, nil, nil, err
	}
	if p.InnerCol != "" {
		sortRows(kept, p.InnerCol, p.InnerD)
	}
	if p.Offset > 0 {
		if p.Offset > len(kept) {
			kept = nil
		} else {
			kept = kept[p.Offset:]
		}
	}
	if p.Limit >= 0 && len(kept) > p.Limit {
		kept = kept[:p.Limit]
	}
	sortRows(kept, p.OuterCol, p.OuterD)
	for _, r := range kept {
		rows = append(rows, []driver.Value{r.Key.String(), r.ts(), r.name(), r.Kind, r.Tag})
	}
	return []string{"id", "ts", "name", "kind", "tag"}, rows, p, nil
}
