//go:build verif

package wlsql

import (
	"context"
	"encoding/json"
	"fmt"
	"math/big"
	"os"

	"github.com/formancehq/go-libs/v5/pkg/types/metadata"

	ledger "github.com/formancehq/ledger/internal"
	"github.com/formancehq/ledger/internal/storage/bucket"
	ledgerstore "github.com/formancehq/ledger/internal/storage/ledger"
	"github.com/formancehq/ledger/internal/verif/pgfake"
)

// smokeMain: a few real store calls over LeanPG, printing results (debug aid).
func smokeMain(args []string) int {
	srv, err := pgfake.Start(pgfake.DefaultLpgPath())
	if err != nil {
		fmt.Fprintln(os.Stderr, err)
		return 1
	}
	defer srv.Close()
	ctx := context.Background()
	l := ledger.MustNewWithDefault("smoke")
	l.ID = srv.AllocLedgerID()
	if err := srv.CreateLedger(l); err != nil {
		fmt.Fprintln(os.Stderr, "CreateLedger:", err)
		return 1
	}
	store := ledgerstore.New(srv.DB(), bucket.NewDefaultFactory().Create(l.Bucket), l)
	fail := func(what string, err error) int {
		fmt.Fprintln(os.Stderr, what+":", err)
		for _, s := range srv.Log() {
			if s.Err != "" {
				fmt.Fprintf(os.Stderr, "  [%s] %s\n", s.Err, s.SQL)
			}
		}
		return 1
	}
	tx := ledger.NewTransaction().
		WithPostings(ledger.NewPosting("world", "bank", "USD", big.NewInt(100)), ledger.NewPosting("bank", "alice", "USD", big.NewInt(40))).
		WithMetadata(metadata.Metadata{"k": "v"})
	if err := store.CommitTransaction(ctx, &tx); err != nil {
		return fail("CommitTransaction", err)
	}
	b, _ := json.Marshal(tx)
	fmt.Println("tx:", string(b))
	bal, err := store.GetBalances(ctx, ledgerstore.BalanceQuery{"bank": {"USD"}, "nobody": {"EUR"}})
	if err != nil {
		return fail("GetBalances", err)
	}
	fmt.Println("balances:", bal)
	lg := ledger.NewLog(ledger.CreatedTransaction{Transaction: tx, AccountMetadata: ledger.AccountMetadata{}})
	if err := store.InsertLog(ctx, &lg); err != nil {
		return fail("InsertLog", err)
	}
	lb, _ := json.Marshal(lg)
	fmt.Println("log:", string(lb))
	expected := lg
	expected.Hash = nil
	expected.ComputeHash(nil)
	fmt.Printf("hash model=%x go=%x\n", lg.Hash, expected.Hash)
	d, err := srv.Dump(l.Name)
	if err != nil {
		return fail("Dump", err)
	}
	fmt.Println("dump:", string(d))
	return 0
}
