//go:build verif

package wlsql

import (
	"context"
	"encoding/json"
	"fmt"
	"math/big"
	"os"
	"sync"
	"time"

	"github.com/formancehq/go-libs/v5/pkg/types/metadata"

	"github.com/formancehq/go-libs/v5/pkg/query"

	ledger "github.com/formancehq/ledger/internal"
	ledgercontroller "github.com/formancehq/ledger/internal/controller/ledger"
	systemcontroller "github.com/formancehq/ledger/internal/controller/system"
	"github.com/formancehq/ledger/internal/storage/bucket"
	"github.com/formancehq/go-libs/v5/pkg/storage/postgres"
	"github.com/formancehq/ledger/internal/storage/common"
	ledgerstore "github.com/formancehq/ledger/internal/storage/ledger"
	storagedriver "github.com/formancehq/ledger/internal/storage/driver"
	systemstore "github.com/formancehq/ledger/internal/storage/system"
	"github.com/formancehq/ledger/internal/verif/pgfake"
)

// smokeMain: a few real store calls over LeanPG, printing results (debug aid).
func smokeMain(args []string) int {
	srv, err := pgfake.Start(pgfake.DefaultLpgPath())
	if err != nil {
		fmt.Fprintln(os.Stderr, err)
		return 1
	}
	defer srv.Close()
	ctx := context.Background()
	l := ledger.MustNewWithDefault("smoke")
	l.ID = srv.AllocLedgerID()
	if err := srv.CreateLedger(l); err != nil {
		fmt.Fprintln(os.Stderr, "CreateLedger:", err)
		return 1
	}
	store := ledgerstore.New(srv.DB(), bucket.NewDefaultFactory().Create(l.Bucket), l)
	fail := func(what string, err error) int {
		fmt.Fprintln(os.Stderr, what+":", err)
		for _, s := range srv.Log() {
			if s.Err != "" {
				fmt.Fprintf(os.Stderr, "  [%s] %s\n", s.Err, s.SQL)
			}
		}
		return 1
	}
	tx := ledger.NewTransaction().
		WithPostings(ledger.NewPosting("world", "bank", "USD", big.NewInt(100)), ledger.NewPosting("bank", "alice", "USD", big.NewInt(40))).
		WithMetadata(metadata.Metadata{"k": "v"})
	if err := store.CommitTransaction(ctx, &tx); err != nil {
		return fail("CommitTransaction", err)
	}
	b, _ := json.Marshal(tx)
	fmt.Println("tx:", string(b))
	bal, err := store.GetBalances(ctx, ledgerstore.BalanceQuery{"bank": {"USD"}, "nobody": {"EUR"}})
	if err != nil {
		return fail("GetBalances", err)
	}
	fmt.Println("balances:", bal)
	lg := ledger.NewLog(ledger.CreatedTransaction{Transaction: tx, AccountMetadata: ledger.AccountMetadata{}})
	if err := store.InsertLog(ctx, &lg); err != nil {
		return fail("InsertLog", err)
	}
	lb, _ := json.Marshal(lg)
	fmt.Println("log:", string(lb))
	expected := lg
	expected.Hash = nil
	expected.ComputeHash(nil)
	fmt.Printf("hash model=%x go=%x\n", lg.Hash, expected.Hash)
	d, err := srv.Dump(l.Name)
	if err != nil {
		return fail("Dump", err)
	}
	fmt.Println("dump:", string(d))
	return 0
}

// sysSmokeMain: the system store and the state tracker's raw SQL over LeanPG.
func sysSmokeMain(args []string) int {
	srv, err := pgfake.Start(pgfake.DefaultLpgPath())
	if err != nil {
		fmt.Fprintln(os.Stderr, err)
		return 1
	}
	defer srv.Close()
	ctx := context.Background()
	check := func(what string, err error) bool {
		if err != nil {
			fmt.Fprintln(os.Stderr, what+":", err)
			for _, s := range srv.Log() {
				if s.Err != "" {
					fmt.Fprintf(os.Stderr, "  [%s] %s\n", s.Err, s.SQL)
				}
			}
			return false
		}
		return true
	}
	sys := systemstore.New(srv.DB())
	l1 := ledger.MustNewWithDefault("l1")
	l2 := ledger.MustNewWithDefault("l2")
	if !check("create l1", srv.CreateLedgerInSystem(ctx, &l1)) || !check("create l2", srv.CreateLedgerInSystem(ctx, &l2)) {
		return 1
	}
	fmt.Println("ids:", l1.ID, l2.ID, "addedAt:", l1.AddedAt)
	dup := ledger.MustNewWithDefault("l1")
	fmt.Println("duplicate:", srv.CreateLedgerInSystem(ctx, &dup))
	n, err := sys.CountLedgersInBucket(ctx, "_default")
	if !check("count", err) {
		return 1
	}
	fmt.Println("count:", n)
	if !check("update metadata", sys.UpdateLedgerMetadata(ctx, "l1", metadata.Metadata{"a": "b"})) {
		return 1
	}
	if !check("delete metadata", sys.DeleteLedgerMetadata(ctx, "l1", "zz")) {
		return 1
	}
	got, err := sys.GetLedger(ctx, "l1")
	if !check("get", err) {
		return 1
	}
	b, _ := json.Marshal(got)
	fmt.Println("l1:", string(b), "state:", got.State)
	cur, err := sys.Ledgers().Paginate(ctx, common.InitialPaginatedQuery[systemstore.ListLedgersQueryPayload]{PageSize: 10})
	if !check("list", err) {
		return 1
	}
	fmt.Println("listed:", len(cur.Data))
	bk, err := sys.GetDistinctBuckets(ctx)
	if !check("buckets", err) {
		return 1
	}
	fmt.Println("buckets:", bk)
	// state tracker statements
	_, err = srv.DB().NewUpdate().Model(&l1).Set("state = ?", ledger.StateInUse).Where("id = ? and state = ?", l1.ID, ledger.StateInitializing).Exec(ctx)
	if !check("state update", err) {
		return 1
	}
	_, err = srv.DB().NewRaw(fmt.Sprintf(`select setval('"%s"."transaction_id_%d"', (select max(id) from "%s".transactions where ledger = '%s')::bigint)`, l1.Bucket, l1.ID, l1.Bucket, l1.Name)).Exec(ctx)
	if !check("setval", err) {
		return 1
	}
	// exporters / pipelines
	exp := ledger.NewExporter(ledger.NewExporterConfiguration("exporter1", json.RawMessage(`{}`)))
	if !check("create exporter", sys.CreateExporter(ctx, exp)) {
		return 1
	}
	pip := ledger.NewPipeline(ledger.NewPipelineConfiguration("l1", exp.ID))
	if !check("create pipeline", sys.CreatePipeline(ctx, pip)) {
		return 1
	}
	fmt.Println("duplicate pipeline:", sys.CreatePipeline(ctx, ledger.NewPipeline(ledger.NewPipelineConfiguration("l1", exp.ID))))
	orphan := ledger.NewPipeline(ledger.NewPipelineConfiguration("l1", "nope"))
	fmt.Println("orphan pipeline:", postgres.ResolveError(sys.CreatePipeline(ctx, orphan)))
	if !check("store state", sys.StorePipelineState(ctx, pip.ID, 42)) {
		return 1
	}
	up, err := sys.UpdatePipeline(ctx, pip.ID, map[string]any{"enabled": true})
	if !check("update pipeline", err) {
		return 1
	}
	fmt.Println("pipeline:", up.Enabled, up.LastLogID)
	en, err := sys.ListEnabledPipelines(ctx)
	if !check("enabled", err) {
		return 1
	}
	fmt.Println("enabled pipelines:", len(en))
	if !check("delete exporter", sys.DeleteExporter(ctx, exp.ID)) {
		return 1
	}
	_, err = sys.GetPipeline(ctx, pip.ID)
	fmt.Println("pipeline after cascade:", err)
	return 0
}

// schedSmokeMain: three tasks commit transactions on overlapping accounts under
// the deterministic scheduler; prints the interleaving and checks that the same
// seed reproduces it.
func schedSmokeMain(args []string) int {
	seed := int64(1)
	if len(args) > 0 {
		fmt.Sscan(args[0], &seed)
	}
	runOnce := func(opts pgfake.SchedOptions) (pgfake.SchedResult, string, error) {
		srv, err := pgfake.Start(pgfake.DefaultLpgPath())
		if err != nil {
			return pgfake.SchedResult{}, "", err
		}
		defer srv.Close()
		l := ledger.MustNewWithDefault("sched")
		if err := srv.CreateLedgerInSystem(context.Background(), &l); err != nil {
			return pgfake.SchedResult{}, "", err
		}
		store := ledgerstore.New(srv.DB(), bucket.NewDefaultFactory().Create(l.Bucket), l)
		sch := pgfake.NewScheduler(srv, opts)
		var mu sync.Mutex
		outcomes := map[string]string{}
		mk := func(name, src, dst string, amount int64) {
			sch.Go(name, func(ctx context.Context) {
				st, tx, err := store.BeginTX(ctx, nil)
				seen := "?"
				if err == nil {
					var bal ledger.Balances
					bal, err = st.GetBalances(ctx, ledgerstore.BalanceQuery{src: {"USD"}})
					if err == nil {
						seen = bal[src]["USD"].String()
					}
				}
				if err == nil {
					t := ledger.NewTransaction().WithPostings(ledger.NewPosting(src, dst, "USD", big.NewInt(amount)))
					err = st.CommitTransaction(ctx, &t)
				}
				if err == nil {
					err = tx.Commit()
				} else if tx != nil {
					_ = tx.Rollback()
				}
				mu.Lock()
				outcomes[name] = fmt.Sprintf("saw %s=%s err=%v", src, seen, err)
				mu.Unlock()
			})
		}
		mk("a", "acc:1", "acc:2", 10)
		mk("b", "acc:2", "acc:1", 20)
		mk("c", "acc:1", "acc:3", 5)
		res := sch.Run()
		d, err := srv.Dump(l.Name)
		if err != nil {
			return res, "", err
		}
		var dump map[string][]map[string]any
		_ = json.Unmarshal(d, &dump)
		var vols []string
		for _, r := range dump["_default.accounts_volumes"] {
			vols = append(vols, fmt.Sprintf("%v:%v/%v", r["accounts_address"], r["input"], r["output"]))
		}
		return res, fmt.Sprintf("outcomes=%v volumes=%v", outcomes, vols), nil
	}
	res, summary, err := runOnce(pgfake.SchedOptions{Seed: seed})
	if err != nil {
		fmt.Fprintln(os.Stderr, err)
		return 1
	}
	for _, e := range res.Events {
		sql := e.SQL
		if len(sql) > 90 {
			sql = sql[:90] + "…"
		}
		fmt.Printf("%3d %s s%d %-10s %s\n", e.Step, e.Task, e.Session, e.Result, sql)
	}
	fmt.Println("choices:", res.Choices, "stuck:", res.Stuck)
	fmt.Println(summary)
	res2, summary2, err := runOnce(pgfake.SchedOptions{Choices: res.Choices})
	if err != nil {
		fmt.Fprintln(os.Stderr, err)
		return 1
	}
	same := len(res.Events) == len(res2.Events) && summary == summary2
	for i := range res.Events {
		if i < len(res2.Events) && (res.Events[i].Task != res2.Events[i].Task || res.Events[i].Result != res2.Events[i].Result) {
			same = false
		}
	}
	fmt.Println("replay identical:", same)
	if !same {
		fmt.Println(summary2)
		return 1
	}
	return 0
}

// benchMain: n commits on one ledger (performance probe).
func benchMain(args []string) int {
	n := 500
	if len(args) > 0 {
		fmt.Sscan(args[0], &n)
	}
	srv, err := pgfake.Start(pgfake.DefaultLpgPath())
	if err != nil {
		fmt.Fprintln(os.Stderr, err)
		return 1
	}
	defer srv.Close()
	ctx := context.Background()
	l := ledger.MustNewWithDefault("bench")
	if err := srv.CreateLedgerInSystem(ctx, &l); err != nil {
		fmt.Fprintln(os.Stderr, err)
		return 1
	}
	store := ledgerstore.New(srv.DB(), bucket.NewDefaultFactory().Create(l.Bucket), l)
	t0 := time.Now()
	for i := 0; i < n; i++ {
		tx := ledger.NewTransaction().WithPostings(ledger.NewPosting("world", fmt.Sprintf("users:%d", i%20), "USD", big.NewInt(100)),
			ledger.NewPosting(fmt.Sprintf("users:%d", i%20), "bank", "USD", big.NewInt(10)))
		if err := store.CommitTransaction(ctx, &tx); err != nil {
			fmt.Fprintln(os.Stderr, err)
			return 1
		}
		if (i+1)%100 == 0 {
			fmt.Printf("%d commits: %.1fs\n", i+1, time.Since(t0).Seconds())
		}
	}
	t1 := time.Now()
	cur, err := store.Transactions().Paginate(ctx, common.InitialPaginatedQuery[any]{PageSize: 15})
	if err != nil {
		fmt.Fprintln(os.Stderr, err)
		return 1
	}
	fmt.Printf("list page (%d rows): %.2fs\n", len(cur.Data), time.Since(t1).Seconds())
	return 0
}

// driverSmokeMain: the REAL storage driver (CreateLedger / OpenLedger) over LeanPG.
func driverSmokeMain(args []string) int {
	srv, err := pgfake.Start(pgfake.DefaultLpgPath())
	if err != nil {
		fmt.Fprintln(os.Stderr, err)
		return 1
	}
	defer srv.Close()
	ctx := context.Background()
	d := storagedriver.New(srv.DB(), ledgerstore.NewFactory(srv.DB()), bucket.NewDefaultFactory(), systemstore.NewStoreFactory())
	for _, spec := range [][2]string{{"l1", "_default"}, {"l2", "_default"}, {"l3", "other"}} {
		cfg := ledger.NewDefaultConfiguration()
		cfg.Bucket = spec[1]
		l, err := ledger.New(spec[0], cfg)
		if err != nil {
			fmt.Fprintln(os.Stderr, err)
			return 1
		}
		store, err := d.CreateLedger(ctx, l)
		if err != nil {
			fmt.Fprintln(os.Stderr, "CreateLedger", spec, ":", err)
			for _, s := range srv.Log() {
				if s.Err != "" {
					fmt.Fprintf(os.Stderr, "  [%s] %s\n", s.Err, s.SQL)
				}
			}
			return 1
		}
		up, err := store.HasMinimalVersion(ctx)
		fmt.Println("created", l.Name, "id", l.ID, "bucket", l.Bucket, "upToDate", up, err)
		tx := ledger.NewTransaction().WithPostings(ledger.NewPosting("world", "bank", "USD", big.NewInt(5)))
		if err := store.CommitTransaction(ctx, &tx); err != nil {
			fmt.Fprintln(os.Stderr, "commit:", err)
			return 1
		}
	}
	st, l, err := d.OpenLedger(ctx, "l3")
	if err != nil {
		fmt.Fprintln(os.Stderr, "OpenLedger:", err)
		return 1
	}
	n, err := st.Transactions().Count(ctx, common.ResourceQuery[any]{})
	fmt.Println("opened", l.Name, "transactions:", n, err)
	dup := ledger.MustNewWithDefault("l1")
	_, err = d.CreateLedger(ctx, &dup)
	fmt.Println("duplicate:", err)
	return 0
}

// blocksSmokeMain: HASH_LOGS=ASYNC ledger, a few logs, then `call create_blocks`.
func blocksSmokeMain(args []string) int {
	srv, err := pgfake.Start(pgfake.DefaultLpgPath())
	if err != nil {
		fmt.Fprintln(os.Stderr, err)
		return 1
	}
	defer srv.Close()
	ctx := context.Background()
	cfg := ledger.NewDefaultConfiguration()
	cfg.Features = cfg.Features.With("HASH_LOGS", "ASYNC")
	l, _ := ledger.New("blk", cfg)
	if err := srv.CreateLedgerInSystem(ctx, l); err != nil {
		fmt.Fprintln(os.Stderr, err)
		return 1
	}
	store := ledgerstore.New(srv.DB(), bucket.NewDefaultFactory().Create(l.Bucket), *l)
	for i := 0; i < 5; i++ {
		lg := ledger.NewLog(ledger.SavedMetadata{TargetType: ledger.MetaTargetTypeAccount, TargetID: fmt.Sprintf("acc:%d", i), Metadata: metadata.Metadata{"k": "v"}})
		if err := store.InsertLog(ctx, &lg); err != nil {
			fmt.Fprintln(os.Stderr, "InsertLog:", err)
			return 1
		}
	}
	for round := 0; round < 2; round++ {
		if _, err := srv.DB().NewRaw(fmt.Sprintf(`call "%s".create_blocks(?, ?)`, l.Bucket), l.Name, 2).Exec(ctx); err != nil {
			fmt.Fprintln(os.Stderr, "create_blocks:", err)
			for _, s := range srv.Log() {
				if s.Err != "" {
					fmt.Fprintf(os.Stderr, "  [%s] %s\n", s.Err, s.SQL)
				}
			}
			return 1
		}
	}
	d, _ := srv.Dump(l.Name)
	var dump map[string][]map[string]any
	_ = json.Unmarshal(d, &dump)
	for _, b := range dump["_default.logs_blocks"] {
		fmt.Println(b["id"], b["previous"], b["from_id"], b["to_id"], b["hash"])
	}
	for _, lg := range dump["_default.logs"] {
		fmt.Println("LOG", lg["id"], lg["type"], lg["date"], lg["memento"])
	}
	return 0
}

// ctrlSmokeMain: the REAL system controller + ledger controller (log processor,
// Numscript machine, state tracker, cache) over the real storage driver over LeanPG.
func ctrlSmokeMain(args []string) int {
	srv, err := pgfake.Start(pgfake.DefaultLpgPath())
	if err != nil {
		fmt.Fprintln(os.Stderr, err)
		return 1
	}
	defer srv.Close()
	ctx := context.Background()
	db := srv.DB()
	d := storagedriver.New(db, ledgerstore.NewFactory(db), bucket.NewDefaultFactory(), systemstore.NewStoreFactory())
	parser := ledgercontroller.NewDefaultNumscriptParser()
	sys := systemcontroller.NewDefaultController(
		systemcontroller.NewControllerStorageDriverAdapter(d, systemstore.New(db)), nil, nil,
		systemcontroller.WithParser(parser, parser, ledgercontroller.NewInterpreterNumscriptParser(nil)),
		systemcontroller.WithEnableFeatures(true),
	)
	fail := func(what string, err error) int {
		fmt.Fprintln(os.Stderr, what+":", err)
		for _, s := range srv.Log() {
			if s.Err != "" && s.Err != "23505" {
				fmt.Fprintf(os.Stderr, "  [%s] %s\n", s.Err, s.SQL)
			}
		}
		return 1
	}
	if err := sys.CreateLedger(ctx, "c1", ledger.NewDefaultConfiguration()); err != nil {
		return fail("CreateLedger", err)
	}
	ctrl, err := sys.GetLedgerController(ctx, "c1")
	if err != nil {
		return fail("GetLedgerController", err)
	}
	mkTx := func(src, dst string, amount int64, ik string) error {
		_, _, _, err := ctrl.CreateTransaction(ctx, ledgercontroller.Parameters[ledgercontroller.CreateTransaction]{
			IdempotencyKey: ik,
			Input: ledgercontroller.CreateTransaction{
				RunScript: ledgercontroller.TxToScriptData(ledger.TransactionData{
					Postings: ledger.Postings{ledger.NewPosting(src, dst, "USD", big.NewInt(amount))},
					Metadata: metadata.Metadata{"k": "v"},
				}, false),
			},
		})
		return err
	}
	if err := mkTx("world", "bank", 100, "ik1"); err != nil {
		return fail("CreateTransaction 1", err)
	}
	if err := mkTx("bank", "alice", 30, ""); err != nil {
		return fail("CreateTransaction 2", err)
	}
	fmt.Println("insufficient funds:", mkTx("alice", "bob", 1000, ""))
	fmt.Println("idempotent replay:", mkTx("world", "bank", 100, "ik1"))
	fmt.Println("ik with other input:", mkTx("world", "bank", 101, "ik1"))
	if _, _, err := ctrl.SaveAccountMetadata(ctx, ledgercontroller.Parameters[ledgercontroller.SaveAccountMetadata]{Input: ledgercontroller.SaveAccountMetadata{Address: "alice", Metadata: metadata.Metadata{"role": "admin"}}}); err != nil {
		return fail("SaveAccountMetadata", err)
	}
	if _, _, err := ctrl.SaveTransactionMetadata(ctx, ledgercontroller.Parameters[ledgercontroller.SaveTransactionMetadata]{Input: ledgercontroller.SaveTransactionMetadata{TransactionID: 1, Metadata: metadata.Metadata{"x": "y"}}}); err != nil {
		return fail("SaveTransactionMetadata", err)
	}
	if _, _, err := ctrl.DeleteTransactionMetadata(ctx, ledgercontroller.Parameters[ledgercontroller.DeleteTransactionMetadata]{Input: ledgercontroller.DeleteTransactionMetadata{TransactionID: 1, Key: "x"}}); err != nil {
		return fail("DeleteTransactionMetadata", err)
	}
	if _, _, err := ctrl.DeleteAccountMetadata(ctx, ledgercontroller.Parameters[ledgercontroller.DeleteAccountMetadata]{Input: ledgercontroller.DeleteAccountMetadata{Address: "alice", Key: "role"}}); err != nil {
		return fail("DeleteAccountMetadata", err)
	}
	if _, _, _, err := ctrl.RevertTransaction(ctx, ledgercontroller.Parameters[ledgercontroller.RevertTransaction]{Input: ledgercontroller.RevertTransaction{TransactionID: 2}}); err != nil {
		return fail("RevertTransaction", err)
	}
	_, _, _, err = ctrl.RevertTransaction(ctx, ledgercontroller.Parameters[ledgercontroller.RevertTransaction]{Input: ledgercontroller.RevertTransaction{TransactionID: 2}})
	fmt.Println("second revert:", err)
	acc, err := ctrl.GetAccount(ctx, common.ResourceQuery[any]{Builder: query.Match("address", "bank"), Expand: []string{"volumes", "effectiveVolumes"}})
	if err != nil {
		return fail("GetAccount", err)
	}
	ab, _ := json.Marshal(acc)
	fmt.Println("bank:", string(ab))
	txs, err := ctrl.ListTransactions(ctx, common.InitialPaginatedQuery[any]{PageSize: 10, Options: common.ResourceQuery[any]{Expand: []string{"volumes", "effectiveVolumes"}}})
	if err != nil {
		return fail("ListTransactions", err)
	}
	fmt.Println("transactions:", len(txs.Data))
	logs, err := ctrl.ListLogs(ctx, common.InitialPaginatedQuery[any]{PageSize: 20})
	if err != nil {
		return fail("ListLogs", err)
	}
	fmt.Println("logs:", len(logs.Data))
	agg, err := ctrl.GetAggregatedBalances(ctx, common.ResourceQuery[ledger.GetAggregatedVolumesOptions]{})
	if err != nil {
		return fail("GetAggregatedBalances", err)
	}
	fmt.Println("aggregated:", agg)
	stats, err := ctrl.GetStats(ctx)
	if err != nil {
		return fail("GetStats", err)
	}
	fmt.Println("stats:", stats)
	// export / import into a second ledger
	if err := sys.CreateLedger(ctx, "c2", ledger.NewDefaultConfiguration()); err != nil {
		return fail("CreateLedger c2", err)
	}
	ctrl2, err := sys.GetLedgerController(ctx, "c2")
	if err != nil {
		return fail("GetLedgerController c2", err)
	}
	ch := make(chan ledger.Log, 100)
	go func() {
		defer close(ch)
		_ = ctrl.Export(ctx, ledgercontroller.ExportWriterFn(func(ctx context.Context, log ledger.Log) error {
			ch <- log
			return nil
		}))
	}()
	if err := ctrl2.Import(ctx, ch); err != nil {
		return fail("Import", err)
	}
	d1, _ := srv.Dump("c1")
	d2, _ := srv.Dump("c2")
	fmt.Println("dump sizes:", len(d1), len(d2))
	return 0
}
