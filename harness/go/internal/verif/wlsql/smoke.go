//go:build verif

package wlsql

import (
	"context"
	"encoding/json"
	"fmt"
	"math/big"
	"os"
	"sync"
	"time"

	"github.com/formancehq/go-libs/v5/pkg/types/metadata"

	ledger "github.com/formancehq/ledger/internal"
	"github.com/formancehq/ledger/internal/storage/bucket"
	"github.com/formancehq/go-libs/v5/pkg/storage/postgres"
	"github.com/formancehq/ledger/internal/storage/common"
	ledgerstore "github.com/formancehq/ledger/internal/storage/ledger"
	systemstore "github.com/formancehq/ledger/internal/storage/system"
	"github.com/formancehq/ledger/internal/verif/pgfake"
)

// smokeMain: a few real store calls over LeanPG, printing results (debug aid).
func smokeMain(args []string) int {
	srv, err := pgfake.Start(pgfake.DefaultLpgPath())
	if err != nil {
		fmt.Fprintln(os.Stderr, err)
		return 1
	}
	defer srv.Close()
	ctx := context.Background()
	l := ledger.MustNewWithDefault("smoke")
	l.ID = srv.AllocLedgerID()
	if err := srv.CreateLedger(l); err != nil {
		fmt.Fprintln(os.Stderr, "CreateLedger:", err)
		return 1
	}
	store := ledgerstore.New(srv.DB(), bucket.NewDefaultFactory().Create(l.Bucket), l)
	fail := func(what string, err error) int {
		fmt.Fprintln(os.Stderr, what+":", err)
		for _, s := range srv.Log() {
			if s.Err != "" {
				fmt.Fprintf(os.Stderr, "  [%s] %s\n", s.Err, s.SQL)
			}
		}
		return 1
	}
	tx := ledger.NewTransaction().
		WithPostings(ledger.NewPosting("world", "bank", "USD", big.NewInt(100)), ledger.NewPosting("bank", "alice", "USD", big.NewInt(40))).
		WithMetadata(metadata.Metadata{"k": "v"})
	if err := store.CommitTransaction(ctx, &tx); err != nil {
		return fail("CommitTransaction", err)
	}
	b, _ := json.Marshal(tx)
	fmt.Println("tx:", string(b))
	bal, err := store.GetBalances(ctx, ledgerstore.BalanceQuery{"bank": {"USD"}, "nobody": {"EUR"}})
	if err != nil {
		return fail("GetBalances", err)
	}
	fmt.Println("balances:", bal)
	lg := ledger.NewLog(ledger.CreatedTransaction{Transaction: tx, AccountMetadata: ledger.AccountMetadata{}})
	if err := store.InsertLog(ctx, &lg); err != nil {
		return fail("InsertLog", err)
	}
	lb, _ := json.Marshal(lg)
	fmt.Println("log:", string(lb))
	expected := lg
	expected.Hash = nil
	expected.ComputeHash(nil)
	fmt.Printf("hash model=%x go=%x\n", lg.Hash, expected.Hash)
	d, err := srv.Dump(l.Name)
	if err != nil {
		return fail("Dump", err)
	}
	fmt.Println("dump:", string(d))
	return 0
}

// sysSmokeMain: the system store and the state tracker's raw SQL over LeanPG.
func sysSmokeMain(args []string) int {
	srv, err := pgfake.Start(pgfake.DefaultLpgPath())
	if err != nil {
		fmt.Fprintln(os.Stderr, err)
		return 1
	}
	defer srv.Close()
	ctx := context.Background()
	check := func(what string, err error) bool {
		if err != nil {
			fmt.Fprintln(os.Stderr, what+":", err)
			for _, s := range srv.Log() {
				if s.Err != "" {
					fmt.Fprintf(os.Stderr, "  [%s] %s\n", s.Err, s.SQL)
				}
			}
			return false
		}
		return true
	}
	sys := systemstore.New(srv.DB())
	l1 := ledger.MustNewWithDefault("l1")
	l2 := ledger.MustNewWithDefault("l2")
	if !check("create l1", srv.CreateLedgerInSystem(ctx, &l1)) || !check("create l2", srv.CreateLedgerInSystem(ctx, &l2)) {
		return 1
	}
	fmt.Println("ids:", l1.ID, l2.ID, "addedAt:", l1.AddedAt)
	dup := ledger.MustNewWithDefault("l1")
	fmt.Println("duplicate:", srv.CreateLedgerInSystem(ctx, &dup))
	n, err := sys.CountLedgersInBucket(ctx, "_default")
	if !check("count", err) {
		return 1
	}
	fmt.Println("count:", n)
	if !check("update metadata", sys.UpdateLedgerMetadata(ctx, "l1", metadata.Metadata{"a": "b"})) {
		return 1
	}
	if !check("delete metadata", sys.DeleteLedgerMetadata(ctx, "l1", "zz")) {
		return 1
	}
	got, err := sys.GetLedger(ctx, "l1")
	if !check("get", err) {
		return 1
	}
	b, _ := json.Marshal(got)
	fmt.Println("l1:", string(b), "state:", got.State)
	cur, err := sys.Ledgers().Paginate(ctx, common.InitialPaginatedQuery[systemstore.ListLedgersQueryPayload]{PageSize: 10})
	if !check("list", err) {
		return 1
	}
	fmt.Println("listed:", len(cur.Data))
	bk, err := sys.GetDistinctBuckets(ctx)
	if !check("buckets", err) {
		return 1
	}
	fmt.Println("buckets:", bk)
	// state tracker statements
	_, err = srv.DB().NewUpdate().Model(&l1).Set("state = ?", ledger.StateInUse).Where("id = ? and state = ?", l1.ID, ledger.StateInitializing).Exec(ctx)
	if !check("state update", err) {
		return 1
	}
	_, err = srv.DB().NewRaw(fmt.Sprintf(`select setval('"%s"."transaction_id_%d"', (select max(id) from "%s".transactions where ledger = '%s')::bigint)`, l1.Bucket, l1.ID, l1.Bucket, l1.Name)).Exec(ctx)
	if !check("setval", err) {
		return 1
	}
	// exporters / pipelines
	exp := ledger.NewExporter(ledger.NewExporterConfiguration("exporter1", json.RawMessage(`{}`)))
	if !check("create exporter", sys.CreateExporter(ctx, exp)) {
		return 1
	}
	pip := ledger.NewPipeline(ledger.NewPipelineConfiguration("l1", exp.ID))
	if !check("create pipeline", sys.CreatePipeline(ctx, pip)) {
		return 1
	}
	fmt.Println("duplicate pipeline:", sys.CreatePipeline(ctx, ledger.NewPipeline(ledger.NewPipelineConfiguration("l1", exp.ID))))
	orphan := ledger.NewPipeline(ledger.NewPipelineConfiguration("l1", "nope"))
	fmt.Println("orphan pipeline:", postgres.ResolveError(sys.CreatePipeline(ctx, orphan)))
	if !check("store state", sys.StorePipelineState(ctx, pip.ID, 42)) {
		return 1
	}
	up, err := sys.UpdatePipeline(ctx, pip.ID, map[string]any{"enabled": true})
	if !check("update pipeline", err) {
		return 1
	}
	fmt.Println("pipeline:", up.Enabled, up.LastLogID)
	en, err := sys.ListEnabledPipelines(ctx)
	if !check("enabled", err) {
		return 1
	}
	fmt.Println("enabled pipelines:", len(en))
	if !check("delete exporter", sys.DeleteExporter(ctx, exp.ID)) {
		return 1
	}
	_, err = sys.GetPipeline(ctx, pip.ID)
	fmt.Println("pipeline after cascade:", err)
	return 0
}

// schedSmokeMain: three tasks commit transactions on overlapping accounts under
// the deterministic scheduler; prints the interleaving and checks that the same
// seed reproduces it.
func schedSmokeMain(args []string) int {
	seed := int64(1)
	if len(args) > 0 {
		fmt.Sscan(args[0], &seed)
	}
	runOnce := func(opts pgfake.SchedOptions) (pgfake.SchedResult, string, error) {
		srv, err := pgfake.Start(pgfake.DefaultLpgPath())
		if err != nil {
			return pgfake.SchedResult{}, "", err
		}
		defer srv.Close()
		l := ledger.MustNewWithDefault("sched")
		if err := srv.CreateLedgerInSystem(context.Background(), &l); err != nil {
			return pgfake.SchedResult{}, "", err
		}
		store := ledgerstore.New(srv.DB(), bucket.NewDefaultFactory().Create(l.Bucket), l)
		sch := pgfake.NewScheduler(srv, opts)
		var mu sync.Mutex
		outcomes := map[string]string{}
		mk := func(name, src, dst string, amount int64) {
			sch.Go(name, func(ctx context.Context) {
				st, tx, err := store.BeginTX(ctx, nil)
				seen := "?"
				if err == nil {
					var bal ledger.Balances
					bal, err = st.GetBalances(ctx, ledgerstore.BalanceQuery{src: {"USD"}})
					if err == nil {
						seen = bal[src]["USD"].String()
					}
				}
				if err == nil {
					t := ledger.NewTransaction().WithPostings(ledger.NewPosting(src, dst, "USD", big.NewInt(amount)))
					err = st.CommitTransaction(ctx, &t)
				}
				if err == nil {
					err = tx.Commit()
				} else if tx != nil {
					_ = tx.Rollback()
				}
				mu.Lock()
				outcomes[name] = fmt.Sprintf("saw %s=%s err=%v", src, seen, err)
				mu.Unlock()
			})
		}
		mk("a", "acc:1", "acc:2", 10)
		mk("b", "acc:2", "acc:1", 20)
		mk("c", "acc:1", "acc:3", 5)
		res := sch.Run()
		d, err := srv.Dump(l.Name)
		if err != nil {
			return res, "", err
		}
		var dump map[string][]map[string]any
		_ = json.Unmarshal(d, &dump)
		var vols []string
		for _, r := range dump["_default.accounts_volumes"] {
			vols = append(vols, fmt.Sprintf("%v:%v/%v", r["accounts_address"], r["input"], r["output"]))
		}
		return res, fmt.Sprintf("outcomes=%v volumes=%v", outcomes, vols), nil
	}
	res, summary, err := runOnce(pgfake.SchedOptions{Seed: seed})
	if err != nil {
		fmt.Fprintln(os.Stderr, err)
		return 1
	}
	for _, e := range res.Events {
		sql := e.SQL
		if len(sql) > 90 {
			sql = sql[:90] + "…"
		}
		fmt.Printf("%3d %s s%d %-10s %s\n", e.Step, e.Task, e.Session, e.Result, sql)
	}
	fmt.Println("choices:", res.Choices, "stuck:", res.Stuck)
	fmt.Println(summary)
	res2, summary2, err := runOnce(pgfake.SchedOptions{Choices: res.Choices})
	if err != nil {
		fmt.Fprintln(os.Stderr, err)
		return 1
	}
	same := len(res.Events) == len(res2.Events) && summary == summary2
	for i := range res.Events {
		if i < len(res2.Events) && (res.Events[i].Task != res2.Events[i].Task || res.Events[i].Result != res2.Events[i].Result) {
			same = false
		}
	}
	fmt.Println("replay identical:", same)
	if !same {
		fmt.Println(summary2)
		return 1
	}
	return 0
}

// benchMain: n commits on one ledger (performance probe).
func benchMain(args []string) int {
	n := 500
	if len(args) > 0 {
		fmt.Sscan(args[0], &n)
	}
	srv, err := pgfake.Start(pgfake.DefaultLpgPath())
	if err != nil {
		fmt.Fprintln(os.Stderr, err)
		return 1
	}
	defer srv.Close()
	ctx := context.Background()
	l := ledger.MustNewWithDefault("bench")
	if err := srv.CreateLedgerInSystem(ctx, &l); err != nil {
		fmt.Fprintln(os.Stderr, err)
		return 1
	}
	store := ledgerstore.New(srv.DB(), bucket.NewDefaultFactory().Create(l.Bucket), l)
	t0 := time.Now()
	for i := 0; i < n; i++ {
		tx := ledger.NewTransaction().WithPostings(ledger.NewPosting("world", fmt.Sprintf("users:%d", i%20), "USD", big.NewInt(100)),
			ledger.NewPosting(fmt.Sprintf("users:%d", i%20), "bank", "USD", big.NewInt(10)))
		if err := store.CommitTransaction(ctx, &tx); err != nil {
			fmt.Fprintln(os.Stderr, err)
			return 1
		}
		if (i+1)%100 == 0 {
			fmt.Printf("%d commits: %.1fs\n", i+1, time.Since(t0).Seconds())
		}
	}
	t1 := time.Now()
	cur, err := store.Transactions().Paginate(ctx, common.InitialPaginatedQuery[any]{PageSize: 15})
	if err != nil {
		fmt.Fprintln(os.Stderr, err)
		return 1
	}
	fmt.Printf("list page (%d rows): %.2fs\n", len(cur.Data), time.Since(t1).Seconds())
	return 0
}
