//go:build verif

package wlsql

import (
	"bytes"
	"crypto/sha256"
	"encoding/hex"
	"fmt"
	"go/ast"
	"go/parser"
	"go/token"
	"io/fs"
	"os"
	"context"
	"path/filepath"
	"reflect"
	"regexp"
	"sort"
	"strconv"
	"strings"
	"text/template"
	"unsafe"

	"github.com/formancehq/go-libs/v5/pkg/storage/migrations"

	ledger "github.com/formancehq/ledger/internal"
	"github.com/formancehq/ledger/internal/storage/bucket"
	systemstore "github.com/formancehq/ledger/internal/storage/system"
	"github.com/formancehq/ledger/internal/verif/pgfake"
	"github.com/formancehq/ledger/internal/verif/minisql"
)

// Translator T2: fold the bucket migrations (in numeric order, read from the
// package's own embedded FS, i.e. exactly what the service would run) and
// default_bucket.go:ledgerSetups into `Ledger.Generated.Schema`.

const foldBucket = "bkt"

// functions LeanPG implements natively; their PL/pgSQL text is pinned by hash so
// that a change breaks the tie instead of going unnoticed.
var nativeFunctions = map[string]string{
	// per-transaction clock backed by a temporary table `on commit delete rows`
	"transaction_date": "548dc427",
}

func normaliseBody(s string) string { return strings.Join(strings.Fields(strings.ToLower(s)), " ") }

func bodyPin(s string) string {
	h := sha256.Sum256([]byte(normaliseBody(s)))
	return hex.EncodeToString(h[:])[:8]
}

func repoDir() string {
	if d := os.Getenv("VERIF_REPO"); d != "" {
		return d
	}
	return "/repo"
}

func schemaMain(args []string) int {
	showPins := len(args) > 0 && args[0] == "-pins"
	out, err := GenerateSchemaModule(showPins)
	if err != nil {
		fmt.Fprintln(os.Stderr, err)
		return 1
	}
	fmt.Print(out)
	return 0
}

func foldMigrations() (*minisql.FoldedSchema, []string, error) {
	s := minisql.NewFoldedSchema()
	var names []string
	_, err := bucket.WalkMigrations(bucket.MigrationsFS, func(entry fs.DirEntry) (*struct{}, error) {
		sql, err := bucket.TemplateSQLFile(bucket.MigrationsFS, foldBucket, entry.Name(), "up.sql", map[string]any{})
		if err != nil {
			return nil, err
		}
		names = append(names, entry.Name())
		if err := s.FoldMigration(entry.Name(), sql, foldBucket); err != nil {
			return nil, err
		}
		return &struct{}{}, nil
	})
	if err != nil {
		return nil, nil, err
	}
	return s, names, nil
}

// foldSystemMigrations runs the Up functions registered by the real
// system-store migrator (read from the Migrator by reflection: the go-libs
// migrator itself needs a pgx connection for LISTEN/NOTIFY and cannot run over
// pgfake) against a lenient recording driver and folds the DDL they issue.
func foldSystemMigrations() (*minisql.FoldedSchema, int, error) {
	srv := pgfake.StartRecording(true)
	defer srv.Close()
	m := systemstore.GetMigrator(srv.DB())
	f := reflect.ValueOf(m).Elem().FieldByName("migrations")
	if !f.IsValid() {
		return nil, 0, fmt.Errorf("t2_schema: go-libs Migrator has no field `migrations` any more")
	}
	f = reflect.NewAt(f.Type(), unsafe.Pointer(f.UnsafeAddr())).Elem()
	migs, ok := f.Interface().([]migrations.Migration)
	if !ok {
		return nil, 0, fmt.Errorf("t2_schema: unexpected type of Migrator.migrations")
	}
	s := minisql.NewFoldedSchema()
	ctx := context.Background()
	for i, mg := range migs {
		srv.ResetLog()
		if err := mg.Up(ctx, srv.DB()); err != nil {
			return nil, 0, fmt.Errorf("t2_schema: system migration %d (%s): %w", i, mg.Name, err)
		}
		for _, st := range srv.Log() {
			up := strings.ToUpper(strings.TrimSpace(st.SQL))
			if up == "BEGIN" || up == "COMMIT" || up == "ROLLBACK" {
				continue
			}
			if err := s.FoldMigration(fmt.Sprintf("system/%d-%s", i, mg.Name), st.SQL, systemstore.SchemaSystem); err != nil {
				return nil, 0, err
			}
		}
	}
	return s, len(migs), nil
}

type setupDef struct {
	requires [][2]string
	script   string
}

// readLedgerSetups extracts `var ledgerSetups` from default_bucket.go (the
// variable is unexported; the file is read with go/parser).
func readLedgerSetups() ([]setupDef, error) {
	fset := token.NewFileSet()
	consts := map[string]string{}
	ff, err := parser.ParseFile(fset, filepath.Join(repoDir(), "pkg/features/features.go"), nil, 0)
	if err != nil {
		return nil, err
	}
	for _, d := range ff.Decls {
		gd, ok := d.(*ast.GenDecl)
		if !ok || gd.Tok != token.CONST {
			continue
		}
		for _, sp := range gd.Specs {
			vs := sp.(*ast.ValueSpec)
			for i, n := range vs.Names {
				if i < len(vs.Values) {
					if bl, ok := vs.Values[i].(*ast.BasicLit); ok && bl.Kind == token.STRING {
						v, _ := strconv.Unquote(bl.Value)
						consts[n.Name] = v
					}
				}
			}
		}
	}
	bf, err := parser.ParseFile(fset, filepath.Join(repoDir(), "internal/storage/bucket/default_bucket.go"), nil, 0)
	if err != nil {
		return nil, err
	}
	var out []setupDef
	found := false
	for _, d := range bf.Decls {
		gd, ok := d.(*ast.GenDecl)
		if !ok || gd.Tok != token.VAR {
			continue
		}
		for _, sp := range gd.Specs {
			vs := sp.(*ast.ValueSpec)
			if len(vs.Names) != 1 || vs.Names[0].Name != "ledgerSetups" || len(vs.Values) != 1 {
				continue
			}
			found = true
			cl, ok := vs.Values[0].(*ast.CompositeLit)
			if !ok {
				return nil, fmt.Errorf("t2_schema: ledgerSetups is not a composite literal")
			}
			for _, el := range cl.Elts {
				ecl, ok := el.(*ast.CompositeLit)
				if !ok {
					return nil, fmt.Errorf("t2_schema: ledgerSetups element is not a composite literal")
				}
				var sd setupDef
				for _, f := range ecl.Elts {
					kv, ok := f.(*ast.KeyValueExpr)
					if !ok {
						return nil, fmt.Errorf("t2_schema: ledgerSetups element without field names")
					}
					switch kv.Key.(*ast.Ident).Name {
					case "script":
						bl, ok := kv.Value.(*ast.BasicLit)
						if !ok {
							return nil, fmt.Errorf("t2_schema: ledgerSetups script is not a string literal")
						}
						sd.script, _ = strconv.Unquote(bl.Value)
					case "requireFeatures":
						fcl, ok := kv.Value.(*ast.CompositeLit)
						if !ok {
							return nil, fmt.Errorf("t2_schema: requireFeatures is not a composite literal")
						}
						for _, fe := range fcl.Elts {
							fkv := fe.(*ast.KeyValueExpr)
							key := ""
							switch k := fkv.Key.(type) {
							case *ast.SelectorExpr:
								key = consts[k.Sel.Name]
							case *ast.BasicLit:
								key, _ = strconv.Unquote(k.Value)
							}
							vl, ok := fkv.Value.(*ast.BasicLit)
							if key == "" || !ok {
								return nil, fmt.Errorf("t2_schema: cannot resolve a requireFeatures entry")
							}
							v, _ := strconv.Unquote(vl.Value)
							sd.requires = append(sd.requires, [2]string{key, v})
						}
					default:
						return nil, fmt.Errorf("t2_schema: unknown ledgerSetup field %s", kv.Key.(*ast.Ident).Name)
					}
				}
				sort.Slice(sd.requires, func(i, j int) bool { return sd.requires[i][0] < sd.requires[j][0] })
				out = append(out, sd)
			}
		}
	}
	if !found {
		return nil, fmt.Errorf("t2_schema: var ledgerSetups not found in default_bucket.go")
	}
	return out, nil
}

const (
	markBucket = "§B§"
	markName   = "§N§"
	markID     = 424242
)

var leanStrLit = regexp.MustCompile(`"(?:[^"\\]|\\.)*"`)

// parametrise turns Lean string literals containing the markers into
// concatenations over the variables bucket / id / name.
func parametrise(leanTerm string) string {
	idStr := strconv.Itoa(markID)
	return leanStrLit.ReplaceAllStringFunc(leanTerm, func(lit string) string {
		if !strings.Contains(lit, markBucket) && !strings.Contains(lit, markName) && !strings.Contains(lit, idStr) {
			return lit
		}
		inner := lit[1 : len(lit)-1]
		var parts []string
		for len(inner) > 0 {
			best, bestVar, bestLen := -1, "", 0
			for _, m := range []struct{ mark, v string }{{markBucket, "bucket"}, {markName, "name"}, {idStr, "toString id"}} {
				if i := strings.Index(inner, m.mark); i >= 0 && (best < 0 || i < best) {
					best, bestVar, bestLen = i, m.v, len(m.mark)
				}
			}
			if best < 0 {
				parts = append(parts, `"`+inner+`"`)
				break
			}
			if best > 0 {
				parts = append(parts, `"`+inner[:best]+`"`)
			}
			parts = append(parts, bestVar)
			inner = inner[best+bestLen:]
		}
		return "(" + strings.Join(parts, " ++ ") + ")"
	})
}

func leanOptExpr(n *minisql.Node) string {
	if n == nil {
		return "none"
	}
	return "(some " + n.Lean() + ")"
}

func leanStrList(xs []string) string {
	var q []string
	for _, x := range xs {
		q = append(q, minisql.LeanString(x))
	}
	return "[" + strings.Join(q, ", ") + "]"
}

// GenerateSchemaModule renders Ledger.Generated.Schema.
func GenerateSchemaModule(showPins bool) (string, error) {
	s, migNames, err := foldMigrations()
	if err != nil {
		return "", err
	}
	setups, err := readLedgerSetups()
	if err != nil {
		return "", err
	}
	var sb strings.Builder
	w := func(format string, a ...any) { fmt.Fprintf(&sb, format, a...) }
	w("-- GENERATED-MODULE: Ledger.Generated.Schema\n")
	w("-- Generated by tools/t2_schema from internal/storage/bucket/migrations/*/up.sql (%d migrations,\n", len(migNames))
	w("-- last: %s) and default_bucket.go:ledgerSetups. DO NOT EDIT.\n", migNames[len(migNames)-1])
	w("import Ledger.Sql.Store\n\nnamespace Ledger.Generated.Schema\nopen Ledger.Sql\n\n")
	w("set_option maxRecDepth 8192\n\n")

	// ---- functions ----
	var fnames []string
	for _, name := range s.SortedFunctionNames() {
		fs := s.Functions[name]
		if len(fs) != 1 {
			return "", fmt.Errorf("t2_schema: function %s has %d overloads in the final schema; not modelled", name, len(fs))
		}
		f := fs[0]
		if pin, ok := nativeFunctions[name]; ok {
			got := bodyPin(f.Body)
			if showPins {
				fmt.Fprintf(os.Stderr, "pin %s = %s\n", name, got)
			}
			if got != pin && !showPins {
				return "", fmt.Errorf("t2_schema: function %s is modelled natively in LeanPG and its body changed (pin %s, now %s; last defined in migration %s): untranslatable", name, pin, got, f.DefinedIn)
			}
			w("/-- `%s`: modelled natively by LeanPG (body pinned, last defined in %s) -/\n", name, f.DefinedIn)
			w("def fn_%s : PlFunc :=\n  { name := %s, params := [], returns := %s, decls := [], body := [] }\n\n", name, minisql.LeanString(name), f.Returns.Lean())
			fnames = append(fnames, name)
			continue
		}
		if f.Lang != "plpgsql" {
			return "", fmt.Errorf("t2_schema: function %s (language %q, migration %s) survives in the final schema but only PL/pgSQL functions are translated", name, f.Lang, f.DefinedIn)
		}
		decls, body, perr := minisql.ParsePlBody(f.Body)
		if perr != nil {
			return "", fmt.Errorf("t2_schema: cannot translate function %s (migration %s): %w", name, f.DefinedIn, perr)
		}
		pf := &minisql.PlFunc{Name: name, Params: f.Params, Returns: f.Returns, Decls: decls, Body: body}
		w("/-- `%s` as of migration %s -/\n", name, f.DefinedIn)
		w("def fn_%s : PlFunc :=\n  %s\n\n", name, minisql.LeanPlFunc(pf))
		fnames = append(fnames, name)
	}

	// ---- tables ----
	tnames, err := emitTables(w, s, "tbl_")
	if err != nil {
		return "", err
	}

	// ---- types ----
	w("def composites : List (String × List (String × SqlType)) := [\n")
	for i, c := range s.Composites {
		var fs []string
		for _, f := range c.Fields {
			fs = append(fs, fmt.Sprintf("(%s, %s)", minisql.LeanString(f.Name), f.Type.Lean()))
		}
		w("  (%s, [%s])", minisql.LeanString(c.Name), strings.Join(fs, ", "))
		if i < len(s.Composites)-1 {
			w(",")
		}
		w("\n")
	}
	w("]\n\n")
	var enames []string
	for n := range s.Enums {
		enames = append(enames, n)
	}
	sort.Strings(enames)
	w("def enums : List (String × List String) := [\n")
	for i, n := range enames {
		w("  (%s, %s)", minisql.LeanString(n), leanStrList(s.Enums[n]))
		if i < len(enames)-1 {
			w(",")
		}
		w("\n")
	}
	w("]\n\n")
	for _, t := range s.Tables {
		for _, fk := range t.FKs {
			if s.Table(fk.RefTable) == nil {
				return "", fmt.Errorf("t2_schema: foreign key %s references unknown table %s", fk.Name, fk.RefTable)
			}
		}
	}
	if len(s.Aggregates) > 0 {
		var an []string
		for n := range s.Aggregates {
			an = append(an, n)
		}
		return "", fmt.Errorf("t2_schema: user-defined aggregates %v survive in the bucket schema; not modelled", an)
	}

	w("/-- number of bucket migrations folded (the versions table of a bucket holds 0 … this) -/\ndef bucketMigrations : Nat := %d\n\n", len(migNames))
	w("/-- the bucket schema a freshly migrated bucket ends with (names relative to the bucket) -/\n")
	w("def bucket : BucketSchema :=\n  { tables := [%s]\n    funcs := [%s]\n    composites := composites\n    enums := enums\n    seqs := %s }\n\n",
		strings.Join(prefixAll("tbl_", tnames), ", "), strings.Join(prefixAll("fn_", fnames), ", "), leanStrList(s.Sequences))

	// ---- _system schema ----
	sys, nsys, err := foldSystemMigrations()
	if err != nil {
		return "", err
	}
	// public.aggregate_objects is used by the read queries and implemented natively: pin it
	agg := strings.Join(strings.Fields(strings.ToLower(sys.Aggregates["aggregate_objects"])), " ")
	if !strings.Contains(agg, "sfunc = public . jsonb_concat") || !strings.Contains(agg, "stype = jsonb") || !strings.Contains(agg, "initcond = '{}'") {
		return "", fmt.Errorf("t2_schema: public.aggregate_objects is modelled natively and its definition changed: %q", agg)
	}
	if fs := sys.Functions["jsonb_concat"]; len(fs) != 1 || normaliseBody(fs[0].Body) != "select $1 || $2" || len(fs[0].Params) != 2 {
		return "", fmt.Errorf("t2_schema: public.jsonb_concat (state function of aggregate_objects) is modelled natively and changed")
	}
	w("-- `_system` schema: folded from the %d migrations registered by internal/storage/system.GetMigrator\n", nsys)
	w("-- (their Up functions were run over a recording driver). public.aggregate_objects / jsonb_concat are\n")
	w("-- native in LeanPG (definitions pinned); public.json_compact is only used by data migrations.\n")
	snames, err := emitTables(w, sys, "sys_")
	if err != nil {
		return "", err
	}
	w("def systemMigrations : Nat := %d\n\n", nsys)
	w("def system : BucketSchema :=\n  { tables := [%s]\n    funcs := []\n    composites := []\n    enums := []\n    seqs := %s }\n\n",
		strings.Join(prefixAll("sys_", snames), ", "), leanStrList(sys.Sequences))

	// ---- ledgerSetups ----
	w("/-- `default_bucket.go:ledgerSetups`: for every entry the required feature values and the\n")
	w("    statements `AddLedger` executes for a ledger (bucket, id, name). -/\n")
	w("def ledgerSetups (bucket : String) (id : Nat) (name : String) : List (List (String × String) × List Stmt) := [\n")
	for i, sd := range setups {
		tpl, err := template.New("sql").Parse(sd.script)
		if err != nil {
			return "", fmt.Errorf("t2_schema: ledgerSetups[%d]: %w", i, err)
		}
		l := ledger.Ledger{Name: markName, ID: markID}
		l.Bucket = markBucket
		buf := bytes.NewBuffer(nil)
		if err := tpl.Execute(buf, l); err != nil {
			return "", fmt.Errorf("t2_schema: ledgerSetups[%d]: %w", i, err)
		}
		parts, err := minisql.SplitStatements(buf.String())
		if err != nil {
			return "", fmt.Errorf("t2_schema: ledgerSetups[%d]: %w", i, err)
		}
		var stmts []string
		for _, p := range parts {
			st, err := minisql.Parse(p)
			if err != nil {
				return "", fmt.Errorf("t2_schema: ledgerSetups[%d]: untranslatable statement: %w", i, err)
			}
			stmts = append(stmts, parametrise(st.Lean()))
		}
		var req []string
		for _, r := range sd.requires {
			req = append(req, fmt.Sprintf("(%s, %s)", minisql.LeanString(r[0]), minisql.LeanString(r[1])))
		}
		w("  ([%s], [\n    %s\n  ])", strings.Join(req, ", "), strings.Join(stmts, ",\n    "))
		if i < len(setups)-1 {
			w(",")
		}
		w("\n")
	}
	w("]\n\n")

	w("/-- notes of the folder (objects dropped implicitly, statements skipped) -/\n")
	w("def foldNotes : List String := [\n")
	for i, n := range s.Notes {
		w("  %s", minisql.LeanString(n))
		if i < len(s.Notes)-1 {
			w(",")
		}
		w("\n")
	}
	w("]\n\nend Ledger.Generated.Schema\n")
	return sb.String(), nil
}


// emitTables writes one `def <prefix><table> : Table` per table.
func emitTables(w func(string, ...any), s *minisql.FoldedSchema, prefix string) ([]string, error) {
	var tnames []string
	for _, t := range s.Tables {
		w("def %s%s : Table :=\n  { name := %s\n    cols := [\n", prefix, t.Name, minisql.LeanString(t.Name))
		for i, c := range t.Cols {
			w("      { name := %s, ty := %s, notNull := %v, dflt := %s }", minisql.LeanString(c.Name), c.Type.Lean(), c.NotNull, leanOptExpr(c.Default))
			if i < len(t.Cols)-1 {
				w(",")
			}
			w("\n")
		}
		w("    ]\n    uniques := [\n")
		first := true
		var nonUnique []string
		for _, idx := range s.Indexes {
			if idx.Table != t.Name {
				continue
			}
			if !idx.Unique {
				nonUnique = append(nonUnique, idx.Name)
				continue
			}
			if !first {
				w(",\n")
			}
			first = false
			w("      { name := %s, cols := %s, pred := %s, primary := %v }", minisql.LeanString(idx.Name), leanStrList(idx.Cols), leanOptExpr(idx.Pred), idx.Primary)
		}
		w("\n    ]\n    checks := [\n")
		for i, c := range t.Checks {
			w("      { name := %s, e := %s }", minisql.LeanString(c.Name), c.Expr.Lean())
			if i < len(t.Checks)-1 {
				w(",")
			}
			w("\n")
		}
		w("    ]\n    triggers := [\n")
		first = true
		for _, tr := range s.Triggers {
			if tr.Table != t.Name {
				continue
			}
			if tr.Constraint {
				return nil, fmt.Errorf("t2_schema: constraint trigger %s survives in the final schema; not modelled", tr.Name)
			}
			if len(s.Functions[tr.Func]) == 0 {
				return nil, fmt.Errorf("t2_schema: trigger %s uses unknown function %s", tr.Name, tr.Func)
			}
			if !first {
				w(",\n")
			}
			first = false
			w("      { name := %s, timing := TrigTiming.%s, event := TrigEvent.%s, ofCols := %s, when_ := %s, fname := %s }",
				minisql.LeanString(tr.Name), tr.Timing, tr.Event, leanStrList(tr.OfCols), leanOptExpr(tr.When), minisql.LeanString(tr.Func))
		}
		w("\n    ]\n    fks := [\n")
		for i, fk := range t.FKs {
			refCols := fk.RefCols
			if len(refCols) == 0 {
				for _, idx := range s.Indexes {
					if idx.Table == fk.RefTable && idx.Primary {
						refCols = idx.Cols
					}
				}
			}
			if len(refCols) != len(fk.Cols) {
				return nil, fmt.Errorf("t2_schema: cannot resolve the referenced columns of foreign key %s", fk.Name)
			}
			w("      { name := %s, cols := %s, refTable := %s, refCols := %s, cascade := %v }", minisql.LeanString(fk.Name), leanStrList(fk.Cols),
				minisql.LeanString(fk.RefTable), leanStrList(refCols), fk.OnDelete == "cascade")
			if i < len(t.FKs)-1 {
				w(",")
			}
			w("\n")
		}
		w("    ] }\n")
		if len(nonUnique) > 0 {
			w("-- non-unique indexes of %s (no semantics in the model): %s\n", t.Name, strings.Join(nonUnique, ", "))
		}
		w("\n")
		tnames = append(tnames, t.Name)
	}
	for _, tr := range s.Triggers {
		if s.Table(tr.Table) == nil {
			return nil, fmt.Errorf("t2_schema: trigger %s on unknown table %s", tr.Name, tr.Table)
		}
	}
	return tnames, nil
}

func prefixAll(p string, xs []string) []string {
	out := make([]string, len(xs))
	for i, x := range xs {
		out[i] = p + x
	}
	return out
}
