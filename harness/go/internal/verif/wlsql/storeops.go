//go:build verif

package wlsql

import (
	"bufio"
	"context"
	"encoding/json"
	"errors"
	"flag"
	"fmt"
	"math/big"
	"math/rand"
	"os"
	"sort"
	"strings"
	"time"

	"github.com/formancehq/go-libs/v5/pkg/storage/postgres"
	"github.com/formancehq/go-libs/v5/pkg/types/metadata"
	libtime "github.com/formancehq/go-libs/v5/pkg/types/time"

	ledger "github.com/formancehq/ledger/internal"
	"github.com/formancehq/ledger/internal/storage/bucket"
	ledgerstore "github.com/formancehq/ledger/internal/storage/ledger"
	"github.com/formancehq/ledger/internal/verif/gen"
	"github.com/formancehq/ledger/internal/verif/pgfake"
	"github.com/formancehq/ledger/pkg/features"
)

// Workload `storeops`: random sequences of REAL store method calls on a fresh
// ledger over LeanPG. One case per line:
//
//	{"f":"storeops","in":{"features":{…},"ops":[…]},"out":{"steps":[{"res":…,"dump":…},…]}}
//
// `res` is the canonicalised result of the call (errors as a small enum), `dump`
// the canonical snapshot of every bucket table restricted to the ledger after
// the step (pgfake.Server.Dump), so that a Lean handler can replay `ops` on a
// specification and compare. All random choices derive from -seed.

type soPosting struct {
	Source      string `json:"source"`
	Destination string `json:"destination"`
	Asset       string `json:"asset"`
	Amount      string `json:"amount"`
}

type soOp struct {
	Kind string `json:"kind"`
	// commit
	Postings  []soPosting       `json:"postings,omitempty"`
	Metadata  map[string]string `json:"metadata,omitempty"`
	Reference string            `json:"reference,omitempty"`
	// TimestampOffset: 0 = let the database decide (transaction_date()), otherwise
	// microseconds relative to the case's base time (negative = back-dated)
	TimestampOffset int64 `json:"timestampOffset,omitempty"`
	// Mode: "tx" (BEGIN … COMMIT), "rollback" (BEGIN … ROLLBACK), "auto" (no transaction block)
	Mode string `json:"mode,omitempty"`
	// LockBalances: call GetBalances on the sources first (bounded-source path)
	LockBalances bool `json:"lockBalances,omitempty"`
	// WithLog: also insert the NEW_TRANSACTION / … log
	WithLog        bool   `json:"withLog,omitempty"`
	IdempotencyKey string `json:"idempotencyKey,omitempty"`
	// metadata ops / revert
	TxIndex int    `json:"txIndex,omitempty"` // index into the transactions committed so far (modulo)
	Account string `json:"account,omitempty"`
	Key     string `json:"key,omitempty"`
	AtOffset int64 `json:"atOffset,omitempty"`
	// fault: fail the nth statement of the op (0 = none)
	FaultAt   int    `json:"faultAt,omitempty"`
	FaultKind string `json:"faultKind,omitempty"`
}

type soInput struct {
	Features map[string]string `json:"features"`
	Ops      []soOp            `json:"ops"`
}

type soStep struct {
	Res  map[string]any  `json:"res"`
	Dump json.RawMessage `json:"dump,omitempty"`
}

type soOutput struct {
	Steps []soStep `json:"steps"`
	Panic string   `json:"panic,omitempty"`
}

var soBase = int64(1704164645678901) // 2024-01-02T03:04:05.678901Z in µs

func soTime(offset int64) libtime.Time {
	return libtime.New(time.UnixMicro(soBase + offset).UTC())
}

var (
	soAccounts = []string{"world", "bank", "users:001", "users:002", "users:001:wallet", "orders:1", "fees"}
	soAssets   = []string{"USD", "EUR/2", "COIN"}
	soKeys     = []string{"k", "role", "tier"}
	soVals     = []string{"v", "admin", "gold", "", "x\"y", "é"}
)

func genStoreOps(r *rand.Rand, wide bool) soInput {
	in := soInput{Features: map[string]string{}}
	switch r.Intn(4) {
	case 0:
		for k, v := range features.MinimalFeatureSet {
			in.Features[k] = v
		}
	case 1:
		// random mix
		keys := make([]string, 0)
		for k := range features.FeatureConfigurations {
			keys = append(keys, k)
		}
		sort.Strings(keys)
		for _, k := range keys {
			vs := features.FeatureConfigurations[k]
			in.Features[k] = vs[r.Intn(len(vs))]
		}
		// MOVES_HISTORY_POST_COMMIT_EFFECTIVE_VOLUMES needs MOVES_HISTORY
		if in.Features[features.FeatureMovesHistory] == "OFF" {
			in.Features[features.FeatureMovesHistoryPostCommitEffectiveVolumes] = "DISABLED"
		}
	default:
		for k, v := range features.DefaultFeatures {
			in.Features[k] = v
		}
	}
	n := 3 + r.Intn(10)
	if wide {
		n = 5 + r.Intn(30)
	}
	refs := 0
	for i := 0; i < n; i++ {
		var op soOp
		switch k := r.Intn(20); {
		case k < 9 || i == 0:
			op.Kind = "commit"
			np := 1 + r.Intn(3)
			for j := 0; j < np; j++ {
				src := gen.Pick(r, soAccounts)
				dst := gen.Pick(r, soAccounts)
				var amt *big.Int
				if r.Intn(8) == 0 {
					amt = gen.BigAmount(r)
				} else {
					amt = big.NewInt(int64(r.Intn(500)))
				}
				op.Postings = append(op.Postings, soPosting{Source: src, Destination: dst, Asset: gen.Pick(r, soAssets), Amount: amt.String()})
			}
			if r.Intn(3) == 0 {
				op.Metadata = map[string]string{gen.Pick(r, soKeys): gen.Pick(r, soVals)}
			}
			switch r.Intn(5) {
			case 0:
				// back-dated, possibly equal to an earlier timestamp
				op.TimestampOffset = -int64(1+r.Intn(5)) * 1_000_000
			case 1:
				op.TimestampOffset = int64(1+r.Intn(5)) * 1_000_000
			}
			if r.Intn(4) == 0 {
				if refs > 0 && r.Intn(3) == 0 {
					op.Reference = fmt.Sprintf("ref%d", r.Intn(refs)) // duplicate
				} else {
					op.Reference = fmt.Sprintf("ref%d", refs)
					refs++
				}
			}
			op.Mode = []string{"tx", "tx", "tx", "auto", "rollback"}[r.Intn(5)]
			op.LockBalances = r.Intn(3) == 0
			op.WithLog = r.Intn(2) == 0
			if op.WithLog && r.Intn(4) == 0 {
				op.IdempotencyKey = fmt.Sprintf("ik%d", r.Intn(3))
			}
			if r.Intn(12) == 0 {
				op.FaultAt = 1 + r.Intn(6)
				op.FaultKind = []string{"error", "deadlock", "cancel"}[r.Intn(3)]
			}
		case k < 11:
			op.Kind = "txmeta"
			op.TxIndex = r.Intn(8)
			op.Metadata = map[string]string{gen.Pick(r, soKeys): gen.Pick(r, soVals)}
			if r.Intn(2) == 0 {
				op.AtOffset = int64(r.Intn(10)) * 1_000_000
			}
		case k < 12:
			op.Kind = "txmetadel"
			op.TxIndex = r.Intn(8)
			op.Key = gen.Pick(r, soKeys)
		case k < 14:
			op.Kind = "accmeta"
			op.Account = gen.Pick(r, soAccounts)
			op.Metadata = map[string]string{gen.Pick(r, soKeys): gen.Pick(r, soVals)}
			if r.Intn(2) == 0 {
				op.AtOffset = int64(r.Intn(10)-5) * 1_000_000
			}
		case k < 15:
			op.Kind = "accmetadel"
			op.Account = gen.Pick(r, soAccounts)
			op.Key = gen.Pick(r, soKeys)
		case k < 17:
			op.Kind = "revert"
			op.TxIndex = r.Intn(8)
			if r.Intn(2) == 0 {
				op.AtOffset = int64(r.Intn(10)) * 1_000_000
			}
		case k < 19:
			op.Kind = "log"
			op.Account = gen.Pick(r, soAccounts)
			op.Metadata = map[string]string{gen.Pick(r, soKeys): gen.Pick(r, soVals)}
			if r.Intn(2) == 0 {
				op.IdempotencyKey = fmt.Sprintf("ik%d", r.Intn(3))
			}
		default:
			op.Kind = "schema"
			op.Key = fmt.Sprintf("v%d", r.Intn(3))
		}
		in.Ops = append(in.Ops, op)
	}
	return in
}

func soErr(err error) string {
	if err == nil {
		return ""
	}
	switch {
	case errors.Is(err, ledgerstore.ErrTransactionReferenceConflict{}):
		return "reference-conflict"
	case errors.Is(err, ledgerstore.ErrIdempotencyKeyConflict{}):
		return "ik-conflict"
	case errors.Is(err, ledgerstore.ErrConcurrentTransaction{}):
		return "concurrent-transaction"
	case errors.Is(err, postgres.ErrNotFound):
		return "not-found"
	case errors.Is(err, postgres.ErrDeadlockDetected):
		return "deadlock"
	case errors.Is(err, postgres.ErrConstraintsFailed{}):
		return "constraint:" + err.(interface{ GetConstraint() string }).GetConstraint()
	case errors.Is(err, context.Canceled):
		return "canceled"
	}
	msg := err.Error()
	switch {
	case strings.Contains(msg, "40P01"):
		return "deadlock"
	case strings.Contains(msg, "25P02"):
		return "aborted-transaction"
	case strings.Contains(msg, "XX000"):
		return "injected-error"
	case strings.Contains(msg, "pgfake:"):
		return "HARNESS: " + msg
	}
	if len(msg) > 160 {
		msg = msg[:160]
	}
	return "other: " + msg
}

func soVolumes(v ledger.PostCommitVolumes) map[string]map[string][2]string {
	if v == nil {
		return nil
	}
	out := map[string]map[string][2]string{}
	for acc, byAsset := range v {
		out[acc] = map[string][2]string{}
		for asset, vol := range byAsset {
			out[acc][asset] = [2]string{vol.Input.String(), vol.Output.String()}
		}
	}
	return out
}

func soMeta(m map[string]string) metadata.Metadata {
	out := metadata.Metadata{}
	for k, v := range m {
		out[k] = v
	}
	return out
}

type soRunner struct {
	srv   *pgfake.Server
	store *ledgerstore.Store
	ids   []uint64 // ids of transactions whose insertion committed
}

func (rn *soRunner) step(ctx context.Context, op soOp) (res map[string]any) {
	res = map[string]any{}
	store := rn.store
	if op.FaultAt > 0 {
		rn.srv.InjectFault(op.FaultAt, op.FaultKind)
		defer rn.srv.ClearFaults()
	}
	txID := func() (uint64, bool) {
		if len(rn.ids) == 0 {
			return 0, false
		}
		return rn.ids[op.TxIndex%len(rn.ids)], true
	}
	at := libtime.Time{}
	if op.AtOffset != 0 {
		at = soTime(op.AtOffset)
	}
	switch op.Kind {
	case "commit":
		tx := ledger.NewTransaction()
		for _, p := range op.Postings {
			amt, _ := new(big.Int).SetString(p.Amount, 10)
			tx = tx.WithPostings(ledger.NewPosting(p.Source, p.Destination, p.Asset, amt))
		}
		tx = tx.WithMetadata(soMeta(op.Metadata))
		if op.TimestampOffset != 0 {
			tx = tx.WithTimestamp(soTime(op.TimestampOffset))
		}
		if op.Reference != "" {
			tx = tx.WithReference(op.Reference)
		}
		st := store
		var finish func(commit bool) error
		if op.Mode == "auto" {
			finish = func(bool) error { return nil }
		} else {
			txStore, sqlTx, err := store.BeginTX(ctx, nil)
			if err != nil {
				res["err"] = soErr(err)
				return
			}
			st = txStore
			finish = func(commit bool) error {
				if commit {
					return sqlTx.Commit()
				}
				return sqlTx.Rollback()
			}
		}
		var err error
		if op.LockBalances {
			q := ledgerstore.BalanceQuery{}
			for _, p := range op.Postings {
				found := false
				for _, a := range q[p.Source] {
					found = found || a == p.Asset
				}
				if !found {
					q[p.Source] = append(q[p.Source], p.Asset)
				}
			}
			var bal ledger.Balances
			bal, err = st.GetBalances(ctx, q)
			if err == nil {
				b := map[string]map[string]string{}
				for acc, m := range bal {
					b[acc] = map[string]string{}
					for asset, v := range m {
						b[acc][asset] = v.String()
					}
				}
				res["balances"] = b
			}
		}
		if err == nil {
			err = st.CommitTransaction(ctx, &tx)
		}
		if err == nil {
			err = st.UpsertAccounts(ctx, tx.AccountsWithDefaultMetadata(nil, nil)...)
		}
		if err == nil && op.WithLog {
			lg := ledger.NewLog(ledger.CreatedTransaction{Transaction: tx, AccountMetadata: ledger.AccountMetadata{}})
			lg.IdempotencyKey = op.IdempotencyKey
			err = st.InsertLog(ctx, &lg)
			if err == nil {
				res["logId"] = *lg.ID
				res["logHash"] = fmt.Sprintf("%x", lg.Hash)
			}
		}
		commit := err == nil && op.Mode != "rollback"
		ferr := finish(commit)
		if err == nil && ferr != nil {
			err = ferr
			commit = false
		}
		res["err"] = soErr(err)
		res["committed"] = commit && op.Mode != "rollback" || (op.Mode == "auto" && tx.ID != nil)
		if tx.ID != nil {
			res["id"] = *tx.ID
			res["timestamp"] = tx.Timestamp.UnixMicro()
			res["insertedAt"] = tx.InsertedAt.UnixMicro()
			res["pcv"] = soVolumes(tx.PostCommitVolumes)
			res["pcev"] = soVolumes(tx.PostCommitEffectiveVolumes)
		}
		if (commit || op.Mode == "auto") && tx.ID != nil && err == nil {
			rn.ids = append(rn.ids, *tx.ID)
		} else if op.Mode == "auto" && tx.ID != nil {
			// autocommit: the transaction row was written even if a later call failed
			rn.ids = append(rn.ids, *tx.ID)
		}
	case "txmeta", "txmetadel", "revert":
		id, ok := txID()
		if !ok {
			res["skipped"] = true
			return
		}
		res["id"] = id
		var (
			tx       *ledger.Transaction
			modified bool
			err      error
		)
		switch op.Kind {
		case "txmeta":
			tx, modified, err = store.UpdateTransactionMetadata(ctx, id, soMeta(op.Metadata), at)
		case "txmetadel":
			tx, modified, err = store.DeleteTransactionMetadata(ctx, id, op.Key, at)
		default:
			tx, modified, err = store.RevertTransaction(ctx, id, at)
		}
		res["err"] = soErr(err)
		res["modified"] = modified
		if err == nil && tx != nil {
			res["metadata"] = tx.Metadata
			res["updatedAt"] = tx.UpdatedAt.UnixMicro()
			if tx.RevertedAt != nil {
				res["revertedAt"] = tx.RevertedAt.UnixMicro()
			}
		}
	case "accmeta":
		res["err"] = soErr(store.UpdateAccountsMetadata(ctx, map[string]metadata.Metadata{op.Account: soMeta(op.Metadata)}, at))
	case "accmetadel":
		res["err"] = soErr(store.DeleteAccountMetadata(ctx, op.Account, op.Key))
	case "log":
		lg := ledger.NewLog(ledger.SavedMetadata{TargetType: ledger.MetaTargetTypeAccount, TargetID: op.Account, Metadata: soMeta(op.Metadata)})
		lg.IdempotencyKey = op.IdempotencyKey
		err := store.InsertLog(ctx, &lg)
		res["err"] = soErr(err)
		if err == nil {
			res["logId"] = *lg.ID
			res["logHash"] = fmt.Sprintf("%x", lg.Hash)
		}
	case "schema":
		sch, err := ledger.NewSchema(op.Key, ledger.SchemaData{Chart: ledger.ChartOfAccounts{}})
		if err == nil {
			err = store.InsertSchema(ctx, &sch)
		}
		res["err"] = soErr(err)
	default:
		res["err"] = "HARNESS: unknown op " + op.Kind
	}
	return res
}

func runStoreOpsCase(srv *pgfake.Server, caseNo int, in soInput, dumpEvery bool) soOutput {
	out := soOutput{}
	ctx := context.Background()
	cfg := ledger.Configuration{Bucket: ledger.DefaultBucket, Metadata: metadata.Metadata{}, Features: features.FeatureSet{}}
	for k, v := range in.Features {
		cfg.Features[k] = v
	}
	l, err := ledger.New(fmt.Sprintf("so%d", caseNo), cfg)
	if err != nil {
		out.Panic = "HARNESS: " + err.Error()
		return out
	}
	l.ID = srv.AllocLedgerID()
	if err := srv.CreateLedger(*l); err != nil {
		out.Panic = "HARNESS: CreateLedger: " + err.Error()
		return out
	}
	rn := &soRunner{srv: srv, store: ledgerstore.New(srv.DB(), bucket.NewDefaultFactory().Create(l.Bucket), *l)}
	for i, op := range in.Ops {
		var step soStep
		if p := gen.Guard(func() { step.Res = rn.step(ctx, op) }); p != "" {
			step.Res = map[string]any{"panic": p}
		}
		if dumpEvery || i == len(in.Ops)-1 {
			d, err := srv.Dump(l.Name)
			if err != nil {
				step.Res["dumpErr"] = err.Error()
			}
			step.Dump = d
		}
		out.Steps = append(out.Steps, step)
	}
	return out
}

func storeopsMain(args []string) int {
	fs := flag.NewFlagSet("storeops", flag.ExitOnError)
	seed := fs.Int64("seed", 1, "PRNG seed")
	n := fs.Int("n", 20, "number of cases")
	wide := fs.Bool("wide", false, "longer sequences")
	replay := fs.String("replay", "", "re-run the inputs of this JSONL file")
	dump := fs.String("dump", "step", "step = dump after every op, end = only after the last one")
	_ = fs.Parse(args)
	out := bufio.NewWriterSize(os.Stdout, 1<<20)
	defer out.Flush()
	c := &gen.Ctx{R: gen.NewRand(*seed), N: *n, Wide: *wide, Out: out, Replay: *replay}
	srv, err := pgfake.Start(pgfake.DefaultLpgPath())
	if err != nil {
		fmt.Fprintln(os.Stderr, err)
		return 3
	}
	defer srv.Close()
	var inputs []soInput
	if *replay != "" {
		raws, err := c.ReplayInputs("storeops")
		if err != nil {
			fmt.Fprintln(os.Stderr, err)
			return 3
		}
		for _, raw := range raws {
			var in soInput
			if err := json.Unmarshal(raw, &in); err != nil {
				fmt.Fprintln(os.Stderr, "bad replay input:", err)
				return 3
			}
			inputs = append(inputs, in)
		}
	} else {
		for i := 0; i < *n; i++ {
			inputs = append(inputs, genStoreOps(c.R, *wide))
		}
	}
	for i, in := range inputs {
		res := runStoreOpsCase(srv, i, in, *dump == "step")
		if err := c.Emit("storeops", in, res); err != nil {
			fmt.Fprintln(os.Stderr, err)
			return 3
		}
	}
	return 0
}
