//go:build verif

package wlsql

import (
	"context"
	"encoding/json"
	"flag"
	"fmt"
	"math/big"
	"os"
	"strings"
	"time"

	"github.com/formancehq/go-libs/v5/pkg/types/metadata"
	libtime "github.com/formancehq/go-libs/v5/pkg/types/time"

	ledger "github.com/formancehq/ledger/internal"
	"github.com/formancehq/ledger/internal/storage/bucket"
	ledgerstore "github.com/formancehq/ledger/internal/storage/ledger"
	systemstore "github.com/formancehq/ledger/internal/storage/system"
	"github.com/formancehq/ledger/internal/verif/pgfake"
	"github.com/formancehq/ledger/pkg/features"
)

// Captured is the SQL one store method rendered for one canonical call.
type Captured struct {
	Name  string        `json:"name"`
	Doc   string        `json:"doc"`
	Stmts []pgfake.Stmt `json:"stmts"`
}

var refTime = time.Date(2024, 1, 2, 3, 4, 5, 678901000, time.UTC)

func t(offsetSeconds int) libtime.Time {
	return libtime.New(refTime.Add(time.Duration(offsetSeconds) * time.Second))
}

func u64(v uint64) *uint64 { return &v }

// CaptureWrites runs every write method of the real store once over a recording
// driver and returns the rendered statements per method.
func CaptureWrites(lenient bool) ([]Captured, error) {
	srv := pgfake.StartRecording(lenient)
	defer srv.Close()
	ctx := context.Background()

	l := ledger.MustNewWithDefault("ledger0")
	l.ID = 7
	l.Bucket = "_default"
	b := bucket.NewDefaultFactory().Create(l.Bucket)
	store := ledgerstore.New(srv.DB(), b, l)

	minimal := ledger.MustNewWithDefault("ledger1")
	minimal.ID = 8
	minimal.Features = features.MinimalFeatureSet
	minimalStore := ledgerstore.New(srv.DB(), b, minimal)

	var out []Captured
	var firstErr error
	run := func(name, doc string, fn func() error) {
		srv.ResetLog()
		var err error
		func() {
			// with a recording driver the scanned results are empty; code that
			// dereferences them may panic after the statements were issued
			defer func() { _ = recover() }()
			err = fn()
		}()
		// only statements minisql cannot parse are failures here: semantic
		// errors (e.g. "not found" on an empty result) are expected when recording
		if err != nil && firstErr == nil && !lenient && strings.Contains(err.Error(), "pgfake:") {
			firstErr = fmt.Errorf("%s: %w", name, err)
		}
		out = append(out, Captured{Name: name, Doc: doc, Stmts: srv.Log()})
	}

	run("AddLedger", "bucket.AddLedger for a ledger with the default feature set", func() error {
		return b.AddLedger(ctx, srv.DB(), l)
	})
	run("AddLedgerMinimal", "bucket.AddLedger for a ledger with the minimal feature set", func() error {
		return b.AddLedger(ctx, srv.DB(), minimal)
	})
	run("UpdateVolumes", "two (account, asset) rows", func() error {
		_, err := store.UpdateVolumes(ctx,
			ledger.AccountsVolumes{Account: "acc:a", Asset: "USD", Input: big.NewInt(100), Output: big.NewInt(0)},
			ledger.AccountsVolumes{Account: "acc:b", Asset: "USD", Input: big.NewInt(0), Output: big.NewInt(100)},
		)
		return err
	})
	run("GetBalances", "one account, two assets (a single map key keeps the rendering deterministic)", func() error {
		_, err := store.GetBalances(ctx, ledgerstore.BalanceQuery{"acc:a": {"USD", "EUR"}})
		return err
	})
	mkTx := func() *ledger.Transaction {
		tx := ledger.NewTransaction().
			WithPostings(
				ledger.NewPosting("acc:a", "acc:b", "USD", big.NewInt(100)),
				ledger.NewPosting("acc:b", "acc:c", "USD", big.NewInt(40)),
			).
			WithMetadata(metadata.Metadata{"k": "v"}).
			WithTimestamp(t(-10)).
			WithReference("ref1")
		tx.InsertedAt = t(0)
		tx.UpdatedAt = t(0)
		tx.PostCommitVolumes = ledger.PostCommitVolumes{
			"acc:a": {"USD": ledger.NewVolumesInt64(0, 100)},
			"acc:b": {"USD": ledger.NewVolumesInt64(100, 40)},
			"acc:c": {"USD": ledger.NewVolumesInt64(40, 0)},
		}
		return &tx
	}
	run("InsertTransaction", "id from the sequence, explicit timestamp/reference/metadata", func() error {
		return store.InsertTransaction(ctx, mkTx())
	})
	run("InsertTransactionDefaults", "id from the sequence, every nullzero column omitted", func() error {
		tx := ledger.NewTransaction().WithPostings(ledger.NewPosting("world", "acc:b", "USD", big.NewInt(100)))
		return store.InsertTransaction(ctx, &tx)
	})
	run("InsertTransactionWithID", "explicit id (import path)", func() error {
		tx := mkTx()
		tx.ID = u64(12)
		return store.InsertTransaction(ctx, tx)
	})
	run("InsertMoves", "two moves", func() error {
		v1 := ledger.NewVolumesInt64(0, 100)
		v2 := ledger.NewVolumesInt64(100, 0)
		return store.InsertMoves(ctx,
			&ledger.Move{TransactionID: 1, IsSource: true, Account: "acc:a", Amount: (*bigIntAlias)(big.NewInt(100)), Asset: "USD",
				InsertionDate: t(0), EffectiveDate: t(-10), PostCommitVolumes: &v1},
			&ledger.Move{TransactionID: 1, IsSource: false, Account: "acc:b", Amount: (*bigIntAlias)(big.NewInt(100)), Asset: "USD",
				InsertionDate: t(0), EffectiveDate: t(-10), PostCommitVolumes: &v2},
		)
	})
	run("UpsertAccounts", "two accounts, one with default metadata", func() error {
		return store.UpsertAccounts(ctx,
			ledger.AccountWithDefaultMetadata{Account: &ledger.Account{Address: "acc:a", Metadata: metadata.Metadata{"k": "v"}, FirstUsage: t(-10), InsertionDate: t(0), UpdatedAt: t(0)}, DefaultMetadata: metadata.Metadata{"d": "x"}},
			ledger.AccountWithDefaultMetadata{Account: &ledger.Account{Address: "acc:b", FirstUsage: t(-10), InsertionDate: t(0), UpdatedAt: t(0)}},
		)
	})
	run("UpsertAccountsNoDates", "one account, zero dates (columns rendered NULL)", func() error {
		return store.UpsertAccounts(ctx,
			ledger.AccountWithDefaultMetadata{Account: &ledger.Account{Address: "acc:a"}},
		)
	})
	run("CommitTransaction", "UpdateVolumes + InsertTransaction + InsertMoves on the default feature set", func() error {
		tx := mkTx()
		tx.ID = u64(3)
		return store.CommitTransaction(ctx, tx)
	})
	run("CommitTransactionMinimal", "minimal feature set: no moves", func() error {
		tx := mkTx()
		tx.ID = u64(3)
		return minimalStore.CommitTransaction(ctx, tx)
	})
	run("InsertLog", "HASH_LOGS=SYNC: advisory lock then insert", func() error {
		tx := mkTx()
		tx.ID = u64(3)
		lg := ledger.NewLog(ledger.CreatedTransaction{Transaction: *tx, AccountMetadata: ledger.AccountMetadata{"acc:a": {"k": "v"}}})
		lg.IdempotencyKey = "ik1"
		lg.IdempotencyHash = "hash1"
		lg.Date = t(0)
		return store.InsertLog(ctx, &lg)
	})
	run("InsertLogMinimal", "HASH_LOGS=DISABLED, no idempotency key, id given", func() error {
		lg := ledger.NewLog(ledger.SavedMetadata{TargetType: ledger.MetaTargetTypeAccount, TargetID: "acc:a", Metadata: metadata.Metadata{"k": "v"}})
		lg.ID = u64(5)
		return minimalStore.InsertLog(ctx, &lg)
	})
	run("ReadLogWithIdempotencyKey", "", func() error {
		_, err := store.ReadLogWithIdempotencyKey(ctx, "ik1")
		return err
	})
	run("RevertTransaction", "at = zero: transaction_date()", func() error {
		_, _, err := store.RevertTransaction(ctx, 3, libtime.Time{})
		return err
	})
	run("RevertTransactionAt", "explicit date", func() error {
		_, _, err := store.RevertTransaction(ctx, 3, t(5))
		return err
	})
	run("UpdateTransactionMetadata", "at = zero", func() error {
		_, _, err := store.UpdateTransactionMetadata(ctx, 3, metadata.Metadata{"k": "v2"}, libtime.Time{})
		return err
	})
	run("UpdateTransactionMetadataAt", "explicit date", func() error {
		_, _, err := store.UpdateTransactionMetadata(ctx, 3, metadata.Metadata{"k": "v2"}, t(5))
		return err
	})
	run("DeleteTransactionMetadata", "at = zero", func() error {
		_, _, err := store.DeleteTransactionMetadata(ctx, 3, "k", libtime.Time{})
		return err
	})
	run("DeleteTransactionMetadataAt", "explicit date", func() error {
		_, _, err := store.DeleteTransactionMetadata(ctx, 3, "k", t(5))
		return err
	})
	run("UpdateAccountsMetadata", "two accounts", func() error {
		return store.UpdateAccountsMetadata(ctx, map[string]metadata.Metadata{"acc:a": {"k": "v"}}, t(0))
	})
	run("UpdateAccountsMetadataNoDate", "zero date", func() error {
		return store.UpdateAccountsMetadata(ctx, map[string]metadata.Metadata{"acc:a": {"k": "v"}}, libtime.Time{})
	})
	run("DeleteAccountMetadata", "", func() error {
		return store.DeleteAccountMetadata(ctx, "acc:a", "k")
	})
	run("InsertSchema", "", func() error {
		sch, err := ledger.NewSchema("v1", ledger.SchemaData{Chart: ledger.ChartOfAccounts{}})
		if err != nil {
			return err
		}
		return store.InsertSchema(ctx, &sch)
	})
	run("FindSchema", "", func() error {
		_, err := store.FindSchema(ctx, "v1")
		return err
	})
	run("FindLatestSchemaVersion", "", func() error {
		_, err := store.FindLatestSchemaVersion(ctx)
		return err
	})
	run("LockLedgerConn", "LockLedger on a *bun.DB: session advisory lock on a dedicated connection, then unlock", func() error {
		_, _, release, err := store.LockLedger(ctx)
		if err != nil {
			return err
		}
		return release()
	})
	run("LockLedgerTx", "LockLedger inside a transaction: xact advisory lock", func() error {
		st, tx, err := store.BeginTX(ctx, nil)
		if err != nil {
			return err
		}
		_, _, release, err := st.LockLedger(ctx)
		if err != nil {
			return err
		}
		if err := release(); err != nil {
			return err
		}
		return tx.Commit()
	})
	run("NestedTx", "BeginTX inside a transaction: savepoint statements", func() error {
		st, tx, err := store.BeginTX(ctx, nil)
		if err != nil {
			return err
		}
		_, tx2, err := st.BeginTX(ctx, nil)
		if err != nil {
			return err
		}
		if err := tx2.Rollback(); err != nil {
			return err
		}
		return tx.Commit()
	})
	return out, firstErr
}

// CaptureSystemMigrations runs the real system-store migrator over a lenient
// recording driver and returns every statement it issued, in order.
func CaptureSystemMigrations() ([]pgfake.Stmt, error) {
	srv := pgfake.StartRecording(true)
	defer srv.Close()
	err := systemstore.Migrate(context.Background(), srv.DB())
	return srv.Log(), err
}

func captureMain(args []string) int {
	fs := flag.NewFlagSet("capture", flag.ExitOnError)
	lenient := fs.Bool("lenient", false, "do not fail on statements minisql cannot parse")
	what := fs.String("what", "writes", "writes | reads")
	_ = fs.Parse(args)
	var caps []Captured
	var err error
	switch *what {
	case "sysmig":
		stmts, merr := CaptureSystemMigrations()
		for _, st := range stmts {
			fmt.Printf("[%s] %s\n", st.Err, st.SQL)
		}
		if merr != nil {
			fmt.Fprintln(os.Stderr, "migrate:", merr)
			return 1
		}
		return 0
	case "writes":
		caps, err = CaptureWrites(*lenient)
	default:
		fmt.Fprintln(os.Stderr, "unknown -what")
		return 2
	}
	enc := json.NewEncoder(os.Stdout)
	enc.SetEscapeHTML(false)
	for _, c := range caps {
		_ = enc.Encode(c)
	}
	if err != nil {
		fmt.Fprintln(os.Stderr, "capture failed:", err)
		return 1
	}
	return 0
}
