//go:build verif

// Package wlsql holds the SQL-area commands and workloads of cmd/vrsql:
// capture (T1), storeops, …
package wlsql

import (
	"encoding/json"
	"fmt"
	"io"
	"os"

	"github.com/formancehq/ledger/internal/verif/minisql"

	"github.com/formancehq/go-libs/v5/pkg/storage/bun/paginate"
)

type bigIntAlias = paginate.BigInt

// Main dispatches a vrsql sub-command and returns the exit code.
func Main(cmd string, args []string) int {
	switch cmd {
	case "capture":
		return captureMain(args)
	case "parse":
		return parseMain(args)
	case "schema":
		return schemaMain(args)
	case "smoke":
		return smokeMain(args)
	case "syssmoke":
		return sysSmokeMain(args)
	case "schedsmoke":
		return schedSmokeMain(args)
	case "bench":
		return benchMain(args)
	case "driversmoke":
		return driverSmokeMain(args)
	case "blockssmoke":
		return blocksSmokeMain(args)
	case "ctrlsmoke":
		return ctrlSmokeMain(args)
	case "writesql":
		return writesqlMain(args)
	case "replay":
		return replayMain(args)
	case "storeops":
		return storeopsMain(args)
	default:
		fmt.Fprintf(os.Stderr, "vrsql: unknown command %q\n", cmd)
		return 2
	}
}

// parseMain: SQL on stdin -> JSON AST and Lean term on stdout (debug aid).
func parseMain(args []string) int {
	src, _ := io.ReadAll(os.Stdin)
	parts, err := minisql.SplitStatements(string(src))
	if err != nil {
		fmt.Fprintln(os.Stderr, err)
		return 1
	}
	rc := 0
	for _, p := range parts {
		st, err := minisql.Parse(p)
		if err != nil {
			fmt.Fprintln(os.Stderr, err)
			rc = 1
			continue
		}
		b, _ := json.Marshal(st.JSON())
		fmt.Println(string(b))
		fmt.Println(st.Lean())
		fmt.Println(minisql.PrintSQL(st.Root))
	}
	return rc
}
