//go:build verif

// Package wlsql holds the SQL-area commands and workloads of cmd/vrsql:
// capture (T1), storeops, …
package wlsql

import (
	"fmt"
	"os"

	"github.com/formancehq/go-libs/v5/pkg/storage/bun/paginate"
)

type bigIntAlias = paginate.BigInt

// Main dispatches a vrsql sub-command and returns the exit code.
func Main(cmd string, args []string) int {
	switch cmd {
	case "capture":
		return captureMain(args)
	default:
		fmt.Fprintf(os.Stderr, "vrsql: unknown command %q\n", cmd)
		return 2
	}
}
