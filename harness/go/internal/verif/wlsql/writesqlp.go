//go:build verif

package wlsql

import (
	"context"
	"encoding/json"
	"fmt"
	"math/big"
	"regexp"
	"strconv"
	"strings"

	"github.com/formancehq/go-libs/v5/pkg/types/metadata"
	libtime "github.com/formancehq/go-libs/v5/pkg/types/time"

	ledger "github.com/formancehq/ledger/internal"
	"github.com/formancehq/ledger/internal/storage/bucket"
	ledgerstore "github.com/formancehq/ledger/internal/storage/ledger"
	"github.com/formancehq/ledger/internal/verif/minisql"
	"github.com/formancehq/ledger/internal/verif/pgfake"
)

// Parametrised statements (second half of T1): the store methods are called with
// MARKER arguments; in the parsed statements the markers are replaced by Lean
// variables, and a VALUES list whose rows are instances of one template becomes
// `rows.map fun r => …`. The result is, per store write method, a Lean FUNCTION
// from the method's arguments to the statement it renders — what a bridge lemma
// can quantify over. Literal parameters are the rendered literals (a timestamp
// is the RFC 3339 text bun renders, a map its JSON text); integer literals that
// bun renders as quoted numbers are `Int` parameters rendered with `toString`.

const (
	pmBucket = "BUCKETMARK"
	pmLedger = "LEDGERMARK"
	pmID     = 424242
)

// scalar parameter: a literal of the rendered statement that becomes a variable
type pScalar struct {
	Name string
	Type string // String | Int
	Lit  string // literal text in the AST
	// Kind: "str" Expr.str lit ↦ Expr.str v ; "intstr" Expr.str lit ↦ Expr.str (toString v) ;
	//       "int" Expr.int lit ↦ Expr.int v
	Kind string
}

type pScenario struct {
	Name    string
	Doc     string
	RowType string // name of the row structure for VALUES rows ("" = single row: columns become scalars)
	// ConstCols: VALUES columns whose literal is a constant of the code, not an argument
	ConstCols []string
	Scalars []pScalar
	Run     func(ctx context.Context, store *ledgerstore.Store) error
	// Run2, when set, calls the method again with other argument values and
	// another number of rows: the template obtained from it must be the same text
	// (the rendering depends on the arguments only through the literals).
	Run2 func(ctx context.Context, store *ledgerstore.Store) error
}

func tsLit(t libtime.Time) string {
	v, _ := t.Value()
	return fmt.Sprint(v)
}

func jsonLit(v any) string {
	b, _ := json.Marshal(v)
	return string(b)
}

var intRe = regexp.MustCompile(`^-?[0-9]+$`)

// rowTemplate turns the rows of a VALUES list into one template over `r`.
// cols are the target column names (field names of the row structure).
func rowTemplate(cols []string, rows [][]*minisql.Node, constCols []string) (template string, fields [][2]string, err error) {
	isConst := func(c int, n *minisql.Node) bool {
		if n.Is("Expr.str") && strings.Contains(n.Args[0].(string), "MARK") {
			return true // ledger / bucket markers are parameters of the whole statement
		}
		if c < len(cols) {
			for _, k := range constCols {
				if k == cols[c] {
					return true
				}
			}
		}
		return false
	}
	if len(rows) == 0 {
		return "", nil, fmt.Errorf("empty VALUES")
	}
	width := len(rows[0])
	// decide field types: Int when every row has a quoted integer in that column
	types := make([]string, width)
	for c := 0; c < width; c++ {
		allInt, anyLit, anyBool := true, false, false
		for _, r := range rows {
			if len(r) != width {
				return "", nil, fmt.Errorf("ragged VALUES")
			}
			n := r[c]
			switch {
			case isConst(c, n):
			case n.Is("Expr.str"):
				anyLit = true
				if !intRe.MatchString(n.Args[0].(string)) {
					allInt = false
				}
			case n.Is("Expr.int"):
				anyLit = true
			case n.Is("Expr.bool"):
				anyBool = true
			case n.Is("Expr.cast") && n.Args[0].(*minisql.Node).Is("Expr.str"):
				anyLit = true
				allInt = false
			default:
				// DEFAULT, NULL, nextval(…): must be the same in every row
			}
		}
		if anyBool && !anyLit {
			types[c] = "Bool" // TRUE/FALSE rendered from a Go bool field
		} else if anyLit {
			if allInt {
				types[c] = "Int"
			} else {
				types[c] = "String"
			}
		}
	}
	render := func(r []*minisql.Node) string {
		var parts []string
		for c, n := range r {
			name := "c" + strconv.Itoa(c)
			if c < len(cols) {
				name = leanIdent(cols[c])
			}
			switch {
			case types[c] == "" || n.Is("Expr.null") || n.Is("Expr.dflt") || isConst(c, n):
				parts = append(parts, n.Lean())
			case n.Is("Expr.str") && types[c] == "Int":
				parts = append(parts, "(Expr.str (toString r."+name+"))")
			case n.Is("Expr.str"):
				parts = append(parts, "(Expr.str r."+name+")")
			case n.Is("Expr.int"):
				parts = append(parts, "(Expr.int r."+name+")")
			case n.Is("Expr.bool") && types[c] == "Bool":
				parts = append(parts, "(Expr.bool r."+name+")")
			case n.Is("Expr.cast") && n.Args[0].(*minisql.Node).Is("Expr.str"):
				parts = append(parts, "(Expr.cast (Expr.str r."+name+") "+n.Args[1].(*minisql.Node).Lean()+")")
			default:
				parts = append(parts, n.Lean())
			}
		}
		return "[" + strings.Join(parts, ", ") + "]"
	}
	template = render(rows[0])
	for _, r := range rows[1:] {
		if render(r) != template {
			return "", nil, fmt.Errorf("VALUES rows are not instances of one template:\n%s\n%s", template, render(r))
		}
	}
	for c := 0; c < width; c++ {
		if types[c] != "" {
			// a column that is NULL/DEFAULT in the first row but literal elsewhere would have failed above
			if rows[0][c].Is("Expr.null") || rows[0][c].Is("Expr.dflt") {
				continue
			}
			name := "c" + strconv.Itoa(c)
			if c < len(cols) {
				name = leanIdent(cols[c])
			}
			fields = append(fields, [2]string{name, types[c]})
		}
	}
	return template, fields, nil
}

func leanIdent(s string) string {
	switch s {
	case "output", "input", "type", "end", "at", "from", "if", "then", "else", "do", "fun", "let", "in", "open", "where", "with", "match", "id":
		return s + "_"
	}
	return s
}

// flattenOr returns the disjuncts of a left-associated OR chain.
func flattenOr(n *minisql.Node) []*minisql.Node {
	if n.Is("Expr.binop") && n.Args[0].(minisql.Enum).Name == "or" {
		return append(flattenOr(n.Args[1].(*minisql.Node)), n.Args[2].(*minisql.Node))
	}
	return []*minisql.Node{n}
}

// substituteStrings rewrites Lean string literals that contain the bucket /
// ledger / id markers into concatenations.
func substituteMarkers(lean string) string {
	idStr := strconv.Itoa(pmID)
	lean = strings.ReplaceAll(lean, "(Expr.int "+idStr+")", "(Expr.int id)")
	return leanStrLit.ReplaceAllStringFunc(lean, func(lit string) string {
		if !strings.Contains(lit, pmBucket) && !strings.Contains(lit, pmLedger) && !strings.Contains(lit, idStr) {
			return lit
		}
		inner := lit[1 : len(lit)-1]
		var parts []string
		for len(inner) > 0 {
			best, bestVar, bestLen := -1, "", 0
			for _, m := range []struct{ mark, v string }{{pmBucket, "bucket"}, {pmLedger, "ledger"}, {idStr, "toString id"}} {
				if i := strings.Index(inner, m.mark); i >= 0 && (best < 0 || i < best) {
					best, bestVar, bestLen = i, m.v, len(m.mark)
				}
			}
			if best < 0 {
				parts = append(parts, `"`+inner+`"`)
				break
			}
			if best > 0 {
				parts = append(parts, `"`+inner[:best]+`"`)
			}
			parts = append(parts, bestVar)
			inner = inner[best+bestLen:]
		}
		if len(parts) == 1 {
			return parts[0]
		}
		return "(" + strings.Join(parts, " ++ ") + ")"
	})
}

type pResult struct {
	Name      string
	Doc       string
	RowType   string
	RowFields [][2]string
	Scalars   []pScalar
	Stmts     []string // Lean terms
	SQL       []string
}

func parametrise1(sc pScenario, stmts []pgfake.Stmt) (*pResult, error) {
	res := &pResult{Name: sc.Name, Doc: sc.Doc, RowType: sc.RowType}
	scalars := append([]pScalar{}, sc.Scalars...)
	for _, s := range stmts {
		st, err := minisql.Parse(s.SQL)
		if err != nil {
			return nil, err
		}
		res.SQL = append(res.SQL, s.SQL)
		var werr error
		st.Root.Walk(func(n *minisql.Node) {
			if werr != nil {
				return
			}
			var rows [][]*minisql.Node
			var cols []string
			argIdx := -1
			switch n.Tag {
			case "Stmt.insert":
				src := n.Args[5].(*minisql.Node)
				if src.Is("InsertSrc.values") {
					if r, ok := src.Args[0].([][]*minisql.Node); ok {
						rows, cols = r, n.Args[4].([]string)
						if sc.RowType != "" {
							tpl, fields, err := rowTemplate(cols, rows, sc.ConstCols)
							if err != nil {
								werr = err
								return
							}
							if res.RowFields != nil && fmt.Sprint(res.RowFields) != fmt.Sprint(fields) {
								werr = fmt.Errorf("two VALUES lists with different row shapes")
								return
							}
							res.RowFields = fields
							src.Args[0] = minisql.RawLean{Src: "(rows.map fun r => " + tpl + ")"}
						} else if len(rows) == 1 {
							// single row: every literal becomes a scalar named after its column
							for c, v := range rows[0] {
								if c >= len(cols) {
									break
								}
								name := leanIdent(cols[c])
								switch {
								case v.Is("Expr.str") && strings.Contains(v.Args[0].(string), "MARK"):
								case v.Is("Expr.str"):
									rows[0][c] = minisql.N("RawLean", "(Expr.str "+name+")")
									scalars = append(scalars, pScalar{Name: name, Type: "String"})
								case v.Is("Expr.int") && v.Args[0].(minisql.Int).V.Int64() != pmID:
									rows[0][c] = minisql.N("RawLean", "(Expr.int "+name+")")
									scalars = append(scalars, pScalar{Name: name, Type: "Int"})
								}
							}
						}
					}
				}
			case "Cte.mk":
				// WITH data_batch (cols) AS (VALUES …)
				body := n.Args[2].(*minisql.Node)
				if body.Is("Stmt.query") {
					q := body.Args[0].(*minisql.Node)
					se := q.Args[1].(*minisql.Node)
					if se.Is("SetExpr.values") && sc.RowType != "" {
						rows = se.Args[0].([][]*minisql.Node)
						cols = n.Args[1].([]string)
						argIdx = 0
						tpl, fields, err := rowTemplate(cols, rows, sc.ConstCols)
						if err != nil {
							werr = err
							return
						}
						res.RowFields = fields
						se.Args[argIdx] = minisql.RawLean{Src: "(rows.map fun r => " + tpl + ")"}
					}
				}
			case "Select.mk":
				// WHERE (… row 0 …) OR (… row 1 …): GetBalances
				if sc.RowType != "" && sc.Name == "GetBalances" {
					if w := n.Args[4].(minisql.Opt).N; w != nil {
						ds := flattenOr(w)
						if len(ds) >= 2 {
							// substitute the row fields by value: each disjunct compares columns with the row's literals
							tpls := map[string]bool{}
							var tpl string
							for _, d := range ds {
								t := d.Lean()
								// literals of account / asset appear as Expr.str in equality comparisons with columns
								t = regexp.MustCompile(`\(Expr\.binop BinOp\.eq \(Expr\.col "" "accounts_address"\) \(Expr\.str "[^"]*"\)\)`).ReplaceAllString(t, `(Expr.binop BinOp.eq (Expr.col "" "accounts_address") (Expr.str r.accounts_address))`)
								t = regexp.MustCompile(`\(Expr\.binop BinOp\.eq \(Expr\.col "" "asset"\) \(Expr\.str "[^"]*"\)\)`).ReplaceAllString(t, `(Expr.binop BinOp.eq (Expr.col "" "asset") (Expr.str r.asset))`)
								tpls[t] = true
								tpl = t
							}
							if len(tpls) != 1 {
								werr = fmt.Errorf("GetBalances: WHERE disjuncts are not instances of one template")
								return
							}
							n.Args[4] = minisql.RawLean{Src: "(some (orChain (rows.map fun r => " + tpl + ")))"}
						}
					}
				}
			}
		})
		if werr != nil {
			return nil, fmt.Errorf("%s: %w", sc.Name, werr)
		}
		lean := st.Root.Lean()
		for _, p := range sc.Scalars {
			var from, to string
			switch p.Kind {
			case "str":
				from, to = "(Expr.str "+minisql.LeanString(p.Lit)+")", "(Expr.str "+p.Name+")"
			case "intstr":
				from, to = "(Expr.str "+minisql.LeanString(p.Lit)+")", "(Expr.str (toString "+p.Name+"))"
			case "int":
				from, to = "(Expr.int "+p.Lit+")", "(Expr.int "+p.Name+")"
			}
			if !strings.Contains(lean, from) {
				// the parameter may belong to another statement of the same call
				continue
			}
			lean = strings.ReplaceAll(lean, from, to)
		}
		lean = substituteMarkers(lean)
		res.Stmts = append(res.Stmts, lean)
	}
	// every declared scalar must have been used somewhere
	all := strings.Join(res.Stmts, "\n")
	seen := map[string]bool{}
	for _, p := range scalars {
		if seen[p.Name] {
			continue
		}
		seen[p.Name] = true
		if !regexp.MustCompile(`\b` + regexp.QuoteMeta(p.Name) + `\b`).MatchString(all) {
			return nil, fmt.Errorf("%s: parameter %s (literal %q) does not occur in the rendered statements", sc.Name, p.Name, p.Lit)
		}
		res.Scalars = append(res.Scalars, p)
	}
	if strings.Contains(all, "MARK") || strings.Contains(all, strconv.Itoa(pmID)) {
		return nil, fmt.Errorf("%s: a marker survived the substitution", sc.Name)
	}
	return res, nil
}

// CaptureParametric runs the store methods with marker arguments.
func CaptureParametric() ([]*pResult, error) {
	srv := pgfake.StartRecording(false)
	defer srv.Close()
	ctx := context.Background()
	l := ledger.MustNewWithDefault("x")
	l.Name = pmLedger
	l.ID = pmID
	l.Bucket = pmBucket
	b := bucket.NewDefaultFactory().Create(l.Bucket)
	store := ledgerstore.New(srv.DB(), b, l)

	t1, t2, t3 := t(-10), t(0), t(5)
	md := metadata.Metadata{"mk": "mv"}
	mkTx := func() *ledger.Transaction {
		tx := ledger.NewTransaction().
			WithPostings(ledger.NewPosting("acc:a", "acc:b", "USD", big.NewInt(100))).
			WithMetadata(metadata.Metadata{"k": "v"}).
			WithTimestamp(t1).
			WithReference("ref1")
		tx.InsertedAt = t2
		tx.UpdatedAt = t2
		tx.PostCommitVolumes = ledger.PostCommitVolumes{"acc:a": {"USD": ledger.NewVolumesInt64(0, 100)}, "acc:b": {"USD": ledger.NewVolumesInt64(100, 0)}}
		return &tx
	}
	scenarios := []pScenario{
		{Name: "UpdateVolumes", RowType: "VolumeRow", Doc: "UpdateVolumes(rows…): upsert adding the deltas",
			Run: func(ctx context.Context, s *ledgerstore.Store) error {
				_, err := s.UpdateVolumes(ctx,
					ledger.AccountsVolumes{Account: "acc:a", Asset: "USD", Input: big.NewInt(100), Output: big.NewInt(7)},
					ledger.AccountsVolumes{Account: "acc:b", Asset: "EUR", Input: big.NewInt(3), Output: big.NewInt(100)})
				return err
			},
			Run2: func(ctx context.Context, s *ledgerstore.Store) error {
				huge, _ := new(big.Int).SetString("340282366920938463463374607431768211456", 10)
				_, err := s.UpdateVolumes(ctx,
					ledger.AccountsVolumes{Account: "x", Asset: "COIN", Input: huge, Output: big.NewInt(0)},
					ledger.AccountsVolumes{Account: "y:1", Asset: "USD/2", Input: big.NewInt(0), Output: big.NewInt(1)},
					ledger.AccountsVolumes{Account: "z", Asset: "EUR", Input: big.NewInt(5), Output: big.NewInt(6)})
				return err
			}},
		{Name: "GetBalances", RowType: "BalanceRow", ConstCols: []string{"input", "output"}, Doc: "GetBalances(pairs): insert zero rows (ON CONFLICT DO NOTHING) and SELECT … FOR UPDATE; `rows` sorted by (account, asset)",
			Run: func(ctx context.Context, s *ledgerstore.Store) error {
				_, err := s.GetBalances(ctx, ledgerstore.BalanceQuery{"acc:a": {"EUR", "USD"}})
				return err
			},
			Run2: func(ctx context.Context, s *ledgerstore.Store) error {
				_, err := s.GetBalances(ctx, ledgerstore.BalanceQuery{"world": {"A", "B", "C"}})
				return err
			}},
		{Name: "InsertMoves", RowType: "MoveRow", Doc: "InsertMoves(moves…)",
			Run: func(ctx context.Context, s *ledgerstore.Store) error {
				v1, v2 := ledger.NewVolumesInt64(0, 100), ledger.NewVolumesInt64(100, 0)
				return s.InsertMoves(ctx,
					&ledger.Move{TransactionID: 11, IsSource: true, Account: "acc:a", Amount: (*bigIntAlias)(big.NewInt(100)), Asset: "USD", InsertionDate: t2, EffectiveDate: t1, PostCommitVolumes: &v1},
					&ledger.Move{TransactionID: 12, IsSource: false, Account: "acc:b", Amount: (*bigIntAlias)(big.NewInt(50)), Asset: "EUR", InsertionDate: t3, EffectiveDate: t2, PostCommitVolumes: &v2})
			},
			Run2: func(ctx context.Context, s *ledgerstore.Store) error {
				v := ledger.NewVolumesInt64(9, 8)
				return s.InsertMoves(ctx,
					&ledger.Move{TransactionID: 1, IsSource: true, Account: "p", Amount: (*bigIntAlias)(big.NewInt(1)), Asset: "X", InsertionDate: t1, EffectiveDate: t1, PostCommitVolumes: &v},
					&ledger.Move{TransactionID: 2, IsSource: false, Account: "q", Amount: (*bigIntAlias)(big.NewInt(2)), Asset: "Y", InsertionDate: t2, EffectiveDate: t2, PostCommitVolumes: &v},
					&ledger.Move{TransactionID: 3, IsSource: true, Account: "r", Amount: (*bigIntAlias)(big.NewInt(3)), Asset: "Z", InsertionDate: t3, EffectiveDate: t3, PostCommitVolumes: &v})
			}},
		{Name: "UpsertAccounts", RowType: "AccountRow", Doc: "UpsertAccounts(accounts…) with explicit dates",
			Run: func(ctx context.Context, s *ledgerstore.Store) error {
				return s.UpsertAccounts(ctx,
					ledger.AccountWithDefaultMetadata{Account: &ledger.Account{Address: "acc:a", Metadata: metadata.Metadata{"k": "v"}, FirstUsage: t1, InsertionDate: t2, UpdatedAt: t2}, DefaultMetadata: metadata.Metadata{"d": "x"}},
					ledger.AccountWithDefaultMetadata{Account: &ledger.Account{Address: "acc:b", Metadata: metadata.Metadata{"q": "w"}, FirstUsage: t2, InsertionDate: t3, UpdatedAt: t3}, DefaultMetadata: metadata.Metadata{"e": "y"}})
			}},
		{Name: "InsertTransaction", Doc: "InsertTransaction with id from the sequence; every literal is the rendered value of its column",
			Run: func(ctx context.Context, s *ledgerstore.Store) error { return s.InsertTransaction(ctx, mkTx()) }},
		{Name: "InsertTransactionWithID", Doc: "InsertTransaction with an explicit id",
			Run: func(ctx context.Context, s *ledgerstore.Store) error {
				tx := mkTx()
				tx.ID = u64(12)
				return s.InsertTransaction(ctx, tx)
			}},
		{Name: "InsertLog", Doc: "InsertLog with HASH_LOGS=SYNC (advisory lock, then insert); id from the sequence",
			Run: func(ctx context.Context, s *ledgerstore.Store) error {
				lg := ledger.NewLog(ledger.SavedMetadata{TargetType: ledger.MetaTargetTypeAccount, TargetID: "acc:a", Metadata: metadata.Metadata{"k": "v"}})
				lg.IdempotencyKey = "ik1"
				lg.IdempotencyHash = "hash1"
				lg.Date = t2
				return s.InsertLog(ctx, &lg)
			}},
		{Name: "RevertTransaction", Doc: "RevertTransaction(id, at = zero)",
			Scalars: []pScalar{{Name: "txid", Type: "Int", Lit: "77", Kind: "int"}},
			Run: func(ctx context.Context, s *ledgerstore.Store) error {
				_, _, err := s.RevertTransaction(ctx, 77, libtime.Time{})
				return err
			}},
		{Name: "RevertTransactionAt", Doc: "RevertTransaction(id, at)",
			Scalars: []pScalar{{Name: "txid", Type: "Int", Lit: "77", Kind: "int"}, {Name: "atTs", Type: "String", Lit: tsLit(t3), Kind: "str"}},
			Run: func(ctx context.Context, s *ledgerstore.Store) error {
				_, _, err := s.RevertTransaction(ctx, 77, t3)
				return err
			}},
		{Name: "UpdateTransactionMetadata", Doc: "UpdateTransactionMetadata(id, m, at = zero); metadataJson = JSON text of m",
			Scalars: []pScalar{{Name: "txid", Type: "Int", Lit: "77", Kind: "int"}, {Name: "metadataJson", Type: "String", Lit: jsonLit(md), Kind: "str"}},
			Run: func(ctx context.Context, s *ledgerstore.Store) error {
				_, _, err := s.UpdateTransactionMetadata(ctx, 77, md, libtime.Time{})
				return err
			}},
		{Name: "UpdateTransactionMetadataAt", Doc: "UpdateTransactionMetadata(id, m, at)",
			Scalars: []pScalar{{Name: "txid", Type: "Int", Lit: "77", Kind: "int"}, {Name: "metadataJson", Type: "String", Lit: jsonLit(md), Kind: "str"}, {Name: "atTs", Type: "String", Lit: tsLit(t3), Kind: "str"}},
			Run: func(ctx context.Context, s *ledgerstore.Store) error {
				_, _, err := s.UpdateTransactionMetadata(ctx, 77, md, t3)
				return err
			}},
		{Name: "DeleteTransactionMetadata", Doc: "DeleteTransactionMetadata(id, key, at = zero)",
			Scalars: []pScalar{{Name: "txid", Type: "Int", Lit: "77", Kind: "int"}, {Name: "key", Type: "String", Lit: "thekey", Kind: "str"}},
			Run: func(ctx context.Context, s *ledgerstore.Store) error {
				_, _, err := s.DeleteTransactionMetadata(ctx, 77, "thekey", libtime.Time{})
				return err
			}},
		{Name: "DeleteTransactionMetadataAt", Doc: "DeleteTransactionMetadata(id, key, at)",
			Scalars: []pScalar{{Name: "txid", Type: "Int", Lit: "77", Kind: "int"}, {Name: "key", Type: "String", Lit: "thekey", Kind: "str"}, {Name: "atTs", Type: "String", Lit: tsLit(t3), Kind: "str"}},
			Run: func(ctx context.Context, s *ledgerstore.Store) error {
				_, _, err := s.DeleteTransactionMetadata(ctx, 77, "thekey", t3)
				return err
			}},
		{Name: "UpdateAccountsMetadata", RowType: "AccountMetadataRow", Doc: "UpdateAccountsMetadata(m, at) — one row per account",
			Run: func(ctx context.Context, s *ledgerstore.Store) error {
				// a single map entry keeps the rendering deterministic; the template is taken from one row
				return s.UpdateAccountsMetadata(ctx, map[string]metadata.Metadata{"acc:a": {"k": "v"}}, t2)
			}},
		{Name: "DeleteAccountMetadata", Doc: "DeleteAccountMetadata(account, key)",
			Scalars: []pScalar{{Name: "account", Type: "String", Lit: "acc:zz", Kind: "str"}, {Name: "key", Type: "String", Lit: "thekey", Kind: "str"}},
			Run: func(ctx context.Context, s *ledgerstore.Store) error {
				return s.DeleteAccountMetadata(ctx, "acc:zz", "thekey")
			}},
		{Name: "InsertSchema", Doc: "InsertSchema",
			Run: func(ctx context.Context, s *ledgerstore.Store) error {
				sch, err := ledger.NewSchema("v1", ledger.SchemaData{Chart: ledger.ChartOfAccounts{}})
				if err != nil {
					return err
				}
				return s.InsertSchema(ctx, &sch)
			}},
		{Name: "LockLedgerTx", Doc: "LockLedger inside a transaction",
			Run: func(ctx context.Context, s *ledgerstore.Store) error {
				st, tx, err := s.BeginTX(ctx, nil)
				if err != nil {
					return err
				}
				if _, _, _, err := st.LockLedger(ctx); err != nil {
					return err
				}
				return tx.Commit()
			}},
	}
	var out []*pResult
	for _, sc := range scenarios {
		srv.ResetLog()
		func() {
			defer func() { _ = recover() }()
			_ = sc.Run(ctx, store)
		}()
		var stmts []pgfake.Stmt
		for _, st := range srv.Log() {
			if st.Err == "parse" {
				return nil, fmt.Errorf("%s: unparsable statement: %s", sc.Name, st.SQL)
			}
			up := strings.ToUpper(strings.TrimSpace(st.SQL))
			if up == "BEGIN" || up == "COMMIT" {
				continue
			}
			stmts = append(stmts, st)
		}
		r, err := parametrise1(sc, stmts)
		if err != nil {
			return nil, err
		}
		if sc.Run2 != nil {
			srv.ResetLog()
			func() {
				defer func() { _ = recover() }()
				_ = sc.Run2(ctx, store)
			}()
			r2, err := parametrise1(sc, srv.Log())
			if err != nil {
				return nil, fmt.Errorf("%s (second call): %w", sc.Name, err)
			}
			if strings.Join(r.Stmts, "\n") != strings.Join(r2.Stmts, "\n") || fmt.Sprint(r.RowFields) != fmt.Sprint(r2.RowFields) {
				return nil, fmt.Errorf("%s: the statement rendered for other arguments is not an instance of the same template:\n%s\n--- vs ---\n%s",
					sc.Name, strings.Join(r.Stmts, "\n"), strings.Join(r2.Stmts, "\n"))
			}
		}
		out = append(out, r)
	}
	return out, nil
}

// leanParametric renders the parametrised statements as Lean definitions.
func leanParametric(rs []*pResult) string {
	var sb strings.Builder
	w := func(format string, a ...any) { fmt.Fprintf(&sb, format, a...) }
	w("/-! ## parametrised statements\n\n")
	w("For every store write method: the statement(s) it renders as a FUNCTION of its arguments\n")
	w("(`bucket`, `ledger` = name, `id` = ledger id, then the method's own arguments). Obtained by\n")
	w("calling the real method with marker arguments and replacing the markers in the parsed\n")
	w("statement; VALUES lists whose rows are instances of one template become `rows.map`.\n-/\n")
	w("namespace P\n\nset_option linter.unusedVariables false\n\n")
	w("/-- `(d₁) OR (d₂) OR …` as bun joins the conditions (left-associated) -/\n")
	w("def orChain : List Expr → Expr\n  | [] => Expr.bool false\n  | e :: es => es.foldl (fun acc d => Expr.binop BinOp.or acc d) e\n\n")
	declared := map[string]string{}
	for _, r := range rs {
		if r.RowType != "" {
			var fs []string
			for _, f := range r.RowFields {
				fs = append(fs, fmt.Sprintf("  %s : %s", f[0], f[1]))
			}
			decl := strings.Join(fs, "\n")
			if prev, ok := declared[r.RowType]; ok && prev != decl {
				panic("row type declared twice with different fields: " + r.RowType)
			}
			if _, ok := declared[r.RowType]; !ok {
				declared[r.RowType] = decl
				w("/-- one VALUES row of `%s` (fields = rendered literals of the columns) -/\n", r.Name)
				w("structure %s where\n%s\n\n", r.RowType, decl)
			}
		}
		w("/-- `%s`: %s\n", r.Name, r.Doc)
		for _, q := range r.SQL {
			q = strings.Join(strings.Fields(q), " ")
			if len(q) > 400 {
				q = q[:400] + " …"
			}
			w("    %s\n", strings.ReplaceAll(q, "-/", "- /"))
		}
		w("-/\n")
		params := "(bucket ledger : String) (id : Nat)"
		if r.RowType != "" {
			params += fmt.Sprintf(" (rows : List %s)", r.RowType)
		}
		for _, p := range r.Scalars {
			params += fmt.Sprintf(" (%s : %s)", p.Name, p.Type)
		}
		w("def %s %s : List Stmt := [\n  %s\n]\n\n", lowerFirst(r.Name), params, strings.Join(r.Stmts, ",\n  "))
	}
	w("end P\n")
	return sb.String()
}
