//go:build verif

package wlsql

import (
	"context"
	"encoding/json"
	"fmt"
	"math/big"
	"os"

	"github.com/formancehq/go-libs/v5/pkg/types/metadata"
	libtime "github.com/formancehq/go-libs/v5/pkg/types/time"

	ledger "github.com/formancehq/ledger/internal"
	"github.com/formancehq/ledger/internal/storage/bucket"
	ledgerstore "github.com/formancehq/ledger/internal/storage/ledger"
	"github.com/formancehq/ledger/internal/verif/pgfake"
)

// `vrsql replay <name>`: minimal replays of observations made while validating LeanPG, through the REAL
// store over pgfake → LeanPG. One JSON object per replay on stdout: the steps and what they answered.
//
//	insertlog-swallow      InsertLog answers nil on a unique violation that is not logs_idempotency_key
//	revert-meta-history    RevertTransaction writes a transaction-metadata history revision
//	delete-absent-key      DeleteAccountMetadata of an absent key writes a revision and bumps updated_at

type replayStep struct {
	Step   string `json:"step"`
	Answer string `json:"answer"`
}

func errStr(err error) string {
	if err == nil {
		return "nil"
	}
	return "error: " + err.Error()
}

func replayMain(args []string) int {
	if len(args) < 1 {
		fmt.Fprintln(os.Stderr, "usage: vrsql replay <insertlog-swallow|revert-meta-history|delete-absent-key>")
		return 2
	}
	srv, err := pgfake.Start(pgfake.DefaultLpgPath())
	if err != nil {
		fmt.Fprintln(os.Stderr, err)
		return 1
	}
	defer srv.Close()
	ctx := context.Background()
	l := ledger.MustNewWithDefault("replay")
	l.ID = srv.AllocLedgerID()
	if err := srv.CreateLedger(l); err != nil {
		fmt.Fprintln(os.Stderr, "CreateLedger:", err)
		return 1
	}
	store := ledgerstore.New(srv.DB(), bucket.NewDefaultFactory().Create(l.Bucket), l)
	var steps []replayStep
	add := func(step, answer string) { steps = append(steps, replayStep{step, answer}) }
	table := func(name string) string {
		raw, err := srv.Dump(l.Name)
		if err != nil {
			return "dump: " + err.Error()
		}
		var d map[string]json.RawMessage
		_ = json.Unmarshal(raw, &d)
		return string(d[l.Bucket+"."+name])
	}
	switch args[0] {
	case "insertlog-swallow":
		// Two logs with the SAME explicit id (what two concurrent imports, or a replayed import, produce)
		// inside one SQL transaction.
		txStore, sqlTx, err := store.BeginTX(ctx, nil)
		if err != nil {
			fmt.Fprintln(os.Stderr, err)
			return 1
		}
		mk := func() ledger.Log {
			lg := ledger.NewLog(ledger.SavedMetadata{TargetType: ledger.MetaTargetTypeAccount, TargetID: "a", Metadata: metadata.Metadata{"k": "v"}})
			id := uint64(1)
			lg.ID = &id
			return lg
		}
		l1, l2 := mk(), mk()
		add("BEGIN; InsertLog(id=1)", errStr(txStore.InsertLog(ctx, &l1)))
		add("InsertLog(id=1) again — violates logs_ledger (ledger, id)", errStr(txStore.InsertLog(ctx, &l2)))
		_, _, err = txStore.UpdateTransactionMetadata(ctx, 1, metadata.Metadata{"x": "y"}, libtime.Time{})
		add("next statement in the same SQL transaction (UpdateTransactionMetadata)", errStr(err))
		add("COMMIT", errStr(sqlTx.Commit()))
		add("logs table afterwards", table("logs"))
		for _, s := range srv.Log() {
			if s.Err != "" {
				add("server log", "["+s.Err+"] "+s.SQL[:min(len(s.SQL), 90)])
			}
		}
	case "revert-meta-history":
		tx := ledger.NewTransaction().WithPostings(ledger.NewPosting("world", "bank", "USD", big.NewInt(100))).WithMetadata(metadata.Metadata{"k": "v"})
		add("CommitTransaction(metadata {k:v})", errStr(store.CommitTransaction(ctx, &tx)))
		add("transactions_metadata", table("transactions_metadata"))
		_, modified, err := store.RevertTransaction(ctx, *tx.ID, libtime.Time{})
		add("RevertTransaction", fmt.Sprintf("modified=%v %s", modified, errStr(err)))
		add("transactions_metadata (a revision 2 with the SAME metadata, written by the AFTER UPDATE trigger)", table("transactions_metadata"))
		_, modified, err = store.RevertTransaction(ctx, *tx.ID, libtime.Time{})
		add("RevertTransaction again", fmt.Sprintf("modified=%v %s", modified, errStr(err)))
		add("transactions_metadata (unchanged: the guarded UPDATE touched no row)", table("transactions_metadata"))
	case "delete-absent-key":
		add("UpdateAccountsMetadata(a, {k:v})", errStr(store.UpdateAccountsMetadata(ctx, map[string]metadata.Metadata{"a": {"k": "v"}}, libtime.Time{})))
		add("accounts", table("accounts"))
		add("DeleteAccountMetadata(a, nokey)", errStr(store.DeleteAccountMetadata(ctx, "a", "nokey")))
		add("accounts (updated_at bumped)", table("accounts"))
		add("accounts_metadata (revision 2 = revision 1)", table("accounts_metadata"))
	default:
		fmt.Fprintln(os.Stderr, "unknown replay", args[0])
		return 2
	}
	out, _ := json.MarshalIndent(map[string]any{"replay": args[0], "steps": steps}, "", " ")
	fmt.Println(string(out))
	return 0
}
