//go:build verif

package wlchart

import (
	"encoding/json"
	"math/rand"
	"strings"

	"github.com/formancehq/ledger/internal/verif/gen"
)

// ---- random chart documents --------------------------------------------------
//
// A chart document is built as a map[string]any tree and rendered with
// json.Marshal (no duplicate members). Patterns come from `patternFamilies`, all
// inside the regex subset of lean/Ledger/Base/Regex.lean; every family lists
// segments that match and segments that do not, so that address generation can
// aim at both sides of a pattern.

type patFamily struct {
	Pattern string
	Yes     []string
	No      []string
}

var patternFamilies = []patFamily{
	{`^[0-9]+$`, []string{"0", "42", "0012345"}, []string{"", "a1", "1a", "1-2", "１"}},
	{`^[a-z]{3}$`, []string{"abc", "zzz"}, []string{"ab", "abcd", "aBc", "a1c"}},
	{`[0-9]{2,4}`, []string{"12", "a123b", "99999"}, []string{"1", "a1b2c", ""}},
	{`^(eu|us)-[0-9]+$`, []string{"eu-1", "us-007"}, []string{"eu-", "uk-1", "eu-1a", "xeu-1"}},
	{`^x`, []string{"x", "xyz", "x-1"}, []string{"ax", "", "X"}},
	{`y$`, []string{"y", "xy", "play"}, []string{"yx", "", "Y"}},
	{`^\d{1,3}$`, []string{"1", "12", "123"}, []string{"1234", "", "12a"}},
	{`^[^_]+$`, []string{"abc", "a-b", "é"}, []string{"a_b", "_", ""}},
	{`^(a|b)*c?$`, []string{"", "abba", "c", "abc"}, []string{"cc", "abca", "d"}},
	{`.`, []string{"a", "ab", "é", "-"}, []string{""}},
	{``, []string{"", "anything"}, nil},
	{`^$`, []string{""}, []string{"a", "_"}},
	{`^.*$`, []string{"", "a:b", "whatever"}, nil},
	{`^[A-Z][a-z_-]*$`, []string{"A", "Abc", "A_b-c"}, []string{"a", "AB", "A1", ""}},
	{`^u[0-9a-f]{4}(-[0-9a-f]{2})?$`, []string{"u00ff", "u12ab-0c"}, []string{"u00f", "u00ff-", "u00ff-0", "U00ff", "u00fg"}},
	{`abc`, []string{"abc", "xabcx", "aabcc"}, []string{"ab", "acb", "ABC", ""}},
	{`a|b`, []string{"a", "b", "cab"}, []string{"c", "", "A"}},
	{`^\w+$`, []string{"a_1", "Z"}, []string{"a-1", "", "é"}},
	{`^[\d-]+$`, []string{"1-2", "-", "007"}, []string{"1_2", "a", ""}},
	{`^(ab){1,2}$`, []string{"ab", "abab"}, []string{"", "a", "ababab", "aba"}},
	{`^[a-c-]+\.[x-z]?$`, []string{"a.", "a-b.x", "-.z"}, []string{"a", "d.x", "a.xx", ".x"}},
	{`^\S+\s?$`, []string{"ab", "ab "}, []string{"", " ab", "a  "}},
	{`^(?:id|ref)[0-9]*?$`, []string{"id", "ref12"}, []string{"idx", "re", "ID"}},
	{`\A[0-9]{3}\z`, []string{"123"}, []string{"12", "1234", "12a"}},
}

// patterns regexp.Compile rejects
var invalidPatterns = []string{`(`, `[a-`, `a**`, `*a`, `a{2,1}`, `\`, `a{1001}`, `[z-a]`, `)`, `a++`, `x{2}{3}`, `[]`, `(a`, `a|*`}

var segNames = []string{"users", "bank", "main", "orders", "fees", "eu", "us", "a", "b", "world", "payments", "wallet-1", "v_2", "-", "_", "0", "Z9"}
var labelNames = []string{"id", "userID", "region", "n", "x_1", "k-2"}
var metaKeys = []string{"kind", "tier", "owner", "currency", "a", "b", ""}
var metaVals = []string{"", "x", "gold", "USD", "é\"\\<>&", "0"}

type chartGen struct {
	r    *rand.Rand
	wide bool
}

// genSegment returns the JSON object of one segment. depth counts down.
func (g *chartGen) genSegment(depth int) map[string]any {
	r := g.r
	seg := map[string]any{}
	nFixed := 0
	hasVar := false
	if depth > 0 {
		switch r.Intn(6) {
		case 0:
		case 1, 2:
			nFixed = 1 + r.Intn(2)
		case 3:
			hasVar = true
		default:
			nFixed = r.Intn(3)
			hasVar = r.Intn(2) == 0
		}
	}
	for i := 0; i < nFixed; i++ {
		seg[gen.Pick(r, segNames)] = g.genSegment(depth - 1)
	}
	if hasVar {
		child := g.genSegment(depth - 1)
		if r.Intn(3) > 0 {
			child[".pattern"] = gen.Pick(r, patternFamilies).Pattern
		}
		seg["$"+gen.Pick(r, labelNames)] = child
	}
	isLeaf := len(seg) == 0 || (len(seg) == 1 && seg[".pattern"] != nil)
	account := isLeaf
	if !isLeaf && r.Intn(2) == 0 {
		account = true
		if r.Intn(4) == 0 {
			seg[".self"] = nil
		} else {
			seg[".self"] = map[string]any{}
		}
	}
	if account {
		switch r.Intn(6) {
		case 0:
			seg[".metadata"] = map[string]any{}
		case 1:
			seg[".metadata"] = nil
		case 2, 3:
			m := map[string]any{}
			for i, n := 0, 1+r.Intn(3); i < n; i++ {
				k := gen.Pick(r, metaKeys)
				switch r.Intn(5) {
				case 0:
					m[k] = map[string]any{}
				case 1:
					m[k] = nil
				case 2:
					m[k] = map[string]any{"default": nil}
				default:
					m[k] = map[string]any{"default": gen.Pick(r, metaVals)}
				}
			}
			seg[".metadata"] = m
		}
		if r.Intn(8) == 0 {
			seg[".rules"] = map[string]any{}
		}
	}
	if r.Intn(25) == 0 {
		seg[".note"] = "ignored property"
	}
	return seg
}

func (g *chartGen) genChart() map[string]any {
	r := g.r
	maxDepth := 3
	if g.wide {
		maxDepth = 4
	}
	root := map[string]any{}
	for i, n := 0, 1+r.Intn(4); i < n; i++ {
		root[gen.Pick(r, segNames)] = g.genSegment(r.Intn(maxDepth + 1))
	}
	return root
}

// ---- malformed stream ----------------------------------------------------------

type mutation struct {
	name string
	// kind the real code is expected to report when this is the only defect
	// (informational; the driver checks it against the model, not this field)
	apply func(g *chartGen, seg map[string]any, isRoot bool) bool
}

// all segment objects of a document (root excluded), pre-order
func allSegments(doc map[string]any) []map[string]any {
	var res []map[string]any
	var walk func(m map[string]any)
	walk = func(m map[string]any) {
		for k, v := range m {
			if strings.HasPrefix(k, ".") {
				continue
			}
			if child, ok := v.(map[string]any); ok {
				res = append(res, child)
				walk(child)
			}
		}
	}
	walk(doc)
	return res
}

func firstFixedKey(seg map[string]any) string {
	ks := sortedKeys(seg)
	for _, k := range ks {
		if !strings.HasPrefix(k, ".") && !strings.HasPrefix(k, "$") {
			return k
		}
	}
	return ""
}

func firstVarKey(seg map[string]any) string {
	for _, k := range sortedKeys(seg) {
		if strings.HasPrefix(k, "$") {
			return k
		}
	}
	return ""
}

var mutations = []mutation{
	{"bad-name", func(g *chartGen, seg map[string]any, _ bool) bool {
		seg[gen.Pick(g.r, []string{"", "a b", "a:b", "é", "a.b", "$", "$a$", "a$"})] = map[string]any{}
		return true
	}},
	{"root-variable", func(g *chartGen, seg map[string]any, isRoot bool) bool {
		if !isRoot {
			return false
		}
		seg["$v"] = map[string]any{}
		return true
	}},
	{"root-property", func(g *chartGen, seg map[string]any, isRoot bool) bool {
		if !isRoot {
			return false
		}
		seg[gen.Pick(g.r, []string{".self", ".metadata", ".x"})] = map[string]any{}
		return true
	}},
	{"pattern-on-fixed", func(g *chartGen, seg map[string]any, _ bool) bool {
		k := firstFixedKey(seg)
		if k == "" {
			k = "fx"
			seg[k] = map[string]any{}
			delete(seg, ".metadata")
			delete(seg, ".rules")
		}
		child, ok := seg[k].(map[string]any)
		if !ok {
			return false
		}
		child[".pattern"] = "^[0-9]+$"
		return true
	}},
	{"pattern-not-string", func(g *chartGen, seg map[string]any, isRoot bool) bool {
		if isRoot {
			return false
		}
		k := firstVarKey(seg)
		if k == "" {
			k = "$mut"
			seg[k] = map[string]any{}
			delete(seg, ".metadata")
			delete(seg, ".rules")
		}
		child := seg[k].(map[string]any)
		child[".pattern"] = gen.Pick[any](g.r, []any{nil, 1, true, []any{"a"}, map[string]any{}})
		return true
	}},
	{"invalid-pattern", func(g *chartGen, seg map[string]any, isRoot bool) bool {
		if isRoot {
			return false
		}
		k := firstVarKey(seg)
		if k == "" {
			k = "$mut"
			seg[k] = map[string]any{}
			delete(seg, ".metadata")
			delete(seg, ".rules")
		}
		child := seg[k].(map[string]any)
		child[".pattern"] = gen.Pick(g.r, invalidPatterns)
		return true
	}},
	{"two-variable", func(g *chartGen, seg map[string]any, isRoot bool) bool {
		if isRoot {
			return false
		}
		seg["$first"] = map[string]any{}
		seg["$second"] = map[string]any{}
		return true
	}},
	{"self-not-empty", func(g *chartGen, seg map[string]any, isRoot bool) bool {
		if isRoot {
			return false
		}
		seg[".self"] = gen.Pick[any](g.r, []any{map[string]any{"x": 1}, 1, "s", []any{}, true})
		return true
	}},
	{"bad-metadata", func(g *chartGen, seg map[string]any, isRoot bool) bool {
		if isRoot {
			return false
		}
		seg[".self"] = map[string]any{}
		seg[".metadata"] = gen.Pick[any](g.r, []any{1, "s", []any{}, map[string]any{"k": 1}, map[string]any{"k": "v"},
			map[string]any{"k": map[string]any{"default": 1}}, map[string]any{"k": map[string]any{"default": []any{}}},
			map[string]any{"k": []any{}}})
		return true
	}},
	{"bad-rules", func(g *chartGen, seg map[string]any, isRoot bool) bool {
		if isRoot {
			return false
		}
		seg[".self"] = map[string]any{}
		seg[".rules"] = gen.Pick[any](g.r, []any{1, "s", []any{}, true})
		return true
	}},
	{"metadata-on-non-account", func(g *chartGen, seg map[string]any, isRoot bool) bool {
		if isRoot {
			return false
		}
		delete(seg, ".self")
		seg["child"] = map[string]any{}
		seg[gen.Pick(g.r, []string{".metadata", ".rules"})] = map[string]any{}
		return true
	}},
	{"segment-not-object", func(g *chartGen, seg map[string]any, _ bool) bool {
		seg["scalar"] = gen.Pick[any](g.r, []any{1, "s", []any{}, true, 1.5})
		return true
	}},
	// accepted variations (not defects): exercised so that the model's tolerance
	// matches the real decoder's
	{"ok-null-segment", func(g *chartGen, seg map[string]any, _ bool) bool {
		seg["nullseg"] = nil
		return true
	}},
	{"ok-default-case", func(g *chartGen, seg map[string]any, isRoot bool) bool {
		if isRoot {
			return false
		}
		seg[".self"] = map[string]any{}
		seg[".metadata"] = map[string]any{"k": map[string]any{gen.Pick(g.r, []string{"Default", "DEFAULT", "dEfAuLt"}): "v", "other": 1}}
		return true
	}},
	{"ok-unknown-property", func(g *chartGen, seg map[string]any, isRoot bool) bool {
		if isRoot {
			return false
		}
		seg[gen.Pick(g.r, []string{".foo", ".selfish", ".", ".pattern2", ". x"})] = gen.Pick[any](g.r, []any{1, nil, map[string]any{"$a": 1}})
		return true
	}},
}

// genDoc returns the JSON text of a chart document and whether exactly one
// known defect was injected into an otherwise valid document.
func (g *chartGen) genDoc() (doc string, mutated string) {
	r := g.r
	root := g.genChart()
	mode := r.Intn(10)
	if mode < 6 {
		b, _ := json.Marshal(root)
		return string(b), ""
	}
	if mode == 9 {
		// non-object documents and other odd roots
		return gen.Pick(r, []string{`null`, `{}`, `[]`, `1`, `"x"`, `true`, `{"a":null}`, `{"a":{"b":null,"$c":null}}`}), "odd-root"
	}
	targets := append([]map[string]any{root}, allSegments(root)...)
	for try := 0; try < 20; try++ {
		m := gen.Pick(r, mutations)
		idx := r.Intn(len(targets))
		if m.apply(g, targets[idx], idx == 0) {
			b, _ := json.Marshal(root)
			return string(b), m.name
		}
	}
	b, _ := json.Marshal(root)
	return string(b), ""
}

// ---- addresses -------------------------------------------------------------------

var junkSegments = []string{"", "zzz", "USERS", "users ", "a b", "é", "0", "-", "_", "x", "y", "abc", "12", "123", "eu-1", "u00ff"}

// genAddresses draws addresses aimed at the chart: walks along declared paths
// (choosing matching / non-matching segments for variable segments), stops early,
// overshoots, and adds junk.
func (g *chartGen) genAddresses(docText string, n int) []string {
	r := g.r
	var root map[string]any
	_ = json.Unmarshal([]byte(docText), &root)
	res := make([]string, 0, n)
	for len(res) < n {
		if root == nil || r.Intn(6) == 0 {
			k := 1 + r.Intn(3)
			parts := make([]string, k)
			for i := range parts {
				if r.Intn(2) == 0 {
					parts[i] = gen.Pick(r, segNames)
				} else {
					parts[i] = gen.Pick(r, junkSegments)
				}
			}
			res = append(res, strings.Join(parts, ":"))
			continue
		}
		var parts []string
		cur := root
		for depth := 0; depth < 6 && cur != nil; depth++ {
			var fixed, vars []string
			for _, k := range sortedKeys(cur) {
				switch {
				case strings.HasPrefix(k, "."):
				case strings.HasPrefix(k, "$"):
					vars = append(vars, k)
				default:
					fixed = append(fixed, k)
				}
			}
			if len(fixed)+len(vars) == 0 {
				break
			}
			var next map[string]any
			pickVar := len(vars) > 0 && (len(fixed) == 0 || r.Intn(2) == 0)
			if pickVar {
				vk := gen.Pick(r, vars)
				child, _ := cur[vk].(map[string]any)
				seg := gen.Pick(r, junkSegments)
				if child != nil {
					if p, ok := child[".pattern"].(string); ok {
						for _, f := range patternFamilies {
							if f.Pattern == p {
								if r.Intn(3) > 0 || len(f.No) == 0 {
									seg = gen.Pick(r, f.Yes)
								} else {
									seg = gen.Pick(r, f.No)
								}
							}
						}
					}
				}
				// sometimes a segment that is also a fixed sibling (fixed wins)
				if len(fixed) > 0 && r.Intn(8) == 0 {
					seg = gen.Pick(r, fixed)
					child, _ = cur[seg].(map[string]any)
				}
				parts = append(parts, seg)
				next = child
			} else {
				fk := gen.Pick(r, fixed)
				parts = append(parts, fk)
				next, _ = cur[fk].(map[string]any)
			}
			cur = next
			if r.Intn(4) == 0 {
				break
			}
		}
		if r.Intn(8) == 0 {
			parts = append(parts, gen.Pick(r, junkSegments))
		}
		if len(parts) == 0 {
			parts = []string{gen.Pick(r, junkSegments)}
		}
		res = append(res, strings.Join(parts, ":"))
	}
	return res
}
