//go:build verif

package wlchart

import (
	"encoding/json"
	"fmt"
	"math/rand"
	"strings"

	libtime "github.com/formancehq/go-libs/v5/pkg/types/time"

	ledger "github.com/formancehq/ledger/internal"
	ledgercontroller "github.com/formancehq/ledger/internal/controller/ledger"
	storagecommon "github.com/formancehq/ledger/internal/storage/common"
	"github.com/formancehq/ledger/internal/verif/gen"
)

// Workload "importlog" (C28, import path): a crafted export stream – JSON log lines
// as an exporter writes them, decoded by the real ledger.Log.UnmarshalJSON, chained
// and hashed with the real Log.ChainLog – is fed to the REAL Controller.Import of
// a fresh ledger over the real SQL store on LeanPG (a Lean MODEL of PostgreSQL).
// Afterwards the committed transactions are read back with ListTransactions and
// Postings.Validate is run on them.

type importLogIn struct {
	// each entry: the postings of one NEW_TRANSACTION log ([source, destination, asset, amount])
	Txs [][]postingT `json:"txs"`
}

type importLogOut struct {
	// "" | "invalid" (import refused for an invalid posting) | "other:…"
	Err string `json:"err"`
	Raw string `json:"raw,omitempty"`
	// transactions found in the ledger afterwards, oldest first
	Txs [][]postingT `json:"txs"`
	// Postings.Validate accepts every stored transaction
	Valid bool   `json:"valid"`
	Panic string `json:"panic,omitempty"`
}

var importStack *dbStack

func runImportLog(in importLogIn) (out importLogOut) {
	out.Txs = [][]postingT{}
	out.Valid = true
	out.Panic = gen.Guard(func() {
		if importStack == nil {
			s, err := startDBStack(ledgercontroller.SchemaEnforcementAudit)
			if err != nil {
				panic(err)
			}
			importStack = s
		}
		ctrl, _, err := importStack.newLedger(ledger.NewDefaultConfiguration())
		if err != nil {
			panic(err)
		}
		// the stream, as JSON lines
		var prev *ledger.Log
		stream := make(chan ledger.Log, len(in.Txs)+1)
		for i, ps := range in.Txs {
			postings := make([]map[string]any, 0, len(ps))
			for _, p := range ps {
				m := map[string]any{"source": p[0], "destination": p[1], "asset": p[2]}
				if p[3] != "" {
					m["amount"] = json.Number(p[3])
				}
				postings = append(postings, m)
			}
			date := fmt.Sprintf("2024-01-01T00:00:%02dZ", i+1)
			line, _ := json.Marshal(map[string]any{
				"type": "NEW_TRANSACTION",
				"date": date,
				"data": map[string]any{
					"transaction": map[string]any{
						"postings": postings, "metadata": map[string]string{}, "timestamp": date, "id": i + 1,
						"insertedAt": date, "updatedAt": date,
					},
					"accountMetadata": map[string]any{},
				},
			})
			var l ledger.Log
			if err := json.Unmarshal(line, &l); err != nil {
				out.Err = "other:decode: " + err.Error()
				return
			}
			l = l.ChainLog(prev)
			cp := l
			prev = &cp
			stream <- l
		}
		close(stream)
		err = ctrl.Import(importStack.ctx, stream)
		if err != nil {
			switch {
			case strings.Contains(err.Error(), "invalid posting"):
				out.Err = "invalid"
			default:
				out.Err = "other:" + err.Error()
			}
			out.Raw = err.Error()
			if len(out.Raw) > 400 {
				out.Raw = out.Raw[:400]
			}
		}
		cur, lerr := ctrl.ListTransactions(importStack.ctx, storagecommon.InitialPaginatedQuery[any]{PageSize: 100})
		if lerr != nil {
			out.Err += "|list:" + lerr.Error()
			return
		}
		for i := len(cur.Data) - 1; i >= 0; i-- {
			tx := cur.Data[i]
			ps := []postingT{}
			for _, p := range tx.Postings {
				amt := ""
				if p.Amount != nil {
					amt = p.Amount.String()
				}
				ps = append(ps, postingT{p.Source, p.Destination, p.Asset, amt})
			}
			out.Txs = append(out.Txs, ps)
			if _, verr := tx.Postings.Validate(); verr != nil {
				out.Valid = false
			}
		}
	})
	return out
}

func genImportLog(r *rand.Rand) importLogIn {
	var in importLogIn
	for i, n := 0, 1+r.Intn(3); i < n; i++ {
		var ps []postingT
		for j, m := 0, 1+r.Intn(2); j < m; j++ {
			p := postingT{gen.Pick(r, goodAccounts), gen.Pick(r, goodAccounts), gen.Pick(r, goodAssets), gen.Pick(r, []string{"1", "10", "1000000000000000000000000000000"})}
			if r.Intn(3) == 0 {
				switch r.Intn(4) {
				case 0:
					p[0] = genPadded(r, goodAccounts, badAccounts)
				case 1:
					p[1] = genPadded(r, goodAccounts, badAccounts)
				case 2:
					p[2] = genPadded(r, goodAssets, badAssets)
				default:
					p[3] = gen.Pick(r, []string{"-1", "-1000000000000000000000000000000", "0"})
				}
			}
			ps = append(ps, p)
		}
		in.Txs = append(in.Txs, ps)
	}
	return in
}

var _ = libtime.Now

func init() {
	gen.Register("importlog", func(c *gen.Ctx) error {
		defer func() {
			if importStack != nil {
				importStack.Close()
			}
		}()
		return replayOrGenerate(c, "importlog", func(in importLogIn) any { return runImportLog(in) }, func(int) importLogIn { return genImportLog(c.R) })
	})
}
