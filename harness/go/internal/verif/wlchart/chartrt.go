//go:build verif

package wlchart

import (
	"encoding/json"
	"reflect"
	"strings"

	ledger "github.com/formancehq/ledger/internal"
	"github.com/formancehq/ledger/internal/verif/gen"
)

// Workloads "chartrt" and "classify": the real ChartOfAccounts.UnmarshalJSON /
// MarshalJSON / FindAccountSchema / ValidatePosting on generated chart documents.

type chartIn struct {
	// JSON text of the chart document
	Doc string `json:"doc"`
	// how the document was produced ("" = valid by construction); informational
	Mutation string `json:"mutation,omitempty"`
	// compare the error kind too (single injected defect)
	StrictKind bool       `json:"strictKind"`
	Addrs      []string   `json:"addrs"`
	Postings   [][]string `json:"postings,omitempty"`
}

type classifyOut struct {
	Ok bool `json:"ok"`
	// ChartAccount.Metadata: null (nil map) or key → default (null when absent)
	Meta any `json:"meta"`
	// ChartAccount.DefaultMetadata()
	Defaults map[string]string `json:"defaults"`
	Err      string            `json:"err"`
}

type chartOut struct {
	Err string `json:"err"`
	Msg string `json:"msg,omitempty"`
	// field-by-field dump of the decoded chart
	Chart any `json:"chart"`
	// real MarshalJSON of the decoded chart
	Remarshal json.RawMessage `json:"remarshal,omitempty"`
	// unmarshal(marshal(c)): error, DeepEqual with c, marshal equal again
	RtErr         string        `json:"rtErr"`
	RtSame        bool          `json:"rtSame"`
	RtMarshalSame bool          `json:"rtMarshalSame"`
	Classify      []classifyOut `json:"classify"`
	Classify2     []classifyOut `json:"classify2"`
	Postings      []string      `json:"postings,omitempty"`
	Panic         string        `json:"panic,omitempty"`
}

func chartErrKind(msg string) string {
	for _, p := range []struct{ sub, kind string }{
		{"invalid segment name", "invalidSegmentName"},
		{"invalid address segment", "invalidSegmentName"},
		{"root cannot have a variable segment", "rootVariable"},
		{"the root cannot be an account", "rootProperty"},
		{"cannot have a pattern on a fixed segment", "patternOnFixed"},
		{"pattern must be a string", "patternNotString"},
		{"invalid pattern regex", "invalidPattern"},
		{"cannot have two variable segments", "twoVariable"},
		{"must be an empty object", "selfNotEmpty"},
		{"invalid default metadata", "invalidMetadata"},
		{"invalid account rules", "invalidRules"},
		{"cannot have .metadata on a non-account", "metadataOnNonAccount"},
		{"cannot have .rules on a non-account", "rulesOnNonAccount"},
		{"cannot unmarshal", "notObject"},
	} {
		if strings.Contains(msg, p.sub) {
			return p.kind
		}
	}
	return "other:" + msg
}

func dumpAccount(a *ledger.ChartAccount) any {
	if a == nil {
		return nil
	}
	var md any
	if a.Metadata != nil {
		m := map[string]any{}
		for k, v := range a.Metadata {
			if v.Default != nil {
				m[k] = *v.Default
			} else {
				m[k] = nil
			}
		}
		md = m
	}
	return map[string]any{"metadata": md}
}

func dumpSegment(s ledger.ChartSegment) any {
	fixed := map[string]any{}
	for k, v := range s.FixedSegments {
		fixed[k] = dumpSegment(v)
	}
	var v any
	if s.VariableSegment != nil {
		var pat any
		if s.VariableSegment.Pattern != nil {
			pat = *s.VariableSegment.Pattern
		}
		v = map[string]any{
			"label":   s.VariableSegment.Label,
			"pattern": pat,
			"seg":     dumpSegment(s.VariableSegment.ChartSegment),
		}
	}
	return map[string]any{"fixed": fixed, "var": v, "account": dumpAccount(s.Account)}
}

func dumpChart(c ledger.ChartOfAccounts) any {
	m := map[string]any{}
	for k, v := range c {
		m[k] = dumpSegment(v)
	}
	return m
}

func classifyAll(c *ledger.ChartOfAccounts, addrs []string) []classifyOut {
	res := make([]classifyOut, 0, len(addrs))
	for _, a := range addrs {
		acc, err := c.FindAccountSchema(a)
		if err != nil {
			res = append(res, classifyOut{Err: err.Error(), Defaults: map[string]string{}})
			continue
		}
		d := acc.DefaultMetadata()
		if d == nil {
			d = map[string]string{}
		}
		res = append(res, classifyOut{Ok: true, Meta: dumpAccount(acc).(map[string]any)["metadata"], Defaults: d})
	}
	return res
}

func runChart(in chartIn) (out chartOut) {
	out.Panic = gen.Guard(func() {
		var c ledger.ChartOfAccounts
		if err := json.Unmarshal([]byte(in.Doc), &c); err != nil {
			out.Err = chartErrKind(err.Error())
			out.Msg = err.Error()
			return
		}
		out.Chart = dumpChart(c)
		b, err := json.Marshal(c)
		if err != nil {
			out.RtErr = "marshal: " + err.Error()
			return
		}
		out.Remarshal = b
		out.Classify = classifyAll(&c, in.Addrs)
		for _, p := range in.Postings {
			err := c.ValidatePosting(ledger.Posting{Source: p[0], Destination: p[1]})
			if err != nil {
				out.Postings = append(out.Postings, err.Error())
			} else {
				out.Postings = append(out.Postings, "")
			}
		}
		var c2 ledger.ChartOfAccounts
		if err := json.Unmarshal(b, &c2); err != nil {
			out.RtErr = err.Error()
			return
		}
		out.RtSame = reflect.DeepEqual(c, c2)
		b2, err := json.Marshal(c2)
		if err != nil {
			out.RtErr = "marshal2: " + err.Error()
			return
		}
		out.RtMarshalSame = string(b) == string(b2)
		out.Classify2 = classifyAll(&c2, in.Addrs)
	})
	return out
}

func replayOrGenerate[T any](c *gen.Ctx, f string, run func(T) any, generate func(i int) T) error {
	if c.Replay != "" {
		ins, err := c.ReplayInputs(f)
		if err != nil {
			return err
		}
		for _, raw := range ins {
			var in T
			if err := json.Unmarshal(raw, &in); err != nil {
				return err
			}
			if err := c.Emit(f, in, run(in)); err != nil {
				return err
			}
		}
		return nil
	}
	for i := 0; i < c.N; i++ {
		in := generate(i)
		if err := c.Emit(f, in, run(in)); err != nil {
			return err
		}
	}
	return nil
}

func init() {
	gen.Register("chartrt", func(c *gen.Ctx) error {
		g := &chartGen{r: c.R, wide: c.Wide}
		return replayOrGenerate(c, "chartrt", func(in chartIn) any { return runChart(in) }, func(int) chartIn {
			doc, mut := g.genDoc()
			return chartIn{Doc: doc, Mutation: mut, StrictKind: true, Addrs: g.genAddresses(doc, 6)}
		})
	})
	gen.Register("classify", func(c *gen.Ctx) error {
		g := &chartGen{r: c.R, wide: c.Wide}
		return replayOrGenerate(c, "chartrt", func(in chartIn) any { return runChart(in) }, func(int) chartIn {
			b, _ := json.Marshal(g.genChart())
			doc := string(b)
			addrs := g.genAddresses(doc, 24)
			var ps [][]string
			for i := 0; i < 6; i++ {
				ps = append(ps, []string{gen.Pick(c.R, addrs), gen.Pick(c.R, addrs)})
			}
			return chartIn{Doc: doc, StrictKind: true, Addrs: addrs, Postings: ps}
		})
	})
}
