//go:build verif

package wlchart

import (
	"context"
	"math/big"
	"math/rand"
	"regexp"
	"strings"
	"unicode/utf8"

	"github.com/antlr/antlr4/runtime/Go/antlr"

	logging "github.com/formancehq/go-libs/v5/pkg/observe/log"

	ledger "github.com/formancehq/ledger/internal"
	ledgercontroller "github.com/formancehq/ledger/internal/controller/ledger"
	"github.com/formancehq/ledger/internal/machine/script/parser"
	"github.com/formancehq/ledger/internal/verif/gen"
	"github.com/formancehq/ledger/pkg/accounts"
	"github.com/formancehq/ledger/pkg/assets"
)

// Workload "patterns": strings at the edge of the lexer rules ASSET / ACCOUNT /
// NUMBER / PORTION / VARIABLE_NAME against (a) the real generated ANTLR lexer,
// (b) accounts.ValidateAddress, assets.IsValid, ledger.ValidateSegment, and
// (c) Go regexp on chart-style patterns.
//
// Workload "scriptlit": `send [<asset> 1] (source = @world destination = @<account>)`
// through the real controller (machine runtime and interpreter), reporting whether
// a transaction was committed and whether Postings.Validate accepts what was
// committed.
//
// Workload "postingval": Postings.Validate.

type patternsIn struct {
	S       string  `json:"s"`
	Pattern *string `json:"pattern,omitempty"`
}

type patternsOut struct {
	Account bool `json:"account"`
	Asset   bool `json:"asset"`
	Segment bool `json:"segment"`
	// token type when the real lexer turns the whole string into exactly one token
	// of one of the five literal rules, else ""
	Lex string `json:"lex"`
	// for Lex == "ACCOUNT": accounts.ValidateAddress(s[1:])
	AccountBody bool   `json:"accountBody"`
	Compiles    bool   `json:"compiles"`
	Match       bool   `json:"match"`
	Panic       string `json:"panic,omitempty"`
}

type errCounter struct {
	*antlr.DefaultErrorListener
	n int
}

func (e *errCounter) SyntaxError(_ antlr.Recognizer, _ interface{}, _, _ int, _ string, _ antlr.RecognitionException) {
	e.n++
}

var literalRules = map[string]bool{"ASSET": true, "ACCOUNT": true, "NUMBER": true, "PORTION": true, "VARIABLE_NAME": true}

func lexWhole(s string) string {
	if s == "" {
		return ""
	}
	lx := parser.NewNumScriptLexer(antlr.NewInputStream(s))
	lx.RemoveErrorListeners()
	ec := &errCounter{DefaultErrorListener: antlr.NewDefaultErrorListener()}
	lx.AddErrorListener(ec)
	toks := lx.GetAllTokens()
	if ec.n > 0 || len(toks) != 1 {
		return ""
	}
	t := toks[0]
	if t.GetStart() != 0 || t.GetStop() != utf8.RuneCountInString(s)-1 || t.GetChannel() != antlr.TokenDefaultChannel {
		return ""
	}
	name := ""
	if tt := t.GetTokenType(); tt > 0 && tt < len(lx.SymbolicNames) {
		name = lx.SymbolicNames[tt]
	}
	if !literalRules[name] {
		return ""
	}
	return name
}

func runPatterns(in patternsIn) (out patternsOut) {
	out.Panic = gen.Guard(func() {
		out.Account = accounts.ValidateAddress(in.S)
		out.Asset = assets.IsValid(in.S)
		out.Segment = ledger.ValidateSegment(in.S)
		out.Lex = lexWhole(in.S)
		if out.Lex == "ACCOUNT" {
			out.AccountBody = accounts.ValidateAddress(in.S[1:])
		}
		out.Compiles = true
		if in.Pattern != nil {
			if _, err := regexp.Compile(*in.Pattern); err != nil {
				out.Compiles = false
			} else {
				out.Match, _ = regexp.Match(*in.Pattern, []byte(in.S))
			}
		}
	})
	return out
}

const (
	upper  = "ABCDEFGHIJKLMNOPQRSTUVWXYZ"
	lower  = "abcdefghijklmnopqrstuvwxyz"
	digits = "0123456789"
)

func randFrom(r *rand.Rand, alphabet string, n int) string {
	rs := []rune(alphabet)
	var sb strings.Builder
	for i := 0; i < n; i++ {
		sb.WriteRune(rs[r.Intn(len(rs))])
	}
	return sb.String()
}

var edgeStrings = []string{
	"", "A", "USD", "USD/2", "A/B", "/", "//", "1A", "A1", "1", "12", "1/2", "1 / 2", "1/ 2", "50%", "12.5%", "12.%", "%",
	"USD_X", "USD_", "_", "EUR/", "EUR/1234567", "EUR/123456", "AAAAAAAAAAAAAAAAA", "AAAAAAAAAAAAAAAAAA", "A/1", "A/1/2", "/1",
	"@a", "@a:b", "@a:", "@:a", "@", "@a::b", "@a-b_c:0", "@A:B", "@a b", "@é", "a", "a:b", "a:", ":a", "a::b", "a-b_c:0",
	"$a", "$_", "$a1", "$1a", "$A", "$", "$a_b2", "$.", ".a", ".self", "$id", "a.b", "-", "-:-", "0:1",
	"vars", "max", "remaining", " 1", "1 ", "A B", "é", "É", "USD\n", "\nUSD", "a\n", "USD/2\n",
}

func genEdgeString(r *rand.Rand, wide bool) string {
	switch r.Intn(12) {
	case 0, 1, 2:
		return gen.Pick(r, edgeStrings)
	case 3:
		// asset-pattern shaped
		s := randFrom(r, upper, 1) + randFrom(r, upper+digits, r.Intn(19))
		if r.Intn(3) == 0 {
			s += "_" + randFrom(r, upper, r.Intn(19))
		}
		if r.Intn(2) == 0 {
			s += "/" + randFrom(r, digits, r.Intn(8))
		}
		return s
	case 4:
		// lexer ASSET alphabet
		return randFrom(r, upper+digits+"///", 1+r.Intn(6))
	case 5:
		// account shaped
		n := 1 + r.Intn(3)
		parts := make([]string, n)
		for i := range parts {
			parts[i] = randFrom(r, lower+upper+digits+"_-", r.Intn(5))
		}
		s := strings.Join(parts, ":")
		if r.Intn(2) == 0 {
			s = "@" + s
		}
		return s
	case 6:
		return "$" + randFrom(r, lower+"_"+digits+"A", 1+r.Intn(5))
	case 7:
		// portion shaped
		switch r.Intn(3) {
		case 0:
			return randFrom(r, digits, 1+r.Intn(3)) + gen.Pick(r, []string{"/", " /", "/ ", " / ", "  /"}) + randFrom(r, digits, r.Intn(3))
		case 1:
			return randFrom(r, digits, 1+r.Intn(3)) + gen.Pick(r, []string{"%", ".5%", ".%", "%%"})
		default:
			return randFrom(r, digits, 1+r.Intn(25))
		}
	case 8:
		// mutation of an edge string
		s := []rune(gen.Pick(r, edgeStrings))
		if len(s) == 0 {
			return "x"
		}
		alphabet := []rune(upper + lower + digits + "_-:/@$.% é\n")
		i := r.Intn(len(s))
		switch r.Intn(3) {
		case 0:
			s[i] = alphabet[r.Intn(len(alphabet))]
		case 1:
			s = append(s[:i], s[i+1:]...)
		default:
			s = append(s[:i], append([]rune{alphabet[r.Intn(len(alphabet))]}, s[i:]...)...)
		}
		return string(s)
	default:
		n := 1 + r.Intn(6)
		if wide {
			n = 1 + r.Intn(24)
		}
		return randFrom(r, upper+lower+digits+"_-:/@$.% ", n)
	}
}

func genPatternCase(r *rand.Rand, wide bool) patternsIn {
	in := patternsIn{S: genEdgeString(r, wide)}
	if r.Intn(3) == 0 {
		var p string
		switch r.Intn(8) {
		case 0:
			p = gen.Pick(r, invalidPatterns)
		default:
			f := gen.Pick(r, patternFamilies)
			p = f.Pattern
			switch r.Intn(3) {
			case 0:
				in.S = gen.Pick(r, f.Yes)
			case 1:
				if len(f.No) > 0 {
					in.S = gen.Pick(r, f.No)
				}
			}
		}
		in.Pattern = &p
	}
	return in
}

// ---- scriptlit -------------------------------------------------------------------

type scriptLitIn struct {
	Asset   string `json:"asset"`
	Account string `json:"account"`
	Runtime string `json:"runtime"`
}

type scriptLitOut struct {
	Err      string     `json:"err"`
	Raw      string     `json:"raw,omitempty"`
	Postings []postingT `json:"postings"`
	// Postings.Validate() of the committed transaction is nil
	Valid     bool   `json:"valid"`
	Committed int    `json:"committed"`
	Panic     string `json:"panic,omitempty"`
}

func runScriptLit(in scriptLitIn) (out scriptLitOut) {
	out.Postings = []postingT{}
	out.Valid = true
	out.Panic = gen.Guard(func() {
		ctx := logging.ContextWithLogger(context.Background(), logging.NopZap())
		st := newFakeStore()
		ctrl := newCtrl(st, ledgercontroller.SchemaEnforcementAudit)
		script := "send [" + in.Asset + " 1] (\n  source = @world\n  destination = @" + in.Account + "\n)"
		_, tx, _, err := ctrl.CreateTransaction(ctx, ledgercontroller.Parameters[ledgercontroller.CreateTransaction]{
			Input: ledgercontroller.CreateTransaction{
				RunScript: ledgercontroller.RunScript{Script: ledgercontroller.Script{Plain: script, Vars: map[string]string{}}},
				Runtime:   ledger.RuntimeType(in.Runtime),
			},
		})
		out.Committed = len(st.state.Txs)
		if err != nil {
			out.Err = "compile"
			if k, _ := classifyCtrlErr(err); k != "compile" {
				out.Err = "run"
			}
			out.Raw = err.Error()
			if len(out.Raw) > 300 {
				out.Raw = out.Raw[:300]
			}
			return
		}
		for _, p := range tx.Transaction.Postings {
			out.Postings = append(out.Postings, postingT{p.Source, p.Destination, p.Asset, p.Amount.String()})
		}
		_, verr := tx.Transaction.Postings.Validate()
		out.Valid = verr == nil
	})
	return out
}

func genScriptLit(r *rand.Rand, wide bool) scriptLitIn {
	in := scriptLitIn{Runtime: "machine"}
	if r.Intn(5) == 0 {
		in.Runtime = "experimental-interpreter"
	}
	switch r.Intn(4) {
	case 0:
		in.Asset = gen.Pick(r, []string{"USD", "EUR/2", "A/B", "/", "1A", "A1", "12", "1/2", "USD/1234567", "AAAAAAAAAAAAAAAAAA", "A//", "/9", "B/", "USD_X", "COIN"})
	case 1:
		in.Asset = randFrom(r, upper+digits+"//", 1+r.Intn(5))
	case 2:
		in.Asset = randFrom(r, upper, 1) + randFrom(r, upper+digits, r.Intn(19))
	default:
		in.Asset = genEdgeString(r, wide)
	}
	switch r.Intn(4) {
	case 0:
		in.Account = genEdgeString(r, wide)
	case 1:
		in.Account = gen.Pick(r, []string{"a:", ":a", "a::b", "", "a b", "world", "A:B-c_d:0"})
	default:
		n := 1 + r.Intn(3)
		parts := make([]string, n)
		for i := range parts {
			parts[i] = randFrom(r, lower+digits+"_-", 1+r.Intn(4))
		}
		in.Account = strings.Join(parts, ":")
	}
	// keep the script a single statement: no newline / bracket / paren inside literals
	for _, s := range []*string{&in.Asset, &in.Account} {
		*s = strings.Map(func(c rune) rune {
			if c == '\n' || c == '\r' || c == '(' || c == ')' || c == '[' || c == ']' {
				return -1
			}
			return c
		}, *s)
	}
	return in
}

// ---- postingval ------------------------------------------------------------------

type postingValIn struct {
	Postings []map[string]any `json:"postings"`
}

type postingValOut struct {
	Index int    `json:"index"`
	Err   string `json:"err"`
	Panic string `json:"panic,omitempty"`
}

func runPostingVal(in postingValIn) (out postingValOut) {
	out.Panic = gen.Guard(func() {
		var ps ledger.Postings
		for _, p := range in.Postings {
			np := ledger.Posting{}
			np.Source, _ = p["source"].(string)
			np.Destination, _ = p["destination"].(string)
			np.Asset, _ = p["asset"].(string)
			if a, ok := p["amount"].(string); ok {
				np.Amount, _ = new(big.Int).SetString(a, 10)
			}
			ps = append(ps, np)
		}
		i, err := ps.Validate()
		out.Index = i
		if err != nil {
			out.Err = err.Error()
		}
	})
	return out
}

func genPostingVal(r *rand.Rand, wide bool) postingValIn {
	var in postingValIn
	for i, n := 0, r.Intn(4); i < n; i++ {
		p := map[string]any{}
		pick := func(valid []string) string {
			if r.Intn(8) == 0 {
				return genEdgeString(r, wide)
			}
			return gen.Pick(r, valid)
		}
		p["source"] = pick([]string{"world", "a:b", "users:001", "A-1_b"})
		p["destination"] = pick([]string{"bank", "a:b:c", "x"})
		p["asset"] = pick([]string{"USD", "EUR/2", "COIN", "USD_TEST/6"})
		switch r.Intn(10) {
		case 0:
		case 1:
			p["amount"] = "-" + gen.BigAmount(r).String()
		default:
			p["amount"] = gen.BigAmount(r).String()
		}
		in.Postings = append(in.Postings, p)
	}
	return in
}

func init() {
	gen.Register("patterns", func(c *gen.Ctx) error {
		return replayOrGenerate(c, "patterns", func(in patternsIn) any { return runPatterns(in) }, func(i int) patternsIn {
			if i < len(edgeStrings) {
				return patternsIn{S: edgeStrings[i]}
			}
			return genPatternCase(c.R, c.Wide)
		})
	})
	gen.Register("scriptlit", func(c *gen.Ctx) error {
		return replayOrGenerate(c, "scriptlit", func(in scriptLitIn) any { return runScriptLit(in) }, func(int) scriptLitIn { return genScriptLit(c.R, c.Wide) })
	})
	gen.Register("postingval", func(c *gen.Ctx) error {
		return replayOrGenerate(c, "postingval", func(in postingValIn) any { return runPostingVal(in) }, func(int) postingValIn { return genPostingVal(c.R, c.Wide) })
	})
}
