//go:build verif

package wlchart

import (
	"context"
	"encoding/json"
	"fmt"
	"math/big"

	ledger "github.com/formancehq/ledger/internal"
	ledgercontroller "github.com/formancehq/ledger/internal/controller/ledger"
	"github.com/formancehq/ledger/internal/verif/gen"
)

// Workload "explore": hand-written scenarios against the real controller, used
// while building the model (prints free-form JSON; not part of any check).

func newCtrl(store *fakeStore, mode ledgercontroller.SchemaEnforcementMode) *ledgercontroller.DefaultController {
	return ledgercontroller.NewDefaultController(
		ledger.Ledger{Name: "l"},
		store,
		ledgercontroller.NewDefaultNumscriptParser(),
		ledgercontroller.NewDefaultNumscriptParser(),
		ledgercontroller.NewInterpreterNumscriptParser(nil),
		ledgercontroller.WithSchemaEnforcementMode(mode),
	)
}

func init() {
	gen.Register("explore", func(c *gen.Ctx) error {
		ctx := context.Background()
		show := func(name string, v any) {
			b, _ := json.Marshal(v)
			fmt.Fprintf(c.Out, "%s: %s\n", name, b)
			c.Out.Flush()
		}
		// 1. asset literal A/B through the machine runtime
		for _, rt := range []ledger.RuntimeType{ledger.RuntimeMachine, ledger.RuntimeExperimentalInterpreter} {
			for _, asset := range []string{"A/B", "/", "1A", "USD/2", "AAAAAAAAAAAAAAAAAAAAAAAA", "USD_X", "USD/1234567"} {
				st := newFakeStore()
				ctrl := newCtrl(st, ledgercontroller.SchemaEnforcementStrict)
				script := fmt.Sprintf("send [%s 1] (\n source = @world\n destination = @bank\n)", asset)
				var res any
				p := gen.Guard(func() {
					_, tx, _, err := ctrl.CreateTransaction(ctx, ledgercontroller.Parameters[ledgercontroller.CreateTransaction]{
						Input: ledgercontroller.CreateTransaction{
							RunScript: ledgercontroller.RunScript{Script: ledgercontroller.Script{Plain: script}},
							Runtime:   rt,
						},
					})
					if err != nil {
						res = map[string]any{"err": err.Error()}
						return
					}
					_, verr := tx.Transaction.Postings.Validate()
					res = map[string]any{"postings": tx.Transaction.Postings, "validate": fmt.Sprint(verr), "committedTxs": len(st.state.Txs)}
				})
				show(fmt.Sprintf("asset-literal rt=%s asset=%s panic=%q", rt, asset, p), res)
			}
		}
		// 2. audit mode, schema with templates, no template given
		for _, mode := range []ledgercontroller.SchemaEnforcementMode{ledgercontroller.SchemaEnforcementStrict, ledgercontroller.SchemaEnforcementAudit} {
			st := newFakeStore()
			ctrl := newCtrl(st, mode)
			var chart ledger.ChartOfAccounts
			if err := json.Unmarshal([]byte(`{"world":{},"bank":{".metadata":{"k":{"default":"v"}}}}`), &chart); err != nil {
				return err
			}
			_, _, _, err := ctrl.InsertSchema(ctx, ledgercontroller.Parameters[ledgercontroller.InsertSchema]{
				Input: ledgercontroller.InsertSchema{Version: "v1", Data: ledger.SchemaData{
					Chart: chart,
					Transactions: ledger.TransactionTemplates{
						"T": {Script: "send [USD 1] (\n source = @world\n destination = @bank\n)"},
					},
				}},
			})
			show("insert-schema mode="+string(mode), fmt.Sprint(err))
			for _, tc := range []struct{ version, template, plain string }{
				{"v1", "", "send [USD 2] (\n source = @world\n destination = @bank\n)"},
				{"v1", "T", ""},
				{"v1", "U", ""},
				{"", "", "send [USD 2] (\n source = @world\n destination = @bank\n)"},
				{"v9", "", "send [USD 2] (\n source = @world\n destination = @bank\n)"},
				{"v1", "T", "send [USD 2] (\n source = @world\n destination = @other\n)"},
			} {
				_, tx, _, err := ctrl.CreateTransaction(ctx, ledgercontroller.Parameters[ledgercontroller.CreateTransaction]{
					SchemaVersion: tc.version,
					Input: ledgercontroller.CreateTransaction{
						RunScript: ledgercontroller.RunScript{Script: ledgercontroller.Script{Plain: tc.plain, Template: tc.template}},
					},
				})
				var r any
				if err != nil {
					r = map[string]any{"err": err.Error()}
				} else {
					r = map[string]any{"postings": tx.Transaction.Postings}
				}
				show(fmt.Sprintf("mode=%s version=%q template=%q plain=%v commits=%d rolls=%d txs=%d accounts=%v", mode, tc.version, tc.template, tc.plain != "", st.Commits, st.Rolls, len(st.state.Txs), st.state.Accounts), r)
			}
		}
		// 3. chart JSON corner cases
		for _, doc := range []string{`null`, `{}`, `{"a":null}`, `{"a":{".self":null}}`, `{"a":{".metadata":null}}`, `{"a":{".metadata":{"k":null}}}`,
			`{"a":{".metadata":{"k":{"Default":"x"}}}}`, `{"a":{".rules":{"x":1}}}`, `{"a":{"$b":{".pattern":null}}}`, `{"a":{".foo":1}}`,
			`{"a":{"b":{}, ".metadata":{}}}`, `{"a":1}`, `{"a":[]}`, `{"a":{"$b":{".pattern":"("}}}`, `{"a":{"$b":{}, "$c":{}}}`, `{"a":{"":{}}}`, `{"a":{"b c":{}}}`} {
			var chart ledger.ChartOfAccounts
			err := json.Unmarshal([]byte(doc), &chart)
			out, _ := json.Marshal(chart)
			show("chart "+doc, map[string]any{"err": fmt.Sprint(err), "isNil": chart == nil, "re": string(out)})
		}
		var sd ledger.SchemaData
		err := json.Unmarshal([]byte(`{"chart":null}`), &sd)
		show("schemadata chart null", map[string]any{"err": fmt.Sprint(err), "isNil": sd.Chart == nil})
		_ = big.NewInt
		return nil
	})
}
