//go:build verif

package wlchart

import (
	"context"
	"encoding/json"
	"errors"
	"math/big"
	"math/rand"
	"strings"

	logging "github.com/formancehq/go-libs/v5/pkg/observe/log"
	"github.com/formancehq/go-libs/v5/pkg/types/metadata"

	ledger "github.com/formancehq/ledger/internal"
	"github.com/formancehq/ledger/internal/api/bulking"
	ledgercontroller "github.com/formancehq/ledger/internal/controller/ledger"
	"github.com/formancehq/ledger/internal/verif/gen"
)

// Workload "scriptvar": the creation paths of C28 other than literals, through the
// real controller (machine runtime) over the in-memory store:
//
//	var       – script with `account` variables and a `monetary` variable
//	assetvar  – script with `account` variables and an `asset` variable (`send [$ass 10]`)
//	meta      – destination account read from account metadata with meta(@cfg, "dest")
//	template  – the `var` script stored as a transaction template of a schema
//	postings  – the postings form of the API: bulking.TransactionRequest.ToCore
//	            (Postings.Validate, then TxToScriptData) → CreateTransaction
//
// Values are valid ones, valid ones padded with blanks / tabs / newlines in front
// and behind, values with interior bad characters, empty strings, look-alikes.
// The committed postings (if any) are reported together with Postings.Validate's
// verdict on them.

type scriptVarIn struct {
	Path   string `json:"path"`
	Src    string `json:"src"`
	Dst    string `json:"dst"`
	Asset  string `json:"asset"`
	Amount string `json:"amount"`
}

type scriptVarOut struct {
	// "" | "validate" (ToCore) | "vars" | "run" | "other:…"
	Err       string     `json:"err"`
	Raw       string     `json:"raw,omitempty"`
	Postings  []postingT `json:"postings"`
	Valid     bool       `json:"valid"`
	Committed int        `json:"committed"`
	Panic     string     `json:"panic,omitempty"`
}

const varScript = "vars {\n  account $src\n  account $dst\n  monetary $mon\n}\nsend $mon (\n  source = $src allowing unbounded overdraft\n  destination = $dst\n)"
const assetVarScript = "vars {\n  account $src\n  account $dst\n  asset $ass\n}\nsend [$ass 10] (\n  source = $src allowing unbounded overdraft\n  destination = $dst\n)"
const metaScript = "vars {\n  account $src\n  account $dst = meta(@cfg, \"dest\")\n  monetary $mon\n}\nsend $mon (\n  source = $src allowing unbounded overdraft\n  destination = $dst\n)"

func runScriptVar(in scriptVarIn) (out scriptVarOut) {
	out.Postings = []postingT{}
	out.Valid = true
	out.Panic = gen.Guard(func() {
		ctx := logging.ContextWithLogger(context.Background(), logging.NopZap())
		st := newFakeStore()
		ctrl := newCtrl(st, ledgercontroller.SchemaEnforcementAudit)
		mon := in.Asset + " " + in.Amount
		var (
			params ledgercontroller.Parameters[ledgercontroller.CreateTransaction]
		)
		plain := func(script string, vars map[string]string) {
			params.Input = ledgercontroller.CreateTransaction{
				RunScript: ledgercontroller.RunScript{Script: ledgercontroller.Script{Plain: script, Vars: vars}},
			}
		}
		switch in.Path {
		case "var":
			plain(varScript, map[string]string{"src": in.Src, "dst": in.Dst, "mon": mon})
		case "assetvar":
			plain(assetVarScript, map[string]string{"src": in.Src, "dst": in.Dst, "ass": in.Asset})
		case "meta":
			st.state.Accounts["cfg"] = metadata.Metadata{"dest": in.Dst}
			plain(metaScript, map[string]string{"src": in.Src, "mon": mon})
		case "template":
			var chart ledger.ChartOfAccounts
			_ = json.Unmarshal([]byte(`{"any":{}}`), &chart)
			if _, _, _, err := ctrl.InsertSchema(ctx, ledgercontroller.Parameters[ledgercontroller.InsertSchema]{
				Input: ledgercontroller.InsertSchema{Version: "v1", Data: ledger.SchemaData{
					Chart: chart, Transactions: ledger.TransactionTemplates{"T": {Script: varScript}}}},
			}); err != nil {
				panic(err)
			}
			params.SchemaVersion = "v1"
			params.Input = ledgercontroller.CreateTransaction{
				RunScript: ledgercontroller.RunScript{Script: ledgercontroller.Script{
					Template: "T", Vars: map[string]string{"src": in.Src, "dst": in.Dst, "mon": mon}}},
			}
		case "postings":
			req := bulking.TransactionRequest{Force: true}
			p := ledger.Posting{Source: in.Src, Destination: in.Dst, Asset: in.Asset}
			if a, ok := new(big.Int).SetString(in.Amount, 10); ok {
				p.Amount = a
			}
			req.Postings = ledger.Postings{p}
			core, err := req.ToCore()
			if err != nil {
				out.Err = "validate"
				out.Raw = err.Error()
				return
			}
			params.Input = *core
		default:
			panic("bad path " + in.Path)
		}
		_, tx, _, err := ctrl.CreateTransaction(ctx, params)
		out.Committed = len(st.state.Txs)
		if err != nil {
			var invalidVars *ledgercontroller.ErrInvalidVars
			switch {
			case errors.As(err, &invalidVars):
				out.Err = "vars"
			case strings.Contains(err.Error(), "failed to resolve resources"):
				out.Err = "vars"
			case strings.Contains(err.Error(), "failed to execute program"), errors.Is(err, ledgercontroller.ErrNoPostings):
				out.Err = "run"
			default:
				out.Err = "other:" + err.Error()
			}
			out.Raw = err.Error()
			if len(out.Raw) > 300 {
				out.Raw = out.Raw[:300]
			}
			return
		}
		for _, p := range tx.Transaction.Postings {
			out.Postings = append(out.Postings, postingT{p.Source, p.Destination, p.Asset, p.Amount.String()})
		}
		_, verr := tx.Transaction.Postings.Validate()
		out.Valid = verr == nil
	})
	return out
}

var padFront = []string{"", "", "", " ", "\t", "\n", "  ", "\r\n", " "}
var padBack = []string{"", "", "", " ", "\t", "\n", "  ", "\r\n", " ", "\n\n"}
var goodAccounts = []string{"users:001", "users:053", "bank", "a:b:c", "A-1_b", "x", "orders:2024:07"}
var badAccounts = []string{"", " ", "users::1", "users:", ":users", "us ers", "users:0\n1", "usérs", "users∶001", "ｕsers", "users:001:", "@users", "$x", "a b:c", "\n"}
var goodAssets = []string{"USD", "USD/2", "EUR", "COIN", "BTC/8", "A"}
var badAssets = []string{"", "usd", "USD /2", "U SD", "USD/", "A/B", "/", "1A", "USD/1234567", "ＵSD", "US\nD", "USD_", "AAAAAAAAAAAAAAAAAAAAAAAA"}
var amounts = []string{"1", "10", "42", "1000000000000000000000000000000", "9223372036854775808", "0", "-1", "-0", "+5", "1.5", "", "abc", " 1", "1 ", "1_000", "0x10", "１"}

func genPadded(r *rand.Rand, good, bad []string) string {
	switch r.Intn(10) {
	case 0, 1:
		return gen.Pick(r, bad)
	case 2:
		return gen.Pick(r, padFront) + gen.Pick(r, bad) + gen.Pick(r, padBack)
	case 3, 4, 5:
		return gen.Pick(r, padFront) + gen.Pick(r, good) + gen.Pick(r, padBack)
	default:
		return gen.Pick(r, good)
	}
}

func genScriptVar(r *rand.Rand) scriptVarIn {
	in := scriptVarIn{
		Path:  gen.Pick(r, []string{"var", "var", "assetvar", "meta", "template", "postings", "postings"}),
		Src:   genPadded(r, goodAccounts, badAccounts),
		Dst:   genPadded(r, goodAccounts, badAccounts),
		Asset: genPadded(r, goodAssets, badAssets),
	}
	if r.Intn(4) == 0 {
		in.Amount = gen.Pick(r, amounts)
	} else {
		in.Amount = gen.Pick(r, []string{"1", "10", "42", "1000000000000000000000000000000"})
	}
	// most cases: a single questionable field
	if r.Intn(3) > 0 {
		switch r.Intn(3) {
		case 0:
			in.Dst, in.Asset = gen.Pick(r, goodAccounts), gen.Pick(r, goodAssets)
		case 1:
			in.Src, in.Asset = gen.Pick(r, goodAccounts), gen.Pick(r, goodAssets)
		default:
			in.Src, in.Dst = gen.Pick(r, goodAccounts), gen.Pick(r, goodAccounts)
		}
	}
	return in
}

func init() {
	gen.Register("scriptvar", func(c *gen.Ctx) error {
		return replayOrGenerate(c, "scriptvar", func(in scriptVarIn) any { return runScriptVar(in) }, func(int) scriptVarIn { return genScriptVar(c.R) })
	})
}
