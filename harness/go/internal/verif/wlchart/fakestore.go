//go:build verif

package wlchart

import (
	"context"
	"database/sql"
	"sort"

	"github.com/uptrace/bun"

	"github.com/formancehq/go-libs/v5/pkg/storage/postgres"
	"github.com/formancehq/go-libs/v5/pkg/types/metadata"

	ledger "github.com/formancehq/ledger/internal"
	ledgercontroller "github.com/formancehq/ledger/internal/controller/ledger"
	"github.com/formancehq/ledger/internal/storage/common"
	ledgerstore "github.com/formancehq/ledger/internal/storage/ledger"
)

// fakeStore is a tiny in-memory stand-in for the controller's Store. It only
// implements what the schema-enforcement code paths call (CreateTransaction,
// SaveAccountMetadata, InsertSchema through logProcessor.forgeLog). Everything
// else panics through the embedded nil interface (caught by gen.Guard).
//
// A transaction works on a copy of the state; Commit publishes the copy,
// Rollback drops it. This is NOT a model of Postgres: the DB leg (SQL text,
// JSON columns, the upsert's `default_metadata || metadata` merge) is outside
// what this workload covers. The merge below is a hand transcription of the SQL
// in storage/ledger/accounts.go and is used only so that later writes of one
// scenario see accounts created by earlier ones.
type fakeState struct {
	Schemas  []ledger.Schema // in insertion order
	Accounts map[string]metadata.Metadata
	Txs      []ledger.Transaction
	Logs     []ledger.Log
}

func (s *fakeState) clone() *fakeState {
	c := &fakeState{
		Schemas:  append([]ledger.Schema(nil), s.Schemas...),
		Accounts: map[string]metadata.Metadata{},
		Txs:      append([]ledger.Transaction(nil), s.Txs...),
		Logs:     append([]ledger.Log(nil), s.Logs...),
	}
	for k, v := range s.Accounts {
		c.Accounts[k] = v.Copy()
	}
	return c
}

// upsertCall records the arguments of one UpsertAccounts call (this is the
// observable boundary of the Go code: what defaults / explicit values it hands
// to the store).
type upsertCall struct {
	Address  string
	Explicit metadata.Metadata
	Defaults metadata.Metadata
}

type fakeStore struct {
	ledgercontroller.Store // nil: unimplemented methods panic

	root    *fakeStore // the non-transactional handle
	state   *fakeState // committed state (root) or working copy (tx)
	inTx    bool
	Commits int
	Rolls   int
	Upserts []upsertCall
}

func newFakeStore() *fakeStore {
	s := &fakeStore{state: &fakeState{Accounts: map[string]metadata.Metadata{}}}
	s.root = s
	return s
}

func (s *fakeStore) BeginTX(ctx context.Context, options *sql.TxOptions) (ledgercontroller.Store, *bun.Tx, error) {
	tx := &fakeStore{root: s.root, state: s.root.state.clone(), inTx: true}
	return tx, nil, nil
}

func (s *fakeStore) Commit(ctx context.Context) error {
	s.root.Commits++
	if s.inTx {
		s.root.state = s.state
	}
	return nil
}

func (s *fakeStore) Rollback(ctx context.Context) error {
	s.root.Rolls++
	return nil
}

func (s *fakeStore) GetBalances(ctx context.Context, query ledgerstore.BalanceQuery) (ledger.Balances, error) {
	ret := ledger.Balances{}
	return ret, nil
}

func (s *fakeStore) CommitTransaction(ctx context.Context, transaction *ledger.Transaction) error {
	id := uint64(len(s.state.Txs) + 1)
	transaction.ID = &id
	s.state.Txs = append(s.state.Txs, *transaction)
	return nil
}

func (s *fakeStore) UpsertAccounts(ctx context.Context, accounts ...ledger.AccountWithDefaultMetadata) error {
	for _, a := range accounts {
		s.root.Upserts = append(s.root.Upserts, upsertCall{
			Address:  a.Address,
			Explicit: a.Metadata.Copy(),
			Defaults: a.DefaultMetadata.Copy(),
		})
		existing, ok := s.state.Accounts[a.Address]
		if !ok {
			m := metadata.Metadata{}
			for k, v := range a.DefaultMetadata {
				m[k] = v
			}
			for k, v := range a.Metadata {
				m[k] = v
			}
			s.state.Accounts[a.Address] = m
		} else {
			for k, v := range a.Metadata {
				existing[k] = v
			}
		}
	}
	return nil
}

func (s *fakeStore) InsertSchema(ctx context.Context, data *ledger.Schema) error {
	for _, sc := range s.state.Schemas {
		if sc.Version == data.Version {
			return postgres.ErrConstraintsFailed{}
		}
	}
	s.state.Schemas = append(s.state.Schemas, *data)
	return nil
}

func (s *fakeStore) FindSchema(ctx context.Context, version string) (*ledger.Schema, error) {
	for i := range s.state.Schemas {
		if s.state.Schemas[i].Version == version {
			sc := s.state.Schemas[i]
			return &sc, nil
		}
	}
	return nil, postgres.ErrNotFound
}

func (s *fakeStore) FindLatestSchemaVersion(ctx context.Context) (*string, error) {
	if len(s.state.Schemas) == 0 {
		return nil, nil
	}
	v := s.state.Schemas[len(s.state.Schemas)-1].Version
	return &v, nil
}

func (s *fakeStore) InsertLog(ctx context.Context, log *ledger.Log) error {
	id := uint64(len(s.state.Logs) + 1)
	log.ID = &id
	s.state.Logs = append(s.state.Logs, *log)
	return nil
}

func (s *fakeStore) ReadLogWithIdempotencyKey(ctx context.Context, ik string) (*ledger.Log, error) {
	return nil, postgres.ErrNotFound
}

// Accounts: only GetOne by address (what the machine's `meta()` resolution needs).
type fakeAccounts struct {
	common.PaginatedResource[ledger.Account, any] // nil: Paginate / Count panic
	s *fakeStore
}

func (a fakeAccounts) GetOne(ctx context.Context, q common.ResourceQuery[any]) (*ledger.Account, error) {
	address := ""
	if q.Builder != nil {
		_ = q.Builder.Walk(func(operator, key string, value *any) error {
			if key == "address" {
				address, _ = (*value).(string)
			}
			return nil
		})
	}
	m, ok := a.s.state.Accounts[address]
	if !ok {
		// the real store answers an empty account for an unknown address
		return &ledger.Account{Address: address, Metadata: metadata.Metadata{}}, nil
	}
	return &ledger.Account{Address: address, Metadata: m.Copy()}, nil
}

func (s *fakeStore) Accounts() common.PaginatedResource[ledger.Account, any] { return fakeAccounts{s: s} }

func sortedKeys[V any](m map[string]V) []string {
	ks := make([]string, 0, len(m))
	for k := range m {
		ks = append(ks, k)
	}
	sort.Strings(ks)
	return ks
}
