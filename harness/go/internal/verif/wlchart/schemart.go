//go:build verif

package wlchart

import (
	"bytes"
	"encoding/json"
	"math/rand"
	"reflect"
	"strings"

	ledger "github.com/formancehq/ledger/internal"
	"github.com/formancehq/ledger/internal/queries"
	"github.com/formancehq/ledger/internal/verif/gen"
)

// Workload "schemart": SchemaData (chart + transaction templates + query
// templates) through the real JSON decoders / encoders – the same ones the
// storage layer uses for the three JSON columns of the `schemas` table (bun
// marshals each member with encoding/json and scans it back with json.Unmarshal;
// the database itself is not part of this workload).
//
//   doc → json.Unmarshal → SchemaData s1 → NewSchema (validation outcome recorded)
//       → json.Marshal(s1) and json.Marshal of each member (column values)
//       → json.Unmarshal → s2 → compare s1/s2 member by member, marshal again.

type schemaRtIn struct {
	Doc string `json:"doc"`
}

type schemaRtOut struct {
	Err string `json:"err"`
	Msg string `json:"msg,omitempty"`
	// member-by-member dump of the decoded value
	Chart        any `json:"chart"`
	Transactions any `json:"transactions"`
	Queries      any `json:"queries"`
	// NewSchema accepted it ("" = yes)
	Invalid string `json:"invalid"`
	// json.Marshal of the decoded SchemaData
	Remarshal json.RawMessage `json:"remarshal,omitempty"`
	// per-column round trip (marshal member, unmarshal into a fresh member)
	ColChartSame bool `json:"colChartSame"`
	ColTxSame    bool `json:"colTxSame"`
	ColQSame     bool `json:"colQSame"`
	// whole-value round trip
	RtErr         string `json:"rtErr"`
	RtSame        bool   `json:"rtSame"`
	RtMarshalSame bool   `json:"rtMarshalSame"`
	Panic         string `json:"panic,omitempty"`
}

func schemaErrKind(msg string) string {
	k := chartErrKind(msg)
	if !strings.HasPrefix(k, "other:") && k != "notObject" {
		return "chart:" + k
	}
	switch {
	case strings.Contains(msg, "invalid type `"):
		return "badVarType"
	case strings.Contains(msg, "cannot unmarshal"):
		return "badType"
	}
	return "other:" + msg
}

func rawToAny(r json.RawMessage) any {
	if len(r) == 0 {
		return nil
	}
	var v any
	dec := json.NewDecoder(bytes.NewReader(r))
	dec.UseNumber()
	if err := dec.Decode(&v); err != nil {
		return "unparsable:" + string(r)
	}
	return map[string]any{"raw": v}
}

func dumpTemplates(ts ledger.TransactionTemplates) any {
	m := map[string]any{}
	for k, t := range ts {
		m[k] = map[string]any{"description": t.Description, "script": t.Script, "runtime": string(t.Runtime)}
	}
	return m
}

func fieldTypeName(vd queries.VarDecl) string {
	if vd.Type == nil {
		return ""
	}
	return queries.FieldTypeToString(vd.Type)
}

func dumpQueries(qs ledger.QueryTemplates) any {
	m := map[string]any{}
	for k, q := range qs {
		vars := map[string]any{}
		for vk, vd := range q.Vars {
			var dflt any
			if vd.Default != nil {
				dflt = map[string]any{"raw": vd.Default}
			}
			vars[vk] = map[string]any{"type": queries.FieldTypeToString(vd.Type), "default": dflt}
		}
		m[k] = map[string]any{
			"description": q.Description, "resource": string(q.Resource),
			"params": rawToAny(q.Params), "vars": vars, "body": rawToAny(q.Body),
		}
	}
	return m
}

// semantic equality of two decoded values (raw messages compared as JSON values)
func sameSchemaData(a, b ledger.SchemaData) bool {
	da := map[string]any{"c": dumpChart(a.Chart), "t": dumpTemplates(a.Transactions), "q": dumpQueries(a.Queries)}
	db := map[string]any{"c": dumpChart(b.Chart), "t": dumpTemplates(b.Transactions), "q": dumpQueries(b.Queries)}
	ja, _ := json.Marshal(da)
	jb, _ := json.Marshal(db)
	return string(ja) == string(jb)
}

func runSchemaRt(in schemaRtIn) (out schemaRtOut) {
	out.Panic = gen.Guard(func() {
		var s1 ledger.SchemaData
		dec := json.NewDecoder(strings.NewReader(in.Doc))
		if err := dec.Decode(&s1); err != nil {
			out.Err = schemaErrKind(err.Error())
			out.Msg = err.Error()
			return
		}
		out.Chart = dumpChart(s1.Chart)
		out.Transactions = dumpTemplates(s1.Transactions)
		out.Queries = dumpQueries(s1.Queries)
		if _, err := ledger.NewSchema("v", s1); err != nil {
			out.Invalid = err.Error()
		}
		b, err := json.Marshal(s1)
		if err != nil {
			out.RtErr = "marshal: " + err.Error()
			return
		}
		out.Remarshal = b
		// the three JSON columns
		{
			cb, err1 := json.Marshal(s1.Chart)
			var c2 ledger.ChartOfAccounts
			err2 := json.Unmarshal(cb, &c2)
			out.ColChartSame = err1 == nil && err2 == nil && reflect.DeepEqual(dumpChart(s1.Chart), dumpChart(c2))
			tb, err1 := json.Marshal(s1.Transactions)
			var t2 ledger.TransactionTemplates
			err2 = json.Unmarshal(tb, &t2)
			out.ColTxSame = err1 == nil && err2 == nil && reflect.DeepEqual(dumpTemplates(s1.Transactions), dumpTemplates(t2))
			qb, err1 := json.Marshal(s1.Queries)
			var q2 ledger.QueryTemplates
			err2 = json.Unmarshal(qb, &q2)
			ja, _ := json.Marshal(dumpQueries(s1.Queries))
			jb, _ := json.Marshal(dumpQueries(q2))
			out.ColQSame = err1 == nil && err2 == nil && string(ja) == string(jb)
		}
		var s2 ledger.SchemaData
		if err := json.Unmarshal(b, &s2); err != nil {
			out.RtErr = err.Error()
			return
		}
		out.RtSame = sameSchemaData(s1, s2)
		b2, err := json.Marshal(s2)
		if err != nil {
			out.RtErr = "marshal2: " + err.Error()
			return
		}
		out.RtMarshalSame = string(b) == string(b2)
	})
	return out
}

var scripts = []string{
	"send [USD 1] (\n  source = @world\n  destination = @bank\n)",
	"vars {\n  account $dest\n  monetary $mon\n}\nsend $mon (\n  source = @world\n  destination = $dest\n)",
	"", "not a script <>&\"é",
}

func genSchemaDoc(r *rand.Rand, wide bool) string {
	g := &chartGen{r: r, wide: wide}
	doc := map[string]any{}
	switch r.Intn(12) {
	case 0:
	case 1:
		doc["chart"] = nil
	default:
		var chart any
		cd, _ := g.genDoc()
		_ = json.Unmarshal([]byte(cd), &chart)
		doc["chart"] = chart
	}
	if r.Intn(3) > 0 {
		ts := map[string]any{}
		for i, n := 0, r.Intn(3); i < n; i++ {
			t := map[string]any{}
			if r.Intn(4) > 0 {
				t["description"] = gen.Pick(r, []string{"", "pay someone", "é\"<>&"})
			}
			if r.Intn(6) > 0 {
				t["script"] = gen.Pick(r, scripts)
			}
			switch r.Intn(6) {
			case 0:
				t["runtime"] = "machine"
			case 1:
				t["runtime"] = "experimental-interpreter"
			case 2:
				t["runtime"] = ""
			case 3:
				t["runtime"] = gen.Pick[any](r, []any{"wasm", nil, 1})
			}
			if r.Intn(10) == 0 {
				t["Script"] = "upper-case member name"
			}
			var tv any = t
			if r.Intn(15) == 0 {
				tv = gen.Pick[any](r, []any{nil, "x", 1, []any{}})
			}
			ts[gen.Pick(r, []string{"T", "pay", "refund", "", "A B"})] = tv
		}
		var tsv any = ts
		if r.Intn(15) == 0 {
			tsv = gen.Pick[any](r, []any{nil, []any{}, "x"})
		}
		doc["transactions"] = tsv
	}
	if r.Intn(3) > 0 {
		qs := map[string]any{}
		for i, n := 0, r.Intn(3); i < n; i++ {
			q := map[string]any{}
			if r.Intn(3) > 0 {
				q["description"] = gen.Pick(r, []string{"", "customers", "é"})
			}
			if r.Intn(8) > 0 {
				q["resource"] = gen.Pick(r, []string{"accounts", "transactions", "logs", "volumes", "nope", ""})
			}
			switch r.Intn(5) {
			case 0:
				q["params"] = map[string]any{"pageSize": 10, "sort": "address:asc"}
			case 1:
				q["params"] = gen.Pick[any](r, []any{nil, map[string]any{}, map[string]any{"unknown": true}, map[string]any{"pageSize": json.Number("100000000000000000000")}, "x"})
			}
			if r.Intn(2) == 0 {
				vars := map[string]any{}
				for j, m := 0, r.Intn(3); j < m; j++ {
					var v any
					switch r.Intn(8) {
					case 0:
						v = gen.Pick(r, []string{"string", "int", "boolean", "date"})
					case 1:
						v = gen.Pick[any](r, []any{"float", "", nil, 1, []any{}, map[string]any{}, map[string]any{"type": 1}})
					case 2:
						v = map[string]any{"type": "int", "default": gen.Pick[any](r, []any{1, json.Number("123456789012345678901234567890"), nil, "x", 1.5})}
					case 3:
						v = map[string]any{"type": "boolean", "default": gen.Pick[any](r, []any{true, false, nil})}
					case 4:
						v = map[string]any{"TYPE": "string", "Default": "upper"}
					default:
						v = map[string]any{"type": "string", "default": gen.Pick[any](r, []any{"foo", "", nil, map[string]any{"a": []any{1, "b"}}})}
					}
					vars[gen.Pick(r, []string{"category", "hat_type", "n", ""})] = v
				}
				var vv any = vars
				if r.Intn(12) == 0 {
					vv = gen.Pick[any](r, []any{nil, []any{}, "x"})
				}
				q["vars"] = vv
			}
			switch r.Intn(4) {
			case 0:
				q["body"] = map[string]any{"$match": map[string]any{"address": "users:"}}
			case 1:
				q["body"] = map[string]any{"$and": []any{map[string]any{"$match": map[string]any{"address": "${category}:"}}, map[string]any{"$match": map[string]any{"metadata[hat_type]": "${hat_type}"}}}}
			case 2:
				q["body"] = gen.Pick[any](r, []any{nil, map[string]any{}, "x", []any{}, map[string]any{"$nope": 1}})
			}
			var qv any = q
			if r.Intn(15) == 0 {
				qv = gen.Pick[any](r, []any{nil, "x", []any{}})
			}
			qs[gen.Pick(r, []string{"CUSTOMERS", "q", ""})] = qv
		}
		var qsv any = qs
		if r.Intn(15) == 0 {
			qsv = gen.Pick[any](r, []any{nil, []any{}, 1})
		}
		doc["queries"] = qsv
	}
	if r.Intn(15) == 0 {
		doc["extra"] = 1
	}
	if r.Intn(40) == 0 {
		return gen.Pick(r, []string{"null", "[]", "1", "\"x\""})
	}
	b, _ := json.Marshal(doc)
	return string(b)
}

func init() {
	gen.Register("schemart", func(c *gen.Ctx) error {
		return replayOrGenerate(c, "schemart", func(in schemaRtIn) any { return runSchemaRt(in) }, func(int) schemaRtIn {
			return schemaRtIn{Doc: genSchemaDoc(c.R, c.Wide)}
		})
	})
}
