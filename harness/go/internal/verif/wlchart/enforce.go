//go:build verif

package wlchart

import (
	"context"
	"encoding/json"
	"errors"
	"fmt"
	"math/big"
	"strings"

	logging "github.com/formancehq/go-libs/v5/pkg/observe/log"
	"github.com/formancehq/go-libs/v5/pkg/types/metadata"

	ledger "github.com/formancehq/ledger/internal"
	ledgercontroller "github.com/formancehq/ledger/internal/controller/ledger"
	"github.com/formancehq/ledger/internal/verif/gen"
)

// Workload "enforce": the real DefaultController (CreateTransaction,
// SaveAccountMetadata, InsertSchema → logProcessor.forgeLog/runLog →
// createTransaction → log.ValidateWithSchema) over the in-memory fakeStore, in
// strict and audit mode. Scripts are rendered from posting lists, compiled and
// run by the real machine.

type postingT = []string // [source, destination, asset, amount]

type schemaIn struct {
	Version   string              `json:"version"`
	Chart     string              `json:"chart"`
	Templates map[string][]postingT `json:"templates,omitempty"`
}

type opIn struct {
	Kind            string                       `json:"kind"` // "tx" | "savemeta"
	Version         string                       `json:"version"`
	Template        string                       `json:"template,omitempty"`
	Plain           []postingT                   `json:"plain,omitempty"`
	AccountMetadata map[string]map[string]string `json:"accountMetadata,omitempty"`
	Address         string                       `json:"address,omitempty"`
	Metadata        map[string]string            `json:"metadata,omitempty"`
}

type enforceIn struct {
	Mode    string                       `json:"mode"`
	Schemas []schemaIn                   `json:"schemas"`
	Pre     map[string]map[string]string `json:"pre,omitempty"`
	Ops     []opIn                       `json:"ops"`
}

type upsertOut struct {
	Address  string            `json:"address"`
	Explicit map[string]string `json:"explicit"`
	Defaults map[string]string `json:"defaults"`
}

type opOut struct {
	Err      string                       `json:"err"`
	ErrMsg   string                       `json:"errMsg"`
	Raw      string                       `json:"raw,omitempty"`
	Postings []postingT                   `json:"postings"`
	Upserts  []upsertOut                  `json:"upserts"`
	Commits  int                          `json:"commits"`
	Rolls    int                          `json:"rolls"`
	Txs      int                          `json:"txs"`
	Accounts map[string]map[string]string `json:"accounts"`
	LogVer   string                       `json:"logVersion"`
}

type enforceOut struct {
	SchemaErrs []string `json:"schemaErrs"`
	Ops        []opOut  `json:"ops"`
	Panic      string   `json:"panic,omitempty"`
}

func newCtrl(store *fakeStore, mode ledgercontroller.SchemaEnforcementMode) *ledgercontroller.DefaultController {
	return ledgercontroller.NewDefaultController(
		ledger.Ledger{Name: "l"},
		store,
		ledgercontroller.NewDefaultNumscriptParser(),
		ledgercontroller.NewDefaultNumscriptParser(),
		ledgercontroller.NewInterpreterNumscriptParser(nil),
		ledgercontroller.WithSchemaEnforcementMode(mode),
	)
}

func renderScript(ps []postingT) string {
	var sb strings.Builder
	for i, p := range ps {
		if i > 0 {
			sb.WriteString("\n")
		}
		src := "@" + p[0]
		if p[0] != "world" {
			src += " allowing unbounded overdraft"
		}
		fmt.Fprintf(&sb, "send [%s %s] (\n  source = %s\n  destination = @%s\n)", p[2], p[3], src, p[1])
	}
	return sb.String()
}

func nonNil(m map[string]string) map[string]string {
	if m == nil {
		return map[string]string{}
	}
	return m
}

func classifyCtrlErr(err error) (kind, msg string) {
	var (
		notFound     ledgercontroller.ErrSchemaNotFound
		notSpecified ledgercontroller.ErrSchemaNotSpecified
		validation   ledgercontroller.ErrSchemaValidationError
		invalidAcc   ledger.ErrInvalidAccount
	)
	switch {
	case errors.As(err, &notFound):
		return "schema-not-found", ""
	case errors.As(err, &notSpecified):
		return "schema-not-specified", ""
	case errors.As(err, &validation):
		s := err.Error()
		switch {
		case strings.Contains(s, "must use a template"):
			return "template-required", ""
		case strings.Contains(s, "failed to find transaction template"):
			return "template-not-found", ""
		case strings.Contains(s, "can only use templates"):
			return "no-template-definitions", ""
		}
		// chart violation: "…schema version [v]: <ErrInvalidAccount message>"
		if i := strings.Index(s, "]: "); i >= 0 {
			return "chart", s[i+3:]
		}
		return "chart", s
	case errors.As(err, &invalidAcc):
		return "chart", invalidAcc.Error()
	case errors.Is(err, ledgercontroller.ErrCompilationFailed{}):
		return "compile", ""
	case errors.Is(err, ledgercontroller.ErrNoPostings):
		return "compile", ""
	}
	return "other:" + err.Error(), ""
}

func runEnforce(in enforceIn) (out enforceOut) {
	out.SchemaErrs = []string{}
	out.Ops = []opOut{}
	out.Panic = gen.Guard(func() {
		ctx := logging.ContextWithLogger(context.Background(), logging.NopZap())
		st := newFakeStore()
		mode := ledgercontroller.SchemaEnforcementMode(in.Mode)
		ctrl := newCtrl(st, mode)
		for _, s := range in.Schemas {
			var chart ledger.ChartOfAccounts
			if err := json.Unmarshal([]byte(s.Chart), &chart); err != nil {
				out.SchemaErrs = append(out.SchemaErrs, "chart")
				continue
			}
			var templates ledger.TransactionTemplates
			if s.Templates != nil {
				templates = ledger.TransactionTemplates{}
				for id, ps := range s.Templates {
					templates[id] = ledger.TransactionTemplate{Script: renderScript(ps)}
				}
			}
			_, _, _, err := ctrl.InsertSchema(ctx, ledgercontroller.Parameters[ledgercontroller.InsertSchema]{
				Input: ledgercontroller.InsertSchema{Version: s.Version, Data: ledger.SchemaData{Chart: chart, Transactions: templates}},
			})
			switch {
			case err == nil:
				out.SchemaErrs = append(out.SchemaErrs, "")
			case errors.Is(err, ledgercontroller.ErrSchemaAlreadyExists{}):
				out.SchemaErrs = append(out.SchemaErrs, "already-exists")
			case errors.Is(err, ledger.ErrInvalidSchema{}):
				out.SchemaErrs = append(out.SchemaErrs, "invalid-schema")
			default:
				out.SchemaErrs = append(out.SchemaErrs, "other:"+err.Error())
			}
		}
		for a, m := range in.Pre {
			st.state.Accounts[a] = metadata.Metadata(nonNil(m)).Copy()
		}
		for _, op := range in.Ops {
			commits0, rolls0 := st.Commits, st.Rolls
			st.Upserts = nil
			var (
				err error
				o   opOut
			)
			o.Postings = []postingT{}
			o.Upserts = []upsertOut{}
			switch op.Kind {
			case "tx":
				var am map[string]metadata.Metadata
				if op.AccountMetadata != nil {
					am = map[string]metadata.Metadata{}
					for a, m := range op.AccountMetadata {
						am[a] = metadata.Metadata(m)
					}
				}
				var (
					log *ledger.Log
					tx  *ledger.CreatedTransaction
				)
				log, tx, _, err = ctrl.CreateTransaction(ctx, ledgercontroller.Parameters[ledgercontroller.CreateTransaction]{
					SchemaVersion: op.Version,
					Input: ledgercontroller.CreateTransaction{
						RunScript: ledgercontroller.RunScript{Script: ledgercontroller.Script{
							Plain: renderScript(op.Plain), Template: op.Template, Vars: map[string]string{}}},
						AccountMetadata: am,
					},
				})
				if err == nil {
					for _, p := range tx.Transaction.Postings {
						o.Postings = append(o.Postings, postingT{p.Source, p.Destination, p.Asset, p.Amount.String()})
					}
					o.LogVer = log.SchemaVersion
				}
			case "savemeta":
				var log *ledger.Log
				log, _, err = ctrl.SaveAccountMetadata(ctx, ledgercontroller.Parameters[ledgercontroller.SaveAccountMetadata]{
					SchemaVersion: op.Version,
					Input:         ledgercontroller.SaveAccountMetadata{Address: op.Address, Metadata: metadata.Metadata(nonNil(op.Metadata))},
				})
				if err == nil {
					o.LogVer = log.SchemaVersion
				}
			default:
				panic("bad op kind " + op.Kind)
			}
			if err != nil {
				o.Err, o.ErrMsg = classifyCtrlErr(err)
				o.Raw = err.Error()
			} else {
				for _, u := range st.Upserts {
					o.Upserts = append(o.Upserts, upsertOut{Address: u.Address, Explicit: nonNil(u.Explicit), Defaults: nonNil(u.Defaults)})
				}
			}
			o.Commits, o.Rolls = st.Commits-commits0, st.Rolls-rolls0
			o.Txs = len(st.state.Txs)
			o.Accounts = map[string]map[string]string{}
			for a, m := range st.state.Accounts {
				o.Accounts[a] = nonNil(m)
			}
			out.Ops = append(out.Ops, o)
		}
	})
	return out
}

type discard struct{}

func (discard) Write(p []byte) (int, error) { return len(p), nil }

// ---- generator ---------------------------------------------------------------------

var assetsPool = []string{"USD", "EUR/2", "COIN"}

func genEnforce(c *gen.Ctx) enforceIn {
	r := c.R
	g := &chartGen{r: r, wide: c.Wide}
	in := enforceIn{Mode: gen.Pick(r, []string{"strict", "strict", "audit"})}
	var allAddrs []string
	nSchemas := r.Intn(4) // 0: ledger without schema
	var versions []string
	for i := 0; i < nSchemas; i++ {
		b, _ := json.Marshal(g.genChart())
		doc := string(b)
		addrs := g.genAddresses(doc, 12)
		var ok []string
		{
			var chart ledger.ChartOfAccounts
			_ = json.Unmarshal(b, &chart)
			for _, a := range addrs {
				if _, err := chart.FindAccountSchema(a); err == nil && validAddr(a) {
					ok = append(ok, a)
				}
			}
		}
		for _, a := range addrs {
			if validAddr(a) {
				allAddrs = append(allAddrs, a)
			}
		}
		s := schemaIn{Version: fmt.Sprintf("v%d", i+1), Chart: doc}
		if r.Intn(12) == 0 && i > 0 {
			s.Version = "v1" // duplicate
		}
		if r.Intn(2) == 0 {
			s.Templates = map[string][]postingT{}
			for j, n := 0, r.Intn(3); j < n; j++ {
				pool := allAddrs
				if len(ok) >= 2 && r.Intn(4) > 0 {
					pool = ok
				}
				name := gen.Pick(r, []string{"T", "pay", "refund", ""})
				if len(pool) > 0 {
					s.Templates[name] = genPostings(r, pool, 1+r.Intn(2))
				}
			}
			if r.Intn(20) == 0 {
				s.Templates["broken"] = []postingT{}
			}
		}
		in.Schemas = append(in.Schemas, s)
		versions = append(versions, s.Version)
	}
	if len(allAddrs) == 0 {
		allAddrs = []string{"world", "bank", "users:1", "users:2"}
	}
	if r.Intn(2) == 0 {
		in.Pre = map[string]map[string]string{}
		for i, n := 0, 1+r.Intn(3); i < n; i++ {
			in.Pre[gen.Pick(r, allAddrs)] = genMeta(r)
		}
	}
	for i, n := 0, 1+r.Intn(5); i < n; i++ {
		op := opIn{Kind: "tx"}
		switch {
		case len(versions) == 0:
			if r.Intn(6) == 0 {
				op.Version = "v1"
			}
		case r.Intn(5) == 0:
		case r.Intn(8) == 0:
			op.Version = "v9"
		default:
			op.Version = gen.Pick(r, versions)
		}
		if r.Intn(5) == 0 {
			op.Kind = "savemeta"
			op.Address = gen.Pick(r, allAddrs)
			op.Metadata = genMeta(r)
			in.Ops = append(in.Ops, op)
			continue
		}
		// template choice: one of the schema's, none, or unknown
		var tnames []string
		for _, s := range in.Schemas {
			if s.Version == op.Version {
				tnames = sortedKeys(s.Templates)
			}
		}
		switch {
		case len(tnames) > 0 && r.Intn(3) > 0:
			op.Template = gen.Pick(r, tnames)
		case r.Intn(6) == 0:
			op.Template = "nope"
		}
		if op.Template == "" || r.Intn(4) == 0 {
			if r.Intn(15) > 0 {
				op.Plain = genPostings(r, allAddrs, 1+r.Intn(3))
			}
		}
		if r.Intn(3) == 0 {
			op.AccountMetadata = map[string]map[string]string{gen.Pick(r, allAddrs): genMeta(r)}
		}
		in.Ops = append(in.Ops, op)
	}
	return in
}

func validAddr(a string) bool {
	if a == "" {
		return false
	}
	for _, seg := range strings.Split(a, ":") {
		if seg == "" {
			return false
		}
		for _, ch := range seg {
			if !(ch >= 'a' && ch <= 'z' || ch >= 'A' && ch <= 'Z' || ch >= '0' && ch <= '9' || ch == '_' || ch == '-') {
				return false
			}
		}
	}
	return true
}

func genPostings(r interface{ Intn(int) int }, pool []string, n int) []postingT {
	ps := make([]postingT, 0, n)
	for i := 0; i < n; i++ {
		ps = append(ps, postingT{pool[r.Intn(len(pool))], pool[r.Intn(len(pool))], assetsPool[r.Intn(len(assetsPool))],
			big.NewInt(int64(1 + r.Intn(1000))).String()})
	}
	return ps
}

func genMeta(r interface{ Intn(int) int }) map[string]string {
	m := map[string]string{}
	for i, n := 0, r.Intn(3); i < n; i++ {
		m[metaKeys[r.Intn(len(metaKeys))]] = metaVals[r.Intn(len(metaVals))]
	}
	return m
}

func init() {
	gen.Register("enforce", func(c *gen.Ctx) error {
		return replayOrGenerate(c, "enforce", func(in enforceIn) any { return runEnforce(in) }, func(int) enforceIn { return genEnforce(c) })
	})
}
