//go:build verif

package wlchart

import (
	"context"
	"fmt"

	logging "github.com/formancehq/go-libs/v5/pkg/observe/log"

	ledger "github.com/formancehq/ledger/internal"
	ledgercontroller "github.com/formancehq/ledger/internal/controller/ledger"
	systemcontroller "github.com/formancehq/ledger/internal/controller/system"
	"github.com/formancehq/ledger/internal/storage/bucket"
	storagedriver "github.com/formancehq/ledger/internal/storage/driver"
	ledgerstore "github.com/formancehq/ledger/internal/storage/ledger"
	systemstore "github.com/formancehq/ledger/internal/storage/system"
	"github.com/formancehq/ledger/internal/verif/pgfake"
)

// dbStack: the real system controller → ledger controller → storage driver → SQL
// store → bun over pgfake → LeanPG. LeanPG is a Lean MODEL of PostgreSQL (there is
// no real Postgres in this sandbox): every statement the real store renders is
// executed by that model.
type dbStack struct {
	srv *pgfake.Server
	sys *systemcontroller.DefaultController
	ctx context.Context
	n   int
}

func startDBStack(mode ledgercontroller.SchemaEnforcementMode) (*dbStack, error) {
	srv, err := pgfake.Start(pgfake.DefaultLpgPath())
	if err != nil {
		return nil, fmt.Errorf("LeanPG (the modelled Postgres) is not available - lake build ldriver_sql: %w", err)
	}
	db := srv.DB()
	d := storagedriver.New(db, ledgerstore.NewFactory(db), bucket.NewDefaultFactory(), systemstore.NewStoreFactory())
	parser := ledgercontroller.NewDefaultNumscriptParser()
	sys := systemcontroller.NewDefaultController(
		systemcontroller.NewControllerStorageDriverAdapter(d, systemstore.New(db)), nil, nil,
		systemcontroller.WithParser(parser, parser, ledgercontroller.NewInterpreterNumscriptParser(nil)),
		systemcontroller.WithEnableFeatures(true),
		systemcontroller.WithSchemaEnforcementMode(mode),
	)
	return &dbStack{srv: srv, sys: sys, ctx: logging.ContextWithLogger(context.Background(), logging.NopZap())}, nil
}

func (s *dbStack) Close() { s.srv.Close() }

// newLedger creates a fresh ledger (own name, shared bucket) and returns its controller.
func (s *dbStack) newLedger(cfg ledger.Configuration) (ledgercontroller.Controller, string, error) {
	s.n++
	name := fmt.Sprintf("c%d", s.n)
	if err := s.sys.CreateLedger(s.ctx, name, cfg); err != nil {
		return nil, name, err
	}
	ctrl, err := s.sys.GetLedgerController(s.ctx, name)
	return ctrl, name, err
}
