//go:build verif

package wlchart

import (
	"bytes"
	"encoding/json"
	"errors"
	"fmt"
	"math/big"
	"math/rand"
	"sort"
	"strings"

	ledger "github.com/formancehq/ledger/internal"
	ledgercontroller "github.com/formancehq/ledger/internal/controller/ledger"
	storagecommon "github.com/formancehq/ledger/internal/storage/common"
	"github.com/formancehq/ledger/internal/verif/gen"
)

// Workload "schemadb" (C30, database leg): generated schema documents are decoded
// (API path: json.Unmarshal into SchemaData), inserted with the REAL
// Controller.InsertSchema over the real SQL store, and read back with the REAL
// GetSchema / ListSchemas (three jsonb columns). The SQL runs on LeanPG, a Lean
// MODEL of PostgreSQL – there is no real Postgres in this sandbox.
//
// Reported: the decoded value before insertion and the value read back (member by
// member, numbers of raw members as exact rationals, objects with the decoder's
// last-duplicate-wins), and the classification of addresses by both charts.

type schemaDbIn struct {
	Doc   string   `json:"doc"`
	Addrs []string `json:"addrs"`
}

type schemaDbOut struct {
	DecodeErr string `json:"decodeErr"`
	// "" | "invalid-schema" | "other:…"
	InsertErr string `json:"insertErr"`
	Raw       string `json:"raw,omitempty"`
	// value handed to InsertSchema
	Chart        any `json:"chart"`
	Transactions any `json:"transactions"`
	Queries      any `json:"queries"`
	// value read back with GetSchema
	ReadErr string `json:"readErr"`
	Chart2  any    `json:"chart2"`
	Tx2     any    `json:"transactions2"`
	Q2      any    `json:"queries2"`
	// ListSchemas finds the version, with the same content as GetSchema
	Listed    bool          `json:"listed"`
	Classify  []classifyOut `json:"classify"`
	Classify2 []classifyOut `json:"classify2"`
	Panic     string        `json:"panic,omitempty"`
}

// canon: JSON value with numbers as exact rationals ("#n/d") so that 1e2, 100 and
// 100.0 compare equal
func canon(v any) any {
	switch x := v.(type) {
	case json.Number:
		r, ok := new(big.Rat).SetString(string(x))
		if !ok {
			return "#bad:" + string(x)
		}
		return map[string]any{"#": r.Num().String() + "/" + r.Denom().String()}
	case float64:
		r := new(big.Rat)
		r.SetFloat64(x)
		return map[string]any{"#": r.Num().String() + "/" + r.Denom().String()}
	case map[string]any:
		m := map[string]any{}
		for k, e := range x {
			m[k] = canon(e)
		}
		return m
	case []any:
		a := make([]any, len(x))
		for i, e := range x {
			a[i] = canon(e)
		}
		return a
	}
	return v
}

func canonRaw(r json.RawMessage) any {
	if len(r) == 0 {
		return nil
	}
	var v any
	dec := json.NewDecoder(bytes.NewReader(r))
	dec.UseNumber()
	if err := dec.Decode(&v); err != nil {
		return "unparsable:" + string(r)
	}
	return map[string]any{"raw": canon(v)}
}

func dumpQueriesCanon(qs ledger.QueryTemplates) any {
	m := map[string]any{}
	for k, q := range qs {
		vars := map[string]any{}
		for vk, vd := range q.Vars {
			var dflt any
			if vd.Default != nil {
				dflt = map[string]any{"raw": canon(vd.Default)}
			}
			vars[vk] = map[string]any{"type": fieldTypeName(vd), "default": dflt}
		}
		m[k] = map[string]any{
			"description": q.Description, "resource": string(q.Resource),
			"params": canonRaw(q.Params), "vars": vars, "body": canonRaw(q.Body),
		}
	}
	return m
}

var schemaDbStack *dbStack

func runSchemaDb(in schemaDbIn) (out schemaDbOut) {
	out.Panic = gen.Guard(func() {
		if schemaDbStack == nil {
			s, err := startDBStack(ledgercontroller.SchemaEnforcementAudit)
			if err != nil {
				panic(err)
			}
			schemaDbStack = s
		}
		var data ledger.SchemaData
		dec := json.NewDecoder(strings.NewReader(in.Doc))
		if err := dec.Decode(&data); err != nil {
			out.DecodeErr = schemaErrKind(err.Error())
			return
		}
		out.Chart = dumpChart(data.Chart)
		out.Transactions = dumpTemplates(data.Transactions)
		out.Queries = dumpQueriesCanon(data.Queries)
		ctrl, _, err := schemaDbStack.newLedger(ledger.NewDefaultConfiguration())
		if err != nil {
			panic(err)
		}
		ctx := schemaDbStack.ctx
		_, _, _, err = ctrl.InsertSchema(ctx, ledgercontroller.Parameters[ledgercontroller.InsertSchema]{
			Input: ledgercontroller.InsertSchema{Version: "v1", Data: data},
		})
		if err != nil {
			if errors.Is(err, ledger.ErrInvalidSchema{}) {
				out.InsertErr = "invalid-schema"
			} else {
				out.InsertErr = "other:" + err.Error()
			}
			out.Raw = err.Error()
			if len(out.Raw) > 300 {
				out.Raw = out.Raw[:300]
			}
			return
		}
		back, err := ctrl.GetSchema(ctx, "v1")
		if err != nil {
			out.ReadErr = err.Error()
			return
		}
		out.Chart2 = dumpChart(back.Chart)
		out.Tx2 = dumpTemplates(back.Transactions)
		out.Q2 = dumpQueriesCanon(back.Queries)
		cur, err := ctrl.ListSchemas(ctx, storagecommon.InitialPaginatedQuery[any]{PageSize: 10})
		if err == nil {
			for _, s := range cur.Data {
				if s.Version == "v1" {
					a, _ := json.Marshal([]any{dumpChart(s.Chart), dumpTemplates(s.Transactions), dumpQueriesCanon(s.Queries)})
					b, _ := json.Marshal([]any{out.Chart2, out.Tx2, out.Q2})
					out.Listed = string(a) == string(b)
				}
			}
		} else {
			out.ReadErr = "list: " + err.Error()
		}
		out.Classify = classifyAll(&data.Chart, in.Addrs)
		out.Classify2 = classifyAll(&back.Chart, in.Addrs)
	})
	return out
}

// ---- generator: documents NewSchema accepts, written as TEXT so that raw members
// can carry what jsonb normalises (key order, duplicate keys, number spellings,
// whitespace, escapes)

var rawBodies = []string{
	`{"$match":{"address":"users:"}}`,
	`{ "$match" : { "address" : "users:" } }`,
	`{"$match":{"address":"a:"},"$match":{"address":"users:"}}`,
	`{"$and":[{"$match":{"address":"${category}:"}},{"$match":{"metadata[hat_type]":"${hat_type}"}}]}`,
	`{"$or":[{"$match":{"address":"zz:"}},{"$match":{"address":"a:"}}]}`,
	`{"$match":{"metadata[key]":"vé \"q\" \\ /"}}`,
	`{"$match":{"metadata[k]":"tab\there"}}`,
	`{"$gte":{"balance[USD]":100}}`,
	`{"$gte":{"balance[USD]":1e2}}`,
	`{"$lt":{"balance[USD/2]":100.0}}`,
	`{"$lt":{"balance[USD/2]":-0}}`,
	`{"$gt":{"balance[COIN]":100000000000000000000000}}`,
	`{"$lte":{"balance[COIN]":1.0E+2}}`,
}

var rawParams = []string{
	`{"pageSize":10}`, `{ "sort" : "address:asc" , "pageSize" : 15 }`,
	`{"pageSize":5,"pageSize":7}`, `{"expand":["volumes"],"pageSize":20}`, `{"sort":"address:desc","expand":[],"pageSize":3}`, `{}`, `null`,
	`{"pageSize":1e1}`, `{"zzz_last":1,"pageSize":3}`,
}

var jsonbStrings = []string{"plain", "é\"\\<>&", "tab\there", "nl\nhere", "uni sep", "emoji😀", "nul\u0000byte", "", " lead", "trail "}

func jstr(s string) string {
	b, _ := json.Marshal(s)
	return string(b)
}

func genSchemaDbDoc(r *rand.Rand, g *chartGen) (string, []string) {
	chart := g.genChart()
	// strings that stress jsonb inside the chart: default values
	if r.Intn(3) == 0 {
		for _, seg := range allSegments(chart) {
			if md, ok := seg[".metadata"].(map[string]any); ok && r.Intn(2) == 0 {
				md["jsonb"] = map[string]any{"default": gen.Pick(r, jsonbStrings)}
			}
		}
	}
	cb, _ := json.Marshal(chart)
	addrs := g.genAddresses(string(cb), 8)
	var parts []string
	parts = append(parts, `"chart":`+string(cb))
	if r.Intn(3) > 0 {
		var ts []string
		names := []string{"T", "pay", "refund", "zz", "a"}
		r.Shuffle(len(names), func(i, j int) { names[i], names[j] = names[j], names[i] })
		for i, n := 0, 1+r.Intn(3); i < n; i++ {
			t := []string{`"script":` + jstr(gen.Pick(r, scripts[:2]))}
			if r.Intn(2) == 0 {
				t = append(t, `"description":`+jstr(gen.Pick(r, jsonbStrings)))
			}
			if r.Intn(3) == 0 {
				t = append(t, `"runtime":`+jstr(gen.Pick(r, []string{"machine", "experimental-interpreter", ""})))
			}
			r.Shuffle(len(t), func(i, j int) { t[i], t[j] = t[j], t[i] })
			ts = append(ts, jstr(names[i])+":{"+strings.Join(t, ",")+"}")
		}
		parts = append(parts, `"transactions":{`+strings.Join(ts, ",")+`}`)
	}
	if r.Intn(3) > 0 {
		var qs []string
		names := []string{"CUSTOMERS", "q", "zeta", "alpha"}
		r.Shuffle(len(names), func(i, j int) { names[i], names[j] = names[j], names[i] })
		for i, n := 0, 1+r.Intn(2); i < n; i++ {
			q := []string{`"resource":"accounts"`}
			if r.Intn(2) == 0 {
				q = append(q, `"description":`+jstr(gen.Pick(r, jsonbStrings)))
			}
			if r.Intn(2) == 0 {
				q = append(q, `"params":`+gen.Pick(r, rawParams))
			}
			if r.Intn(2) == 0 {
				q = append(q, `"body":`+gen.Pick(r, rawBodies))
			}
			vars := []string{`"category":"string"`, `"hat_type":{"type":"string","default":` + jstr(gen.Pick(r, jsonbStrings)) + `}`}
			switch r.Intn(4) {
			case 0:
				vars = append(vars, `"n":{"type":"int","default":`+gen.Pick(r, []string{"1", "100000000000000000000", "-0", "10", "-12", "1e2", "1.0"})+`}`)
			case 1:
				vars = append(vars, `"b":{"default":true,"type":"boolean"}`)
			case 2:
				vars = append(vars, `"d":{"type":"date","default":"2024-01-02T03:04:05Z"}`)
			}
			q = append(q, `"vars":{`+strings.Join(vars, ",")+`}`)
			r.Shuffle(len(q), func(i, j int) { q[i], q[j] = q[j], q[i] })
			qs = append(qs, jstr(names[i])+":{"+strings.Join(q, ",")+"}")
		}
		parts = append(parts, `"queries":{`+strings.Join(qs, ",")+`}`)
	}
	r.Shuffle(len(parts), func(i, j int) { parts[i], parts[j] = parts[j], parts[i] })
	return "{" + strings.Join(parts, ",") + "}", addrs
}

var _ = sort.Strings
var _ = fmt.Sprint

func init() {
	gen.Register("schemadb", func(c *gen.Ctx) error {
		defer func() {
			if schemaDbStack != nil {
				schemaDbStack.Close()
			}
		}()
		g := &chartGen{r: c.R, wide: c.Wide}
		return replayOrGenerate(c, "schemadb", func(in schemaDbIn) any { return runSchemaDb(in) }, func(int) schemaDbIn {
			doc, addrs := genSchemaDbDoc(c.R, g)
			return schemaDbIn{Doc: doc, Addrs: addrs}
		})
	})
}
