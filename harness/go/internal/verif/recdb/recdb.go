//go:build verif

// Package recdb is a recording database/sql driver: bun renders every statement
// client-side (arguments inlined) and hands the text to the driver; recdb stores
// the text and answers with an empty result. It is used to capture the SQL the
// real store code renders for a given call, without any database.
package recdb

import (
	"context"
	"database/sql"
	"database/sql/driver"
	"io"
	"sync"

	"github.com/uptrace/bun"
	"github.com/uptrace/bun/dialect/pgdialect"
)

type Recorder struct {
	mu    sync.Mutex
	stmts []string
}

func (r *Recorder) add(q string) {
	r.mu.Lock()
	r.stmts = append(r.stmts, q)
	r.mu.Unlock()
}

// Take returns and clears the recorded statements.
func (r *Recorder) Take() []string {
	r.mu.Lock()
	defer r.mu.Unlock()
	s := r.stmts
	r.stmts = nil
	return s
}

type connector struct{ r *Recorder }

func (c connector) Connect(context.Context) (driver.Conn, error) { return &conn{r: c.r}, nil }
func (c connector) Driver() driver.Driver                        { return drv{} }

type drv struct{}

func (drv) Open(string) (driver.Conn, error) { return nil, io.ErrUnexpectedEOF }

type conn struct{ r *Recorder }

func (c *conn) Prepare(q string) (driver.Stmt, error) { return &stmt{c: c, q: q}, nil }
func (c *conn) Close() error                          { return nil }
func (c *conn) Begin() (driver.Tx, error)             { c.r.add("BEGIN"); return tx{c}, nil }
func (c *conn) ExecContext(_ context.Context, q string, _ []driver.NamedValue) (driver.Result, error) {
	c.r.add(q)
	return driver.RowsAffected(0), nil
}
func (c *conn) QueryContext(_ context.Context, q string, _ []driver.NamedValue) (driver.Rows, error) {
	c.r.add(q)
	return &rows{}, nil
}

type tx struct{ c *conn }

func (t tx) Commit() error   { t.c.r.add("COMMIT"); return nil }
func (t tx) Rollback() error { t.c.r.add("ROLLBACK"); return nil }

type stmt struct {
	c *conn
	q string
}

func (s *stmt) Close() error  { return nil }
func (s *stmt) NumInput() int { return -1 }
func (s *stmt) Exec([]driver.Value) (driver.Result, error) {
	s.c.r.add(s.q)
	return driver.RowsAffected(0), nil
}
func (s *stmt) Query([]driver.Value) (driver.Rows, error) { s.c.r.add(s.q); return &rows{}, nil }

type rows struct{}

func (*rows) Columns() []string         { return nil }
func (*rows) Close() error              { return nil }
func (*rows) Next([]driver.Value) error { return io.EOF }

// Open returns a bun DB over a fresh recorder.
func Open() (*bun.DB, *Recorder) {
	r := &Recorder{}
	sqldb := sql.OpenDB(connector{r})
	return bun.NewDB(sqldb, pgdialect.New(), bun.WithDiscardUnknownColumns()), r
}
