//go:build verif

package wlapi

import (
	"context"
	"database/sql"
	"encoding/json"
	"math/big"
	"sync"
	"time"

	"github.com/uptrace/bun"

	"github.com/formancehq/go-libs/v5/pkg/storage/bun/paginate"
	"github.com/formancehq/go-libs/v5/pkg/storage/migrations"
	"github.com/formancehq/go-libs/v5/pkg/storage/postgres"
	"github.com/formancehq/go-libs/v5/pkg/types/metadata"
	libtime "github.com/formancehq/go-libs/v5/pkg/types/time"

	ledger "github.com/formancehq/ledger/internal"
	ledgercontroller "github.com/formancehq/ledger/internal/controller/ledger"
	"github.com/formancehq/ledger/internal/queries"
	"github.com/formancehq/ledger/internal/storage/common"
	ledgerstore "github.com/formancehq/ledger/internal/storage/ledger"
	systemstore "github.com/formancehq/ledger/internal/storage/system"
)

// Scripted fake of system.Controller + ledger.Controller: records every call it
// receives (writes flagged), returns canned values, and can be told to answer a
// given method with a given error.

type Call struct {
	Method string `json:"method"`
	Write  bool   `json:"write"`
	InTx   bool   `json:"inTx,omitempty"`
	Args   any    `json:"args,omitempty"`
	Failed bool   `json:"failed,omitempty"`
}

type Fake struct {
	mu    sync.Mutex
	Calls []Call
	// Inject: method name → error returned instead of the canned value.
	Inject map[string]error
	// MissingLedger: GetLedger / GetLedgerController answer "not found".
	MissingLedger bool
	// Outdated: IsDatabaseUpToDate answers false.
	Outdated bool
	// tx bookkeeping for atomic bulks
	txOpen, committed, rolledBack bool
	// imports in flight (the import handler runs Import in its own goroutine and may
	// answer before it returns): WaitImports makes what they record deterministic
	imports sync.WaitGroup
}

// WaitImports waits (bounded) for every running Import to return; call it after
// the request context is cancelled and before reading Calls.
func (f *Fake) WaitImports(d time.Duration) {
	done := make(chan struct{})
	go func() { f.imports.Wait(); close(done) }()
	select {
	case <-done:
	case <-time.After(d):
	}
}

func NewFake() *Fake { return &Fake{Inject: map[string]error{}} }

func (f *Fake) record(method string, write bool, inTx bool, args any) error {
	f.mu.Lock()
	defer f.mu.Unlock()
	err := f.Inject[method]
	// a call answered with an error changes nothing
	f.Calls = append(f.Calls, Call{Method: method, Write: write && err == nil, InTx: inTx, Args: args, Failed: err != nil})
	if method == "CreateLedger" && err == nil {
		f.MissingLedger = false
	}
	return err
}

// validate runs the real store-side validation of a read query (see
// storage/common/zz_verif_export_api.go) unless an error is injected.
func (f *Fake) validate(method string, err error) error {
	if err == nil {
		return nil
	}
	f.mu.Lock()
	defer f.mu.Unlock()
	for i := len(f.Calls) - 1; i >= 0; i-- {
		if f.Calls[i].Method == method {
			f.Calls[i].Failed = true
			break
		}
	}
	return err
}

// EffectiveWrites: write calls outside a transaction, plus those of a committed one.
func (f *Fake) EffectiveWrites() []string {
	f.mu.Lock()
	defer f.mu.Unlock()
	var res []string
	for _, c := range f.Calls {
		if !c.Write {
			continue
		}
		if c.InTx && !f.committed {
			continue
		}
		res = append(res, c.Method)
	}
	return res
}

func (f *Fake) Methods() []string {
	f.mu.Lock()
	defer f.mu.Unlock()
	res := make([]string, 0, len(f.Calls))
	for _, c := range f.Calls {
		res = append(res, c.Method)
	}
	return res
}

func (f *Fake) FirstCall(method string) *Call {
	f.mu.Lock()
	defer f.mu.Unlock()
	for i := range f.Calls {
		if f.Calls[i].Method == method {
			return &f.Calls[i]
		}
	}
	return nil
}

func u64(v uint64) *uint64 { return &v }

func pagErr[T any](_ *paginate.Cursor[T], err error) error { return err }

func cannedTx() ledger.Transaction {
	tx := ledger.NewTransaction().WithPostings(ledger.NewPosting("world", "bank", "USD/2", big.NewInt(100)))
	tx.ID = u64(1)
	return tx
}

func cannedLog() *ledger.Log { return &ledger.Log{ID: u64(1)} }

// ---- system.Controller -----------------------------------------------------------

func (f *Fake) ListExporters(ctx context.Context) (*paginate.Cursor[ledger.Exporter], error) {
	if err := f.record("ListExporters", false, false, nil); err != nil {
		return nil, err
	}
	return &paginate.Cursor[ledger.Exporter]{Data: []ledger.Exporter{}}, nil
}
func (f *Fake) CreateExporter(ctx context.Context, c ledger.ExporterConfiguration) (*ledger.Exporter, error) {
	if err := f.record("CreateExporter", true, false, c); err != nil {
		return nil, err
	}
	return &ledger.Exporter{}, nil
}
func (f *Fake) UpdateExporter(ctx context.Context, id string, c ledger.ExporterConfiguration) error {
	return f.record("UpdateExporter", true, false, map[string]any{"id": id, "cfg": c})
}
func (f *Fake) DeleteExporter(ctx context.Context, id string) error {
	return f.record("DeleteExporter", true, false, id)
}
func (f *Fake) GetExporter(ctx context.Context, id string) (*ledger.Exporter, error) {
	if err := f.record("GetExporter", false, false, id); err != nil {
		return nil, err
	}
	return &ledger.Exporter{}, nil
}
func (f *Fake) ListPipelines(ctx context.Context) (*paginate.Cursor[ledger.Pipeline], error) {
	if err := f.record("ListPipelines", false, false, nil); err != nil {
		return nil, err
	}
	return &paginate.Cursor[ledger.Pipeline]{Data: []ledger.Pipeline{}}, nil
}
func (f *Fake) GetPipeline(ctx context.Context, id string) (*ledger.Pipeline, error) {
	if err := f.record("GetPipeline", false, false, id); err != nil {
		return nil, err
	}
	return &ledger.Pipeline{}, nil
}
func (f *Fake) CreatePipeline(ctx context.Context, c ledger.PipelineConfiguration) (*ledger.Pipeline, error) {
	if err := f.record("CreatePipeline", true, false, c); err != nil {
		return nil, err
	}
	return &ledger.Pipeline{}, nil
}
func (f *Fake) DeletePipeline(ctx context.Context, id string) error {
	return f.record("DeletePipeline", true, false, id)
}
func (f *Fake) StartPipeline(ctx context.Context, id string) error {
	return f.record("StartPipeline", true, false, id)
}
func (f *Fake) ResetPipeline(ctx context.Context, id string) error {
	return f.record("ResetPipeline", true, false, id)
}
func (f *Fake) StopPipeline(ctx context.Context, id string) error {
	return f.record("StopPipeline", true, false, id)
}

func (f *Fake) GetLedgerController(ctx context.Context, name string) (ledgercontroller.Controller, error) {
	if err := f.record("GetLedgerController", false, false, name); err != nil {
		return nil, err
	}
	if f.MissingLedger {
		return nil, postgres.ErrNotFound
	}
	return &FakeLedger{f: f, name: name}, nil
}
func (f *Fake) GetLedger(ctx context.Context, name string) (*ledger.Ledger, error) {
	if err := f.record("GetLedger", false, false, name); err != nil {
		return nil, err
	}
	if f.MissingLedger {
		return nil, postgres.ErrNotFound
	}
	return &ledger.Ledger{Name: name}, nil
}
func (f *Fake) ListLedgers(ctx context.Context, q common.PaginatedQuery[systemstore.ListLedgersQueryPayload]) (*paginate.Cursor[ledger.Ledger], error) {
	if err := f.record("ListLedgers", false, false, nil); err != nil {
		return nil, err
	}
	return &paginate.Cursor[ledger.Ledger]{Data: []ledger.Ledger{{Name: "l1"}}}, nil
}
func (f *Fake) CreateLedger(ctx context.Context, name string, c ledger.Configuration) error {
	return f.record("CreateLedger", true, false, map[string]any{"name": name, "cfg": c})
}
func (f *Fake) UpdateLedgerMetadata(ctx context.Context, name string, m map[string]string) error {
	return f.record("UpdateLedgerMetadata", true, false, map[string]any{"name": name, "metadata": m})
}
func (f *Fake) DeleteLedgerMetadata(ctx context.Context, name string, key string) error {
	return f.record("DeleteLedgerMetadata", true, false, map[string]any{"name": name, "key": key})
}
func (f *Fake) DeleteBucket(ctx context.Context, bucket string) error {
	return f.record("DeleteBucket", true, false, bucket)
}
func (f *Fake) RestoreBucket(ctx context.Context, bucket string) error {
	return f.record("RestoreBucket", true, false, bucket)
}
func (f *Fake) GetSchemaEnforcementMode(ctx context.Context) ledgercontroller.SchemaEnforcementMode {
	var m ledgercontroller.SchemaEnforcementMode
	return m
}

// ---- ledger.Controller -------------------------------------------------------------

type FakeLedger struct {
	f    *Fake
	name string
	inTx bool
}

func (l *FakeLedger) rec(method string, write bool, args any) error {
	return l.f.record(method, write, l.inTx, args)
}

func (l *FakeLedger) Info() ledger.Ledger { return ledger.Ledger{Name: l.name} }
func (l *FakeLedger) BeginTX(ctx context.Context, options *sql.TxOptions) (ledgercontroller.Controller, *bun.Tx, error) {
	if err := l.rec("BeginTX", false, nil); err != nil {
		return nil, nil, err
	}
	l.f.mu.Lock()
	l.f.txOpen = true
	l.f.mu.Unlock()
	return &FakeLedger{f: l.f, name: l.name, inTx: true}, nil, nil
}
func (l *FakeLedger) Commit(ctx context.Context) error {
	err := l.rec("Commit", false, nil)
	if err == nil {
		l.f.mu.Lock()
		l.f.committed = true
		l.f.mu.Unlock()
	}
	return err
}
func (l *FakeLedger) Rollback(ctx context.Context) error {
	l.f.mu.Lock()
	l.f.rolledBack = true
	l.f.mu.Unlock()
	return l.rec("Rollback", false, nil)
}
func (l *FakeLedger) LockLedger(ctx context.Context) (ledgercontroller.Controller, bun.IDB, func() error, error) {
	return l, nil, func() error { return nil }, nil
}
func (l *FakeLedger) IsDatabaseUpToDate(ctx context.Context) (bool, error) {
	if err := l.rec("IsDatabaseUpToDate", false, nil); err != nil {
		return false, err
	}
	return !l.f.Outdated, nil
}
func (l *FakeLedger) GetMigrationsInfo(ctx context.Context) ([]migrations.Info, error) {
	if err := l.rec("GetMigrationsInfo", false, nil); err != nil {
		return nil, err
	}
	return []migrations.Info{}, nil
}
func (l *FakeLedger) GetStats(ctx context.Context) (ledgercontroller.Stats, error) {
	return ledgercontroller.Stats{Transactions: 1, Accounts: 2}, l.rec("GetStats", false, nil)
}

func canonRQ(pit, oot *libtime.Time, builder any, expand []string, opts any) map[string]any {
	m := map[string]any{"expand": expand, "opts": opts}
	if pit != nil {
		m["pit"] = pit.Format(libtime.DateFormat)
	}
	if oot != nil {
		m["oot"] = oot.Format(libtime.DateFormat)
	}
	if builder != nil {
		b, _ := json.Marshal(builder)
		m["qb"] = json.RawMessage(b)
	}
	return m
}

func canonPQ[O any](q common.PaginatedQuery[O]) any {
	var root *common.InitialPaginatedQuery[O]
	m := map[string]any{}
	switch v := q.(type) {
	case common.InitialPaginatedQuery[O]:
		m["kind"] = "initial"
		root = &v
	case common.OffsetPaginatedQuery[O]:
		m["kind"] = "offset"
		m["offset"] = v.Offset
		root = &v.InitialPaginatedQuery
	case common.ColumnPaginatedQuery[O]:
		m["kind"] = "column"
		if v.Bottom != nil {
			m["bottom"] = v.Bottom.String()
		}
		if v.PaginationID != nil {
			m["paginationID"] = v.PaginationID.String()
		}
		m["reverse"] = v.Reverse
		root = &v.InitialPaginatedQuery
	default:
		m["kind"] = "?"
		return m
	}
	m["column"] = root.Column
	if root.Order != nil {
		m["order"] = int(*root.Order)
	}
	m["pageSize"] = root.PageSize
	m["filters"] = canonRQ(root.Options.PIT, root.Options.OOT, root.Options.Builder, root.Options.Expand, root.Options.Opts)
	return m
}

func (l *FakeLedger) GetAccount(ctx context.Context, q common.ResourceQuery[any]) (*ledger.Account, error) {
	if err := l.rec("GetAccount", false, canonRQ(q.PIT, q.OOT, q.Builder, q.Expand, q.Opts)); err != nil {
		return nil, err
	}
	if err := l.f.validate("GetAccount", common.VerifCountEmpty[ledger.Account, any](queries.AccountSchema, func(op, prop string, v any) error { return ledgerstore.VerifResolveFilter("accounts", op, prop, v) }, q)); err != nil {
		return nil, err
	}
	return &ledger.Account{Address: "bank", Metadata: metadata.Metadata{"k": "v"}}, nil
}
func (l *FakeLedger) ListAccounts(ctx context.Context, q common.PaginatedQuery[any]) (*paginate.Cursor[ledger.Account], error) {
	if err := l.rec("ListAccounts", false, canonPQ[any](q)); err != nil {
		return nil, err
	}
	if err := l.f.validate("ListAccounts", pagErr(common.VerifPaginateEmpty[ledger.Account, any](queries.AccountSchema, func(op, prop string, v any) error { return ledgerstore.VerifResolveFilter("accounts", op, prop, v) }, "address", paginate.OrderAsc, q))); err != nil {
		return nil, err
	}
	return &paginate.Cursor[ledger.Account]{PageSize: 15, Data: []ledger.Account{{Address: "bank", Metadata: metadata.Metadata{}}}}, nil
}
func (l *FakeLedger) CountAccounts(ctx context.Context, q common.ResourceQuery[any]) (int, error) {
	if err := l.rec("CountAccounts", false, canonRQ(q.PIT, q.OOT, q.Builder, q.Expand, q.Opts)); err != nil {
		return 0, err
	}
	return 1, l.f.validate("CountAccounts", common.VerifCountEmpty[ledger.Account, any](queries.AccountSchema, func(op, prop string, v any) error { return ledgerstore.VerifResolveFilter("accounts", op, prop, v) }, q))
}
func (l *FakeLedger) ListLogs(ctx context.Context, q common.PaginatedQuery[any]) (*paginate.Cursor[ledger.Log], error) {
	if err := l.rec("ListLogs", false, canonPQ[any](q)); err != nil {
		return nil, err
	}
	if err := l.f.validate("ListLogs", pagErr(common.VerifPaginateEmpty[ledger.Log, any](queries.LogSchema, func(op, prop string, v any) error { return ledgerstore.VerifResolveFilter("logs", op, prop, v) }, "id", paginate.OrderDesc, q))); err != nil {
		return nil, err
	}
	return &paginate.Cursor[ledger.Log]{PageSize: 15, Data: []ledger.Log{}}, nil
}
func (l *FakeLedger) CountTransactions(ctx context.Context, q common.ResourceQuery[any]) (int, error) {
	if err := l.rec("CountTransactions", false, canonRQ(q.PIT, q.OOT, q.Builder, q.Expand, q.Opts)); err != nil {
		return 0, err
	}
	return 1, l.f.validate("CountTransactions", common.VerifCountEmpty[ledger.Transaction, any](queries.TransactionSchema, func(op, prop string, v any) error { return ledgerstore.VerifResolveFilter("transactions", op, prop, v) }, q))
}
func (l *FakeLedger) ListTransactions(ctx context.Context, q common.PaginatedQuery[any]) (*paginate.Cursor[ledger.Transaction], error) {
	if err := l.rec("ListTransactions", false, canonPQ[any](q)); err != nil {
		return nil, err
	}
	if err := l.f.validate("ListTransactions", pagErr(common.VerifPaginateEmpty[ledger.Transaction, any](queries.TransactionSchema, func(op, prop string, v any) error { return ledgerstore.VerifResolveFilter("transactions", op, prop, v) }, "id", paginate.OrderDesc, q))); err != nil {
		return nil, err
	}
	return &paginate.Cursor[ledger.Transaction]{PageSize: 15, Data: []ledger.Transaction{cannedTx()}}, nil
}
func (l *FakeLedger) GetTransaction(ctx context.Context, q common.ResourceQuery[any]) (*ledger.Transaction, error) {
	if err := l.rec("GetTransaction", false, canonRQ(q.PIT, q.OOT, q.Builder, q.Expand, q.Opts)); err != nil {
		return nil, err
	}
	if err := l.f.validate("GetTransaction", common.VerifCountEmpty[ledger.Transaction, any](queries.TransactionSchema, func(op, prop string, v any) error { return ledgerstore.VerifResolveFilter("transactions", op, prop, v) }, q)); err != nil {
		return nil, err
	}
	tx := cannedTx()
	return &tx, nil
}
func (l *FakeLedger) GetVolumesWithBalances(ctx context.Context, q common.PaginatedQuery[ledger.GetVolumesOptions]) (*paginate.Cursor[ledger.VolumesWithBalanceByAssetByAccount], error) {
	if err := l.rec("GetVolumesWithBalances", false, canonPQ[ledger.GetVolumesOptions](q)); err != nil {
		return nil, err
	}
	if err := l.f.validate("GetVolumesWithBalances", pagErr(common.VerifPaginateEmpty[ledger.VolumesWithBalanceByAssetByAccount, ledger.GetVolumesOptions](queries.VolumeSchema, func(op, prop string, v any) error { return ledgerstore.VerifResolveFilter("volumes", op, prop, v) }, "account", paginate.OrderAsc, q))); err != nil {
		return nil, err
	}
	return &paginate.Cursor[ledger.VolumesWithBalanceByAssetByAccount]{PageSize: 15, Data: []ledger.VolumesWithBalanceByAssetByAccount{}}, nil
}
func (l *FakeLedger) GetAggregatedBalances(ctx context.Context, q common.ResourceQuery[ledger.GetAggregatedVolumesOptions]) (ledger.BalancesByAssets, error) {
	if err := l.rec("GetAggregatedBalances", false, canonRQ(q.PIT, q.OOT, q.Builder, q.Expand, q.Opts)); err != nil {
		return nil, err
	}
	if err := l.f.validate("GetAggregatedBalances", common.VerifCountEmpty[ledger.AggregatedVolumes, ledger.GetAggregatedVolumesOptions](queries.AggregatedBalanceSchema, func(op, prop string, v any) error { return ledgerstore.VerifResolveFilter("aggregated", op, prop, v) }, q)); err != nil {
		return nil, err
	}
	return ledger.BalancesByAssets{"USD/2": big.NewInt(100)}, nil
}

func (l *FakeLedger) CreateTransaction(ctx context.Context, p ledgercontroller.Parameters[ledgercontroller.CreateTransaction]) (*ledger.Log, *ledger.CreatedTransaction, bool, error) {
	in := p.Input
	args := map[string]any{
		"dryRun": p.DryRun, "ik": p.IdempotencyKey, "schemaVersion": p.SchemaVersion,
		"plain": in.Plain, "template": in.Template, "vars": in.Vars,
		"timestamp": tsString(in.Timestamp), "reference": in.Reference, "metadata": in.Metadata,
		"accountMetadata": in.AccountMetadata, "runtime": string(in.Runtime),
	}
	if err := l.rec("CreateTransaction", !p.DryRun, args); err != nil {
		return nil, nil, false, err
	}
	return cannedLog(), &ledger.CreatedTransaction{Transaction: cannedTx()}, false, nil
}
func (l *FakeLedger) RevertTransaction(ctx context.Context, p ledgercontroller.Parameters[ledgercontroller.RevertTransaction]) (*ledger.Log, *ledger.RevertedTransaction, bool, error) {
	args := map[string]any{
		"dryRun": p.DryRun, "ik": p.IdempotencyKey, "schemaVersion": p.SchemaVersion,
		"force": p.Input.Force, "atEffectiveDate": p.Input.AtEffectiveDate, "id": p.Input.TransactionID, "metadata": p.Input.Metadata,
	}
	if err := l.rec("RevertTransaction", !p.DryRun, args); err != nil {
		return nil, nil, false, err
	}
	return cannedLog(), &ledger.RevertedTransaction{RevertedTransaction: cannedTx(), RevertTransaction: cannedTx()}, false, nil
}
func (l *FakeLedger) SaveTransactionMetadata(ctx context.Context, p ledgercontroller.Parameters[ledgercontroller.SaveTransactionMetadata]) (*ledger.Log, bool, error) {
	args := map[string]any{"dryRun": p.DryRun, "ik": p.IdempotencyKey, "schemaVersion": p.SchemaVersion, "id": p.Input.TransactionID, "metadata": p.Input.Metadata}
	if err := l.rec("SaveTransactionMetadata", !p.DryRun, args); err != nil {
		return nil, false, err
	}
	return cannedLog(), false, nil
}
func (l *FakeLedger) SaveAccountMetadata(ctx context.Context, p ledgercontroller.Parameters[ledgercontroller.SaveAccountMetadata]) (*ledger.Log, bool, error) {
	args := map[string]any{"dryRun": p.DryRun, "ik": p.IdempotencyKey, "schemaVersion": p.SchemaVersion, "address": p.Input.Address, "metadata": p.Input.Metadata}
	if err := l.rec("SaveAccountMetadata", !p.DryRun, args); err != nil {
		return nil, false, err
	}
	return cannedLog(), false, nil
}
func (l *FakeLedger) DeleteTransactionMetadata(ctx context.Context, p ledgercontroller.Parameters[ledgercontroller.DeleteTransactionMetadata]) (*ledger.Log, bool, error) {
	args := map[string]any{"dryRun": p.DryRun, "ik": p.IdempotencyKey, "schemaVersion": p.SchemaVersion, "id": p.Input.TransactionID, "key": p.Input.Key}
	if err := l.rec("DeleteTransactionMetadata", !p.DryRun, args); err != nil {
		return nil, false, err
	}
	return cannedLog(), false, nil
}
func (l *FakeLedger) DeleteAccountMetadata(ctx context.Context, p ledgercontroller.Parameters[ledgercontroller.DeleteAccountMetadata]) (*ledger.Log, bool, error) {
	args := map[string]any{"dryRun": p.DryRun, "ik": p.IdempotencyKey, "schemaVersion": p.SchemaVersion, "address": p.Input.Address, "key": p.Input.Key}
	if err := l.rec("DeleteAccountMetadata", !p.DryRun, args); err != nil {
		return nil, false, err
	}
	return cannedLog(), false, nil
}

// Import consumes the stream like the real controller: until it is closed, an
// injected error is due, or the context ends. Receiving at least one log counts
// as a write (the real import commits log by log).
func (l *FakeLedger) Import(ctx context.Context, stream chan ledger.Log) error {
	l.f.imports.Add(1)
	defer l.f.imports.Done()
	n := 0
	inj := l.f.Inject["Import"]
	for {
		select {
		case <-ctx.Done():
			if n > 0 {
				_ = l.rec("Import", true, n)
			}
			return ctx.Err()
		case _, ok := <-stream:
			if !ok {
				if n > 0 {
					_ = l.rec("Import", true, n)
				} else {
					_ = l.rec("ImportEmpty", false, 0)
				}
				return nil
			}
			if inj != nil {
				// the first log is refused (e.g. ledger not in initializing state)
				_ = l.rec("ImportRefused", false, n)
				return inj
			}
			n++
		}
	}
}
func (l *FakeLedger) Export(ctx context.Context, w ledgercontroller.ExportWriter) error {
	if err := l.rec("Export", false, nil); err != nil {
		return err
	}
	lg := ledger.NewLog(ledger.CreatedTransaction{Transaction: cannedTx()})
	lg.ID = u64(1)
	return w.Write(ctx, lg)
}
func (l *FakeLedger) InsertSchema(ctx context.Context, p ledgercontroller.Parameters[ledgercontroller.InsertSchema]) (*ledger.Log, *ledger.InsertedSchema, bool, error) {
	b, _ := json.Marshal(p.Input.Data)
	args := map[string]any{"dryRun": p.DryRun, "ik": p.IdempotencyKey, "version": p.Input.Version, "data": json.RawMessage(b)}
	if err := l.rec("InsertSchema", !p.DryRun, args); err != nil {
		return nil, nil, false, err
	}
	return cannedLog(), &ledger.InsertedSchema{}, false, nil
}
func (l *FakeLedger) GetSchema(ctx context.Context, version string) (*ledger.Schema, error) {
	if err := l.rec("GetSchema", false, version); err != nil {
		return nil, err
	}
	return &ledger.Schema{Version: version}, nil
}
func (l *FakeLedger) ListSchemas(ctx context.Context, q common.PaginatedQuery[any]) (*paginate.Cursor[ledger.Schema], error) {
	if err := l.rec("ListSchemas", false, canonPQ[any](q)); err != nil {
		return nil, err
	}
	if err := l.f.validate("ListSchemas", pagErr(common.VerifPaginateEmpty[ledger.Schema, any](queries.SchemaSchema, func(op, prop string, v any) error { return ledgerstore.VerifResolveFilter("schemas", op, prop, v) }, "created_at", paginate.OrderDesc, q))); err != nil {
		return nil, err
	}
	return &paginate.Cursor[ledger.Schema]{PageSize: 15, Data: []ledger.Schema{}}, nil
}
func (l *FakeLedger) RunQuery(ctx context.Context, schemaVersion string, queryId string, rq common.RunQuery, cfg common.PaginationConfig) (*queries.ResourceKind, *paginate.Cursor[any], error) {
	b, _ := json.Marshal(rq)
	if err := l.rec("RunQuery", false, map[string]any{"schemaVersion": schemaVersion, "id": queryId, "q": json.RawMessage(b)}); err != nil {
		return nil, nil, err
	}
	k := queries.ResourceKindTransaction
	return &k, &paginate.Cursor[any]{PageSize: 15, Data: []any{cannedTx()}}, nil
}

func tsString(t libtime.Time) string {
	if t.IsZero() {
		return ""
	}
	return t.Format(libtime.DateFormat)
}
