//go:build verif

package wlapi

import (
	"encoding/base64"
	"encoding/json"
	"math/rand"

	storagecommon "github.com/formancehq/ledger/internal/storage/common"
	"github.com/formancehq/ledger/internal/verif/gen"
)

// Workload "cursor": the REAL storagecommon.UnmarshalCursor on cursors built from
// JSON trees (type confusion on every member), raw junk, and non-base64 text.

type cursorIn struct {
	Cursor string `json:"cursor"`
	// Tree: the JSON document the cursor is the base64 of (nil: junk / invalid JSON)
	Tree *JT `json:"tree"`
	// FiltersOK: go-libs / ResourceQuery decoding of the `filters` member alone
	// (dates, query.ParseJSON, options) — executed, not modelled.
	FiltersOK bool `json:"filtersOK"`
}

type cursorOut struct {
	Err          bool   `json:"err"`
	Panic        string `json:"panic,omitempty"`
	Kind         string `json:"kind"`
	Column       string `json:"column"`
	Order        *int   `json:"order"`
	PageSize     uint64 `json:"pageSize"`
	Offset       uint64 `json:"offset"`
	Bottom       string `json:"bottom"`
	PaginationID string `json:"paginationID"`
	Reverse      bool   `json:"reverse"`
}

func runCursor(in cursorIn) (out cursorOut) {
	out.Panic = gen.Guard(func() {
		q, err := storagecommon.UnmarshalCursor[any](in.Cursor)
		if err != nil {
			out.Err = true
			return
		}
		var root storagecommon.InitialPaginatedQuery[any]
		switch v := q.(type) {
		case storagecommon.OffsetPaginatedQuery[any]:
			out.Kind, out.Offset, root = "offset", v.Offset, v.InitialPaginatedQuery
		case storagecommon.ColumnPaginatedQuery[any]:
			out.Kind, out.Reverse, root = "column", v.Reverse, v.InitialPaginatedQuery
			if v.Bottom != nil {
				out.Bottom = v.Bottom.String()
			}
			if v.PaginationID != nil {
				out.PaginationID = v.PaginationID.String()
			}
		default:
			out.Kind = "?"
		}
		out.Column, out.PageSize = root.Column, root.PageSize
		if root.Order != nil {
			o := int(*root.Order)
			out.Order = &o
		}
	})
	return out
}

func filtersOK(t *JT) bool {
	f := t.Get("filters")
	if t.T == "obj" {
		// encoding/json matches member names case-insensitively
		for i := len(t.K) - 1; i >= 0; i-- {
			if foldASCII(t.K[i]) == "FILTERS" {
				f = t.A[i]
				break
			}
		}
	}
	if f == nil {
		return true
	}
	var rq storagecommon.ResourceQuery[any]
	ok := true
	if p := gen.Guard(func() { ok = json.Unmarshal([]byte(f.Render()), &rq) == nil }); p != "" {
		return false
	}
	return ok
}

// foldASCII is encoding/json's foldName: ASCII letters upper-cased, and the two non-ASCII runes
// that fold onto ASCII letters (U+017F long s → S, U+212A Kelvin sign → K) — as Ledger.Api.JVal.foldChar.
func foldASCII(s string) string {
	out := make([]rune, 0, len(s))
	for _, c := range s {
		switch {
		case c >= 'a' && c <= 'z':
			c -= 32
		case c == 0x17F:
			c = 'S'
		case c == 0x212A:
			c = 'K'
		}
		out = append(out, c)
	}
	return string(out)
}

func genCursorTree(r *rand.Rand) *JT {
	t := Obj("column", Str(gen.Pick(r, []string{"id", "address", "timestamp", "", "x; drop"})),
		"order", gen.Pick(r, []*JT{IntLit("0"), IntLit("1"), Null(), IntLit("7"), IntLit("-1")}),
		"pageSize", gen.Pick(r, []*JT{IntLit("15"), IntLit("0"), IntLit("1000"), IntLit("18446744073709551615")}),
		"filters", gen.Pick(r, []*JT{Obj(), Null(), Obj("qb", Obj("$match", Obj("address", Str("bank")))), Obj("pit", Str("2024-01-01T00:00:00Z"), "expand", Arr(Str("volumes"))), Obj("pit", Str("garbage")), Obj("qb", Obj("$bad", Obj("a", IntLit("1")))), Obj("expand", Str("volumes")), Obj("qb", Arr())}))
	if r.Intn(2) == 0 {
		t.Set("offset", gen.Pick(r, []*JT{IntLit("0"), IntLit("15"), Null(), IntLit("18446744073709551615"), IntLit("18446744073709551616"), IntLit("-1"), NumLit(JNum{Int: "1", Frac: "0"}), NumLit(JNum{Int: "1", Exp: "2"}), Str("1")}))
	} else {
		t.Set("bottom", gen.Pick(r, []*JT{Null(), IntLit("1"), IntLit(gen.BigAmount(r).String()), Str("1"), NumLit(JNum{Int: "1", Frac: "5"})}))
		t.Set("paginationID", gen.Pick(r, []*JT{Null(), IntLit("10"), IntLit("-" + gen.BigAmount(r).String()), NumLit(JNum{Int: "1", Exp: "30"})}))
		t.Set("reverse", gen.Pick(r, []*JT{Bool(true), Bool(false), Null(), IntLit("1")}))
	}
	return t
}

func genCursorIn(c *gen.Ctx) cursorIn {
	r := c.R
	switch r.Intn(10) {
	case 0:
		raw := make([]byte, r.Intn(30))
		r.Read(raw)
		return cursorIn{Cursor: string([]rune(string(raw)))}
	case 1:
		return cursorIn{Cursor: gen.Pick(r, []string{"", "abc", "!!!", "====", "bnVsbA==", "é", "e30=", " e30"})}
	case 2:
		// base64 of text that is not JSON
		txt := gen.Pick(r, []string{"", "{", "nul", "{}x", "[1,", "\xff", "{\"offset\":}"})
		return cursorIn{Cursor: base64.RawURLEncoding.EncodeToString([]byte(txt))}
	case 3:
		t := GenAny(r, 2)
		return cursorIn{Cursor: base64.RawURLEncoding.EncodeToString([]byte(t.Render())), Tree: t, FiltersOK: filtersOK(t)}
	default:
		t := genCursorTree(r)
		if r.Intn(2) == 0 {
			t, _ = mutateTree(r, t)
		}
		return cursorIn{Cursor: base64.RawURLEncoding.EncodeToString([]byte(t.Render())), Tree: t, FiltersOK: filtersOK(t)}
	}
}

func init() {
	gen.Register("cursor", func(c *gen.Ctx) error {
		if c.Replay != "" {
			ins, err := c.ReplayInputs("cursor")
			if err != nil {
				return err
			}
			for _, raw := range ins {
				var in cursorIn
				if err := json.Unmarshal(raw, &in); err != nil {
					return err
				}
				if err := c.Emit("cursor", in, runCursor(in)); err != nil {
					return err
				}
			}
			return nil
		}
		for _, t := range []*JT{Null(), Obj(), Arr(), Obj("offset", Null()), Obj("offset", IntLit("3"))} {
			in := cursorIn{Cursor: base64.RawURLEncoding.EncodeToString([]byte(t.Render())), Tree: t, FiltersOK: true}
			if err := c.Emit("cursor", in, runCursor(in)); err != nil {
				return err
			}
		}
		for i := 0; i < c.N; i++ {
			in := genCursorIn(c)
			if err := c.Emit("cursor", in, runCursor(in)); err != nil {
				return err
			}
		}
		return nil
	})
}
