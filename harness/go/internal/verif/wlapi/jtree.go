//go:build verif

// Package wlapi holds the correspondence workloads of the Api area (C38, C36,
// C26): request decoding, script variables, cursors, the HTTP surface over a
// fake controller, and the machine/interpreter differential.
package wlapi

import (
	"bytes"
	"encoding/json"
	"math/rand"
	"strings"

	"github.com/formancehq/ledger/internal/verif/gen"
)

// JT is a JSON value as a tagged tree. The generator builds trees, Render turns
// them into the text handed to the REAL decoders, and the Lean model receives
// the tree itself (so that number literals keep their written form: `1e3`,
// `1000` and `1000.0` are different inputs for encoding/json + math/big).
type JT struct {
	T string   `json:"t"` // null | bool | str | num | arr | obj
	B bool     `json:"b,omitempty"`
	S string   `json:"s,omitempty"`
	N *JNum    `json:"n,omitempty"`
	A []*JT    `json:"a,omitempty"` // elements (arr) or member values (obj)
	K []string `json:"k,omitempty"` // member names (obj), same length as A
}

// JNum is a JSON number literal: [-] Int [. Frac] [e Exp]. Int has no leading
// zero (JSON grammar), Frac is a non-empty digit string when present, Exp a
// decimal integer with optional '-' when present.
type JNum struct {
	Neg  bool   `json:"neg"`
	Int  string `json:"int"`
	Frac string `json:"frac"`
	Exp  string `json:"exp"`
}

func Null() *JT              { return &JT{T: "null"} }
func Bool(b bool) *JT        { return &JT{T: "bool", B: b} }
func Str(s string) *JT       { return &JT{T: "str", S: s} }
func Arr(xs ...*JT) *JT      { return &JT{T: "arr", A: xs} }
func NumLit(n JNum) *JT      { return &JT{T: "num", N: &n} }
func IntLit(dec string) *JT { // decimal integer, optional leading '-'
	n := JNum{}
	if strings.HasPrefix(dec, "-") {
		n.Neg = true
		dec = dec[1:]
	}
	n.Int = dec
	return NumLit(n)
}

// Obj builds an object from alternating key, value arguments.
func Obj(kv ...any) *JT {
	o := &JT{T: "obj"}
	for i := 0; i+1 < len(kv); i += 2 {
		o.K = append(o.K, kv[i].(string))
		o.A = append(o.A, kv[i+1].(*JT))
	}
	return o
}

func (j *JT) Clone() *JT {
	if j == nil {
		return nil
	}
	c := *j
	if j.N != nil {
		n := *j.N
		c.N = &n
	}
	c.A = make([]*JT, len(j.A))
	for i, x := range j.A {
		c.A[i] = x.Clone()
	}
	c.K = append([]string(nil), j.K...)
	if len(c.A) == 0 {
		c.A = nil
	}
	if len(c.K) == 0 {
		c.K = nil
	}
	return &c
}

// Get returns the (last) member named k of an object, or nil.
func (j *JT) Get(k string) *JT {
	if j == nil || j.T != "obj" {
		return nil
	}
	for i := len(j.K) - 1; i >= 0; i-- {
		if j.K[i] == k {
			return j.A[i]
		}
	}
	return nil
}

// Set replaces (or appends) member k.
func (j *JT) Set(k string, v *JT) {
	for i := range j.K {
		if j.K[i] == k {
			j.A[i] = v
			return
		}
	}
	j.K = append(j.K, k)
	j.A = append(j.A, v)
}

// Del removes member k.
func (j *JT) Del(k string) {
	for i := range j.K {
		if j.K[i] == k {
			j.K = append(j.K[:i], j.K[i+1:]...)
			j.A = append(j.A[:i], j.A[i+1:]...)
			return
		}
	}
}

func (n *JNum) Text() string {
	var sb strings.Builder
	if n.Neg {
		sb.WriteByte('-')
	}
	sb.WriteString(n.Int)
	if n.Frac != "" {
		sb.WriteByte('.')
		sb.WriteString(n.Frac)
	}
	if n.Exp != "" {
		sb.WriteByte('e')
		sb.WriteString(n.Exp)
	}
	return sb.String()
}

func quote(s string) string {
	var buf bytes.Buffer
	enc := json.NewEncoder(&buf)
	enc.SetEscapeHTML(false)
	_ = enc.Encode(s)
	return strings.TrimRight(buf.String(), "\n")
}

// Render prints the JSON text of the tree.
func (j *JT) Render() string {
	var sb strings.Builder
	j.render(&sb)
	return sb.String()
}

func (j *JT) render(sb *strings.Builder) {
	switch j.T {
	case "null":
		sb.WriteString("null")
	case "bool":
		if j.B {
			sb.WriteString("true")
		} else {
			sb.WriteString("false")
		}
	case "str":
		sb.WriteString(quote(j.S))
	case "num":
		sb.WriteString(j.N.Text())
	case "arr":
		sb.WriteByte('[')
		for i, x := range j.A {
			if i > 0 {
				sb.WriteByte(',')
			}
			x.render(sb)
		}
		sb.WriteByte(']')
	case "obj":
		sb.WriteByte('{')
		for i, x := range j.A {
			if i > 0 {
				sb.WriteByte(',')
			}
			sb.WriteString(quote(j.K[i]))
			sb.WriteByte(':')
			x.render(sb)
		}
		sb.WriteByte('}')
	}
}

// ---- generators --------------------------------------------------------------

// boundary number literals: small, fractional, exponent forms, above 2^53, 2^63,
// 2^64, 10^30, float64 overflow / underflow, long fractions that round up.
var numLits = []JNum{
	{Int: "0"}, {Neg: true, Int: "0"}, {Int: "1"}, {Neg: true, Int: "1"}, {Int: "2"}, {Int: "7"}, {Int: "42"},
	{Int: "100"}, {Int: "999999"}, {Int: "1000000"}, {Int: "1234567"}, {Int: "123456789"},
	{Int: "1", Frac: "5"}, {Int: "0", Frac: "5"}, {Int: "1", Frac: "0"}, {Int: "100", Frac: "00"}, {Neg: true, Int: "2", Frac: "75"},
	{Int: "1", Exp: "2"}, {Int: "1", Exp: "3"}, {Int: "5", Exp: "-1"}, {Int: "15", Exp: "-1"}, {Int: "1", Frac: "5", Exp: "1"},
	{Int: "1", Exp: "6"}, {Int: "1", Exp: "20"}, {Int: "1", Exp: "21"}, {Int: "1", Exp: "30"}, {Int: "1", Exp: "-7"}, {Int: "1", Exp: "-5"},
	{Int: "9007199254740991"}, {Int: "9007199254740992"}, {Int: "9007199254740993"}, {Int: "9007199254740995"},
	{Int: "9223372036854775807"}, {Int: "9223372036854775808"}, {Int: "9223372036854775809"}, {Neg: true, Int: "9223372036854775808"}, {Neg: true, Int: "9223372036854775809"},
	{Int: "9223372036854774784"}, {Int: "9223372036854775295"}, {Int: "9223372036854775296"},
	{Int: "18446744073709551615"}, {Int: "18446744073709551616"}, {Int: "18446744073709551617"},
	{Int: "1000000000000000000000000000000"}, {Int: "1000000000000000000000000000001"},
	{Int: "1", Exp: "308"}, {Int: "1", Exp: "309"}, {Int: "1", Exp: "400"}, {Int: "1", Exp: "-400"}, {Int: "17976931348623157", Exp: "292"}, {Int: "17976931348623159", Exp: "292"},
	{Int: "0", Frac: "99999999999999999999"}, {Int: "2", Frac: "9999999999999999999999"}, {Int: "0", Frac: "1"}, {Int: "0", Frac: "000001"}, {Int: "0", Frac: "0001"},
	{Int: "123456789012345"}, {Int: "1234567890123456"}, {Int: "12345678901234567"}, {Int: "123456", Frac: "789"},
}

func digits(r *rand.Rand, n int) string {
	var sb strings.Builder
	for i := 0; i < n; i++ {
		d := r.Intn(10)
		if i == 0 && n > 1 && d == 0 {
			d = 1 + r.Intn(9)
		}
		sb.WriteByte(byte('0' + d))
	}
	return sb.String()
}

// GenNum draws a number literal.
func GenNum(r *rand.Rand) *JT {
	switch r.Intn(10) {
	case 0, 1, 2, 3:
		return NumLit(gen.Pick(r, numLits))
	case 4, 5:
		return IntLit(gen.BigAmount(r).String())
	case 6:
		v := gen.BigAmount(r)
		return IntLit("-" + v.String())
	case 7:
		return NumLit(JNum{Neg: r.Intn(4) == 0, Int: digits(r, 1+r.Intn(8)), Frac: digits(r, 1+r.Intn(4))})
	case 8:
		e := []string{"0", "1", "2", "5", "10", "15", "18", "19", "20", "22", "-1", "-2", "-10", "3", "7"}
		return NumLit(JNum{Neg: r.Intn(4) == 0, Int: digits(r, 1+r.Intn(5)), Exp: gen.Pick(r, e)})
	default:
		return IntLit(digits(r, 1+r.Intn(25)))
	}
}

var strPool = []string{
	"", " ", "USD", "USD/2", "EUR", "COIN", "usd", "USD/", "U$D", "A/B", "USD_X/3", "USD/1234567", "ABCDEFGHIJKLMNOPQRS",
	"world", "bank", "users:001", "a:b:c", "a:", ":a", "a::b", "-", "_x", "a b", "a\nb", "é", "users:é", "@world",
	"0", "1", "100", "-3", "+3", "007", " 12 ", "12 ", "\t12\n", "1e3", "1.0", "1_000", "0x10", "null", "true", "{}", "[]", "\"12\"", "12 13",
	"9007199254740993", "18446744073709551616", "1000000000000000000000000000000",
	"USD 100", "USD/2 100", "USD 0", "USD -1", "USD +5", "USD 007", "USD  5", "USD 5 ", "USD", " 5", "USD 1.5", "USD 1e3", "usd 5", "USD 18446744073709551617", "EUR/2 9223372036854775808",
	"50%", "12.5%", "100%", "101%", "0%", "1/2", "1/3", "3/2", "1/0", "0/0", "1 / 2", "1  /2", "1/2%", "%", ".5%", "5.%",
	"hello", "quote\"s", "back\\slash", "<>&", " ", "日本", "\u0000",
}

// GenStr draws a string.
func GenStr(r *rand.Rand) *JT { return Str(gen.Pick(r, strPool)) }

// GenAny draws an arbitrary JSON value of bounded depth.
func GenAny(r *rand.Rand, depth int) *JT {
	k := r.Intn(12)
	if depth <= 0 && k >= 9 {
		k = r.Intn(9)
	}
	switch k {
	case 0:
		return Null()
	case 1:
		return Bool(r.Intn(2) == 0)
	case 2, 3, 4:
		return GenStr(r)
	case 5, 6, 7, 8:
		return GenNum(r)
	case 9:
		n := r.Intn(4)
		a := &JT{T: "arr"}
		for i := 0; i < n; i++ {
			a.A = append(a.A, GenAny(r, depth-1))
		}
		return a
	default:
		n := r.Intn(4)
		o := &JT{T: "obj"}
		keys := []string{"asset", "amount", "a", "b", "x", "Asset", "AMOUNT", ""}
		used := map[string]bool{}
		for i := 0; i < n; i++ {
			key := gen.Pick(r, keys)
			if used[key] {
				continue
			}
			used[key] = true
			o.K = append(o.K, key)
			o.A = append(o.A, GenAny(r, depth-1))
		}
		return o
	}
}

// CaseFold variants of a key that encoding/json still matches to the field.
func foldVariant(r *rand.Rand, k string) string {
	switch r.Intn(4) {
	case 0:
		return strings.ToUpper(k)
	case 1:
		if len(k) > 0 {
			return strings.ToUpper(k[:1]) + k[1:]
		}
		return k
	case 2:
		// long s / Kelvin sign fold to ASCII s / k
		if i := strings.IndexAny(k, "sk"); i >= 0 {
			if k[i] == 's' {
				return k[:i] + "\u017f" + k[i+1:]
			}
			return k[:i] + "K" + k[i+1:]
		}
		return strings.ToUpper(k)
	default:
		b := []byte(k)
		for i := range b {
			if r.Intn(2) == 0 && b[i] >= 'a' && b[i] <= 'z' {
				b[i] -= 32
			}
		}
		return string(b)
	}
}

// Walk calls fn on every node together with a setter that replaces it.
func (j *JT) Walk(fn func(node *JT, path string, replace func(*JT))) {
	var rec func(n *JT, path string, replace func(*JT))
	rec = func(n *JT, path string, replace func(*JT)) {
		fn(n, path, replace)
		for i := range n.A {
			i := i
			p := path
			if n.T == "obj" {
				p += "/" + n.K[i]
			} else {
				p += "/#"
			}
			rec(n.A[i], p, func(x *JT) { n.A[i] = x })
		}
	}
	rec(j, "", func(*JT) {})
}
