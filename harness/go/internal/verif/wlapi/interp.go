//go:build verif

package wlapi

import (
	"context"
	"encoding/json"
	"errors"
	"fmt"
	"math/big"
	"math/rand"
	"sort"
	"strings"
	"time"

	"github.com/formancehq/go-libs/v5/pkg/query"
	"github.com/formancehq/go-libs/v5/pkg/storage/bun/paginate"
	"github.com/formancehq/go-libs/v5/pkg/storage/postgres"
	"github.com/formancehq/go-libs/v5/pkg/types/metadata"
	"github.com/formancehq/numscript"

	ledger "github.com/formancehq/ledger/internal"
	ledgercontroller "github.com/formancehq/ledger/internal/controller/ledger"
	"github.com/formancehq/ledger/internal/machine"
	"github.com/formancehq/ledger/internal/storage/common"
	ledgerstore "github.com/formancehq/ledger/internal/storage/ledger"
	"github.com/formancehq/ledger/internal/verif/gen"
)

// Workload "interp" (C26): one Numscript program of the shared language, the same
// variables and balances, executed by BOTH real runtimes exactly as the controller
// does (numscript_parser.go / numscript_runtime.go): the default machine
// (`NewDefaultNumscriptParser`) and the interpreter
// (`NewInterpreterNumscriptParser`), over the same fake store.

type interpIn struct {
	Script   string                       `json:"script"`
	Vars     map[string]string            `json:"vars"`
	Balances map[string]map[string]string `json:"balances"`
	Meta     map[string]map[string]string `json:"meta"`
	// Features: constructs the generator used (input distribution + signature).
	Features []string `json:"features"`
}

type rtPosting struct {
	Source      string `json:"source"`
	Destination string `json:"destination"`
	Asset       string `json:"asset"`
	Amount      string `json:"amount"`
}

type rtOut struct {
	OK          bool                         `json:"ok"`
	Err         string                       `json:"err"`
	ErrText     string                       `json:"errText,omitempty"`
	Postings    []rtPosting                  `json:"postings"`
	TxMeta      map[string]string            `json:"txMeta"`
	AccountMeta map[string]map[string]string `json:"accountMeta"`
	Panic       string                       `json:"panic,omitempty"`
}

type interpOut struct {
	Machine rtOut `json:"machine"`
	Interp  rtOut `json:"interp"`
}

// ---- fake store ---------------------------------------------------------------------

type interpStore struct {
	ledgercontroller.Store
	balances map[string]map[string]*big.Int
	meta     map[string]map[string]string
}

func (s *interpStore) GetBalances(ctx context.Context, q ledgerstore.BalanceQuery) (ledger.Balances, error) {
	res := ledger.Balances{}
	for acc, assets := range q {
		res[acc] = map[string]*big.Int{}
		for _, a := range assets {
			v := big.NewInt(0)
			if b, ok := s.balances[acc][a]; ok {
				v = new(big.Int).Set(b)
			}
			res[acc][a] = v
		}
	}
	return res, nil
}

type interpAccounts struct{ s *interpStore }

func (a interpAccounts) GetOne(ctx context.Context, q common.ResourceQuery[any]) (*ledger.Account, error) {
	addr := ""
	if q.Builder != nil {
		_ = q.Builder.Walk(func(operator string, key string, value *any) error {
			if key == "address" {
				addr = fmt.Sprint(*value)
			}
			return nil
		})
	}
	m, ok := a.s.meta[addr]
	if !ok {
		// like the real store: an account nobody ever touched does not exist
		return nil, postgres.ErrNotFound
	}
	md := metadata.Metadata{}
	for k, v := range m {
		md[k] = v
	}
	return &ledger.Account{Address: addr, Metadata: md}, nil
}
func (a interpAccounts) Count(ctx context.Context, q common.ResourceQuery[any]) (int, error) {
	return 0, errors.New("not used")
}
func (a interpAccounts) Paginate(ctx context.Context, q common.PaginatedQuery[any]) (*paginate.Cursor[ledger.Account], error) {
	return nil, errors.New("not used")
}

func (s *interpStore) Accounts() common.PaginatedResource[ledger.Account, any] {
	return interpAccounts{s}
}

var _ = query.Match

func classifyErr(err error) string {
	if err == nil {
		return ""
	}
	switch {
	case errors.Is(err, &machine.ErrInsufficientFund{}), errors.Is(err, numscript.MissingFundsErr{}):
		return "insufficient-funds"
	case errors.Is(err, &machine.ErrInvalidVars{}):
		return "invalid-vars"
	case errors.Is(err, ledgercontroller.ErrCompilationFailed{}):
		return "compile"
	case errors.Is(err, ledgercontroller.ErrParsing{}):
		return "parse"
	case errors.Is(err, &ledgercontroller.ErrMetadataOverride{}):
		return "metadata-override"
	case errors.Is(err, ledgercontroller.ErrRuntime{}):
		return "runtime"
	}
	return "other"
}

func runOne(parser ledgercontroller.NumscriptParser, in interpIn, store *interpStore) (out rtOut) {
	done := make(chan struct{})
	go func() {
		defer close(done)
		out.Panic = gen.Guard(func() {
			rt, err := parser.Parse(in.Script)
			if err != nil {
				out.Err, out.ErrText = classifyErr(err), trunc(err.Error())
				return
			}
			vars := map[string]string{}
			for k, v := range in.Vars {
				vars[k] = v
			}
			res, err := rt.Execute(context.Background(), store, vars)
			if err != nil {
				out.Err, out.ErrText = classifyErr(err), trunc(err.Error())
				return
			}
			out.OK = true
			for _, p := range res.Postings {
				amt := "nil"
				if p.Amount != nil {
					amt = p.Amount.String()
				}
				out.Postings = append(out.Postings, rtPosting{p.Source, p.Destination, p.Asset, amt})
			}
			out.TxMeta = map[string]string{}
			for k, v := range res.Metadata {
				out.TxMeta[k] = v
			}
			out.AccountMeta = map[string]map[string]string{}
			for a, m := range res.AccountMetadata {
				out.AccountMeta[a] = map[string]string{}
				for k, v := range m {
					out.AccountMeta[a][k] = v
				}
			}
		})
	}()
	select {
	case <-done:
	case <-time.After(5 * time.Second):
		return rtOut{Err: "timeout"}
	}
	if out.Panic != "" {
		out.OK, out.Err = false, "panic"
	}
	if out.Postings == nil {
		out.Postings = []rtPosting{}
	}
	return out
}

func trunc(s string) string {
	if len(s) > 200 {
		return s[:200]
	}
	return s
}

func runInterp(in interpIn) interpOut {
	mk := func() *interpStore {
		st := &interpStore{balances: map[string]map[string]*big.Int{}, meta: map[string]map[string]string{}}
		for acc, m := range in.Balances {
			st.balances[acc] = map[string]*big.Int{}
			for a, v := range m {
				b, _ := new(big.Int).SetString(v, 10)
				st.balances[acc][a] = b
			}
		}
		for acc, m := range in.Meta {
			st.meta[acc] = m
		}
		return st
	}
	return interpOut{
		Machine: runOne(ledgercontroller.NewDefaultNumscriptParser(), in, mk()),
		Interp:  runOne(ledgercontroller.NewInterpreterNumscriptParser(nil), in, mk()),
	}
}

// ---- generator ------------------------------------------------------------------------

type pgen struct {
	r        *rand.Rand
	wide     bool
	allot    bool
	// boundary: C36 variant — amounts and balances around 2^63 / 2^64, and none of the
	// constructs with a known interpreter divergence (kept, save, portion variables)
	boundary bool
	feats    map[string]bool
	decls    []string
	vars     map[string]string
	asset    string
	accounts []string
}

func (g *pgen) feat(f string) { g.feats[f] = true }

var boundaryAmounts = []string{"4611686018427387904", "9223372036854775806", "9223372036854775807", "9223372036854775808",
	"9223372036854775809", "18446744073709551615", "18446744073709551616", "1", "2"}

func (g *pgen) amount() string {
	if g.boundary && g.r.Intn(2) == 0 {
		return gen.Pick(g.r, boundaryAmounts)
	}
	switch g.r.Intn(8) {
	case 0:
		return "0"
	case 1:
		return gen.BigAmount(g.r).String()
	default:
		return fmt.Sprint(g.r.Intn(120))
	}
}

func (g *pgen) mon() string { return fmt.Sprintf("[%s %s]", g.asset, g.amount()) }

func (g *pgen) account() string {
	if g.r.Intn(6) == 0 {
		name := fmt.Sprintf("acc%d", len(g.decls))
		g.decls = append(g.decls, "account $"+name)
		g.vars[name] = gen.Pick(g.r, g.accounts)
		g.feat("account-var")
		return "$" + name
	}
	return "@" + gen.Pick(g.r, g.accounts)
}

func (g *pgen) portion() string {
	if g.r.Intn(6) == 0 && !g.boundary {
		name := fmt.Sprintf("por%d", len(g.decls))
		g.decls = append(g.decls, "portion $"+name)
		g.vars[name] = gen.Pick(g.r, []string{"1/2", "1/3", "25%", "10%"})
		g.feat("portion-var")
		return "$" + name
	}
	return gen.Pick(g.r, []string{"1/2", "1/3", "1/4", "25%", "10%", "12.5%", "2/7"})
}

func ind(d int) string { return strings.Repeat("  ", d) }

func (g *pgen) source(depth, d int) string {
	k := g.r.Intn(10)
	if depth <= 0 && k >= 6 {
		k = g.r.Intn(6)
	}
	switch {
	case k < 3:
		if g.r.Intn(8) == 0 {
			return "@world"
		}
		return g.account()
	case k == 3:
		g.feat("overdraft-bounded")
		return g.account() + " allowing overdraft up to " + g.mon()
	case k == 4:
		g.feat("overdraft-unbounded")
		return g.account() + " allowing unbounded overdraft"
	case k == 5 || k == 6:
		g.feat("max-source")
		return "max " + g.mon() + " from " + g.source(depth-1, d)
	default:
		g.feat("inorder-source")
		n := 1 + g.r.Intn(3)
		var sb strings.Builder
		sb.WriteString("{\n")
		for i := 0; i < n; i++ {
			sb.WriteString(ind(d+1) + g.source(depth-1, d+1) + "\n")
		}
		sb.WriteString(ind(d) + "}")
		return sb.String()
	}
}

func (g *pgen) valueAwareSource(d int) string {
	if g.allot && g.r.Intn(3) == 0 {
		g.feat("allotment-source")
		n := 1 + g.r.Intn(3)
		var sb strings.Builder
		sb.WriteString("{\n")
		for i := 0; i < n; i++ {
			sb.WriteString(ind(d+1) + g.portion() + " from " + g.source(1, d+1) + "\n")
		}
		sb.WriteString(ind(d+1) + "remaining from " + g.source(1, d+1) + "\n")
		sb.WriteString(ind(d) + "}")
		return sb.String()
	}
	depth := 2
	if g.wide {
		depth = 3
	}
	return g.source(depth, d)
}

func (g *pgen) keptOrDest(depth, d int) string {
	if g.r.Intn(8) == 0 && !g.boundary {
		g.feat("kept")
		return "kept"
	}
	return "to " + g.destination(depth, d)
}

func (g *pgen) destination(depth, d int) string {
	k := g.r.Intn(10)
	if depth <= 0 {
		k = 0
	}
	switch {
	case k < 5:
		return g.account()
	case k < 8 || !g.allot:
		g.feat("inorder-dest")
		n := 1 + g.r.Intn(2)
		var sb strings.Builder
		sb.WriteString("{\n")
		for i := 0; i < n; i++ {
			sb.WriteString(ind(d+1) + "max " + g.mon() + " " + g.keptOrDest(depth-1, d+1) + "\n")
		}
		sb.WriteString(ind(d+1) + "remaining " + g.keptOrDest(depth-1, d+1) + "\n")
		sb.WriteString(ind(d) + "}")
		return sb.String()
	default:
		g.feat("allotment-dest")
		n := 1 + g.r.Intn(3)
		var sb strings.Builder
		sb.WriteString("{\n")
		for i := 0; i < n; i++ {
			sb.WriteString(ind(d+1) + g.portion() + " " + g.keptOrDest(depth-1, d+1) + "\n")
		}
		sb.WriteString(ind(d+1) + "remaining " + g.keptOrDest(depth-1, d+1) + "\n")
		sb.WriteString(ind(d) + "}")
		return sb.String()
	}
}

func (g *pgen) metaValue() string {
	switch g.r.Intn(8) {
	case 0:
		return `"hello"`
	case 1:
		return fmt.Sprint(g.r.Intn(1000))
	case 2:
		return g.mon()
	case 3:
		return "@" + gen.Pick(g.r, g.accounts)
	case 4:
		return g.asset
	case 5:
		return gen.Pick(g.r, []string{"1/2", "25%"})
	case 6:
		name := fmt.Sprintf("s%d", len(g.decls))
		g.decls = append(g.decls, "string $"+name)
		g.vars[name] = gen.Pick(g.r, []string{"v", "", "héllo", "a b"})
		return "$" + name
	default:
		name := fmt.Sprintf("n%d", len(g.decls))
		g.decls = append(g.decls, "number $"+name)
		g.vars[name] = gen.BigAmount(g.r).String()
		return "$" + name
	}
}

func genInterpIn(c *gen.Ctx, i int, boundary bool) interpIn {
	r := c.R
	g := &pgen{r: r, wide: c.Wide, allot: i%5 >= 3, boundary: boundary, feats: map[string]bool{}, vars: map[string]string{},
		asset: gen.Pick(r, []string{"USD/2", "COIN", "EUR"}), accounts: []string{"alice", "bob", "carol", "users:001", "dave"}}
	in := interpIn{Vars: g.vars, Balances: map[string]map[string]string{}, Meta: map[string]map[string]string{}}
	for _, a := range g.accounts {
		in.Meta[a] = map[string]string{}
		k := r.Intn(6)
		if boundary && r.Intn(2) == 0 {
			in.Balances[a] = map[string]string{g.asset: gen.Pick(r, boundaryAmounts)}
			continue
		}
		switch k {
		case 0:
		case 1:
			in.Balances[a] = map[string]string{g.asset: "0"}
		case 2:
			in.Balances[a] = map[string]string{g.asset: gen.BigAmount(r).String()}
		case 3:
			in.Balances[a] = map[string]string{g.asset: "-" + fmt.Sprint(r.Intn(50))}
		default:
			in.Balances[a] = map[string]string{g.asset: fmt.Sprint(r.Intn(200))}
		}
	}
	in.Meta["world"] = map[string]string{}
	var stmts []string
	n := 1 + r.Intn(3)
	if c.Wide {
		n = 1 + r.Intn(5)
	}
	for s := 0; s < n; s++ {
		switch k := r.Intn(12); {
		case k < 7:
			what := g.mon()
			if r.Intn(6) == 0 {
				name := fmt.Sprintf("m%d", len(g.decls))
				g.decls = append(g.decls, "monetary $"+name)
				g.vars[name] = g.asset + " " + g.amount()
				g.feat("monetary-var")
				what = "$" + name
			} else if r.Intn(7) == 0 {
				what = "[" + g.asset + " *]"
				g.feat("send-all")
			}
			stmts = append(stmts, fmt.Sprintf("send %s (\n  source = %s\n  destination = %s\n)", what, g.valueAwareSource(1), g.destination(2, 1)))
		case k < 9:
			g.feat("set-tx-meta")
			stmts = append(stmts, fmt.Sprintf("set_tx_meta(\"k%d\", %s)", r.Intn(3), g.metaValue()))
		case k < 10:
			g.feat("set-account-meta")
			stmts = append(stmts, fmt.Sprintf("set_account_meta(@%s, \"k%d\", %s)", gen.Pick(r, g.accounts), r.Intn(2), g.metaValue()))
		case k < 11 && g.allot && !g.boundary:
			g.feat("save")
			if r.Intn(3) == 0 {
				stmts = append(stmts, fmt.Sprintf("save [%s *] from @%s", g.asset, gen.Pick(r, g.accounts)))
			} else {
				stmts = append(stmts, fmt.Sprintf("save %s from @%s", g.mon(), gen.Pick(r, g.accounts)))
			}
		default:
			// variable with an origin
			if r.Intn(2) == 0 && !g.feats["balance-var"] {
				// at most one balance() variable per program: two of them on one account
				// crash the machine (a known finding of C27, not this property's subject)
				acc := gen.Pick(r, g.accounts)
				name := fmt.Sprintf("b%d", len(g.decls))
				g.decls = append(g.decls, fmt.Sprintf("monetary $%s = balance(@%s, %s)", name, acc, g.asset))
				g.feat("balance-var")
				if b, ok := in.Balances[acc][g.asset]; ok && strings.HasPrefix(b, "-") {
					in.Balances[acc][g.asset] = b[1:] // balance() of a negative balance is refused by both
				}
				stmts = append(stmts, fmt.Sprintf("send $%s (\n  source = @%s\n  destination = %s\n)", name, acc, g.destination(1, 1)))
			} else {
				acc := gen.Pick(r, g.accounts)
				name := fmt.Sprintf("ma%d", len(g.decls))
				g.decls = append(g.decls, fmt.Sprintf("account $%s = meta(@%s, \"partner\")", name, acc))
				in.Meta[acc]["partner"] = gen.Pick(r, g.accounts)
				g.feat("meta-var")
				stmts = append(stmts, fmt.Sprintf("send %s (\n  source = @world\n  destination = $%s\n)", g.mon(), name))
			}
		}
	}
	var sb strings.Builder
	if len(g.decls) > 0 {
		sb.WriteString("vars {\n")
		for _, d := range g.decls {
			sb.WriteString("  " + d + "\n")
		}
		sb.WriteString("}\n")
	}
	sb.WriteString(strings.Join(stmts, "\n"))
	sb.WriteString("\n")
	in.Script = sb.String()
	// deliberately failing stream
	if r.Intn(12) == 0 && len(g.vars) > 0 {
		for k := range g.vars {
			if r.Intn(2) == 0 {
				delete(g.vars, k)
			} else {
				g.vars[k] = "!!bad!!"
			}
			g.feat("bad-vars")
			break
		}
	}
	for f := range g.feats {
		in.Features = append(in.Features, f)
	}
	sort.Strings(in.Features)
	if in.Features == nil {
		in.Features = []string{"plain"}
	}
	return in
}

func init() {
	for _, name := range []string{"interp", "interp36"} {
		name := name
		registerInterp(name)
	}
}

func registerInterp(name string) {
	gen.Register(name, func(c *gen.Ctx) error {
		if c.Replay != "" {
			ins, err := c.ReplayInputs(name)
			if err != nil {
				return err
			}
			for _, raw := range ins {
				var in interpIn
				if err := json.Unmarshal(raw, &in); err != nil {
					return err
				}
				if err := c.Emit(name, in, runInterp(in)); err != nil {
					return err
				}
			}
			return nil
		}
		for i := 0; i < c.N; i++ {
			in := genInterpIn(c, i, name == "interp36")
			if err := c.Emit(name, in, runInterp(in)); err != nil {
				return err
			}
		}
		return nil
	})
}
