//go:build verif

package wlapi

import (
	"encoding/json"
	"errors"
	"fmt"
	"math/big"
	"sort"
	"strings"

	"github.com/formancehq/ledger/internal/api/bulking"
	v1 "github.com/formancehq/ledger/internal/api/v1"
	"github.com/formancehq/ledger/internal/machine"
	"github.com/formancehq/ledger/internal/machine/script/compiler"
	"github.com/formancehq/ledger/internal/machine/vm"
	"github.com/formancehq/ledger/internal/verif/gen"
)

// Workload "vars": the `vars` member of a script goes through the REAL request
// decoding of v1 (`v1.CreateTransactionRequest` + `Script.ToCore`) or v2
// (`bulking.TransactionRequest` + `ScriptV1.ToCore`), then through the REAL
// compiler and `Machine.SetVarsFromJSON` for a script declaring the given typed
// variables. Output: the stage reached, the string form after ToCore and the
// typed machine values (amounts as decimal strings).

type varDecl struct {
	Name string `json:"name"`
	Type string `json:"type"`
}

type varsIn struct {
	API  string    `json:"api"` // "v1" | "v2"
	Decl []varDecl `json:"decl"`
	// Vars is the value of the "vars" member of the script; nil = member absent.
	Vars *JT `json:"vars"`
}

type typedVal struct {
	T string `json:"t"`
	V string `json:"v"`
}

type varsOut struct {
	// decode | tocore | invalidvars | ok | panic | compile (harness bug)
	Stage string              `json:"stage"`
	Vars  map[string]string   `json:"vars"`
	Typed map[string]typedVal `json:"typed"`
	Panic string              `json:"panic,omitempty"`
	Err   string              `json:"err,omitempty"`
}

func scriptFor(decl []varDecl) string {
	var sb strings.Builder
	if len(decl) > 0 {
		sb.WriteString("vars {\n")
		for _, d := range decl {
			fmt.Fprintf(&sb, "\t%s $%s\n", d.Type, d.Name)
		}
		sb.WriteString("}\n")
	}
	sb.WriteString("send [COIN 1] (\n\tsource = @world\n\tdestination = @sink\n)\n")
	return sb.String()
}

func canonValue(v machine.Value) typedVal {
	switch x := v.(type) {
	case machine.AccountAddress:
		return typedVal{"account", string(x)}
	case machine.Asset:
		return typedVal{"asset", string(x)}
	case machine.String:
		return typedVal{"string", string(x)}
	case *machine.MonetaryInt:
		if x == nil {
			return typedVal{"number", "nil"}
		}
		return typedVal{"number", x.String()}
	case machine.Monetary:
		if x.Amount == nil {
			return typedVal{"monetary", string(x.Asset) + " nil"}
		}
		return typedVal{"monetary", string(x.Asset) + " " + x.Amount.String()}
	case machine.Portion:
		if x.Remaining || x.Specific == nil {
			return typedVal{"portion", "remaining"}
		}
		return typedVal{"portion", x.Specific.Num().String() + "/" + x.Specific.Denom().String()}
	default:
		return typedVal{"?", fmt.Sprint(v)}
	}
}

func runVars(in varsIn) (out varsOut) {
	script := scriptFor(in.Decl)
	sobj := Obj("plain", Str(script))
	if in.Vars != nil {
		sobj.Set("vars", in.Vars)
	}
	body := Obj("script", sobj).Render()

	var vars map[string]string
	p := gen.Guard(func() {
		switch in.API {
		case "v1":
			payload := v1.CreateTransactionRequest{}
			if err := json.NewDecoder(strings.NewReader(body)).Decode(&payload); err != nil {
				out.Stage, out.Err = "decode", err.Error()
				return
			}
			s, err := payload.Script.ToCore()
			if err != nil {
				out.Stage, out.Err = "tocore", err.Error()
				return
			}
			vars = s.Vars
		default:
			payload := bulking.TransactionRequest{}
			if err := json.NewDecoder(strings.NewReader(body)).Decode(&payload); err != nil {
				out.Stage, out.Err = "decode", err.Error()
				return
			}
			ct, err := payload.ToCore()
			if err != nil {
				out.Stage, out.Err = "tocore", err.Error()
				return
			}
			vars = ct.RunScript.Script.Vars
		}
		out.Vars = map[string]string{}
		for k, v := range vars {
			out.Vars[k] = v
		}
		prog, err := compiler.Compile(script)
		if err != nil {
			out.Stage, out.Err = "compile", err.Error()
			return
		}
		m := vm.NewMachine(*prog)
		cp := map[string]string{}
		for k, v := range vars {
			cp[k] = v
		}
		if err := m.SetVarsFromJSON(cp); err != nil {
			var iv *machine.ErrInvalidVars
			if errors.As(err, &iv) || errors.Is(err, &machine.ErrInvalidVars{}) {
				out.Stage = "invalidvars"
			} else {
				out.Stage = "othererr"
			}
			out.Err = err.Error()
			return
		}
		out.Stage = "ok"
		out.Typed = map[string]typedVal{}
		for k, v := range m.Vars {
			out.Typed[k] = canonValue(v)
		}
	})
	if p != "" {
		out.Stage, out.Panic = "panic", p
	}
	return out
}

var varTypes = []string{"account", "asset", "number", "string", "monetary", "portion"}
var varNames = []string{"a", "b", "m", "n", "p", "s", "acc", "amt"}

// a plausible valid value for a declared type, in one of the accepted shapes
func validVarValue(c *gen.Ctx, typ string) *JT {
	r := c.R
	switch typ {
	case "account":
		return Str(gen.Pick(r, []string{"world", "bank", "users:001", "a:b:c", "-", "_x", "42"}))
	case "asset":
		return Str(gen.Pick(r, []string{"USD", "USD/2", "EUR", "COIN", "USD_X/3"}))
	case "number":
		if r.Intn(2) == 0 {
			return Str(gen.BigAmount(r).String())
		}
		return IntLit(gen.BigAmount(r).String())
	case "string":
		return GenStr(r)
	case "portion":
		return Str(gen.Pick(r, []string{"50%", "12.5%", "1/3", "1/2", "100%", "0%"}))
	default: // monetary
		asset := gen.Pick(r, []string{"USD", "USD/2", "EUR", "COIN"})
		amt := gen.BigAmount(r)
		switch r.Intn(4) {
		case 0:
			return Str(asset + " " + amt.String())
		case 1:
			return Obj("asset", Str(asset), "amount", Str(amt.String()))
		case 2:
			return Obj("amount", IntLit(amt.String()), "asset", Str(asset))
		default:
			return Obj("asset", Str(asset), "amount", GenNum(r))
		}
	}
}

// boundary / malformed texts per declared type (what NewValueFromString must refuse
// or accept without crashing)
var edgeTexts = map[string][]string{
	"portion":  {"1/0", "0/0", "0/1", "3/2", "101%", "100.0001%", "1/", "/2", "%", "1 / 2", "1  /2", "1/2%", "007/008", "1/00", "0.%", "12.50%"},
	"number":   {"null", " 12 ", "1e3", "1.0", "-0", "+3", "007", "", "0x10", "12 13", "\"12\"", "99999999999999999999999999"},
	"monetary": {"USD -1", "USD  5", "USD 5 ", " USD 5", "USD", "USD +5", "USD 007", "USD 1.5", "A/B 5", "usd 5", "USD/2 18446744073709551617", "USD 1e3", "USD null"},
	"account":  {"a:", ":a", "a::b", "a b", "", "é", "@world", "-", "a:b:c:d:e:f"},
	"asset":    {"A/B", "usd", "USD/", "USD/1234567", "ABCDEFGHIJKLMNOPQRS", "USD_X/3", "U$D", "", "USD/2 "},
	"string":   {"", "null", "\u0000", "a\nb"},
}

func genVarsIn(c *gen.Ctx) varsIn {
	r := c.R
	in := varsIn{API: gen.Pick(r, []string{"v1", "v2"})}
	n := r.Intn(4)
	used := map[string]bool{}
	for i := 0; i < n; i++ {
		name := gen.Pick(r, varNames)
		if used[name] {
			continue
		}
		used[name] = true
		in.Decl = append(in.Decl, varDecl{Name: name, Type: gen.Pick(r, varTypes)})
	}
	mode := r.Intn(20)
	switch {
	case mode == 0:
		in.Vars = nil // member absent
		return in
	case mode == 1:
		in.Vars = GenAny(r, 2) // vars of any JSON type
		return in
	}
	o := &JT{T: "obj"}
	for _, d := range in.Decl {
		var v *JT
		switch k := r.Intn(12); {
		case k >= 10:
			v = Str(gen.Pick(r, edgeTexts[d.Type]))
		case k < 5:
			v = validVarValue(c, d.Type)
		case k < 7:
			// the valid shape of another type
			v = validVarValue(c, gen.Pick(r, varTypes))
		case k < 9:
			v = GenAny(r, 2)
		default:
			// monetary-like object with confused members
			v = Obj()
			if r.Intn(6) > 0 {
				v.Set(gen.Pick(r, []string{"asset", "asset", "Asset", "ASSET"}), GenAny(r, 1))
			}
			if r.Intn(6) > 0 {
				v.Set(gen.Pick(r, []string{"amount", "amount", "Amount"}), GenAny(r, 1))
			}
			if r.Intn(4) == 0 {
				v.Set("extra", GenAny(r, 1))
			}
		}
		if r.Intn(15) == 0 {
			continue // missing variable
		}
		o.K = append(o.K, d.Name)
		o.A = append(o.A, v)
	}
	if r.Intn(10) == 0 {
		o.Set(gen.Pick(r, []string{"zz", "", "A", "extra"}), GenAny(r, 1)) // extraneous
	}
	in.Vars = o
	return in
}

// fixed corpus: the boundary cases named by C36 / C38 for every variable type.
func varsCorpus() []varsIn {
	var res []varsIn
	amts := []string{"0", "1", "-1", "9007199254740992", "9007199254740993", "9223372036854775807", "9223372036854775808",
		"18446744073709551616", "1000000000000000000000000000000"}
	for _, api := range []string{"v1", "v2"} {
		for _, a := range amts {
			d := []varDecl{{Name: "m", Type: "monetary"}}
			res = append(res,
				varsIn{API: api, Decl: d, Vars: Obj("m", Obj("asset", Str("USD/2"), "amount", IntLit(a)))},
				varsIn{API: api, Decl: d, Vars: Obj("m", Obj("asset", Str("USD/2"), "amount", Str(a)))},
				varsIn{API: api, Decl: d, Vars: Obj("m", Str("USD/2 "+a))},
				varsIn{API: api, Decl: []varDecl{{Name: "n", Type: "number"}}, Vars: Obj("n", IntLit(a))},
				varsIn{API: api, Decl: []varDecl{{Name: "n", Type: "number"}}, Vars: Obj("n", Str(a))},
			)
		}
		for _, n := range []JNum{{Int: "1", Frac: "5"}, {Int: "1", Exp: "30"}, {Int: "1", Exp: "3"}, {Int: "1", Frac: "0"}} {
			res = append(res, varsIn{API: api, Decl: []varDecl{{Name: "m", Type: "monetary"}}, Vars: Obj("m", Obj("asset", Str("USD"), "amount", NumLit(n)))})
		}
		for _, typ := range varTypes {
			for _, txt := range edgeTexts[typ] {
				res = append(res, varsIn{API: api, Decl: []varDecl{{Name: "a", Type: typ}}, Vars: Obj("a", Str(txt))})
			}
			for _, v := range []*JT{Null(), Bool(true), IntLit("42"), NumLit(JNum{Int: "1", Frac: "5"}), Arr(), Arr(IntLit("1"), Str("x")), Obj(), Str(""), Str("null")} {
				res = append(res, varsIn{API: api, Decl: []varDecl{{Name: "a", Type: typ}}, Vars: Obj("a", v)})
			}
		}
	}
	return res
}

func init() {
	// "vars" carries the C38 predicate, "vars36" the C36 one (same generator).
	for _, name := range []string{"vars", "vars36"} {
		name := name
		gen.Register(name, func(c *gen.Ctx) error {
			if c.Replay != "" {
				ins, err := c.ReplayInputs(name)
				if err != nil {
					return err
				}
				for _, raw := range ins {
					var in varsIn
					if err := json.Unmarshal(raw, &in); err != nil {
						return err
					}
					if err := c.Emit(name, in, runVars(in)); err != nil {
						return err
					}
				}
				return nil
			}
			for _, in := range varsCorpus() {
				if err := c.Emit(name, in, runVars(in)); err != nil {
					return err
				}
			}
			for i := 0; i < c.N; i++ {
				in := genVarsIn(c)
				if err := c.Emit(name, in, runVars(in)); err != nil {
					return err
				}
			}
			return nil
		})
	}
}

var _ = sort.Strings
var _ = big.NewInt
