//go:build verif

package wlapi

import (
	"context"
	"encoding/base64"
	"encoding/json"
	"errors"
	"fmt"
	"io"
	"math/rand"
	"net/http"
	"net/http/httptest"
	"net/url"
	"os"
	"sort"
	"strconv"
	"strings"
	"time"

	"github.com/formancehq/go-libs/v5/pkg/authn/jwt"
	"github.com/formancehq/go-libs/v5/pkg/storage/postgres"
	"github.com/formancehq/numscript"

	ledger "github.com/formancehq/ledger/internal"
	"github.com/formancehq/ledger/internal/api"
	"github.com/formancehq/ledger/internal/api/bulking"
	ledgercontroller "github.com/formancehq/ledger/internal/controller/ledger"
	systemcontroller "github.com/formancehq/ledger/internal/controller/system"
	"github.com/formancehq/ledger/internal/machine"
	storagecommon "github.com/formancehq/ledger/internal/storage/common"
	ledgerstore "github.com/formancehq/ledger/internal/storage/ledger"
	"github.com/formancehq/ledger/internal/verif/gen"
)

// Workload "http": the REAL chi router (`api.NewRouter`: v1 + v2, every
// middleware) over the scripted fake controller. Every case is one request.

type httpIn struct {
	// Route is the template id, e.g. "v2 POST /{ledger}/transactions".
	Route   string            `json:"route"`
	Method  string            `json:"method"`
	Path    string            `json:"path"`  // escaped path as sent
	Query   string            `json:"query"` // raw query string
	Headers map[string]string `json:"headers,omitempty"`
	// Body as text; BodyB64 when it is not valid UTF-8.
	Body    string `json:"body,omitempty"`
	BodyB64 string `json:"bodyB64,omitempty"`
	// NoLength: send with ContentLength = -1 (chunked).
	NoLength bool `json:"noLength,omitempty"`
	// Mut names the mutation class; Expect is "2xx" for the unmodified template,
	// "4xx" for a mutation that is certainly client-invalid, "" otherwise.
	Mut    string `json:"mut"`
	Expect string `json:"expect"`
	// Inject: controller method → typed error it answers with.
	Inject        map[string]string `json:"inject,omitempty"`
	MissingLedger bool              `json:"missingLedger,omitempty"`
	Outdated      bool              `json:"outdated,omitempty"`
}

type httpOut struct {
	Status    int      `json:"status"`
	CType     string   `json:"ctype"`
	BodyLen   int      `json:"bodyLen"`
	BodyJSON  bool     `json:"bodyJSON"`
	ErrorCode string   `json:"errorCode"`
	BodyHead  string   `json:"bodyHead"`
	Calls     []string `json:"calls"`
	Writes    []string `json:"writes"` // effective writes (outside tx or committed)
	Panic     string   `json:"panic,omitempty"`
	Timeout   bool     `json:"timeout,omitempty"`
}

var injectable = map[string]func() error{
	"ErrInsufficientFunds":            func() error { return &machine.ErrInsufficientFund{} },
	"MissingFundsErr":                 func() error { return numscript.MissingFundsErr{} },
	"ErrInvalidVars":                  func() error { return &machine.ErrInvalidVars{} },
	"ErrCompilationFailed":            func() error { return ledgercontroller.ErrCompilationFailed{} },
	"ErrMetadataOverride":             func() error { return &ledgercontroller.ErrMetadataOverride{} },
	"ErrNoPostings":                   func() error { return ledgercontroller.ErrNoPostings },
	"ErrTransactionReferenceConflict": func() error { return ledgerstore.ErrTransactionReferenceConflict{} },
	"ErrIdempotencyKeyConflict":       func() error { return ledgercontroller.ErrIdempotencyKeyConflict{} },
	"ErrInvalidIdempotencyInput":      func() error { return ledgercontroller.ErrInvalidIdempotencyInput{} },
	"ErrNotFound":                     func() error { return postgres.ErrNotFound },
	"ErrAlreadyReverted":              func() error { return ledgercontroller.ErrAlreadyReverted{} },
	"ErrSchemaValidationError":        func() error { return ledgercontroller.ErrSchemaValidationError{} },
	"ErrSchemaNotSpecified":           func() error { return ledgercontroller.ErrSchemaNotSpecified{} },
	"ErrSchemaNotFound":               func() error { return ledgercontroller.ErrSchemaNotFound{} },
	"ErrSchemaAlreadyExists":          func() error { return ledgercontroller.ErrSchemaAlreadyExists{} },
	"ErrInvalidSchema":                func() error { return ledger.ErrInvalidSchema{} },
	"ErrInvalidQuery":                 func() error { return storagecommon.ErrInvalidQuery{} },
	"ErrMissingFeature":               func() error { return ledgerstore.ErrMissingFeature{} },
	"ErrNotPaginatedField":            func() error { return storagecommon.ErrNotPaginatedField{} },
	"ErrQueryValidation":              func() error { return ledgercontroller.VerifNewErrQueryValidation(errors.New("x")) },
	"ErrParsing":                      func() error { return ledgercontroller.ErrParsing{} },
	"ErrRuntime":                      func() error { return ledgercontroller.ErrRuntime{InterpreterError: numscript.MissingFundsErr{}} },
	"ErrImport":                       func() error { return ledgercontroller.NewErrImport(errors.New("x")) },
	"ErrLedgerAlreadyExists":          func() error { return systemcontroller.ErrLedgerAlreadyExists },
	"ErrInvalidLedgerName":            func() error { return ledger.ErrInvalidLedgerName{} },
	"ErrInvalidBucketName":            func() error { return ledger.ErrInvalidBucketName{} },
	"ErrInvalidLedgerConfiguration":   func() error { return systemcontroller.ErrInvalidLedgerConfiguration{} },
	"ErrBucketOutdated":               func() error { return systemcontroller.ErrBucketOutdated },
	"ErrExperimentalFeaturesDisabled": func() error { return systemcontroller.ErrExperimentalFeaturesDisabled },
	"ErrInvalidDriverConfiguration":   func() error { return systemcontroller.ErrInvalidDriverConfiguration{} },
	"ErrExporterNotFound":             func() error { return systemcontroller.ErrExporterNotFound("e") },
	"ErrExporterUsed":                 func() error { return systemcontroller.ErrExporterUsed("e") },
	"ErrPipelineNotFound":             func() error { return ledger.ErrPipelineNotFound("p") },
	"ErrPipelineAlreadyExists":        func() error { return ledger.ErrPipelineAlreadyExists{} },
	"ErrInUsePipeline":                func() error { return ledgercontroller.ErrInUsePipeline("p") },
	"ErrAlreadyStarted":               func() error { return ledger.ErrAlreadyStarted("p") },
}

func runHTTP(in httpIn) (out httpOut) {
	out, _ = runHTTPFake(in)
	return out
}

func runHTTPFake(in httpIn) (out httpOut, fake *Fake) {
	fake = NewFake()
	fake.MissingLedger = in.MissingLedger
	fake.Outdated = in.Outdated
	for m, name := range in.Inject {
		if mk, ok := injectable[name]; ok {
			fake.Inject[m] = mk()
		}
	}
	body := []byte(in.Body)
	if in.BodyB64 != "" {
		body, _ = base64.StdEncoding.DecodeString(in.BodyB64)
	}
	ctx, cancel := context.WithCancel(context.Background())
	defer cancel()

	done := make(chan struct{})
	var rec *httptest.ResponseRecorder
	var panicked string
	go func() {
		defer close(done)
		panicked = gen.Guard(func() {
			router := api.NewRouter(fake, jwt.NewNoAuth(), nil, "verif", os.Getenv("VERIF_HTTP_DEBUG") != "", api.WithExporters(true),
				api.WithBulkerFactory(bulking.NewDefaultBulkerFactory(bulking.WithParallelism(4))))
			target := in.Path
			if in.Query != "" {
				target += "?" + in.Query
			}
			var rd io.Reader
			if len(body) > 0 || in.NoLength {
				rd = strings.NewReader(string(body))
			}
			req, err := http.NewRequestWithContext(ctx, in.Method, "http://ledger.test"+target, rd)
			if err != nil {
				// not a sendable URL: the harness's problem, not the server's
				out.Status = -1
				out.BodyHead = err.Error()
				return
			}
			req.RequestURI = target
			if req.Body == nil {
				req.Body = http.NoBody // what a real server hands to handlers
			}
			for k, v := range in.Headers {
				req.Header.Set(k, v)
			}
			if in.NoLength {
				req.ContentLength = -1
			}
			rec = httptest.NewRecorder()
			router.ServeHTTP(rec, req)
		})
	}()
	select {
	case <-done:
	case <-time.After(10 * time.Second):
		out.Timeout = true
		cancel()
		select {
		case <-done:
		case <-time.After(2 * time.Second):
		}
	}
	cancel()
	fake.WaitImports(2 * time.Second)
	if panicked != "" {
		out.Panic = panicked
	}
	if rec != nil {
		out.Status = rec.Code
		out.CType = rec.Header().Get("Content-Type")
		b := rec.Body.Bytes()
		out.BodyLen = len(b)
		var parsed any
		if len(b) > 0 && json.Unmarshal(b, &parsed) == nil {
			out.BodyJSON = true
			if m, ok := parsed.(map[string]any); ok {
				if s, ok := m["errorCode"].(string); ok {
					out.ErrorCode = s
				}
			}
		}
		head := string(b)
		if len(head) > 160 {
			head = head[:160]
		}
		out.BodyHead = strings.ToValidUTF8(head, "?")
	}
	// the import goroutine may still be draining: give it a moment after cancel
	time.Sleep(0)
	out.Calls = fake.Methods()
	out.Writes = fake.EffectiveWrites()
	if out.Calls == nil {
		out.Calls = []string{}
	}
	if out.Writes == nil {
		out.Writes = []string{}
	}
	return out, fake
}

// ---- route templates ---------------------------------------------------------------

type routeT struct {
	ID     string // "<api> <METHOD> <pattern>"
	API    string
	Method string
	// Pattern with {ledger}, {id}, {address}, {key}, {version}, {exporterID}, {pipelineID}, {bucket}
	Pattern string
	Body    func(r *rand.Rand) *JT // nil: no body
	// Query parameters a valid request may carry (name → generator of a VALID value)
	Query []string
	// Controller method reached and the typed client errors it may answer with
	CtlMethod string
	Errs      []string
	// Paginated list (accepts cursor / pageSize), Filter (v2 body/`query` filter)
	List, Filter bool
}

var idemErrs = []string{"ErrIdempotencyKeyConflict", "ErrInvalidIdempotencyInput"}
var schemaErrs = []string{"ErrSchemaValidationError", "ErrSchemaNotSpecified", "ErrSchemaNotFound"}
var readErrs = []string{"ErrInvalidQuery", "ErrMissingFeature"}
var listErrs = []string{"ErrInvalidQuery", "ErrMissingFeature", "ErrNotPaginatedField"}

func cat(xs ...[]string) []string {
	var r []string
	for _, x := range xs {
		r = append(r, x...)
	}
	return r
}

func bodyMetadata(r *rand.Rand) *JT {
	return Obj("k1", Str("v1"), "role", Str(gen.Pick(r, []string{"vip", "", "héllo"})))
}

func bodyPostingsTx(r *rand.Rand) *JT {
	return Obj(
		"postings", Arr(Obj("source", Str("world"), "destination", Str("bank"), "amount", IntLit(gen.BigAmount(r).String()), "asset", Str("USD/2"))),
		"reference", Str("ref-1"),
		"metadata", Obj("k", Str("v")),
		"timestamp", Str("2024-01-01T00:00:00Z"),
	)
}

func bodyScriptTx(api string) func(r *rand.Rand) *JT {
	return func(r *rand.Rand) *JT {
		vars := Obj("dst", Str("bank"), "amt", Obj("asset", Str("USD/2"), "amount", IntLit(gen.BigAmount(r).String())))
		if api == "v1" && r.Intn(2) == 0 {
			vars = Obj("dst", Str("bank"), "amt", Str("USD/2 100"))
		}
		return Obj(
			"script", Obj("plain", Str("vars {\n account $dst\n monetary $amt\n}\nsend $amt (\n source = @world\n destination = $dst\n)"), "vars", vars),
			"reference", Str("ref-2"),
			"metadata", Obj("k", Str("v")),
		)
	}
}

func bodyTx(api string) func(r *rand.Rand) *JT {
	return func(r *rand.Rand) *JT {
		if r.Intn(2) == 0 {
			return bodyPostingsTx(r)
		}
		return bodyScriptTx(api)(r)
	}
}

func bodyBulk(r *rand.Rand) *JT {
	els := []*JT{
		Obj("action", Str("CREATE_TRANSACTION"), "ik", Str("ik-1"), "data", bodyPostingsTx(r)),
		Obj("action", Str("ADD_METADATA"), "data", Obj("targetType", Str("ACCOUNT"), "targetId", Str("bank"), "metadata", Obj("k", Str("v")))),
		Obj("action", Str("ADD_METADATA"), "data", Obj("targetType", Str("TRANSACTION"), "targetId", IntLit("1"), "metadata", Obj("k", Str("v")))),
		Obj("action", Str("REVERT_TRANSACTION"), "data", Obj("id", IntLit("1"), "force", Bool(false), "atEffectiveDate", Bool(true))),
		Obj("action", Str("DELETE_METADATA"), "data", Obj("targetType", Str("ACCOUNT"), "targetId", Str("bank"), "key", Str("k"))),
		Obj("action", Str("CREATE_TRANSACTION"), "data", bodyScriptTx("v2")(r)),
	}
	n := 1 + r.Intn(4)
	a := &JT{T: "arr"}
	for i := 0; i < n; i++ {
		a.A = append(a.A, gen.Pick(r, els).Clone())
	}
	return a
}

func bodySchema(r *rand.Rand) *JT {
	return Obj("chart", Obj("users", Obj("$userID", Obj(".pattern", Str("^[0-9]+$"), ".metadata", Obj("k", Obj("default", Str("v"))))), "bank", Obj()))
}

func bodyFilter(r *rand.Rand) *JT {
	return gen.Pick(r, []*JT{
		Obj("$match", Obj("address", Str("users:"))),
		Obj("$and", Arr(Obj("$match", Obj("metadata[k]", Str("v"))), Obj("$gte", Obj("balance[USD/2]", IntLit("10"))))),
		Obj("$or", Arr(Obj("$match", Obj("address", Str("bank"))), Obj("$not", Obj("$exists", Obj("metadata", Str("k")))))),
		Obj("$match", Obj("first_usage", Str("2024-01-01T00:00:00Z"))),
	}).Clone()
}

// a filter that is valid for the resource the route lists
func filterFor(r *rand.Rand, method string) *JT {
	switch method {
	case "ListLogs":
		return gen.Pick(r, []*JT{Obj("$lt", Obj("id", IntLit("10"))), Obj("$gte", Obj("date", Str("2024-01-01T00:00:00Z")))}).Clone()
	case "ListTransactions", "CountTransactions":
		return gen.Pick(r, []*JT{
			Obj("$lt", Obj("id", IntLit("10"))),
			Obj("$and", Arr(Obj("$match", Obj("metadata[k]", Str("v"))), Obj("$match", Obj("account", Str("users:"))))),
			Obj("$or", Arr(Obj("$match", Obj("source", Str("bank"))), Obj("$not", Obj("$exists", Obj("metadata", Str("k")))))),
			Obj("$match", Obj("reference", Str("ref-1"))),
		}).Clone()
	case "ListLedgers":
		return gen.Pick(r, []*JT{Obj("$match", Obj("bucket", Str("b1"))), Obj("$match", Obj("metadata[k]", Str("v")))}).Clone()
	case "GetAggregatedBalances":
		return gen.Pick(r, []*JT{Obj("$match", Obj("address", Str("users:"))), Obj("$match", Obj("metadata[k]", Str("v")))}).Clone()
	case "GetVolumesWithBalances":
		return gen.Pick(r, []*JT{Obj("$match", Obj("account", Str("users:"))), Obj("$gte", Obj("balance[USD/2]", IntLit("10")))}).Clone()
	default: // accounts
		return bodyFilter(r)
	}
}

func bodyLogs(r *rand.Rand) *JT { return nil } // built as raw text, see genBodyText

var routes []routeT

func init() {
	add := func(api, method, pattern string, rt routeT) {
		rt.API, rt.Method, rt.Pattern = api, method, pattern
		rt.ID = api + " " + method + " " + pattern
		routes = append(routes, rt)
	}
	writeErrs := cat(idemErrs, schemaErrs)
	createErrs := cat([]string{"ErrInsufficientFunds", "ErrInvalidVars", "ErrCompilationFailed", "ErrMetadataOverride", "ErrNoPostings", "ErrTransactionReferenceConflict"}, writeErrs)
	// ---- v2
	add("v2", "GET", "/_info", routeT{CtlMethod: "ListLedgers"})
	add("v2", "GET", "/", routeT{CtlMethod: "ListLedgers", List: true, Filter: true, Errs: listErrs, Query: []string{"includeDeleted"}})
	add("v2", "POST", "/{ledger}", routeT{CtlMethod: "CreateLedger", Body: func(r *rand.Rand) *JT {
		return Obj("bucket", Str("b1"), "metadata", Obj("k", Str("v")), "features", Obj("HASH_LOGS", Str("SYNC")))
	}, Errs: []string{"ErrLedgerAlreadyExists", "ErrInvalidLedgerName", "ErrInvalidBucketName", "ErrInvalidLedgerConfiguration", "ErrBucketOutdated", "ErrExperimentalFeaturesDisabled"}})
	add("v2", "GET", "/{ledger}", routeT{CtlMethod: "GetLedger", Errs: []string{"ErrNotFound"}})
	add("v2", "PUT", "/{ledger}/metadata", routeT{CtlMethod: "UpdateLedgerMetadata", Body: bodyMetadata, Errs: []string{"ErrNotFound"}})
	add("v2", "DELETE", "/{ledger}/metadata/{key}", routeT{CtlMethod: "DeleteLedgerMetadata", Errs: []string{"ErrNotFound"}})
	add("v2", "POST", "/{ledger}/_bulk", routeT{CtlMethod: "CreateTransaction", Body: bodyBulk, Query: []string{"atomic", "parallel", "continueOnFailure", "schemaVersion"}, Errs: cat(createErrs, []string{"MissingFundsErr", "ErrParsing", "ErrRuntime"})})
	add("v2", "GET", "/{ledger}/_info", routeT{CtlMethod: "GetMigrationsInfo"})
	add("v2", "GET", "/{ledger}/stats", routeT{CtlMethod: "GetStats"})
	add("v2", "POST", "/{ledger}/schemas/{version}", routeT{CtlMethod: "InsertSchema", Body: bodySchema, Errs: cat([]string{"ErrSchemaAlreadyExists", "ErrInvalidSchema"}, idemErrs)})
	add("v2", "GET", "/{ledger}/schemas/{version}", routeT{CtlMethod: "GetSchema", Errs: []string{"ErrNotFound"}})
	add("v2", "GET", "/{ledger}/schemas", routeT{CtlMethod: "ListSchemas", List: true, Errs: listErrs, Query: []string{"order"}})
	add("v2", "GET", "/_/exporters", routeT{CtlMethod: "ListExporters"})
	add("v2", "GET", "/_/exporters/{exporterID}", routeT{CtlMethod: "GetExporter", Errs: []string{"ErrExporterNotFound"}})
	add("v2", "PUT", "/_/exporters/{exporterID}", routeT{CtlMethod: "UpdateExporter", Body: func(r *rand.Rand) *JT { return Obj("driver", Str("http"), "config", Obj("url", Str("http://x"))) }, Errs: []string{"ErrInvalidDriverConfiguration", "ErrExporterNotFound"}})
	add("v2", "DELETE", "/_/exporters/{exporterID}", routeT{CtlMethod: "DeleteExporter", Errs: []string{"ErrExporterNotFound", "ErrExporterUsed"}})
	add("v2", "POST", "/_/exporters", routeT{CtlMethod: "CreateExporter", Body: func(r *rand.Rand) *JT { return Obj("driver", Str("http"), "config", Obj("url", Str("http://x"))) }, Errs: []string{"ErrInvalidDriverConfiguration"}})
	add("v2", "DELETE", "/_/buckets/{bucket}", routeT{CtlMethod: "DeleteBucket"})
	add("v2", "POST", "/_/buckets/{bucket}/restore", routeT{CtlMethod: "RestoreBucket"})
	add("v2", "GET", "/{ledger}/pipelines", routeT{CtlMethod: "ListPipelines"})
	add("v2", "POST", "/{ledger}/pipelines", routeT{CtlMethod: "CreatePipeline", Body: func(r *rand.Rand) *JT { return Obj("exporterID", Str("e1")) }, Errs: []string{"ErrExporterNotFound", "ErrPipelineAlreadyExists", "ErrInUsePipeline"}})
	add("v2", "GET", "/{ledger}/pipelines/{pipelineID}", routeT{CtlMethod: "GetPipeline", Errs: []string{"ErrPipelineNotFound"}})
	add("v2", "DELETE", "/{ledger}/pipelines/{pipelineID}", routeT{CtlMethod: "DeletePipeline", Errs: []string{"ErrPipelineNotFound", "ErrInUsePipeline"}})
	add("v2", "POST", "/{ledger}/pipelines/{pipelineID}/start", routeT{CtlMethod: "StartPipeline", Errs: []string{"ErrPipelineNotFound", "ErrAlreadyStarted", "ErrInUsePipeline"}})
	add("v2", "POST", "/{ledger}/pipelines/{pipelineID}/stop", routeT{CtlMethod: "StopPipeline", Errs: []string{"ErrPipelineNotFound", "ErrInUsePipeline"}})
	add("v2", "POST", "/{ledger}/pipelines/{pipelineID}/reset", routeT{CtlMethod: "ResetPipeline", Errs: []string{"ErrPipelineNotFound", "ErrInUsePipeline"}})
	add("v2", "GET", "/{ledger}/logs", routeT{CtlMethod: "ListLogs", List: true, Filter: true, Errs: listErrs})
	add("v2", "POST", "/{ledger}/logs/import", routeT{CtlMethod: "Import", Body: bodyLogs, Errs: []string{"ErrImport"}})
	add("v2", "POST", "/{ledger}/logs/export", routeT{CtlMethod: "Export"})
	add("v2", "GET", "/{ledger}/accounts", routeT{CtlMethod: "ListAccounts", List: true, Filter: true, Errs: listErrs})
	add("v2", "HEAD", "/{ledger}/accounts", routeT{CtlMethod: "CountAccounts", Filter: true, Errs: readErrs})
	add("v2", "GET", "/{ledger}/accounts/{address}", routeT{CtlMethod: "GetAccount", Query: []string{"pit", "expand"}, Errs: cat([]string{"ErrNotFound"}, readErrs)})
	add("v2", "POST", "/{ledger}/accounts/{address}/metadata", routeT{CtlMethod: "SaveAccountMetadata", Body: bodyMetadata, Query: []string{"dryRun", "schemaVersion"}, Errs: writeErrs})
	add("v2", "DELETE", "/{ledger}/accounts/{address}/metadata/{key}", routeT{CtlMethod: "DeleteAccountMetadata", Errs: cat([]string{"ErrNotFound"}, writeErrs)})
	add("v2", "GET", "/{ledger}/transactions", routeT{CtlMethod: "ListTransactions", List: true, Filter: true, Errs: listErrs, Query: []string{"order", "reverse"}})
	add("v2", "HEAD", "/{ledger}/transactions", routeT{CtlMethod: "CountTransactions", Filter: true, Errs: readErrs})
	add("v2", "POST", "/{ledger}/transactions", routeT{CtlMethod: "CreateTransaction", Body: bodyTx("v2"), Query: []string{"dryRun", "force", "schemaVersion"}, Errs: cat(createErrs, []string{"MissingFundsErr", "ErrParsing", "ErrRuntime"})})
	add("v2", "GET", "/{ledger}/transactions/{id}", routeT{CtlMethod: "GetTransaction", Query: []string{"pit", "expand"}, Errs: cat([]string{"ErrNotFound"}, readErrs)})
	add("v2", "POST", "/{ledger}/transactions/{id}/revert", routeT{CtlMethod: "RevertTransaction", Body: func(r *rand.Rand) *JT { return Obj("metadata", Obj("k", Str("v"))) }, Query: []string{"force", "atEffectiveDate", "dryRun"}, Errs: cat([]string{"ErrInsufficientFunds", "ErrAlreadyReverted", "ErrNotFound"}, writeErrs)})
	add("v2", "POST", "/{ledger}/transactions/{id}/metadata", routeT{CtlMethod: "SaveTransactionMetadata", Body: bodyMetadata, Errs: cat([]string{"ErrNotFound"}, writeErrs)})
	add("v2", "DELETE", "/{ledger}/transactions/{id}/metadata/{key}", routeT{CtlMethod: "DeleteTransactionMetadata", Errs: cat([]string{"ErrNotFound"}, writeErrs)})
	add("v2", "GET", "/{ledger}/aggregate/balances", routeT{CtlMethod: "GetAggregatedBalances", Filter: true, Query: []string{"pit", "useInsertionDate"}, Errs: readErrs})
	add("v2", "GET", "/{ledger}/volumes", routeT{CtlMethod: "GetVolumesWithBalances", List: true, Filter: true, Query: []string{"groupBy", "startTime", "endTime", "insertionDate"}, Errs: listErrs})
	add("v2", "POST", "/{ledger}/queries/{id}/run", routeT{CtlMethod: "RunQuery", Body: func(r *rand.Rand) *JT {
		return Obj("params", Obj("pageSize", IntLit("10"), "sort", Str("id:desc")), "vars", Obj("acc", Str("bank"), "min", IntLit("10")))
	}, Query: []string{"schemaVersion"}, Errs: cat([]string{"ErrQueryValidation", "ErrSchemaValidationError"}, listErrs)})
	// ---- v1
	add("v1", "GET", "/_info", routeT{CtlMethod: "ListLedgers"})
	add("v1", "GET", "/{ledger}/_info", routeT{CtlMethod: "GetMigrationsInfo"})
	add("v1", "GET", "/{ledger}/stats", routeT{CtlMethod: "GetStats"})
	add("v1", "GET", "/{ledger}/logs", routeT{CtlMethod: "ListLogs", List: true, Query: []string{"after", "start_time", "end_time"}, Errs: listErrs})
	add("v1", "GET", "/{ledger}/accounts", routeT{CtlMethod: "ListAccounts", List: true, Query: []string{"address", "balance", "balanceOperator", "metadata[k]"}, Errs: listErrs})
	add("v1", "HEAD", "/{ledger}/accounts", routeT{CtlMethod: "CountAccounts", Query: []string{"address", "balance", "balanceOperator", "metadata[k]"}, Errs: readErrs})
	add("v1", "GET", "/{ledger}/accounts/{address}", routeT{CtlMethod: "GetAccount", Errs: readErrs})
	add("v1", "POST", "/{ledger}/accounts/{address}/metadata", routeT{CtlMethod: "SaveAccountMetadata", Body: bodyMetadata, Errs: writeErrs})
	add("v1", "DELETE", "/{ledger}/accounts/{address}/metadata/{key}", routeT{CtlMethod: "DeleteAccountMetadata", Errs: cat([]string{"ErrNotFound"}, writeErrs)})
	add("v1", "GET", "/{ledger}/transactions", routeT{CtlMethod: "ListTransactions", List: true, Query: []string{"after", "startTime", "endTime", "reference", "source", "destination", "account", "metadata[k]"}, Errs: listErrs})
	add("v1", "HEAD", "/{ledger}/transactions", routeT{CtlMethod: "CountTransactions", Query: []string{"after", "startTime", "endTime", "reference", "account", "metadata[k]"}, Errs: readErrs})
	add("v1", "POST", "/{ledger}/transactions", routeT{CtlMethod: "CreateTransaction", Body: bodyTx("v1"), Query: []string{"preview"}, Errs: createErrs})
	add("v1", "POST", "/{ledger}/transactions/batch", routeT{Body: func(r *rand.Rand) *JT { return Obj("transactions", Arr()) }})
	add("v1", "GET", "/{ledger}/transactions/{id}", routeT{CtlMethod: "GetTransaction", Errs: cat([]string{"ErrNotFound"}, readErrs)})
	add("v1", "POST", "/{ledger}/transactions/{id}/revert", routeT{CtlMethod: "RevertTransaction", Query: []string{"disableChecks"}, Errs: cat([]string{"ErrInsufficientFunds", "ErrAlreadyReverted", "ErrNotFound"}, writeErrs)})
	add("v1", "POST", "/{ledger}/transactions/{id}/metadata", routeT{CtlMethod: "SaveTransactionMetadata", Body: bodyMetadata, Errs: cat([]string{"ErrNotFound"}, writeErrs)})
	add("v1", "DELETE", "/{ledger}/transactions/{id}/metadata/{key}", routeT{CtlMethod: "DeleteTransactionMetadata", Errs: cat([]string{"ErrNotFound"}, writeErrs)})
	add("v1", "GET", "/{ledger}/balances", routeT{CtlMethod: "ListAccounts", List: true, Query: []string{"address", "metadata[k]"}, Errs: listErrs})
	add("v1", "GET", "/{ledger}/aggregate/balances", routeT{CtlMethod: "GetAggregatedBalances", Query: []string{"address", "pit"}, Errs: readErrs})
}

var validParam = map[string][]string{
	"ledger": {"l1", "default", "my-ledger_2"}, "id": {"1", "42", "0"}, "address": {"bank", "users:001", "a:b:c"},
	"key": {"k1", "role"}, "version": {"v1", "v1.0.0"}, "exporterID": {"e1"}, "pipelineID": {"p1"}, "bucket": {"b1"},
}

// invalid path parameters, with whether they are certainly invalid (4xx expected)
var badParam = map[string][]string{
	"ledger":  {"_", "a b", "é", "%25zz", "l1%2Fx", strings.Repeat("x", 300), "..", "_info", "%00"},
	"id":      {"abc", "-1", "1.0", "18446744073709551616", "1e3", " 1", "0x1", "%25zz", "9223372036854775808", "+1", ""},
	"address": {"a b", "a::b", "a:", "%25zz", "é", "a%2Fb", "%", "world%00", strings.Repeat("a", 5000)},
	"key":     {"%25zz", "a%2Fb", "é", " "},
	"version": {"%25zz", "a b", "é"},
}

func fillPath(r *rand.Rand, pattern string, bad string) (string, bool) {
	certain := false
	var sb strings.Builder
	for _, part := range strings.Split(pattern, "/") {
		if part == "" {
			continue
		}
		sb.WriteByte('/')
		if strings.HasPrefix(part, "{") {
			name := strings.Trim(part, "{}")
			if name == bad && len(badParam[name]) > 0 {
				v := gen.Pick(r, badParam[name])
				if name == "id" && strings.Contains(pattern, "/transactions/") {
					_, e1 := strconv.ParseUint(v, 10, 64)
					_, e2 := strconv.ParseInt(v, 10, 64)
					if e1 != nil && e2 != nil && v != "" {
						certain = true // refused by ParseUint(…, 64) and by ParseInt(…, 64)
					}
				}
				sb.WriteString(v)
			} else {
				sb.WriteString(url.PathEscape(gen.Pick(r, validParam[name])))
			}
		} else {
			sb.WriteString(part)
		}
	}
	if sb.Len() == 0 {
		return "/", false
	}
	return sb.String(), certain
}

func validQueryValue(r *rand.Rand, k string) string {
	switch k {
	case "pit", "oot", "startTime", "endTime", "start_time", "end_time":
		return gen.Pick(r, []string{"2024-01-01T00:00:00Z", "2024-06-30T12:34:56.789Z", "2023-12-31T23:59:59+02:00"})
	case "dryRun", "force", "atEffectiveDate", "atomic", "parallel", "continueOnFailure", "includeDeleted", "reverse", "useInsertionDate", "insertionDate", "disableChecks":
		return gen.Pick(r, []string{"true", "false", "1", "TRUE", "yes"})
	case "preview":
		return gen.Pick(r, []string{"yes", "true", "1", "no"})
	case "groupBy":
		return gen.Pick(r, []string{"1", "2", "0"})
	case "order":
		return gen.Pick(r, []string{"effective", "asc", "desc"})
	case "expand":
		return gen.Pick(r, []string{"volumes", "effectiveVolumes", "volumes,effectiveVolumes"})
	case "after", "balance":
		return gen.Pick(r, []string{"10", "0", "100"})
	case "balanceOperator":
		return gen.Pick(r, []string{"e", "ne", "lt", "lte", "gt", "gte"})
	case "schemaVersion":
		return "v1"
	case "address", "account", "source", "destination":
		return gen.Pick(r, []string{"bank", "users:001", "users:"})
	default:
		return "v"
	}
}

// certainly-invalid values for a query parameter (the handler must answer 4xx)
func badQueryValue(r *rand.Rand, k string) (string, bool) {
	switch k {
	case "startTime", "endTime":
		// v2 volumes parses them; v1 hands them to the store as filter values
		return gen.Pick(r, []string{"yesterday", "2024-13-01T00:00:00Z", "2024-01-01"}), false
	case "pit", "oot":
		return gen.Pick(r, []string{"yesterday", "2024-13-01T00:00:00Z", "2024-01-01", "1704067200", "2024-01-01T00:00:00", "2024-02-30T00:00:00Z", "\x00", "2024-01-01T00:00:00Z;drop", "0000-00-00T00:00:00Z"}), true
	case "pageSize":
		return gen.Pick(r, []string{"abc", "-1", "1.5", "1e3", "18446744073709551616", "4294967296", " 10", "0x10", "10;"}), true
	case "groupBy":
		return gen.Pick(r, []string{"abc", "1.5", "9223372036854775808", "1e2"}), true
	case "balance":
		return gen.Pick(r, []string{"abc", "1.5", "9223372036854775808", "18446744073709551616"}), true
	case "balanceOperator":
		return gen.Pick(r, []string{"eq", "bad", "<", "$gt"}), false
	case "sort":
		return gen.Pick(r, []string{"id:sideways", "id:", ":", "id:asc:desc", "nonexistent", "nonexistent:asc"}), false
	case "after":
		return gen.Pick(r, []string{"abc", "-1", "1.5", "18446744073709551616"}), false
	case "start_time", "end_time":
		return gen.Pick(r, []string{"yesterday", "2024-13-01T00:00:00Z"}), false
	case "expand":
		return gen.Pick(r, []string{"nothing", ",", "volumes,,", "\x00"}), false
	default:
		return gen.Pick(r, []string{"", "\x00", "é", "%", strings.Repeat("x", 3000), "' OR 1=1 --", "{}", "[]", "null"}), false
	}
}

func b64(s string) string { return base64.RawURLEncoding.EncodeToString([]byte(s)) }

const validColumnCursor = `{"column":"id","order":1,"pageSize":15,"filters":{"pit":null,"oot":null,"qb":{},"expand":[],"opts":null},"bottom":null,"paginationID":10,"reverse":false}`
const validOffsetCursor = `{"column":"address","order":0,"pageSize":15,"filters":{"qb":{"$match":{"address":"bank"}},"opts":{}},"offset":15}`

// cursors: (value, certainly invalid)
func genCursor(r *rand.Rand) (string, bool, string) {
	switch r.Intn(14) {
	case 0:
		return b64(validColumnCursor), false, "valid-column"
	case 1:
		return b64(validOffsetCursor), false, "valid-offset"
	case 2:
		return gen.Pick(r, []string{"abc", "!!!", "====", "bnVsbA==", "é", "\x00", strings.Repeat("A", 10000)}), true, "not-base64"
	case 3:
		// valid base64 of something that is not a cursor object
		if r.Intn(3) == 0 {
			return b64("null"), true, "null"
		}
		return b64(gen.Pick(r, []string{"[]", "1", "\"x\"", "true", " ", "{", "{}x", "nul", "[null]"})), true, "not-an-object"
	case 4:
		return b64(gen.Pick(r, []string{"{}", `{"offset":null}`, `{"offset":0}`, `{"offset":"1"}`, `{"offset":-1}`, `{"offset":1.5}`, `{"offset":18446744073709551616}`, `{"offset":1e2}`})), false, "offset-confusion"
	case 5:
		// type confusion on one member of a valid cursor
		var m map[string]any
		src := validColumnCursor
		if r.Intn(2) == 0 {
			src = validOffsetCursor
		}
		_ = json.Unmarshal([]byte(src), &m)
		keys := make([]string, 0, len(m))
		for k := range m {
			keys = append(keys, k)
		}
		sort.Strings(keys)
		k := gen.Pick(r, keys)
		var v any
		_ = json.Unmarshal([]byte(GenAny(r, 2).Render()), &v)
		m[k] = v
		b, _ := json.Marshal(m)
		return b64(string(b)), false, "member-confusion"
	case 6:
		switch r.Intn(3) {
		case 0:
			return b64(`{"column":"id","pageSize":15,"filters":{}}`), false, "no-order"
		case 1:
			return b64(`{"column":"id","order":1,"pageSize":15,"filters":{},"paginationID":10}`), false, "no-bottom"
		}
		return b64(`{"column":"id","order":7,"pageSize":15,"filters":{},"paginationID":1,"bottom":1}`), false, "bad-order"
	case 7:
		return b64(`{"column":"id","pageSize":-5,"filters":{"qb":{"$bad":{"a":1}}}}`), true, "bad-filter"
	case 8:
		return b64(`{"column":"id","pageSize":15,"filters":{"pit":"garbage"}}`), true, "bad-pit"
	case 9:
		return b64(`{"column":"id; drop table x","order":1,"pageSize":99999999999,"filters":{"qb":{"$match":{"address":["a"]}}},"bottom":1e400}`), false, "foreign-column"
	case 10:
		return b64(`{"column":"id","pageSize":15,"filters":null,"paginationID":"12"}`), false, "null-filters"
	case 11:
		return b64(`{"column":"id","pageSize":15,"filters":{"expand":"volumes"}}`), true, "bad-expand"
	case 12:
		return base64.StdEncoding.EncodeToString([]byte(validColumnCursor)) + "==", true, "std-base64"
	default:
		raw := make([]byte, 1+r.Intn(40))
		r.Read(raw)
		return base64.RawURLEncoding.EncodeToString(raw), true, "random-bytes"
	}
}

// text-level damage to a JSON body
func damageText(r *rand.Rand, s string) string {
	switch r.Intn(12) {
	case 0:
		return ""
	case 1:
		if len(s) > 1 {
			return s[:r.Intn(len(s))]
		}
		return "{"
	case 2:
		return s + gen.Pick(r, []string{"}", "]", " garbage", "{}", "\x00"})
	case 3:
		return gen.Pick(r, []string{"null", "true", "42", "\"str\"", "[]", "{}", "[[]]", "nul", "{\"a\":}", "\xff\xfe", "\ufeff{}", "<xml/>", "a=b&c=d"})
	case 4:
		return strings.Repeat("[", 20000)
	case 5:
		return strings.Repeat("{\"a\":", 12000) + "1" + strings.Repeat("}", 12000)
	case 6:
		return strings.Replace(s, "\"", "'", -1)
	case 7:
		return strings.Replace(s, ":", "=", 1)
	case 8:
		return strings.Replace(s, ",", ",,", 1)
	case 9:
		b := []byte(s)
		if len(b) > 0 {
			b[r.Intn(len(b))] = byte(r.Intn(256))
		}
		return string(b)
	case 10:
		return "{\"a\":\"" + strings.Repeat("x", 200000) + "\"}"
	default:
		return s[:len(s)/2] + "\\u00" + s[len(s)/2:]
	}
}

// grammar-aware mutation of a body tree: type confusion / boundary value on one
// node, dropped / duplicated-by-case / extra member.
func mutateTree(r *rand.Rand, t *JT) (*JT, string) {
	t = t.Clone()
	type site struct {
		path    string
		node    *JT
		replace func(*JT)
	}
	var sites []site
	t.Walk(func(n *JT, path string, replace func(*JT)) { sites = append(sites, site{path, n, replace}) })
	s := sites[r.Intn(len(sites))]
	if s.path == "" && r.Intn(3) > 0 && len(sites) > 1 {
		s = sites[1+r.Intn(len(sites)-1)]
	}
	switch r.Intn(8) {
	case 0, 1, 2:
		// another JSON type at this position
		var nv *JT
		for i := 0; i < 5; i++ {
			nv = GenAny(r, 1)
			if nv.T != s.node.T {
				break
			}
		}
		if s.path == "" {
			return nv, "type:" + "/"
		}
		s.replace(nv)
		return t, "type:" + s.path
	case 3:
		// boundary value of the same type
		switch s.node.T {
		case "num":
			s.replace(GenNum(r))
		case "str":
			s.replace(GenStr(r))
		case "bool":
			s.replace(Bool(!s.node.B))
		case "arr":
			if len(s.node.A) > 0 && r.Intn(2) == 0 {
				s.node.A = append(s.node.A, s.node.A[0].Clone(), GenAny(r, 1))
			} else {
				s.node.A = nil
			}
		case "obj":
			s.node.K, s.node.A = nil, nil
		}
		return t, "value:" + s.path
	case 4:
		if s.node.T == "obj" && len(s.node.K) > 0 {
			i := r.Intn(len(s.node.K))
			k := s.node.K[i]
			s.node.Del(k)
			return t, "drop:" + s.path + "/" + k
		}
		s.replace(Null())
		return t, "null:" + s.path
	case 5:
		if s.node.T == "obj" && len(s.node.K) > 0 {
			i := r.Intn(len(s.node.K))
			s.node.K[i] = foldVariant(r, s.node.K[i])
			return t, "fold:" + s.path
		}
		s.replace(Null())
		return t, "null:" + s.path
	case 6:
		if s.node.T == "obj" {
			s.node.Set(gen.Pick(r, []string{"extra", "", "__proto__", "script", "postings", "vars", "data", "id"}), GenAny(r, 2))
			return t, "extra:" + s.path
		}
		s.replace(Null())
		return t, "null:" + s.path
	default:
		s.replace(Null())
		return t, "null:" + s.path
	}
}

func logsBody(r *rand.Rand, mode int) (string, string) {
	tx := `{"postings":[{"source":"world","destination":"bank","amount":100,"asset":"USD/2"}],"metadata":{},"timestamp":"2024-01-01T00:00:00Z","id":1,"insertedAt":"2024-01-01T00:00:00Z"}`
	l1 := `{"type":"NEW_TRANSACTION","data":{"transaction":` + tx + `,"accountMetadata":{}},"date":"2024-01-01T00:00:00Z","idempotencyKey":"","id":1,"hash":"AAAA"}`
	l2 := `{"type":"SET_METADATA","data":{"targetType":"ACCOUNT","targetId":"bank","metadata":{"k":"v"}},"date":"2024-01-01T00:00:01Z","idempotencyKey":"","id":2,"hash":"AAAA"}`
	l3 := `{"type":"DELETE_METADATA","data":{"targetType":"TRANSACTION","targetId":1,"key":"k"},"date":"2024-01-01T00:00:02Z","idempotencyKey":"","id":3,"hash":"AAAA"}`
	valid := l1 + "\n" + l2 + "\n" + l3 + "\n"
	switch mode {
	case 0:
		return valid, "valid"
	case 1:
		return gen.Pick(r, []string{"not json", "{", l1 + "\n{", l1 + "\ngarbage", "<xml/>", "\xff"}), "non-json"
	case 2:
		return strings.Replace(l1, "NEW_TRANSACTION", gen.Pick(r, []string{"UNKNOWN", "", "new_transaction", "NEW_TRANSACTION "}), 1), "unknown-type"
	case 3:
		return l1 + "\n" + strings.Replace(l2, "ACCOUNT", gen.Pick(r, []string{"LEDGER", "", "account ", "X"}), 1), "unknown-targetType"
	case 4:
		return strings.Replace(l3, "TRANSACTION", "LEDGER", 1), "unknown-targetType-delete"
	case 5:
		return gen.Pick(r, []string{`{"type":1}`, `{"type":null}`, `{"data":{}}`, `[]`, `null`, `{"type":"NEW_TRANSACTION"}`, `{"type":"NEW_TRANSACTION","data":null}`, `{"type":"SET_METADATA","data":{"targetType":"TRANSACTION","targetId":"x"}}`, `{"type":"SET_METADATA","data":{"targetType":"ACCOUNT","targetId":5}}`, `{"type":"NEW_TRANSACTION","data":[],"id":"1"}`, `{"type":"INSERTED_SCHEMA","data":{"schema":{"chart":{"$x":{}}}}}`, `{"type":"REVERTED_TRANSACTION","data":{"transaction":{"postings":[{"amount":"x"}]}}}`}), "type-confusion"
	default:
		return "", "empty"
	}
}

func genHTTP(c *gen.Ctx) httpIn {
	r := c.R
	rt := routes[r.Intn(len(routes))]
	in := httpIn{Route: rt.ID, Method: rt.Method, Headers: map[string]string{}}
	prefix := ""
	if rt.API == "v2" {
		prefix = "/v2"
	}
	q := url.Values{}
	for _, k := range rt.Query {
		if r.Intn(3) == 0 {
			q.Set(k, validQueryValue(r, k))
		}
	}
	if rt.List && r.Intn(3) == 0 {
		q.Set("pageSize", gen.Pick(r, []string{"1", "15", "100", "0", "5000"}))
	}
	var bodyTree *JT
	bodyText := ""
	if rt.Body != nil {
		bodyTree = rt.Body(r)
		if bodyTree != nil {
			bodyText = bodyTree.Render()
		}
	}
	if rt.CtlMethod == "Import" {
		bodyText, _ = logsBody(r, 0)
	}
	if rt.Filter && r.Intn(3) == 0 {
		f := filterFor(r, rt.CtlMethod)
		if r.Intn(2) == 0 {
			q.Set("query", f.Render())
		} else {
			bodyText = f.Render()
			bodyTree = f
		}
	}
	if q.Get("atomic") != "" && q.Get("parallel") != "" {
		q.Del("parallel") // atomic + parallel is refused (412)
	}
	in.Mut, in.Expect = "valid", "2xx"
	if rt.CtlMethod == "" {
		in.Expect = "" // POST /transactions/batch always answers 400 "not supported"
	}
	if q.Get("balance") != "" && q.Get("balanceOperator") == "" {
		// `balance` alone is rejected (the default operator "eq" is not in the accepted set)
		q.Set("balanceOperator", "gte")
	}
	badPath := ""
	cls := r.Intn(16)
	hasBody := bodyText != ""
	switch {
	case cls < 2:
		// unmodified
	case cls < 6 && hasBody && bodyTree != nil:
		nt, what := mutateTree(r, bodyTree)
		bodyText = nt.Render()
		in.Mut, in.Expect = "body:"+what, ""
	case cls < 8 && hasBody:
		if rt.CtlMethod == "Import" {
			var what string
			bodyText, what = logsBody(r, 1+r.Intn(6))
			in.Mut, in.Expect = "logs:"+what, ""
		} else {
			bodyText = damageText(r, bodyText)
			in.Mut, in.Expect = "body:text", ""
		}
	case cls < 10:
		// query parameter
		names := append([]string{}, rt.Query...)
		if rt.List {
			names = append(names, "pageSize", "cursor", "cursor", "sort")
		}
		if rt.Filter {
			names = append(names, "query", "pit", "oot", "expand")
		}
		if rt.API == "v1" && rt.CtlMethod != "" && (rt.Method == "GET" || rt.Method == "HEAD") && strings.Contains(rt.Pattern, "{ledger}/") &&
			!strings.HasSuffix(rt.Pattern, "/_info") && !strings.HasSuffix(rt.Pattern, "/stats") && !strings.Contains(rt.Pattern, "{address}") {
			names = append(names, "pit", "oot") // every v1 read goes through getResourceQuery (pit / oot dates)
		}
		names = append(names, "unknownParam")
		k := gen.Pick(r, names)
		switch k {
		case "cursor":
			v, certain, kind := genCursor(r)
			q.Set("cursor", v)
			in.Mut, in.Expect = "query:cursor:"+kind, ""
			if certain {
				in.Expect = "4xx"
			}
		case "query":
			nt, what := mutateTree(r, bodyFilter(r))
			v := nt.Render()
			if r.Intn(5) == 0 {
				v, what = `{"$match":{"metadata[":"v"}}`, "metadata-bracket"
			}
			if r.Intn(4) == 0 {
				v = damageText(r, v)
				what = "text"
			}
			q.Set("query", v)
			in.Mut, in.Expect = "query:filter:"+what, ""
		default:
			v, certain := badQueryValue(r, k)
			q.Set(k, v)
			in.Mut, in.Expect = "query:"+k, ""
			if certain {
				in.Expect = "4xx"
			}
		}
	case cls < 12:
		// path parameter
		var names []string
		for _, part := range strings.Split(rt.Pattern, "/") {
			if strings.HasPrefix(part, "{") {
				names = append(names, strings.Trim(part, "{}"))
			}
		}
		if len(names) > 0 {
			badPath = gen.Pick(r, names)
			in.Mut, in.Expect = "path:"+badPath, ""
		}
	case cls < 13:
		// headers
		switch r.Intn(5) {
		case 0:
			in.Headers["Content-Type"] = gen.Pick(r, []string{"text/plain", "application/json; charset=utf-8", "application/vnd.formance.ledger.api.v2.bulk+json-stream", "application/vnd.formance.ledger.api.v2.bulk+script-stream", ";", "application/json;", "APPLICATION/JSON", "\x00"})
		case 1:
			in.Headers["Idempotency-Key"] = gen.Pick(r, []string{"", "ik", strings.Repeat("k", 300), "é", "a\tb"})
		case 2:
			in.NoLength = true
		case 3:
			in.Headers["Accept"] = gen.Pick(r, []string{"text/html", "*/*", "application/xml"})
		default:
			in.Headers["Authorization"] = "Bearer garbage"
		}
		in.Mut, in.Expect = "header", ""
	case cls < 15:
		// typed client error answered by the controller
		if len(rt.Errs) > 0 {
			e := gen.Pick(r, rt.Errs)
			in.Inject = map[string]string{rt.CtlMethod: e}
			if rt.Pattern == "/{ledger}/_bulk" {
				m := gen.Pick(r, []string{"CreateTransaction", "SaveAccountMetadata", "SaveTransactionMetadata", "RevertTransaction", "DeleteAccountMetadata"})
				in.Inject = map[string]string{m: e}
			}
			in.Mut, in.Expect = "inject:"+e, "4xx"
			if rt.Pattern == "/{ledger}/_bulk" {
				in.Expect = "" // the element that would hit the method may be absent
			}
		}
	default:
		if r.Intn(2) == 0 {
			in.MissingLedger = true
			in.Mut, in.Expect = "env:missing-ledger", ""
		} else {
			in.Outdated = true
			in.Mut, in.Expect = "env:outdated", ""
		}
	}
	path, certain := fillPath(r, rt.Pattern, badPath)
	if certain && in.Expect == "" {
		in.Expect = "4xx"
	}
	in.Path = prefix + path
	if rt.Pattern == "/" {
		in.Path = prefix + "/"
	}
	in.Query = q.Encode()
	if strings.ToValidUTF8(bodyText, "") == bodyText {
		in.Body = bodyText
	} else {
		in.BodyB64 = base64.StdEncoding.EncodeToString([]byte(bodyText))
	}
	if len(in.Headers) == 0 {
		in.Headers = nil
	}
	return in
}

func init() {
	gen.Register("http", func(c *gen.Ctx) error {
		if c.Replay != "" {
			ins, err := c.ReplayInputs("http")
			if err != nil {
				return err
			}
			for _, raw := range ins {
				var in httpIn
				if err := json.Unmarshal(raw, &in); err != nil {
					return err
				}
				if err := c.Emit("http", in, runHTTP(in)); err != nil {
					return err
				}
			}
			return nil
		}
		// every route once unmodified, then every (route, typed error) pair, then random
		for _, rt := range routes {
			sub := &gen.Ctx{R: c.R}
			for tries := 0; tries < 200; tries++ {
				in := genHTTP(sub)
				if in.Route == rt.ID && in.Mut == "valid" {
					if err := c.Emit("http", in, runHTTP(in)); err != nil {
						return err
					}
					break
				}
			}
		}
		for i := 0; i < c.N; i++ {
			in := genHTTP(c)
			if err := c.Emit("http", in, runHTTP(in)); err != nil {
				return err
			}
		}
		return nil
	})
}

var _ = fmt.Sprint
