//go:build verif

package wlapi

import (
	"encoding/json"
	"math/rand"
	"net/url"

	libtime "github.com/formancehq/go-libs/v5/pkg/types/time"

	"github.com/formancehq/ledger/internal/verif/gen"
)

// Workload "txbody" (C38 predicate) / "txbody36" (C36 predicate): bodies of the
// write endpoints through the REAL handlers (router → decoder → validation) over
// the fake controller; output = status, error code and the exact calls the
// controller received.

type txbodyIn struct {
	// createV1 | createV2 | bulk | revertV2 | metaV1 | metaV2
	Kind string `json:"kind"`
	Body *JT    `json:"body"` // nil = empty body
	// Force: `?force=true` (createV2)
	Force bool `json:"force,omitempty"`
	// DryRun: raw value of `?dryRun=` (v2) / `?preview=` (v1); SchemaVersion: `?schemaVersion=` (v2);
	// IK: Idempotency-Key header ("" = absent)
	DryRun        string `json:"dryRun,omitempty"`
	SchemaVersion string `json:"schemaVersion,omitempty"`
	IK            string `json:"ik,omitempty"`
	// Times: every string of the body → go-libs time.ParseTime result ("" = error);
	// the calendar parser is executed, not modelled.
	Times map[string]string `json:"times"`
}

type txbodyOut struct {
	Status    int    `json:"status"`
	ErrorCode string `json:"errorCode"`
	Panic     bool   `json:"panic"`
	Calls     []Call `json:"calls"`
}

func collectStrings(t *JT, acc map[string]string) {
	if t == nil {
		return
	}
	if t.T == "str" {
		if _, ok := acc[t.S]; !ok {
			if tm, err := libtime.ParseTime(t.S); err == nil {
				acc[t.S] = tsString(tm)
				if acc[t.S] == "" {
					acc[t.S] = "0001-01-01T00:00:00Z"
				}
			} else {
				acc[t.S] = ""
			}
		}
	}
	for _, c := range t.A {
		collectStrings(c, acc)
	}
}

func runTxbody(in txbodyIn) txbodyOut {
	h := httpIn{Method: "POST", Mut: "txbody"}
	switch in.Kind {
	case "createV1":
		h.Path = "/l1/transactions"
	case "createV2":
		h.Path = "/v2/l1/transactions"
		if in.Force {
			h.Query = "force=true"
		}
	case "bulk":
		h.Path = "/v2/l1/_bulk"
	case "revertV2":
		h.Path = "/v2/l1/transactions/7/revert"
	case "metaV1":
		h.Path = "/l1/accounts/users:001/metadata"
	default:
		h.Path = "/v2/l1/accounts/users:001/metadata"
	}
	if in.Body != nil {
		h.Body = in.Body.Render()
	}
	q := url.Values{}
	if h.Query != "" {
		q.Set("force", "true")
	}
	isV1 := in.Kind == "createV1" || in.Kind == "metaV1"
	if in.DryRun != "" {
		if isV1 {
			q.Set("preview", in.DryRun)
		} else {
			q.Set("dryRun", in.DryRun)
		}
	}
	if in.SchemaVersion != "" && !isV1 {
		q.Set("schemaVersion", in.SchemaVersion)
	}
	h.Query = q.Encode()
	if in.IK != "" {
		h.Headers = map[string]string{"Idempotency-Key": in.IK}
	}
	out, fake := runHTTPFake(h)
	res := txbodyOut{Status: out.Status, ErrorCode: out.ErrorCode, Panic: out.Panic != "" || (out.Status >= 500 && out.BodyLen == 0)}
	fake.mu.Lock()
	defer fake.mu.Unlock()
	for _, c := range fake.Calls {
		switch c.Method {
		case "CreateTransaction", "RevertTransaction", "SaveTransactionMetadata", "SaveAccountMetadata", "DeleteTransactionMetadata", "DeleteAccountMetadata":
			res.Calls = append(res.Calls, c)
		}
	}
	if res.Calls == nil {
		res.Calls = []Call{}
	}
	return res
}

var tsPool = []string{"2024-01-01T00:00:00Z", "2024-06-30T12:34:56.789012345Z", "2023-12-31T23:59:59+02:00", "2024-02-29T10:00:00.5Z",
	"2024-13-01T00:00:00Z", "yesterday", "", "2024-01-01", "1704067200", "2024-01-01T00:00:00", "0001-01-01T00:00:00Z", "9999-12-31T23:59:59.999999999Z"}

func genPosting(r *rand.Rand) *JT {
	acc := []string{"world", "bank", "users:001", "a:b:c", "-", "_x", "a:", "a b", "", "é"}
	assets := []string{"USD", "USD/2", "EUR", "COIN", "usd", "A/B", "", "USD_X/3"}
	var amt *JT
	switch r.Intn(6) {
	case 0:
		amt = GenNum(r)
	case 1:
		amt = Str(gen.BigAmount(r).String())
	default:
		amt = IntLit(gen.BigAmount(r).String())
	}
	src, dst, as := "world", "bank", "USD/2"
	if r.Intn(3) == 0 {
		src = gen.Pick(r, acc)
	}
	if r.Intn(3) == 0 {
		dst = gen.Pick(r, acc)
	}
	if r.Intn(4) == 0 {
		as = gen.Pick(r, assets)
	}
	p := Obj("source", Str(src), "destination", Str(dst), "amount", amt, "asset", Str(as))
	if r.Intn(12) == 0 {
		p.Del(gen.Pick(r, []string{"source", "destination", "amount", "asset"}))
	}
	return p
}

func genTxBody(r *rand.Rand, api string) *JT {
	o := Obj()
	mode := r.Intn(10)
	if mode < 5 || mode == 9 {
		n := 1 + r.Intn(4)
		a := &JT{T: "arr"}
		for i := 0; i < n; i++ {
			a.A = append(a.A, genPosting(r))
		}
		if r.Intn(8) == 0 && len(a.A) > 1 {
			a.A[1] = a.A[0].Clone() // repeated posting: shared variables
		}
		o.Set("postings", a)
	}
	if mode >= 5 {
		sc := Obj("plain", Str("vars {\n account $dst\n monetary $amt\n}\nsend $amt (\n source = @world\n destination = $dst\n)"))
		if r.Intn(6) == 0 {
			sc.Set("plain", Str(""))
		}
		if api == "v2" && r.Intn(6) == 0 {
			sc.Set("template", Str("tpl1"))
			if r.Intn(2) == 0 {
				sc.Del("plain")
			}
		}
		in := genVarsIn(&gen.Ctx{R: r})
		if in.Vars != nil {
			sc.Set("vars", in.Vars)
		}
		o.Set("script", sc)
	}
	if r.Intn(2) == 0 {
		o.Set("timestamp", Str(gen.Pick(r, tsPool)))
	}
	if r.Intn(2) == 0 {
		o.Set("reference", GenStr(r))
	}
	if r.Intn(2) == 0 {
		o.Set("metadata", Obj("k", Str("v"), "role", GenStr(r)))
	}
	if api == "v2" {
		if r.Intn(4) == 0 {
			o.Set("accountMetadata", Obj("bank", Obj("k", Str("v")), "users:001", Obj()))
		}
		if r.Intn(4) == 0 {
			o.Set("runtime", Str(gen.Pick(r, []string{"machine", "experimental-interpreter", "", "other"})))
		}
		if r.Intn(4) == 0 {
			o.Set("force", Bool(r.Intn(2) == 0))
		}
	}
	return o
}

func genBulkBody(r *rand.Rand) *JT {
	n := r.Intn(5)
	a := &JT{T: "arr"}
	for i := 0; i < n; i++ {
		var el *JT
		switch r.Intn(6) {
		case 0, 1:
			el = Obj("action", Str("CREATE_TRANSACTION"), "ik", GenStr(r), "data", genTxBody(r, "v2"))
		case 2:
			el = Obj("action", Str("ADD_METADATA"), "data", Obj("targetType", Str(gen.Pick(r, []string{"ACCOUNT", "TRANSACTION", "account", "LEDGER", ""})),
				"targetId", gen.Pick(r, []*JT{Str("bank"), IntLit("1"), IntLit("18446744073709551616"), Null(), Str("1")}), "metadata", Obj("k", Str("v"))))
		case 3:
			el = Obj("action", Str("REVERT_TRANSACTION"), "data", Obj("id", gen.Pick(r, []*JT{IntLit("1"), IntLit("18446744073709551615"), IntLit("18446744073709551616"), IntLit("-1"), Str("1"), NumLit(JNum{Int: "1", Frac: "0"})}),
				"force", Bool(r.Intn(2) == 0), "atEffectiveDate", Bool(r.Intn(2) == 0), "metadata", Obj("k", Str("v"))))
		case 4:
			el = Obj("action", Str("DELETE_METADATA"), "data", Obj("targetType", Str(gen.Pick(r, []string{"ACCOUNT", "TRANSACTION", "X"})),
				"targetId", gen.Pick(r, []*JT{Str("bank"), IntLit("1"), Null()}), "key", GenStr(r)))
		default:
			el = Obj("action", Str(gen.Pick(r, []string{"UNKNOWN", "", "create_transaction"})), "data", Obj())
		}
		if r.Intn(10) == 0 {
			el.Del(gen.Pick(r, []string{"action", "data", "ik"}))
		}
		a.A = append(a.A, el)
	}
	return a
}

func genTxbodyIn(c *gen.Ctx) txbodyIn {
	r := c.R
	in := txbodyIn{Kind: gen.Pick(r, []string{"createV1", "createV1", "createV2", "createV2", "createV2", "bulk", "bulk", "revertV2", "metaV1", "metaV2"})}
	switch in.Kind {
	case "createV1":
		in.Body = genTxBody(r, "v1")
	case "createV2":
		in.Body = genTxBody(r, "v2")
		in.Force = r.Intn(4) == 0
	case "bulk":
		in.Body = genBulkBody(r)
	case "revertV2":
		switch r.Intn(4) {
		case 0:
			in.Body = nil
		default:
			in.Body = Obj("metadata", Obj("k", Str("v"), "r", GenStr(r)))
		}
	default:
		in.Body = Obj("k1", Str("v1"), "role", GenStr(r))
	}
	// grammar-aware mutation on ~half of the cases
	if in.Body != nil && r.Intn(2) == 0 {
		in.Body, _ = mutateTree(r, in.Body)
		if r.Intn(3) == 0 {
			in.Body, _ = mutateTree(r, in.Body)
		}
	}
	if r.Intn(3) == 0 {
		in.DryRun = gen.Pick(r, []string{"true", "TRUE", "1", "yes", "YES", "false", "0", "no"})
	}
	if r.Intn(3) == 0 {
		in.SchemaVersion = gen.Pick(r, []string{"v1", "v2"})
	}
	if r.Intn(3) == 0 {
		in.IK = gen.Pick(r, []string{"ik-1", "ík-3", "ik\"2"})
	}
	in.Times = map[string]string{}
	collectStrings(in.Body, in.Times)
	return in
}

func init() {
	for _, name := range []string{"txbody", "txbody36", "txbody14"} {
		name := name
		gen.Register(name, func(c *gen.Ctx) error {
			if c.Replay != "" {
				ins, err := c.ReplayInputs(name)
				if err != nil {
					return err
				}
				for _, raw := range ins {
					var in txbodyIn
					if err := json.Unmarshal(raw, &in); err != nil {
						return err
					}
					if err := c.Emit(name, in, runTxbody(in)); err != nil {
						return err
					}
				}
				return nil
			}
			for i := 0; i < c.N; i++ {
				in := genTxbodyIn(c)
				if err := c.Emit(name, in, runTxbody(in)); err != nil {
					return err
				}
			}
			return nil
		})
	}
}
