//go:build verif

package wlinterp

import (
	"fmt"
	"math/rand"

	"github.com/formancehq/ledger/internal/verif/gen"
	m "github.com/formancehq/ledger/internal/verif/wlmachine"
)

// Generator of well-typed programs of the shared language, by level:
//
//	1 = F1: plain / max / in-order sources and destinations, bounded and unbounded
//	    overdraft, @world, send [A *], several statements, set_tx_meta /
//	    set_account_meta, variables (plain, meta(), balance());
//	2 = F2: F1 + allotment sources and destinations (literal portions, remaining);
//	3 = full: F2 + kept, save, portion variables (the constructs where the two
//	    runtimes are known to diverge).
//
// Unlike wlmachine.GenProgram (mostly a compiler fuzzer) almost every program
// compiles on both sides and most sends are funded, so the funds queue / funding
// machinery is what gets exercised.  The same account is deliberately reused
// inside one source (through `max`, through variables holding the same account,
// with different overdraft bounds) and across statements.

var accPool = []string{"a", "b", "c", "d", "users:001", "bank"}
var assetPool = []string{"USD/2", "COIN", "EUR"}

type fgen struct {
	r     *rand.Rand
	level int
	wide  bool
	sc    m.Script
	env   m.RunEnv
	asset string
	// names of declared variables by type
	accVars []string
	monVars []string
	porVars []string
	nvar    int
}

func (g *fgen) fresh(p string) string {
	g.nvar++
	return fmt.Sprintf("%s%d", p, g.nvar)
}

func (g *fgen) small() int {
	switch g.r.Intn(10) {
	case 0:
		return 0
	case 1:
		return g.r.Intn(4)
	default:
		return g.r.Intn(150)
	}
}

func (g *fgen) amount() string {
	if g.r.Intn(14) == 0 {
		return gen.BigAmount(g.r).String()
	}
	return fmt.Sprint(g.small())
}

func assetE(a string) *m.Expr { return &m.Expr{K: "asset", S: a} }

// mon: a monetary expression in the statement's asset (literal, variable, sum).
func (g *fgen) mon() *m.Expr {
	lit := func() *m.Expr { return &m.Expr{K: "mon", A: assetE(g.asset), N: g.amount()} }
	switch k := g.r.Intn(12); {
	case k == 0:
		// monetary variable in this asset
		name := g.fresh("m")
		g.sc.Vars = append(g.sc.Vars, m.VarDecl{Ty: "monetary", Name: name})
		g.env.Vars[name] = g.asset + " " + g.amount()
		g.monVars = append(g.monVars, name)
		return &m.Expr{K: "var", S: name}
	case k == 1:
		return &m.Expr{K: "add", L: lit(), R: lit()}
	default:
		return lit()
	}
}

// acct: an account expression; sometimes a variable (plain or meta()) that may
// hold the same account as a literal used elsewhere.
func (g *fgen) acct() *m.Expr {
	switch k := g.r.Intn(10); {
	case k == 0 && len(g.accVars) > 0:
		return &m.Expr{K: "var", S: gen.Pick(g.r, g.accVars)}
	case k == 1:
		name := g.fresh("acc")
		val := gen.Pick(g.r, accPool)
		if g.r.Intn(2) == 0 {
			g.sc.Vars = append(g.sc.Vars, m.VarDecl{Ty: "account", Name: name})
			g.env.Vars[name] = val
		} else {
			holder := gen.Pick(g.r, accPool)
			key := "p" + name
			g.sc.Vars = append(g.sc.Vars, m.VarDecl{Ty: "account", Name: name,
				Orig: &m.Origin{K: "meta", Acc: m.Expr{K: "acct", S: holder}, Key: key}})
			if g.env.Meta[holder] == nil {
				g.env.Meta[holder] = map[string]string{}
			}
			g.env.Meta[holder][key] = val
		}
		g.accVars = append(g.accVars, name)
		return &m.Expr{K: "var", S: name}
	default:
		return &m.Expr{K: "acct", S: gen.Pick(g.r, accPool)}
	}
}

// leaf: an account source.  `unbOK`: an unbounded source may stand here.
func (g *fgen) leaf(unbOK bool, used map[string]bool) m.Source {
	if unbOK && g.r.Intn(7) == 0 {
		return m.Source{K: "acct", E: &m.Expr{K: "acct", S: "world"}}
	}
	var e *m.Expr
	for try := 0; ; try++ {
		e = g.acct()
		key := e.K + ":" + e.S
		if !used[key] || try > 6 {
			if used[key] {
				e = &m.Expr{K: "acct", S: fmt.Sprintf("n%d", g.r.Intn(1000))}
				key = e.K + ":" + e.S
			}
			used[key] = true
			break
		}
	}
	s := m.Source{K: "acct", E: e}
	switch o := g.r.Intn(10); {
	case o < 6:
	case o < 8:
		s.Od = &m.Overdraft{K: "upto", E: g.mon()}
	default:
		if unbOK {
			s.Od = &m.Overdraft{K: "unbounded"}
		}
	}
	return s
}

func (g *fgen) source(depth int, unbOK bool, used map[string]bool) m.Source {
	k := g.r.Intn(10)
	if depth <= 0 {
		k = 0
	}
	switch {
	case k < 5:
		return g.leaf(unbOK, used)
	case k < 7:
		// `max … from` opens a new scope: the same account may reappear
		sub := g.source(depth-1, true, map[string]bool{})
		return m.Source{K: "max", E: g.mon(), S: &sub}
	default:
		n := 1 + g.r.Intn(3)
		s := m.Source{K: "inorder"}
		for i := 0; i < n; i++ {
			s.Ss = append(s.Ss, g.source(depth-1, unbOK && i == n-1, used))
		}
		return s
	}
}

// portions: n portions summing to one, or under one with a `remaining`.
func (g *fgen) portions(n int) []m.Portion {
	ps := make([]m.Portion, 0, n+1)
	if g.r.Intn(2) == 0 || n == 1 {
		d := int64(gen.Pick(g.r, []int{2, 3, 4, 5, 7, 8, 10, 100}))
		if d < int64(n) {
			d = int64(n)
		}
		left := d
		for i := 0; i < n; i++ {
			x := left
			if i < n-1 {
				x = g.r.Int63n(left/int64(n-i) + 1)
			}
			left -= x
			if d == 100 && g.r.Intn(2) == 0 {
				ps = append(ps, m.Portion{K: "lit", S: fmt.Sprintf("%d%%", x)})
			} else {
				ps = append(ps, m.Portion{K: "lit", S: fmt.Sprintf("%d/%d", x, d)})
			}
		}
		return ps
	}
	// under one + remaining (+ portion variables at level 3)
	sum := 0 // in 120ths
	for i := 0; i < n; i++ {
		if g.level >= 3 && g.r.Intn(4) == 0 {
			name := g.fresh("por")
			g.sc.Vars = append(g.sc.Vars, m.VarDecl{Ty: "portion", Name: name})
			g.env.Vars[name] = gen.Pick(g.r, []string{"1/2", "1/3", "25%", "10%", "0%", "3/4"})
			g.porVars = append(g.porVars, name)
			ps = append(ps, m.Portion{K: "var", S: name})
			continue
		}
		c := gen.Pick(g.r, []struct {
			s string
			v int
		}{{"1/2", 60}, {"1/3", 40}, {"1/4", 30}, {"25%", 30}, {"10%", 12}, {"12.5%", 15}, {"1/8", 15}, {"0/3", 0}, {"1/120", 1}})
		if sum+c.v >= 120 {
			c.s, c.v = "0%", 0
		}
		sum += c.v
		ps = append(ps, m.Portion{K: "lit", S: c.s})
	}
	pos := g.r.Intn(len(ps) + 1)
	ps = append(ps[:pos], append([]m.Portion{{K: "remaining"}}, ps[pos:]...)...)
	return ps
}

func (g *fgen) vsource(all bool) m.VSource {
	depth := g.r.Intn(3)
	if g.wide {
		depth = g.r.Intn(4)
	}
	if !all && g.level >= 2 && g.r.Intn(4) == 0 {
		n := 1 + g.r.Intn(3)
		v := m.VSource{K: "allot"}
		for _, p := range g.portions(n) {
			v.Items = append(v.Items, m.AllotSrcItem{P: p, S: g.source(depth-1, true, map[string]bool{})})
		}
		return v
	}
	s := g.source(depth, !all, map[string]bool{})
	return m.VSource{K: "src", S: &s}
}

func (g *fgen) kd(depth int) m.KD {
	if g.level >= 3 && g.r.Intn(6) == 0 {
		return m.KD{K: "kept"}
	}
	d := g.dest(depth)
	return m.KD{K: "to", D: &d}
}

func (g *fgen) dest(depth int) m.Dest {
	k := g.r.Intn(10)
	if depth <= 0 {
		k = 0
	}
	switch {
	case k < 5:
		e := g.acct()
		if g.r.Intn(12) == 0 {
			e = &m.Expr{K: "acct", S: "world"}
		}
		return m.Dest{K: "acct", E: e}
	case k < 8 || g.level < 2:
		n := 1 + g.r.Intn(3)
		d := m.Dest{K: "inorder"}
		for i := 0; i < n; i++ {
			d.Items = append(d.Items, m.InOrderDstItem{E: *g.mon(), D: g.kd(depth - 1)})
		}
		rem := g.kd(depth - 1)
		d.Rem = &rem
		return d
	default:
		n := 1 + g.r.Intn(3)
		d := m.Dest{K: "allot"}
		for _, p := range g.portions(n) {
			d.Allot = append(d.Allot, m.AllotDstItem{P: p, D: g.kd(depth - 1)})
		}
		return d
	}
}

func (g *fgen) metaValue() *m.Expr {
	switch g.r.Intn(9) {
	case 0:
		return &m.Expr{K: "str", S: gen.Pick(g.r, []string{"", "hello", "with space", "ünï", "100%"})}
	case 1:
		return &m.Expr{K: "num", S: g.amount()}
	case 2:
		return g.mon()
	case 3:
		return &m.Expr{K: "acct", S: gen.Pick(g.r, accPool)}
	case 4:
		return assetE(g.asset)
	case 5:
		return &m.Expr{K: "portion", S: gen.Pick(g.r, []string{"1/2", "25%", "2/6", "12.50%", "0/7", "100%", "3 / 4"})}
	case 6:
		name := g.fresh("s")
		g.sc.Vars = append(g.sc.Vars, m.VarDecl{Ty: "string", Name: name})
		g.env.Vars[name] = gen.Pick(g.r, []string{"v", "", "héllo", "a b"})
		return &m.Expr{K: "var", S: name}
	case 7:
		name := g.fresh("n")
		g.sc.Vars = append(g.sc.Vars, m.VarDecl{Ty: "number", Name: name})
		v := gen.BigAmount(g.r).String()
		if g.r.Intn(4) == 0 && v != "0" {
			v = "-" + v
		}
		g.env.Vars[name] = v
		if g.r.Intn(2) == 0 {
			return &m.Expr{K: "sub", L: &m.Expr{K: "var", S: name}, R: &m.Expr{K: "num", S: fmt.Sprint(g.r.Intn(50))}}
		}
		return &m.Expr{K: "var", S: name}
	default:
		if len(g.monVars) > 0 {
			return &m.Expr{K: "var", S: gen.Pick(g.r, g.monVars)}
		}
		return &m.Expr{K: "num", S: "7"}
	}
}

func (g *fgen) stmt() m.Stmt {
	if g.r.Intn(6) == 0 {
		g.asset = gen.Pick(g.r, assetPool)
	}
	ddepth := g.r.Intn(3)
	switch k := g.r.Intn(100); {
	case k < 55:
		src := g.vsource(false)
		dst := g.dest(ddepth)
		e := g.mon()
		if g.r.Intn(10) == 0 {
			// the whole balance of an account, through a balance() variable
			acc := gen.Pick(g.r, accPool)
			name := g.fresh("bal")
			g.sc.Vars = append(g.sc.Vars, m.VarDecl{Ty: "monetary", Name: name,
				Orig: &m.Origin{K: "balance", Acc: m.Expr{K: "acct", S: acc}, Asset: assetE(g.asset)}})
			g.monVars = append(g.monVars, name)
			e = &m.Expr{K: "var", S: name}
		}
		return m.Stmt{K: "send", E: e, Src: &src, Dst: &dst}
	case k < 68:
		src := g.vsource(true)
		dst := g.dest(ddepth)
		return m.Stmt{K: "sendall", E: assetE(g.asset), Src: &src, Dst: &dst}
	case k < 80:
		return m.Stmt{K: "txmeta", Key: gen.Pick(g.r, []string{"k", "key two", "ref"}), E: g.metaValue()}
	case k < 90:
		return m.Stmt{K: "accmeta", Acc: g.acct(), Key: gen.Pick(g.r, []string{"k", "a_b"}), E: g.metaValue()}
	default:
		if g.level >= 3 {
			if g.r.Intn(3) == 0 {
				return m.Stmt{K: "saveall", E: assetE(g.asset), Acc: g.acct()}
			}
			return m.Stmt{K: "save", E: &m.Expr{K: "mon", A: assetE(g.asset), N: g.amount()}, Acc: g.acct()}
		}
		src := g.vsource(false)
		dst := g.dest(ddepth)
		return m.Stmt{K: "send", E: g.mon(), Src: &src, Dst: &dst}
	}
}

// GenLevel draws a program of the given level and its environment.
func GenLevel(r *rand.Rand, level int, wide bool) (m.Script, m.RunEnv) {
	g := &fgen{r: r, level: level, wide: wide, asset: gen.Pick(r, assetPool)}
	g.env = m.RunEnv{Vars: map[string]string{}, Balances: map[string]map[string]string{}, Meta: map[string]map[string]string{}}
	for _, a := range accPool {
		if r.Intn(10) > 0 {
			g.env.Meta[a] = map[string]string{}
		}
	}
	g.env.Meta["world"] = map[string]string{}
	n := 1 + r.Intn(3)
	if wide || r.Intn(5) == 0 {
		n = 1 + r.Intn(6)
	}
	for i := 0; i < n; i++ {
		g.sc.Stmts = append(g.sc.Stmts, g.stmt())
	}
	for _, a := range accPool {
		for _, as := range assetPool {
			var v string
			switch r.Intn(12) {
			case 0:
				continue
			case 1:
				v = "0"
			case 2:
				v = "-" + fmt.Sprint(1+r.Intn(50))
			case 3:
				v = gen.BigAmount(r).String()
			default:
				v = fmt.Sprint(r.Intn(300))
			}
			if g.env.Balances[a] == nil {
				g.env.Balances[a] = map[string]string{}
			}
			g.env.Balances[a][as] = v
		}
	}
	// a balance() variable on a negative balance is refused by both runtimes: keep most of them usable
	for _, v := range g.sc.Vars {
		if v.Orig != nil && v.Orig.K == "balance" && r.Intn(5) > 0 {
			b := g.env.Balances[v.Orig.Acc.S][v.Orig.Asset.S]
			if len(b) > 0 && b[0] == '-' {
				g.env.Balances[v.Orig.Acc.S][v.Orig.Asset.S] = b[1:]
			}
		}
	}
	// deliberately failing stream: a missing / malformed variable
	if r.Intn(25) == 0 && len(g.sc.Vars) > 0 {
		for _, v := range g.sc.Vars { // slice order: deterministic
			if v.Orig == nil {
				if r.Intn(2) == 0 {
					delete(g.env.Vars, v.Name)
				} else {
					g.env.Vars[v.Name] = "!!bad!!"
				}
				break
			}
		}
	}
	return g.sc, g.env
}
