//go:build verif

package wlinterp

import (
	"encoding/json"
	"fmt"
	"math/rand"
	"time"

	"github.com/formancehq/ledger/internal/verif/gen"
	m "github.com/formancehq/ledger/internal/verif/wlmachine"
)

// In is one case: the program (AST + text) and everything both runtimes need.
type In struct {
	Script m.Script `json:"script"`
	Src    string   `json:"src"`
	m.RunEnv
	// Gen: which generator produced the case (f1 | f2 | full | fuzz | edge:<class>)
	Gen string `json:"gen"`
}

// Out: what the two REAL runtimes returned.
type Out struct {
	Interp  InterpOut `json:"interp"`
	Machine m.RunOut  `json:"machine"`
}

const caseTimeout = 10 * time.Second

func runBoth(in In) Out {
	return Out{
		Interp:  RunInterpReal(in.Src, in.RunEnv, caseTimeout),
		Machine: m.RunReal(in.Src, in.RunEnv, false, caseTimeout),
	}
}

func replay(c *gen.Ctx, names ...string) error {
	for _, f := range names {
		ins, err := c.ReplayInputs(f)
		if err != nil {
			return err
		}
		for _, raw := range ins {
			var in In
			if err := json.Unmarshal(raw, &in); err != nil {
				return err
			}
			if in.Src == "" {
				in.Src = m.Render(&in.Script)
			}
			if err := c.Emit(f, in, runBoth(in)); err != nil {
				return err
			}
		}
	}
	return nil
}

// ---- edge classes: inputs OUTSIDE the proved fragment, one template per class -------

func lit(asset string, n int) *m.Expr {
	return &m.Expr{K: "mon", A: &m.Expr{K: "asset", S: asset}, N: fmt.Sprint(n)}
}
func at(a string) *m.Expr { return &m.Expr{K: "acct", S: a} }
func srcAcct(e *m.Expr, od *m.Overdraft) m.Source {
	return m.Source{K: "acct", E: e, Od: od}
}
func send(e *m.Expr, s m.Source, d m.Dest) m.Stmt {
	return m.Stmt{K: "send", E: e, Src: &m.VSource{K: "src", S: &s}, Dst: &d}
}
func toAcct(a string) m.Dest { return m.Dest{K: "acct", E: at(a)} }
func kdTo(d m.Dest) m.KD   { return m.KD{K: "to", D: &d} }

var edgeClasses = []string{
	"neg-cap", "neg-overdraft", "neg-dest-max", "world-var", "balance-world", "octal-portion",
	"extraneous-var", "number-format", "neg-monetary-var", "save-expr", "late-asset-mismatch",
	"kept", "save-overdraft", "portions-over-100", "save-clamp",
}

func genEdge(r *rand.Rand, class string) (m.Script, m.RunEnv) {
	env := m.RunEnv{Vars: map[string]string{}, Balances: map[string]map[string]string{}, Meta: map[string]map[string]string{}}
	A := gen.Pick(r, assetPool)
	for _, a := range accPool {
		env.Meta[a] = map[string]string{}
		env.Balances[a] = map[string]string{A: fmt.Sprint(r.Intn(120))}
	}
	var sc m.Script
	x, y, z := 1+r.Intn(20), 1+r.Intn(30), 1+r.Intn(60)
	sub := func(p, q int) *m.Expr { return &m.Expr{K: "sub", L: lit(A, p), R: lit(A, q)} }
	switch class {
	case "neg-cap":
		// a cap that evaluates negative: the machine refuses, the interpreter reads it as 0
		inner := srcAcct(at("a"), nil)
		capped := m.Source{K: "max", E: sub(x, x+y), S: &inner}
		s := m.Source{K: "inorder", Ss: []m.Source{capped, srcAcct(at("b"), nil), srcAcct(at("world"), nil)}}
		sc.Stmts = append(sc.Stmts, send(lit(A, z), s, toAcct("d")))
	case "neg-overdraft":
		s := srcAcct(at("a"), &m.Overdraft{K: "upto", E: sub(x, x+y)})
		sc.Stmts = append(sc.Stmts, send(lit(A, z%40), s, toAcct("d")))
	case "neg-dest-max":
		rem := kdTo(toAcct("c"))
		d := m.Dest{K: "inorder", Items: []m.InOrderDstItem{{E: *sub(x, x+y), D: kdTo(toAcct("b"))}}, Rem: &rem}
		sc.Stmts = append(sc.Stmts, send(lit(A, z), srcAcct(at("world"), nil), d))
	case "world-var":
		sc.Vars = append(sc.Vars, m.VarDecl{Ty: "account", Name: "w"})
		env.Vars["w"] = "world"
		sc.Stmts = append(sc.Stmts, send(lit(A, z), srcAcct(&m.Expr{K: "var", S: "w"}, nil), toAcct("d")))
	case "balance-world":
		sc.Vars = append(sc.Vars, m.VarDecl{Ty: "monetary", Name: "bw",
			Orig: &m.Origin{K: "balance", Acc: *at("world"), Asset: &m.Expr{K: "asset", S: A}}})
		env.Balances["world"] = map[string]string{A: fmt.Sprint((1 - r.Intn(3)) * z)}
		sc.Stmts = append(sc.Stmts, m.Stmt{K: "txmeta", Key: "k", E: &m.Expr{K: "var", S: "bw"}})
	case "octal-portion":
		p := gen.Pick(r, []string{"010/100", "01/02", "017/020", "1/010", "00/5"})
		if r.Intn(2) == 0 {
			sc.Stmts = append(sc.Stmts, m.Stmt{K: "txmeta", Key: "k", E: &m.Expr{K: "portion", S: p}})
		} else {
			d := m.Dest{K: "allot", Allot: []m.AllotDstItem{{P: m.Portion{K: "lit", S: p}, D: kdTo(toAcct("b"))},
				{P: m.Portion{K: "remaining"}, D: kdTo(toAcct("c"))}}}
			sc.Stmts = append(sc.Stmts, send(lit(A, 100+z), srcAcct(at("world"), nil), d))
		}
	case "extraneous-var":
		env.Vars["extra"] = "1"
		sc.Stmts = append(sc.Stmts, send(lit(A, z), srcAcct(at("world"), nil), toAcct("d")))
	case "number-format":
		sc.Vars = append(sc.Vars, m.VarDecl{Ty: "number", Name: "n"})
		env.Vars["n"] = gen.Pick(r, []string{"007", "+5", " 5", "5 ", "-0", "00", "-007", "1_000", "0x10", "1e3", "null"})
		sc.Stmts = append(sc.Stmts, m.Stmt{K: "txmeta", Key: "k", E: &m.Expr{K: "var", S: "n"}})
	case "neg-monetary-var":
		sc.Vars = append(sc.Vars, m.VarDecl{Ty: "monetary", Name: "mv"})
		env.Vars["mv"] = A + " " + gen.Pick(r, []string{"-5", "+5", "007", "-0", "5", " 5"})
		sc.Stmts = append(sc.Stmts, m.Stmt{K: "txmeta", Key: "k", E: &m.Expr{K: "var", S: "mv"}})
	case "save-expr":
		// the machine saves the LEFTMOST atom only, the interpreter the whole expression
		sc.Stmts = append(sc.Stmts, m.Stmt{K: "save", E: &m.Expr{K: "add", L: lit(A, x), R: lit(A, y)}, Acc: at("a")})
		env.Balances["a"][A] = fmt.Sprint(x + y + z)
		sc.Stmts = append(sc.Stmts, send(lit(A, z+y), srcAcct(at("a"), nil), toAcct("d")))
	case "late-asset-mismatch":
		other := "GEM"
		rem := kdTo(toAcct("d"))
		d := m.Dest{K: "inorder", Items: []m.InOrderDstItem{
			{E: *lit(A, z+5), D: kdTo(toAcct("b"))},
			{E: *lit(A, 1), D: kdTo(toAcct("c"))},
			{E: *lit(other, 5), D: kdTo(toAcct("c"))}}, Rem: &rem}
		sc.Stmts = append(sc.Stmts, send(lit(A, z), srcAcct(at("world"), nil), d))
	case "kept":
		// send from {@a @c} to {max k kept, remaining to @b}
		env.Balances["a"][A] = fmt.Sprint(x)
		env.Balances["c"][A] = fmt.Sprint(y)
		s := m.Source{K: "inorder", Ss: []m.Source{srcAcct(at("a"), nil), srcAcct(at("c"), nil)}}
		rem := kdTo(toAcct("b"))
		d := m.Dest{K: "inorder", Items: []m.InOrderDstItem{{E: *lit(A, 1+r.Intn(x+y)), D: m.KD{K: "kept"}}}, Rem: &rem}
		sc.Stmts = append(sc.Stmts, send(lit(A, x+y), s, d))
	case "save-clamp":
		// saving more than the balance: the machine's tracked balance goes negative, the
		// interpreter's stops at 0; funds received afterwards are then spendable or not
		env.Balances["a"][A] = fmt.Sprint(x)
		sc.Stmts = append(sc.Stmts, m.Stmt{K: "save", E: lit(A, x+y), Acc: at("a")})
		sc.Stmts = append(sc.Stmts, send(lit(A, z), srcAcct(at("world"), nil), toAcct("a")))
		all := srcAcct(at("a"), nil)
		dd := toAcct("d")
		sc.Stmts = append(sc.Stmts, m.Stmt{K: "sendall", E: &m.Expr{K: "asset", S: A}, Src: &m.VSource{K: "src", S: &all}, Dst: &dd})
	case "save-overdraft":
		env.Balances["a"][A] = fmt.Sprint(x)
		sc.Stmts = append(sc.Stmts, m.Stmt{K: "save", E: lit(A, x+y+z), Acc: at("a")})
		s := srcAcct(at("a"), &m.Overdraft{K: "upto", E: lit(A, y+z)})
		sc.Stmts = append(sc.Stmts, send(lit(A, 1+r.Intn(x+y)), s, toAcct("d")))
	default: // portions-over-100
		sc.Vars = append(sc.Vars, m.VarDecl{Ty: "portion", Name: "p"})
		env.Vars["p"] = gen.Pick(r, []string{"1/2", "3/4", "100%"})
		d := m.Dest{K: "allot", Allot: []m.AllotDstItem{
			{P: m.Portion{K: "var", S: "p"}, D: kdTo(toAcct("a"))},
			{P: m.Portion{K: "lit", S: "25%"}, D: kdTo(toAcct("b"))},
			{P: m.Portion{K: "lit", S: "1/2"}, D: kdTo(toAcct("c"))},
			{P: m.Portion{K: "remaining"}, D: kdTo(toAcct("d"))}}}
		sc.Stmts = append(sc.Stmts, send(lit(A, 100+z), srcAcct(at("world"), nil), d))
	}
	return sc, env
}

func init() {
	// interpmodel: the shared language, mostly inside the proved fragment.
	gen.Register("interpmodel", func(c *gen.Ctx) error {
		if c.Replay != "" {
			return replay(c, "interpmodel")
		}
		for i := 0; i < c.N; i++ {
			var in In
			switch k := i % 10; {
			case k < 5:
				sc, env := GenLevel(c.R, 1, c.Wide)
				in = In{Script: sc, RunEnv: env, Gen: "f1"}
			case k < 8:
				sc, env := GenLevel(c.R, 2, c.Wide)
				in = In{Script: sc, RunEnv: env, Gen: "f2"}
			default:
				sc, env := GenLevel(c.R, 3, c.Wide)
				in = In{Script: sc, RunEnv: env, Gen: "full"}
			}
			in.Src = m.Render(&in.Script)
			if err := c.Emit("interpmodel", in, runBoth(in)); err != nil {
				return err
			}
		}
		return nil
	})
	// interpedge: constructs outside the proved fragment, one template per divergence class.
	gen.Register("interpedge", func(c *gen.Ctx) error {
		if c.Replay != "" {
			return replay(c, "interpedge")
		}
		for i := 0; i < c.N; i++ {
			class := edgeClasses[i%len(edgeClasses)]
			sc, env := genEdge(c.R, class)
			in := In{Script: sc, RunEnv: env, Gen: "edge:" + class}
			in.Src = m.Render(&in.Script)
			if err := c.Emit("interpedge", in, runBoth(in)); err != nil {
				return err
			}
		}
		return nil
	})
	// interpfuzz: the compiler fuzzer of the machine area (ill-typed programs, malformed
	// variables, print / fail, destination-first sends, …): validates the two models
	// against the two runtimes, error kinds included; the property is not evaluated.
	gen.Register("interpfuzz", func(c *gen.Ctx) error {
		if c.Replay != "" {
			return replay(c, "interpfuzz")
		}
		for i := 0; i < c.N; i++ {
			sc, env := m.GenProgram(c.R, c.Wide)
			in := In{Script: sc, RunEnv: env, Gen: "fuzz"}
			in.Src = m.Render(&in.Script)
			if err := c.Emit("interpfuzz", in, runBoth(in)); err != nil {
				return err
			}
		}
		return nil
	})
}
