//go:build verif

// Package wlinterp holds the correspondence workloads of the Numscript
// INTERPRETER model (C26, second layer): `interpmodel`, `interpedge`, `interpfuzz`.
//
// Every case is a Numscript program as an AST (the shape of wlmachine/ast.go, the
// abstract syntax both Lean models run on) + its rendered text + variables +
// balances + account metadata.  The text is executed by BOTH real runtimes
// exactly as the controller does (numscript_parser.go / numscript_runtime.go):
// the machine through wlmachine.RunReal, the interpreter through
// NewInterpreterNumscriptParser(nil).Parse + Execute over a fake store.
package wlinterp

import (
	"context"
	"errors"
	"fmt"
	"math/big"
	"strings"
	"time"

	"github.com/formancehq/go-libs/v5/pkg/storage/bun/paginate"
	"github.com/formancehq/go-libs/v5/pkg/storage/postgres"
	"github.com/formancehq/go-libs/v5/pkg/types/metadata"

	ledger "github.com/formancehq/ledger/internal"
	ledgercontroller "github.com/formancehq/ledger/internal/controller/ledger"
	"github.com/formancehq/ledger/internal/storage/common"
	ledgerstore "github.com/formancehq/ledger/internal/storage/ledger"
	"github.com/formancehq/ledger/internal/verif/wlmachine"
)

// ---- the store handed to the real interpreter adapter --------------------------
//
// Same contract as wlmachine's fake store: GetBalances answers every queried
// (account, asset) pair, 0 when unknown; Accounts().GetOne answers
// postgres.ErrNotFound for an account without a metadata entry.

type fakeStore struct {
	ledgercontroller.Store
	balances map[string]map[string]*big.Int
	meta     map[string]map[string]string
}

func (s *fakeStore) GetBalances(_ context.Context, q ledgerstore.BalanceQuery) (ledger.Balances, error) {
	ret := ledger.Balances{}
	for account, assets := range q {
		if _, ok := ret[account]; !ok {
			ret[account] = map[string]*big.Int{}
		}
		for _, asset := range assets {
			v := new(big.Int)
			if b, ok := s.balances[account][asset]; ok {
				v.Set(b)
			}
			ret[account][asset] = v
		}
	}
	return ret, nil
}

type fakeAccounts struct{ s *fakeStore }

func (a fakeAccounts) GetOne(_ context.Context, q common.ResourceQuery[any]) (*ledger.Account, error) {
	addr := ""
	if q.Builder != nil {
		_ = q.Builder.Walk(func(op, key string, value *any) error {
			if key == "address" {
				addr, _ = (*value).(string)
			}
			return nil
		})
	}
	m, ok := a.s.meta[addr]
	if !ok {
		return nil, postgres.ErrNotFound
	}
	md := metadata.Metadata{}
	for k, v := range m {
		md[k] = v
	}
	return &ledger.Account{Address: addr, Metadata: md}, nil
}

func (a fakeAccounts) Count(context.Context, common.ResourceQuery[any]) (int, error) {
	return 0, errors.New("not implemented")
}

func (a fakeAccounts) Paginate(context.Context, common.PaginatedQuery[any]) (*paginate.Cursor[ledger.Account], error) {
	return nil, errors.New("not implemented")
}

func (s *fakeStore) Accounts() common.PaginatedResource[ledger.Account, any] { return fakeAccounts{s} }

// ---- canonical output of the interpreter ----------------------------------------

type InterpOut struct {
	OK bool `json:"ok"`
	// Err: "" | "Parse" | Go type name of the InterpreterError (without package)
	Err      string                       `json:"err"`
	ErrMsg   string                       `json:"errMsg,omitempty"`
	Postings []wlmachine.PostingOut       `json:"postings"`
	TxMeta   map[string]string            `json:"txMeta"`
	AccMeta  map[string]map[string]string `json:"accMeta"`
	Panic    string                       `json:"panic,omitempty"`
	Timeout  bool                         `json:"timeout,omitempty"`
}

func firstLine(s string) string {
	if i := strings.IndexByte(s, '\n'); i >= 0 {
		s = s[:i]
	}
	if len(s) > 200 {
		s = s[:200]
	}
	return s
}

func errKind(err error) string {
	var pe ledgercontroller.ErrParsing
	if errors.As(err, &pe) {
		return "Parse"
	}
	var re ledgercontroller.ErrRuntime
	if errors.As(err, &re) {
		t := fmt.Sprintf("%T", re.InterpreterError)
		if i := strings.LastIndexByte(t, '.'); i >= 0 {
			t = t[i+1:]
		}
		return t
	}
	return "other"
}

func emptyOut() InterpOut {
	return InterpOut{Postings: []wlmachine.PostingOut{}, TxMeta: map[string]string{}, AccMeta: map[string]map[string]string{}}
}

// RunInterpReal parses `text` with the interpreter's parser and executes it the way
// the controller does.  Panics are recovered; a run that does not finish within
// `timeout` is reported as Timeout.
func RunInterpReal(text string, env wlmachine.RunEnv, timeout time.Duration) InterpOut {
	done := make(chan InterpOut, 1)
	go func() {
		out := emptyOut()
		defer func() {
			if r := recover(); r != nil {
				out = emptyOut()
				out.Panic = firstLine(fmt.Sprintf("panic: %v", r))
				out.Err = "panic"
			}
			done <- out
		}()
		rt, perr := ledgercontroller.NewInterpreterNumscriptParser(nil).Parse(text)
		if perr != nil {
			out.Err, out.ErrMsg = errKind(perr), firstLine(perr.Error())
			return
		}
		st := &fakeStore{balances: map[string]map[string]*big.Int{}, meta: env.Meta}
		for a, m := range env.Balances {
			st.balances[a] = map[string]*big.Int{}
			for k, v := range m {
				b, ok := new(big.Int).SetString(v, 10)
				if !ok {
					panic("harness: bad balance " + v)
				}
				st.balances[a][k] = b
			}
		}
		vars := map[string]string{}
		for k, v := range env.Vars {
			vars[k] = v
		}
		res, err := rt.Execute(context.Background(), st, vars)
		if err != nil {
			out.Err, out.ErrMsg = errKind(err), firstLine(err.Error())
			return
		}
		out.OK = true
		for _, p := range res.Postings {
			amt := "nil"
			if p.Amount != nil {
				amt = p.Amount.String()
			}
			out.Postings = append(out.Postings, wlmachine.PostingOut{S: p.Source, D: p.Destination, A: p.Asset, Amt: amt})
		}
		for k, v := range res.Metadata {
			out.TxMeta[k] = v
		}
		for a, m := range res.AccountMetadata {
			out.AccMeta[a] = map[string]string{}
			for k, v := range m {
				out.AccMeta[a][k] = v
			}
		}
	}()
	select {
	case o := <-done:
		return o
	case <-time.After(timeout):
		o := emptyOut()
		o.Timeout, o.Err = true, "timeout"
		return o
	}
}
