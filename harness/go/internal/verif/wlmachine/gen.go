//go:build verif

package wlmachine

import (
	"fmt"
	"math/big"
	"math/rand"

	"github.com/formancehq/ledger/internal/verif/gen"
)

// Grammar-based generator of Numscript programs (W-prog).  Mostly well-typed
// programs with consistent assets so that most of them compile and run, plus a
// controlled rate of type errors, asset mix-ups, bad variable values, etc.

var accountPool = []string{"a", "b", "c", "users:001", "bank", "x-y_z:1", "world", "d"}
// assetPool: asset literals (the lexer's ASSET token has no '_'); assetVarPool:
// values of asset variables (validated against the asset pattern instead).
var assetPool = []string{"USD", "EUR/2", "COIN", "GEM/8"}
var assetVarPool = []string{"USD", "EUR/2", "COIN", "GEM/8", "BTC_X/8"}
var keyPool = []string{"k", "key two", "ref", "é-ü", "a_b"}
var strPool = []string{"", "hello", "with space", "x:y", "ünï", "100%", "a/b"}

type varInfo struct {
	name string
	ty   string
	// for account vars: the value (so that sources can avoid/force duplicates)
	val string
}

type pgen struct {
	r    *rand.Rand
	wide bool
	vars []varInfo
	env  RunEnv
	// rate (per mille) of deliberately wrong choices
	bad int
}

func (g *pgen) chance(permille int) bool { return g.r.Intn(1000) < permille }

func (g *pgen) varsOf(ty string) []varInfo {
	var res []varInfo
	for _, v := range g.vars {
		if v.ty == ty {
			res = append(res, v)
		}
	}
	return res
}

func (g *pgen) amount() string {
	switch g.r.Intn(12) {
	case 0:
		return "0"
	case 1:
		return gen.BigAmount(g.r).String()
	case 2, 3:
		return fmt.Sprint(g.r.Intn(1000))
	default:
		return fmt.Sprint(g.r.Intn(120))
	}
}

func (g *pgen) acctName() string {
	if g.chance(80) {
		return "world"
	}
	return gen.Pick(g.r, accountPool)
}

// wrongExpr returns an expression of a random (probably wrong) type.
func (g *pgen) anyExpr() *Expr {
	switch g.r.Intn(8) {
	case 0:
		return &Expr{K: "acct", S: g.acctName()}
	case 1:
		return &Expr{K: "asset", S: gen.Pick(g.r, assetPool)}
	case 2:
		if g.r.Intn(4) == 0 {
			// arithmetic with a NUMBER on the left and anything on the right (mostly ill-typed:
			// the compiler must reject `number +/- <non-number>`, the VM would panic on it)
			var rhs *Expr
			switch g.r.Intn(6) {
			case 0:
				rhs = &Expr{K: "acct", S: g.acctName()}
			case 1:
				rhs = &Expr{K: "asset", S: gen.Pick(g.r, assetPool)}
			case 2:
				rhs = &Expr{K: "str", S: gen.Pick(g.r, strPool)}
			case 3:
				rhs = &Expr{K: "portion", S: g.portionLit()}
			case 4:
				rhs = &Expr{K: "mon", A: &Expr{K: "asset", S: gen.Pick(g.r, assetPool)}, N: g.amount()}
			default:
				if len(g.vars) > 0 {
					rhs = &Expr{K: "var", S: gen.Pick(g.r, g.vars).name}
				} else {
					rhs = &Expr{K: "num", S: "3"}
				}
			}
			op := "add"
			if g.r.Intn(2) == 0 {
				op = "sub"
			}
			return &Expr{K: op, L: g.numExpr(1), R: rhs}
		}
		return g.numExpr(1)
	case 3:
		return &Expr{K: "str", S: gen.Pick(g.r, strPool)}
	case 4:
		return &Expr{K: "portion", S: g.portionLit()}
	case 5:
		return g.monExpr(gen.Pick(g.r, assetPool), 1)
	case 6:
		if len(g.vars) > 0 {
			return &Expr{K: "var", S: gen.Pick(g.r, g.vars).name}
		}
		return &Expr{K: "num", S: "7"}
	default:
		return &Expr{K: "var", S: "undeclared"}
	}
}

func (g *pgen) portionLit() string {
	switch g.r.Intn(8) {
	case 0:
		return fmt.Sprintf("%d%%", g.r.Intn(101))
	case 1:
		return fmt.Sprintf("%d.%d%%", g.r.Intn(100), g.r.Intn(100))
	case 2:
		d := 1 + g.r.Intn(12)
		return fmt.Sprintf("%d / %d", g.r.Intn(d+1), d)
	case 3:
		if g.chance(g.bad * 3) {
			return gen.Pick(g.r, []string{"150%", "3/2", "1/0", "100.5%"})
		}
		if g.r.Intn(3) == 0 {
			// big.Rat.SetString reads fraction parts with base 0: a leading 0 means octal
			return gen.Pick(g.r, []string{"010/100", "007/008", "1/010", "01/02", "00/5", "1/00", "007.5%", "017/020", "09/10"})
		}
		return "1/2"
	default:
		d := 1 + g.r.Intn(12)
		return fmt.Sprintf("%d/%d", g.r.Intn(d+1), d)
	}
}

func (g *pgen) acctExpr() *Expr {
	if g.chance(g.bad) {
		return g.anyExpr()
	}
	vs := g.varsOf("account")
	if len(vs) > 0 && g.r.Intn(3) == 0 {
		return &Expr{K: "var", S: gen.Pick(g.r, vs).name}
	}
	return &Expr{K: "acct", S: g.acctName()}
}

func (g *pgen) assetExpr(asset string) *Expr {
	if g.chance(g.bad) {
		return g.anyExpr()
	}
	vs := g.varsOf("asset")
	if len(vs) > 0 && g.r.Intn(4) == 0 {
		return &Expr{K: "var", S: gen.Pick(g.r, vs).name}
	}
	if g.chance(30) {
		return &Expr{K: "asset", S: gen.Pick(g.r, assetPool)}
	}
	if g.chance(g.bad) {
		// lexer-valid ASSET tokens that the asset pattern rejects
		return &Expr{K: "asset", S: gen.Pick(g.r, []string{"A/B", "USD/1234567", "1A", "/", "USD//2", "ABCDEFGHIJKLMNOPQR", "USD/"})}
	}
	return &Expr{K: "asset", S: asset}
}

func (g *pgen) numExpr(depth int) *Expr {
	atom := func() *Expr {
		vs := g.varsOf("number")
		if len(vs) > 0 && g.r.Intn(3) == 0 {
			return &Expr{K: "var", S: gen.Pick(g.r, vs).name}
		}
		return &Expr{K: "num", S: g.amount()}
	}
	e := atom()
	for i := 0; i < depth && g.r.Intn(3) == 0; i++ {
		op := "add"
		if g.r.Intn(2) == 0 {
			op = "sub"
		}
		e = &Expr{K: op, L: e, R: atom()}
	}
	return e
}

// monExpr: an expression of type monetary, mostly in `asset`.
func (g *pgen) monAtom(asset string) *Expr {
	if g.chance(g.bad) {
		return g.anyExpr()
	}
	vs := g.varsOf("monetary")
	if len(vs) > 0 && g.r.Intn(3) == 0 {
		return &Expr{K: "var", S: gen.Pick(g.r, vs).name}
	}
	return &Expr{K: "mon", A: g.assetExpr(asset), N: g.amount()}
}

// atomOf strips an expression down to its leftmost atom: the grammar has no
// parentheses, so the right operand of + / - is always atomic.
func atomOf(e *Expr) *Expr {
	for e.K == "add" || e.K == "sub" {
		e = e.L
	}
	return e
}

func (g *pgen) monExpr(asset string, depth int) *Expr {
	e := g.monAtom(asset)
	for i := 0; i < depth && g.r.Intn(5) == 0; i++ {
		op := "add"
		if g.r.Intn(3) == 0 {
			op = "sub"
		}
		e = &Expr{K: op, L: e, R: atomOf(g.monAtom(asset))}
	}
	return e
}

// srcAcct picks the account of a source. `unbOK`: an unbounded source (world /
// unbounded overdraft) is allowed here; `used`: constant accounts already
// emptied in the enclosing in-order source (the compiler rejects repeats).
func (g *pgen) srcAcct(unbOK bool, used map[string]bool) *Expr {
	if g.chance(g.bad) {
		return g.anyExpr()
	}
	for try := 0; try < 8; try++ {
		e := g.acctExpr()
		key := e.K + ":" + e.S
		if e.K == "acct" && e.S == "world" && !unbOK && !g.chance(g.bad*2) {
			continue
		}
		if used[key] && !g.chance(g.bad*2) {
			continue
		}
		used[key] = true
		return e
	}
	return &Expr{K: "acct", S: fmt.Sprintf("n%d", g.r.Intn(1000))}
}

func (g *pgen) source(asset string, depth int, unbOK bool, used map[string]bool) Source {
	k := g.r.Intn(10)
	if depth <= 0 {
		k = 0
	}
	switch {
	case k < 5:
		s := Source{K: "acct", E: g.srcAcct(unbOK, used)}
		isWorld := s.E.K == "acct" && s.E.S == "world"
		if isWorld && !g.chance(g.bad*2) {
			return s
		}
		switch o := g.r.Intn(10); {
		case o < 6:
		case o < 8:
			s.Od = &Overdraft{K: "upto", E: g.monExpr(asset, 1)}
		default:
			if unbOK || g.chance(g.bad*2) {
				s.Od = &Overdraft{K: "unbounded"}
			}
		}
		return s
	case k < 7:
		sub := g.source(asset, depth-1, true, map[string]bool{})
		return Source{K: "max", E: g.monExpr(asset, 1), S: &sub}
	default:
		n := 1 + g.r.Intn(3)
		s := Source{K: "inorder"}
		for i := 0; i < n; i++ {
			s.Ss = append(s.Ss, g.source(asset, depth-1, unbOK && i == n-1, used))
		}
		return s
	}
}

// portions returns n portions that (mostly) sum to one / use remaining / vars.
func (g *pgen) portions(n int) []Portion {
	ps := make([]Portion, 0, n)
	mode := g.r.Intn(10)
	pvars := g.varsOf("portion")
	switch {
	case mode < 4 || n == 1:
		// exact split over a common denominator
		d := int64(gen.Pick(g.r, []int{2, 3, 4, 5, 7, 8, 10, 100}))
		if d < int64(n) {
			d = int64(n)
		}
		left := d
		for i := 0; i < n; i++ {
			var x int64
			if i == n-1 {
				x = left
			} else {
				x = g.r.Int63n(left + 1)
				if g.r.Intn(2) == 0 {
					x = g.r.Int63n(left/int64(n-i) + 1)
				}
			}
			left -= x
			if d == 100 && g.r.Intn(2) == 0 {
				ps = append(ps, Portion{K: "lit", S: fmt.Sprintf("%d%%", x)})
			} else {
				ps = append(ps, Portion{K: "lit", S: fmt.Sprintf("%d/%d", x, d)})
			}
		}
		if g.chance(g.bad * 2) {
			ps[g.r.Intn(n)] = Portion{K: "lit", S: g.portionLit()}
		}
	default:
		// under one + remaining (+ variables)
		total := big.NewRat(0, 1)
		for i := 0; i < n-1; i++ {
			if len(pvars) > 0 && g.r.Intn(3) == 0 {
				ps = append(ps, Portion{K: "var", S: gen.Pick(g.r, pvars).name})
				continue
			}
			d := int64(gen.Pick(g.r, []int{2, 3, 4, 5, 8, 10, 11}))
			x := g.r.Int63n(d)
			p := big.NewRat(x, d)
			if new(big.Rat).Add(total, p).Cmp(big.NewRat(1, 1)) >= 0 {
				x = 0
				p = big.NewRat(0, 1)
			}
			total.Add(total, p)
			ps = append(ps, Portion{K: "lit", S: fmt.Sprintf("%d/%d", x, d)})
		}
		pos := g.r.Intn(len(ps) + 1)
		ps = append(ps[:pos], append([]Portion{{K: "remaining"}}, ps[pos:]...)...)
		if g.chance(g.bad * 2) {
			switch g.r.Intn(3) {
			case 0:
				ps = append(ps, Portion{K: "remaining"})
			case 1:
				// drop the remaining
				ps = append(ps[:pos], ps[pos+1:]...)
				if len(ps) == 0 {
					ps = []Portion{{K: "lit", S: "1/2"}}
				}
			default:
				ps = append(ps, Portion{K: "var", S: "undeclared"})
			}
		}
	}
	return ps
}

func (g *pgen) vsource(asset string, depth int, all bool) VSource {
	if (!all || g.chance(g.bad*2)) && g.r.Intn(6) == 0 {
		n := 1 + g.r.Intn(3)
		ps := g.portions(n)
		v := VSource{K: "allot"}
		for _, p := range ps {
			v.Items = append(v.Items, AllotSrcItem{P: p, S: g.source(asset, depth-1, true, map[string]bool{})})
		}
		return v
	}
	s := g.source(asset, depth, !all, map[string]bool{})
	return VSource{K: "src", S: &s}
}

func (g *pgen) kd(asset string, depth int) KD {
	if g.r.Intn(6) == 0 {
		return KD{K: "kept"}
	}
	d := g.dest(asset, depth)
	return KD{K: "to", D: &d}
}

func (g *pgen) dest(asset string, depth int) Dest {
	k := g.r.Intn(10)
	if depth <= 0 {
		k = 0
	}
	switch {
	case k < 5:
		return Dest{K: "acct", E: g.acctExpr()}
	case k < 8:
		n := 1 + g.r.Intn(3)
		d := Dest{K: "inorder"}
		for i := 0; i < n; i++ {
			d.Items = append(d.Items, InOrderDstItem{E: *g.monExpr(asset, 1), D: g.kd(asset, depth-1)})
		}
		rem := g.kd(asset, depth-1)
		d.Rem = &rem
		return d
	default:
		n := 1 + g.r.Intn(4)
		ps := g.portions(n)
		d := Dest{K: "allot"}
		for _, p := range ps {
			d.Allot = append(d.Allot, AllotDstItem{P: p, D: g.kd(asset, depth-1)})
		}
		return d
	}
}

func (g *pgen) stmt() Stmt {
	asset := gen.Pick(g.r, assetPool)
	if g.r.Intn(3) > 0 {
		asset = assetPool[0]
	}
	depth := g.r.Intn(3)
	if g.r.Intn(8) == 0 {
		depth = 3 + g.r.Intn(2)
	}
	switch k := g.r.Intn(100); {
	case k < 55:
		src := g.vsource(asset, depth, false)
		dst := g.dest(asset, depth)
		return Stmt{K: "send", E: g.monExpr(asset, 2), Src: &src, Dst: &dst, DstFirst: g.r.Intn(4) == 0}
	case k < 70:
		src := g.vsource(asset, depth, true)
		dst := g.dest(asset, depth)
		return Stmt{K: "sendall", E: g.assetExpr(asset), Src: &src, Dst: &dst, DstFirst: g.r.Intn(4) == 0}
	case k < 77:
		return Stmt{K: "save", E: g.monExpr(asset, 1), Acc: g.acctExpr()}
	case k < 83:
		return Stmt{K: "saveall", E: g.assetExpr(asset), Acc: g.acctExpr()}
	case k < 90:
		return Stmt{K: "txmeta", Key: gen.Pick(g.r, keyPool), E: g.anyExpr()}
	case k < 96:
		return Stmt{K: "accmeta", Acc: g.acctExpr(), Key: gen.Pick(g.r, keyPool), E: g.anyExpr()}
	case k < 99:
		return Stmt{K: "print", E: g.anyExpr()}
	default:
		return Stmt{K: "fail"}
	}
}

var tyPool = []string{"account", "asset", "number", "string", "monetary", "portion"}

func (g *pgen) varValue(ty string) string {
	badv := g.chance(g.bad)
	switch ty {
	case "account":
		if badv {
			return gen.Pick(g.r, []string{"", "a:", "sp ace", "é", ":a", "a::b", "users:001\n", "a ", " b", "\tc"})
		}
		return g.acctName()
	case "asset":
		if badv {
			return gen.Pick(g.r, []string{"", "usd", "USD//2", "1USD", "USD/1234567", "US D", " USD", "USD/2 ", "COIN\n"})
		}
		return gen.Pick(g.r, assetVarPool)
	case "number":
		if badv {
			return gen.Pick(g.r, []string{"", "abc", "1.5", "1e3", "012", "+5", "\"12\"", "0x10", " 12", "12 "})
		}
		if g.r.Intn(8) == 0 {
			return "-" + g.amount()
		}
		if g.r.Intn(40) == 0 {
			return gen.Pick(g.r, []string{"null", " null", " 7 ", "-0"})
		}
		return g.amount()
	case "string":
		return gen.Pick(g.r, strPool)
	case "monetary":
		if badv {
			return gen.Pick(g.r, []string{"", "USD", "USD -5", "usd 5", "USD 1.5", "USD  5", "USD 5 ", "USD +5", "USD abc", "5 USD"})
		}
		a := gen.Pick(g.r, assetVarPool)
		if g.r.Intn(2) == 0 {
			a = assetPool[0]
		}
		return a + " " + g.amount()
	default: // portion
		if badv {
			return gen.Pick(g.r, []string{"", "remaining", "3/2", "150%", "1/0", "abc", "1 / 2", "1  /2"})
		}
		return g.portionLit()
	}
}

// genRepeatSource: one bounded account used as a source in several sends / clauses
// with different overdraft allowances, starting from a balance that may already be
// below some of the floors (negative), with small amounts so that many runs succeed.
// This is the shape where a wrong floor in withdrawAll shows (C23), and where tracked
// balances must carry over from one statement to the next (C22 balances_track).
func genRepeatSource(r *rand.Rand) (Script, RunEnv) {
	env := RunEnv{Vars: map[string]string{}, Balances: map[string]map[string]string{}, Meta: map[string]map[string]string{}}
	asset := gen.Pick(r, assetPool)
	acc := gen.Pick(r, []string{"a", "b", "users:001"})
	var sc Script
	useVar := r.Intn(3) == 0
	if useVar {
		sc.Vars = append(sc.Vars, VarDecl{Ty: "account", Name: "src"})
		env.Vars["src"] = acc
	}
	accE := func() *Expr {
		if useVar && r.Intn(2) == 0 {
			return &Expr{K: "var", S: "src"}
		}
		return &Expr{K: "acct", S: acc}
	}
	bounds := []int{0, 0, 5, 20, 50, 100, 200}
	leaf := func() (Source, int) {
		b := gen.Pick(r, bounds)
		s := Source{K: "acct", E: accE()}
		if b > 0 || r.Intn(4) == 0 {
			s.Od = &Overdraft{K: "upto", E: &Expr{K: "mon", A: &Expr{K: "asset", S: asset}, N: fmt.Sprint(b)}}
		}
		return s, b
	}
	n := 2 + r.Intn(3)
	for i := 0; i < n; i++ {
		l, b := leaf()
		src := l
		switch r.Intn(6) {
		case 0: // backed by another source
			other := Source{K: "acct", E: &Expr{K: "acct", S: gen.Pick(r, []string{"c", "d", "world"})}}
			src = Source{K: "inorder", Ss: []Source{l, other}}
		case 1: // capped
			src = Source{K: "max", E: &Expr{K: "mon", A: &Expr{K: "asset", S: asset}, N: fmt.Sprint(r.Intn(60))}, S: &l}
		case 2: // the same account twice in one block (allowed through max / a variable)
			l2, b2 := leaf()
			if b2 > b {
				b = b2
			}
			m := Source{K: "max", E: &Expr{K: "mon", A: &Expr{K: "asset", S: asset}, N: fmt.Sprint(r.Intn(40))}, S: &l}
			src = Source{K: "inorder", Ss: []Source{m, l2}}
		}
		amt := 0
		switch r.Intn(4) {
		case 0:
		case 1:
			amt = r.Intn(b + 2)
		default:
			if b > 0 {
				amt = 1 + r.Intn(b)
			}
		}
		vs := VSource{K: "src", S: &src}
		dst := Dest{K: "acct", E: &Expr{K: "acct", S: gen.Pick(r, []string{"x", "y", "world", acc})}}
		if r.Intn(5) == 0 {
			sc.Stmts = append(sc.Stmts, Stmt{K: "sendall", E: &Expr{K: "asset", S: asset}, Src: &vs, Dst: &dst})
		} else {
			sc.Stmts = append(sc.Stmts, Stmt{K: "send", E: &Expr{K: "mon", A: &Expr{K: "asset", S: asset}, N: fmt.Sprint(amt)}, Src: &vs, Dst: &dst})
		}
	}
	if r.Intn(3) == 0 {
		// the same account as an UNBOUNDED source in another asset: its (zero) part can land in a
		// repaid remainder while the account has tracked balances, but none for that asset
		asset2 := gen.Pick(r, assetPool)
		l := Source{K: "acct", E: accE(), Od: &Overdraft{K: "unbounded"}}
		src := l
		if r.Intn(2) == 0 {
			src = Source{K: "max", E: &Expr{K: "mon", A: &Expr{K: "asset", S: asset2}, N: fmt.Sprint(r.Intn(3))}, S: &l}
		}
		vs := VSource{K: "src", S: &src}
		dst := Dest{K: "acct", E: &Expr{K: "acct", S: gen.Pick(r, []string{"x", "y", "world"})}}
		st := Stmt{K: "send", E: &Expr{K: "mon", A: &Expr{K: "asset", S: asset2}, N: fmt.Sprint(r.Intn(3))}, Src: &vs, Dst: &dst}
		pos := r.Intn(len(sc.Stmts) + 1)
		sc.Stmts = append(sc.Stmts[:pos], append([]Stmt{st}, sc.Stmts[pos:]...)...)
	}
	var bal string
	switch r.Intn(5) {
	case 0:
		bal = fmt.Sprint(r.Intn(60))
	case 1:
		bal = "0"
	default:
		bal = "-" + fmt.Sprint(1+r.Intn(150))
	}
	env.Balances[acc] = map[string]string{asset: bal}
	if r.Intn(2) == 0 {
		// `save [A n] from acc` / `save [A *] from acc` between the sends: n below, equal to,
		// above the balance (also when the balance is negative: the tracked balance then goes
		// further down and a later bounded overdraft must not draw its allowance again)
		var bi int
		fmt.Sscan(bal, &bi)
		abs := bi
		if abs < 0 {
			abs = -abs
		}
		ns := 1 + r.Intn(2)
		for k := 0; k < ns; k++ {
			var st Stmt
			if r.Intn(5) == 0 {
				st = Stmt{K: "saveall", E: &Expr{K: "asset", S: asset}, Acc: accE()}
			} else {
				n := gen.Pick(r, []int{0, 1, 1, 2, abs, abs + 1, abs / 2, r.Intn(30), 100 + r.Intn(200)})
				if n < 0 {
					n = 0
				}
				st = Stmt{K: "save", E: &Expr{K: "mon", A: &Expr{K: "asset", S: asset}, N: fmt.Sprint(n)}, Acc: accE()}
			}
			// mostly before the last send, so that a bounded-overdraft send follows
			pos := r.Intn(len(sc.Stmts))
			if r.Intn(6) == 0 {
				pos = len(sc.Stmts)
			}
			sc.Stmts = append(sc.Stmts[:pos], append([]Stmt{st}, sc.Stmts[pos:]...)...)
		}
	}
	for _, o := range []string{"c", "d", "x", "y"} {
		if r.Intn(2) == 0 {
			env.Balances[o] = map[string]string{asset: fmt.Sprint(r.Intn(100) - 20)}
		}
	}
	return sc, env
}

// GenProgram draws a script and its environment.
func GenProgram(r *rand.Rand, wide bool) (Script, RunEnv) {
	if r.Intn(7) == 0 {
		return genRepeatSource(r)
	}
	g := &pgen{r: r, wide: wide, bad: 12}
	if r.Intn(4) == 0 {
		g.bad = 60
	}
	if r.Intn(3) == 0 {
		g.bad = 0
	}
	g.env = RunEnv{Vars: map[string]string{}, Balances: map[string]map[string]string{}, Meta: map[string]map[string]string{}}
	var sc Script

	// accounts' metadata (so that meta() origins mostly resolve)
	metaKeys := map[string]string{"account": "acc", "asset": "ass", "number": "num", "string": "str", "monetary": "mon", "portion": "por"}
	for _, a := range accountPool {
		if r.Intn(8) == 0 {
			continue // account unknown to the store
		}
		m := map[string]string{}
		for _, ty := range tyPool { // fixed order: map iteration would break seed determinism
			if r.Intn(10) > 0 {
				m[metaKeys[ty]] = g.varValue(ty)
			}
		}
		g.env.Meta[a] = m
	}

	nv := 0
	if r.Intn(4) > 0 {
		nv = 1 + r.Intn(6)
	}
	for i := 0; i < nv; i++ {
		ty := gen.Pick(r, tyPool)
		if r.Intn(3) == 0 {
			ty = "monetary"
		}
		name := fmt.Sprintf("v%d", i)
		if g.chance(g.bad) && i > 0 {
			name = fmt.Sprintf("v%d", r.Intn(i)) // duplicate
		}
		vd := VarDecl{Ty: ty, Name: name}
		switch o := r.Intn(10); {
		case o < 6:
			if !g.chance(g.bad) {
				g.env.Vars[name] = g.varValue(ty)
			}
		case o < 8:
			vd.Orig = &Origin{K: "meta", Acc: *g.acctExpr(), Key: metaKeys[ty]}
			if g.chance(g.bad * 2) {
				vd.Orig.Key = "nokey"
			}
		default:
			if !g.chance(g.bad) {
				vd.Ty = "monetary"
				ty = "monetary"
			}
			vd.Orig = &Origin{K: "balance", Acc: *g.acctExpr(), Asset: g.assetExpr(assetPool[0])}
		}
		sc.Vars = append(sc.Vars, vd)
		g.vars = append(g.vars, varInfo{name: name, ty: ty})
	}
	if g.chance(g.bad) {
		g.env.Vars["extra"] = "1"
	}

	ns := 1 + r.Intn(3)
	if r.Intn(4) == 0 {
		ns = 1 + r.Intn(6)
	}
	for i := 0; i < ns; i++ {
		sc.Stmts = append(sc.Stmts, g.stmt())
	}

	// balances: {negative, 0, small, huge, absent}
	for _, a := range accountPool {
		for _, as := range assetVarPool {
			var v string
			switch r.Intn(10) {
			case 0:
				continue
			case 1:
				v = "0"
			case 2:
				v = "-" + fmt.Sprint(1+r.Intn(50))
			case 3:
				v = gen.BigAmount(r).String()
			case 4:
				v = "-" + gen.BigAmount(r).String()
				if v == "-0" {
					v = "0"
				}
			default:
				v = fmt.Sprint(r.Intn(300))
			}
			if g.env.Balances[a] == nil {
				g.env.Balances[a] = map[string]string{}
			}
			g.env.Balances[a][as] = v
		}
	}
	return sc, g.env
}
