//go:build verif

package wlmachine

import (
	"encoding/json"
	"fmt"
	"math/big"
	"sort"

	ledger "github.com/formancehq/ledger/internal"
	ledgercontroller "github.com/formancehq/ledger/internal/controller/ledger"
	"github.com/formancehq/ledger/internal/verif/gen"
)

// Workload "postings": random posting lists through the REAL TxToScriptData, then
// the real compiler and machine runtime (C25).

type PostingsIn struct {
	Postings []PostingOut                 `json:"postings"`
	Force    bool                         `json:"force"`
	Balances map[string]map[string]string `json:"balances"`
}

type PostingsOut struct {
	// Script text and variables produced by the real TxToScriptData.
	Plain string            `json:"plain"`
	Vars  map[string]string `json:"vars"`
	Run   RunOut            `json:"run"`
	Panic string            `json:"panic,omitempty"`
}

var pAccounts = []string{"world", "a", "b", "c", "users:001", "bank:main", "x-y_z", "d", "e"}
var pAssets = []string{"USD", "EUR/2", "COIN", "BTC_X/8"}

func genPostings(c *gen.Ctx) PostingsIn {
	r := c.R
	n := r.Intn(7)
	if r.Intn(4) == 0 {
		n = r.Intn(21)
	}
	if n == 0 && r.Intn(4) > 0 {
		n = 1
	}
	in := PostingsIn{Force: r.Intn(4) == 0, Balances: map[string]map[string]string{}, Postings: []PostingOut{}}
	nacc := 2 + r.Intn(len(pAccounts)-1)
	accs := pAccounts[:nacc]
	if c.Wide && r.Intn(5) == 0 {
		// many distinct accounts: exercises the string sort of va10 < va2
		accs = nil
		for i := 0; i < 15; i++ {
			accs = append(accs, fmt.Sprintf("acc%d", i))
		}
		n = 10 + r.Intn(11)
	}
	assets := pAssets[:1+r.Intn(len(pAssets))]
	for i := 0; i < n; i++ {
		p := PostingOut{S: gen.Pick(r, accs), D: gen.Pick(r, accs), A: gen.Pick(r, assets)}
		switch r.Intn(12) {
		case 0:
			p.Amt = "0"
		case 1:
			p.Amt = gen.BigAmount(r).String()
		case 2:
			p.Amt = fmt.Sprint(r.Intn(1000))
		default:
			p.Amt = fmt.Sprint(r.Intn(60))
		}
		if r.Intn(10) == 0 {
			p.D = p.S
		}
		in.Postings = append(in.Postings, p)
	}
	if n > 0 && r.Intn(12) == 0 {
		p := &in.Postings[r.Intn(n)]
		switch r.Intn(4) {
		case 0:
			p.S = gen.Pick(r, []string{"", "bad account", "a:", "é"})
		case 1:
			p.D = gen.Pick(r, []string{"", "bad account", "a:", "é"})
		case 2:
			p.A = gen.Pick(r, []string{"", "usd", "USD//2", "US D"})
		default:
			p.Amt = "-" + fmt.Sprint(1+r.Intn(9))
		}
	}
	for _, a := range accs {
		for _, as := range pAssets {
			var v string
			switch r.Intn(8) {
			case 0:
				continue
			case 1:
				v = "0"
			case 2:
				v = "-" + fmt.Sprint(1+r.Intn(50))
			case 3:
				v = gen.BigAmount(r).String()
			default:
				v = fmt.Sprint(r.Intn(150))
			}
			if in.Balances[a] == nil {
				in.Balances[a] = map[string]string{}
			}
			in.Balances[a][as] = v
		}
	}
	return in
}

func runPostings(in PostingsIn) (out PostingsOut) {
	out.Vars = map[string]string{}
	out.Panic = gen.Guard(func() {
		var txData ledger.TransactionData
		for _, p := range in.Postings {
			amt, ok := new(big.Int).SetString(p.Amt, 10)
			if !ok {
				panic("harness: bad amount " + p.Amt)
			}
			txData.Postings = append(txData.Postings, ledger.NewPosting(p.S, p.D, p.A, amt))
		}
		rs := ledgercontroller.TxToScriptData(txData, in.Force)
		out.Plain = rs.Plain
		for k, v := range rs.Vars {
			out.Vars[k] = v
		}
		out.Run = RunReal(rs.Plain, RunEnv{Vars: rs.Vars, Balances: in.Balances, Meta: map[string]map[string]string{}}, false, caseTimeout)
	})
	if out.Run.Postings == nil {
		out.Run.Postings = []PostingOut{}
	}
	return out
}

func init() {
	gen.Register("postings", func(c *gen.Ctx) error {
		if c.Replay != "" {
			ins, err := c.ReplayInputs("postings")
			if err != nil {
				return err
			}
			for _, raw := range ins {
				var in PostingsIn
				if err := json.Unmarshal(raw, &in); err != nil {
					return err
				}
				if err := c.Emit("postings", in, runPostings(in)); err != nil {
					return err
				}
			}
			return nil
		}
		for i := 0; i < c.N; i++ {
			in := genPostings(c)
			if err := c.Emit("postings", in, runPostings(in)); err != nil {
				return err
			}
		}
		return nil
	})
	_ = sort.Strings
}
