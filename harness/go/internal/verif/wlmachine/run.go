//go:build verif

package wlmachine

import (
	"context"
	"errors"
	"fmt"
	"math/big"
	"sort"
	"strings"
	"time"

	"github.com/formancehq/go-libs/v5/pkg/storage/bun/paginate"
	"github.com/formancehq/go-libs/v5/pkg/storage/postgres"
	"github.com/formancehq/go-libs/v5/pkg/types/metadata"

	ledger "github.com/formancehq/ledger/internal"
	ledgercontroller "github.com/formancehq/ledger/internal/controller/ledger"
	"github.com/formancehq/ledger/internal/machine"
	"github.com/formancehq/ledger/internal/machine/script/compiler"
	"github.com/formancehq/ledger/internal/machine/vm/program"
	"github.com/formancehq/ledger/internal/storage/common"
	ledgerstore "github.com/formancehq/ledger/internal/storage/ledger"
)

// ---- the store handed to the real runtime adapter -----------------------------
//
// Only GetBalances and Accounts().GetOne are reachable from
// MachineNumscriptRuntimeAdapter.Execute; everything else would nil-panic
// (and be reported as a panic).  GetBalances mirrors the contract of
// internal/storage/ledger.Store.GetBalances: every queried (account, asset)
// pair gets an entry, 0 when unknown.  GetOne mirrors the accounts resource:
// unknown account → postgres.ErrNotFound.

type fakeStore struct {
	ledgercontroller.Store
	balances map[string]map[string]*big.Int
	meta     map[string]map[string]string
	queried  [][2]string
}

func (s *fakeStore) GetBalances(_ context.Context, q ledgerstore.BalanceQuery) (ledger.Balances, error) {
	ret := ledger.Balances{}
	for account, assets := range q {
		if _, ok := ret[account]; !ok {
			ret[account] = map[string]*big.Int{}
		}
		for _, asset := range assets {
			s.queried = append(s.queried, [2]string{account, asset})
			v := new(big.Int)
			if b, ok := s.balances[account][asset]; ok {
				v.Set(b)
			}
			ret[account][asset] = v
		}
	}
	return ret, nil
}

type fakeAccounts struct{ s *fakeStore }

func (a fakeAccounts) GetOne(_ context.Context, q common.ResourceQuery[any]) (*ledger.Account, error) {
	addr := ""
	if q.Builder != nil {
		_ = q.Builder.Walk(func(op, key string, value *any) error {
			if key == "address" {
				addr, _ = (*value).(string)
			}
			return nil
		})
	}
	m, ok := a.s.meta[addr]
	if !ok {
		return nil, postgres.ErrNotFound
	}
	md := metadata.Metadata{}
	for k, v := range m {
		md[k] = v
	}
	return &ledger.Account{Address: addr, Metadata: md}, nil
}

func (a fakeAccounts) Count(context.Context, common.ResourceQuery[any]) (int, error) {
	return 0, errors.New("not implemented")
}

func (a fakeAccounts) Paginate(context.Context, common.PaginatedQuery[any]) (*paginate.Cursor[ledger.Account], error) {
	return nil, errors.New("not implemented")
}

func (s *fakeStore) Accounts() common.PaginatedResource[ledger.Account, any] { return fakeAccounts{s} }

// ---- canonical output ----------------------------------------------------------

type PostingOut struct {
	S   string `json:"s"`
	D   string `json:"d"`
	A   string `json:"a"`
	Amt string `json:"amt"`
}

type ProgramOut struct {
	Instr  []int    `json:"instr"`
	Res    []string `json:"res"`
	Needed []string `json:"needed"`
}

type RunOut struct {
	// CompileErr: "" | "syntax" | exact message of the compiler's logic error
	CompileErr string      `json:"compileErr"`
	Program    *ProgramOut `json:"program,omitempty"`
	// CompileMsg: first raw compiler message (diagnostics only, never compared)
	CompileMsg string `json:"compileMsg,omitempty"`
	// Err: "" | "<stage>:<kind>"
	Err      string                       `json:"err"`
	ErrMsg   string                       `json:"errMsg,omitempty"`
	Postings []PostingOut                 `json:"postings"`
	TxMeta   map[string]string            `json:"txMeta"`
	AccMeta  map[string]map[string]string `json:"accMeta"`
	// ResultNil: the adapter returned a nil result (must hold whenever Err != "")
	ResultNil bool `json:"resultNil"`
	// Queried (account, asset) pairs, sorted, deduplicated.
	Queried []string `json:"queried"`
	Panic   string   `json:"panic,omitempty"`
	Timeout bool     `json:"timeout,omitempty"`
}

var logicMsgs = []string{
	"variable not declared",
	"asset should respect pattern",
	"tried to do an arithmetic operation with",
	"the expression in monetary literal should be of type",
	"send monetary all: the expression should be of type",
	"cannot take all balance of an allotment source",
	"send monetary: the expression should be of type",
	"set_account_meta: expression is of type",
	"save monetary all from account:",
	"save monetary from account:",
	"duplicate variable $",
	"variable $",
	"wrong type:",
	"@world is already set to an unbounded overdraft",
	"cannot take all balance of an unbounded source",
	"an unbounded subsource can only be in last position",
	"two uses of `remaining` in the same allocation",
	"the sum of known portions is greater than 100%",
	"the sum of portions might be less than 100%",
	"the sum of portions might be greater than 100%",
	"known portions are already equal to 100%",
	"portion must be between 0% and 100% inclusive",
	"invalid fractional format",
	"invalid percent format",
	"invalid format",
	"invalid syntax",
	"invalid monetary int",
	"number of unique constants exceeded",
	"number of variables exceeded",
	"allocating variable resource",
	"internal compiler error",
}

func classifyCompile(errs []compiler.CompileError) string {
	if len(errs) == 0 {
		return ""
	}
	if len(errs) == 1 {
		m := errs[0].Msg
		if strings.HasSuffix(m, "is already empty at this stage") {
			return "already empty at this stage"
		}
		for _, p := range logicMsgs {
			if strings.HasPrefix(m, p) {
				return m
			}
		}
	}
	return "syntax"
}

func classifyRun(err error) string {
	if err == nil {
		return ""
	}
	msg := err.Error()
	stage := "other"
	switch {
	case strings.HasPrefix(msg, "failed to set vars from JSON"):
		stage = "vars"
	case strings.HasPrefix(msg, "failed to resolve resources"):
		stage = "resources"
	case strings.HasPrefix(msg, "failed to resolve balances"):
		stage = "balances"
	case strings.HasPrefix(msg, "failed to execute machine"):
		stage = "exec"
	}
	has := func(s string) bool { return strings.Contains(msg, s) }
	kind := "other"
	switch {
	case stage == "vars" && has("missing variable"):
		kind = "missing"
	case stage == "vars" && has("extraneous variable"):
		kind = "extraneous"
	case stage == "vars" && has("invalid JSON value"):
		kind = "invalid"
	case stage == "resources" && errors.Is(err, &machine.ErrMissingMetadata{}):
		kind = "missing-meta"
	case stage == "resources" && errors.Is(err, postgres.ErrNotFound):
		kind = "account-not-found"
	case stage == "resources":
		kind = "invalid-meta"
	case stage == "balances" && errors.Is(err, &machine.ErrNegativeAmount{}):
		kind = "negative-balance"
	case stage == "balances" && errors.Is(err, &machine.ErrInvalidVars{}):
		kind = "world-source"
	case errors.Is(err, &machine.ErrInsufficientFund{}):
		kind = "insufficient"
	case errors.Is(err, machine.ErrScriptFailed):
		kind = "failed"
	case has("cannot send a monetary with a negative amount"):
		kind = "negative-max"
	case has("OP_MONETARY_SUB"):
		kind = "sub-asset"
	case errors.Is(err, &machine.ErrInvalidScript{}):
		switch {
		case has("missing ") && has(" balance from "):
			kind = "missing-balance"
		case has("cannot take from different assets"):
			kind = "take-asset"
		case has("cannot assemble different assets"):
			kind = "assemble-asset"
		case has("cannot add different assets"):
			kind = "add-asset"
		case has("sum of portions exceeded 100%"):
			kind = "allot-exceeded"
		case has("two uses of `remaining`"):
			kind = "allot-two-remaining"
		default:
			kind = "invalid-script"
		}
	}
	return stage + ":" + kind
}

func portionString(p machine.Portion) string {
	if p.Remaining {
		return "remaining"
	}
	return p.Specific.Num().String() + "/" + p.Specific.Denom().String()
}

func valueString(v machine.Value) string {
	switch x := v.(type) {
	case machine.AccountAddress:
		return "account:" + string(x)
	case machine.Asset:
		return "asset:" + string(x)
	case *machine.MonetaryInt:
		return "number:" + x.String()
	case machine.String:
		return "string:" + string(x)
	case machine.Portion:
		return "portion:" + portionString(x)
	case machine.Monetary:
		return "monetary:" + string(x.Asset) + " " + x.Amount.String()
	default:
		return fmt.Sprintf("other:%T", v)
	}
}

func dumpProgram(p *program.Program) *ProgramOut {
	out := &ProgramOut{Instr: make([]int, len(p.Instructions)), Res: []string{}, Needed: []string{}}
	for i, b := range p.Instructions {
		out.Instr[i] = int(b)
	}
	for _, r := range p.Resources {
		switch x := r.(type) {
		case program.Constant:
			out.Res = append(out.Res, "const:"+valueString(x.Inner))
		case program.Variable:
			out.Res = append(out.Res, fmt.Sprintf("var:%s:%s", x.Typ.String(), x.Name))
		case program.VariableAccountMetadata:
			out.Res = append(out.Res, fmt.Sprintf("meta:%s:%s:%d:%s", x.Typ.String(), x.Name, x.Account, x.Key))
		case program.VariableAccountBalance:
			out.Res = append(out.Res, fmt.Sprintf("balance:%s:%d:%d", x.Name, x.Account, x.Asset))
		case program.Monetary:
			out.Res = append(out.Res, fmt.Sprintf("mon:%d:%s", x.Asset, x.Amount.String()))
		default:
			out.Res = append(out.Res, fmt.Sprintf("other:%T", r))
		}
	}
	type pair struct{ a, m int }
	var ps []pair
	for a, ms := range p.NeededBalances {
		for m := range ms {
			ps = append(ps, pair{int(a), int(m)})
		}
	}
	sort.Slice(ps, func(i, j int) bool {
		if ps[i].a != ps[j].a {
			return ps[i].a < ps[j].a
		}
		return ps[i].m < ps[j].m
	})
	for _, q := range ps {
		out.Needed = append(out.Needed, fmt.Sprintf("%d:%d", q.a, q.m))
	}
	return out
}

// RunIn is everything the real runtime needs besides the script text.
type RunEnv struct {
	Vars     map[string]string            `json:"vars"`
	Balances map[string]map[string]string `json:"balances"`
	Meta     map[string]map[string]string `json:"meta"`
}

func firstLine(s string) string {
	if i := strings.IndexByte(s, '\n'); i >= 0 {
		return s[:i]
	}
	return s
}

// RunReal compiles `text` with the real compiler and runs it the way the
// controller does: DefaultNumscriptParser.Parse (compiler.Compile) and
// MachineNumscriptRuntimeAdapter.Execute (SetVarsFromJSON, ResolveResources,
// ResolveBalances, Execute).  Panics are recovered; a run that does not finish
// within `timeout` is reported as Timeout.
func RunReal(text string, env RunEnv, withProgram bool, timeout time.Duration) RunOut {
	done := make(chan RunOut, 1)
	go func() {
		var out RunOut
		out.Postings = []PostingOut{}
		out.TxMeta = map[string]string{}
		out.AccMeta = map[string]map[string]string{}
		out.Queried = []string{}
		defer func() {
			if r := recover(); r != nil {
				out.Panic = firstLine(fmt.Sprintf("panic: %v", r))
				out.Postings = []PostingOut{}
				out.TxMeta = map[string]string{}
				out.AccMeta = map[string]map[string]string{}
			}
			done <- out
		}()
		art := compiler.CompileFull(text)
		out.CompileErr = classifyCompile(art.Errors)
		if len(art.Errors) > 0 {
			out.CompileMsg = fmt.Sprintf("%d:%d %s", art.Errors[0].StartL, art.Errors[0].StartC, art.Errors[0].Msg)
		}
		if len(art.Errors) > 0 && out.CompileErr == "" {
			out.CompileErr = "syntax"
		}
		rt, perr := ledgercontroller.NewDefaultNumscriptParser().Parse(text)
		if (perr != nil) != (out.CompileErr != "") {
			panic("Parse and CompileFull disagree")
		}
		if perr != nil {
			out.ResultNil = true
			return
		}
		if withProgram && art.Program != nil {
			out.Program = dumpProgram(art.Program)
		}
		st := &fakeStore{balances: map[string]map[string]*big.Int{}, meta: env.Meta}
		for a, m := range env.Balances {
			st.balances[a] = map[string]*big.Int{}
			for k, v := range m {
				b, ok := new(big.Int).SetString(v, 10)
				if !ok {
					panic("harness: bad balance " + v)
				}
				st.balances[a][k] = b
			}
		}
		vars := map[string]string{}
		for k, v := range env.Vars {
			vars[k] = v
		}
		res, err := rt.Execute(context.Background(), st, vars)
		seen := map[string]bool{}
		for _, q := range st.queried {
			k := q[0] + " " + q[1]
			if !seen[k] {
				seen[k] = true
				out.Queried = append(out.Queried, k)
			}
		}
		sort.Strings(out.Queried)
		out.ResultNil = res == nil
		if err != nil {
			out.Err = classifyRun(err)
			out.ErrMsg = firstLine(err.Error())
			if len(out.ErrMsg) > 200 {
				out.ErrMsg = out.ErrMsg[:200]
			}
		}
		if res != nil {
			for _, p := range res.Postings {
				out.Postings = append(out.Postings, PostingOut{S: p.Source, D: p.Destination, A: p.Asset, Amt: p.Amount.String()})
			}
			for k, v := range res.Metadata {
				out.TxMeta[k] = v
			}
			for a, m := range res.AccountMetadata {
				out.AccMeta[a] = map[string]string{}
				for k, v := range m {
					out.AccMeta[a][k] = v
				}
			}
		}
	}()
	select {
	case o := <-done:
		return o
	case <-time.After(timeout):
		return RunOut{Timeout: true, Panic: "timeout", Postings: []PostingOut{}, TxMeta: map[string]string{},
			AccMeta: map[string]map[string]string{}, Queried: []string{}}
	}
}
