//go:build verif

package wlmachine

import (
	"encoding/base64"
	"encoding/json"
	"math/rand"
	"sort"
	"strings"
	"time"

	"github.com/formancehq/ledger/internal/verif/gen"
)

// Workload "malformed": mutated valid programs and random bytes through the real
// compiler and VM with recover and a per-case timeout (C27).  The Lean side has
// no model of the ANTLR parser: it only records panics / hangs / partial results.

type MalformedIn struct {
	// Source text, base64 (may contain any byte).
	Src64 string `json:"src64"`
	Kind  string `json:"kind"`
	RunEnv
}

var tokens = []string{
	"vars", "{", "}", "(", ")", "[", "]", "send", "source", "destination", "=", "max", "from", "to",
	"remaining", "kept", "allowing overdraft up to", "allowing unbounded overdraft", "save", "print", "fail",
	"set_tx_meta", "set_account_meta", "meta", "balance", "monetary", "account", "asset", "number", "portion", "string",
	"@world", "@a", "@b:c", "$x", "$v0", "$v1", "USD", "EUR/2", "*", "+", "-", "1/2", "50%", "1/0", "150%", "0", "1", "42",
	"18446744073709551616", "\"k\"", "\"\\q\"", "\"", ",", "\n", "\n", "\n", " ", "//c\n", "/*", "*/", "%", "@", "$", "é", "\x00", "\t",
}

func mutate(r *rand.Rand, s string) string {
	b := []byte(s)
	k := 1
	if r.Intn(3) == 0 {
		k = 2 + r.Intn(3)
	}
	for i := 0; i < k; i++ {
		if len(b) == 0 {
			b = []byte(gen.Pick(r, tokens))
			continue
		}
		pos := r.Intn(len(b))
		switch r.Intn(8) {
		case 0: // delete a span
			end := pos + 1 + r.Intn(6)
			if end > len(b) {
				end = len(b)
			}
			b = append(b[:pos:pos], b[end:]...)
		case 1: // insert a token
			t := gen.Pick(r, tokens)
			b = append(b[:pos:pos], append([]byte(" "+t+" "), b[pos:]...)...)
		case 2: // flip a byte
			b[pos] = byte(r.Intn(256))
		case 3: // duplicate a span
			end := pos + 1 + r.Intn(30)
			if end > len(b) {
				end = len(b)
			}
			span := append([]byte{}, b[pos:end]...)
			b = append(b[:end:end], append(span, b[end:]...)...)
		case 4: // swap two lines
			lines := strings.Split(string(b), "\n")
			if len(lines) > 2 {
				i, j := r.Intn(len(lines)), r.Intn(len(lines))
				lines[i], lines[j] = lines[j], lines[i]
				b = []byte(strings.Join(lines, "\n"))
			}
		case 5: // truncate
			b = b[:pos]
		case 6: // replace a number by a huge one / a token by another
			t := gen.Pick(r, tokens)
			end := pos + r.Intn(4)
			if end > len(b) {
				end = len(b)
			}
			b = append(b[:pos:pos], append([]byte(t), b[end:]...)...)
		default: // remove a newline
			if i := strings.IndexByte(string(b[pos:]), '\n'); i >= 0 {
				b = append(b[:pos+i:pos+i], b[pos+i+1:]...)
			}
		}
	}
	return string(b)
}

func genMalformed(c *gen.Ctx) MalformedIn {
	r := c.R
	sc, env := GenProgram(r, c.Wide)
	text := Render(&sc)
	kind := "mutated"
	switch r.Intn(10) {
	case 0:
		kind = "bytes"
		n := r.Intn(200)
		b := make([]byte, n)
		for i := range b {
			b[i] = byte(r.Intn(256))
		}
		text = string(b)
	case 1:
		kind = "tokens"
		n := r.Intn(60)
		var sb strings.Builder
		for i := 0; i < n; i++ {
			sb.WriteString(gen.Pick(r, tokens))
			if r.Intn(3) > 0 {
				sb.WriteString(" ")
			}
		}
		text = sb.String()
	case 2:
		kind = "valid-vars-mutated"
		// valid program, damaged variable values / missing / extra variables
		keys := make([]string, 0, len(env.Vars))
		for k := range env.Vars {
			keys = append(keys, k)
		}
		sort.Strings(keys) // fixed order: map iteration would break seed determinism
		for _, k := range keys {
			switch r.Intn(4) {
			case 0:
				env.Vars[k] = gen.Pick(r, []string{"", "null", " null ", "-1", "USD", "USD -1", "@a", "1/0", "\x00", "[USD 1]", "{}", "1e400", "99999999999999999999999999999999999999/1"})
			case 1:
				delete(env.Vars, k)
			}
		}
		if r.Intn(3) == 0 {
			env.Vars[gen.Pick(r, []string{"zz", "v0", "v9", ""})] = "1"
		}
	default:
		text = mutate(r, text)
	}
	return MalformedIn{Src64: base64.StdEncoding.EncodeToString([]byte(text)), Kind: kind, RunEnv: env}
}

func runMalformed(in MalformedIn) RunOut {
	raw, err := base64.StdEncoding.DecodeString(in.Src64)
	if err != nil {
		return RunOut{Panic: "harness: bad base64"}
	}
	return RunReal(string(raw), in.RunEnv, false, 20*time.Second)
}

func init() {
	gen.Register("malformed", func(c *gen.Ctx) error {
		if c.Replay != "" {
			ins, err := c.ReplayInputs("malformed")
			if err != nil {
				return err
			}
			for _, raw := range ins {
				var in MalformedIn
				if err := json.Unmarshal(raw, &in); err != nil {
					return err
				}
				if err := c.Emit("malformed", in, runMalformed(in)); err != nil {
					return err
				}
			}
			return nil
		}
		for i := 0; i < c.N; i++ {
			in := genMalformed(c)
			if err := c.Emit("malformed", in, runMalformed(in)); err != nil {
				return err
			}
		}
		return nil
	})
}
