//go:build verif

package wlmachine

import (
	"encoding/json"
	"os"
	"time"

	"github.com/formancehq/ledger/internal/verif/gen"
)

// Workload "prog": generated Numscript programs (AST + rendered text) × variable
// values × balances × account metadata through the REAL compiler and the REAL
// machine runtime adapter.  The handler name can be overridden with
// VERIF_PROG_HANDLER / the `-as` argument (prog-C22, prog-C23, prog-C27) so that
// each property evaluates its own predicate on the same cases.

type ProgIn struct {
	Script Script `json:"script"`
	Src    string `json:"src"`
	RunEnv
}

const caseTimeout = 10 * time.Second

func progHandlerName(_ *gen.Ctx) string {
	if v := os.Getenv("VERIF_PROG_HANDLER"); v != "" {
		return v
	}
	return "prog"
}

func init() {
	gen.Register("prog", func(c *gen.Ctx) error {
		name := progHandlerName(c)
		if c.Replay != "" {
			for _, f := range []string{"prog", "prog-C22", "prog-C23", "prog-C27"} {
				ins, err := c.ReplayInputs(f)
				if err != nil {
					return err
				}
				for _, raw := range ins {
					var in ProgIn
					if err := json.Unmarshal(raw, &in); err != nil {
						return err
					}
					if in.Src == "" {
						in.Src = Render(&in.Script)
					}
					if err := c.Emit(f, in, RunReal(in.Src, in.RunEnv, true, caseTimeout)); err != nil {
						return err
					}
				}
			}
			return nil
		}
		for i := 0; i < c.N; i++ {
			sc, env := GenProgram(c.R, c.Wide)
			in := ProgIn{Script: sc, Src: Render(&sc), RunEnv: env}
			if err := c.Emit(name, in, RunReal(in.Src, env, true, caseTimeout)); err != nil {
				return err
			}
		}
		return nil
	})
}
