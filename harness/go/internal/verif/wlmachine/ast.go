//go:build verif

// Package wlmachine holds the correspondence workloads of the Numscript machine
// area (C22, C23, C25, C27): `prog`, `postings`, `malformed`.
package wlmachine

import (
	"strings"
)

// ---- Numscript AST (mirrors lean/Ledger/Machine/Ast.lean) -------------------
//
// The AST is what the Lean model runs on; the pretty-printed text is what the
// real compiler gets.  The Lean handler re-renders the AST and compares it with
// the text, so the printer below is not trusted.

// Expr: k = acct|asset|num|str|portion|mon|var|add|sub
type Expr struct {
	K string `json:"k"`
	S string `json:"s,omitempty"`   // acct (without @), asset, str (raw, no escapes), portion text, var name (without $), num (decimal)
	A *Expr  `json:"a,omitempty"`   // mon: asset expression
	N string `json:"n,omitempty"`   // mon: amount (decimal, NUMBER token)
	L *Expr  `json:"l,omitempty"`   // add/sub
	R *Expr  `json:"r,omitempty"`   // add/sub (always atomic: the grammar has no parentheses)
}

// Overdraft: k = unbounded|upto
type Overdraft struct {
	K string `json:"k"`
	E *Expr  `json:"e,omitempty"`
}

// Source: k = acct|max|inorder
type Source struct {
	K  string     `json:"k"`
	E  *Expr      `json:"e,omitempty"`  // acct: account expr; max: cap
	Od *Overdraft `json:"od,omitempty"` // acct
	S  *Source    `json:"s,omitempty"`  // max
	Ss []Source   `json:"ss,omitempty"` // inorder
}

// Portion: k = lit|var|remaining
type Portion struct {
	K string `json:"k"`
	S string `json:"s,omitempty"`
}

type AllotSrcItem struct {
	P Portion `json:"p"`
	S Source  `json:"s"`
}

// VSource: k = src|allot
type VSource struct {
	K     string         `json:"k"`
	S     *Source        `json:"s,omitempty"`
	Items []AllotSrcItem `json:"items,omitempty"`
}

// KD: k = kept|to
type KD struct {
	K string `json:"k"`
	D *Dest  `json:"d,omitempty"`
}

type InOrderDstItem struct {
	E Expr `json:"e"`
	D KD   `json:"d"`
}

type AllotDstItem struct {
	P Portion `json:"p"`
	D KD      `json:"d"`
}

// Dest: k = acct|inorder|allot
type Dest struct {
	K     string           `json:"k"`
	E     *Expr            `json:"e,omitempty"`
	Items []InOrderDstItem `json:"items,omitempty"`
	Rem   *KD              `json:"rem,omitempty"`
	Allot []AllotDstItem   `json:"allot,omitempty"`
}

// Stmt: k = print|save|saveall|txmeta|accmeta|fail|send|sendall
type Stmt struct {
	K        string   `json:"k"`
	E        *Expr    `json:"e,omitempty"`   // print/txmeta/accmeta value; save monetary; saveall asset; send monetary; sendall asset
	Acc      *Expr    `json:"acc,omitempty"` // save/saveall/accmeta
	Key      string   `json:"key,omitempty"` // txmeta/accmeta (raw, no escapes)
	Src      *VSource `json:"src,omitempty"`
	Dst      *Dest    `json:"dst,omitempty"`
	DstFirst bool     `json:"dstFirst,omitempty"` // text order only
}

// Origin: k = meta|balance
type Origin struct {
	K     string `json:"k"`
	Acc   Expr   `json:"acc"`
	Key   string `json:"key,omitempty"`
	Asset *Expr  `json:"asset,omitempty"`
}

type VarDecl struct {
	Ty   string  `json:"ty"`
	Name string  `json:"name"`
	Orig *Origin `json:"orig,omitempty"`
}

type Script struct {
	Vars  []VarDecl `json:"vars"`
	Stmts []Stmt    `json:"stmts"`
}

// ---- pretty printer ----------------------------------------------------------

type printer struct{ sb strings.Builder }

func (p *printer) w(s ...string) {
	for _, x := range s {
		p.sb.WriteString(x)
	}
}

func (p *printer) expr(e *Expr) {
	switch e.K {
	case "acct":
		p.w("@", e.S)
	case "asset", "num", "portion":
		p.w(e.S)
	case "str":
		p.w("\"", e.S, "\"")
	case "mon":
		p.w("[")
		p.expr(e.A)
		p.w(" ", e.N, "]")
	case "var":
		p.w("$", e.S)
	case "add":
		p.expr(e.L)
		p.w(" + ")
		p.expr(e.R)
	case "sub":
		p.expr(e.L)
		p.w(" - ")
		p.expr(e.R)
	}
}

func (p *printer) portion(x Portion) {
	switch x.K {
	case "lit":
		p.w(x.S)
	case "var":
		p.w("$", x.S)
	case "remaining":
		p.w("remaining")
	}
}

func ind(n int) string { return strings.Repeat("  ", n) }

func (p *printer) source(s *Source, d int) {
	switch s.K {
	case "acct":
		p.expr(s.E)
		if s.Od != nil {
			if s.Od.K == "unbounded" {
				p.w(" allowing unbounded overdraft")
			} else {
				p.w(" allowing overdraft up to ")
				p.expr(s.Od.E)
			}
		}
	case "max":
		p.w("max ")
		p.expr(s.E)
		p.w(" from ")
		p.source(s.S, d)
	case "inorder":
		p.w("{\n")
		for i := range s.Ss {
			p.w(ind(d + 1))
			p.source(&s.Ss[i], d+1)
			p.w("\n")
		}
		p.w(ind(d), "}")
	}
}

func (p *printer) vsource(s *VSource, d int) {
	if s.K == "src" {
		p.source(s.S, d)
		return
	}
	p.w("{\n")
	for i := range s.Items {
		p.w(ind(d + 1))
		p.portion(s.Items[i].P)
		p.w(" from ")
		p.source(&s.Items[i].S, d+1)
		p.w("\n")
	}
	p.w(ind(d), "}")
}

func (p *printer) kd(k *KD, d int) {
	if k.K == "kept" {
		p.w("kept")
		return
	}
	p.w("to ")
	p.dest(k.D, d)
}

func (p *printer) dest(x *Dest, d int) {
	switch x.K {
	case "acct":
		p.expr(x.E)
	case "inorder":
		p.w("{\n")
		for i := range x.Items {
			p.w(ind(d+1), "max ")
			p.expr(&x.Items[i].E)
			p.w(" ")
			p.kd(&x.Items[i].D, d+1)
			p.w("\n")
		}
		p.w(ind(d+1), "remaining ")
		p.kd(x.Rem, d+1)
		p.w("\n", ind(d), "}")
	case "allot":
		p.w("{\n")
		for i := range x.Allot {
			p.w(ind(d + 1))
			p.portion(x.Allot[i].P)
			p.w(" ")
			p.kd(&x.Allot[i].D, d+1)
			p.w("\n")
		}
		p.w(ind(d), "}")
	}
}

func (p *printer) stmt(s *Stmt) {
	switch s.K {
	case "print":
		p.w("print ")
		p.expr(s.E)
	case "save":
		p.w("save ")
		p.expr(s.E)
		p.w(" from ")
		p.expr(s.Acc)
	case "saveall":
		p.w("save [")
		p.expr(s.E)
		p.w(" *] from ")
		p.expr(s.Acc)
	case "txmeta":
		p.w("set_tx_meta(\"", s.Key, "\", ")
		p.expr(s.E)
		p.w(")")
	case "accmeta":
		p.w("set_account_meta(")
		p.expr(s.Acc)
		p.w(", \"", s.Key, "\", ")
		p.expr(s.E)
		p.w(")")
	case "fail":
		p.w("fail")
	case "send", "sendall":
		p.w("send ")
		if s.K == "sendall" {
			p.w("[")
			p.expr(s.E)
			p.w(" *]")
		} else {
			p.expr(s.E)
		}
		p.w(" (\n")
		if s.DstFirst {
			p.w("  destination = ")
			p.dest(s.Dst, 1)
			p.w("\n  source = ")
			p.vsource(s.Src, 1)
		} else {
			p.w("  source = ")
			p.vsource(s.Src, 1)
			p.w("\n  destination = ")
			p.dest(s.Dst, 1)
		}
		p.w("\n)")
	}
}

// Render prints the script as Numscript source text.
func Render(s *Script) string {
	p := &printer{}
	if len(s.Vars) > 0 {
		p.w("vars {\n")
		for i := range s.Vars {
			v := &s.Vars[i]
			p.w("  ", v.Ty, " $", v.Name)
			if v.Orig != nil {
				if v.Orig.K == "meta" {
					p.w(" = meta(")
					p.expr(&v.Orig.Acc)
					p.w(", \"", v.Orig.Key, "\")")
				} else {
					p.w(" = balance(")
					p.expr(&v.Orig.Acc)
					p.w(", ")
					p.expr(v.Orig.Asset)
					p.w(")")
				}
			}
			p.w("\n")
		}
		p.w("}\n")
	}
	for i := range s.Stmts {
		if i > 0 {
			p.w("\n")
		}
		p.stmt(&s.Stmts[i])
	}
	p.w("\n")
	return p.sb.String()
}
