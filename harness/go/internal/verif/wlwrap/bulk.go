//go:build verif

package wlwrap

import (
	"bytes"
	"context"
	"encoding/json"
	"fmt"
	"io"
	"net/http"
	"net/http/httptest"
	"os"
	"strings"

	"github.com/formancehq/ledger/internal/api/bulking"
	"github.com/formancehq/ledger/internal/api/common"
	v2 "github.com/formancehq/ledger/internal/api/v2"
	"github.com/formancehq/ledger/internal/verif/gen"
)

// Workload "bulk": the REAL Bulker (and, for via≠direct, the REAL v2 bulk HTTP
// handler with the REAL JSON / JSON-stream / script-stream body handlers) over
// the scripted fake controller.  Every element carries a unique write id that is
// visible in its result (LogID = seq*1000 + id where seq counts the successful
// applies so far; failures carry the id in the error text).  For parallel runs
// the fake delays each apply by the scripted amounts so completion order differs
// from submission order; the fake logs the order in which elements were applied.

type bkEl struct {
	Kind   string `json:"kind"`
	OK     bool   `json:"ok"`
	W      int    `json:"w"`
	Before int    `json:"before,omitempty"`
	After  int    `json:"after,omitempty"`
}

type bkIn struct {
	Via      string `json:"via"` // direct | json | stream | text
	Atomic   bool   `json:"atomic"`
	Cof      bool   `json:"cof"`
	Parallel bool   `json:"parallel"`
	Par      int    `json:"par"`
	Els      []bkEl `json:"els"`
	F        Faults `json:"f"`
}

type bkRes struct {
	// Class: ok | scripted<id> | canceled | txdone | other:…
	Class string `json:"class"`
	LogID uint64 `json:"logID"`
	// EID: BulkElementResult.ElementID (direct only)
	EID int `json:"eid"`
	// RT: responseType (HTTP only)
	RT string `json:"rt"`
	// Ref: write id carried by data.reference (create / revert), -1 when absent
	Ref int `json:"ref"`
}

type bkOut struct {
	// RunErr: class of the error returned by Bulker.Run (direct)
	RunErr string `json:"runErr"`
	// Status / TopErr: HTTP status and top-level errorCode (HTTP)
	Status  int       `json:"status"`
	TopErr  string    `json:"topErr"`
	Results []bkRes   `json:"results"`
	Applied []Applied `json:"applied"`
	Trace   []Item    `json:"trace"`
	Durable []int     `json:"durable"`
	Panic   string    `json:"panic,omitempty"`
}

const (
	ctJSON   = "application/json"
	ctText   = "application/vnd.formance.ledger.api.v2.bulk+script-stream"
	ctStream = "application/vnd.formance.ledger.api.v2.bulk+json-stream"
)

func elementJSON(e bkEl) map[string]any {
	m := map[string]any{"ik": ik(e.W)}
	md := map[string]string{"w": ik(e.W)}
	switch e.Kind {
	case KCreate:
		m["action"] = bulking.ActionCreateTransaction
		m["data"] = map[string]any{"postings": []any{map[string]any{"source": "world", "destination": "acc", "amount": 1, "asset": "USD"}}, "reference": ik(e.W)}
	case KRevert:
		m["action"] = bulking.ActionRevertTransaction
		m["data"] = map[string]any{"id": 1}
	case KSaveTxMeta:
		m["action"] = bulking.ActionAddMetadata
		m["data"] = map[string]any{"targetType": "TRANSACTION", "targetId": 1, "metadata": md}
	case KSaveAcMeta:
		m["action"] = bulking.ActionAddMetadata
		m["data"] = map[string]any{"targetType": "ACCOUNT", "targetId": "acc", "metadata": md}
	case KDelTxMeta:
		m["action"] = bulking.ActionDeleteMetadata
		m["data"] = map[string]any{"targetType": "TRANSACTION", "targetId": 1, "key": ik(e.W)}
	case KDelAcMeta:
		m["action"] = bulking.ActionDeleteMetadata
		m["data"] = map[string]any{"targetType": "ACCOUNT", "targetId": "acc", "key": ik(e.W)}
	default:
		panic("no bulk action for kind " + e.Kind)
	}
	return m
}

func bulkBody(in bkIn) (string, []byte) {
	switch in.Via {
	case "json":
		arr := make([]any, 0, len(in.Els))
		for _, e := range in.Els {
			arr = append(arr, elementJSON(e))
		}
		b, _ := json.Marshal(arr)
		return ctJSON, b
	case "stream":
		var buf bytes.Buffer
		for _, e := range in.Els {
			b, _ := json.Marshal(elementJSON(e))
			buf.Write(b)
			buf.WriteByte('\n')
		}
		return ctStream, buf.Bytes()
	case "text":
		var buf bytes.Buffer
		for _, e := range in.Els {
			fmt.Fprintf(&buf, "//script ik=%s\nsend [USD 1] (\n  source = @world\n  destination = @acc\n)\n//end\n", ik(e.W))
		}
		return ctText, buf.Bytes()
	}
	panic("bad via " + in.Via)
}

func classOfMsg(msg string) string {
	if msg == "" {
		return "ok"
	}
	if msg == context.Canceled.Error() {
		return "canceled"
	}
	return ErrClass(fmt.Errorf("%s", msg))
}

func refOf(data any) int {
	b, err := json.Marshal(data)
	if err != nil || data == nil {
		return -1
	}
	var x struct {
		Reference string `json:"reference"`
	}
	if json.Unmarshal(b, &x) != nil {
		return -1
	}
	return widOf(x.Reference)
}

func runBulk(in bkIn) (out bkOut) {
	w := NewWorld()
	defer w.Close()
	for _, e := range in.Els {
		w.script[e.W] = e.OK
		w.delayBefore[e.W] = e.Before
		w.delayAfter[e.W] = e.After
	}
	w.faults = in.F
	root := w.Root()
	opts := bulking.BulkingOptions{Atomic: in.Atomic, ContinueOnFailure: in.Cof, Parallel: in.Parallel}
	out.Results = []bkRes{}
	out.Panic = gen.Guard(func() {
		if in.Via == "direct" {
			els := make([]bulking.BulkElement, 0, len(in.Els))
			for _, e := range in.Els {
				els = append(els, bulkElement(e.Kind, e.W))
			}
			res, err := runBulker(context.Background(), root, els, opts, bulking.WithParallelism(in.Par))
			out.RunErr = ErrClass(err)
			for _, r := range res {
				out.Results = append(out.Results, bkRes{Class: ErrClass(r.Error), LogID: r.LogID, EID: r.ElementID, Ref: refOf(r.Data)})
			}
			return
		}
		ct, body := bulkBody(in)
		h := v2.VerifBulkHandler(
			bulking.NewDefaultBulkerFactory(bulking.WithParallelism(in.Par)),
			map[string]bulking.HandlerFactory{
				ctJSON:   bulking.NewJSONBulkHandlerFactory(0),
				ctText:   bulking.NewTextStreamBulkHandlerFactory(),
				ctStream: bulking.NewJSONStreamBulkHandlerFactory(),
			})
		url := fmt.Sprintf("/_bulk?atomic=%t&continueOnFailure=%t&parallel=%t", in.Atomic, in.Cof, in.Parallel)
		req := httptest.NewRequest(http.MethodPost, url, bytes.NewReader(body))
		req.Header.Set("Content-Type", ct)
		req = req.WithContext(common.ContextWithLedger(req.Context(), root))
		rec := httptest.NewRecorder()
		h.ServeHTTP(rec, req)
		out.Status = rec.Code
		raw, _ := io.ReadAll(rec.Body)
		if os.Getenv("VERIF_WRAP_RAW") != "" {
			fmt.Fprintf(os.Stderr, "REQUEST POST %s\nContent-Type: %s\n\n%s\nRESPONSE %d\n%s\n", url, ct, body, rec.Code, raw)
		}
		var resp struct {
			Data []struct {
				ErrorCode        string `json:"errorCode"`
				ErrorDescription string `json:"errorDescription"`
				Data             any    `json:"data"`
				ResponseType     string `json:"responseType"`
				LogID            uint64 `json:"logID"`
			} `json:"data"`
			ErrorCode    string `json:"errorCode"`
			ErrorMessage string `json:"errorMessage"`
		}
		if err := json.Unmarshal(raw, &resp); err != nil {
			out.TopErr = "unparsable:" + strings.TrimSpace(string(raw))
			return
		}
		out.TopErr = resp.ErrorCode
		if resp.ErrorMessage != "" {
			out.TopErr += ":" + classOfMsg(resp.ErrorMessage)
		}
		for _, r := range resp.Data {
			out.Results = append(out.Results, bkRes{Class: classOfMsg(r.ErrorDescription), LogID: r.LogID, RT: r.ResponseType, Ref: refOf(r.Data)})
		}
	})
	out.Applied = w.AppliedLog()
	out.Trace = w.Trace()
	out.Durable = w.Durable()
	if out.Applied == nil {
		out.Applied = []Applied{}
	}
	if out.Trace == nil {
		out.Trace = []Item{}
	}
	if out.Durable == nil {
		out.Durable = []int{}
	}
	return out
}

func genBulk(c *gen.Ctx) bkIn {
	r := c.R
	in := bkIn{Via: gen.Pick(r, []string{"direct", "direct", "json", "json", "stream", "text"}), Par: 1 + r.Intn(10)}
	switch r.Intn(10) {
	case 0, 1, 2:
		in.Atomic = true
	case 3, 4, 5, 6:
		in.Parallel = true
	case 7:
		// invalid combination: rejected by BulkingOptions.Validate
		in.Atomic, in.Parallel = true, true
	}
	in.Cof = r.Intn(5) < 2
	n := r.Intn(9)
	if c.Wide && r.Intn(8) == 0 {
		n = r.Intn(40)
	}
	okPct := gen.Pick(r, []int{100, 85, 85, 60, 30})
	in.Els = make([]bkEl, 0, n)
	for i := 0; i < n; i++ {
		e := bkEl{Kind: gen.Pick(r, bulkKinds), OK: r.Intn(100) < okPct, W: i + 1}
		if in.Via == "text" {
			e.Kind = KCreate
		}
		if in.Parallel {
			e.Before = r.Intn(6)
			e.After = r.Intn(6)
		}
		in.Els = append(in.Els, e)
	}
	// write ids are a random permutation of 1..n so that "sorted by id" is not "in order"
	perm := r.Perm(n)
	for i := range in.Els {
		in.Els[i].W = perm[i] + 1
	}
	in.F = Faults{Rows: 1}
	if in.Atomic && r.Intn(100) < 20 {
		switch r.Intn(4) {
		case 0:
			in.F.Begin = true
		case 1, 2:
			in.F.Commit = true
		case 3:
			in.F.Rollback = true
		}
	}
	return in
}

func init() {
	gen.Register("bulk", func(c *gen.Ctx) error {
		if c.Replay != "" {
			ins, err := c.ReplayInputs("bulk")
			if err != nil {
				return err
			}
			for _, raw := range ins {
				var in bkIn
				if err := json.Unmarshal(raw, &in); err != nil {
					return err
				}
				if err := c.Emit("bulk", in, runBulk(in)); err != nil {
					return err
				}
			}
			return nil
		}
		for i := 0; i < c.N; i++ {
			in := genBulk(c)
			if err := c.Emit("bulk", in, runBulk(in)); err != nil {
				return err
			}
		}
		return nil
	})
}
