//go:build verif

package wlwrap

import (
	"context"
	"encoding/json"
	"fmt"
	"math/big"
	"strconv"

	"github.com/formancehq/go-libs/v5/pkg/types/metadata"

	ledger "github.com/formancehq/ledger/internal"
	"github.com/formancehq/ledger/internal/api/bulking"
	ledgercontroller "github.com/formancehq/ledger/internal/controller/ledger"
	systemcontroller "github.com/formancehq/ledger/internal/controller/system"
	"github.com/formancehq/ledger/internal/verif/gen"
)

// Workload "events": the REAL ControllerWithEvents (with a recording listener)
// over the scripted fake controller, the REAL state-tracker facade on top, and
// the REAL Bulker on top of that.  A case is a list of client operations:
//
//	swrite   one write through the state tracker (handleState)
//	bulk     a sequential bulk through Bulker.Run over the state tracker
//	begin / lock / commit / rollback / write   raw calls on a handle of the events
//	         wrapper (handle 0 = the root wrapper; every successful raw begin /
//	         lock appends the returned wrapper to the handle table)
//
// Output: the global trace (underlying calls, SQL of the state tracker, listener
// calls), the per-operation return classes and the fake's durable write set.

type evEl struct {
	Kind string `json:"kind"`
	OK   bool   `json:"ok"`
	W    int    `json:"w"`
}

type evOp struct {
	Op     string `json:"op"`
	H      int    `json:"h,omitempty"`
	Kind   string `json:"kind,omitempty"`
	Dry    bool   `json:"dry,omitempty"`
	OK     bool   `json:"ok,omitempty"`
	W      int    `json:"w,omitempty"`
	F      Faults `json:"f"`
	Atomic bool   `json:"atomic,omitempty"`
	Cof    bool   `json:"cof,omitempty"`
	Els    []evEl `json:"els,omitempty"`
}

type evIn struct {
	InUse bool   `json:"inUse"`
	Ops   []evOp `json:"ops"`
}

type evOut struct {
	Trace   []Item     `json:"trace"`
	Rets    [][]string `json:"rets"`
	Durable []int      `json:"durable"`
	Panic   string     `json:"panic,omitempty"`
}

type evRunner struct {
	w       *World
	handles []ledgercontroller.Controller
	facade  ledgercontroller.Controller
}

func newEvRunner(inUse bool) *evRunner {
	w := NewWorld()
	l := ledger.Ledger{Name: "l", ID: 1, State: ledger.StateInitializing}
	l.Bucket = "_default"
	if inUse {
		l.State = ledger.StateInUse
	}
	events := ledgercontroller.NewControllerWithEvents(l, w.Root(), &recListener{w: w})
	facade := systemcontroller.VerifNewLedgerStateTracker(events, l)
	return &evRunner{w: w, handles: []ledgercontroller.Controller{events}, facade: facade}
}

func ik(w int) string { return "w" + strconv.Itoa(w) }

// callWrite invokes the write method of the given kind; the write id travels as
// idempotency key (read by the fake) and in the payload fields the events are
// built from.
func callWrite(ctx context.Context, c ledgercontroller.Controller, kind string, dry bool, w int) error {
	md := metadata.Metadata{"w": ik(w)}
	var err error
	switch kind {
	case KCreate:
		_, _, _, err = c.CreateTransaction(ctx, ledgercontroller.Parameters[ledgercontroller.CreateTransaction]{DryRun: dry, IdempotencyKey: ik(w)})
	case KRevert:
		_, _, _, err = c.RevertTransaction(ctx, ledgercontroller.Parameters[ledgercontroller.RevertTransaction]{DryRun: dry, IdempotencyKey: ik(w),
			Input: ledgercontroller.RevertTransaction{TransactionID: 1}})
	case KSaveTxMeta:
		_, _, err = c.SaveTransactionMetadata(ctx, ledgercontroller.Parameters[ledgercontroller.SaveTransactionMetadata]{DryRun: dry, IdempotencyKey: ik(w),
			Input: ledgercontroller.SaveTransactionMetadata{TransactionID: 1, Metadata: md}})
	case KSaveAcMeta:
		_, _, err = c.SaveAccountMetadata(ctx, ledgercontroller.Parameters[ledgercontroller.SaveAccountMetadata]{DryRun: dry, IdempotencyKey: ik(w),
			Input: ledgercontroller.SaveAccountMetadata{Address: "acc", Metadata: md}})
	case KDelTxMeta:
		_, _, err = c.DeleteTransactionMetadata(ctx, ledgercontroller.Parameters[ledgercontroller.DeleteTransactionMetadata]{DryRun: dry, IdempotencyKey: ik(w),
			Input: ledgercontroller.DeleteTransactionMetadata{TransactionID: 1, Key: ik(w)}})
	case KDelAcMeta:
		_, _, err = c.DeleteAccountMetadata(ctx, ledgercontroller.Parameters[ledgercontroller.DeleteAccountMetadata]{DryRun: dry, IdempotencyKey: ik(w),
			Input: ledgercontroller.DeleteAccountMetadata{Address: "acc", Key: ik(w)}})
	case KSchema:
		_, _, _, err = c.InsertSchema(ctx, ledgercontroller.Parameters[ledgercontroller.InsertSchema]{DryRun: dry, IdempotencyKey: ik(w),
			Input: ledgercontroller.InsertSchema{Version: ik(w)}})
	default:
		return fmt.Errorf("unknown kind %q", kind)
	}
	return err
}

// bulkElement builds the real BulkElement for a write kind (InsertSchema has no
// bulk action).
func bulkElement(kind string, w int) bulking.BulkElement {
	md := metadata.Metadata{"w": ik(w)}
	el := bulking.BulkElement{IdempotencyKey: ik(w)}
	switch kind {
	case KCreate:
		el.Action = bulking.ActionCreateTransaction
		el.Data = bulking.TransactionRequest{Postings: ledger.Postings{{Source: "world", Destination: "acc", Amount: big.NewInt(1), Asset: "USD"}}, Reference: ik(w)}
	case KRevert:
		el.Action = bulking.ActionRevertTransaction
		el.Data = bulking.RevertTransactionRequest{ID: 1}
	case KSaveTxMeta:
		el.Action = bulking.ActionAddMetadata
		el.Data = bulking.AddMetadataRequest{TargetType: ledger.MetaTargetTypeTransaction, TargetID: json.RawMessage(`1`), Metadata: md}
	case KSaveAcMeta:
		el.Action = bulking.ActionAddMetadata
		el.Data = bulking.AddMetadataRequest{TargetType: ledger.MetaTargetTypeAccount, TargetID: json.RawMessage(`"acc"`), Metadata: md}
	case KDelTxMeta:
		el.Action = bulking.ActionDeleteMetadata
		el.Data = bulking.DeleteMetadataRequest{TargetType: ledger.MetaTargetTypeTransaction, TargetID: json.RawMessage(`1`), Key: ik(w)}
	case KDelAcMeta:
		el.Action = bulking.ActionDeleteMetadata
		el.Data = bulking.DeleteMetadataRequest{TargetType: ledger.MetaTargetTypeAccount, TargetID: json.RawMessage(`"acc"`), Key: ik(w)}
	default:
		panic("no bulk action for kind " + kind)
	}
	return el
}

// runBulker runs the real Bulker over ctrl and returns the results in channel order.
func runBulker(ctx context.Context, ctrl ledgercontroller.Controller, els []bulking.BulkElement, opts bulking.BulkingOptions, bopts ...bulking.BulkerOption) ([]bulking.BulkElementResult, error) {
	bulk := make(bulking.Bulk, len(els))
	for _, e := range els {
		bulk <- e
	}
	close(bulk)
	results := make(chan bulking.BulkElementResult, len(els))
	err := bulking.NewBulker(ctrl, bopts...).Run(ctx, bulk, results, opts)
	var res []bulking.BulkElementResult
	if err != nil {
		// Run returned before (or after) draining: collect whatever was sent
		for {
			select {
			case r, ok := <-results:
				if !ok {
					return res, err
				}
				res = append(res, r)
			default:
				return res, err
			}
		}
	}
	for r := range results {
		res = append(res, r)
	}
	return res, nil
}

func (r *evRunner) exec(op evOp) []string {
	ctx := context.Background()
	w := r.w
	setFaults := func(f Faults) {
		w.mu.Lock()
		w.faults = f
		w.mu.Unlock()
	}
	defer setFaults(Faults{})
	handle := func() ledgercontroller.Controller {
		if op.H < 0 || op.H >= len(r.handles) {
			return nil
		}
		return r.handles[op.H]
	}
	switch op.Op {
	case "swrite":
		w.mu.Lock()
		w.script[op.W] = op.OK
		w.mu.Unlock()
		setFaults(op.F)
		return []string{ErrClass(callWrite(ctx, r.facade, op.Kind, op.Dry, op.W))}
	case "bulk":
		w.mu.Lock()
		for _, e := range op.Els {
			w.script[e.W] = e.OK
		}
		w.mu.Unlock()
		setFaults(op.F)
		els := make([]bulking.BulkElement, 0, len(op.Els))
		for _, e := range op.Els {
			els = append(els, bulkElement(e.Kind, e.W))
		}
		res, err := runBulker(ctx, r.facade, els, bulking.BulkingOptions{Atomic: op.Atomic, ContinueOnFailure: op.Cof})
		ret := []string{ErrClass(err)}
		for _, x := range res {
			ret = append(ret, ErrClass(x.Error))
		}
		return ret
	case "write":
		c := handle()
		if c == nil {
			return []string{"badhandle"}
		}
		w.mu.Lock()
		w.script[op.W] = op.OK
		w.mu.Unlock()
		return []string{ErrClass(callWrite(ctx, c, op.Kind, op.Dry, op.W))}
	case "begin":
		c := handle()
		if c == nil {
			return []string{"badhandle"}
		}
		setFaults(Faults{Begin: !op.OK})
		n, _, err := c.BeginTX(ctx, nil)
		if err == nil {
			r.handles = append(r.handles, n)
		}
		return []string{ErrClass(err)}
	case "lock":
		c := handle()
		if c == nil {
			return []string{"badhandle"}
		}
		setFaults(Faults{Lock: !op.OK})
		n, _, _, err := c.LockLedger(ctx)
		if err == nil {
			r.handles = append(r.handles, n)
		}
		return []string{ErrClass(err)}
	case "commit":
		c := handle()
		if c == nil {
			return []string{"badhandle"}
		}
		setFaults(Faults{Commit: !op.OK})
		return []string{ErrClass(c.Commit(ctx))}
	case "rollback":
		c := handle()
		if c == nil {
			return []string{"badhandle"}
		}
		setFaults(Faults{Rollback: !op.OK})
		return []string{ErrClass(c.Rollback(ctx))}
	}
	return []string{"badop"}
}

func runEvents(in evIn) (out evOut) {
	r := newEvRunner(in.InUse)
	defer r.w.Close()
	out.Panic = gen.Guard(func() {
		for _, op := range in.Ops {
			out.Rets = append(out.Rets, r.exec(op))
		}
	})
	out.Trace = r.w.Trace()
	out.Durable = r.w.Durable()
	if out.Trace == nil {
		out.Trace = []Item{}
	}
	if out.Durable == nil {
		out.Durable = []int{}
	}
	return out
}

// ---- generator -----------------------------------------------------------------

type evGen struct {
	c    *gen.Ctx
	r    *evRunner
	ops  []evOp
	next int // next write id
}

func (g *evGen) emit(op evOp) []string {
	if op.Els == nil {
		op.Els = []evEl{}
	}
	g.ops = append(g.ops, op)
	var ret []string
	if p := gen.Guard(func() { ret = g.r.exec(op) }); p != "" {
		return []string{"panic"}
	}
	return ret
}

func (g *evGen) wid() int { g.next++; return g.next }

func (g *evGen) chance(pct int) bool { return g.c.R.Intn(100) < pct }

func (g *evGen) faults(pct int) Faults {
	f := Faults{Rows: 1}
	if g.chance(pct) {
		switch g.c.R.Intn(8) {
		case 7:
			f.CommitTop = true
		case 0:
			f.Begin = true
		case 1:
			f.Lock = true
		case 2, 3:
			f.Commit = true
		case 4:
			f.Rollback = true
		case 5:
			f.SQL = 1 + g.c.R.Intn(3)
		case 6:
			f.Rows = 0
		}
	}
	return f
}

var bulkKinds = []string{KCreate, KRevert, KSaveTxMeta, KSaveAcMeta, KDelTxMeta, KDelAcMeta}

func (g *evGen) writeOp(h int) evOp {
	return evOp{Op: "write", H: h, Kind: gen.Pick(g.c.R, AllKinds), Dry: g.chance(20), OK: g.chance(75), W: g.wid()}
}

func (g *evGen) template() {
	r := g.c.R
	last := func() int { return len(g.r.handles) - 1 }
	switch r.Intn(14) {
	case 0, 1, 2:
		g.emit(evOp{Op: "swrite", Kind: gen.Pick(r, AllKinds), Dry: g.chance(20), OK: g.chance(75), W: g.wid(), F: g.faults(20)})
	case 3, 4:
		n := 1 + r.Intn(5)
		if g.c.Wide && g.chance(10) {
			n = 1 + r.Intn(30)
		}
		els := make([]evEl, 0, n)
		okPct := gen.Pick(r, []int{100, 85, 60})
		for i := 0; i < n; i++ {
			els = append(els, evEl{Kind: gen.Pick(r, bulkKinds), OK: g.chance(okPct), W: g.wid()})
		}
		g.emit(evOp{Op: "bulk", Atomic: g.chance(50), Cof: g.chance(40), Els: els, F: g.faults(20)})
	case 5:
		// plain write on the root events wrapper
		g.emit(g.writeOp(0))
	case 6, 7:
		// raw session: BeginTX … writes … Commit / Rollback (ok or failing)
		if g.emit(evOp{Op: "begin", H: 0, OK: g.chance(92)})[0] != "ok" {
			return
		}
		h := last()
		for i, n := 0, r.Intn(4); i < n; i++ {
			g.emit(g.writeOp(h))
		}
		if g.chance(60) {
			g.emit(evOp{Op: "commit", H: h, OK: g.chance(80)})
		} else {
			g.emit(evOp{Op: "rollback", H: h, OK: g.chance(90)})
		}
		if g.chance(30) {
			// what handleState does: a deferred Rollback after the Commit
			g.emit(evOp{Op: "rollback", H: h, OK: true})
		}
		if g.chance(15) {
			g.emit(g.writeOp(h))
		}
		if g.chance(10) {
			g.emit(evOp{Op: "commit", H: h, OK: true})
		}
	case 8:
		// the call pattern of handleState, by hand: BeginTX, LockLedger on the tx
		// wrapper, write on the locked wrapper, Commit on the tx wrapper
		if g.emit(evOp{Op: "begin", H: 0, OK: true})[0] != "ok" {
			return
		}
		h := last()
		if g.emit(evOp{Op: "lock", H: h, OK: g.chance(92)})[0] != "ok" {
			g.emit(evOp{Op: "rollback", H: h, OK: true})
			return
		}
		lk := last()
		for i, n := 0, 1+r.Intn(2); i < n; i++ {
			g.emit(g.writeOp(lk))
		}
		if g.chance(75) {
			g.emit(evOp{Op: "commit", H: h, OK: g.chance(80)})
		}
		g.emit(evOp{Op: "rollback", H: h, OK: true})
	case 9:
		// two interleaved sessions on the root
		if g.emit(evOp{Op: "begin", H: 0, OK: true})[0] != "ok" {
			return
		}
		a := last()
		if g.emit(evOp{Op: "begin", H: 0, OK: true})[0] != "ok" {
			return
		}
		b := last()
		for i, n := 0, 1+r.Intn(4); i < n; i++ {
			g.emit(g.writeOp(gen.Pick(r, []int{a, b, 0})))
		}
		first, second := a, b
		if g.chance(50) {
			first, second = b, a
		}
		g.emit(evOp{Op: gen.Pick(r, []string{"commit", "rollback"}), H: first, OK: g.chance(85)})
		if g.chance(50) {
			g.emit(g.writeOp(second))
		}
		g.emit(evOp{Op: gen.Pick(r, []string{"commit", "rollback"}), H: second, OK: g.chance(85)})
	case 11:
		// atomic bulk (on an initializing ledger: the first write runs handleState inside
		// the bulk's transaction) × inner / outer commit failure × a later element failing
		n := 1 + r.Intn(4)
		els := make([]evEl, 0, n)
		failAt := -1
		if g.chance(45) {
			failAt = r.Intn(n)
		}
		for i := 0; i < n; i++ {
			els = append(els, evEl{Kind: gen.Pick(r, bulkKinds), OK: i != failAt, W: g.wid()})
		}
		f := Faults{Rows: 1}
		switch r.Intn(6) {
		case 0:
			f.Commit = true
		case 1, 2:
			f.CommitTop = true
		case 3:
			f.Rows = 0
		}
		g.emit(evOp{Op: "bulk", Atomic: true, Cof: g.chance(30), Els: els, F: f})
		if g.chance(50) {
			// the root facade still believes the ledger is initializing
			g.emit(evOp{Op: "swrite", Kind: gen.Pick(r, AllKinds), OK: true, W: g.wid(), F: Faults{Rows: r.Intn(2)}})
		}
	case 10:
		// nested transactions (outside the calling discipline: correspondence only) and
		// a lock outside any transaction
		if g.chance(40) {
			if g.emit(evOp{Op: "lock", H: 0, OK: g.chance(92)})[0] == "ok" {
				lk := last()
				g.emit(g.writeOp(lk))
				if g.chance(30) {
					g.emit(evOp{Op: gen.Pick(r, []string{"commit", "rollback"}), H: lk, OK: true})
				}
			}
			return
		}
		if g.emit(evOp{Op: "begin", H: 0, OK: true})[0] != "ok" {
			return
		}
		outer := last()
		g.emit(g.writeOp(outer))
		if g.emit(evOp{Op: "begin", H: outer, OK: g.chance(92)})[0] != "ok" {
			g.emit(evOp{Op: "rollback", H: outer, OK: true})
			return
		}
		inner := last()
		for i, n := 0, 1+r.Intn(2); i < n; i++ {
			g.emit(g.writeOp(inner))
		}
		g.emit(evOp{Op: gen.Pick(r, []string{"commit", "commit", "rollback"}), H: inner, OK: g.chance(85)})
		if g.chance(50) {
			g.emit(g.writeOp(outer))
		}
		g.emit(evOp{Op: gen.Pick(r, []string{"commit", "commit", "rollback"}), H: outer, OK: g.chance(85)})
	default:
		// one arbitrary raw call on an arbitrary handle (nested transactions,
		// locks outside transactions, commits on lock handles, finished handles …)
		h := r.Intn(len(g.r.handles))
		switch r.Intn(8) {
		case 0:
			g.emit(evOp{Op: "begin", H: h, OK: g.chance(90)})
		case 1:
			g.emit(evOp{Op: "lock", H: h, OK: g.chance(90)})
		case 2:
			g.emit(evOp{Op: "commit", H: h, OK: g.chance(85)})
		case 3:
			g.emit(evOp{Op: "rollback", H: h, OK: g.chance(90)})
		default:
			g.emit(g.writeOp(h))
		}
	}
}

func genEvents(c *gen.Ctx) evIn {
	inUse := c.R.Intn(3) > 0
	g := &evGen{c: c, r: newEvRunner(inUse)}
	defer g.r.w.Close()
	n := 1 + c.R.Intn(5)
	if c.Wide {
		n = 1 + c.R.Intn(12)
	}
	for i := 0; i < n; i++ {
		g.template()
	}
	return evIn{InUse: inUse, Ops: g.ops}
}

func init() {
	gen.Register("events", func(c *gen.Ctx) error {
		if c.Replay != "" {
			ins, err := c.ReplayInputs("events")
			if err != nil {
				return err
			}
			for _, raw := range ins {
				var in evIn
				if err := json.Unmarshal(raw, &in); err != nil {
					return err
				}
				if err := c.Emit("events", in, runEvents(in)); err != nil {
					return err
				}
			}
			return nil
		}
		for i := 0; i < c.N; i++ {
			in := genEvents(c)
			if err := c.Emit("events", in, runEvents(in)); err != nil {
				return err
			}
		}
		return nil
	})
}
