//go:build verif

// Package wlwrap: correspondence workloads of the controller-wrapper area
// (C31 events wrapper + state tracker, C32 bulker + bulk HTTP handlers).
//
// The underlying ledger `Controller` and the SQL database are FAKED here: an
// in-memory scripted controller that records every call into one global trace
// and implements the transactional semantics of a store handle (BeginTX opens a
// (nested) transaction, LockLedger stays in the transaction of its receiver,
// Commit/Rollback close it, operations on a finished transaction fail the way
// database/sql's ErrTxDone does).  Everything ABOVE it is the real code of
// /repo: ControllerWithEvents, the state tracker facade, Bulker, the bulk
// handlers.
package wlwrap

import (
	"context"
	"database/sql"
	"database/sql/driver"
	"errors"
	"fmt"
	"io"
	"strconv"
	"strings"
	"sync"
	"time"

	"github.com/uptrace/bun"
	"github.com/uptrace/bun/dialect/pgdialect"

	"github.com/formancehq/go-libs/v5/pkg/types/metadata"

	ledger "github.com/formancehq/ledger/internal"
	ledgercontroller "github.com/formancehq/ledger/internal/controller/ledger"
)

// Item is one element of the global trace.
//
//	begin    t=new tx (0 unless ok) p=tx of the receiver      r=ok|fail|done
//	lock     t=tx of the receiver                              r=ok|fail|done
//	release  t=tx of the locked handle
//	commit   t=tx of the receiver                              r=ok|fail|done
//	rollback t=tx of the receiver                              r=ok|fail|done
//	write    t=tx of the receiver, kind, dry, w=write id       r=ok|fail|done
//	sql      t=tx the statement ran in, tag=1 update-state 2 setval-tx 3 setval-log, r=ok|fail
//	publish  kind, w (listener call)
//
// r=done: the receiver's transaction (or an enclosing one) is already finished,
// or Commit/Rollback was called outside a transaction.
type Item struct {
	K    string `json:"k"`
	T    int    `json:"t,omitempty"`
	P    int    `json:"p,omitempty"`
	R    string `json:"r,omitempty"`
	Kind string `json:"kind,omitempty"`
	Dry  bool   `json:"dry,omitempty"`
	W    int    `json:"w,omitempty"`
	Tag  int    `json:"tag,omitempty"`
}

// Faults scripted for the duration of one client operation: every matching
// call of the fake fails while the flag is set.
type Faults struct {
	Begin    bool `json:"begin,omitempty"`
	Lock     bool `json:"lock,omitempty"`
	Commit   bool `json:"commit,omitempty"`
	// CommitTop: only the Commit of an outermost transaction fails.
	CommitTop bool `json:"commitTop,omitempty"`
	Rollback bool `json:"rollback,omitempty"`
	// SQL: 0 none, k = the statement with tag k fails.
	SQL int `json:"sql,omitempty"`
	// Rows: RowsAffected of the state update (0 = someone else already flipped
	// the ledger state).
	Rows int `json:"rows,omitempty"`
}

// Write kinds (the seven write methods of Controller).
const (
	KCreate     = "createTx"
	KRevert     = "revertTx"
	KSaveTxMeta = "saveTxMeta"
	KSaveAcMeta = "saveAccMeta"
	KDelTxMeta  = "delTxMeta"
	KDelAcMeta  = "delAccMeta"
	KSchema     = "insertSchema"
)

var AllKinds = []string{KCreate, KRevert, KSaveTxMeta, KSaveAcMeta, KDelTxMeta, KDelAcMeta, KSchema}

type txInfo struct {
	parent  int
	open    bool
	pending []int
	btx     *bun.Tx
}

// Applied is one entry of the applied-order log of the bulk workload.
type Applied struct {
	W  int  `json:"w"`
	OK bool `json:"ok"`
}

// World is the state of the fake underlying controller + database.
type World struct {
	mu      sync.Mutex
	trace   []Item
	txs     []txInfo // index = tx id, [0] unused
	durable []int
	script  map[int]bool // write id -> scripted success
	faults  Faults
	seq     int // number of successful non-dry writes so far (drives LogID)
	applied []Applied
	// delays (bulk workload, parallel): per write id, before/after apply, in 50µs units
	delayBefore map[int]int
	delayAfter  map[int]int
	db          *bun.DB
	sqldb       *sql.DB
	nextBeginTx int
}

func NewWorld() *World {
	w := &World{txs: make([]txInfo, 1), script: map[int]bool{}, delayBefore: map[int]int{}, delayAfter: map[int]int{}}
	w.sqldb = sql.OpenDB(&fakeConnector{w: w})
	w.db = bun.NewDB(w.sqldb, pgdialect.New(), bun.WithDiscardUnknownColumns())
	return w
}

// Close finishes every bun transaction still open and closes the fake DB.
func (w *World) Close() {
	w.mu.Lock()
	txs := w.txs
	w.mu.Unlock()
	for i := range txs {
		if txs[i].btx != nil {
			_ = txs[i].btx.Rollback()
		}
	}
	_ = w.db.Close()
}

func (w *World) add(it Item) { w.trace = append(w.trace, it) }

func (w *World) Trace() []Item {
	w.mu.Lock()
	defer w.mu.Unlock()
	return append([]Item{}, w.trace...)
}

func (w *World) Durable() []int {
	w.mu.Lock()
	defer w.mu.Unlock()
	return append([]int{}, w.durable...)
}

func (w *World) AppliedLog() []Applied {
	w.mu.Lock()
	defer w.mu.Unlock()
	return append([]Applied{}, w.applied...)
}

// live: tx 0 (autocommit) is always live; a transaction is live while it and
// all its ancestors are open.
func (w *World) live(t int) bool {
	for t != 0 {
		if !w.txs[t].open {
			return false
		}
		t = w.txs[t].parent
	}
	return true
}

func (w *World) closeTx(t int) {
	w.txs[t].open = false
	w.txs[t].pending = nil
}

type fakeErr struct{ class string }

func (e *fakeErr) Error() string { return "fake:" + e.class }

// ErrClass canonicalises an error of the stack into a small enum.
func ErrClass(err error) string {
	if err == nil {
		return "ok"
	}
	if errors.Is(err, context.Canceled) {
		return "canceled"
	}
	msg := err.Error()
	if strings.Contains(msg, "atomic and parallel options are mutually exclusive") {
		return "conflict"
	}
	if i := strings.Index(msg, "fake:"); i >= 0 {
		rest := msg[i+5:]
		j := 0
		for j < len(rest) && (rest[j] >= 'a' && rest[j] <= 'z' || rest[j] >= '0' && rest[j] <= '9') {
			j++
		}
		return rest[:j]
	}
	return "other:" + msg
}

// FakeCtrl is a handle of the fake controller: bound to transaction tx (0 = none).
type FakeCtrl struct {
	ledgercontroller.Controller // nil: any method not overridden below panics
	w                           *World
	tx                          int
}

func (w *World) Root() *FakeCtrl { return &FakeCtrl{w: w} }

func (c *FakeCtrl) Info() ledger.Ledger { return ledger.Ledger{Name: "l"} }

func widOf(ik string) int {
	if len(ik) < 2 || ik[0] != 'w' {
		return -1
	}
	n, err := strconv.Atoi(ik[1:])
	if err != nil {
		return -1
	}
	return n
}

func spin(units int) {
	if units <= 0 {
		return
	}
	time.Sleep(time.Duration(units) * 50 * time.Microsecond)
}

// doWrite is the body of every write method of the fake.
func (c *FakeCtrl) doWrite(kind string, dry bool, ik string) (uint64, error) {
	wid := widOf(ik)
	w := c.w
	w.mu.Lock()
	before, after := w.delayBefore[wid], w.delayAfter[wid]
	w.mu.Unlock()
	spin(before)
	w.mu.Lock()
	r := "ok"
	if !w.live(c.tx) {
		r = "done"
	} else if !w.script[wid] {
		r = "fail"
	}
	w.add(Item{K: "write", T: c.tx, R: r, Kind: kind, Dry: dry, W: wid})
	w.applied = append(w.applied, Applied{W: wid, OK: r == "ok"})
	var logID uint64
	if r == "ok" {
		if !dry {
			if c.tx == 0 {
				w.durable = append(w.durable, wid)
			} else {
				w.txs[c.tx].pending = append(w.txs[c.tx].pending, wid)
			}
		}
		w.seq++
		logID = uint64(w.seq*1000 + wid)
	}
	w.mu.Unlock()
	spin(after)
	switch r {
	case "ok":
		return logID, nil
	case "done":
		return 0, &fakeErr{class: "txdone"}
	default:
		return 0, &fakeErr{class: "scripted" + strconv.Itoa(wid)}
	}
}

func (c *FakeCtrl) CreateTransaction(_ context.Context, p ledgercontroller.Parameters[ledgercontroller.CreateTransaction]) (*ledger.Log, *ledger.CreatedTransaction, bool, error) {
	id, err := c.doWrite(KCreate, p.DryRun, p.IdempotencyKey)
	if err != nil {
		return nil, nil, false, err
	}
	txid := id
	return &ledger.Log{ID: &id}, &ledger.CreatedTransaction{Transaction: ledger.Transaction{
		ID:              &txid,
		TransactionData: ledger.TransactionData{Reference: p.IdempotencyKey, Metadata: metadata.Metadata{}, Postings: ledger.Postings{}},
	}}, false, nil
}

func (c *FakeCtrl) RevertTransaction(_ context.Context, p ledgercontroller.Parameters[ledgercontroller.RevertTransaction]) (*ledger.Log, *ledger.RevertedTransaction, bool, error) {
	id, err := c.doWrite(KRevert, p.DryRun, p.IdempotencyKey)
	if err != nil {
		return nil, nil, false, err
	}
	txid := id
	orig := p.Input.TransactionID
	return &ledger.Log{ID: &id}, &ledger.RevertedTransaction{
		RevertedTransaction: ledger.Transaction{ID: &orig, TransactionData: ledger.TransactionData{Metadata: metadata.Metadata{}, Postings: ledger.Postings{}}},
		RevertTransaction:   ledger.Transaction{ID: &txid, TransactionData: ledger.TransactionData{Reference: p.IdempotencyKey, Metadata: metadata.Metadata{}, Postings: ledger.Postings{}}},
	}, false, nil
}

func (c *FakeCtrl) SaveTransactionMetadata(_ context.Context, p ledgercontroller.Parameters[ledgercontroller.SaveTransactionMetadata]) (*ledger.Log, bool, error) {
	id, err := c.doWrite(KSaveTxMeta, p.DryRun, p.IdempotencyKey)
	if err != nil {
		return nil, false, err
	}
	return &ledger.Log{ID: &id}, false, nil
}

func (c *FakeCtrl) SaveAccountMetadata(_ context.Context, p ledgercontroller.Parameters[ledgercontroller.SaveAccountMetadata]) (*ledger.Log, bool, error) {
	id, err := c.doWrite(KSaveAcMeta, p.DryRun, p.IdempotencyKey)
	if err != nil {
		return nil, false, err
	}
	return &ledger.Log{ID: &id}, false, nil
}

func (c *FakeCtrl) DeleteTransactionMetadata(_ context.Context, p ledgercontroller.Parameters[ledgercontroller.DeleteTransactionMetadata]) (*ledger.Log, bool, error) {
	id, err := c.doWrite(KDelTxMeta, p.DryRun, p.IdempotencyKey)
	if err != nil {
		return nil, false, err
	}
	return &ledger.Log{ID: &id}, false, nil
}

func (c *FakeCtrl) DeleteAccountMetadata(_ context.Context, p ledgercontroller.Parameters[ledgercontroller.DeleteAccountMetadata]) (*ledger.Log, bool, error) {
	id, err := c.doWrite(KDelAcMeta, p.DryRun, p.IdempotencyKey)
	if err != nil {
		return nil, false, err
	}
	return &ledger.Log{ID: &id}, false, nil
}

func (c *FakeCtrl) InsertSchema(_ context.Context, p ledgercontroller.Parameters[ledgercontroller.InsertSchema]) (*ledger.Log, *ledger.InsertedSchema, bool, error) {
	id, err := c.doWrite(KSchema, p.DryRun, p.IdempotencyKey)
	if err != nil {
		return nil, nil, false, err
	}
	return &ledger.Log{ID: &id}, &ledger.InsertedSchema{Schema: ledger.Schema{Version: p.IdempotencyKey}}, false, nil
}

func (c *FakeCtrl) BeginTX(ctx context.Context, _ *sql.TxOptions) (ledgercontroller.Controller, *bun.Tx, error) {
	w := c.w
	w.mu.Lock()
	defer w.mu.Unlock()
	if !w.live(c.tx) {
		w.add(Item{K: "begin", T: 0, P: c.tx, R: "done"})
		return nil, nil, &fakeErr{class: "txdone"}
	}
	if w.faults.Begin {
		w.add(Item{K: "begin", T: 0, P: c.tx, R: "fail"})
		return nil, nil, &fakeErr{class: "begin"}
	}
	id := len(w.txs)
	w.nextBeginTx = id
	btx, err := w.db.BeginTx(context.Background(), nil)
	if err != nil {
		panic(err)
	}
	w.txs = append(w.txs, txInfo{parent: c.tx, open: true, btx: &btx})
	w.add(Item{K: "begin", T: id, P: c.tx, R: "ok"})
	return &FakeCtrl{w: w, tx: id}, &btx, nil
}

func (c *FakeCtrl) LockLedger(_ context.Context) (ledgercontroller.Controller, bun.IDB, func() error, error) {
	w := c.w
	w.mu.Lock()
	defer w.mu.Unlock()
	if !w.live(c.tx) {
		w.add(Item{K: "lock", T: c.tx, R: "done"})
		return nil, nil, nil, &fakeErr{class: "txdone"}
	}
	if w.faults.Lock {
		w.add(Item{K: "lock", T: c.tx, R: "fail"})
		return nil, nil, nil, &fakeErr{class: "lock"}
	}
	w.add(Item{K: "lock", T: c.tx, R: "ok"})
	var idb bun.IDB = w.db
	if c.tx != 0 {
		idb = *w.txs[c.tx].btx
	}
	tx := c.tx
	return &FakeCtrl{w: w, tx: tx}, idb, func() error {
		w.mu.Lock()
		defer w.mu.Unlock()
		w.add(Item{K: "release", T: tx})
		return nil
	}, nil
}

func (c *FakeCtrl) Commit(_ context.Context) error {
	w := c.w
	w.mu.Lock()
	defer w.mu.Unlock()
	if c.tx == 0 || !w.live(c.tx) {
		w.add(Item{K: "commit", T: c.tx, R: "done"})
		return &fakeErr{class: "txdone"}
	}
	btx := w.txs[c.tx].btx
	if w.faults.Commit || (w.faults.CommitTop && w.txs[c.tx].parent == 0) {
		w.add(Item{K: "commit", T: c.tx, R: "fail"})
		w.closeTx(c.tx)
		_ = btx.Rollback()
		return &fakeErr{class: "commit"}
	}
	p := w.txs[c.tx].parent
	if p == 0 {
		w.durable = append(w.durable, w.txs[c.tx].pending...)
	} else {
		w.txs[p].pending = append(w.txs[p].pending, w.txs[c.tx].pending...)
	}
	w.add(Item{K: "commit", T: c.tx, R: "ok"})
	w.closeTx(c.tx)
	_ = btx.Rollback() // releases the fake connection; durability is tracked by World
	return nil
}

func (c *FakeCtrl) Rollback(_ context.Context) error {
	w := c.w
	w.mu.Lock()
	defer w.mu.Unlock()
	if c.tx == 0 || !w.live(c.tx) {
		w.add(Item{K: "rollback", T: c.tx, R: "done"})
		return &fakeErr{class: "txdone"}
	}
	btx := w.txs[c.tx].btx
	w.closeTx(c.tx)
	_ = btx.Rollback()
	if w.faults.Rollback {
		w.add(Item{K: "rollback", T: c.tx, R: "fail"})
		return &fakeErr{class: "rollback"}
	}
	w.add(Item{K: "rollback", T: c.tx, R: "ok"})
	return nil
}

var _ ledgercontroller.Controller = (*FakeCtrl)(nil)

// ---- recording listener ------------------------------------------------------

type recListener struct{ w *World }

func (l *recListener) pub(kind string, wid int) {
	l.w.mu.Lock()
	defer l.w.mu.Unlock()
	l.w.add(Item{K: "publish", Kind: kind, W: wid})
}

func (l *recListener) CommittedTransactions(_ context.Context, _ string, res ledger.Transaction, _ ledger.AccountMetadata) {
	l.pub(KCreate, widOf(res.Reference))
}

func (l *recListener) RevertedTransaction(_ context.Context, _ string, _, revert ledger.Transaction) {
	l.pub(KRevert, widOf(revert.Reference))
}

func (l *recListener) SavedMetadata(_ context.Context, _ string, targetType, _ string, m metadata.Metadata) {
	k := "savedMeta?" + targetType
	switch targetType {
	case ledger.MetaTargetTypeTransaction:
		k = KSaveTxMeta
	case ledger.MetaTargetTypeAccount:
		k = KSaveAcMeta
	}
	l.pub(k, widOf(m["w"]))
}

func (l *recListener) DeletedMetadata(_ context.Context, _ string, targetType string, _ any, key string) {
	k := "deletedMeta?" + targetType
	switch targetType {
	case ledger.MetaTargetTypeTransaction:
		k = KDelTxMeta
	case ledger.MetaTargetTypeAccount:
		k = KDelAcMeta
	}
	l.pub(k, widOf(key))
}

func (l *recListener) InsertedSchema(_ context.Context, _ string, data ledger.Schema) {
	l.pub(KSchema, widOf(data.Version))
}

var _ ledgercontroller.Listener = (*recListener)(nil)

// ---- fake database/sql driver (for the state tracker's raw statements) --------

type fakeConnector struct{ w *World }

func (c *fakeConnector) Connect(context.Context) (driver.Conn, error) { return &fakeConn{w: c.w}, nil }
func (c *fakeConnector) Driver() driver.Driver                         { return fakeDriver{} }

type fakeDriver struct{}

func (fakeDriver) Open(string) (driver.Conn, error) { return nil, errors.New("use connector") }

type fakeConn struct {
	w  *World
	tx int
}

func (c *fakeConn) Prepare(string) (driver.Stmt, error) { return nil, errors.New("prepare unsupported") }
func (c *fakeConn) Close() error                        { return nil }
func (c *fakeConn) Begin() (driver.Tx, error)           { return c.BeginTx(context.Background(), driver.TxOptions{}) }
func (c *fakeConn) BeginTx(context.Context, driver.TxOptions) (driver.Tx, error) {
	// called from FakeCtrl.BeginTX with w.mu held
	c.tx = c.w.nextBeginTx
	return &fakeTx{c: c}, nil
}

type fakeTx struct{ c *fakeConn }

func (t *fakeTx) Commit() error   { t.c.tx = 0; return nil }
func (t *fakeTx) Rollback() error { t.c.tx = 0; return nil }

type fakeResult struct{ rows int64 }

func (r fakeResult) LastInsertId() (int64, error) { return 0, nil }
func (r fakeResult) RowsAffected() (int64, error) { return r.rows, nil }

func (c *fakeConn) ExecContext(_ context.Context, q string, _ []driver.NamedValue) (driver.Result, error) {
	w := c.w
	w.mu.Lock()
	defer w.mu.Unlock()
	tag := 0
	lq := strings.ToLower(q)
	switch {
	case strings.Contains(lq, "update") && strings.Contains(lq, "state"):
		tag = 1
	case strings.Contains(lq, "setval") && strings.Contains(lq, "transaction_id_"):
		tag = 2
	case strings.Contains(lq, "setval") && strings.Contains(lq, "log_id_"):
		tag = 3
	}
	if tag != 0 && w.faults.SQL == tag {
		w.add(Item{K: "sql", T: c.tx, Tag: tag, R: "fail"})
		return nil, &fakeErr{class: "sql" + strconv.Itoa(tag)}
	}
	w.add(Item{K: "sql", T: c.tx, Tag: tag, R: "ok"})
	rows := int64(0)
	if tag == 1 {
		rows = int64(w.faults.Rows)
	}
	return fakeResult{rows: rows}, nil
}

func (c *fakeConn) QueryContext(_ context.Context, q string, _ []driver.NamedValue) (driver.Rows, error) {
	return nil, fmt.Errorf("fake driver: unexpected query %q", q)
}

var _ driver.ExecerContext = (*fakeConn)(nil)
var _ driver.QueryerContext = (*fakeConn)(nil)
var _ driver.ConnBeginTx = (*fakeConn)(nil)
var _ io.Closer = (*fakeConn)(nil)
