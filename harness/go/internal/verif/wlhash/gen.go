//go:build verif

package wlhash

import (
	"encoding/json"
	"fmt"
	"math/big"
	"math/rand"
	"sort"
	"strings"
	"unicode/utf8"

	"github.com/formancehq/ledger/internal/verif/gen"
)

func jsonMarshal(v any) ([]byte, error)      { return json.Marshal(v) }
func jsonUnmarshal(b []byte, v any) error    { return json.Unmarshal(b, v) }

// ---- strings -----------------------------------------------------------------

// Characters that encoding/json and PostgreSQL treat specially.
var nastyAtoms = []string{
	`"`, `\`, `\\`, `\"`, `\101`, `\x41`, `\n`, "<", ">", "&", "</script>", "'", "''", "`",
	"\t", "\n", "\r", "\b", "\f", "\x00", "\x01", "\x1f", "\x7f",
	"é", "日本", "😀", "\u00a0", "\u2028", "\u2029", "\ufffd", "\ufeff",
	"\xff", "\xc3", "\xe2\x80", "\xc0\xaf", "\xed\xa0\x80", "\xf4\x90\x80\x80", "\xf0\x9f\x98", "\x80",
	"{", "}", "[", "]", ",", ":", " ", "null", "{{.Schema}}", "$$", "||", "--", "/*",
}

// Atoms allowed in a `safeText` (SafeChars) string: printable ASCII other than " \ < > &,
// DEL, and well-formed non-ASCII other than U+2028/U+2029.
var safeAtoms = []string{
	"a", "B", "0", "9", "-", "_", ":", ".", "/", " ", "'", "`", "{", "}", "[", "]", ",", "=", "+", "%", "#", "@", "!", "~", "^", "|", "$", "(", ")", "*", ";", "?",
	"\x7f", "é", "ß", "日本", "😀", "\u00a0", "\ufffd", "\ufeff", "\u2027", "\u202a", "key", "world", "users:001", "idem-",
}

func pickAtoms(r *rand.Rand, atoms []string, maxN int) string {
	n := r.Intn(maxN + 1)
	s := ""
	for i := 0; i < n; i++ {
		s += atoms[r.Intn(len(atoms))]
	}
	return s
}

func safeString(r *rand.Rand) string { return pickAtoms(r, safeAtoms, 6) }

// nastyString: mostly safe atoms with one to three special ones.
func nastyString(r *rand.Rand) string {
	s := pickAtoms(r, safeAtoms, 3)
	k := 1 + r.Intn(3)
	for i := 0; i < k; i++ {
		s += nastyAtoms[r.Intn(len(nastyAtoms))] + pickAtoms(r, safeAtoms, 2)
	}
	return s
}

// canonicalProfile: when set, anyString only returns well-formed UTF-8 and anyDate
// only UTC dates with whole microseconds (the values HydrateLog itself produces).
var canonicalProfile bool

// anyString: free text for payload fields (no constraint applies to them).
// noNul: when set, anyString never contains U+0000 (PostgreSQL's jsonb rejects it, so a
// payload holding it cannot be stored in logs.data at all).
var noNul bool

func anyString(r *rand.Rand) string {
	if noNul {
		defer func() {}()
		s := anyStringInner(r)
		return strings.ReplaceAll(s, "\x00", "")
	}
	return anyStringInner(r)
}

func anyStringInner(r *rand.Rand) string {
	if canonicalProfile {
		for {
			s := anyStringRaw(r)
			if utf8.ValidString(s) {
				return s
			}
		}
	}
	return anyStringRaw(r)
}

func anyStringRaw(r *rand.Rand) string {
	switch r.Intn(10) {
	case 0:
		return ""
	case 1, 2, 3:
		return safeString(r)
	case 4:
		b := make([]byte, r.Intn(12))
		r.Read(b)
		return string(b)
	default:
		return nastyString(r)
	}
}

func address(r *rand.Rand) string {
	if r.Intn(3) == 0 {
		return anyString(r)
	}
	return gen.Pick(r, []string{"world", "users:001", "users:002:main", "bank", "orders:1234", "payments:42:fees"})
}

func asset(r *rand.Rand) string {
	if r.Intn(4) == 0 {
		return anyString(r)
	}
	return gen.Pick(r, []string{"USD", "USD/2", "EUR/2", "COIN", "BTC/8"})
}

// ---- dates ---------------------------------------------------------------------

var daysIn = []int{31, 28, 31, 30, 31, 30, 31, 31, 30, 31, 30, 31}

func isLeap(y int) bool { return (y%4 == 0 && y%100 != 0) || y%400 == 0 }

// civil draws valid civil fields; year mostly recent, sometimes any of 1..9999.
func civil(r *rand.Rand) dateIn {
	y := 1970 + r.Intn(131)
	switch r.Intn(12) {
	case 0:
		y = 1 + r.Intn(9999)
	case 1:
		y = gen.Pick(r, []int{1, 2, 999, 1000, 1582, 1899, 1900, 2000, 2038, 2100, 9999})
	}
	m := 1 + r.Intn(12)
	dim := daysIn[m-1]
	if m == 2 && isLeap(y) {
		dim = 29
	}
	d := 1 + r.Intn(dim)
	if r.Intn(6) == 0 {
		d = dim
	}
	h, mi, s := r.Intn(24), r.Intn(60), r.Intn(60)
	if r.Intn(8) == 0 {
		h, mi, s = 23, 59, 59
	}
	if r.Intn(10) == 0 {
		h, mi, s = 0, 0, 0
	}
	return dateIn{int64(y), int64(m), int64(d), int64(h), int64(mi), int64(s), 0, 0}
}

// frac draws a nanosecond count with exactly k significant fractional digits (k in 0..9).
func frac(r *rand.Rand, k int) int64 {
	if k == 0 {
		return 0
	}
	p := int64(1)
	for i := 0; i < 9-k; i++ {
		p *= 10
	}
	lim := int64(1)
	for i := 0; i < k; i++ {
		lim *= 10
	}
	v := r.Int63n(lim)
	if r.Intn(5) == 0 {
		v = lim - 1 // .999…
	}
	return v * p
}

// microDate: UTC, whole microseconds (what the API and the database produce).
func microDate(r *rand.Rand) dateIn {
	d := civil(r)
	d[6] = frac(r, r.Intn(7))
	if d[0] == 1 && d[1] == 1 && d[2] == 1 && d[3] == 0 && d[4] == 0 && d[5] == 0 && d[6] == 0 {
		d[5] = 1 // not the zero time
	}
	return d
}

// anyDate: any precision (0..9 digits), any zone.
func anyDate(r *rand.Rand) dateIn {
	if canonicalProfile {
		return microDate(r)
	}
	d := civil(r)
	d[6] = frac(r, r.Intn(10))
	switch r.Intn(4) {
	case 0:
		d[7] = int64(gen.Pick(r, []int{60, -60, 120, 330, -480, 345, 840, -720, 1, -1, 15}))
	}
	return d
}

// ---- payloads ------------------------------------------------------------------

func amount(r *rand.Rand) *string {
	switch r.Intn(20) {
	case 0:
		return nil
	case 1:
		s := new(big.Int).Neg(gen.BigAmount(r)).String()
		return &s
	}
	s := gen.BigAmount(r).String()
	return &s
}

func metaPairs(r *rand.Rand) *[][2]string {
	switch r.Intn(6) {
	case 0:
		return nil
	case 1:
		e := [][2]string{}
		return &e
	}
	m := map[string]string{}
	n := 1 + r.Intn(4)
	for i := 0; i < n; i++ {
		m[anyString(r)] = anyString(r)
	}
	out := make([][2]string, 0, len(m))
	for k, v := range m {
		out = append(out, [2]string{hx(k), hx(v)})
	}
	sort.Slice(out, func(i, j int) bool { return out[i][0] < out[j][0] })
	// shuffled on purpose: the encoder must sort by key
	r.Shuffle(len(out), func(i, j int) { out[i], out[j] = out[j], out[i] })
	return &out
}

func volumes(r *rand.Rand) *[]acctVolIn {
	switch r.Intn(4) {
	case 0:
		return nil
	case 1:
		e := []acctVolIn{}
		return &e
	}
	accts := map[string]map[string][2]string{}
	n := 1 + r.Intn(3)
	for i := 0; i < n; i++ {
		as := map[string][2]string{}
		k := r.Intn(3)
		for j := 0; j < k; j++ {
			as[asset(r)] = [2]string{gen.BigAmount(r).String(), gen.BigAmount(r).String()}
		}
		accts[address(r)] = as
	}
	out := make([]acctVolIn, 0, len(accts))
	for a, as := range accts {
		e := acctVolIn{Account: hx(a), Assets: []assetVolIn{}}
		for k, v := range as {
			e.Assets = append(e.Assets, assetVolIn{Asset: hx(k), Input: v[0], Output: v[1]})
		}
		sort.Slice(e.Assets, func(i, j int) bool { return e.Assets[i].Asset < e.Assets[j].Asset })
		out = append(out, e)
	}
	sort.Slice(out, func(i, j int) bool { return out[i].Account < out[j].Account })
	return &out
}

func genTx(r *rand.Rand, wide bool) *txIn {
	t := &txIn{}
	switch r.Intn(12) {
	case 0:
		// nil postings
	case 1:
		e := []postingIn{}
		t.Postings = &e
	default:
		n := 1 + r.Intn(3)
		if wide && r.Intn(10) == 0 {
			n = 1 + r.Intn(30)
		}
		ps := make([]postingIn, 0, n)
		for i := 0; i < n; i++ {
			ps = append(ps, postingIn{Source: hx(address(r)), Destination: hx(address(r)), Amount: amount(r), Asset: hx(asset(r))})
		}
		t.Postings = &ps
	}
	t.Metadata = metaPairs(r)
	t.Timestamp = anyDate(r)
	if r.Intn(2) == 0 {
		t.Reference = hx(anyString(r))
	}
	if r.Intn(12) != 0 {
		var id uint64
		switch r.Intn(4) {
		case 0:
			id = r.Uint64()
		case 1:
			id = gen.Pick(r, []uint64{0, 1, 1<<53 + 1, 1<<63 - 1, 1 << 63, 1<<64 - 1})
		default:
			id = uint64(r.Intn(100000))
		}
		s := fmt.Sprintf("%d", id)
		t.ID = &s
	}
	t.InsertedAt = anyDate(r)
	t.UpdatedAt = anyDate(r)
	if r.Intn(3) == 0 {
		d := anyDate(r)
		t.RevertedAt = &d
	}
	t.PostCommitVolumes = volumes(r)
	t.PostCommitEffectiveVolumes = volumes(r)
	if r.Intn(4) == 0 {
		t.Template = hx(anyString(r))
	}
	return t
}

var schemaSources = []string{
	`{"chart":{"users":{"$userID":{".self":{},"main":{}}}},"version":"v1"}`,
	`{"chart":{"banks":{"$iban":{".pattern":"^[0-9]{10}$","main":{},"out":{".metadata":{"foo":{},"bar":{"default":"B<A>R&\"\\"}}}}}},"version":"v<2>","createdAt":"2024-01-02T03:04:05.123456Z"}`,
	`{"chart":{"world":{}},"transactions":{"t1":{"description":"dé\"\\<","script":"send [USD 1] (\n source = @world\n destination = @a\n)","runtime":"machine"}},"version":"é"}`,
	`{"chart":{"a":{"b":{"c":{}}}},"queries":{},"version":""}`,
}

func genTarget(r *rand.Rand, p *payloadIn) {
	if r.Intn(2) == 0 {
		p.TargetType = hx(gen.Pick(r, []string{"ACCOUNT", "account", "Account"}))
		s := hx(address(r))
		p.TargetAccount = &s
	} else {
		p.TargetType = hx(gen.Pick(r, []string{"TRANSACTION", "transaction"}))
		var id uint64
		if r.Intn(3) == 0 {
			id = r.Uint64()
		} else {
			id = uint64(r.Intn(1000))
		}
		s := fmt.Sprintf("%d", id)
		p.TargetTx = &s
	}
}

func genPayload(r *rand.Rand, wide bool) payloadIn {
	switch r.Intn(9) {
	case 0, 1, 2:
		p := payloadIn{Kind: "created", Tx: genTx(r, wide)}
		switch r.Intn(4) {
		case 0:
		case 1:
			e := []acctMetaIn{}
			p.AccountMetadata = &e
		default:
			m := map[string]*[][2]string{}
			n := 1 + r.Intn(3)
			for i := 0; i < n; i++ {
				m[address(r)] = metaPairs(r)
			}
			am := make([]acctMetaIn, 0, len(m))
			for k, v := range m {
				am = append(am, acctMetaIn{K: hx(k), V: v})
			}
			sort.Slice(am, func(i, j int) bool { return am[i].K > am[j].K })
			p.AccountMetadata = &am
		}
		return p
	case 3, 4:
		p := payloadIn{Kind: "reverted", Reverted: genTx(r, wide), Revert: genTx(r, wide)}
		if p.Reverted.ID == nil && r.Intn(4) != 0 {
			s := "7"
			p.Reverted.ID = &s
		}
		return p
	case 5, 6:
		p := payloadIn{Kind: "savedMetadata", Metadata: metaPairs(r)}
		genTarget(r, &p)
		return p
	case 7:
		p := payloadIn{Kind: "deletedMetadata", Key: hx(anyString(r))}
		genTarget(r, &p)
		return p
	default:
		return payloadIn{Kind: "insertedSchema", SchemaSrc: hx(schemaSources[r.Intn(len(schemaSources))])}
	}
}

// ---- logs ----------------------------------------------------------------------

// genLog draws a log. With unsafe=false it satisfies SafeChars (the hypothesis of the
// C10 theorem); with unsafe=true it violates SafeChars in one (sometimes several)
// ways. The payload is adversarial in both profiles.
func genLog(r *rand.Rand, wide bool, unsafe bool) logIn {
	l := logIn{Payload: genPayload(r, wide), Date: microDate(r)}
	// previous hash
	switch x := r.Intn(20); {
	case x < 5:
	case x < 19:
		b := make([]byte, 32)
		r.Read(b)
		if r.Intn(8) == 0 {
			b[r.Intn(32)] = 0x5c
			b[r.Intn(32)] = 0x00
		}
		s := fmt.Sprintf("%x", b)
		l.Prev = &s
	default:
		b := make([]byte, gen.Pick(r, []int{0, 1, 2, 3, 31, 33, 56}))
		r.Read(b)
		s := fmt.Sprintf("%x", b)
		l.Prev = &s
	}
	// safe idempotency key (possibly empty)
	if r.Intn(4) != 0 {
		l.IK = hx(safeString(r))
	}
	if !unsafe {
		return l // SafeChars profile
	}
	k := 1
	if r.Intn(6) == 0 {
		k = 2 + r.Intn(2)
	}
	for i := 0; i < k; i++ {
		switch x := r.Intn(100); {
		case x < 55:
			l.IK = hx(nastyString(r))
		case x < 72:
			if r.Intn(3) == 0 {
				l.SV = hx(nastyString(r))
			} else {
				l.SV = hx(gen.Pick(r, []string{"v1", "1.0.0", "2024-01", "é"}))
			}
		case x < 80:
			l.Date[7] = int64(gen.Pick(r, []int{60, -60, 120, 330, -480, 840, 1}))
		case x < 90:
			l.Date[6] = frac(r, 7+r.Intn(3))
			if l.Date[6]%1000 == 0 {
				l.Date[6] += 1 + int64(r.Intn(999))
			}
		case x < 94:
			b := make([]byte, gen.Pick(r, []int{0, 3, 32}))
			r.Read(b)
			s := fmt.Sprintf("%x", b)
			l.Hash = &s
		case x < 97:
			b := make([]byte, gen.Pick(r, []int{57, 58, 64, 114, 120}))
			r.Read(b)
			s := fmt.Sprintf("%x", b)
			l.Prev = &s
		default:
			l.Date = dateIn{1, 1, 1, 0, 0, 0, 0, 0} // the zero time: column DEFAULT applies
		}
	}
	return l
}

// ---- payloads for the round-trip workload ------------------------------------------

// consistentVolumes makes tx marshalable: Transaction.MarshalJSON derives
// preCommitVolumes = postCommitVolumes − postings and dereferences every
// (account, asset) of the postings, so a non-empty volume map must cover them and the
// amounts must not be nil.
func consistentVolumes(r *rand.Rand, t *txIn) {
	fix := func(v *[]acctVolIn) *[]acctVolIn {
		if v == nil || len(*v) == 0 || t.Postings == nil {
			return v
		}
		m := map[string]map[string][2]string{}
		for _, a := range *v {
			as := map[string][2]string{}
			for _, x := range a.Assets {
				as[x.Asset] = [2]string{x.Input, x.Output}
			}
			m[a.Account] = as
		}
		for i := range *t.Postings {
			p := &(*t.Postings)[i]
			if p.Amount == nil {
				s := gen.BigAmount(r).String()
				p.Amount = &s
			}
			for _, acc := range []string{p.Source, p.Destination} {
				if m[acc] == nil {
					m[acc] = map[string][2]string{}
				}
				if _, ok := m[acc][p.Asset]; !ok {
					m[acc][p.Asset] = [2]string{gen.BigAmount(r).String(), gen.BigAmount(r).String()}
				}
			}
		}
		out := make([]acctVolIn, 0, len(m))
		for a, as := range m {
			e := acctVolIn{Account: a, Assets: []assetVolIn{}}
			for k, x := range as {
				e.Assets = append(e.Assets, assetVolIn{Asset: k, Input: x[0], Output: x[1]})
			}
			sort.Slice(e.Assets, func(i, j int) bool { return e.Assets[i].Asset < e.Assets[j].Asset })
			out = append(out, e)
		}
		sort.Slice(out, func(i, j int) bool { return out[i].Account < out[j].Account })
		return &out
	}
	t.PostCommitVolumes = fix(t.PostCommitVolumes)
	t.PostCommitEffectiveVolumes = fix(t.PostCommitEffectiveVolumes)
}

// genPayloadRT draws a payload for the encode/decode workload: 60 % canonical
// (what the decoder can produce), 40 % free; sometimes a target id of the wrong
// dynamic type or an unknown target type.
func genPayloadRT(r *rand.Rand, wide bool) payloadIn {
	canonicalProfile = r.Intn(5) < 3
	defer func() { canonicalProfile = false }()
	p := genPayload(r, wide)
	for _, t := range []*txIn{p.Tx, p.Reverted, p.Revert} {
		if t != nil {
			consistentVolumes(r, t)
			if canonicalProfile {
				// empty non-nil maps are not canonical (omitempty)
				if t.PostCommitVolumes != nil && len(*t.PostCommitVolumes) == 0 {
					t.PostCommitVolumes = nil
				}
				if t.PostCommitEffectiveVolumes != nil && len(*t.PostCommitEffectiveVolumes) == 0 {
					t.PostCommitEffectiveVolumes = nil
				}
			}
		}
	}
	if !canonicalProfile && (p.Kind == "savedMetadata" || p.Kind == "deletedMetadata") {
		switch r.Intn(8) {
		case 0: // wrong dynamic type
			if p.TargetAccount != nil {
				p.TargetType = hx("TRANSACTION")
			} else {
				p.TargetType = hx("ACCOUNT")
			}
		case 1:
			p.TargetType = hx(gen.Pick(r, []string{"", "LEDGER", "accounts", "tx"}))
		}
	}
	return p
}
