//go:build verif

package wlhash

import (
	"bytes"
	"crypto/sha256"
	"encoding/hex"
	"encoding/json"
	"fmt"
	"reflect"

	ledger "github.com/formancehq/ledger/internal"
	"github.com/formancehq/ledger/internal/verif/gen"
)

// ---- sha: Lean SHA-256 vs crypto/sha256 -----------------------------------------

type shaIn struct {
	Data string `json:"data"`
}
type shaOut struct {
	Sum string `json:"sum"`
}

func runSha(in shaIn) shaOut {
	b, _ := hex.DecodeString(in.Data)
	s := sha256.Sum256(b)
	return shaOut{Sum: hex.EncodeToString(s[:])}
}

// ---- gohash: the real Log.ComputeHash and the real memento bytes ------------------

type goHashOut struct {
	// hex of log.Hash after the real ComputeHash(previous)
	Hash string `json:"hash"`
	// hex of json.Marshal(memento) exactly as InsertLog computes it
	Memento string `json:"memento"`
	Panic   string `json:"panic,omitempty"`
}

func (l *logIn) toLog() (ledger.Log, error) {
	pl, err := l.Payload.toPayload()
	if err != nil {
		return ledger.Log{}, err
	}
	log := ledger.NewLog(pl)
	log.Date = l.Date.toTime()
	log.IdempotencyKey = unhx(l.IK)
	log.SchemaVersion = unhx(l.SV)
	log.Hash = unhxBytes(l.Hash)
	return log, nil
}

// mementoBytes: the statements of storage/ledger/logs.go:InsertLog that compute the
// `memento` column.
func mementoBytes(log ledger.Log) ([]byte, error) {
	mementoObject := log.Data.(any)
	if memento, ok := mementoObject.(ledger.Memento); ok {
		mementoObject = memento.GetMemento()
	}
	return json.Marshal(mementoObject)
}

func runGoHash(l *logIn) (out goHashOut) {
	out.Panic = gen.Guard(func() {
		log, err := l.toLog()
		if err != nil {
			panic(err)
		}
		if is, ok := log.Data.(ledger.InsertedSchema); ok {
			// the model embeds the real encoding of the schema (another area's model)
			b, err := json.Marshal(is.Schema)
			if err != nil {
				panic(err)
			}
			l.Payload.Schema = hex.EncodeToString(b)
		}
		var previous *ledger.Log
		if l.Prev != nil {
			previous = &ledger.Log{Hash: unhxBytes(l.Prev)}
		}
		m, err := mementoBytes(log)
		if err != nil {
			panic(err)
		}
		out.Memento = hex.EncodeToString(m)
		log.ComputeHash(previous)
		out.Hash = hex.EncodeToString(log.Hash)
	})
	return out
}

// ---- payload: real marshal → real HydrateLog → compare ----------------------------

type payloadOut struct {
	// hex of json.Marshal(payload): the `data` column / the exported "data" member
	JSON string `json:"json"`
	// HydrateLog(type, JSON) error ("" when ok)
	Err string `json:"err"`
	// the decoded payload, described like the input
	Decoded *payloadIn `json:"decoded"`
	// json.Marshal(decoded) == JSON
	StableJSON bool `json:"stableJson"`
	// memento bytes of the decoded payload == memento bytes of the original (what the
	// import path's hash verification relies on)
	SameMemento bool `json:"sameMemento"`
	// reflect.DeepEqual(decoded, original)
	DeepEqual bool   `json:"deepEqual"`
	Panic     string `json:"panic,omitempty"`
}

func runPayload(p *payloadIn) (out payloadOut) {
	out.Panic = gen.Guard(func() {
		pl, err := p.toPayload()
		if err != nil {
			panic(err)
		}
		if is, ok := pl.(ledger.InsertedSchema); ok {
			b, _ := json.Marshal(is.Schema)
			p.Schema = hex.EncodeToString(b)
		}
		b, err := json.Marshal(pl)
		if err != nil {
			panic(err)
		}
		out.JSON = hex.EncodeToString(b)
		dec, err := ledger.HydrateLog(pl.Type(), b)
		if err != nil {
			out.Err = err.Error()
			return
		}
		d := payloadInOf(dec)
		out.Decoded = &d
		b2, err := json.Marshal(dec)
		out.StableJSON = err == nil && bytes.Equal(b, b2)
		m1, e1 := mementoBytes(ledger.Log{Data: pl})
		m2, e2 := mementoBytes(ledger.Log{Data: dec})
		out.SameMemento = e1 == nil && e2 == nil && bytes.Equal(m1, m2)
		out.DeepEqual = reflect.DeepEqual(dec, pl)
	})
	return out
}

// ---- registration ----------------------------------------------------------------

func replayOr[T any](c *gen.Ctx, f string, genOne func() T, run func(T) any) error {
	if c.Replay != "" {
		ins, err := c.ReplayInputs(f)
		if err != nil {
			return err
		}
		for _, raw := range ins {
			var in T
			if err := json.Unmarshal(raw, &in); err != nil {
				return fmt.Errorf("replay %s: %w", f, err)
			}
			out := run(in)
			if err := c.Emit(f, in, out); err != nil {
				return err
			}
		}
		return nil
	}
	for i := 0; i < c.N; i++ {
		in := genOne()
		out := run(in) // may complete `in` (schema bytes)
		if err := c.Emit(f, in, out); err != nil {
			return err
		}
	}
	return nil
}

func init() {
	gen.Register("sha", func(c *gen.Ctx) error {
		return replayOr(c, "sha", func() *shaIn {
			var n int
			switch c.R.Intn(6) {
			case 0:
				n = gen.Pick(c.R, []int{0, 1, 54, 55, 56, 57, 63, 64, 65, 119, 120, 127, 128, 129})
			case 1:
				n = c.R.Intn(2000)
			default:
				n = c.R.Intn(200)
			}
			if c.Wide && c.R.Intn(20) == 0 {
				n = c.R.Intn(20000)
			}
			b := make([]byte, n)
			c.R.Read(b)
			return &shaIn{Data: hex.EncodeToString(b)}
		}, func(in *shaIn) any { return runSha(*in) })
	})
	// gohash: SafeChars logs only (the C10 predicate must hold on every case);
	// gohashx: logs violating SafeChars (known mismatch classes, reported by sig).
	// Both are answered by the Lean handler "gohash".
	gen.Register("gohash", func(c *gen.Ctx) error {
		return replayOr(c, "gohash", func() *logIn {
			l := genLog(c.R, c.Wide, false)
			return &l
		}, func(in *logIn) any { return runGoHash(in) })
	})
	gen.Register("gohashx", func(c *gen.Ctx) error {
		return replayOr(c, "gohash", func() *logIn {
			l := genLog(c.R, c.Wide, true)
			return &l
		}, func(in *logIn) any { return runGoHash(in) })
	})
	gen.Register("payload", func(c *gen.Ctx) error {
		return replayOr(c, "payload", func() *payloadIn {
			p := genPayloadRT(c.R, c.Wide)
			return &p
		}, func(in *payloadIn) any { return runPayload(in) })
	})
}

// ---- chain: sequential ChainLog (C09) ----------------------------------------------

type chainIn struct {
	Logs []logIn `json:"logs"`
}

type chainOut struct {
	// hex of the hash of each log after the real Log.ChainLog(previous)
	Hashes []string `json:"hashes"`
	IDs    []uint64 `json:"ids"`
	Panic  string   `json:"panic,omitempty"`
}

func runChain(in *chainIn) (out chainOut) {
	out.Panic = gen.Guard(func() {
		var previous *ledger.Log
		for i := range in.Logs {
			l := &in.Logs[i]
			log, err := l.toLog()
			if err != nil {
				panic(err)
			}
			if is, ok := log.Data.(ledger.InsertedSchema); ok {
				b, err := json.Marshal(is.Schema)
				if err != nil {
					panic(err)
				}
				l.Payload.Schema = hex.EncodeToString(b)
			}
			chained := log.ChainLog(previous)
			out.Hashes = append(out.Hashes, hex.EncodeToString(chained.Hash))
			out.IDs = append(out.IDs, *chained.ID)
			previous = &chained
		}
	})
	return out
}

func genChain(c *gen.Ctx, withSchemaVersion bool) *chainIn {
	n := 1 + c.R.Intn(6)
	if c.Wide && c.R.Intn(10) == 0 {
		n = 1 + c.R.Intn(40)
	}
	in := &chainIn{}
	for i := 0; i < n; i++ {
		l := genLog(c.R, c.Wide, false)
		l.Prev = nil
		// GetMemento panics on a reverted transaction without id: not a chain matter
		if l.Payload.Kind == "reverted" && l.Payload.Reverted.ID == nil {
			s := "3"
			l.Payload.Reverted.ID = &s
		}
		in.Logs = append(in.Logs, l)
	}
	if withSchemaVersion {
		k := 1 + c.R.Intn(2)
		for j := 0; j < k; j++ {
			in.Logs[c.R.Intn(n)].SV = hx(gen.Pick(c.R, []string{"v1", "1.0.0", "2024-01", "é", "v 2"}))
		}
	}
	return in
}

func init() {
	// chain: SafeChars logs without schema version (the stored chain must equal the
	// reference chain); chainsv: at least one log carries a schema version.
	gen.Register("chain", func(c *gen.Ctx) error {
		return replayOr(c, "chain", func() *chainIn { return genChain(c, false) },
			func(in *chainIn) any { return runChain(in) })
	})
	gen.Register("chainsv", func(c *gen.Ctx) error {
		return replayOr(c, "chain", func() *chainIn { return genChain(c, true) },
			func(in *chainIn) any { return runChain(in) })
	})
}
