//go:build verif

// Package wlhash: correspondence workloads of the log / log-hash area
// (properties C08 payload part, C09, C10): `sha`, `gohash`, `payload`.
//
// Inputs are described by plain JSON structures (byte strings as lower-case hex
// so that invalid UTF-8 and control characters travel unharmed, big integers as
// decimal strings, dates as [Y,M,D,h,m,s,ns,zoneMinutes]); the real Go values are
// built from those structures, so a replayed input follows exactly the same path
// as a generated one.
package wlhash

import (
	"encoding/hex"
	"fmt"
	"math/big"
	"sort"
	stdtime "time"

	"github.com/formancehq/go-libs/v5/pkg/types/metadata"
	"github.com/formancehq/go-libs/v5/pkg/types/time"

	ledger "github.com/formancehq/ledger/internal"
)

// dateIn = [year, month, day, hour, minute, second, nanosecond, zone offset in minutes].
type dateIn [8]int64

func (d dateIn) toStd() stdtime.Time {
	loc := stdtime.UTC
	if d[7] != 0 {
		loc = stdtime.FixedZone("", int(d[7])*60)
	}
	return stdtime.Date(int(d[0]), stdtime.Month(d[1]), int(d[2]), int(d[3]), int(d[4]), int(d[5]), int(d[6]), loc)
}

func (d dateIn) toTime() time.Time { return time.Time{Time: d.toStd()} }

// fromStd describes a time.Time by the civil fields of its own location.
func dateFromStd(t stdtime.Time) dateIn {
	_, off := t.Zone()
	return dateIn{int64(t.Year()), int64(t.Month()), int64(t.Day()), int64(t.Hour()), int64(t.Minute()),
		int64(t.Second()), int64(t.Nanosecond()), int64(off / 60)}
}

type postingIn struct {
	Source      string  `json:"source"`
	Destination string  `json:"destination"`
	Amount      *string `json:"amount"`
	Asset       string  `json:"asset"`
}

type assetVolIn struct {
	Asset  string `json:"asset"`
	Input  string `json:"input"`
	Output string `json:"output"`
}

type acctVolIn struct {
	Account string       `json:"account"`
	Assets  []assetVolIn `json:"assets"`
}

type acctMetaIn struct {
	K string       `json:"k"`
	V *[][2]string `json:"v"`
}

type txIn struct {
	Postings                   *[]postingIn `json:"postings"`
	Metadata                   *[][2]string `json:"metadata"`
	Timestamp                  dateIn       `json:"timestamp"`
	Reference                  string       `json:"reference"`
	ID                         *string      `json:"id"`
	InsertedAt                 dateIn       `json:"insertedAt"`
	UpdatedAt                  dateIn       `json:"updatedAt"`
	RevertedAt                 *dateIn      `json:"revertedAt"`
	PostCommitVolumes          *[]acctVolIn `json:"postCommitVolumes"`
	PostCommitEffectiveVolumes *[]acctVolIn `json:"postCommitEffectiveVolumes"`
	Template                   string       `json:"template"`
}

type payloadIn struct {
	Kind            string        `json:"kind"`
	Tx              *txIn         `json:"tx,omitempty"`
	AccountMetadata *[]acctMetaIn `json:"accountMetadata,omitempty"`
	Reverted        *txIn         `json:"reverted,omitempty"`
	Revert          *txIn         `json:"revert,omitempty"`
	TargetType      string        `json:"targetType,omitempty"`
	TargetAccount   *string       `json:"targetAccount,omitempty"`
	TargetTx        *string       `json:"targetTx,omitempty"`
	// dynamic type of a decoded target id that is neither string nor uint64
	TargetOther     string        `json:"targetOther,omitempty"`
	Metadata        *[][2]string  `json:"metadata,omitempty"`
	Key             string        `json:"key,omitempty"`
	// insertedSchema: the schema as JSON source (hex) from which the real
	// ledger.Schema is unmarshalled, and — filled by the harness — the bytes
	// json.Marshal(payload.Schema) produced (hex), which is what the model embeds.
	SchemaSrc string `json:"schemaSrc,omitempty"`
	Schema    string `json:"schema,omitempty"`
}

type logIn struct {
	Payload payloadIn `json:"payload"`
	Date    dateIn    `json:"date"`
	IK      string    `json:"ik"`
	SV      string    `json:"sv"`
	Hash    *string   `json:"hash"`
	Prev    *string   `json:"prev"`
}

func hx(s string) string { return hex.EncodeToString([]byte(s)) }

func unhx(s string) string {
	b, err := hex.DecodeString(s)
	if err != nil {
		panic(fmt.Sprintf("bad hex %q", s))
	}
	return string(b)
}

func unhxBytes(s *string) []byte {
	if s == nil {
		return nil
	}
	b, err := hex.DecodeString(*s)
	if err != nil {
		panic(fmt.Sprintf("bad hex %q", *s))
	}
	if b == nil {
		b = []byte{}
	}
	return b
}

func bigOf(s string) *big.Int {
	v, ok := new(big.Int).SetString(s, 10)
	if !ok {
		panic("bad integer " + s)
	}
	return v
}

func metaOf(m *[][2]string) metadata.Metadata {
	if m == nil {
		return nil
	}
	out := metadata.Metadata{}
	for _, kv := range *m {
		out[unhx(kv[0])] = unhx(kv[1])
	}
	return out
}

func metaIn(m metadata.Metadata) *[][2]string {
	if m == nil {
		return nil
	}
	out := make([][2]string, 0, len(m))
	for k, v := range m {
		out = append(out, [2]string{hx(k), hx(v)})
	}
	sort.Slice(out, func(i, j int) bool { return out[i][0] < out[j][0] })
	return &out
}

func volsOf(v *[]acctVolIn) ledger.PostCommitVolumes {
	if v == nil {
		return nil
	}
	out := ledger.PostCommitVolumes{}
	for _, a := range *v {
		m := ledger.VolumesByAssets{}
		for _, x := range a.Assets {
			m[unhx(x.Asset)] = ledger.Volumes{Input: bigOf(x.Input), Output: bigOf(x.Output)}
		}
		out[unhx(a.Account)] = m
	}
	return out
}

func volsIn(v ledger.PostCommitVolumes) *[]acctVolIn {
	if v == nil {
		return nil
	}
	out := make([]acctVolIn, 0, len(v))
	for acc, m := range v {
		as := make([]assetVolIn, 0, len(m))
		for asset, vol := range m {
			in, outp := "0", "0"
			if vol.Input != nil {
				in = vol.Input.String()
			}
			if vol.Output != nil {
				outp = vol.Output.String()
			}
			as = append(as, assetVolIn{Asset: hx(asset), Input: in, Output: outp})
		}
		sort.Slice(as, func(i, j int) bool { return as[i].Asset < as[j].Asset })
		out = append(out, acctVolIn{Account: hx(acc), Assets: as})
	}
	sort.Slice(out, func(i, j int) bool { return out[i].Account < out[j].Account })
	return &out
}

func (t *txIn) toTx() ledger.Transaction {
	tx := ledger.Transaction{}
	if t.Postings != nil {
		tx.Postings = ledger.Postings{}
		for _, p := range *t.Postings {
			var amt *big.Int
			if p.Amount != nil {
				amt = bigOf(*p.Amount)
			}
			tx.Postings = append(tx.Postings, ledger.Posting{Source: unhx(p.Source), Destination: unhx(p.Destination),
				Amount: amt, Asset: unhx(p.Asset)})
		}
	}
	tx.Metadata = metaOf(t.Metadata)
	tx.Timestamp = t.Timestamp.toTime()
	tx.Reference = unhx(t.Reference)
	if t.ID != nil {
		v := bigOf(*t.ID).Uint64()
		tx.ID = &v
	}
	tx.InsertedAt = t.InsertedAt.toTime()
	tx.UpdatedAt = t.UpdatedAt.toTime()
	if t.RevertedAt != nil {
		r := t.RevertedAt.toTime()
		tx.RevertedAt = &r
	}
	tx.PostCommitVolumes = volsOf(t.PostCommitVolumes)
	tx.PostCommitEffectiveVolumes = volsOf(t.PostCommitEffectiveVolumes)
	tx.Template = unhx(t.Template)
	return tx
}

func txInOf(tx ledger.Transaction) *txIn {
	t := &txIn{}
	if tx.Postings != nil {
		ps := make([]postingIn, 0, len(tx.Postings))
		for _, p := range tx.Postings {
			var amt *string
			if p.Amount != nil {
				s := p.Amount.String()
				amt = &s
			}
			ps = append(ps, postingIn{Source: hx(p.Source), Destination: hx(p.Destination), Amount: amt, Asset: hx(p.Asset)})
		}
		t.Postings = &ps
	}
	t.Metadata = metaIn(tx.Metadata)
	t.Timestamp = dateFromStd(tx.Timestamp.Time)
	t.Reference = hx(tx.Reference)
	if tx.ID != nil {
		s := fmt.Sprintf("%d", *tx.ID)
		t.ID = &s
	}
	t.InsertedAt = dateFromStd(tx.InsertedAt.Time)
	t.UpdatedAt = dateFromStd(tx.UpdatedAt.Time)
	if tx.RevertedAt != nil {
		d := dateFromStd(tx.RevertedAt.Time)
		t.RevertedAt = &d
	}
	t.PostCommitVolumes = volsIn(tx.PostCommitVolumes)
	t.PostCommitEffectiveVolumes = volsIn(tx.PostCommitEffectiveVolumes)
	t.Template = hx(tx.Template)
	return t
}

func (p *payloadIn) targetID() any {
	if p.TargetAccount != nil {
		return unhx(*p.TargetAccount)
	}
	if p.TargetTx != nil {
		return bigOf(*p.TargetTx).Uint64()
	}
	return nil
}

// toPayload builds the real payload value.
func (p *payloadIn) toPayload() (ledger.LogPayload, error) {
	switch p.Kind {
	case "created":
		var am ledger.AccountMetadata
		if p.AccountMetadata != nil {
			am = ledger.AccountMetadata{}
			for _, e := range *p.AccountMetadata {
				am[unhx(e.K)] = metaOf(e.V)
			}
		}
		return ledger.CreatedTransaction{Transaction: p.Tx.toTx(), AccountMetadata: am}, nil
	case "reverted":
		return ledger.RevertedTransaction{RevertedTransaction: p.Reverted.toTx(), RevertTransaction: p.Revert.toTx()}, nil
	case "savedMetadata":
		return ledger.SavedMetadata{TargetType: unhx(p.TargetType), TargetID: p.targetID(), Metadata: metaOf(p.Metadata)}, nil
	case "deletedMetadata":
		return ledger.DeletedMetadata{TargetType: unhx(p.TargetType), TargetID: p.targetID(), Key: unhx(p.Key)}, nil
	case "insertedSchema":
		var s ledger.Schema
		if err := jsonUnmarshal([]byte(unhx(p.SchemaSrc)), &s); err != nil {
			return nil, err
		}
		return ledger.InsertedSchema{Schema: s}, nil
	}
	return nil, fmt.Errorf("unknown payload kind %q", p.Kind)
}

// payloadInOf describes a real payload (used for the decoded side of `payload`).
func payloadInOf(pl ledger.LogPayload) payloadIn {
	switch v := pl.(type) {
	case ledger.CreatedTransaction:
		out := payloadIn{Kind: "created", Tx: txInOf(v.Transaction)}
		if v.AccountMetadata != nil {
			am := make([]acctMetaIn, 0, len(v.AccountMetadata))
			for k, m := range v.AccountMetadata {
				am = append(am, acctMetaIn{K: hx(k), V: metaIn(m)})
			}
			sort.Slice(am, func(i, j int) bool { return am[i].K < am[j].K })
			out.AccountMetadata = &am
		}
		return out
	case ledger.RevertedTransaction:
		return payloadIn{Kind: "reverted", Reverted: txInOf(v.RevertedTransaction), Revert: txInOf(v.RevertTransaction)}
	case ledger.SavedMetadata:
		out := payloadIn{Kind: "savedMetadata", TargetType: hx(v.TargetType), Metadata: metaIn(v.Metadata)}
		setTarget(&out, v.TargetID)
		return out
	case ledger.DeletedMetadata:
		out := payloadIn{Kind: "deletedMetadata", TargetType: hx(v.TargetType), Key: hx(v.Key)}
		setTarget(&out, v.TargetID)
		return out
	case ledger.InsertedSchema:
		b, _ := jsonMarshal(v.Schema)
		return payloadIn{Kind: "insertedSchema", Schema: hex.EncodeToString(b)}
	}
	return payloadIn{Kind: fmt.Sprintf("unknown:%T", pl)}
}

func setTarget(out *payloadIn, id any) {
	switch t := id.(type) {
	case string:
		s := hx(t)
		out.TargetAccount = &s
	case uint64:
		s := fmt.Sprintf("%d", t)
		out.TargetTx = &s
	default:
		out.TargetOther = fmt.Sprintf("%T", id)
	}
}
