//go:build verif

package wlhash

import (
	"context"
	"encoding/hex"
	"encoding/json"
	"fmt"
	"math/big"
	"os"
	"os/exec"
	"path/filepath"
	"regexp"
	"strings"

	"github.com/formancehq/go-libs/v5/pkg/types/metadata"

	ledger "github.com/formancehq/ledger/internal"
	ledgercontroller "github.com/formancehq/ledger/internal/controller/ledger"
	systemcontroller "github.com/formancehq/ledger/internal/controller/system"
	"github.com/formancehq/ledger/internal/storage/bucket"
	storagedriver "github.com/formancehq/ledger/internal/storage/driver"
	ledgerstore "github.com/formancehq/ledger/internal/storage/ledger"
	systemstore "github.com/formancehq/ledger/internal/storage/system"
	"github.com/formancehq/ledger/internal/verif/gen"
	"github.com/formancehq/ledger/internal/verif/pgfake"
)

// Workloads of the END-TO-END leg of C10 (and C09): the REAL Store.InsertLog runs over
// pgfake/LeanPG (the modelled PostgreSQL executes the real INSERT and the real
// `set_log_hash` trigger folded from the migrations, HASH_LOGS=SYNC).
//
//   insertlog  — generated SafeChars logs (adversarial payloads) inserted one after the
//                other into a fresh ledger. Per log: the `memento` bytea literal of the
//                INSERT the real store rendered, the hash the database stored (RETURNING),
//                and the hash the real Log.ComputeHash gives over the previous STORED hash.
//   importhash — writes through the real controller (metadata / references full of
//                special characters), then the real Export → Import into a second ledger;
//                the import's own hash verification must accept every log.

type insertLogStep struct {
	// hex of the bytes of the memento literal in the rendered INSERT statement
	SentMemento string `json:"sentMemento"`
	// hex of log.Hash after the real InsertLog (what the trigger stored)
	StoredHash string `json:"storedHash"`
	// hex of the hash the real ComputeHash computes for the same log over the previous stored hash
	GoHash string `json:"goHash"`
	ID     uint64 `json:"id"`
	Err    string `json:"err,omitempty"`
}

type insertLogOut struct {
	Steps []insertLogStep `json:"steps"`
	Panic string          `json:"panic,omitempty"`
}

var mementoLiteral = regexp.MustCompile(`'\\x([0-9a-fA-F]*)'`)

type e2eEnv struct {
	srv *pgfake.Server
	d   *storagedriver.Driver
	sys *systemcontroller.DefaultController
	n   int
}

// ensureLpg: under bin/check ($VERIF_LDRIVER set) make sure the LeanPG executable is
// built from the CURRENT lean tree (bin/check only builds the verdict drivers named in
// the config; the translator t2_schema, listed in checks/C10.json, has already
// regenerated Generated/Schema.lean — i.e. the set_log_hash LeanPG executes — from the
// tree under test). A no-op when it is up to date.
func ensureLpg() error {
	ld := os.Getenv("VERIF_LDRIVER")
	if ld == "" || os.Getenv("VERIF_LPG") != "" {
		return nil
	}
	leanDir := filepath.Dir(filepath.Dir(filepath.Dir(filepath.Dir(ld)))) // …/lean/.lake/build/bin/x
	lock := filepath.Join(filepath.Dir(leanDir), ".work", "lake.lock")
	cmd := exec.Command("flock", lock, "lake", "build", "ldriver_sql")
	cmd.Dir = leanDir
	out, err := cmd.CombinedOutput()
	if err != nil {
		tail := string(out)
		if len(tail) > 1500 {
			tail = tail[len(tail)-1500:]
		}
		return fmt.Errorf("lake build ldriver_sql failed: %v: %s", err, tail)
	}
	return nil
}

func newE2E() (*e2eEnv, error) {
	if err := ensureLpg(); err != nil {
		return nil, err
	}
	srv, err := pgfake.Start(pgfake.DefaultLpgPath())
	if err != nil {
		return nil, err
	}
	db := srv.DB()
	d := storagedriver.New(db, ledgerstore.NewFactory(db), bucket.NewDefaultFactory(), systemstore.NewStoreFactory())
	parser := ledgercontroller.NewDefaultNumscriptParser()
	sys := systemcontroller.NewDefaultController(
		systemcontroller.NewControllerStorageDriverAdapter(d, systemstore.New(db)), nil, nil,
		systemcontroller.WithParser(parser, parser, ledgercontroller.NewInterpreterNumscriptParser(nil)),
		systemcontroller.WithEnableFeatures(true),
	)
	return &e2eEnv{srv: srv, d: d, sys: sys}, nil
}

func (e *e2eEnv) freshLedger(ctx context.Context) (string, error) {
	e.n++
	name := fmt.Sprintf("h%d", e.n)
	// default configuration: HASH_LOGS=SYNC
	if err := e.sys.CreateLedger(ctx, name, ledger.NewDefaultConfiguration()); err != nil {
		return "", err
	}
	return name, nil
}

func (e *e2eEnv) runInsertLog(in *chainIn) (out insertLogOut) {
	out.Panic = gen.Guard(func() {
		ctx := context.Background()
		name, err := e.freshLedger(ctx)
		if err != nil {
			panic(err)
		}
		store, _, err := e.d.OpenLedger(ctx, name)
		if err != nil {
			panic(err)
		}
		var previous *ledger.Log
		for i := range in.Logs {
			l := &in.Logs[i]
			log, err := l.toLog()
			if err != nil {
				panic(err)
			}
			if is, ok := log.Data.(ledger.InsertedSchema); ok {
				b, _ := json.Marshal(is.Schema)
				l.Payload.Schema = hex.EncodeToString(b)
			}
			step := insertLogStep{}
			// reference: the real ComputeHash over the previous STORED hash
			ref := log
			ref.ComputeHash(previous)
			step.GoHash = hex.EncodeToString(ref.Hash)

			e.srv.ResetLog()
			ins := log
			if err := store.InsertLog(ctx, &ins); err != nil {
				step.Err = err.Error()
				out.Steps = append(out.Steps, step)
				break
			}
			for _, st := range e.srv.Log() {
				if strings.Contains(st.SQL, "INSERT INTO") && strings.Contains(st.SQL, "logs") {
					if m := mementoLiteral.FindStringSubmatch(st.SQL); m != nil {
						step.SentMemento = strings.ToLower(m[1])
					}
				}
			}
			step.StoredHash = hex.EncodeToString(ins.Hash)
			if ins.ID != nil {
				step.ID = *ins.ID
			}
			out.Steps = append(out.Steps, step)
			previous = &ledger.Log{Hash: ins.Hash}
		}
	})
	return out
}

// ---- importhash ---------------------------------------------------------------------

type ctrlOp struct {
	// "tx" (postings world→dst, metadata, reference), "accmeta", "txmeta", "delaccmeta", "revert"
	Kind      string       `json:"kind"`
	Dst       string       `json:"dst,omitempty"`
	Amount    string       `json:"amount,omitempty"`
	Reference string       `json:"reference,omitempty"` // hex
	Metadata  *[][2]string `json:"metadata,omitempty"`  // hex pairs
	Key       string       `json:"key,omitempty"`       // hex
	IK        string       `json:"ik,omitempty"`        // hex, SafeChars
	TxID      uint64       `json:"txId,omitempty"`
}

type importIn struct {
	Ops []ctrlOp `json:"ops"`
}

type importOut struct {
	OpErrs    []string `json:"opErrs"`
	SrcHashes []string `json:"srcHashes"`
	DstHashes []string `json:"dstHashes"`
	// for every exported log: does the real ComputeHash over the previous exported hash
	// reproduce the exported hash?
	GoRecompute []bool `json:"goRecompute"`
	ImportErr   string `json:"importErr"`
	Panic       string `json:"panic,omitempty"`
}

// validText: adversarial but well-formed text (what the API can deliver in JSON bodies).
func validText(c *gen.Ctx) string {
	canonicalProfile = true
	defer func() { canonicalProfile = false }()
	for {
		s := anyString(c.R)
		if !strings.ContainsRune(s, 0) { // jsonb cannot hold U+0000
			return s
		}
	}
}

func genImport(c *gen.Ctx) *importIn {
	r := c.R
	n := 2 + r.Intn(5)
	in := &importIn{}
	txs := uint64(0)
	dsts := []string{"bank", "users:001", "orders:1234"}
	for i := 0; i < n; i++ {
		op := ctrlOp{}
		md := func() *[][2]string {
			m := [][2]string{}
			k := 1 + r.Intn(3)
			seen := map[string]bool{}
			for j := 0; j < k; j++ {
				key := validText(c)
				if seen[key] {
					continue
				}
				seen[key] = true
				m = append(m, [2]string{hx(key), hx(validText(c))})
			}
			return &m
		}
		if r.Intn(3) == 0 {
			op.IK = hx(safeString(r))
		}
		switch x := r.Intn(10); {
		case x < 5 || txs == 0:
			op.Kind = "tx"
			op.Dst = gen.Pick(r, dsts)
			op.Amount = gen.BigAmount(r).String()
			op.Metadata = md()
			if r.Intn(2) == 0 {
				op.Reference = hx(fmt.Sprintf("%s#%d", validText(c), i))
			}
			txs++
		case x < 7:
			op.Kind = "accmeta"
			op.Dst = gen.Pick(r, dsts)
			op.Metadata = md()
		case x < 9:
			op.Kind = "txmeta"
			op.TxID = 1 + uint64(r.Intn(int(txs)))
			op.Metadata = md()
		default:
			op.Kind = "delaccmeta"
			op.Dst = gen.Pick(r, dsts)
			op.Key = hx(validText(c))
		}
		in.Ops = append(in.Ops, op)
	}
	return in
}

func (e *e2eEnv) runImport(in *importIn) (out importOut) {
	out.Panic = gen.Guard(func() {
		ctx := context.Background()
		src, err := e.freshLedger(ctx)
		if err != nil {
			panic(err)
		}
		ctrl, err := e.sys.GetLedgerController(ctx, src)
		if err != nil {
			panic(err)
		}
		for _, op := range in.Ops {
			var err error
			ik := unhx(op.IK)
			switch op.Kind {
			case "tx":
				amt := bigOf(op.Amount)
				_, _, _, err = ctrl.CreateTransaction(ctx, ledgercontroller.Parameters[ledgercontroller.CreateTransaction]{
					IdempotencyKey: ik,
					Input: ledgercontroller.CreateTransaction{
						RunScript: ledgercontroller.TxToScriptData(ledger.TransactionData{
							Postings:  ledger.Postings{ledger.NewPosting("world", op.Dst, "USD/2", new(big.Int).Set(amt))},
							Metadata:  metaOf(op.Metadata),
							Reference: unhx(op.Reference),
						}, false),
					},
				})
			case "accmeta":
				_, _, err = ctrl.SaveAccountMetadata(ctx, ledgercontroller.Parameters[ledgercontroller.SaveAccountMetadata]{
					IdempotencyKey: ik,
					Input:          ledgercontroller.SaveAccountMetadata{Address: op.Dst, Metadata: metaOf(op.Metadata)}})
			case "txmeta":
				_, _, err = ctrl.SaveTransactionMetadata(ctx, ledgercontroller.Parameters[ledgercontroller.SaveTransactionMetadata]{
					IdempotencyKey: ik,
					Input:          ledgercontroller.SaveTransactionMetadata{TransactionID: op.TxID, Metadata: metaOf(op.Metadata)}})
			case "delaccmeta":
				_, _, err = ctrl.DeleteAccountMetadata(ctx, ledgercontroller.Parameters[ledgercontroller.DeleteAccountMetadata]{
					IdempotencyKey: ik,
					Input:          ledgercontroller.DeleteAccountMetadata{Address: op.Dst, Key: unhx(op.Key)}})
			}
			if err != nil {
				out.OpErrs = append(out.OpErrs, err.Error())
			} else {
				out.OpErrs = append(out.OpErrs, "")
			}
		}
		dst, err := e.freshLedger(ctx)
		if err != nil {
			panic(err)
		}
		ctrl2, err := e.sys.GetLedgerController(ctx, dst)
		if err != nil {
			panic(err)
		}
		var exported []ledger.Log
		if err := ctrl.Export(ctx, ledgercontroller.ExportWriterFn(func(ctx context.Context, log ledger.Log) error {
			exported = append(exported, log)
			return nil
		})); err != nil {
			panic(err)
		}
		var previous *ledger.Log
		for i := range exported {
			out.SrcHashes = append(out.SrcHashes, hex.EncodeToString(exported[i].Hash))
			re := exported[i]
			re.Hash = nil
			re.ComputeHash(previous)
			out.GoRecompute = append(out.GoRecompute, hex.EncodeToString(re.Hash) == hex.EncodeToString(exported[i].Hash))
			previous = &ledger.Log{Hash: exported[i].Hash}
		}
		ch := make(chan ledger.Log, len(exported)+1)
		for _, l := range exported {
			ch <- l
		}
		close(ch)
		if err := ctrl2.Import(ctx, ch); err != nil {
			out.ImportErr = err.Error()
		}
		_ = ctrl2.Export(ctx, ledgercontroller.ExportWriterFn(func(ctx context.Context, log ledger.Log) error {
			out.DstHashes = append(out.DstHashes, hex.EncodeToString(log.Hash))
			return nil
		}))
	})
	return out
}

var _ = metadata.Metadata{}

func init() {
	gen.Register("insertlog", func(c *gen.Ctx) error {
		env, err := newE2E()
		if err != nil {
			return err
		}
		defer env.srv.Close()
		return replayOr(c, "insertlog", func() *chainIn {
			noNul = true
			defer func() { noNul = false }()
			in := genChain(c, false)
			if len(in.Logs) > 3 {
				in.Logs = in.Logs[:3]
			}
			for i := range in.Logs {
				p := &in.Logs[i].Payload
				for _, t := range []*txIn{p.Tx, p.Reverted, p.Revert} {
					if t != nil {
						consistentVolumes(c.R, t) // json.Marshal(log.Data) needs them (preCommitVolumes)
					}
				}
			}
			return in
		}, func(in *chainIn) any { return env.runInsertLog(in) })
	})
	gen.Register("importhash", func(c *gen.Ctx) error {
		env, err := newE2E()
		if err != nil {
			return err
		}
		defer env.srv.Close()
		return replayOr(c, "importhash", func() *importIn { return genImport(c) },
			func(in *importIn) any { return env.runImport(in) })
	})
}
