//go:build verif

package wl

import (
	"encoding/json"
	"fmt"
	"math/big"

	"github.com/formancehq/ledger/internal/machine"
	"github.com/formancehq/ledger/internal/verif/gen"
)

// Workload "allot": NewAllotment + Allocate + ParsePortionSpecific on generated
// portion lists (sum-one, under, over, with/without remaining, odd denominators)
// and amounts of any magnitude.

type allotIn struct {
	// Portions as written in a script ("1/3", "12.5%", "remaining").
	Portions []string `json:"portions"`
	Amount   string   `json:"amount"`
}

type allotOut struct {
	// ParseErr[i] true when ParsePortionSpecific rejected Portions[i].
	ParseErr []bool `json:"parseErr"`
	// Parsed portions as "num/den" (normalised) or "remaining".
	Parsed []string `json:"parsed"`
	// NewAllotment error (empty when ok) — canonical small enum.
	Err string `json:"err"`
	// Allotment as "num/den".
	Allot []string `json:"allot"`
	Parts []string `json:"parts"`
	Panic string   `json:"panic,omitempty"`
}

func genPortions(c *gen.Ctx) []string {
	r := c.R
	k := 1 + r.Intn(6)
	if c.Wide && r.Intn(10) == 0 {
		k = 1 + r.Intn(40)
	}
	dens := []int64{1, 2, 3, 4, 5, 7, 8, 9, 10, 11, 13, 100, 1000, 997, 1 << 20}
	mode := r.Intn(10)
	ps := make([]string, 0, k+1)
	switch {
	case mode < 5:
		// Exact sum one over a common denominator: split d into k parts.
		d := gen.Pick(r, dens)
		if d < int64(k) {
			d = int64(k) * (1 + int64(r.Intn(5)))
		}
		left := d
		for i := 0; i < k; i++ {
			var n int64
			if i == k-1 {
				n = left
			} else {
				n = r.Int63n(left + 1)
				if r.Intn(3) > 0 && left > int64(k-i) {
					n = r.Int63n(left/int64(k-i)*2 + 1)
					if n > left {
						n = left
					}
				}
			}
			left -= n
			ps = append(ps, fmt.Sprintf("%d/%d", n, d))
		}
	case mode < 8:
		// Portions under one plus remaining at a random position.
		total := big.NewRat(0, 1)
		for i := 0; i < k; i++ {
			d := gen.Pick(r, dens)
			n := r.Int63n(d + 1)
			p := big.NewRat(n, d)
			if new(big.Rat).Add(total, p).Cmp(big.NewRat(1, 1)) > 0 {
				continue
			}
			total.Add(total, p)
			if r.Intn(3) == 0 {
				// percentage notation when exactly representable with ≤4 decimals
				pc := new(big.Rat).Mul(p, big.NewRat(100, 1))
				ps = append(ps, pc.FloatString(4)+"%")
				// FloatString rounds; keep total consistent with what will be parsed
				q, _ := new(big.Rat).SetString(pc.FloatString(4))
				q.Mul(q, big.NewRat(1, 100))
				total.Sub(total, p)
				total.Add(total, q)
			} else {
				ps = append(ps, fmt.Sprintf("%d/%d", n, d))
			}
		}
		pos := r.Intn(len(ps) + 1)
		ps = append(ps[:pos], append([]string{"remaining"}, ps[pos:]...)...)
		if r.Intn(15) == 0 {
			ps = append(ps, "remaining")
		}
	default:
		// Arbitrary (possibly over/under, malformed) portions.
		for i := 0; i < k; i++ {
			switch r.Intn(8) {
			case 0:
				ps = append(ps, "remaining")
			case 1:
				ps = append(ps, fmt.Sprintf("%d.%d%%", r.Intn(120), r.Intn(1000)))
			case 2:
				ps = append(ps, fmt.Sprintf("%d/%d", r.Intn(5), r.Intn(3)))
			case 3:
				// big.Rat.SetString reads fraction parts in base 0: leading zeros mean octal
				ps = append(ps, gen.Pick(r, []string{"010/100", "007/008", "01/02", "0x1/0x2", "1/010", "00/1", "0b1/0b10", "0o7/0o10", "1_0/2_0","", "%", "1/", "/2", "1.%", "abc", "1 / 2", "1  /2", "-1/2", "0x1/2", "1/2%", "٣/4"}))
			default:
				d := gen.Pick(r, dens)
				ps = append(ps, fmt.Sprintf("%d/%d", r.Int63n(d+1), d))
			}
		}
	}
	return ps
}

func runAllot(in allotIn) (out allotOut) {
	out.Panic = gen.Guard(func() {
		portions := make([]machine.Portion, 0, len(in.Portions))
		ok := true
		for _, s := range in.Portions {
			if s == "remaining" {
				portions = append(portions, machine.NewPortionRemaining())
				out.ParseErr = append(out.ParseErr, false)
				out.Parsed = append(out.Parsed, "remaining")
				continue
			}
			p, err := machine.ParsePortionSpecific(s)
			if err != nil {
				ok = false
				out.ParseErr = append(out.ParseErr, true)
				out.Parsed = append(out.Parsed, "")
				continue
			}
			out.ParseErr = append(out.ParseErr, false)
			out.Parsed = append(out.Parsed, ratStr(p.Specific))
			portions = append(portions, *p)
		}
		if !ok {
			out.Err = "parse"
			return
		}
		a, err := machine.NewAllotment(portions)
		if err != nil {
			switch err.Error() {
			case "two uses of `remaining` in the same allotment":
				out.Err = "two-remaining"
			case "sum of portions exceeded 100%":
				out.Err = "exceeded"
			default:
				out.Err = "other:" + err.Error()
			}
			return
		}
		for i := range *a {
			out.Allot = append(out.Allot, ratStr(&(*a)[i]))
		}
		amt, _ := new(big.Int).SetString(in.Amount, 10)
		mi := machine.MonetaryInt(*amt)
		for _, p := range a.Allocate(&mi) {
			out.Parts = append(out.Parts, (*big.Int)(p).String())
		}
	})
	return out
}

func ratStr(r *big.Rat) string { return r.Num().String() + "/" + r.Denom().String() }

func init() {
	gen.Register("allot", func(c *gen.Ctx) error {
		if c.Replay != "" {
			ins, err := c.ReplayInputs("allot")
			if err != nil {
				return err
			}
			for _, raw := range ins {
				var in allotIn
				if err := json.Unmarshal(raw, &in); err != nil {
					return err
				}
				if err := c.Emit("allot", in, runAllot(in)); err != nil {
					return err
				}
			}
			return nil
		}
		for i := 0; i < c.N; i++ {
			in := allotIn{Portions: genPortions(c), Amount: gen.BigAmount(c.R).String()}
			if err := c.Emit("allot", in, runAllot(in)); err != nil {
				return err
			}
		}
		return nil
	})
}
