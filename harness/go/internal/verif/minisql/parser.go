//go:build verif

package minisql

import (
	"fmt"
	"math/big"
	"strings"
)

// ParseError names the construct minisql does not support.
type ParseError struct {
	Msg string
	Pos int
	SQL string
}

func (e *ParseError) Error() string {
	ctx := e.SQL
	if e.Pos >= 0 && e.Pos <= len(ctx) {
		lo, hi := e.Pos-40, e.Pos+40
		if lo < 0 {
			lo = 0
		}
		if hi > len(ctx) {
			hi = len(ctx)
		}
		ctx = ctx[lo:e.Pos] + "⟦HERE⟧" + ctx[e.Pos:hi]
	}
	return fmt.Sprintf("minisql: %s (at offset %d: …%s…)", e.Msg, e.Pos, ctx)
}

type parser struct {
	src   string
	toks  []Token
	i     int
	winID int
	// pl is true while parsing PL/pgSQL bodies (allows := and bare variables)
	pl bool
}

func (p *parser) peek() Token { return p.toks[p.i] }
func (p *parser) peekAt(k int) Token {
	if p.i+k < len(p.toks) {
		return p.toks[p.i+k]
	}
	return p.toks[len(p.toks)-1]
}
func (p *parser) next() Token {
	t := p.toks[p.i]
	if p.i < len(p.toks)-1 {
		p.i++
	}
	return t
}

func (p *parser) fail(format string, a ...any) {
	panic(&ParseError{Msg: fmt.Sprintf(format, a...), Pos: p.peek().Pos, SQL: p.src})
}

func (p *parser) isKw(kw string) bool {
	t := p.peek()
	return t.Kind == TIdent && t.Text == kw
}
func (p *parser) isKwAt(k int, kw string) bool {
	t := p.peekAt(k)
	return t.Kind == TIdent && t.Text == kw
}
func (p *parser) acceptKw(kw string) bool {
	if p.isKw(kw) {
		p.next()
		return true
	}
	return false
}
func (p *parser) expectKw(kw string) {
	if !p.acceptKw(kw) {
		p.fail("expected %s, found %s", strings.ToUpper(kw), p.peek())
	}
}
func (p *parser) isOp(op string) bool {
	t := p.peek()
	return t.Kind == TOp && t.Text == op
}
func (p *parser) isOpAt(k int, op string) bool {
	t := p.peekAt(k)
	return t.Kind == TOp && t.Text == op
}
func (p *parser) acceptOp(op string) bool {
	if p.isOp(op) {
		p.next()
		return true
	}
	return false
}
func (p *parser) expectOp(op string) {
	if !p.acceptOp(op) {
		p.fail("expected %q, found %s", op, p.peek())
	}
}

// ident accepts a plain or quoted identifier.
func (p *parser) ident(what string) string {
	t := p.peek()
	if t.Kind == TIdent || t.Kind == TQIdent {
		p.next()
		return t.Text
	}
	p.fail("expected %s, found %s", what, t)
	return ""
}

func (p *parser) isIdent() bool {
	k := p.peek().Kind
	return k == TIdent || k == TQIdent
}

// Parse parses exactly one statement and runs the print-back check.
func Parse(sql string) (st *Stmt, err error) {
	defer func() {
		if r := recover(); r != nil {
			if pe, ok := r.(*ParseError); ok {
				st, err = nil, pe
				return
			}
			panic(r)
		}
	}()
	toks, lerr := Lex(sql)
	if lerr != nil {
		return nil, &ParseError{Msg: lerr.Error(), Pos: -1, SQL: sql}
	}
	p := &parser{src: sql, toks: toks}
	root := p.parseStatement()
	p.acceptOp(";")
	if p.peek().Kind != TEOF {
		p.fail("unexpected %s after the end of the statement", p.peek())
	}
	st = &Stmt{Root: root, SQL: sql}
	if err := CheckPrintBack(st); err != nil {
		return nil, err
	}
	return st, nil
}

// ParseExprString parses a stand-alone expression (trigger WHEN clauses,
// column defaults, index predicates).
func ParseExprString(sql string) (n *Node, err error) {
	defer func() {
		if r := recover(); r != nil {
			if pe, ok := r.(*ParseError); ok {
				n, err = nil, pe
				return
			}
			panic(r)
		}
	}()
	toks, lerr := Lex(sql)
	if lerr != nil {
		return nil, &ParseError{Msg: lerr.Error(), Pos: -1, SQL: sql}
	}
	p := &parser{src: sql, toks: toks}
	n = p.parseExpr()
	if p.peek().Kind != TEOF {
		p.fail("unexpected %s after the end of the expression", p.peek())
	}
	return n, nil
}

// ---------------------------------------------------------------------------
// statements
// ---------------------------------------------------------------------------

func (p *parser) parseStatement() *Node {
	t := p.peek()
	if t.Kind == TOp && t.Text == "(" {
		return N("Stmt.query", p.parseQuery())
	}
	if t.Kind != TIdent {
		p.fail("unsupported statement starting with %s", t)
	}
	switch t.Text {
	case "select", "with", "values":
		return p.parseWithStatement()
	case "insert":
		return p.parseInsert(nil)
	case "update":
		return p.parseUpdate(nil)
	case "delete":
		return p.parseDelete(nil)
	case "begin", "start":
		p.next()
		if t.Text == "start" {
			p.expectKw("transaction")
		} else {
			p.acceptKw("transaction")
		}
		// isolation options are not modelled (READ COMMITTED is assumed)
		if p.peek().Kind != TEOF && !p.isOp(";") {
			p.fail("unsupported BEGIN option %s (only READ COMMITTED, the default, is modelled)", p.peek())
		}
		return N("Stmt.begin")
	case "commit", "end":
		p.next()
		return N("Stmt.commit")
	case "rollback":
		p.next()
		if p.acceptKw("to") {
			p.acceptKw("savepoint")
			return N("Stmt.rollbackTo", p.ident("savepoint name"))
		}
		return N("Stmt.rollback")
	case "savepoint":
		p.next()
		return N("Stmt.savepoint", p.ident("savepoint name"))
	case "release":
		p.next()
		p.acceptKw("savepoint")
		return N("Stmt.release", p.ident("savepoint name"))
	case "create":
		return p.parseCreate()
	case "call":
		p.next()
		schema, name := p.qualifiedName("procedure name")
		p.expectOp("(")
		var args []*Node
		if !p.isOp(")") {
			args = p.parseExprList()
		}
		p.expectOp(")")
		return N("Stmt.call", schema, name, args)
	}
	p.fail("unsupported statement kind %s", strings.ToUpper(t.Text))
	return nil
}

// parseWithStatement handles a statement that may start with WITH: the main
// statement can be a query or (rarely) a DML statement.
func (p *parser) parseWithStatement() *Node {
	if p.isKw("with") {
		// look ahead: WITH … INSERT/UPDATE/DELETE as main statement
		save := p.i
		ctes := p.parseCtes()
		switch {
		case p.isKw("insert"):
			return p.parseInsert(ctes)
		case p.isKw("update"):
			return p.parseUpdate(ctes)
		case p.isKw("delete"):
			return p.parseDelete(ctes)
		}
		p.i = save
	}
	return N("Stmt.query", p.parseQuery())
}

func (p *parser) qualifiedName(what string) (schema, name string) {
	a := p.ident(what)
	if p.isOp(".") && (p.peekAt(1).Kind == TIdent || p.peekAt(1).Kind == TQIdent) {
		p.next()
		b := p.ident(what)
		return a, b
	}
	return "", a
}

func (p *parser) parseCtes() []*Node {
	p.expectKw("with")
	if p.isKw("recursive") {
		p.fail("unsupported construct: WITH RECURSIVE")
	}
	var ctes []*Node
	for {
		name := p.ident("CTE name")
		var cols []string
		if p.acceptOp("(") {
			cols = p.identList()
			p.expectOp(")")
		}
		p.expectKw("as")
		if p.isKw("materialized") || p.isKw("not") {
			p.fail("unsupported construct: [NOT] MATERIALIZED")
		}
		p.expectOp("(")
		var body *Node
		switch {
		case p.isKw("insert"):
			body = p.parseInsert(nil)
		case p.isKw("update"):
			body = p.parseUpdate(nil)
		case p.isKw("delete"):
			body = p.parseDelete(nil)
		default:
			body = N("Stmt.query", p.parseQuery())
		}
		p.expectOp(")")
		ctes = append(ctes, N("Cte.mk", name, cols, body))
		if !p.acceptOp(",") {
			break
		}
	}
	return ctes
}

func (p *parser) identList() []string {
	var out []string
	for {
		out = append(out, p.ident("identifier"))
		if !p.acceptOp(",") {
			break
		}
	}
	return out
}

// parseQuery: [WITH …] setexpr [ORDER BY …] [LIMIT n] [OFFSET n] [FOR UPDATE]
func (p *parser) parseQuery() *Node {
	var ctes []*Node
	if p.isKw("with") {
		ctes = p.parseCtes()
	}
	body := p.parseSetExpr()
	var order []*Node
	if p.isKw("order") {
		order = p.parseOrderBy()
	}
	var limit, offset *Node
	for {
		if p.acceptKw("limit") {
			if limit != nil {
				p.fail("duplicate LIMIT")
			}
			if p.isKw("all") {
				p.fail("unsupported construct: LIMIT ALL")
			}
			limit = p.parseExpr()
			continue
		}
		if p.acceptKw("offset") {
			if offset != nil {
				p.fail("duplicate OFFSET")
			}
			offset = p.parseExpr()
			if p.isKw("rows") || p.isKw("row") {
				p.fail("unsupported construct: OFFSET … ROWS")
			}
			continue
		}
		break
	}
	if p.isKw("fetch") {
		p.fail("unsupported construct: FETCH FIRST")
	}
	lock := Enum{"LockMode", "none"}
	if p.acceptKw("for") {
		switch {
		case p.acceptKw("update"):
			lock = Enum{"LockMode", "forUpdate"}
		case p.isKw("no"):
			p.next()
			p.expectKw("key")
			p.expectKw("update")
			lock = Enum{"LockMode", "forNoKeyUpdate"}
		case p.acceptKw("share"):
			lock = Enum{"LockMode", "forShare"}
		default:
			p.fail("unsupported locking clause FOR %s", p.peek())
		}
		if p.isKw("of") || p.isKw("nowait") || p.isKw("skip") {
			p.fail("unsupported locking option %s", strings.ToUpper(p.peek().Text))
		}
	}
	return N("Query.mk", ctes, body, order, Opt{limit}, Opt{offset}, lock)
}

func (p *parser) parseOrderBy() []*Node {
	p.expectKw("order")
	p.expectKw("by")
	var out []*Node
	for {
		e := p.parseExpr()
		desc := false
		if p.acceptKw("asc") {
		} else if p.acceptKw("desc") {
			desc = true
		}
		if p.isKw("using") {
			p.fail("unsupported construct: ORDER BY … USING")
		}
		nulls := Enum{"NullsOrder", "dflt"}
		if p.acceptKw("nulls") {
			if p.acceptKw("first") {
				nulls = Enum{"NullsOrder", "first"}
			} else {
				p.expectKw("last")
				nulls = Enum{"NullsOrder", "last"}
			}
		}
		out = append(out, N("OrderItem.mk", e, desc, nulls))
		if !p.acceptOp(",") {
			break
		}
	}
	return out
}

func (p *parser) parseSetExpr() *Node {
	left := p.parseSetTerm()
	for {
		if p.isKw("union") {
			p.next()
			all := p.acceptKw("all")
			if p.isKw("distinct") {
				p.fail("unsupported construct: UNION DISTINCT")
			}
			right := p.parseSetTerm()
			left = N("SetExpr.union", all, left, right)
			continue
		}
		if p.isKw("intersect") || p.isKw("except") {
			p.fail("unsupported construct: %s", strings.ToUpper(p.peek().Text))
		}
		return left
	}
}

func (p *parser) parseSetTerm() *Node {
	switch {
	case p.isOp("("):
		p.next()
		q := p.parseQuery()
		p.expectOp(")")
		return N("SetExpr.paren", q)
	case p.isKw("select"):
		return N("SetExpr.select", p.parseSelect())
	case p.isKw("values"):
		p.next()
		var rows [][]*Node
		for {
			p.expectOp("(")
			rows = append(rows, p.parseExprList())
			p.expectOp(")")
			if !p.acceptOp(",") {
				break
			}
		}
		return N("SetExpr.values", rows)
	}
	p.fail("expected SELECT, VALUES or a parenthesised query, found %s", p.peek())
	return nil
}

var aliasStop = map[string]bool{
	"from": true, "where": true, "group": true, "order": true, "limit": true, "offset": true, "union": true,
	"join": true, "left": true, "right": true, "inner": true, "cross": true, "full": true, "natural": true, "on": true,
	"for": true, "returning": true, "set": true, "using": true, "having": true, "window": true, "into": true,
	"intersect": true, "except": true, "fetch": true, "as": true, "when": true, "then": true, "else": true, "end": true,
	"and": true, "or": true, "not": true, "is": true, "in": true, "like": true, "between": true, "lateral": true,
	"do": true, "loop": true, "at": true, "asc": true, "desc": true, "nulls": true, "conflict": true, "with": true, "select": true,
}

func (p *parser) optAlias() string {
	if p.acceptKw("as") {
		return p.ident("alias")
	}
	t := p.peek()
	if t.Kind == TQIdent {
		p.next()
		return t.Text
	}
	if t.Kind == TIdent && !aliasStop[t.Text] {
		p.next()
		return t.Text
	}
	return ""
}

func (p *parser) parseSelect() *Node {
	p.expectKw("select")
	distinct := false
	var distinctOn []*Node
	if p.acceptKw("distinct") {
		if p.acceptKw("on") {
			p.expectOp("(")
			distinctOn = p.parseExprList()
			p.expectOp(")")
		} else {
			distinct = true
		}
	} else {
		p.acceptKw("all")
	}
	var items []*Node
	// an empty select list is legal in PostgreSQL (`select from t`)
	if !(p.isKw("from") || p.peek().Kind == TEOF || p.isOp(")")) {
		for {
			items = append(items, p.parseSelItem())
			if !p.acceptOp(",") {
				break
			}
		}
	}
	var from []*Node
	if p.acceptKw("from") {
		for {
			from = append(from, p.parseFromItem())
			if !p.acceptOp(",") {
				break
			}
		}
	}
	var where *Node
	if p.acceptKw("where") {
		where = p.parseExpr()
	}
	var group []*Node
	if p.isKw("group") {
		p.next()
		p.expectKw("by")
		group = p.parseExprList()
	}
	var having *Node
	if p.acceptKw("having") {
		having = p.parseExpr()
	}
	if p.isKw("window") {
		p.fail("unsupported construct: WINDOW clause")
	}
	return N("Select.mk", distinct, distinctOn, items, from, Opt{where}, group, Opt{having})
}

func (p *parser) parseSelItem() *Node {
	if p.isOp("*") {
		p.next()
		return N("SelItem.star", "")
	}
	// t.* / s.t.*
	if p.isIdent() {
		k := 0
		for p.isOpAt(k+1, ".") && (p.peekAt(k+2).Kind == TIdent || p.peekAt(k+2).Kind == TQIdent) {
			k += 2
		}
		if p.isOpAt(k+1, ".") && p.isOpAt(k+2, "*") {
			parts := []string{}
			for j := 0; j <= k; j += 2 {
				parts = append(parts, p.peekAt(j).Text)
			}
			p.i += k + 3
			return N("SelItem.star", strings.Join(parts, "."))
		}
	}
	e := p.parseExpr()
	alias := p.optAlias()
	return N("SelItem.expr", e, alias)
}

func (p *parser) parseFromItem() *Node {
	left := p.parseFromPrimary()
	for {
		kind := ""
		switch {
		case p.isKw("join"):
			p.next()
			kind = "inner"
		case p.isKw("inner") && p.isKwAt(1, "join"):
			p.next()
			p.next()
			kind = "inner"
		case p.isKw("left"):
			p.next()
			p.acceptKw("outer")
			p.expectKw("join")
			kind = "left"
		case p.isKw("cross") && p.isKwAt(1, "join"):
			p.next()
			p.next()
			kind = "cross"
		case p.isKw("right") || p.isKw("full") || p.isKw("natural"):
			p.fail("unsupported join kind %s", strings.ToUpper(p.peek().Text))
		default:
			return left
		}
		right := p.parseFromPrimary()
		var on *Node
		if kind != "cross" {
			if p.isKw("using") {
				p.fail("unsupported construct: JOIN … USING")
			}
			p.expectKw("on")
			on = p.parseExpr()
		}
		left = N("FromItem.join", joinKind(kind), left, right, Opt{on})
	}
}

func (p *parser) parseFromPrimary() *Node {
	lateral := p.acceptKw("lateral")
	if p.isOp("(") {
		// subquery or parenthesised join
		if p.isKwAt(1, "select") || p.isKwAt(1, "with") || p.isKwAt(1, "values") || p.isOpAt(1, "(") {
			p.next()
			q := p.parseQuery()
			p.expectOp(")")
			alias := p.optAlias()
			if alias == "" {
				p.fail("subquery in FROM needs an alias")
			}
			var cols []string
			if p.acceptOp("(") {
				cols = p.identList()
				p.expectOp(")")
			}
			return N("FromItem.sub", q, alias, cols, lateral)
		}
		p.fail("unsupported construct: parenthesised join in FROM")
	}
	if p.isKw("only") {
		p.fail("unsupported construct: ONLY")
	}
	if !p.isIdent() {
		p.fail("expected a table, subquery or function in FROM, found %s", p.peek())
	}
	// function in FROM?  name(.name)* '('
	k := 0
	for p.isOpAt(k+1, ".") && (p.peekAt(k+2).Kind == TIdent || p.peekAt(k+2).Kind == TQIdent) {
		k += 2
	}
	if p.isOpAt(k+1, "(") {
		e := p.parsePrimary()
		if !e.Is("Expr.call") {
			p.fail("unsupported function form in FROM")
		}
		if p.isKw("with") && p.isKwAt(1, "ordinality") {
			p.fail("unsupported construct: WITH ORDINALITY")
		}
		alias := p.optAlias()
		var cols []string
		if alias != "" && p.acceptOp("(") {
			cols = p.identList()
			p.expectOp(")")
		}
		return N("FromItem.func", e, alias, cols, lateral)
	}
	if lateral {
		p.fail("LATERAL before a plain table")
	}
	schema, name := p.qualifiedName("table name")
	alias := p.optAlias()
	return N("FromItem.table", schema, name, alias)
}

// ---- DML -------------------------------------------------------------------

func (p *parser) parseReturning() []*Node {
	var out []*Node
	if p.acceptKw("returning") {
		for {
			out = append(out, p.parseSelItem())
			if !p.acceptOp(",") {
				break
			}
		}
	}
	return out
}

func (p *parser) parseSetList() []*Node {
	var sets []*Node
	for {
		if p.isOp("(") {
			p.fail("unsupported construct: multi-column SET (a, b) = …")
		}
		col := p.ident("column name")
		// UPDATE t SET t.col is not legal SQL; composite field assignment is not used
		if p.isOp(".") {
			p.fail("unsupported construct: qualified/field SET target")
		}
		p.expectOp("=")
		sets = append(sets, N("SetItem.mk", col, p.parseExpr()))
		if !p.acceptOp(",") {
			break
		}
	}
	return sets
}

func (p *parser) parseInsert(ctes []*Node) *Node {
	p.expectKw("insert")
	p.expectKw("into")
	schema, table := p.qualifiedName("table name")
	alias := ""
	if p.acceptKw("as") {
		alias = p.ident("alias")
	}
	var cols []string
	if p.isOp("(") && !(p.isKwAt(1, "select") || p.isKwAt(1, "with") || p.isKwAt(1, "values")) {
		p.next()
		cols = p.identList()
		p.expectOp(")")
	}
	if p.isKw("overriding") {
		p.fail("unsupported construct: OVERRIDING")
	}
	var src *Node
	switch {
	case p.isKw("default") && p.isKwAt(1, "values"):
		p.next()
		p.next()
		src = N("InsertSrc.defaultValues")
	case p.isKw("values"):
		p.next()
		var rows [][]*Node
		for {
			p.expectOp("(")
			rows = append(rows, p.parseExprList())
			p.expectOp(")")
			if !p.acceptOp(",") {
				break
			}
		}
		src = N("InsertSrc.values", rows)
	default:
		src = N("InsertSrc.query", p.parseQuery())
	}
	var conflict *Node
	if p.acceptKw("on") {
		p.expectKw("conflict")
		var target []string
		var targetWhere *Node
		constraint := ""
		if p.acceptOp("(") {
			for {
				if !p.isIdent() || p.isOpAt(1, "(") {
					p.fail("unsupported construct: expression in ON CONFLICT target")
				}
				target = append(target, p.ident("column name"))
				if !p.acceptOp(",") {
					break
				}
			}
			p.expectOp(")")
			if p.acceptKw("where") {
				targetWhere = p.parseExpr()
			}
		} else if p.acceptKw("on") {
			p.expectKw("constraint")
			constraint = p.ident("constraint name")
		}
		p.expectKw("do")
		var action *Node
		if p.acceptKw("nothing") {
			action = N("ConflictAction.nothing")
		} else {
			p.expectKw("update")
			p.expectKw("set")
			sets := p.parseSetList()
			var where *Node
			if p.acceptKw("where") {
				where = p.parseExpr()
			}
			action = N("ConflictAction.update", sets, Opt{where})
		}
		conflict = N("OnConflict.mk", target, Opt{targetWhere}, constraint, action)
	}
	ret := p.parseReturning()
	return N("Stmt.insert", ctes, schema, table, alias, cols, src, Opt{conflict}, ret)
}

func (p *parser) parseUpdate(ctes []*Node) *Node {
	p.expectKw("update")
	if p.isKw("only") {
		p.fail("unsupported construct: ONLY")
	}
	schema, table := p.qualifiedName("table name")
	alias := ""
	if p.acceptKw("as") {
		alias = p.ident("alias")
	} else if p.isIdent() && !p.isKw("set") {
		alias = p.ident("alias")
	}
	p.expectKw("set")
	sets := p.parseSetList()
	var from []*Node
	if p.acceptKw("from") {
		for {
			from = append(from, p.parseFromItem())
			if !p.acceptOp(",") {
				break
			}
		}
	}
	var where *Node
	if p.acceptKw("where") {
		if p.isKw("current") {
			p.fail("unsupported construct: WHERE CURRENT OF")
		}
		where = p.parseExpr()
	}
	ret := p.parseReturning()
	return N("Stmt.update", ctes, schema, table, alias, sets, from, Opt{where}, ret)
}

func (p *parser) parseDelete(ctes []*Node) *Node {
	p.expectKw("delete")
	p.expectKw("from")
	schema, table := p.qualifiedName("table name")
	alias := ""
	if p.acceptKw("as") {
		alias = p.ident("alias")
	} else if p.isIdent() && !p.isKw("using") && !p.isKw("where") && !p.isKw("returning") {
		alias = p.ident("alias")
	}
	var using []*Node
	if p.acceptKw("using") {
		for {
			using = append(using, p.parseFromItem())
			if !p.acceptOp(",") {
				break
			}
		}
	}
	var where *Node
	if p.acceptKw("where") {
		where = p.parseExpr()
	}
	ret := p.parseReturning()
	return N("Stmt.delete", ctes, schema, table, alias, using, Opt{where}, ret)
}

// ---- DDL the ledger issues at run time --------------------------------------

func (p *parser) parseCreate() *Node {
	p.expectKw("create")
	switch {
	case p.acceptKw("sequence"):
		ifNot := false
		if p.acceptKw("if") {
			p.expectKw("not")
			p.expectKw("exists")
			ifNot = true
		}
		schema, name := p.qualifiedName("sequence name")
		owned := ""
		if p.acceptKw("owned") {
			p.expectKw("by")
			parts := []string{p.ident("owner")}
			for p.acceptOp(".") {
				parts = append(parts, p.ident("owner"))
			}
			owned = strings.Join(parts, ".")
		}
		return N("Stmt.createSequence", schema, name, ifNot, owned)
	case p.isKw("trigger"):
		p.next()
		name := p.ident("trigger name")
		timing := ""
		switch {
		case p.acceptKw("before"):
			timing = "before"
		case p.acceptKw("after"):
			timing = "after"
		default:
			p.fail("unsupported trigger timing %s", p.peek())
		}
		event := ""
		var ofCols []string
		switch {
		case p.acceptKw("insert"):
			event = "insert"
		case p.acceptKw("update"):
			event = "update"
			if p.acceptKw("of") {
				ofCols = p.identList()
			}
		case p.acceptKw("delete"):
			event = "delete"
		default:
			p.fail("unsupported trigger event %s", p.peek())
		}
		if p.isKw("or") {
			p.fail("unsupported construct: trigger on several events")
		}
		p.expectKw("on")
		schema, table := p.qualifiedName("table name")
		if p.isKw("deferrable") || p.isKw("referencing") || p.isKw("from") {
			p.fail("unsupported trigger option %s", strings.ToUpper(p.peek().Text))
		}
		p.expectKw("for")
		p.acceptKw("each")
		if !p.acceptKw("row") {
			p.fail("unsupported construct: statement-level trigger")
		}
		var when *Node
		if p.acceptKw("when") {
			p.expectOp("(")
			when = p.parseExpr()
			p.expectOp(")")
		}
		p.expectKw("execute")
		if !p.acceptKw("procedure") {
			p.expectKw("function")
		}
		fschema, fname := p.qualifiedName("function name")
		p.expectOp("(")
		p.expectOp(")")
		return N("Stmt.createTrigger", name, Enum{"TrigTiming", timing}, Enum{"TrigEvent", event}, ofCols, schema, table, Opt{when}, fschema, fname)
	}
	p.fail("unsupported statement: CREATE %s", strings.ToUpper(p.peek().Text))
	return nil
}

// ---------------------------------------------------------------------------
// expressions (PostgreSQL operator precedence, lowest first:
//  OR, AND, NOT, IS, comparison, IN/LIKE/BETWEEN, other operators, + -, * / %,
//  unary minus, [] , ::, .)
// ---------------------------------------------------------------------------

func (p *parser) parseExprList() []*Node {
	var out []*Node
	for {
		out = append(out, p.parseExpr())
		if !p.acceptOp(",") {
			break
		}
	}
	return out
}

func (p *parser) parseExpr() *Node { return p.parseOr() }

func (p *parser) parseOr() *Node {
	l := p.parseAnd()
	for p.acceptKw("or") {
		r := p.parseAnd()
		l = N("Expr.binop", binop("or"), l, r)
	}
	return l
}

func (p *parser) parseAnd() *Node {
	l := p.parseNot()
	for p.acceptKw("and") {
		r := p.parseNot()
		l = N("Expr.binop", binop("and"), l, r)
	}
	return l
}

func (p *parser) parseNot() *Node {
	if p.isKw("not") && !p.isKwAt(1, "in") {
		p.next()
		return N("Expr.unop", unop("not"), p.parseNot())
	}
	return p.parseIs()
}

func (p *parser) parseIs() *Node {
	l := p.parseCmp()
	for {
		if p.isKw("is") {
			p.next()
			neg := p.acceptKw("not")
			switch {
			case p.acceptKw("null"):
				l = N("Expr.isNull", l, neg)
			case p.isKw("true") || p.isKw("false") || p.isKw("unknown") || p.isKw("distinct"):
				p.fail("unsupported construct: IS [NOT] %s", strings.ToUpper(p.peek().Text))
			default:
				p.fail("expected NULL after IS, found %s", p.peek())
			}
			continue
		}
		if p.isKw("isnull") || p.isKw("notnull") {
			p.fail("unsupported construct: %s", strings.ToUpper(p.peek().Text))
		}
		return l
	}
}

var cmpOps = map[string]string{"=": "eq", "<>": "ne", "!=": "ne", "<": "lt", "<=": "le", ">": "gt", ">=": "ge"}

func (p *parser) parseCmp() *Node {
	l := p.parseIn()
	for {
		t := p.peek()
		if t.Kind == TOp {
			if name, ok := cmpOps[t.Text]; ok {
				p.next()
				if p.isKw("any") || p.isKw("all") || p.isKw("some") {
					p.fail("unsupported construct: %s ANY/ALL (…)", t.Text)
				}
				r := p.parseIn()
				l = N("Expr.binop", binop(name), l, r)
				continue
			}
		}
		return l
	}
}

func (p *parser) parseIn() *Node {
	l := p.parseOther()
	for {
		neg := false
		save := p.i
		if p.isKw("not") && (p.isKwAt(1, "in") || p.isKwAt(1, "like") || p.isKwAt(1, "between") || p.isKwAt(1, "ilike")) {
			p.next()
			neg = true
		}
		switch {
		case p.acceptKw("in"):
			p.expectOp("(")
			if p.isKw("select") || p.isKw("with") || p.isKw("values") {
				q := p.parseQuery()
				p.expectOp(")")
				l = N("Expr.inSub", l, q, neg)
			} else {
				var xs []*Node
				if !p.isOp(")") {
					xs = p.parseExprList()
				}
				p.expectOp(")")
				l = N("Expr.inList", l, xs, neg)
			}
		case p.acceptKw("like"):
			r := p.parseOther()
			if p.isKw("escape") {
				p.fail("unsupported construct: LIKE … ESCAPE")
			}
			e := N("Expr.binop", binop("like"), l, r)
			if neg {
				e = N("Expr.unop", unop("notLike"), e)
			}
			l = e
		case p.isKw("between") || p.isKw("ilike") || p.isKw("similar"):
			p.fail("unsupported construct: %s", strings.ToUpper(p.peek().Text))
		default:
			p.i = save
			return l
		}
	}
}

var otherOps = map[string]string{
	"||": "concat", "->": "jsonGet", "->>": "jsonGetText", "#>>": "jsonPathText", "#>": "jsonPath",
	"@>": "contains", "<@": "containedBy", "?": "hasKey", "?|": "hasAnyKey", "?&": "hasAllKeys", "@@": "jsonpathMatch",
}

func (p *parser) parseOther() *Node {
	l := p.parseAdd()
	for {
		t := p.peek()
		if t.Kind == TOp {
			if name, ok := otherOps[t.Text]; ok {
				p.next()
				r := p.parseAdd()
				l = N("Expr.binop", binop(name), l, r)
				continue
			}
		}
		return l
	}
}

func (p *parser) parseAdd() *Node {
	l := p.parseMul()
	for {
		switch {
		case p.isOp("+"):
			p.next()
			l = N("Expr.binop", binop("add"), l, p.parseMul())
		case p.isOp("-"):
			p.next()
			l = N("Expr.binop", binop("sub"), l, p.parseMul())
		default:
			return l
		}
	}
}

func (p *parser) parseMul() *Node {
	l := p.parseUnary()
	for {
		switch {
		case p.isOp("*"):
			p.next()
			l = N("Expr.binop", binop("mul"), l, p.parseUnary())
		case p.isOp("/"):
			p.next()
			l = N("Expr.binop", binop("div"), l, p.parseUnary())
		case p.isOp("%"):
			p.next()
			l = N("Expr.binop", binop("mod"), l, p.parseUnary())
		default:
			return l
		}
	}
}

func (p *parser) parseUnary() *Node {
	if p.isOp("-") {
		p.next()
		// fold a negative numeric literal
		if p.peek().Kind == TNumber && !strings.ContainsAny(p.peek().Text, ".eE") && !p.isOpAt(1, "::") && !p.isOpAt(1, "[") {
			t := p.next()
			v, _ := new(big.Int).SetString(t.Text, 10)
			return p.parsePostfixOn(N("Expr.int", Int{v.Neg(v)}))
		}
		return N("Expr.unop", unop("neg"), p.parseUnary())
	}
	if p.isOp("+") {
		p.fail("unsupported construct: unary plus")
	}
	return p.parsePostfix()
}

func (p *parser) parsePostfix() *Node {
	return p.parsePostfixOn(p.parsePrimary())
}

func (p *parser) parsePostfixOn(e *Node) *Node {
	for {
		if p.isOp(".") && (e.Is("Expr.paren") || e.Is("Expr.field")) {
			// (composite).field
			p.next()
			if p.isOp("*") {
				p.fail("unsupported construct: (composite).*")
			}
			inner := e
			if e.Is("Expr.paren") {
				inner = e.Args[0].(*Node)
			}
			e = N("Expr.field", inner, p.ident("field name"))
			continue
		}
		if e.Is("Expr.paren") {
			// the marker only serves to tell `(x).f` from `x.f`
			e = e.Args[0].(*Node)
		}
		switch {
		case p.isKw("at") && p.isKwAt(1, "time") && p.isKwAt(2, "zone"):
			// e AT TIME ZONE z  =  timezone(z, e)
			p.next()
			p.next()
			p.next()
			z := p.parsePrimary()
			if z.Is("Expr.paren") {
				z = z.Args[0].(*Node)
			}
			e = N("Expr.call", "", "timezone", []*Node{z, e})
		case p.isOp("::"):
			p.next()
			e = N("Expr.cast", e, p.parseType())
		case p.isOp("["):
			p.next()
			var lo, hi *Node
			isSlice := false
			if p.isOp(":") {
				isSlice = true
			} else {
				lo = p.parseExpr()
			}
			if p.acceptOp(":") {
				isSlice = true
				if !p.isOp("]") {
					hi = p.parseExpr()
				}
			}
			p.expectOp("]")
			if isSlice {
				e = N("Expr.slice", e, Opt{lo}, Opt{hi})
			} else {
				e = N("Expr.index", e, lo)
			}
		default:
			return e
		}
	}
}

// type names ---------------------------------------------------------------

var typeSynonyms = map[string]string{
	"int": "int4", "integer": "int4", "int4": "int4", "bigint": "int8", "int8": "int8", "smallint": "int2", "int2": "int2",
	"serial": "serial", "bigserial": "bigserial",
	"bool": "bool", "boolean": "bool",
	"varchar": "varchar", "text": "text", "numeric": "numeric", "decimal": "numeric",
	"jsonb": "jsonb", "json": "json", "bytea": "bytea", "jsonpath": "jsonpath",
	"timestamp": "timestamp", "timestamptz": "timestamptz", "date": "date",
	"record": "record", "void": "void", "trigger": "trigger", "uuid": "uuid", "regclass": "regclass",
}

// parseType parses [schema.]name[(mods)][[]]; returns SqlType.mk schema name mods isArray.
func (p *parser) parseType() *Node {
	t := p.peek()
	if t.Kind != TIdent && t.Kind != TQIdent {
		p.fail("expected a type name, found %s", t)
	}
	schema, name := "", ""
	first := p.next()
	name = first.Text
	if p.isOp(".") && (p.peekAt(1).Kind == TIdent || p.peekAt(1).Kind == TQIdent) {
		p.next()
		schema = name
		name = p.next().Text
	}
	if first.Kind == TIdent && schema == "" {
		switch name {
		case "timestamp", "time":
			base := name
			if p.isKw("without") || p.isKw("with") {
				with := p.next().Text == "with"
				p.expectKw("time")
				p.expectKw("zone")
				if with {
					base += "tz"
				}
			}
			name = base
		case "character":
			if p.acceptKw("varying") {
				name = "varchar"
			} else {
				name = "bpchar"
			}
		case "double":
			p.expectKw("precision")
			name = "float8"
		}
		if syn, ok := typeSynonyms[name]; ok {
			name = syn
		}
	}
	mods := ""
	if p.isOp("(") && p.peekAt(1).Kind == TNumber {
		p.next()
		var ms []string
		for {
			ms = append(ms, p.next().Text)
			if !p.acceptOp(",") {
				break
			}
		}
		p.expectOp(")")
		mods = strings.Join(ms, ",")
	}
	arr := false
	if p.isOp("[") && p.isOpAt(1, "]") {
		p.next()
		p.next()
		arr = true
	}
	return N("SqlType.mk", schema, name, mods, arr)
}

var aggregateNames = map[string]bool{
	"count": true, "sum": true, "max": true, "min": true, "array_agg": true, "string_agg": true,
	"aggregate_objects": true, "json_object_agg": true, "jsonb_object_agg": true, "bool_and": true, "bool_or": true,
	"jsonb_agg": true, "json_agg": true, "avg": true, "every": true, "first": true,
}

var windowOnlyNames = map[string]bool{"first_value": true, "last_value": true, "row_number": true, "rank": true, "lag": true, "lead": true}

func (p *parser) parsePrimary() *Node {
	t := p.peek()
	switch t.Kind {
	case TNumber:
		p.next()
		if strings.ContainsAny(t.Text, ".eE") {
			return N("Expr.dec", t.Text)
		}
		v, ok := new(big.Int).SetString(t.Text, 10)
		if !ok {
			p.fail("bad number %s", t.Text)
		}
		return N("Expr.int", Int{v})
	case TString:
		p.next()
		if t.Dollar {
			p.fail("unsupported construct: dollar-quoted string in an expression")
		}
		return N("Expr.str", t.Text)
	case TParam:
		p.fail("unsupported construct: positional parameter %s (bun is expected to inline arguments)", t.Text)
	case TOp:
		if t.Text == "(" {
			p.next()
			if p.isKw("select") || p.isKw("with") || p.isKw("values") {
				q := p.parseQuery()
				p.expectOp(")")
				return N("Expr.subq", q)
			}
			e := p.parseExpr()
			if p.isOp(",") {
				xs := []*Node{e}
				for p.acceptOp(",") {
					xs = append(xs, p.parseExpr())
				}
				p.expectOp(")")
				return N("Expr.row", xs)
			}
			p.expectOp(")")
			// marker so that `(x).f` can be told from `x.f`; removed by parsePostfixOn
			return N("Expr.paren", e)
		}
		p.fail("unexpected %s in expression", t)
	case TEOF:
		p.fail("unexpected end of statement in expression")
	}
	// identifiers / keywords
	if t.Kind == TIdent {
		switch t.Text {
		case "null":
			p.next()
			return N("Expr.null")
		case "true":
			p.next()
			return N("Expr.bool", true)
		case "false":
			p.next()
			return N("Expr.bool", false)
		case "default":
			p.next()
			return N("Expr.dflt")
		case "case":
			return p.parseCase()
		case "exists":
			if p.isOpAt(1, "(") {
				p.next()
				p.next()
				q := p.parseQuery()
				p.expectOp(")")
				return N("Expr.exists", q)
			}
		case "array":
			if p.isOpAt(1, "[") {
				p.next()
				p.next()
				var xs []*Node
				if !p.isOp("]") {
					xs = p.parseExprList()
				}
				p.expectOp("]")
				return N("Expr.array", xs)
			}
			if p.isOpAt(1, "(") {
				p.fail("unsupported construct: ARRAY(subquery)")
			}
		case "row":
			if p.isOpAt(1, "(") {
				p.next()
				p.next()
				var xs []*Node
				if !p.isOp(")") {
					xs = p.parseExprList()
				}
				p.expectOp(")")
				return N("Expr.row", xs)
			}
		case "cast":
			if p.isOpAt(1, "(") {
				p.next()
				p.next()
				e := p.parseExpr()
				p.expectKw("as")
				ty := p.parseType()
				p.expectOp(")")
				return N("Expr.cast", e, ty)
			}
		case "select", "from", "where", "group", "order", "limit", "union", "join", "on", "and", "or", "when", "then", "else", "end", "returning", "set", "into", "values", "as", "in", "is", "not":
			p.fail("unexpected keyword %s in expression", strings.ToUpper(t.Text))
		case "interval", "timestamp", "date", "time":
			if p.peekAt(1).Kind == TString {
				p.fail("unsupported construct: typed literal %s '…'", strings.ToUpper(t.Text))
			}
		case "current_timestamp", "current_date", "current_user", "current_schema", "localtimestamp":
			if !p.isOpAt(1, "(") {
				p.next()
				return N("Expr.call", "", t.Text, []*Node(nil))
			}
		}
	}
	// dotted name
	parts := []string{p.ident("expression")}
	for p.isOp(".") && (p.peekAt(1).Kind == TIdent || p.peekAt(1).Kind == TQIdent) {
		p.next()
		parts = append(parts, p.ident("name"))
	}
	if p.isOp("(") {
		if len(parts) > 2 {
			p.fail("unsupported construct: database-qualified function name")
		}
		schema, name := "", parts[len(parts)-1]
		if len(parts) == 2 {
			schema = parts[0]
		}
		return p.parseCall(schema, name)
	}
	q := strings.Join(parts[:len(parts)-1], ".")
	return N("Expr.col", q, parts[len(parts)-1])
}

func (p *parser) parseCase() *Node {
	p.expectKw("case")
	if !p.isKw("when") {
		p.fail("unsupported construct: simple CASE (CASE <operand> WHEN …)")
	}
	type arm struct{ c, v *Node }
	var arms []arm
	for p.acceptKw("when") {
		c := p.parseExpr()
		p.expectKw("then")
		v := p.parseExpr()
		arms = append(arms, arm{c, v})
	}
	var els *Node
	if p.acceptKw("else") {
		els = p.parseExpr()
	}
	p.expectKw("end")
	// CASE WHEN c1 THEN v1 WHEN c2 THEN v2 ELSE e END
	//   = ite c1 v1 (some (ite c2 v2 (some e) chain)) …
	var cur *Node
	for i := len(arms) - 1; i >= 0; i-- {
		var tail Opt
		if i == len(arms)-1 {
			tail = Opt{els}
		} else {
			tail = Opt{cur}
		}
		cur = N("Expr.ite", arms[i].c, arms[i].v, tail, i > 0)
	}
	return cur
}

func (p *parser) parseCall(schema, name string) *Node {
	p.expectOp("(")
	lname := strings.ToLower(name)
	distinct := false
	star := false
	var args []*Node
	var order []*Node
	if p.isOp("*") {
		p.next()
		star = true
	} else if !p.isOp(")") {
		if p.acceptKw("distinct") {
			distinct = true
		} else if p.isKw("all") {
			p.fail("unsupported construct: aggregate(ALL …)")
		}
		if p.isKw("variadic") {
			p.fail("unsupported construct: VARIADIC")
		}
		for {
			if p.isIdent() && (p.isOpAt(1, ":=") || p.isOpAt(1, "=>")) {
				p.fail("unsupported construct: named function argument")
			}
			args = append(args, p.parseExpr())
			if !p.acceptOp(",") {
				break
			}
		}
		if p.isKw("order") {
			order = p.parseOrderBy()
		}
	}
	p.expectOp(")")
	if p.isKw("filter") || (p.isKw("within") && p.isKwAt(1, "group")) {
		p.fail("unsupported construct: %s", strings.ToUpper(p.peek().Text))
	}
	if p.acceptKw("over") {
		if !p.acceptOp("(") {
			p.fail("unsupported construct: OVER window_name")
		}
		var part, ord []*Node
		if p.acceptKw("partition") {
			p.expectKw("by")
			part = p.parseExprList()
		}
		if p.isKw("order") {
			ord = p.parseOrderBy()
		}
		if p.isKw("rows") || p.isKw("range") || p.isKw("groups") {
			p.fail("unsupported construct: window frame clause")
		}
		p.expectOp(")")
		if distinct || star || len(order) > 0 {
			p.fail("unsupported construct: DISTINCT/*/ORDER BY inside a window function call")
		}
		p.winID++
		return N("Expr.win", p.winID, lname, args, part, ord)
	}
	if windowOnlyNames[lname] {
		p.fail("window function %s without OVER", name)
	}
	if aggregateNames[lname] && (schema == "" || schema == "public") {
		return N("Expr.agg", schema, lname, distinct, star, args, order)
	}
	if distinct || star || len(order) > 0 {
		p.fail("unsupported construct: DISTINCT/*/ORDER BY in a call of non-aggregate %s", name)
	}
	return N("Expr.call", schema, lname, args)
}
