//go:build verif

package minisql

import (
	"fmt"
	"sort"
	"strings"
)

// Schema folding (translator T2): apply the DDL of the bucket migrations, in
// order, to an initially empty schema. The result is the final definition of
// every table, unique index, check constraint, trigger, function, type and
// sequence of a freshly migrated bucket.
//
// DO blocks are interpreted under the assumption "the database is empty while
// migrating" (a fresh bucket): queries find nothing, counts are zero, loops over
// query results do not iterate. A construct the folder cannot interpret that
// mentions a tracked object is an error (the tie is broken), never a guess.

type Column struct {
	Name       string
	Type       *Node
	NotNull    bool
	Default    *Node
	DefaultSQL string
}

type Index struct {
	Name    string
	Table   string
	Unique  bool
	Primary bool
	Method  string
	// Cols are plain column names; an expression element is recorded as "(expr)"
	// and its columns in ExprCols.
	Cols     []string
	ExprCols []string
	Include  []string
	Pred     *Node
	PredSQL  string
}

type Check struct {
	Name string
	Expr *Node
	SQL  string
}

type Trigger struct {
	Name       string
	Table      string
	Timing     string
	Event      string
	OfCols     []string
	When       *Node
	WhenSQL    string
	Func       string
	Constraint bool
}

type ForeignKey struct {
	Name     string
	Cols     []string
	RefTable string
	RefCols  []string
	// OnDelete: "" (no action / restrict) or "cascade"
	OnDelete string
}

type TableDef struct {
	Name   string
	Cols   []*Column
	Checks []*Check
	FKs    []*ForeignKey
}

type Function struct {
	Name     string
	Params   []PlParam
	Returns  *Node
	Lang     string
	Body     string
	IsProc   bool
	DefinedIn string
}

type Composite struct {
	Name   string
	Fields []PlParam
}

type FoldedSchema struct {
	Tables     []*TableDef
	Indexes    []*Index
	Triggers   []*Trigger
	// Functions maps a name to its overloads (distinguished by arity).
	Functions  map[string][]*Function
	Composites []*Composite
	Enums      map[string][]string
	Aggregates map[string]string
	Sequences  []string
	Notes      []string
	cur        string // migration being folded
}

func NewFoldedSchema() *FoldedSchema {
	return &FoldedSchema{Functions: map[string][]*Function{}, Enums: map[string][]string{}, Aggregates: map[string]string{}}
}

type FoldError struct {
	Migration string
	Msg       string
	SQL       string
}

func (e *FoldError) Error() string {
	s := e.SQL
	if len(s) > 400 {
		s = s[:400] + "…"
	}
	return fmt.Sprintf("t2_schema: untranslatable change in migration %s: %s\n--- statement ---\n%s", e.Migration, e.Msg, s)
}

func (s *FoldedSchema) fail(sql, format string, a ...any) {
	panic(&FoldError{Migration: s.cur, Msg: fmt.Sprintf(format, a...), SQL: sql})
}

func (s *FoldedSchema) table(name string) *TableDef {
	for _, t := range s.Tables {
		if t.Name == name {
			return t
		}
	}
	return nil
}

// Table returns the table with the given name, or nil.
func (s *FoldedSchema) Table(name string) *TableDef { return s.table(name) }

func (t *TableDef) col(name string) *Column {
	for _, c := range t.Cols {
		if c.Name == name {
			return c
		}
	}
	return nil
}

func (s *FoldedSchema) note(format string, a ...any) {
	s.Notes = append(s.Notes, s.cur+": "+fmt.Sprintf(format, a...))
}

// tracked reports whether a name is an object of the folded schema.
func (s *FoldedSchema) tracked(name string) bool {
	if s.table(name) != nil {
		return true
	}
	if len(s.Functions[name]) > 0 {
		return true
	}
	for _, i := range s.Indexes {
		if i.Name == name {
			return true
		}
	}
	for _, t := range s.Triggers {
		if t.Name == name {
			return true
		}
	}
	for _, c := range s.Composites {
		if c.Name == name {
			return true
		}
	}
	if _, ok := s.Enums[name]; ok {
		return true
	}
	return false
}

func (s *FoldedSchema) mentionsTracked(toks []Token) string {
	for _, t := range toks {
		if (t.Kind == TIdent || t.Kind == TQIdent) && s.tracked(t.Text) {
			return t.Text
		}
	}
	return ""
}

// FoldMigration applies one migration file (already templated; `bucket` is the
// schema name used in the template, stripped from qualified names).
func (s *FoldedSchema) FoldMigration(name, sql, bucket string) (err error) {
	defer func() {
		if r := recover(); r != nil {
			switch e := r.(type) {
			case *FoldError:
				err = e
			case *ParseError:
				err = &FoldError{Migration: name, Msg: e.Error()}
			default:
				panic(r)
			}
		}
	}()
	s.cur = name
	parts, perr := SplitStatements(sql)
	if perr != nil {
		return &FoldError{Migration: name, Msg: perr.Error()}
	}
	for _, st := range parts {
		toks, lerr := Lex(st)
		if lerr != nil {
			return &FoldError{Migration: name, Msg: lerr.Error(), SQL: st}
		}
		toks = stripSchema(toks[:len(toks)-1], bucket)
		s.foldStatement(st, toks, false)
	}
	return nil
}

// stripSchema removes `bucket.` qualifiers.
func stripSchema(toks []Token, bucket string) []Token {
	var out []Token
	for i := 0; i < len(toks); i++ {
		t := toks[i]
		if (t.Kind == TIdent || t.Kind == TQIdent) && t.Text == bucket && i+1 < len(toks) && toks[i+1].Kind == TOp && toks[i+1].Text == "." {
			i++
			continue
		}
		out = append(out, t)
	}
	return out
}

type tokStream struct {
	s    *FoldedSchema
	sql  string
	toks []Token
	i    int
}

func (ts *tokStream) peek() Token {
	if ts.i < len(ts.toks) {
		return ts.toks[ts.i]
	}
	return Token{Kind: TEOF}
}
func (ts *tokStream) peekAt(k int) Token {
	if ts.i+k < len(ts.toks) {
		return ts.toks[ts.i+k]
	}
	return Token{Kind: TEOF}
}
func (ts *tokStream) next() Token { t := ts.peek(); ts.i++; return t }
func (ts *tokStream) isKw(kw string) bool {
	t := ts.peek()
	return t.Kind == TIdent && t.Text == kw
}
func (ts *tokStream) acceptKw(kws ...string) bool {
	for k, kw := range kws {
		t := ts.peekAt(k)
		if !(t.Kind == TIdent && t.Text == kw) {
			return false
		}
	}
	ts.i += len(kws)
	return true
}
func (ts *tokStream) expectKw(kw string) {
	if !ts.acceptKw(kw) {
		ts.s.fail(ts.sql, "expected %s, found %s", strings.ToUpper(kw), ts.peek())
	}
}
func (ts *tokStream) isOp(op string) bool {
	t := ts.peek()
	return t.Kind == TOp && t.Text == op
}
func (ts *tokStream) acceptOp(op string) bool {
	if ts.isOp(op) {
		ts.i++
		return true
	}
	return false
}
func (ts *tokStream) expectOp(op string) {
	if !ts.acceptOp(op) {
		ts.s.fail(ts.sql, "expected %q, found %s", op, ts.peek())
	}
}
func (ts *tokStream) ident() string {
	t := ts.peek()
	if t.Kind == TIdent || t.Kind == TQIdent {
		ts.i++
		return t.Text
	}
	ts.s.fail(ts.sql, "expected an identifier, found %s", t)
	return ""
}

// name reads [schema.]name and returns the last component (public./other
// schema qualifiers are kept out of the folded, bucket-relative schema).
func (ts *tokStream) name() string {
	n := ts.ident()
	for ts.isOp(".") {
		ts.i++
		n = ts.ident()
	}
	return n
}

// balanced returns the tokens inside the parenthesis group starting at '('.
func (ts *tokStream) balanced() []Token {
	ts.expectOp("(")
	depth := 1
	start := ts.i
	for {
		t := ts.peek()
		if t.Kind == TEOF {
			ts.s.fail(ts.sql, "unbalanced parentheses")
		}
		if t.Kind == TOp && (t.Text == "(" || t.Text == "[") {
			depth++
		}
		if t.Kind == TOp && (t.Text == ")" || t.Text == "]") {
			depth--
			if depth == 0 {
				inner := ts.toks[start:ts.i]
				ts.i++
				return inner
			}
		}
		ts.i++
	}
}

// splitTop splits tokens on top-level commas.
func splitTop(toks []Token) [][]Token {
	var out [][]Token
	depth := 0
	start := 0
	for i, t := range toks {
		if t.Kind == TOp {
			switch t.Text {
			case "(", "[":
				depth++
			case ")", "]":
				depth--
			case ",":
				if depth == 0 {
					out = append(out, toks[start:i])
					start = i + 1
				}
			}
		}
	}
	if start < len(toks) {
		out = append(out, toks[start:])
	}
	return out
}

func tokensSQL(sql string, toks []Token) string {
	if len(toks) == 0 {
		return ""
	}
	var sb strings.Builder
	for i, t := range toks {
		if i > 0 {
			sb.WriteByte(' ')
		}
		switch t.Kind {
		case TString:
			sb.WriteString(quoteStr(t.Text))
		case TQIdent:
			sb.WriteString(quoteIdent(t.Text))
		default:
			sb.WriteString(t.Text)
		}
	}
	return sb.String()
}

func (s *FoldedSchema) parseExprToks(sql string, toks []Token) *Node {
	p := &parser{src: sql, toks: append(append([]Token{}, toks...), Token{Kind: TEOF, Pos: len(sql)})}
	e := p.parseExpr()
	if p.peek().Kind != TEOF {
		p.fail("unexpected %s after the end of the expression", p.peek())
	}
	return e
}

func (s *FoldedSchema) parseTypeToks(sql string, ts *tokStream) *Node {
	p := &parser{src: sql, toks: append(append([]Token{}, ts.toks[ts.i:]...), Token{Kind: TEOF, Pos: len(sql)})}
	ty := p.parseType()
	ts.i += p.i
	return ty
}

func identsIn(toks []Token) []string {
	var out []string
	for _, t := range toks {
		if t.Kind == TIdent || t.Kind == TQIdent {
			out = append(out, t.Text)
		}
	}
	return out
}

// ---------------------------------------------------------------------------

func (s *FoldedSchema) foldStatement(sql string, toks []Token, inDo bool) {
	if len(toks) == 0 {
		return
	}
	ts := &tokStream{s: s, sql: sql, toks: toks}
	first := toks[0]
	if first.Kind != TIdent {
		s.fail(sql, "unexpected statement start %s", first)
	}
	switch first.Text {
	case "set", "analyze", "commit", "raise", "perform", "assert", "reset", "vacuum", "lock":
		return
	case "select", "insert", "update", "delete", "with":
		// data migration: no schema effect
		return
	case "create":
		s.foldCreate(ts)
	case "drop":
		s.foldDrop(ts)
	case "alter":
		s.foldAlter(ts)
	case "do":
		ts.next()
		body := ts.next()
		if body.Kind != TString || !body.Dollar {
			// DO LANGUAGE plpgsql $$…$$
			if body.Kind == TIdent && body.Text == "language" {
				ts.next()
				body = ts.next()
			}
		}
		if body.Kind != TString {
			s.fail(sql, "DO without a body")
		}
		s.foldDo(body.Text)
	default:
		if name := s.mentionsTracked(toks); name != "" {
			s.fail(sql, "statement kind %s mentions tracked object %q", strings.ToUpper(first.Text), name)
		}
		s.note("skipped %s statement", strings.ToUpper(first.Text))
	}
}

func (s *FoldedSchema) foldCreate(ts *tokStream) {
	sql := ts.sql
	ts.expectKw("create")
	orReplace := ts.acceptKw("or", "replace")
	_ = orReplace
	switch {
	case ts.isKw("function") || ts.isKw("procedure"):
		s.foldCreateFunction(ts)
	case ts.acceptKw("aggregate"):
		name := ts.name()
		s.Aggregates[name] = tokensSQL(sql, ts.toks[ts.i:])
	case ts.acceptKw("type"):
		name := ts.name()
		ts.expectKw("as")
		if ts.acceptKw("enum") {
			var labels []string
			for _, part := range splitTop(ts.balanced()) {
				if len(part) != 1 || part[0].Kind != TString {
					s.fail(sql, "bad enum label")
				}
				labels = append(labels, part[0].Text)
			}
			s.Enums[name] = labels
			return
		}
		comp := &Composite{Name: name}
		for _, part := range splitTop(ts.balanced()) {
			fts := &tokStream{s: s, sql: sql, toks: part}
			fname := fts.ident()
			comp.Fields = append(comp.Fields, PlParam{Name: fname, Type: s.parseTypeToks(sql, fts)})
		}
		s.Composites = append(s.Composites, comp)
	case ts.isKw("temporary") || ts.isKw("temp") || ts.isKw("unlogged"):
		// temporary helper tables of data migrations
		return
	case ts.acceptKw("table"):
		ts.acceptKw("if", "not", "exists")
		name := ts.name()
		if ts.isKw("as") {
			// CREATE TABLE … AS SELECT: helper of a data migration, dropped by the same migration
			s.note("helper table %s (CREATE TABLE AS) ignored", name)
			return
		}
		s.foldCreateTable(ts, name)
	case ts.isKw("unique") || ts.isKw("index"):
		s.foldCreateIndex(ts)
	case ts.isKw("trigger") || ts.isKw("constraint"):
		s.foldCreateTrigger(ts)
	case ts.acceptKw("sequence"):
		s.Sequences = append(s.Sequences, ts.name())
	case ts.acceptKw("extension") || ts.acceptKw("schema"):
		return
	default:
		if name := s.mentionsTracked(ts.toks); name != "" {
			s.fail(sql, "unsupported CREATE %s mentioning tracked object %q", strings.ToUpper(ts.peek().Text), name)
		}
		s.note("skipped CREATE %s", strings.ToUpper(ts.peek().Text))
	}
}

func (s *FoldedSchema) foldCreateFunction(ts *tokStream) {
	sql := ts.sql
	isProc := ts.next().Text == "procedure"
	name := ts.name()
	f := &Function{Name: name, IsProc: isProc, DefinedIn: s.cur}
	for _, part := range splitTop(ts.balanced()) {
		pts := &tokStream{s: s, sql: sql, toks: part}
		if pts.isKw("in") || pts.isKw("out") || pts.isKw("inout") || pts.isKw("variadic") {
			if !pts.isKw("in") {
				s.fail(sql, "unsupported parameter mode %s", pts.peek().Text)
			}
			pts.next()
		}
		// unnamed parameter (type only) or name + type
		pname := ""
		if pts.i+1 < len(part) && !(part[pts.i+1].Kind == TOp) && !(part[pts.i+1].Kind == TIdent && (part[pts.i+1].Text == "default" || part[pts.i+1].Text == "varying" || part[pts.i+1].Text == "without" || part[pts.i+1].Text == "with" || part[pts.i+1].Text == "precision")) {
			pname = pts.ident()
		}
		ty := s.parseTypeToks(sql, pts)
		// DEFAULT values of parameters are not modelled (every call site passes all arguments)
		f.Params = append(f.Params, PlParam{Name: pname, Type: ty})
	}
	f.Returns = N("SqlType.mk", "", "void", "", false)
	for ts.peek().Kind != TEOF {
		switch {
		case ts.acceptKw("returns"):
			if ts.acceptKw("setof") {
				f.Returns = s.parseTypeToks(sql, ts)
				f.Returns.Args[1] = "setof " + f.Returns.Args[1].(string)
			} else if ts.isKw("table") {
				s.fail(sql, "unsupported RETURNS TABLE")
			} else {
				f.Returns = s.parseTypeToks(sql, ts)
			}
		case ts.acceptKw("language"):
			f.Lang = ts.next().Text
		case ts.acceptKw("as"):
			b := ts.next()
			if b.Kind != TString {
				s.fail(sql, "function body expected")
			}
			f.Body = b.Text
		case ts.acceptKw("set"):
			// SET search_path FROM CURRENT / = 'x'
			for ts.peek().Kind != TEOF && !ts.isKw("as") && !ts.isKw("language") && !ts.isKw("returns") {
				ts.next()
			}
		default:
			// volatility, security definer, strict, parallel safe, …
			ts.next()
		}
	}
	// CREATE OR REPLACE replaces the overload with the same arity
	var keep []*Function
	for _, g := range s.Functions[name] {
		if len(g.Params) != len(f.Params) {
			keep = append(keep, g)
		}
	}
	s.Functions[name] = append(keep, f)
}

func (s *FoldedSchema) foldCreateTable(ts *tokStream, name string) {
	sql := ts.sql
	t := &TableDef{Name: name}
	for _, part := range splitTop(ts.balanced()) {
		pts := &tokStream{s: s, sql: sql, toks: part}
		switch {
		case pts.acceptKw("primary", "key"):
			cols := identsIn(pts.balanced())
			s.addIndex(&Index{Name: name + "_pkey", Table: name, Unique: true, Primary: true, Cols: cols})
			for _, c := range cols {
				if col := t.col(c); col != nil {
					col.NotNull = true
				}
			}
		case pts.acceptKw("unique"):
			cols := identsIn(pts.balanced())
			s.addIndex(&Index{Name: name + "_" + strings.Join(cols, "_") + "_key", Table: name, Unique: true, Cols: cols})
		case pts.isKw("constraint") || pts.isKw("check") || pts.isKw("foreign") || pts.isKw("exclude"):
			s.foldTableConstraint(pts, t)
		default:
			cname := pts.ident()
			col := &Column{Name: cname}
			col.Type = s.parseTypeToks(sql, pts)
			tyName := col.Type.Args[1].(string)
			if tyName == "serial" || tyName == "bigserial" {
				seq := name + "_" + cname + "_seq"
				s.Sequences = append(s.Sequences, seq)
				col.NotNull = true
				col.DefaultSQL = "nextval('" + seq + "')"
				col.Default = N("Expr.call", "", "nextval", []*Node{N("Expr.str", seq)})
				if tyName == "serial" {
					col.Type.Args[1] = "int4"
				} else {
					col.Type.Args[1] = "int8"
				}
			}
			s.foldColumnConstraints(pts, t, col)
			t.Cols = append(t.Cols, col)
		}
	}
	if ts.peek().Kind != TEOF && !ts.isKw("with") {
		s.fail(sql, "unsupported CREATE TABLE suffix %s", ts.peek())
	}
	s.Tables = append(s.Tables, t)
}

// refActions parses `[ON DELETE a] [ON UPDATE a]` and returns the ON DELETE action.
func (s *FoldedSchema) refActions(pts *tokStream) string {
	onDelete := ""
	for pts.isKw("on") {
		pts.next()
		which := pts.next().Text
		action := pts.next().Text
		switch action {
		case "cascade", "restrict":
		case "no":
			pts.expectKw("action")
			action = ""
		case "set":
			s.fail(pts.sql, "referential action SET … is not modelled")
		default:
			s.fail(pts.sql, "unsupported referential action %s", action)
		}
		if action == "restrict" {
			action = ""
		}
		if which == "delete" {
			onDelete = action
		} else if action != "" {
			s.fail(pts.sql, "ON UPDATE %s is not modelled", action)
		}
	}
	for pts.isKw("deferrable") || pts.isKw("initially") || pts.isKw("deferred") || pts.isKw("immediate") || (pts.isKw("not") && pts.peekAt(1).Text == "deferrable") {
		pts.next()
	}
	return onDelete
}

func (s *FoldedSchema) foldColumnConstraints(pts *tokStream, t *TableDef, col *Column) {
	sql := pts.sql
	for pts.peek().Kind != TEOF {
		switch {
		case pts.acceptKw("not", "null"):
			col.NotNull = true
		case pts.acceptKw("null"):
		case pts.acceptKw("default"):
			// the default expression extends to the next column-constraint keyword
			start := pts.i
			depth := 0
			for pts.peek().Kind != TEOF {
				tk := pts.peek()
				if tk.Kind == TOp && (tk.Text == "(" || tk.Text == "[") {
					depth++
				}
				if tk.Kind == TOp && (tk.Text == ")" || tk.Text == "]") {
					depth--
				}
				if depth == 0 && tk.Kind == TIdent && (tk.Text == "not" || tk.Text == "null" || tk.Text == "primary" || tk.Text == "references" || tk.Text == "unique" || tk.Text == "check" || tk.Text == "constraint") {
					// `default null` / `default not …` never occurs; NULL as a value:
					if tk.Text == "null" && pts.i == start {
						pts.next()
						continue
					}
					break
				}
				pts.next()
			}
			dt := pts.toks[start:pts.i]
			col.Default = s.parseExprToks(sql, dt)
			col.DefaultSQL = tokensSQL(sql, dt)
		case pts.acceptKw("primary", "key"):
			col.NotNull = true
			s.addIndex(&Index{Name: t.Name + "_pkey", Table: t.Name, Unique: true, Primary: true, Cols: []string{col.Name}})
		case pts.acceptKw("unique"):
			s.addIndex(&Index{Name: t.Name + "_" + col.Name + "_key", Table: t.Name, Unique: true, Cols: []string{col.Name}})
		case pts.acceptKw("references"):
			fk := &ForeignKey{Name: t.Name + "_" + col.Name + "_fkey", Cols: []string{col.Name}}
			fk.RefTable = pts.name()
			if pts.isOp("(") {
				fk.RefCols = identsIn(pts.balanced())
			}
			fk.OnDelete = s.refActions(pts)
			t.FKs = append(t.FKs, fk)
		default:
			s.fail(sql, "unsupported column constraint %s on %s.%s", pts.peek(), t.Name, col.Name)
		}
	}
}

func (s *FoldedSchema) foldTableConstraint(pts *tokStream, t *TableDef) {
	sql := pts.sql
	cname := ""
	if pts.acceptKw("constraint") {
		cname = pts.ident()
	}
	switch {
	case pts.acceptKw("check"):
		inner := pts.balanced()
		if cname == "" {
			cname = t.Name + "_check"
		}
		t.Checks = append(t.Checks, &Check{Name: cname, Expr: s.parseExprToks(sql, inner), SQL: tokensSQL(sql, inner)})
		// NOT VALID only skips the check of existing rows
		pts.acceptKw("not", "valid")
	case pts.acceptKw("foreign", "key"):
		cols := identsIn(pts.balanced())
		pts.expectKw("references")
		fk := &ForeignKey{Name: cname, Cols: cols}
		if fk.Name == "" {
			fk.Name = t.Name + "_" + strings.Join(cols, "_") + "_fkey"
		}
		fk.RefTable = pts.name()
		if pts.isOp("(") {
			fk.RefCols = identsIn(pts.balanced())
		}
		fk.OnDelete = s.refActions(pts)
		t.FKs = append(t.FKs, fk)
	case pts.acceptKw("primary", "key"):
		if pts.acceptKw("using", "index") {
			iname := pts.ident()
			idx := s.index(iname)
			if idx == nil {
				s.fail(sql, "ADD PRIMARY KEY USING INDEX: unknown index %s", iname)
			}
			idx.Primary = true
			if cname != "" {
				idx.Name = cname
			}
			for _, c := range idx.Cols {
				if col := t.col(c); col != nil {
					col.NotNull = true
				}
			}
			return
		}
		cols := identsIn(pts.balanced())
		if cname == "" {
			cname = t.Name + "_pkey"
		}
		s.addIndex(&Index{Name: cname, Table: t.Name, Unique: true, Primary: true, Cols: cols})
		for _, c := range cols {
			if col := t.col(c); col != nil {
				col.NotNull = true
			}
		}
	case pts.acceptKw("unique"):
		cols := identsIn(pts.balanced())
		if cname == "" {
			cname = t.Name + "_" + strings.Join(cols, "_") + "_key"
		}
		s.addIndex(&Index{Name: cname, Table: t.Name, Unique: true, Cols: cols})
	default:
		s.fail(sql, "unsupported table constraint %s", pts.peek())
	}
}

func (s *FoldedSchema) index(name string) *Index {
	for _, i := range s.Indexes {
		if i.Name == name {
			return i
		}
	}
	return nil
}

func (s *FoldedSchema) addIndex(i *Index) {
	s.Indexes = append(s.Indexes, i)
}

func (s *FoldedSchema) foldCreateIndex(ts *tokStream) {
	sql := ts.sql
	idx := &Index{}
	if ts.acceptKw("unique") {
		idx.Unique = true
	}
	ts.expectKw("index")
	ts.acceptKw("concurrently")
	ifNot := ts.acceptKw("if", "not", "exists")
	if !ts.isKw("on") {
		idx.Name = ts.name()
	}
	ts.expectKw("on")
	ts.acceptKw("only")
	idx.Table = ts.name()
	if s.table(idx.Table) == nil {
		// index on a helper/temporary table of a data migration
		return
	}
	if ts.acceptKw("using") {
		idx.Method = ts.ident()
	}
	for _, part := range splitTop(ts.balanced()) {
		// column [opclass] [asc|desc] | (expression) | func(expr)
		if len(part) >= 1 && (part[0].Kind == TIdent || part[0].Kind == TQIdent) && !(len(part) > 1 && part[1].Kind == TOp && part[1].Text == "(") {
			idx.Cols = append(idx.Cols, part[0].Text)
		} else {
			idx.Cols = append(idx.Cols, "("+tokensSQL(sql, part)+")")
			idx.ExprCols = append(idx.ExprCols, identsIn(part)...)
		}
	}
	if ts.acceptKw("include") {
		idx.Include = identsIn(ts.balanced())
	}
	if ts.acceptKw("with") {
		ts.balanced()
	}
	if ts.acceptKw("where") {
		pt := ts.toks[ts.i:]
		idx.Pred = s.parseExprToks(sql, pt)
		idx.PredSQL = tokensSQL(sql, pt)
		ts.i = len(ts.toks)
	}
	if ts.peek().Kind != TEOF {
		s.fail(sql, "unsupported CREATE INDEX suffix %s", ts.peek())
	}
	if idx.Name == "" {
		idx.Name = idx.Table + "_" + strings.Join(idx.Cols, "_") + "_idx"
	}
	if s.index(idx.Name) != nil {
		if ifNot {
			return
		}
		s.fail(sql, "index %s already exists", idx.Name)
	}
	if idx.Unique {
		for _, c := range idx.Cols {
			if strings.HasPrefix(c, "(") {
				s.fail(sql, "unique index %s on an expression is not modelled", idx.Name)
			}
		}
	}
	s.addIndex(idx)
}

func (s *FoldedSchema) foldCreateTrigger(ts *tokStream) {
	sql := ts.sql
	tr := &Trigger{}
	if ts.acceptKw("constraint") {
		tr.Constraint = true
	}
	ts.expectKw("trigger")
	tr.Name = ts.ident()
	switch {
	case ts.acceptKw("before"):
		tr.Timing = "before"
	case ts.acceptKw("after"):
		tr.Timing = "after"
	default:
		s.fail(sql, "unsupported trigger timing %s", ts.peek())
	}
	switch {
	case ts.acceptKw("insert"):
		tr.Event = "insert"
	case ts.acceptKw("update"):
		tr.Event = "update"
		if ts.acceptKw("of") {
			for {
				tr.OfCols = append(tr.OfCols, ts.ident())
				if !ts.acceptOp(",") {
					break
				}
			}
		}
	case ts.acceptKw("delete"):
		tr.Event = "delete"
	default:
		s.fail(sql, "unsupported trigger event %s", ts.peek())
	}
	if ts.isKw("or") {
		s.fail(sql, "trigger on several events is not modelled")
	}
	ts.expectKw("on")
	tr.Table = ts.name()
	for ts.isKw("deferrable") || ts.isKw("initially") || ts.isKw("deferred") || ts.isKw("immediate") || ts.isKw("not") {
		ts.next()
	}
	ts.expectKw("for")
	ts.acceptKw("each")
	if !ts.acceptKw("row") {
		s.fail(sql, "statement-level trigger is not modelled")
	}
	if ts.acceptKw("when") {
		inner := ts.balanced()
		tr.When = s.parseExprToks(sql, inner)
		tr.WhenSQL = tokensSQL(sql, inner)
	}
	ts.expectKw("execute")
	if !ts.acceptKw("procedure") {
		ts.expectKw("function")
	}
	tr.Func = ts.name()
	s.Triggers = append(s.Triggers, tr)
}

func (s *FoldedSchema) foldDrop(ts *tokStream) {
	sql := ts.sql
	ts.expectKw("drop")
	switch {
	case ts.acceptKw("trigger"):
		ifExists := ts.acceptKw("if", "exists")
		name := ts.ident()
		ts.expectKw("on")
		table := ts.name()
		for i, tr := range s.Triggers {
			if tr.Name == name && tr.Table == table {
				s.Triggers = append(s.Triggers[:i], s.Triggers[i+1:]...)
				return
			}
		}
		if !ifExists {
			s.fail(sql, "DROP TRIGGER: %s on %s does not exist", name, table)
		}
	case ts.acceptKw("function") || ts.acceptKw("procedure"):
		ifExists := ts.acceptKw("if", "exists")
		name := ts.name()
		arity := -1
		if ts.isOp("(") {
			arity = len(splitTop(ts.balanced()))
		}
		var keep []*Function
		dropped := false
		for _, g := range s.Functions[name] {
			if arity < 0 || len(g.Params) == arity {
				dropped = true
				continue
			}
			keep = append(keep, g)
		}
		if !dropped && !ifExists {
			s.fail(sql, "DROP FUNCTION: %s does not exist", name)
		}
		if len(keep) == 0 {
			for _, tr := range s.Triggers {
				if tr.Func == name {
					s.fail(sql, "DROP FUNCTION %s: still used by trigger %s", name, tr.Name)
				}
			}
			delete(s.Functions, name)
		} else {
			s.Functions[name] = keep
		}
	case ts.acceptKw("aggregate"):
		ts.acceptKw("if", "exists")
		delete(s.Aggregates, ts.name())
	case ts.acceptKw("index"):
		ts.acceptKw("concurrently")
		ifExists := ts.acceptKw("if", "exists")
		name := ts.name()
		for i, idx := range s.Indexes {
			if idx.Name == name {
				s.Indexes = append(s.Indexes[:i], s.Indexes[i+1:]...)
				return
			}
		}
		if !ifExists {
			s.fail(sql, "DROP INDEX: %s does not exist", name)
		}
	case ts.acceptKw("table"):
		ts.acceptKw("if", "exists")
		name := ts.name()
		if s.table(name) != nil {
			for _, ot := range s.Tables {
				for _, fk := range ot.FKs {
					if fk.RefTable == name && ot.Name != name {
						s.fail(sql, "DROP TABLE %s: still referenced by %s", name, fk.Name)
					}
				}
			}
			var tk []*TableDef
			for _, t := range s.Tables {
				if t.Name != name {
					tk = append(tk, t)
				}
			}
			s.Tables = tk
			var ik []*Index
			for _, i := range s.Indexes {
				if i.Table != name {
					ik = append(ik, i)
				}
			}
			s.Indexes = ik
			var trk []*Trigger
			for _, tr := range s.Triggers {
				if tr.Table != name {
					trk = append(trk, tr)
				}
			}
			s.Triggers = trk
		}
	case ts.acceptKw("type"):
		s.fail(sql, "DROP TYPE is not modelled")
	default:
		if name := s.mentionsTracked(ts.toks); name != "" {
			s.fail(sql, "unsupported DROP %s mentioning tracked object %q", strings.ToUpper(ts.peek().Text), name)
		}
	}
}

func (s *FoldedSchema) dropColumn(t *TableDef, col string, sql string) {
	found := false
	for i, c := range t.Cols {
		if c.Name == col {
			t.Cols = append(t.Cols[:i], t.Cols[i+1:]...)
			found = true
			break
		}
	}
	if !found {
		s.fail(sql, "DROP COLUMN: %s.%s does not exist", t.Name, col)
	}
	// a sequence owned by a serial column goes with it
	owned := t.Name + "_" + col + "_seq"
	for i, sq := range s.Sequences {
		if sq == owned {
			s.Sequences = append(s.Sequences[:i], s.Sequences[i+1:]...)
			break
		}
	}
	// "Indexes and table constraints involving the column will be automatically dropped as well"
	var keep []*Index
	for _, idx := range s.Indexes {
		uses := false
		if idx.Table == t.Name {
			for _, c := range append(append(append([]string{}, idx.Cols...), idx.Include...), idx.ExprCols...) {
				if c == col {
					uses = true
				}
			}
			if idx.Pred != nil && strings.Contains(" "+idx.PredSQL+" ", " "+col+" ") {
				uses = true
			}
		}
		if uses {
			s.note("index %s dropped with column %s.%s", idx.Name, t.Name, col)
		} else {
			keep = append(keep, idx)
		}
	}
	s.Indexes = keep
	var ck []*Check
	for _, c := range t.Checks {
		if strings.Contains(" "+c.SQL+" ", " "+col+" ") {
			s.note("check %s dropped with column %s.%s", c.Name, t.Name, col)
		} else {
			ck = append(ck, c)
		}
	}
	t.Checks = ck
	contains := func(xs []string, x string) bool {
		for _, y := range xs {
			if y == x {
				return true
			}
		}
		return false
	}
	var fks []*ForeignKey
	for _, fk := range t.FKs {
		if contains(fk.Cols, col) {
			continue
		}
		fks = append(fks, fk)
	}
	t.FKs = fks
	// foreign keys of other tables that reference the dropped column (its unique
	// index goes away, and with it the constraints depending on it)
	for _, ot := range s.Tables {
		var ofk []*ForeignKey
		for _, fk := range ot.FKs {
			refCols := fk.RefCols
			if len(refCols) == 0 {
				// references the primary key
				for _, idx := range s.Indexes {
					if idx.Table == fk.RefTable && idx.Primary {
						refCols = idx.Cols
					}
				}
			}
			if fk.RefTable == t.Name && contains(refCols, col) {
				s.note("foreign key %s dropped with column %s.%s", fk.Name, t.Name, col)
				continue
			}
			ofk = append(ofk, fk)
		}
		ot.FKs = ofk
	}
}

func (s *FoldedSchema) foldAlter(ts *tokStream) {
	sql := ts.sql
	ts.expectKw("alter")
	switch {
	case ts.acceptKw("index"):
		ts.acceptKw("if", "exists")
		name := ts.name()
		if !ts.acceptKw("rename", "to") {
			s.fail(sql, "unsupported ALTER INDEX action")
		}
		idx := s.index(name)
		if idx == nil {
			s.fail(sql, "ALTER INDEX: %s does not exist", name)
		}
		idx.Name = ts.name()
	case ts.acceptKw("type"):
		name := ts.name()
		if !ts.acceptKw("add", "value") {
			s.fail(sql, "unsupported ALTER TYPE action")
		}
		ts.acceptKw("if", "not", "exists")
		v := ts.next()
		if _, ok := s.Enums[name]; !ok || v.Kind != TString {
			s.fail(sql, "ALTER TYPE: unknown enum %s", name)
		}
		s.Enums[name] = append(s.Enums[name], v.Text)
	case ts.acceptKw("table"):
		ts.acceptKw("if", "exists")
		ts.acceptKw("only")
		name := ts.name()
		t := s.table(name)
		if t == nil {
			// helper table of a data migration
			return
		}
		if ts.acceptKw("set") {
			// storage parameters
			return
		}
		if ts.acceptKw("rename") {
			ts.acceptKw("column")
			from := ts.ident()
			ts.expectKw("to")
			to := ts.ident()
			c := t.col(from)
			if c == nil {
				s.fail(sql, "RENAME COLUMN: %s.%s does not exist", name, from)
			}
			c.Name = to
			for _, idx := range s.Indexes {
				if idx.Table != name {
					continue
				}
				for i := range idx.Cols {
					if idx.Cols[i] == from {
						idx.Cols[i] = to
					}
				}
				for i := range idx.Include {
					if idx.Include[i] == from {
						idx.Include[i] = to
					}
				}
				for i := range idx.ExprCols {
					if idx.ExprCols[i] == from {
						idx.ExprCols[i] = to
					}
				}
			}
			return
		}
		for _, part := range splitTop(ts.toks[ts.i:]) {
			s.foldAlterAction(&tokStream{s: s, sql: sql, toks: part}, t)
		}
	case ts.acceptKw("function") || ts.acceptKw("sequence"):
		s.fail(sql, "unsupported ALTER %s", strings.ToUpper(ts.toks[1].Text))
	default:
		if name := s.mentionsTracked(ts.toks); name != "" {
			s.fail(sql, "unsupported ALTER %s mentioning tracked object %q", strings.ToUpper(ts.peek().Text), name)
		}
	}
}

func (s *FoldedSchema) foldAlterAction(pts *tokStream, t *TableDef) {
	sql := pts.sql
	switch {
	case pts.acceptKw("add"):
		if pts.isKw("constraint") || pts.isKw("check") || pts.isKw("foreign") || pts.isKw("primary") || pts.isKw("unique") {
			s.foldTableConstraint(pts, t)
			return
		}
		pts.acceptKw("column")
		pts.acceptKw("if", "not", "exists")
		cname := pts.ident()
		if t.col(cname) != nil {
			s.fail(sql, "ADD COLUMN: %s.%s already exists", t.Name, cname)
		}
		col := &Column{Name: cname}
		col.Type = s.parseTypeToks(sql, pts)
		s.foldColumnConstraints(pts, t, col)
		t.Cols = append(t.Cols, col)
	case pts.acceptKw("drop"):
		if pts.acceptKw("constraint") {
			ifExists := pts.acceptKw("if", "exists")
			cname := pts.ident()
			for i, c := range t.Checks {
				if c.Name == cname {
					t.Checks = append(t.Checks[:i], t.Checks[i+1:]...)
					return
				}
			}
			for i, idx := range s.Indexes {
				if idx.Name == cname && idx.Table == t.Name {
					s.Indexes = append(s.Indexes[:i], s.Indexes[i+1:]...)
					return
				}
			}
			if !ifExists {
				s.fail(sql, "DROP CONSTRAINT: %s does not exist on %s", cname, t.Name)
			}
			return
		}
		pts.acceptKw("column")
		pts.acceptKw("if", "exists")
		s.dropColumn(t, pts.ident(), sql)
	case pts.acceptKw("alter"):
		pts.acceptKw("column")
		cname := pts.ident()
		col := t.col(cname)
		if col == nil {
			s.fail(sql, "ALTER COLUMN: %s.%s does not exist", t.Name, cname)
		}
		switch {
		case pts.acceptKw("set", "default"):
			dt := pts.toks[pts.i:]
			col.Default = s.parseExprToks(sql, dt)
			col.DefaultSQL = tokensSQL(sql, dt)
		case pts.acceptKw("drop", "default"):
			col.Default, col.DefaultSQL = nil, ""
		case pts.acceptKw("set", "not", "null"):
			col.NotNull = true
		case pts.acceptKw("drop", "not", "null"):
			col.NotNull = false
		case pts.acceptKw("type") || pts.acceptKw("set", "data", "type"):
			col.Type = s.parseTypeToks(sql, pts)
			if pts.peek().Kind != TEOF {
				s.fail(sql, "unsupported ALTER COLUMN TYPE … USING")
			}
		default:
			s.fail(sql, "unsupported ALTER COLUMN action %s", pts.peek())
		}
	case pts.acceptKw("validate", "constraint"):
		return
	case pts.acceptKw("set") || pts.acceptKw("reset"):
		return
	default:
		s.fail(sql, "unsupported ALTER TABLE action %s", pts.peek())
	}
}

// ---------------------------------------------------------------------------
// DO blocks on an empty database
// ---------------------------------------------------------------------------

type plBlockKind int

const (
	plSimple plBlockKind = iota
	plIf
	plLoop
	plFor
)

type plItem struct {
	kind  plBlockKind
	toks  []Token   // simple statement / IF condition / FOR header
	body  []plItem  // loop body / then-branch
	elifs []plItem  // elsif arms (each kind plIf with toks=cond, body)
	els   []plItem
}

func (s *FoldedSchema) foldDo(body string) {
	toks, err := Lex(body)
	if err != nil {
		s.fail(body, "%v", err)
	}
	toks = toks[:len(toks)-1]
	ts := &tokStream{s: s, sql: body, toks: toks}
	if ts.acceptKw("declare") {
		for !ts.isKw("begin") && ts.peek().Kind != TEOF {
			ts.next()
		}
	}
	ts.expectKw("begin")
	items := s.plItems(ts, "end")
	ts.expectKw("end")
	found := false
	s.runPlItems(body, items, &found)
}

func (s *FoldedSchema) plItems(ts *tokStream, stops ...string) []plItem {
	var out []plItem
	for {
		for _, st := range stops {
			if ts.isKw(st) {
				return out
			}
		}
		if ts.peek().Kind == TEOF {
			s.fail(ts.sql, "unterminated PL/pgSQL block in DO")
		}
		switch {
		case ts.isKw("if"):
			ts.next()
			it := plItem{kind: plIf}
			it.toks = s.until(ts, "then")
			it.body = s.plItems(ts, "elsif", "elseif", "else", "end")
			for ts.isKw("elsif") || ts.isKw("elseif") {
				ts.next()
				arm := plItem{kind: plIf}
				arm.toks = s.until(ts, "then")
				arm.body = s.plItems(ts, "elsif", "elseif", "else", "end")
				it.elifs = append(it.elifs, arm)
			}
			if ts.acceptKw("else") {
				it.els = s.plItems(ts, "end")
			}
			ts.expectKw("end")
			ts.expectKw("if")
			ts.expectOp(";")
			out = append(out, it)
		case ts.isKw("loop"):
			ts.next()
			it := plItem{kind: plLoop}
			it.body = s.plItems(ts, "end")
			ts.expectKw("end")
			ts.expectKw("loop")
			ts.expectOp(";")
			out = append(out, it)
		case ts.isKw("for") || ts.isKw("while") || ts.isKw("foreach"):
			ts.next()
			it := plItem{kind: plFor}
			it.toks = s.until(ts, "loop")
			it.body = s.plItems(ts, "end")
			ts.expectKw("end")
			ts.expectKw("loop")
			ts.expectOp(";")
			out = append(out, it)
		case ts.isKw("begin"):
			s.fail(ts.sql, "nested block in DO is not modelled")
		default:
			start := ts.i
			depth := 0
			for {
				t := ts.peek()
				if t.Kind == TEOF {
					s.fail(ts.sql, "unterminated statement in DO")
				}
				if t.Kind == TOp && (t.Text == "(" || t.Text == "[") {
					depth++
				}
				if t.Kind == TOp && (t.Text == ")" || t.Text == "]") {
					depth--
				}
				if t.Kind == TOp && t.Text == ";" && depth == 0 {
					break
				}
				ts.next()
			}
			out = append(out, plItem{kind: plSimple, toks: ts.toks[start:ts.i]})
			ts.next()
		}
	}
}

func (s *FoldedSchema) until(ts *tokStream, kw string) []Token {
	start := ts.i
	depth := 0
	for {
		t := ts.peek()
		if t.Kind == TEOF {
			s.fail(ts.sql, "expected %s", strings.ToUpper(kw))
		}
		if t.Kind == TOp && (t.Text == "(" || t.Text == "[") {
			depth++
		}
		if t.Kind == TOp && (t.Text == ")" || t.Text == "]") {
			depth--
		}
		// CASE … THEN inside an IF condition does not occur in the migrations
		if depth == 0 && t.Kind == TIdent && t.Text == kw {
			toks := ts.toks[start:ts.i]
			ts.next()
			return toks
		}
		ts.next()
	}
}

type plSignal int

const (
	sigNone plSignal = iota
	sigExit
	sigReturn
)

func containsDDL(items []plItem) bool {
	for _, it := range items {
		switch it.kind {
		case plSimple:
			if len(it.toks) > 0 && it.toks[0].Kind == TIdent {
				switch it.toks[0].Text {
				case "alter", "drop", "create":
					return true
				}
			}
		default:
			if containsDDL(it.body) || containsDDL(it.els) {
				return true
			}
			for _, a := range it.elifs {
				if containsDDL(a.body) {
					return true
				}
			}
		}
	}
	return false
}

func containsFlow(items []plItem) bool {
	for _, it := range items {
		switch it.kind {
		case plSimple:
			if len(it.toks) > 0 && it.toks[0].Kind == TIdent && (it.toks[0].Text == "return" || it.toks[0].Text == "exit") {
				return true
			}
		default:
			if containsFlow(it.body) || containsFlow(it.els) {
				return true
			}
			for _, a := range it.elifs {
				if containsFlow(a.body) {
					return true
				}
			}
		}
	}
	return false
}

// condOnEmptyDB evaluates the few condition shapes the migrations use, under
// the assumption that every table is empty: returns (value, known).
func condOnEmptyDB(toks []Token, found bool) (bool, bool) {
	txt := strings.ToLower(tokensSQL("", toks))
	txt = strings.Join(strings.Fields(txt), " ")
	switch {
	case txt == "not found":
		return !found, true
	case txt == "found":
		return found, true
	case strings.HasPrefix(txt, "( select count ( * ) from ") && strings.HasSuffix(txt, ") = 0"):
		return true, true
	case strings.Contains(txt, ">= ( select max (") && strings.HasSuffix(txt, ")"):
		// x >= (select max(c) from t): NULL on an empty table, so the branch is not taken
		return false, true
	}
	return false, false
}

func (s *FoldedSchema) runPlItems(sql string, items []plItem, found *bool) plSignal {
	for _, it := range items {
		switch it.kind {
		case plSimple:
			if len(it.toks) == 0 {
				continue
			}
			head := it.toks[0]
			if head.Kind == TIdent {
				switch head.Text {
				case "return":
					return sigReturn
				case "exit":
					// exit [when cond]
					if len(it.toks) == 1 {
						return sigExit
					}
					if it.toks[1].Kind == TIdent && it.toks[1].Text == "when" {
						v, known := condOnEmptyDB(it.toks[2:], *found)
						if !known {
							s.fail(sql, "cannot evaluate EXIT WHEN %s on an empty database", tokensSQL(sql, it.toks[2:]))
						}
						if v {
							return sigExit
						}
						continue
					}
					s.fail(sql, "unsupported EXIT form")
				case "execute":
					// dynamic SQL is only used inside loops over existing ledgers
					s.fail(sql, "dynamic EXECUTE reached while folding a DO block on an empty database")
				case "select", "update", "insert", "delete", "with", "perform":
					*found = false
					if head.Text == "select" || head.Text == "perform" {
						// select count(*) … into x finds one row, but no migration tests FOUND after it
						*found = false
					}
					continue
				case "alter", "drop", "create":
					s.foldStatement(tokensSQL(sql, it.toks), it.toks, true)
					continue
				case "set", "raise", "commit", "analyze", "null", "assert":
					continue
				}
			}
			// assignment `x = …` / `x := …`
			if len(it.toks) >= 2 && it.toks[1].Kind == TOp && (it.toks[1].Text == "=" || it.toks[1].Text == ":=") {
				continue
			}
			if name := s.mentionsTracked(it.toks); name != "" {
				s.fail(tokensSQL(sql, it.toks), "statement in DO block mentions tracked object %q and is not understood", name)
			}
		case plIf:
			v, known := condOnEmptyDB(it.toks, *found)
			if !known {
				all := append(append([]plItem{}, it.body...), it.els...)
				for _, a := range it.elifs {
					all = append(all, a.body...)
				}
				if containsDDL(all) || containsFlow(all) {
					s.fail(tokensSQL(sql, it.toks), "cannot evaluate this IF condition on an empty database and its branches change the schema or the control flow")
				}
				continue
			}
			if v {
				if sig := s.runPlItems(sql, it.body, found); sig != sigNone {
					return sig
				}
			} else {
				taken := false
				for _, a := range it.elifs {
					av, ak := condOnEmptyDB(a.toks, *found)
					if !ak {
						s.fail(tokensSQL(sql, a.toks), "cannot evaluate this ELSIF condition on an empty database")
					}
					if av {
						taken = true
						if sig := s.runPlItems(sql, a.body, found); sig != sigNone {
							return sig
						}
						break
					}
				}
				if !taken {
					if sig := s.runPlItems(sql, it.els, found); sig != sigNone {
						return sig
					}
				}
			}
		case plFor:
			// FOR … IN <query | range depending on a count> LOOP: no iteration on an
			// empty database. The body must not contain static DDL (dynamic EXECUTE
			// for existing ledgers is fine: there are none).
			if containsDDL(it.body) {
				s.fail(tokensSQL(sql, it.toks), "FOR loop body contains DDL; cannot decide whether it runs")
			}
		case plLoop:
			// run the body once; it must leave the loop on an empty database
			sig := s.runPlItems(sql, it.body, found)
			switch sig {
			case sigReturn:
				return sigReturn
			case sigExit:
				continue
			default:
				s.fail(sql, "LOOP does not terminate on an empty database (no EXIT/RETURN reached)")
			}
		}
	}
	return sigNone
}

// SortedFunctionNames returns the names of the remaining functions.
func (s *FoldedSchema) SortedFunctionNames() []string {
	var names []string
	for n := range s.Functions {
		names = append(names, n)
	}
	sort.Strings(names)
	return names
}
