//go:build verif

package minisql

import (
	"encoding/json"
	"fmt"
	"strings"
)

// ---------------------------------------------------------------------------
// SQL printer: fully parenthesised canonical text of an AST.
// ---------------------------------------------------------------------------

type printer struct{ sb strings.Builder }

func (w *printer) ws(s string) { w.sb.WriteString(s) }

func quoteIdent(s string) string { return `"` + strings.ReplaceAll(s, `"`, `""`) + `"` }
func quoteStr(s string) string   { return "'" + strings.ReplaceAll(s, "'", "''") + "'" }

func qname(schema, name string) string {
	if schema != "" {
		return quoteIdent(schema) + "." + quoteIdent(name)
	}
	return quoteIdent(name)
}

var binopText = map[string]string{
	"or": "OR", "and": "AND", "eq": "=", "ne": "<>", "lt": "<", "le": "<=", "gt": ">", "ge": ">=",
	"like": "LIKE", "concat": "||", "jsonGet": "->", "jsonGetText": "->>", "jsonPathText": "#>>", "jsonPath": "#>",
	"contains": "@>", "containedBy": "<@", "hasKey": "?", "hasAnyKey": "?|", "hasAllKeys": "?&", "jsonpathMatch": "@@",
	"add": "+", "sub": "-", "mul": "*", "div": "/", "mod": "%",
}

// PrintSQL renders a node (statement, query or expression) as SQL text.
func PrintSQL(n *Node) string {
	w := &printer{}
	w.node(n)
	return w.sb.String()
}

func (w *printer) list(xs []*Node, sep string) {
	for i, x := range xs {
		if i > 0 {
			w.ws(sep)
		}
		w.node(x)
	}
}

func (w *printer) idents(xs []string) {
	for i, x := range xs {
		if i > 0 {
			w.ws(", ")
		}
		w.ws(quoteIdent(x))
	}
}

func (w *printer) opt(prefix string, o Opt) {
	if o.N != nil {
		w.ws(prefix)
		w.node(o.N)
	}
}

func (w *printer) dotted(q string) {
	if q == "" {
		return
	}
	for _, part := range strings.Split(q, ".") {
		w.ws(quoteIdent(part) + ".")
	}
}

func (w *printer) ctes(ctes []*Node) {
	if len(ctes) == 0 {
		return
	}
	w.ws("WITH ")
	w.list(ctes, ", ")
	w.ws(" ")
}

func (w *printer) orderBy(xs []*Node) {
	if len(xs) > 0 {
		w.ws(" ORDER BY ")
		w.list(xs, ", ")
	}
}

func (w *printer) returning(xs []*Node) {
	if len(xs) > 0 {
		w.ws(" RETURNING ")
		w.list(xs, ", ")
	}
}

func (w *printer) node(n *Node) {
	a := n.Args
	switch n.Tag {
	// ---- expressions ----
	case "Expr.null":
		w.ws("NULL")
	case "Expr.bool":
		if a[0].(bool) {
			w.ws("TRUE")
		} else {
			w.ws("FALSE")
		}
	case "Expr.int":
		if v := a[0].(Int).V; v.Sign() < 0 {
			w.ws("(" + v.String() + ")")
		} else {
			w.ws(v.String())
		}
	case "Expr.dec":
		w.ws(a[0].(string))
	case "Expr.str":
		w.ws(quoteStr(a[0].(string)))
	case "Expr.dflt":
		w.ws("DEFAULT")
	case "Expr.col":
		w.dotted(a[0].(string))
		w.ws(quoteIdent(a[1].(string)))
	case "Expr.unop":
		switch a[0].(Enum).Name {
		case "not":
			w.ws("(NOT ")
			w.node(a[1].(*Node))
			w.ws(")")
		case "neg":
			w.ws("(- ")
			w.node(a[1].(*Node))
			w.ws(")")
		case "notLike":
			b := a[1].(*Node)
			w.ws("(")
			w.node(b.Args[1].(*Node))
			w.ws(" NOT LIKE ")
			w.node(b.Args[2].(*Node))
			w.ws(")")
		}
	case "Expr.binop":
		w.ws("(")
		w.node(a[1].(*Node))
		w.ws(" " + binopText[a[0].(Enum).Name] + " ")
		w.node(a[2].(*Node))
		w.ws(")")
	case "Expr.isNull":
		w.ws("(")
		w.node(a[0].(*Node))
		if a[1].(bool) {
			w.ws(" IS NOT NULL)")
		} else {
			w.ws(" IS NULL)")
		}
	case "Expr.inList":
		w.ws("(")
		w.node(a[0].(*Node))
		if a[2].(bool) {
			w.ws(" NOT")
		}
		w.ws(" IN (")
		w.list(a[1].([]*Node), ", ")
		w.ws("))")
	case "Expr.inSub":
		w.ws("(")
		w.node(a[0].(*Node))
		if a[2].(bool) {
			w.ws(" NOT")
		}
		w.ws(" IN (")
		w.node(a[1].(*Node))
		w.ws("))")
	case "Expr.exists":
		w.ws("EXISTS (")
		w.node(a[0].(*Node))
		w.ws(")")
	case "Expr.subq":
		w.ws("(")
		w.node(a[0].(*Node))
		w.ws(")")
	case "Expr.ite":
		w.ws("CASE")
		cur := n
		for {
			w.ws(" WHEN ")
			w.node(cur.Args[0].(*Node))
			w.ws(" THEN ")
			w.node(cur.Args[1].(*Node))
			tail := cur.Args[2].(Opt).N
			if tail != nil && tail.Is("Expr.ite") && tail.Args[3].(bool) {
				cur = tail
				continue
			}
			if tail != nil {
				w.ws(" ELSE ")
				w.node(tail)
			}
			break
		}
		w.ws(" END")
	case "Expr.cast":
		w.ws("(")
		w.node(a[0].(*Node))
		w.ws(")::")
		w.node(a[1].(*Node))
	case "SqlType.mk":
		name := a[1].(string)
		switch name {
		case "timestamp":
			w.ws("timestamp without time zone")
		case "timestamptz":
			w.ws("timestamp with time zone")
		default:
			w.ws(qname(a[0].(string), name))
		}
		if m := a[2].(string); m != "" {
			w.ws("(" + m + ")")
		}
		if a[3].(bool) {
			w.ws("[]")
		}
	case "Expr.call":
		if args := a[2].([]*Node); a[0].(string) == "" && a[1].(string) == "timezone" && len(args) == 2 {
			w.ws("(")
			w.node(args[1])
			w.ws(" AT TIME ZONE ")
			w.node(args[0])
			w.ws(")")
			break
		}
		w.ws(qname(a[0].(string), a[1].(string)))
		w.ws("(")
		w.list(a[2].([]*Node), ", ")
		w.ws(")")
	case "Expr.agg":
		w.ws(qname(a[0].(string), a[1].(string)))
		w.ws("(")
		if a[2].(bool) {
			w.ws("DISTINCT ")
		}
		if a[3].(bool) {
			w.ws("*")
		}
		w.list(a[4].([]*Node), ", ")
		w.orderBy(a[5].([]*Node))
		w.ws(")")
	case "Expr.win":
		w.ws(quoteIdent(a[1].(string)))
		w.ws("(")
		w.list(a[2].([]*Node), ", ")
		w.ws(") OVER (")
		if part := a[3].([]*Node); len(part) > 0 {
			w.ws("PARTITION BY ")
			w.list(part, ", ")
		}
		w.orderBy(a[4].([]*Node))
		w.ws(")")
	case "Expr.row":
		w.ws("ROW(")
		w.list(a[0].([]*Node), ", ")
		w.ws(")")
	case "Expr.array":
		w.ws("ARRAY[")
		w.list(a[0].([]*Node), ", ")
		w.ws("]")
	case "Expr.index":
		w.ws("(")
		w.node(a[0].(*Node))
		w.ws(")[")
		w.node(a[1].(*Node))
		w.ws("]")
	case "Expr.slice":
		w.ws("(")
		w.node(a[0].(*Node))
		w.ws(")[")
		w.opt("", a[1].(Opt))
		w.ws(":")
		w.opt("", a[2].(Opt))
		w.ws("]")
	case "Expr.field":
		w.ws("(")
		w.node(a[0].(*Node))
		w.ws(").")
		w.ws(quoteIdent(a[1].(string)))
	case "OrderItem.mk":
		w.node(a[0].(*Node))
		if a[1].(bool) {
			w.ws(" DESC")
		}
		switch a[2].(Enum).Name {
		case "first":
			w.ws(" NULLS FIRST")
		case "last":
			w.ws(" NULLS LAST")
		}
	// ---- queries ----
	case "SelItem.expr":
		w.node(a[0].(*Node))
		if al := a[1].(string); al != "" {
			w.ws(" AS " + quoteIdent(al))
		}
	case "SelItem.star":
		w.dotted(a[0].(string))
		w.ws("*")
	case "FromItem.table":
		w.ws(qname(a[0].(string), a[1].(string)))
		if al := a[2].(string); al != "" {
			w.ws(" AS " + quoteIdent(al))
		}
	case "FromItem.sub":
		if a[3].(bool) {
			w.ws("LATERAL ")
		}
		w.ws("(")
		w.node(a[0].(*Node))
		w.ws(") AS " + quoteIdent(a[1].(string)))
		if cols := a[2].([]string); len(cols) > 0 {
			w.ws(" (")
			w.idents(cols)
			w.ws(")")
		}
	case "FromItem.func":
		if a[3].(bool) {
			w.ws("LATERAL ")
		}
		w.node(a[0].(*Node))
		if al := a[1].(string); al != "" {
			w.ws(" AS " + quoteIdent(al))
		}
		if cols := a[2].([]string); len(cols) > 0 {
			w.ws(" (")
			w.idents(cols)
			w.ws(")")
		}
	case "FromItem.join":
		w.node(a[1].(*Node))
		switch a[0].(Enum).Name {
		case "inner":
			w.ws(" JOIN ")
		case "left":
			w.ws(" LEFT JOIN ")
		case "cross":
			w.ws(" CROSS JOIN ")
		}
		w.node(a[2].(*Node))
		w.opt(" ON ", a[3].(Opt))
	case "Select.mk":
		w.ws("SELECT ")
		if a[0].(bool) {
			w.ws("DISTINCT ")
		}
		if on := a[1].([]*Node); len(on) > 0 {
			w.ws("DISTINCT ON (")
			w.list(on, ", ")
			w.ws(") ")
		}
		w.list(a[2].([]*Node), ", ")
		if from := a[3].([]*Node); len(from) > 0 {
			w.ws(" FROM ")
			w.list(from, ", ")
		}
		w.opt(" WHERE ", a[4].(Opt))
		if g := a[5].([]*Node); len(g) > 0 {
			w.ws(" GROUP BY ")
			w.list(g, ", ")
		}
		w.opt(" HAVING ", a[6].(Opt))
	case "SetExpr.select":
		w.node(a[0].(*Node))
	case "SetExpr.values":
		w.ws("VALUES ")
		w.rows(a[0].([][]*Node))
	case "SetExpr.union":
		w.node(a[1].(*Node))
		if a[0].(bool) {
			w.ws(" UNION ALL ")
		} else {
			w.ws(" UNION ")
		}
		w.node(a[2].(*Node))
	case "SetExpr.paren":
		w.ws("(")
		w.node(a[0].(*Node))
		w.ws(")")
	case "Query.mk":
		w.ctes(a[0].([]*Node))
		w.node(a[1].(*Node))
		w.orderBy(a[2].([]*Node))
		w.opt(" LIMIT ", a[3].(Opt))
		w.opt(" OFFSET ", a[4].(Opt))
		switch a[5].(Enum).Name {
		case "forUpdate":
			w.ws(" FOR UPDATE")
		case "forNoKeyUpdate":
			w.ws(" FOR NO KEY UPDATE")
		case "forShare":
			w.ws(" FOR SHARE")
		}
	case "Cte.mk":
		w.ws(quoteIdent(a[0].(string)))
		if cols := a[1].([]string); len(cols) > 0 {
			w.ws(" (")
			w.idents(cols)
			w.ws(")")
		}
		w.ws(" AS (")
		w.node(a[2].(*Node))
		w.ws(")")
	// ---- statements ----
	case "Stmt.query":
		w.node(a[0].(*Node))
	case "Stmt.insert":
		w.ctes(a[0].([]*Node))
		w.ws("INSERT INTO " + qname(a[1].(string), a[2].(string)))
		if al := a[3].(string); al != "" {
			w.ws(" AS " + quoteIdent(al))
		}
		if cols := a[4].([]string); len(cols) > 0 {
			w.ws(" (")
			w.idents(cols)
			w.ws(")")
		}
		w.ws(" ")
		w.node(a[5].(*Node))
		w.opt(" ", a[6].(Opt))
		w.returning(a[7].([]*Node))
	case "InsertSrc.values":
		w.ws("VALUES ")
		w.rows(a[0].([][]*Node))
	case "InsertSrc.query":
		w.node(a[0].(*Node))
	case "InsertSrc.defaultValues":
		w.ws("DEFAULT VALUES")
	case "OnConflict.mk":
		w.ws("ON CONFLICT")
		if t := a[0].([]string); len(t) > 0 {
			w.ws(" (")
			w.idents(t)
			w.ws(")")
		}
		w.opt(" WHERE ", a[1].(Opt))
		if c := a[2].(string); c != "" {
			w.ws(" ON CONSTRAINT " + quoteIdent(c))
		}
		w.ws(" DO ")
		w.node(a[3].(*Node))
	case "ConflictAction.nothing":
		w.ws("NOTHING")
	case "ConflictAction.update":
		w.ws("UPDATE SET ")
		w.list(a[0].([]*Node), ", ")
		w.opt(" WHERE ", a[1].(Opt))
	case "SetItem.mk":
		w.ws(quoteIdent(a[0].(string)) + " = ")
		w.node(a[1].(*Node))
	case "Stmt.update":
		w.ctes(a[0].([]*Node))
		w.ws("UPDATE " + qname(a[1].(string), a[2].(string)))
		if al := a[3].(string); al != "" {
			w.ws(" AS " + quoteIdent(al))
		}
		w.ws(" SET ")
		w.list(a[4].([]*Node), ", ")
		if from := a[5].([]*Node); len(from) > 0 {
			w.ws(" FROM ")
			w.list(from, ", ")
		}
		w.opt(" WHERE ", a[6].(Opt))
		w.returning(a[7].([]*Node))
	case "Stmt.delete":
		w.ctes(a[0].([]*Node))
		w.ws("DELETE FROM " + qname(a[1].(string), a[2].(string)))
		if al := a[3].(string); al != "" {
			w.ws(" AS " + quoteIdent(al))
		}
		if using := a[4].([]*Node); len(using) > 0 {
			w.ws(" USING ")
			w.list(using, ", ")
		}
		w.opt(" WHERE ", a[5].(Opt))
		w.returning(a[6].([]*Node))
	case "Stmt.begin":
		w.ws("BEGIN")
	case "Stmt.commit":
		w.ws("COMMIT")
	case "Stmt.rollback":
		w.ws("ROLLBACK")
	case "Stmt.savepoint":
		w.ws("SAVEPOINT " + quoteIdent(a[0].(string)))
	case "Stmt.release":
		w.ws("RELEASE SAVEPOINT " + quoteIdent(a[0].(string)))
	case "Stmt.rollbackTo":
		w.ws("ROLLBACK TO SAVEPOINT " + quoteIdent(a[0].(string)))
	case "Stmt.call":
		w.ws("CALL " + qname(a[0].(string), a[1].(string)) + "(")
		w.list(a[2].([]*Node), ", ")
		w.ws(")")
	case "Stmt.createSequence":
		w.ws("CREATE SEQUENCE ")
		if a[2].(bool) {
			w.ws("IF NOT EXISTS ")
		}
		w.ws(qname(a[0].(string), a[1].(string)))
		if o := a[3].(string); o != "" {
			w.ws(" OWNED BY ")
			parts := strings.Split(o, ".")
			for i, part := range parts {
				if i > 0 {
					w.ws(".")
				}
				w.ws(quoteIdent(part))
			}
		}
	case "Stmt.createTrigger":
		w.ws("CREATE TRIGGER " + quoteIdent(a[0].(string)) + " " + strings.ToUpper(a[1].(Enum).Name) + " " + strings.ToUpper(a[2].(Enum).Name))
		if of := a[3].([]string); len(of) > 0 {
			w.ws(" OF ")
			w.idents(of)
		}
		w.ws(" ON " + qname(a[4].(string), a[5].(string)) + " FOR EACH ROW")
		if o := a[6].(Opt); o.N != nil {
			w.ws(" WHEN (")
			w.node(o.N)
			w.ws(")")
		}
		w.ws(" EXECUTE PROCEDURE " + qname(a[7].(string), a[8].(string)) + "()")
	default:
		if !w.plNode(n) {
			panic(fmt.Sprintf("minisql: printer: unknown node %s", n.Tag))
		}
	}
}

func (w *printer) rows(rows [][]*Node) {
	for i, r := range rows {
		if i > 0 {
			w.ws(", ")
		}
		w.ws("(")
		w.list(r, ", ")
		w.ws(")")
	}
}

// ---------------------------------------------------------------------------
// print-back check
// ---------------------------------------------------------------------------

// normTokens produces the comparison form of a statement's token stream.
func normTokens(sql string) ([]string, error) {
	toks, err := Lex(sql)
	if err != nil {
		return nil, err
	}
	var out []string
	for i := 0; i < len(toks); i++ {
		t := toks[i]
		switch t.Kind {
		case TEOF:
		case TOp:
			switch t.Text {
			case "(", ")", ";":
			case "!=":
				out = append(out, "<>")
			default:
				out = append(out, t.Text)
			}
		case TString:
			out = append(out, "'"+t.Text)
		case TNumber:
			out = append(out, "#"+t.Text)
		case TParam:
			out = append(out, t.Text)
		case TQIdent:
			out = append(out, strings.ToLower(t.Text))
		case TIdent:
			w := t.Text
			switch w {
			case "as", "outer", "inner":
				continue
			case "row":
				// ROW(…) prefix of a row constructor vs. bare (…)
				if i+1 < len(toks) && toks[i+1].Kind == TOp && toks[i+1].Text == "(" {
					continue
				}
			case "asc":
				continue
			case "transaction":
				if len(out) > 0 && (out[len(out)-1] == "begin") {
					continue
				}
			case "savepoint":
				// RELEASE [SAVEPOINT] x / ROLLBACK TO [SAVEPOINT] x
				if len(out) > 0 && (out[len(out)-1] == "release" || out[len(out)-1] == "to") {
					continue
				}
			case "each":
				continue
			case "all":
				// SELECT ALL
				if len(out) > 0 && out[len(out)-1] == "select" {
					continue
				}
			}
			if s, ok := map[string]string{"integer": "int4", "int": "int4", "bigint": "int8", "smallint": "int2", "boolean": "bool", "decimal": "numeric", "function": "procedure"}[w]; ok {
				w = s
			}
			out = append(out, w)
		}
	}
	// multi-word type names and synonyms
	joined := " " + strings.Join(out, " ") + " "
	for _, r := range [][2]string{
		{" timestamp without time zone ", " timestamp "},
		{" timestamp with time zone ", " timestamptz "},
		{" character varying ", " varchar "},
		{" start transaction ", " begin "},
		{" start ", " begin "},
	} {
		joined = strings.ReplaceAll(joined, r[0], r[1])
	}
	return strings.Fields(joined), nil
}

// CheckPrintBack pretty-prints the AST and compares it token-wise with the
// input (after whitespace / quote / parenthesis normalisation), then re-parses
// the printed text and requires the same AST. A clause the parser dropped, or a
// printer/parser disagreement, is an error.
func CheckPrintBack(st *Stmt) error {
	printed := PrintSQL(st.Root)
	a, err := normTokens(st.SQL)
	if err != nil {
		return err
	}
	b, err := normTokens(printed)
	if err != nil {
		return fmt.Errorf("minisql: print-back: cannot lex printed form: %w\n%s", err, printed)
	}
	if len(a) != len(b) {
		return &ParseError{Msg: fmt.Sprintf("print-back check failed: %d input tokens vs %d printed tokens; first difference: %s\nprinted: %s", len(a), len(b), firstDiff(a, b), printed), Pos: -1, SQL: st.SQL}
	}
	for i := range a {
		if a[i] != b[i] {
			return &ParseError{Msg: fmt.Sprintf("print-back check failed at token %d: %s\nprinted: %s", i, firstDiff(a, b), printed), Pos: -1, SQL: st.SQL}
		}
	}
	// round trip
	toks, err := Lex(printed)
	if err != nil {
		return err
	}
	var again *Node
	var rerr error
	func() {
		defer func() {
			if r := recover(); r != nil {
				rerr = fmt.Errorf("%v", r)
			}
		}()
		p := &parser{src: printed, toks: toks}
		again = p.parseStatement()
		if p.peek().Kind != TEOF {
			rerr = fmt.Errorf("trailing tokens")
		}
	}()
	if rerr != nil {
		return &ParseError{Msg: "print-back check failed: printed form does not re-parse: " + rerr.Error() + "\nprinted: " + printed, Pos: -1, SQL: st.SQL}
	}
	j1, _ := json.Marshal(st.Root.JSON())
	j2, _ := json.Marshal(again.JSON())
	if string(j1) != string(j2) {
		return &ParseError{Msg: "print-back check failed: re-parsing the printed form gives a different AST\nprinted: " + printed, Pos: -1, SQL: st.SQL}
	}
	return nil
}

func firstDiff(a, b []string) string {
	n := len(a)
	if len(b) < n {
		n = len(b)
	}
	for i := 0; i < n; i++ {
		if a[i] != b[i] {
			lo := i - 4
			if lo < 0 {
				lo = 0
			}
			hiA, hiB := i+5, i+5
			if hiA > len(a) {
				hiA = len(a)
			}
			if hiB > len(b) {
				hiB = len(b)
			}
			return fmt.Sprintf("input …%s… vs printed …%s…", strings.Join(a[lo:hiA], " "), strings.Join(b[lo:hiB], " "))
		}
	}
	if len(a) > n {
		return "input has extra tokens: " + strings.Join(a[n:min(len(a), n+8)], " ")
	}
	if len(b) > n {
		return "printed has extra tokens: " + strings.Join(b[n:min(len(b), n+8)], " ")
	}
	return "none"
}
