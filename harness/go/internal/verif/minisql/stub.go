//go:build verif

package minisql

import "errors"

type Stmt struct{}

func (s *Stmt) TxKind() string { return "" }
func (s *Stmt) JSON() any      { return nil }
func Parse(q string) (*Stmt, error) { return nil, errors.New("stub") }
