//go:build verif

package minisql

import (
	"fmt"
	"strings"
)

// PL/pgSQL bodies of the tracked functions (triggers, compute_hash,
// create_block[s]) → MiniPL AST (Lean type `PlStmt`, see lean/Ledger/Sql/Ast.lean).

// PlFunc is a parsed function or procedure.
type PlFunc struct {
	Name    string
	Params  []PlParam
	Returns *Node // SqlType.mk …
	Decls   []PlDecl
	Body    []*Node
	// Source is the normalised body text (for pinning natively modelled functions).
	Source string
}

type PlParam struct {
	Name string
	Type *Node
}

type PlDecl struct {
	Name string
	Type *Node
	Init *Node
}

// ParsePlBody parses `[declare …] begin … end` into declarations and statements.
func ParsePlBody(body string) (decls []PlDecl, stmts []*Node, err error) {
	defer func() {
		if r := recover(); r != nil {
			if pe, ok := r.(*ParseError); ok {
				err = pe
				return
			}
			panic(r)
		}
	}()
	toks, lerr := Lex(body)
	if lerr != nil {
		return nil, nil, &ParseError{Msg: lerr.Error(), Pos: -1, SQL: body}
	}
	p := &parser{src: body, toks: toks, pl: true}
	if p.acceptKw("declare") {
		for !p.isKw("begin") {
			name := p.ident("variable name")
			if p.isKw("constant") {
				p.next()
			}
			ty := p.parseType()
			var init *Node
			if p.acceptOp(":=") || p.acceptOp("=") || p.acceptKw("default") {
				init = p.parseExpr()
			}
			p.expectOp(";")
			decls = append(decls, PlDecl{Name: name, Type: ty, Init: init})
		}
	}
	p.expectKw("begin")
	stmts = p.parsePlStmts("end")
	p.expectKw("end")
	p.acceptOp(";")
	if p.peek().Kind != TEOF {
		p.fail("unexpected %s after the end of the function body", p.peek())
	}
	return decls, stmts, nil
}

// parsePlStmts parses statements until one of the stop keywords is next.
func (p *parser) parsePlStmts(stops ...string) []*Node {
	var out []*Node
	for {
		for _, s := range stops {
			if p.isKw(s) {
				return out
			}
		}
		if p.peek().Kind == TEOF {
			p.fail("unexpected end of PL/pgSQL body")
		}
		out = append(out, p.parsePlStmt())
	}
}

// stmtTokens returns the tokens of the current statement up to (not including)
// the terminating top-level ';' and advances past it.
func (p *parser) stmtTokens() []Token {
	depth := 0
	start := p.i
	for {
		t := p.peek()
		if t.Kind == TEOF {
			p.fail("unterminated PL/pgSQL statement")
		}
		if t.Kind == TOp {
			switch t.Text {
			case "(", "[":
				depth++
			case ")", "]":
				depth--
			case ";":
				if depth == 0 {
					toks := append([]Token{}, p.toks[start:p.i]...)
					p.next()
					return toks
				}
			}
		}
		p.next()
	}
}

// extractInto removes a top-level `INTO target[, target…]` from a statement's
// tokens. For DML it must follow RETURNING.
func (p *parser) extractInto(toks []Token, needReturning bool) ([]Token, []*Node) {
	depth := 0
	seenReturning := false
	for i, t := range toks {
		if t.Kind == TOp {
			switch t.Text {
			case "(", "[":
				depth++
			case ")", "]":
				depth--
			}
			continue
		}
		if depth != 0 || t.Kind != TIdent {
			continue
		}
		if t.Text == "returning" {
			seenReturning = true
		}
		if t.Text == "into" && (!needReturning || seenReturning) {
			// INSERT INTO at the start is not an INTO clause
			if i > 0 && toks[i-1].Kind == TIdent && toks[i-1].Text == "insert" {
				continue
			}
			j := i + 1
			var targets []*Node
			for {
				if j >= len(toks) || (toks[j].Kind != TIdent && toks[j].Kind != TQIdent) {
					panic(&ParseError{Msg: "expected a variable after INTO", Pos: t.Pos, SQL: p.src})
				}
				if toks[j].Kind == TIdent && toks[j].Text == "strict" {
					panic(&ParseError{Msg: "unsupported construct: INTO STRICT", Pos: t.Pos, SQL: p.src})
				}
				name := toks[j].Text
				j++
				if j+1 < len(toks) && toks[j].Kind == TOp && toks[j].Text == "." {
					targets = append(targets, N("PlTarget.field", name, toks[j+1].Text))
					j += 2
				} else {
					targets = append(targets, N("PlTarget.var", name))
				}
				if j < len(toks) && toks[j].Kind == TOp && toks[j].Text == "," {
					j++
					continue
				}
				break
			}
			rest := append(append([]Token{}, toks[:i]...), toks[j:]...)
			return rest, targets
		}
	}
	return toks, nil
}

func (p *parser) sub(toks []Token) *parser {
	end := Token{Kind: TEOF, Pos: len(p.src)}
	if len(toks) > 0 {
		end.Pos = toks[len(toks)-1].Pos + 1
	}
	return &parser{src: p.src, toks: append(append([]Token{}, toks...), end), pl: true, winID: p.winID}
}

func (p *parser) parsePlStmt() *Node {
	t := p.peek()
	if t.Kind == TOp && t.Text == "<<" {
		p.fail("unsupported construct: block label")
	}
	if t.Kind != TIdent && t.Kind != TQIdent {
		p.fail("unexpected %s at the start of a PL/pgSQL statement", t)
	}
	// assignment: target := expr | target = expr
	if !(t.Kind == TIdent && plKeywords[t.Text]) {
		k := 1
		if p.isOpAt(1, ".") && (p.peekAt(2).Kind == TIdent || p.peekAt(2).Kind == TQIdent) {
			k = 3
		}
		if p.isOpAt(k, ":=") || p.isOpAt(k, "=") {
			var target *Node
			if k == 1 {
				target = N("PlTarget.var", p.next().Text)
			} else {
				v := p.next().Text
				p.next()
				target = N("PlTarget.field", v, p.next().Text)
			}
			p.next()
			e := p.parseExpr()
			p.expectOp(";")
			return N("PlStmt.assign", target, e)
		}
	}
	if t.Kind != TIdent {
		p.fail("unexpected %s at the start of a PL/pgSQL statement", t)
	}
	switch t.Text {
	case "null":
		p.next()
		p.expectOp(";")
		return N("PlStmt.null")
	case "if":
		return p.parsePlIf()
	case "loop":
		p.next()
		body := p.parsePlStmts("end")
		p.expectKw("end")
		p.expectKw("loop")
		p.expectOp(";")
		return N("PlStmt.loop", body)
	case "for", "while", "foreach":
		p.fail("unsupported construct: PL/pgSQL %s loop", strings.ToUpper(t.Text))
	case "exit":
		p.next()
		var when *Node
		if p.acceptKw("when") {
			when = p.parseExpr()
		} else if p.isIdent() {
			p.fail("unsupported construct: EXIT label")
		}
		p.expectOp(";")
		return N("PlStmt.exit", Opt{when})
	case "return":
		p.next()
		if p.isKw("next") || p.isKw("query") {
			p.fail("unsupported construct: RETURN %s", strings.ToUpper(p.peek().Text))
		}
		var e *Node
		if !p.isOp(";") {
			e = p.parseExpr()
		}
		p.expectOp(";")
		return N("PlStmt.ret", Opt{e})
	case "raise":
		p.next()
		level := "exception"
		switch {
		case p.isKw("exception"), p.isKw("notice"), p.isKw("info"), p.isKw("warning"), p.isKw("log"), p.isKw("debug"):
			level = p.next().Text
		}
		msg := ""
		if p.peek().Kind == TString {
			msg = p.next().Text
		}
		// format arguments are evaluated by PostgreSQL but only matter for the text
		for !p.isOp(";") {
			if p.peek().Kind == TEOF {
				p.fail("unterminated RAISE")
			}
			p.next()
		}
		p.expectOp(";")
		return N("PlStmt.raise", level, msg)
	case "perform":
		toks := p.stmtTokens()
		toks[0] = Token{Kind: TIdent, Text: "select", Pos: toks[0].Pos}
		sp := p.sub(toks)
		q := sp.parseQuery()
		if sp.peek().Kind != TEOF {
			sp.fail("unexpected %s in PERFORM", sp.peek())
		}
		p.winID = sp.winID
		return N("PlStmt.perform", q)
	case "select", "with", "values":
		toks := p.stmtTokens()
		rest, targets := p.extractInto(toks, false)
		sp := p.sub(rest)
		st := sp.parseWithStatement()
		if sp.peek().Kind != TEOF {
			sp.fail("unexpected %s after the end of the statement", sp.peek())
		}
		p.winID = sp.winID
		if st.Is("Stmt.query") {
			if targets == nil {
				p.fail("unsupported construct: SELECT without INTO in PL/pgSQL (use PERFORM)")
			}
			return N("PlStmt.selectInto", st.Args[0].(*Node), targets)
		}
		return N("PlStmt.exec", st, targets)
	case "insert", "update", "delete":
		toks := p.stmtTokens()
		rest, targets := p.extractInto(toks, true)
		sp := p.sub(rest)
		st := sp.parseStatement()
		if sp.peek().Kind != TEOF {
			sp.fail("unexpected %s after the end of the statement", sp.peek())
		}
		p.winID = sp.winID
		return N("PlStmt.exec", st, targets)
	case "begin", "declare":
		p.fail("unsupported construct: nested PL/pgSQL block")
	case "execute":
		p.fail("unsupported construct: dynamic EXECUTE")
	case "call":
		toks := p.stmtTokens()
		sp := p.sub(toks)
		st := sp.parseStatement()
		return N("PlStmt.exec", st, []*Node(nil))
	}
	p.fail("unsupported PL/pgSQL statement starting with %s", strings.ToUpper(t.Text))
	return nil
}

var plKeywords = map[string]bool{
	"if": true, "loop": true, "for": true, "while": true, "foreach": true, "exit": true, "return": true, "raise": true,
	"perform": true, "select": true, "with": true, "insert": true, "update": true, "delete": true, "begin": true,
	"declare": true, "execute": true, "call": true, "null": true, "values": true, "end": true, "else": true, "elsif": true,
	"continue": true, "case": true, "get": true, "open": true, "fetch": true, "close": true, "commit": true, "rollback": true,
}

func (p *parser) parsePlIf() *Node {
	p.expectKw("if")
	cond := p.parseExpr()
	p.expectKw("then")
	thn := p.parsePlStmts("elsif", "elseif", "else", "end")
	var els []*Node
	switch {
	case p.isKw("elsif") || p.isKw("elseif"):
		// rewrite `elsif` as a nested IF that consumes the shared END IF
		p.toks[p.i] = Token{Kind: TIdent, Text: "if", Pos: p.peek().Pos}
		els = []*Node{p.parsePlIf()}
		return N("PlStmt.ite", cond, thn, els)
	case p.acceptKw("else"):
		els = p.parsePlStmts("end")
	}
	p.expectKw("end")
	p.expectKw("if")
	p.expectOp(";")
	return N("PlStmt.ite", cond, thn, els)
}

// plNode prints PL nodes (only needed so that the generic printer is total).
func (w *printer) plNode(n *Node) bool {
	switch n.Tag {
	case "PlTarget.var":
		w.ws(quoteIdent(n.Args[0].(string)))
	case "PlTarget.field":
		w.ws(quoteIdent(n.Args[0].(string)) + "." + quoteIdent(n.Args[1].(string)))
	default:
		return false
	}
	return true
}

// LeanPlFunc renders a function as a Lean `PlFunc` structure instance.
func LeanPlFunc(f *PlFunc) string {
	var sb strings.Builder
	sb.WriteString("{ name := " + LeanString(f.Name) + "\n")
	sb.WriteString("    params := [")
	for i, prm := range f.Params {
		if i > 0 {
			sb.WriteString(", ")
		}
		fmt.Fprintf(&sb, "{ name := %s, ty := %s }", LeanString(prm.Name), prm.Type.Lean())
	}
	sb.WriteString("]\n")
	sb.WriteString("    returns := " + f.Returns.Lean() + "\n")
	sb.WriteString("    decls := [")
	for i, d := range f.Decls {
		if i > 0 {
			sb.WriteString(", ")
		}
		init := "none"
		if d.Init != nil {
			init = "(some " + d.Init.Lean() + ")"
		}
		fmt.Fprintf(&sb, "{ name := %s, ty := %s, init := %s }", LeanString(d.Name), d.Type.Lean(), init)
	}
	sb.WriteString("]\n")
	sb.WriteString("    body := [\n")
	for i, s := range f.Body {
		sb.WriteString("      " + s.Lean())
		if i < len(f.Body)-1 {
			sb.WriteString(",")
		}
		sb.WriteString("\n")
	}
	sb.WriteString("    ] }")
	return sb.String()
}
