//go:build verif

package minisql

func (w *printer) plNode(n *Node) bool { return false }
