//go:build verif

// Package minisql is a tokenizer and recursive-descent parser for the subset of
// PostgreSQL's SQL and PL/pgSQL that the ledger renders (bun-built statements,
// raw CTEs, trigger/function bodies of the bucket migrations). The AST is
// exported as JSON (for LeanPG, the Lean model of PostgreSQL) and as Lean terms
// (for the generated modules). A statement outside the subset is a loud error
// naming the construct; a print-back check guarantees that no token of the
// input was silently dropped.
package minisql

import (
	"fmt"
	"strings"
)

type TokKind int

const (
	TEOF TokKind = iota
	TIdent        // unquoted identifier or keyword (Text is lower-cased)
	TQIdent       // "quoted identifier" (Text is the unquoted content)
	TNumber       // 123, 1.5
	TString       // 'abc' / E'abc' / $$abc$$ (Text is the decoded content)
	TOp           // operator or punctuation
	TParam        // $1
)

type Token struct {
	Kind TokKind
	Text string
	Pos  int
	// Dollar is true for dollar-quoted strings (function bodies).
	Dollar bool
}

func (t Token) String() string {
	switch t.Kind {
	case TEOF:
		return "end of statement"
	case TString:
		return "'" + t.Text + "'"
	case TQIdent:
		return `"` + t.Text + `"`
	}
	return t.Text
}

func isIdentStart(c byte) bool {
	return c == '_' || (c >= 'a' && c <= 'z') || (c >= 'A' && c <= 'Z') || c >= 0x80
}
func isIdentPart(c byte) bool { return isIdentStart(c) || (c >= '0' && c <= '9') || c == '$' }
func isDigit(c byte) bool     { return c >= '0' && c <= '9' }

var multiOps = []string{
	"->>", "#>>", "::", "<=", ">=", "<>", "!=", "||", "->", "#>", "@>", "<@", "?|", "?&", "@@", ":=", "..",
}

// Lex tokenizes src. Comments are dropped.
func Lex(src string) ([]Token, error) {
	var out []Token
	i, n := 0, len(src)
	for i < n {
		c := src[i]
		switch {
		case c == ' ' || c == '\t' || c == '\n' || c == '\r' || c == '\f':
			i++
		case c == '-' && i+1 < n && src[i+1] == '-':
			for i < n && src[i] != '\n' {
				i++
			}
		case c == '/' && i+1 < n && src[i+1] == '*':
			depth, j := 1, i+2
			for j < n && depth > 0 {
				if strings.HasPrefix(src[j:], "/*") {
					depth++
					j += 2
				} else if strings.HasPrefix(src[j:], "*/") {
					depth--
					j += 2
				} else {
					j++
				}
			}
			if depth != 0 {
				return nil, fmt.Errorf("unterminated /* comment at offset %d", i)
			}
			i = j
		case c == '\'':
			s, j, err := lexQuoted(src, i, false)
			if err != nil {
				return nil, err
			}
			out = append(out, Token{Kind: TString, Text: s, Pos: i})
			i = j
		case (c == 'E' || c == 'e') && i+1 < n && src[i+1] == '\'':
			s, j, err := lexQuoted(src, i+1, true)
			if err != nil {
				return nil, err
			}
			out = append(out, Token{Kind: TString, Text: s, Pos: i})
			i = j
		case c == '"':
			j := i + 1
			var sb strings.Builder
			for {
				if j >= n {
					return nil, fmt.Errorf("unterminated quoted identifier at offset %d", i)
				}
				if src[j] == '"' {
					if j+1 < n && src[j+1] == '"' {
						sb.WriteByte('"')
						j += 2
						continue
					}
					j++
					break
				}
				sb.WriteByte(src[j])
				j++
			}
			out = append(out, Token{Kind: TQIdent, Text: sb.String(), Pos: i})
			i = j
		case c == '$':
			// $1 parameter, or $tag$ … $tag$ dollar quoting
			if i+1 < n && isDigit(src[i+1]) {
				j := i + 1
				for j < n && isDigit(src[j]) {
					j++
				}
				out = append(out, Token{Kind: TParam, Text: src[i:j], Pos: i})
				i = j
				break
			}
			j := i + 1
			for j < n && (isIdentPart(src[j]) && src[j] != '$') {
				j++
			}
			if j >= n || src[j] != '$' {
				return nil, fmt.Errorf("stray '$' at offset %d", i)
			}
			tag := src[i : j+1]
			end := strings.Index(src[j+1:], tag)
			if end < 0 {
				return nil, fmt.Errorf("unterminated dollar-quoted string %s at offset %d", tag, i)
			}
			out = append(out, Token{Kind: TString, Text: src[j+1 : j+1+end], Pos: i, Dollar: true})
			i = j + 1 + end + len(tag)
		case isDigit(c) || (c == '.' && i+1 < n && isDigit(src[i+1])):
			j := i
			for j < n && isDigit(src[j]) {
				j++
			}
			// "1..5" in plpgsql for-loops: do not swallow the range dots
			if j < n && src[j] == '.' && !(j+1 < n && src[j+1] == '.') {
				j++
				for j < n && isDigit(src[j]) {
					j++
				}
			}
			if j < n && (src[j] == 'e' || src[j] == 'E') {
				k := j + 1
				if k < n && (src[k] == '+' || src[k] == '-') {
					k++
				}
				if k < n && isDigit(src[k]) {
					for k < n && isDigit(src[k]) {
						k++
					}
					j = k
				}
			}
			out = append(out, Token{Kind: TNumber, Text: src[i:j], Pos: i})
			i = j
		case isIdentStart(c):
			j := i
			for j < n && isIdentPart(src[j]) {
				j++
			}
			out = append(out, Token{Kind: TIdent, Text: strings.ToLower(src[i:j]), Pos: i})
			i = j
		default:
			matched := false
			for _, op := range multiOps {
				if strings.HasPrefix(src[i:], op) {
					out = append(out, Token{Kind: TOp, Text: op, Pos: i})
					i += len(op)
					matched = true
					break
				}
			}
			if matched {
				break
			}
			if strings.IndexByte("(),;.*+-/=<>[]:%?^@#~&|!", c) >= 0 {
				out = append(out, Token{Kind: TOp, Text: string(c), Pos: i})
				i++
				break
			}
			return nil, fmt.Errorf("unexpected character %q at offset %d", c, i)
		}
	}
	out = append(out, Token{Kind: TEOF, Pos: n})
	return out, nil
}

// lexQuoted reads a '…' literal starting at src[i]=='\''. With escapes (E'…')
// backslash sequences are decoded as PostgreSQL does.
func lexQuoted(src string, i int, escapes bool) (string, int, error) {
	n := len(src)
	j := i + 1
	var sb strings.Builder
	for {
		if j >= n {
			return "", 0, fmt.Errorf("unterminated string literal at offset %d", i)
		}
		c := src[j]
		if c == '\'' {
			if j+1 < n && src[j+1] == '\'' {
				sb.WriteByte('\'')
				j += 2
				continue
			}
			j++
			break
		}
		if escapes && c == '\\' && j+1 < n {
			j++
			switch src[j] {
			case 'n':
				sb.WriteByte('\n')
			case 't':
				sb.WriteByte('\t')
			case 'r':
				sb.WriteByte('\r')
			case 'b':
				sb.WriteByte('\b')
			case 'f':
				sb.WriteByte('\f')
			case '\\':
				sb.WriteByte('\\')
			case '\'':
				sb.WriteByte('\'')
			case '"':
				sb.WriteByte('"')
			default:
				return "", 0, fmt.Errorf("unsupported escape \\%c in E'' literal at offset %d", src[j], j)
			}
			j++
			continue
		}
		sb.WriteByte(c)
		j++
	}
	return sb.String(), j, nil
}

// SplitStatements splits a simple-query string on top-level semicolons.
func SplitStatements(src string) ([]string, error) {
	toks, err := Lex(src)
	if err != nil {
		return nil, err
	}
	var out []string
	start := -1
	for _, t := range toks {
		if t.Kind == TEOF {
			break
		}
		if t.Kind == TOp && t.Text == ";" {
			if start >= 0 {
				out = append(out, strings.TrimSpace(src[start:t.Pos]))
				start = -1
			}
			continue
		}
		if start < 0 {
			start = t.Pos
		}
	}
	if start >= 0 {
		out = append(out, strings.TrimSpace(src[start:]))
	}
	return out, nil
}
