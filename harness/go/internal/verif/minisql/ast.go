//go:build verif

package minisql

import (
	"encoding/json"
	"fmt"
	"math/big"
	"strings"
)

// Node is one AST node. Tag is "<LeanType>.<constructor>" and Args are the
// constructor's fields in order, so that the JSON encoding (for lpg), the Lean
// term (for generated modules) and the Lean inductive types in
// lean/Ledger/Sql/Ast.lean stay in lock-step by construction.
//
// Field kinds: *Node (mandatory), Opt (optional node), []*Node, [][]*Node,
// string, []string, bool, Int (arbitrary-size integer), Enum.
type Node struct {
	Tag  string
	Args []any
}

// Opt is an optional child (Lean `Option`).
type Opt struct{ N *Node }

// Enum is a constructor of a small Lean enumeration (JSON: its name).
type Enum struct{ Type, Name string }

// Int is an integer literal of any size.
type Int struct{ V *big.Int }

// RawLean is a field rendered verbatim in the Lean output (used by the
// parametrised statements of T1, where a literal becomes a Lean variable). It has
// no JSON form.
type RawLean struct{ Src string }

func N(tag string, args ...any) *Node { return &Node{Tag: tag, Args: args} }

func (n *Node) ctor() string {
	if i := strings.IndexByte(n.Tag, '.'); i >= 0 {
		return n.Tag[i+1:]
	}
	return n.Tag
}

// Is reports whether the node has the given tag.
func (n *Node) Is(tag string) bool { return n != nil && n.Tag == tag }

// ---- JSON ------------------------------------------------------------------

// JSON returns the node as nested []any: [ctor, field…].
func (n *Node) JSON() any {
	if n == nil {
		return nil
	}
	out := make([]any, 0, len(n.Args)+1)
	out = append(out, n.ctor())
	for _, a := range n.Args {
		out = append(out, jsonArg(a))
	}
	return out
}

func jsonArg(a any) any {
	switch x := a.(type) {
	case *Node:
		return x.JSON()
	case Opt:
		if x.N == nil {
			return nil
		}
		return x.N.JSON()
	case []*Node:
		out := make([]any, len(x))
		for i, c := range x {
			out[i] = c.JSON()
		}
		return out
	case [][]*Node:
		out := make([]any, len(x))
		for i, c := range x {
			out[i] = jsonArg(c)
		}
		return out
	case string:
		return x
	case []string:
		out := make([]any, len(x))
		for i, c := range x {
			out[i] = c
		}
		return out
	case bool:
		return x
	case int:
		return x
	case Int:
		return json.Number(x.V.String())
	case Enum:
		return x.Name
	}
	panic(fmt.Sprintf("minisql: unsupported AST field %T", a))
}

// ---- Lean ------------------------------------------------------------------

// Lean renders the node as a Lean 4 term of its inductive type.
func (n *Node) Lean() string {
	var sb strings.Builder
	n.lean(&sb, 0)
	return sb.String()
}

func (n *Node) lean(sb *strings.Builder, depth int) {
	if n.Tag == "RawLean" {
		sb.WriteString(n.Args[0].(string))
		return
	}
	if len(n.Args) == 0 {
		sb.WriteString(n.Tag)
		return
	}
	sb.WriteString("(")
	sb.WriteString(n.Tag)
	for _, a := range n.Args {
		sb.WriteString(" ")
		leanArg(sb, a, depth)
	}
	sb.WriteString(")")
}

func leanArg(sb *strings.Builder, a any, depth int) {
	switch x := a.(type) {
	case *Node:
		x.lean(sb, depth+1)
	case Opt:
		if x.N == nil {
			sb.WriteString("none")
		} else {
			sb.WriteString("(some ")
			x.N.lean(sb, depth+1)
			sb.WriteString(")")
		}
	case []*Node:
		sb.WriteString("[")
		for i, c := range x {
			if i > 0 {
				sb.WriteString(", ")
			}
			c.lean(sb, depth+1)
		}
		sb.WriteString("]")
	case [][]*Node:
		sb.WriteString("[")
		for i, c := range x {
			if i > 0 {
				sb.WriteString(", ")
			}
			leanArg(sb, c, depth+1)
		}
		sb.WriteString("]")
	case string:
		sb.WriteString(LeanString(x))
	case []string:
		sb.WriteString("[")
		for i, c := range x {
			if i > 0 {
				sb.WriteString(", ")
			}
			sb.WriteString(LeanString(c))
		}
		sb.WriteString("]")
	case bool:
		if x {
			sb.WriteString("true")
		} else {
			sb.WriteString("false")
		}
	case int:
		fmt.Fprintf(sb, "%d", x)
	case Int:
		if x.V.Sign() < 0 {
			sb.WriteString("(" + x.V.String() + ")")
		} else {
			sb.WriteString(x.V.String())
		}
	case Enum:
		sb.WriteString(x.Type + "." + x.Name)
	case RawLean:
		sb.WriteString(x.Src)
	default:
		panic(fmt.Sprintf("minisql: unsupported AST field %T", a))
	}
}

// Walk calls f on n and every node below it (pre-order); f may modify n.Args.
func (n *Node) Walk(f func(*Node)) {
	if n == nil {
		return
	}
	f(n)
	for _, a := range n.Args {
		switch x := a.(type) {
		case *Node:
			x.Walk(f)
		case Opt:
			x.N.Walk(f)
		case []*Node:
			for _, c := range x {
				c.Walk(f)
			}
		case [][]*Node:
			for _, r := range x {
				for _, c := range r {
					c.Walk(f)
				}
			}
		}
	}
}

// LeanString renders a Lean string literal.
func LeanString(s string) string {
	var sb strings.Builder
	sb.WriteByte('"')
	for _, r := range s {
		switch {
		case r == '"':
			sb.WriteString(`\"`)
		case r == '\\':
			sb.WriteString(`\\`)
		case r == '\n':
			sb.WriteString(`\n`)
		case r == '\t':
			sb.WriteString(`\t`)
		case r == '\r':
			sb.WriteString(`\r`)
		case r < 0x20 || r == 0x7f:
			fmt.Fprintf(&sb, `\x%02x`, r)
		default:
			sb.WriteRune(r)
		}
	}
	sb.WriteByte('"')
	return sb.String()
}

// ---- statements ------------------------------------------------------------

// Stmt is one parsed statement.
type Stmt struct {
	Root *Node
	SQL  string
}

// JSON is the wire form sent to lpg.
func (s *Stmt) JSON() any { return s.Root.JSON() }

// Lean is the statement as a Lean term of type `Ledger.Sql.Stmt`.
func (s *Stmt) Lean() string { return s.Root.Lean() }

// TxKind classifies transaction-control statements: begin, commit, rollback,
// savepoint, release, rollback_to, or "".
func (s *Stmt) TxKind() string {
	switch s.Root.Tag {
	case "Stmt.begin":
		return "begin"
	case "Stmt.commit":
		return "commit"
	case "Stmt.rollback":
		return "rollback"
	case "Stmt.savepoint":
		return "savepoint"
	case "Stmt.release":
		return "release"
	case "Stmt.rollbackTo":
		return "rollback_to"
	}
	return ""
}

// enum helpers
func binop(name string) Enum   { return Enum{"BinOp", name} }
func unop(name string) Enum    { return Enum{"UnOp", name} }
func joinKind(name string) Enum { return Enum{"JoinKind", name} }
