//go:build verif

package wlctrl

import (
	"context"
	"encoding/json"
	"fmt"

	ledger "github.com/formancehq/ledger/internal"
	ledgercontroller "github.com/formancehq/ledger/internal/controller/ledger"
	systemcontroller "github.com/formancehq/ledger/internal/controller/system"
	"github.com/formancehq/ledger/internal/verif/gen"
	"github.com/formancehq/ledger/internal/verif/memstore"
)

// Workload "ctrlimport" (C08 replay, C11, C12): a random history on a source
// ledger through the REAL state tracker + controller, REAL Export, JSON wire
// encoding of every log, REAL Import (state-tracker Import → controller Import →
// importLog) into a fresh ledger, snapshot of the copy, then more random writes
// on the copy through the state tracker (ids must continue). Variants exercise
// the rejections: import into an in-use ledger, re-import of the same logs,
// a stream that fails at log k, and an import in two parts.

const (
	VOk       = "ok"       // one import of the whole stream
	VTwoParts = "twoParts" // stream[:k] then stream[k:]
	VInUse    = "inUse"    // the target has had a write: import refused
	VTwice    = "twice"    // import, then the same stream again: refused at the first log
	VFailAtK  = "failAtK"  // stream[:k] followed by a log whose id already exists: fails at k
)

var Variants = []string{VOk, VOk, VOk, VTwoParts, VInUse, VTwice, VFailAtK}

type ImpIn struct {
	Prop    string `json:"prop,omitempty"`
	Strict  bool   `json:"strict"`
	Ops     []Op   `json:"ops"`
	Variant string `json:"variant"`
	K       int    `json:"k"`
	// Pre: the single write done on the target before the import (variant inUse)
	Pre   *Op  `json:"pre,omitempty"`
	Extra []Op `json:"extra"`
}

type ImportStep struct {
	N      int           `json:"n"`   // logs offered
	Err    string        `json:"err"` // "" | error class
	Msg    string        `json:"msg,omitempty"`
	State  string        `json:"state"` // ledger state after the step
	Snap   memstore.Snap `json:"snap"`  // full snapshot of the target after the step
	Seq    [2]uint64     `json:"seq"`
	Panic  string        `json:"panic,omitempty"`
	Stream []int         `json:"stream"` // the log ids offered, in order
}

type ImpOut struct {
	Src      []OpOut         `json:"src"`
	SrcSnap  memstore.Snap   `json:"srcSnap"`
	SrcState string          `json:"srcState"`
	Exported []memstore.CLog `json:"exported"`
	// WireOK: every exported log survived json.Marshal → Log.UnmarshalJSON unchanged (canonical form)
	WireOK bool         `json:"wireOk"`
	PreOut *OpOut       `json:"preOut,omitempty"`
	Steps  []ImportStep `json:"steps"`
	Extra  []OpOut      `json:"extra"`
	// DstState: ledger state of the target after the extra writes
	DstState string `json:"dstState"`
}

func facadeEnv(name string, strict bool) *Env {
	m := memstore.New()
	e := NewFacadeEnv(m, name, strict)
	e.W = systemcontroller.VerifCtrlStateTracker(e.Ctrl, e.L)
	return e
}

func (e *Env) mem() *memstore.Mem { return e.B.(*memstore.Mem) }

// exportLogs: real Export + the JSON wire encoding of the export / import endpoints.
func exportLogs(e *Env) (logs []ledger.Log, canon []memstore.CLog, wireOK bool, err error) {
	wireOK = true
	err = e.W.Export(BaseCtx(), ledgercontroller.ExportWriterFn(func(_ context.Context, log ledger.Log) error {
		data, err := json.Marshal(log)
		if err != nil {
			return err
		}
		var back ledger.Log
		if err := json.Unmarshal(data, &back); err != nil {
			return err
		}
		a, _ := json.Marshal(memstore.CanonLog(&log))
		b, _ := json.Marshal(memstore.CanonLog(&back))
		if string(a) != string(b) {
			wireOK = false
		}
		logs = append(logs, back)
		canon = append(canon, *memstore.CanonLog(&back))
		return nil
	}))
	return
}

func importStream(e *Env, now int64, logs []ledger.Log) ImportStep {
	st := ImportStep{N: len(logs), Stream: []int{}}
	for _, l := range logs {
		st.Stream = append(st.Stream, int(*l.ID))
	}
	e.B.SetNow(timeOf(&now))
	ch := make(chan ledger.Log, len(logs))
	for _, l := range logs {
		ch <- l
	}
	close(ch)
	var err error
	st.Panic = gen.Guard(func() { err = e.W.Import(BaseCtx(), ch) })
	st.Err = ClassifyErr(err)
	st.Msg = errMsg(err)
	if st.Panic != "" {
		st.Err = "panic"
	}
	st.State = e.mem().LedgerState(e.L.Name)
	st.Snap = e.B.Snapshot(e.L.Name)
	tx, lg := e.B.Sequences(e.L.Name)
	st.Seq = [2]uint64{tx, lg}
	e.prev = st.Snap
	return st
}

func RunImport(in ImpIn) (out ImpOut, err error) {
	src := facadeEnv("src", in.Strict)
	for _, op := range in.Ops {
		out.Src = append(out.Src, src.Run(BaseCtx(), op))
	}
	out.SrcSnap = src.B.Snapshot("src")
	out.SrcState = src.mem().LedgerState("src")
	logs, canon, wireOK, err := exportLogs(src)
	if err != nil {
		return out, fmt.Errorf("export: %w", err)
	}
	out.Exported, out.WireOK = canon, wireOK
	if out.Exported == nil {
		out.Exported = []memstore.CLog{}
	}
	dst := facadeEnv("dst", in.Strict)
	now := NowOf(len(in.Ops) + 5)
	k := in.K
	if k > len(logs) {
		k = len(logs)
	}
	switch in.Variant {
	case VOk:
		out.Steps = append(out.Steps, importStream(dst, now, logs))
	case VTwoParts:
		out.Steps = append(out.Steps, importStream(dst, now, logs[:k]))
		out.Steps = append(out.Steps, importStream(dst, now+1000000, logs[k:]))
	case VInUse:
		if in.Pre != nil {
			o := dst.Run(BaseCtx(), *in.Pre)
			out.PreOut = &o
		}
		out.Steps = append(out.Steps, importStream(dst, now, logs))
	case VTwice:
		out.Steps = append(out.Steps, importStream(dst, now, logs))
		out.Steps = append(out.Steps, importStream(dst, now+1000000, logs))
	case VFailAtK:
		stream := append([]ledger.Log{}, logs[:k]...)
		if len(logs) > 0 {
			stream = append(stream, logs[0])
		}
		out.Steps = append(out.Steps, importStream(dst, now, stream))
	default:
		return out, fmt.Errorf("unknown variant %q", in.Variant)
	}
	for _, op := range in.Extra {
		out.Extra = append(out.Extra, dst.Run(BaseCtx(), op))
	}
	out.DstState = dst.mem().LedgerState("dst")
	return out, nil
}

func init() {
	gen.Register("ctrlimport", func(c *gen.Ctx) error {
		if c.Replay != "" {
			ins, err := c.ReplayInputs("ctrlimport")
			if err != nil {
				return err
			}
			for _, raw := range ins {
				var in ImpIn
				if err := json.Unmarshal(raw, &in); err != nil {
					return err
				}
				if Prop != "" {
					in.Prop = Prop
				}
				out, err := RunImport(in)
				if err != nil {
					return err
				}
				if err := c.Emit("ctrlimport", in, out); err != nil {
					return err
				}
			}
			return nil
		}
		for i := 0; i < c.N; i++ {
			in := ImpIn{Prop: Prop, Strict: c.R.Intn(2) == 0, Variant: gen.Pick(c.R, Variants)}
			// source history (generated adaptively against a probe ledger without facade:
			// the generator only needs ids / references / keys that exist)
			probe := NewEnv(memstore.New(), "probe", in.Strict)
			g := &genState{}
			n := histLen(c)
			for j := 0; j < n; j++ {
				op := genOp(c, g, j)
				o := probe.Run(BaseCtx(), op)
				g.observe(op, o)
				in.Ops = append(in.Ops, op)
			}
			nLogs := len(probe.B.Snapshot("probe").Logs)
			if nLogs > 0 {
				in.K = c.R.Intn(nLogs + 1)
			}
			if in.Variant == VInUse {
				pre := genOpOfKind(c, &genState{}, n+1, KCreateP)
				pre.Dry, pre.SV, pre.IK, pre.Ref = false, "", "", ""
				pre.Postings = []memstore.CPosting{{S: "world", D: "bank", A: "EUR", N: "3"}}
				in.Pre = &pre
			}
			// extra writes on the copy: generated against the probe (same ids as the copy when the import is exact)
			m := 3 + c.R.Intn(6)
			for j := 0; j < m; j++ {
				op := genOp(c, g, n+10+j)
				o := probe.Run(BaseCtx(), op)
				g.observe(op, o)
				in.Extra = append(in.Extra, op)
			}
			out, err := RunImport(in)
			if err != nil {
				return err
			}
			if err := c.Emit("ctrlimport", in, out); err != nil {
				return err
			}
		}
		return nil
	})
}
