//go:build verif

package wlctrl

import (
	"encoding/json"
	"math/rand"
	"sort"

	ledgercontroller "github.com/formancehq/ledger/internal/controller/ledger"

	"github.com/formancehq/go-libs/v5/pkg/types/metadata"

	"github.com/formancehq/ledger/internal/verif/gen"
	"github.com/formancehq/ledger/internal/verif/memstore"
)

// ---- the request, field by field ------------------------------------------------
//
// canonReq renders the input of a write as the controller receives it (the Go value
// handed to the controller, NOT its JSON / hash): plain maps and slices only, so that
// no MarshalJSON of the request types takes part. nil maps are `null`, empty ones `{}`
// (they are different Go values and hash differently on the unchanged tree).

func canonMap(m map[string]string) any {
	if m == nil {
		return nil
	}
	keys := make([]string, 0, len(m))
	for k := range m {
		keys = append(keys, k)
	}
	sort.Strings(keys)
	ret := make([][2]string, 0, len(keys))
	for _, k := range keys {
		ret = append(ret, [2]string{k, m[k]})
	}
	return ret
}

func canonAccMeta(m map[string]metadata.Metadata) any {
	if m == nil {
		return nil
	}
	keys := make([]string, 0, len(m))
	for k := range m {
		keys = append(keys, k)
	}
	sort.Strings(keys)
	ret := make([]any, 0, len(keys))
	for _, k := range keys {
		ret = append(ret, []any{k, canonMap(m[k])})
	}
	return ret
}

func reqString(kind string, fields ...any) string {
	b, err := json.Marshal(append([]any{kind}, fields...))
	if err != nil {
		return "unencodable:" + err.Error()
	}
	return string(b)
}

func canonCreate(in *ledgercontroller.CreateTransaction) string {
	return reqString("create",
		"plain", in.Plain, "template", in.Template, "vars", canonMap(in.Vars),
		"timestamp", in.Timestamp.UnixMicro(), "timestampZero", in.Timestamp.IsZero(),
		"metadata", canonMap(in.Metadata), "reference", in.Reference,
		"accountMetadata", canonAccMeta(in.AccountMetadata), "runtime", string(in.Runtime))
}

// ---- one-field mutations of a request --------------------------------------------

func cloneOp(op Op) Op {
	cp := op
	cp.Postings = append([]memstore.CPosting(nil), op.Postings...)
	cp.Meta = append([][2]string{}, op.Meta...)
	if op.AM != nil {
		cp.AM = make([]memstore.CAccMeta, len(op.AM))
		for i, e := range op.AM {
			cp.AM[i] = memstore.CAccMeta{Addr: e.Addr, Meta: append([][2]string{}, e.Meta...)}
		}
	}
	if op.Vars != nil {
		cp.Vars = map[string]string{}
		for k, v := range op.Vars {
			cp.Vars[k] = v
		}
	}
	if op.TS != nil {
		ts := *op.TS
		cp.TS = &ts
	}
	return cp
}

// mutMeta changes exactly one entry of a metadata list: add a fresh key, change a value, or remove a key.
func mutMeta(r *rand.Rand, m [][2]string) ([][2]string, string) {
	has := map[string]bool{}
	for _, e := range m {
		has[e[0]] = true
	}
	switch c := r.Intn(3); {
	case c == 0 || len(m) == 0:
		k := "zz-mut"
		for has[k] {
			k += "x"
		}
		return append(append([][2]string{}, m...), [2]string{k, "v"}), "add"
	case c == 1:
		i := r.Intn(len(m))
		cp := append([][2]string{}, m...)
		cp[i] = [2]string{m[i][0], m[i][1] + "~"}
		return cp, "change"
	default:
		i := r.Intn(len(m))
		cp := append([][2]string{}, m[:i]...)
		return append(cp, m[i+1:]...), "remove"
	}
}

// MutateOne returns a copy of a request that differs from it in EXACTLY ONE input
// field (the label names it); the idempotency key, clock, dry-run flag and schema
// version are kept: they are not part of the input.
func MutateOne(r *rand.Rand, prev Op) (Op, string) {
	cp := cloneOp(prev)
	var fields []string
	switch prev.K {
	case KCreateP:
		fields = []string{"postings", "force", "timestamp", "reference", "metadata", "accountMetadata", "accountMetadata", "runtime"}
	case KCreateS:
		fields = []string{"timestamp", "reference", "metadata", "accountMetadata", "accountMetadata", "runtime"}
		if prev.Template != "" {
			fields = append(fields, "template")
		} else {
			fields = append(fields, "script", "script")
		}
		if prev.Vars != nil {
			fields = append(fields, "vars", "vars")
		}
	case KRevert:
		fields = []string{"force", "atEffectiveDate", "id", "metadata"}
	case KSaveTxMeta:
		fields = []string{"id", "metadata"}
	case KSaveAcMeta:
		fields = []string{"address", "metadata"}
	case KDelTxMeta:
		fields = []string{"id", "key"}
	case KDelAcMeta:
		fields = []string{"address", "key"}
	case KSchema:
		fields = []string{"version", "chart", "templates"}
	}
	f := fields[r.Intn(len(fields))]
	sub := ""
	switch f {
	case "postings":
		switch r.Intn(3) {
		case 0:
			cp.Postings[r.Intn(len(cp.Postings))].N += "0"
			sub = "amount"
		case 1:
			cp.Postings = append(cp.Postings, memstore.CPosting{S: "world", D: "fees", A: "COIN", N: "1"})
			sub = "add"
		default:
			i := r.Intn(len(cp.Postings))
			if cp.Postings[i].D == "fees" {
				cp.Postings[i].D = "bank"
			} else {
				cp.Postings[i].D = "fees"
			}
			sub = "destination"
		}
	case "force":
		cp.Force = !cp.Force
	case "timestamp":
		if cp.TS == nil {
			ts := gen.Pick(r, Grid)
			cp.TS = &ts
			sub = "set"
		} else if r.Intn(3) == 0 {
			cp.TS = nil
			sub = "unset"
		} else {
			*cp.TS += 1000000
			sub = "change"
		}
	case "reference":
		cp.Ref += "-mut"
	case "metadata":
		cp.Meta, sub = mutMeta(r, cp.Meta)
	case "accountMetadata":
		switch c := r.Intn(4); {
		case c == 0 || len(cp.AM) == 0:
			a := "orders:x:1"
			for _, e := range cp.AM {
				if e.Addr == a {
					a = "users:002"
				}
			}
			for _, e := range cp.AM {
				if e.Addr == a {
					a = "mut:" + a
				}
			}
			cp.AM = append(cp.AM, memstore.CAccMeta{Addr: a, Meta: [][2]string{{"role", "mut"}}})
			sub = "add-account"
		case c == 1:
			i := r.Intn(len(cp.AM))
			cp.AM = append(append([]memstore.CAccMeta{}, cp.AM[:i]...), cp.AM[i+1:]...)
			if len(cp.AM) == 0 {
				cp.AM = nil
			}
			sub = "remove-account"
		default:
			i := r.Intn(len(cp.AM))
			var s string
			cp.AM[i].Meta, s = mutMeta(r, cp.AM[i].Meta)
			sub = s + "-key"
		}
	case "runtime":
		if cp.Runtime == "" {
			// "machine" only: when the first write did not commit on the ledger at hand (import
			// variants, fault prefixes) the re-send runs for real, and only the machine runtime
			// goes through the recording parser the model takes its oracle from
			_ = r.Intn(2)
			cp.Runtime = "machine"
		} else {
			cp.Runtime = ""
		}
	case "template":
		cp.Template += "X"
	case "script":
		for _, s := range ScriptNames {
			if s != cp.Script && Scripts[s] != Scripts[cp.Script] {
				cp.Script = s
				if r.Intn(3) == 0 {
					break
				}
			}
		}
	case "vars":
		keys := make([]string, 0, len(cp.Vars))
		for k := range cp.Vars {
			keys = append(keys, k)
		}
		sort.Strings(keys)
		switch c := r.Intn(3); {
		case c == 0 || len(keys) == 0:
			cp.Vars["zz"] = "1"
			sub = "add"
		case c == 1:
			cp.Vars[keys[r.Intn(len(keys))]] += "0"
			sub = "change"
		default:
			delete(cp.Vars, keys[r.Intn(len(keys))])
			sub = "remove"
		}
	case "atEffectiveDate":
		cp.AED = !cp.AED
	case "id":
		cp.ID++
	case "address":
		if cp.Addr == "bank" {
			cp.Addr = "fees"
		} else {
			cp.Addr = "bank"
		}
	case "key":
		cp.Key += "x"
	case "version":
		cp.Version += ".1"
	case "chart":
		for _, c := range Charts {
			if c != string(cp.Chart) {
				cp.Chart = json.RawMessage(c)
				break
			}
		}
	case "templates":
		for _, t := range TemplateSets {
			if t != "" && t != string(cp.Templates) {
				cp.Templates = json.RawMessage(t)
				break
			}
		}
	}
	if sub != "" {
		f += ":" + sub
	}
	cp.Mut = f
	return cp, f
}
