//go:build verif

package wlctrl

import (
	"context"
	"encoding/json"

	"github.com/formancehq/ledger/internal/verif/gen"
	"github.com/formancehq/ledger/internal/verif/memstore"
)

// Workload "ctrlfault": for a state reached by a random prefix and one write op
// of each kind: run the op with a fault injected at EVERY store-call position
// (1 … N+1, N = calls of the fault-free run) × {generic error, deadlock,
// cancelled context}, plus once with a failing COMMIT. Each run starts from the
// same state (the prefix is replayed on a fresh ledger).

type FaultIn struct {
	Prop   string           `json:"prop,omitempty"`
	Strict bool             `json:"strict"`
	Prefix []Op             `json:"prefix"`
	Op     Op               `json:"op"`
	Faults []memstore.Fault `json:"faults"`
}

type FaultRun struct {
	Fault memstore.Fault `json:"fault"`
	Fired bool           `json:"fired"`
	Out   OpOut          `json:"out"`
}

type FaultOut struct {
	Prefix []OpOut    `json:"prefix"`
	Base   OpOut      `json:"base"`
	Runs   []FaultRun `json:"runs"`
}

func replayPrefix(strict bool, prefix []Op) (*Env, []OpOut) {
	e := NewEnv(memstore.New(), "l1", strict)
	outs := make([]OpOut, 0, len(prefix))
	for _, op := range prefix {
		outs = append(outs, e.Run(BaseCtx(), op))
	}
	return e, outs
}

func runWithFault(in FaultIn, f memstore.Fault) FaultRun {
	e, _ := replayPrefix(in.Strict, in.Prefix)
	ctx, cancel := context.WithCancel(BaseCtx())
	defer cancel()
	e.B.SetCancel(cancel)
	e.B.InjectFault(f)
	out := e.Run(ctx, in.Op)
	fired := e.B.FaultFired()
	e.B.ClearFault()
	return FaultRun{Fault: f, Fired: fired, Out: out}
}

func RunFaults(in FaultIn) FaultOut {
	e, pouts := replayPrefix(in.Strict, in.Prefix)
	out := FaultOut{Prefix: pouts, Base: e.Run(BaseCtx(), in.Op)}
	for _, f := range in.Faults {
		out.Runs = append(out.Runs, runWithFault(in, f))
	}
	return out
}

func allFaults(nCalls int) []memstore.Fault {
	fs := make([]memstore.Fault, 0, 3*(nCalls+1)+1)
	for k := 1; k <= nCalls+1; k++ {
		for _, kind := range []string{memstore.FaultError, memstore.FaultDeadlock, memstore.FaultCancel} {
			fs = append(fs, memstore.Fault{At: k, Kind: kind})
		}
	}
	fs = append(fs, memstore.Fault{Kind: memstore.FaultCommit})
	// a deadlock at call k, then a failing COMMIT of the retried attempt
	for k := 1; k <= nCalls; k++ {
		fs = append(fs, memstore.Fault{At: k, Kind: memstore.FaultDeadlock, AndCommit: true})
	}
	return fs
}

// genOpOfKind draws ops until one of the wanted kind comes out.
func genOpOfKind(c *gen.Ctx, g *genState, i int, kind string) Op {
	g.force = kind
	defer func() { g.force = "" }()
	for {
		// (an idempotency-key replay may return an op of another kind)
		op := genOp(c, g, i)
		if op.K == kind {
			return op
		}
	}
}

func init() {
	gen.Register("ctrlfault", func(c *gen.Ctx) error {
		if c.Replay != "" {
			ins, err := c.ReplayInputs("ctrlfault")
			if err != nil {
				return err
			}
			for _, raw := range ins {
				var in FaultIn
				if err := json.Unmarshal(raw, &in); err != nil {
					return err
				}
				if Prop != "" {
					in.Prop = Prop
				}
				if err := c.Emit("ctrlfault", in, RunFaults(in)); err != nil {
					return err
				}
			}
			return nil
		}
		for i := 0; i < c.N; i++ {
			in := FaultIn{Prop: Prop, Strict: c.R.Intn(2) == 0}
			e := NewEnv(memstore.New(), "l1", in.Strict)
			g := &genState{}
			n := 3 + c.R.Intn(8)
			if c.Wide {
				n += c.R.Intn(12)
			}
			for j := 0; j < n; j++ {
				op := genOp(c, g, j)
				op.Dry = false
				o := e.Run(BaseCtx(), op)
				g.observe(op, o)
				in.Prefix = append(in.Prefix, op)
			}
			kind := WriteKinds[i%len(WriteKinds)]
			dry := (i/len(WriteKinds))%2 == 1
			// prefer an op that succeeds on this state (up to 6 draws), keep the last draw otherwise
			var op Op
			for try := 0; try < 6; try++ {
				op = genOpOfKind(c, g, n, kind)
				op.Dry = dry
				probe, _ := replayPrefix(in.Strict, in.Prefix)
				o := probe.Run(BaseCtx(), op)
				if o.Resp.Err == "" && o.Resp.Panic == "" && !o.Resp.Hit {
					break
				}
			}
			in.Op = op
			probe, _ := replayPrefix(in.Strict, in.Prefix)
			base := probe.Run(BaseCtx(), op)
			in.Faults = allFaults(len(base.Trace))
			if err := c.Emit("ctrlfault", in, RunFaults(in)); err != nil {
				return err
			}
		}
		return nil
	})
}
