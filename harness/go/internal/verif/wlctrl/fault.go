//go:build verif

package wlctrl

import (
	"context"
	"encoding/json"

	"github.com/formancehq/ledger/internal/verif/gen"
	"github.com/formancehq/ledger/internal/verif/memstore"
)

// Workload "ctrlfault": for a state reached by a random prefix and one write op
// of each kind: run the op with a fault injected at EVERY store-call position
// (1 … N+1, N = calls of the fault-free run) × {generic error, deadlock,
// cancelled context}, plus once with a failing COMMIT. Each run starts from the
// same state (the prefix is replayed on a fresh ledger).

type FaultIn struct {
	Prop   string `json:"prop,omitempty"`
	Strict bool   `json:"strict"`
	Prefix []Op   `json:"prefix"`
	Op     Op     `json:"op"`
	// Plans: each one is a set of one-shot faults armed together for one run of Op
	Plans [][]memstore.Fault `json:"plans"`
}

type FaultRun struct {
	Plan  []memstore.Fault `json:"plan"`
	Fired bool             `json:"fired"`
	Out   OpOut            `json:"out"`
}

type FaultOut struct {
	Prefix []OpOut    `json:"prefix"`
	Base   OpOut      `json:"base"`
	Runs   []FaultRun `json:"runs"`
}

func replayPrefix(strict bool, prefix []Op) (*Env, []OpOut) {
	e := NewEnv(memstore.New(), "l1", strict)
	outs := make([]OpOut, 0, len(prefix))
	for _, op := range prefix {
		outs = append(outs, e.Run(BaseCtx(), op))
	}
	return e, outs
}

func runWithFault(in FaultIn, plan []memstore.Fault) FaultRun {
	e, _ := replayPrefix(in.Strict, in.Prefix)
	ctx, cancel := context.WithCancel(BaseCtx())
	defer cancel()
	e.B.SetCancel(cancel)
	e.B.InjectFaults(plan)
	out := e.Run(ctx, in.Op)
	fired := e.B.FaultFired()
	e.B.ClearFault()
	return FaultRun{Plan: plan, Fired: fired, Out: out}
}

func RunFaults(in FaultIn) FaultOut {
	e, pouts := replayPrefix(in.Strict, in.Prefix)
	out := FaultOut{Prefix: pouts, Base: e.Run(BaseCtx(), in.Op)}
	for _, plan := range in.Plans {
		out.Runs = append(out.Runs, runWithFault(in, plan))
	}
	return out
}

// allPlans: every single fault (each call position 1…N+1 × each kind), the
// failing COMMIT, a deadlock at k followed by a failing COMMIT of the retried
// attempt, and pairs (deadlock at k1 in the first attempt, then a second fault —
// deadlock / error / idempotency-key conflict — at k2 in a later attempt).
func allPlans(c *gen.Ctx, nCalls int) [][]memstore.Fault {
	kinds := []string{memstore.FaultError, memstore.FaultDeadlock, memstore.FaultCancel, memstore.FaultIKConflict}
	ps := make([][]memstore.Fault, 0)
	for k := 1; k <= nCalls+1; k++ {
		for _, kind := range kinds {
			ps = append(ps, []memstore.Fault{{At: k, Kind: kind}})
		}
	}
	ps = append(ps, []memstore.Fault{{Kind: memstore.FaultCommit}})
	for k := 1; k <= nCalls; k++ {
		ps = append(ps, []memstore.Fault{{At: k, Kind: memstore.FaultDeadlock, AndCommit: true}})
	}
	second := []string{memstore.FaultDeadlock, memstore.FaultError, memstore.FaultIKConflict, memstore.FaultDeadlock}
	for k1 := 2; k1 < nCalls; k1++ {
		for j := 0; j < 3; j++ {
			// the retried attempt starts two calls after the failing one (Rollback, BeginTX)
			k2 := k1 + 2 + c.R.Intn(nCalls+1)
			plan := []memstore.Fault{{At: k1, Kind: memstore.FaultDeadlock}, {At: k2, Kind: second[c.R.Intn(len(second))]}}
			if c.R.Intn(4) == 0 {
				k3 := k2 + 2 + c.R.Intn(nCalls+1)
				plan = append(plan, memstore.Fault{At: k3, Kind: second[c.R.Intn(len(second))]})
			}
			ps = append(ps, plan)
		}
	}
	return ps
}

// genOpOfKind draws ops until one of the wanted kind comes out.
func genOpOfKind(c *gen.Ctx, g *genState, i int, kind string) Op {
	g.force = kind
	defer func() { g.force = "" }()
	for {
		// (an idempotency-key replay may return an op of another kind)
		op := genOp(c, g, i)
		if op.K == kind {
			return op
		}
	}
}

func init() {
	gen.Register("ctrlfault", func(c *gen.Ctx) error {
		if c.Replay != "" {
			ins, err := c.ReplayInputs("ctrlfault")
			if err != nil {
				return err
			}
			for _, raw := range ins {
				var in FaultIn
				if err := json.Unmarshal(raw, &in); err != nil {
					return err
				}
				if Prop != "" {
					in.Prop = Prop
				}
				if err := c.Emit("ctrlfault", in, RunFaults(in)); err != nil {
					return err
				}
			}
			return nil
		}
		for i := 0; i < c.N; i++ {
			in := FaultIn{Prop: Prop, Strict: c.R.Intn(2) == 0}
			e := NewEnv(memstore.New(), "l1", in.Strict)
			g := &genState{}
			n := 3 + c.R.Intn(8)
			if c.Wide {
				n += c.R.Intn(12)
			}
			for j := 0; j < n; j++ {
				op := genOp(c, g, j)
				op.Dry = false
				o := e.Run(BaseCtx(), op)
				g.observe(op, o)
				in.Prefix = append(in.Prefix, op)
			}
			kind := WriteKinds[i%len(WriteKinds)]
			dry := (i/len(WriteKinds))%2 == 1
			// C14 / C13: every other case is the refusal the property is about, met under every
			// fault plan (a reference, resp. an idempotency key, committed by the prefix is reused)
			directed := (Prop == "C14" || Prop == "C13") && i%2 == 1
			if directed {
				if i%4 == 1 {
					kind = KCreateP
				} else if Prop == "C14" {
					kind = KCreateS
				}
				dry = false
				if (Prop == "C14" && len(g.refs) == 0) || (Prop == "C13" && len(g.iks) == 0) {
					seedOp := Op{K: KCreateP, Now: int64(1704067200000000 + 10000000*(n+1)), IK: "seed-ik", Ref: "seed-ref",
						Postings: []memstore.CPosting{{S: "world", D: "bank", A: "USD/2", N: "7"}}}
					if len(g.versions) > 0 {
						seedOp.SV = g.versions[len(g.versions)-1]
					}
					o := e.Run(BaseCtx(), seedOp)
					g.observe(seedOp, o)
					in.Prefix = append(in.Prefix, seedOp)
				}
			}
			// prefer an op that succeeds on this state (up to 6 draws), keep the last draw otherwise
			var op Op
			tries := 6
			if (i/(2*len(WriteKinds)))%3 == 2 {
				tries = 1 // every third round: keep whatever the first draw does (naturally failing ops under faults)
			}
			if directed {
				tries = 1
			}
			for try := 0; try < tries; try++ {
				op = genOpOfKind(c, g, n+1, kind)
				op.Dry = dry
				if directed && Prop == "C14" && len(g.refs) > 0 {
					op.Ref = g.refs[c.R.Intn(len(g.refs))]
					op.IK = ""
				}
				if directed && Prop == "C13" && len(g.iks) > 0 {
					op.IK = g.iks[c.R.Intn(len(g.iks))].IK
				}
				if tries == 1 && (kind == KCreateP || kind == KCreateS) && len(g.refs) > 0 {
					// a create that reuses a reference: its own failure must survive the retry path
					op.Ref = g.refs[c.R.Intn(len(g.refs))]
					op.IK = ""
				}
				probe, _ := replayPrefix(in.Strict, in.Prefix)
				o := probe.Run(BaseCtx(), op)
				if o.Resp.Err == "" && o.Resp.Panic == "" && !o.Resp.Hit {
					break
				}
			}
			in.Op = op
			probe, _ := replayPrefix(in.Strict, in.Prefix)
			base := probe.Run(BaseCtx(), op)
			in.Plans = allPlans(c, len(base.Trace))
			if err := c.Emit("ctrlfault", in, RunFaults(in)); err != nil {
				return err
			}
		}
		return nil
	})
}
